/-
  C19 (evaluating model) — The command line prints exactly what the library computes.

  `Model.Cli2.cliEval env args` is what `main(argv)` prints (or how it fails) for ISO 8601 input,
  composed from the value models of the library (point parser with dump_as_parsed, strptime for the
  two built-in ISO-like formats, duration parser and `str`, point
  arithmetic, recurrences, dumper, strftime).  The driver op `clieval` runs it; it was compared with
  the real `metomi.isodatetime.main.main(argv)` in-process on generated command lines.  The
  theorems below are about that function:

    C19_eval_shift        one date-time + offsets: the line is the (print | as-parsed) format of
                          the left fold of `+` over the signed offsets, starting at the parsed point
    C19_eval_as_written   no offsets, no print format: a complete date form + whole-unit time form
                          (+ zone form), in any of the parser's notations, prints back letter for
                          letter (through C07c's dump_as_parsed round trip)
    C19_eval_diff         two date-times: the line is `str(D)` for the signed D with first + D at
                          the instant of second (C04/C02); `--as-total=U` prints `repr(seconds / U)`
    C19_eval_as_total     a duration + `--as-total=U`
    C19_eval_recurrence   a recurrence: the first N points in order, each through the print format
    C19_eval_errors_*     every component failure is the command's failure: exit with a message
    C19_eval_outcomes     no other outcome: printed lines | exit-with-message | outside the model |
                          exactly two traceback paths of the Python that exists (both witnessed)
    C19_eval_never_arith  no point operation ever fails (`ExitClass.arith` is unreachable)

  Domain of the model: see the header of `Model/Cli2.lean`.  The local time zone and Python's
  `repr(float)` are parameters (`Env.localTZ`, `Env.floatRepr`).
-/
import IsoDT.Lemmas.Cli2
import IsoDT.Props.C19
import IsoDT.Props.C10
import IsoDT.Props.C07c

namespace IsoDT.Props.C19b
open IsoDT IsoDT.Model IsoDT.Model.Cli IsoDT.Model.Cli2 IsoDT.Lemmas IsoDT.Lemmas.Cli2
open IsoDT.Spec (Date TZ TP)
open IsoDT.Props.C19

/-! ## One date-time and offsets -/

theorem not_stdin_of_single (a : Args) (i : Str) (hi : a.items = [i]) (hd : i ≠ ['-']) : a.items ≠ [['-']] := by
  rw [hi]; intro h; exact hd (List.cons.inj h).1

/-- **C19_eval_shift.**  A date-time argument `i` (not `now`, not a recurrence) with any number of
    offsets: let `P` be what `date_parse` reads (`P.tp` the point, `P.fmt` the notation it was
    written in) and `ds` the signed durations of the offsets in the order given.  Then
    `q = P.tp + ds₁ + ds₂ + …` exists, is a real date-time in the zone of `P.tp`, and the command
    prints exactly one line: `q` in the print format if one is given, otherwise in `P.fmt` —
    "printed shifted by those offsets in the same notation it was written in unless a print format
    is given".  (`formatPoint` is `date_format`: `%` formats through strftime, others through the
    dumper.) -/
theorem C19_eval_shift (env : Env) (a : Args) (i : Str) (st : Setup) (P : Parsed) (ds : List Dur)
    (hv : a.version = false) (hi : a.items = [i]) (hdash : i ≠ ['-']) (hr : i.head? ≠ some 'R')
    (ht : a.asTotal = none) (hst : setup env a = .ok st) (hl : env.localTZ.Valid)
    (hp : dateParse st i = .ok P) (hd : offsetDurs st.mode (readOffsets a.offsets1) = .ok ds) :
    ∃ q, addAll st.mode P.tp ds = .ok q ∧ q.Valid st.mode ∧ q.tz = P.tp.tz ∧
      cliEval env a =
        (formatPoint st.mode P.ned q ((given a.printFormat).getD P.fmt)).map fun s => [s] := by
  have hloc : st.loc.Valid := by rw [(setup_spec env a st hst).2.2.1]; exact hl
  obtain ⟨q, hq, hqv, hqt, _⟩ := addAll_valid st.mode ds P.tp (dateParse_valid st i P hloc hp)
  refine ⟨q, hq, hqv, hqt, ?_⟩
  rw [cliEval_eq env a st hv (not_stdin_of_single a i hi hdash) hst, C19_shift a i hv hi hr ht]
  simp only [evalPlan, shiftPrint, hp, applyOffsets_eq st.mode _ ds P.tp hd, hq]

/-- The offsets really are read as C19 says: in order, empty ones skipped, `\` protection removed,
    a leading `-` negating the duration that follows. -/
theorem C19_eval_offset_meaning (m : Mode) (o : Offset) (d : Dur) (hp : plain o.duration = true)
    (h : DurText.parse m o.duration = .ok d) :
    offsetDur m o = .ok (if o.negative then d.mul (-1) else d) := by
  unfold offsetDur
  simp [hp, h]

/-! ## Two date-times -/

theorem neg_abs_nonneg (dd hh mm ss : Int) (h : 0 ≤ dd ∧ 0 ≤ hh ∧ 0 ≤ mm ∧ 0 ≤ ss) :
    (Dur.units 0 0 dd hh mm ss).neg.abs = .units 0 0 dd hh mm ss := by
  simp only [Dur.neg, Dur.mul, Dur.abs]
  congr 1 <;> omega

/-- `"-" + str(d)` is `str(-d)` for a non-zero `d` without negative slots. -/
theorem signed_text (dd hh mm ss : Int) (h : 0 ≤ dd ∧ 0 ≤ hh ∧ 0 ≤ mm ∧ 0 ≤ ss)
    (hnz : (Dur.units 0 0 dd hh mm ss).nonzero = true) :
    '-' :: DurText.toText (.units 0 0 dd hh mm ss) = DurText.toText (Dur.units 0 0 dd hh mm ss).neg := by
  have hnz' : (Dur.units 0 0 dd hh mm ss).neg.nonzero = true := by
    simp only [Dur.neg, Dur.mul, Dur.nonzero, Bool.or_eq_true, bne_iff_ne, ne_eq, not_true_eq_false,
      false_or, Int.zero_mul] at hnz ⊢
    omega
  have hneg : DurText.fullyNegLoop (DurText.comps (Dur.units 0 0 dd hh mm ss).neg) false = true := by
    rw [DurText.fnl_nonpos]
    · simp only [Dur.neg, Dur.mul, Dur.nonzero, Bool.or_eq_true, bne_iff_ne, ne_eq, DurText.comps,
        Bool.false_or, List.any_cons, List.any_nil, Bool.or_false, decide_eq_true_eq, not_true_eq_false,
        false_or, Int.zero_mul, Int.lt_irrefl] at hnz ⊢
      omega
    · intro v hv
      simp only [Dur.neg, Dur.mul, DurText.comps, List.mem_cons, List.not_mem_nil, or_false] at hv
      omega
  rw [C10.C10_str_negative _ hnz' hneg, neg_abs_nonneg dd hh mm ss h]

/-- **C19_eval_diff.**  Two date-time arguments (the first shifted by the `--offset1`s, the second
    by the `--offset2`s, giving `q1`, `q2`), no print format: there is a signed duration `D` of
    days, hours, minutes and seconds with

      * `q1 + D` lands on the instant of `q2` and compares equal to it (C04, C02), and `D`'s length
        in seconds is the signed distance between the instants;
      * without `--as-total` the command prints exactly `str(D)`;
      * with `--as-total=U` (U one of `s m h S M H`, distance below 2^53 s) it prints
        `repr(seconds(D) / unitSeconds(U))` (`Env.floatRepr`, Python's float formatting). -/
theorem C19_eval_diff (env : Env) (a : Args) (i1 i2 : Str) (rest : List Str) (st : Setup)
    (P1 P2 : Parsed) (ds1 ds2 : List Dur)
    (hv : a.version = false) (hi : a.items = i1 :: i2 :: rest) (hst : setup env a = .ok st)
    (hl : env.localTZ.Valid) (hp1 : dateParse st i1 = .ok P1) (hp2 : dateParse st i2 = .ok P2)
    (hd1 : offsetDurs st.mode (readOffsets a.offsets1) = .ok ds1)
    (hd2 : offsetDurs st.mode (readOffsets a.offsets2) = .ok ds2) (hpf : given a.printFormat = none) :
    ∃ q1 q2 D, addAll st.mode P1.tp ds1 = .ok q1 ∧ addAll st.mode P2.tp ds2 = .ok q2 ∧
      q1.Valid st.mode ∧ q2.Valid st.mode ∧
      (∃ r, addDur st.mode q1 D = some r ∧ r.inst st.mode = q2.inst st.mode ∧ cmp st.mode r q2 = some 0) ∧
      D.isExact = true ∧ D.exactSeconds st.mode = q2.inst st.mode - q1.inst st.mode ∧
      (given a.asTotal = none → cliEval env a = .ok [DurText.toText D]) ∧
      (∀ u k, given a.asTotal = some u → plain u = true → unitDivisor u = some k →
        (q2.inst st.mode - q1.inst st.mode).natAbs < 2 ^ 53 →
        cliEval env a = .ok [env.floatRepr (q2.inst st.mode - q1.inst st.mode) k]) := by
  have hss := setup_spec env a st hst
  have hloc : st.loc.Valid := by rw [hss.2.2.1]; exact hl
  obtain ⟨q1, hq1, hv1, _⟩ := addAll_valid st.mode ds1 P1.tp (dateParse_valid st i1 P1 hloc hp1)
  obtain ⟨q2, hq2, hv2, _⟩ := addAll_valid st.mode ds2 P2.tp (dateParse_valid st i2 P2 hloc hp2)
  obtain ⟨neg, dd, hh, mm, ss, hdd, hneg, hb, hlen, hnz, r, hr, hri, hrc⟩ := dateDiff_spec st.mode q1 q2 hv1 hv2
  have hne : a.items ≠ [['-']] := by rw [hi]; intro h; cases h
  have hsec : ∀ (x : Dur), x = (if neg then (Dur.units 0 0 dd hh mm ss).neg else .units 0 0 dd hh mm ss) →
      x.isExact = true ∧ x.exactSeconds st.mode = q2.inst st.mode - q1.inst st.mode := by
    intro x hx
    subst hx
    cases neg with
    | true =>
      simp only [↓reduceIte, Dur.neg, Dur.mul, Dur.isExact, Dur.exactSeconds, secondsInDay_eq,
        secondsInHour_eq, secondsInMinute_eq] at hlen ⊢
      refine ⟨by decide, ?_⟩
      omega
    | false =>
      simp only [Bool.false_eq_true, ↓reduceIte, Dur.isExact, Dur.exactSeconds, secondsInDay_eq,
        secondsInHour_eq, secondsInMinute_eq] at hlen ⊢
      refine ⟨by decide, ?_⟩
      omega
  -- the printed text is str(D)
  have htext : signText neg ++ DurText.toText (.units 0 0 dd hh mm ss) =
      DurText.toText (if neg then (Dur.units 0 0 dd hh mm ss).neg else .units 0 0 dd hh mm ss) := by
    cases neg with
    | true =>
      simp only [signText, ↓reduceIte, List.singleton_append]
      exact signed_text dd hh mm ss (by omega) (hnz rfl)
    | false => simp [signText]
  have hcli : cliEval env a =
      (match given a.asTotal with
       | some u => formatDurationStr st (DurText.toText
            (if neg then (Dur.units 0 0 dd hh mm ss).neg else .units 0 0 dd hh mm ss)) u
       | none => .ok (DurText.toText
            (if neg then (Dur.units 0 0 dd hh mm ss).neg else .units 0 0 dd hh mm ss))).map fun s => [s] := by
    rw [cliEval_eq env a st hv hne hst, C19_diff a i1 i2 rest hv hi]
    simp only [evalPlan, diffPrint, hp1, hp2, applyOffsets_eq st.mode _ ds1 P1.tp hd1, hq1,
      applyOffsets_eq st.mode _ ds2 P2.tp hd2, hq2, hdd, hpf, htext]
    cases given a.asTotal <;> rfl
  refine ⟨q1, q2, _, hq1, hq2, hv1, hv2, ⟨r, hr, hri, hrc⟩, (hsec _ rfl).1, (hsec _ rfl).2, ?_, ?_⟩
  · intro hnone
    rw [hcli, hnone]; rfl
  · intro u k hu hpu hk hsmall
    rw [hcli, hu]
    simp only
    -- str(D) parses back to D (C10), so the total is D's length in seconds
    generalize hD : (if neg then (Dur.units 0 0 dd hh mm ss).neg else Dur.units 0 0 dd hh mm ss) = D
    have hform : ∃ y mo d h mi s, D = .units y mo d h mi s ∧ C10.SingleSigned D ∧ C10.TimeExact D := by
      subst hD
      cases neg with
      | true =>
        refine ⟨_, _, _, _, _, _, rfl, ?_, ?_⟩
        · simp only [↓reduceIte, Dur.neg, Dur.mul, C10.SingleSigned]; right; omega
        · simp only [↓reduceIte, Dur.neg, Dur.mul]
          exact C10.timeExact_of_lt _ _ _ _ _ _ (by omega) (by omega) (by omega)
      | false =>
        refine ⟨_, _, _, _, _, _, rfl, ?_, ?_⟩
        · simp only [Bool.false_eq_true, ↓reduceIte, C10.SingleSigned]; left; omega
        · simp only [Bool.false_eq_true, ↓reduceIte]
          exact C10.timeExact_of_lt _ _ _ _ _ _ (by omega) (by omega) (by omega)
    obtain ⟨y, mo, d, h, mi, s, hDu, hsg, hex⟩ := hform
    obtain ⟨hparse, _, _, _⟩ := C10.C10_roundtrip st.mode D hsg hex
    have hDsec := hsec D hD.symm
    have hnormal : (C10.normal D).seconds st.mode = q2.inst st.mode - q1.inst st.mode ∧
        ∃ y mo d h mi s, C10.normal D = .units y mo d h mi s := by
      unfold C10.normal
      by_cases hz : D.nonzero = true
      · rw [if_pos hz]
        refine ⟨?_, y, mo, d, h, mi, s, hDu⟩
        unfold Dur.seconds; rw [hDsec.1]; exact hDsec.2
      · rw [if_neg hz]
        refine ⟨?_, 0, 0, 0, 0, 0, 0, rfl⟩
        have : D.exactSeconds st.mode = 0 := by
          rw [hDu] at hz ⊢
          simp only [Dur.nonzero, Bool.or_eq_true, bne_iff_ne, ne_eq, not_or, Decidable.not_not] at hz
          obtain ⟨⟨⟨⟨⟨rfl, rfl⟩, rfl⟩, rfl⟩, rfl⟩, rfl⟩ := hz
          simp [Dur.exactSeconds]
        rw [← hDsec.2, this]
        simp [Dur.seconds, Dur.isExact, Dur.exactSeconds]
    obtain ⟨hns, y', mo', d', h', mi', s', hnu⟩ := hnormal
    have hpl := toText_plain D
    unfold formatDurationStr
    simp only [hpl.1, hpu, Bool.not_true, Bool.or_self, Bool.false_eq_true, ↓reduceIte, hpl.2, hparse, hns]
    have : ¬ (q2.inst st.mode - q1.inst st.mode).natAbs ≥ 2 ^ 53 := by omega
    simp only [this, ↓reduceIte, hk, Except.map]
    congr 2
    unfold totalText
    rw [hnu] at hns ⊢
    simp only [hns, hss.2.2.2.2.1]


/-! ## A duration and `--as-total` -/

/-- **C19_eval_as_total.**  A single duration argument with `--as-total=U`: the duration parser's
    value `d` of the argument (backslashes removed) is printed as `seconds(d) / unitSeconds(U)`:
    a week-form duration in seconds is a Python `int`, everything else `repr` of a float; a unit
    other than `s m h S M H` is refused with a message. -/
theorem C19_eval_as_total (env : Env) (a : Args) (i u : Str) (st : Setup) (d : Dur)
    (hv : a.version = false) (hi : a.items = [i]) (hdash : i ≠ ['-']) (hr : i.head? ≠ some 'R')
    (ht : a.asTotal = some u) (hu : u ≠ []) (hst : setup env a = .ok st)
    (hpi : plain i = true) (hpu : plain u = true) (hparse : DurText.parse st.mode (unescape i) = .ok d)
    (hsmall : (d.seconds st.mode).natAbs < 2 ^ 53) :
    cliEval env a =
      (match unitDivisor u with
       | some k => .ok [totalText st d k]
       | none => .error (.exit .unit)) ∧
    (∀ w, d = .weeks w → totalText st d 1 = DurText.intText (d.seconds st.mode)) ∧
    (∀ k, (∀ w, d ≠ .weeks w) ∨ k ≠ 1 → totalText st d k = env.floatRepr (d.seconds st.mode) k) := by
  refine ⟨?_, ?_, ?_⟩
  · rw [cliEval_eq env a st hv (not_stdin_of_single a i hi hdash) hst, C19_as_total a i u hv hi hr ht]
    have hue : u.isEmpty = false := by cases u <;> simp_all
    have : ¬ (d.seconds st.mode).natAbs ≥ 2 ^ 53 := by omega
    simp only [evalPlan, hue, Bool.false_eq_true, ↓reduceIte, formatDurationStr, hpi, hpu, Bool.not_true,
      Bool.or_self, hparse, this]
    cases unitDivisor u <;> rfl
  · intro w hw; subst hw; rfl
  · intro k hk
    have hf := (setup_spec env a st hst).2.2.2.2.1
    unfold totalText
    split
    · rename_i w
      rcases hk with hk | hk
      · exact absurd rfl (hk w)
      · exact absurd rfl hk
    · rw [hf]

/-! ## A recurrence -/

/-- **C19_eval_recurrence.**  A recurrence argument that `TimeRecurrenceParser` reads as `R`: with
    `n` = `--max` (at least 1), the command prints the first `n` points of `R` (fewer if it has
    fewer) in iteration order — the same points, in the same order, as the first `n` of any longer
    run — one per line, each through the print format if given and `str()` otherwise; a point that
    cannot be printed is the command's failure. -/
theorem C19_eval_recurrence (env : Env) (a : Args) (i : Str) (st : Setup) (R : ParsedRec)
    (hv : a.version = false) (hi : a.items = [i]) (hr : i.head? = some 'R')
    (hst : setup env a = .ok st) (hR : parseRec st i = .ok R) :
    let n := printedCount a.maxResults none
    let pts := iter st.mode R.r n
    cliEval env a = mapRes (formatRecPoint st.mode R.ned a.printFormat) pts ∧
    pts.length ≤ n ∧ (∀ k, pts = (iter st.mode R.r (n + k)).take n) ∧
    (∀ lines, cliEval env a = .ok lines → lines.length = pts.length ∧
      ∀ (j : Nat) (h1 : j < pts.length) (h2 : j < lines.length),
        formatRecPoint st.mode R.ned a.printFormat pts[j] = .ok lines[j]) := by
  intro n pts
  have hdash : i ≠ ['-'] := by intro e; subst e; simp at hr
  have hcli : cliEval env a = mapRes (formatRecPoint st.mode R.ned a.printFormat) pts := by
    rw [cliEval_eq env a st hv (not_stdin_of_single a i hi hdash) hst, C19_recurrence a i hv hi hr]
    simp only [evalPlan, recPrint, hR]
    rfl
  refine ⟨hcli, iter_length_le _ _ _, fun k => iter_take _ _ _ k, ?_⟩
  intro lines hl
  rw [hcli] at hl
  exact mapRes_ok _ _ _ hl

/-- How the print format applies to a recurrence point. -/
theorem C19_eval_recurrence_format (m : Mode) (ned : Nat) (pf : Option Str) (p : TP) :
    (∀ f, given pf = some f → formatRecPoint m ned pf p = formatPoint m ned p f) ∧
    (given pf = none → formatRecPoint m ned pf p = strPoint m ned p) := by
  refine ⟨fun f h => ?_, fun h => ?_⟩ <;> simp [formatRecPoint, h]

/-! ## Failures -/

/-- **C19_eval_errors (items).**  An item that cannot be read is the command's failure, and that
    failure is benign: an exit with a message (or an input outside the model) — never a traceback.
    Covers the single date-time shape; `C19_eval_errors_diff` the two-item shape. -/
theorem C19_eval_errors_item (env : Env) (a : Args) (i : Str) (st : Setup) (f : Fail)
    (hv : a.version = false) (hi : a.items = [i]) (hdash : i ≠ ['-']) (hr : i.head? ≠ some 'R')
    (ht : a.asTotal = none) (hst : setup env a = .ok st) (hl : env.localTZ.Valid)
    (hp : dateParse st i = .error f) : cliEval env a = .error f ∧ Benign f := by
  have hloc : st.loc.Valid := by rw [(setup_spec env a st hst).2.2.1]; exact hl
  refine ⟨?_, dateParse_benign st i f hloc hp⟩
  rw [cliEval_eq env a st hv (not_stdin_of_single a i hi hdash) hst, C19_shift a i hv hi hr ht]
  simp only [evalPlan, shiftPrint, hp]
  rfl

/-- What "cannot be read" means for an ISO 8601 text: neither built-in strptime format applies and
    the ISO 8601 parser refuses it; the command then exits with the parser's message. -/
theorem C19_eval_errors_point (st : Setup) (s : Str) (hp : plain s = true) (hr : s ≠ "ref".toList)
    (hn : s ≠ "now".toList) (h1 : tryStrp st s fmtExt = none) (h2 : tryStrp st s fmtBasic = none)
    (h3 : Text.parse st.textCfg s true = none) : dateParse st s = .error (.exit .point) := by
  unfold dateParse
  simp only [hr, ↓reduceIte, hn, hp, Bool.not_true, Bool.false_eq_true, parseAny, h1, h2, parseIso, h3]

/-- **C19_eval_errors (offsets).**  A malformed offset anywhere in the list (those before it being
    durations) ends the command with "bad offset value". -/
theorem C19_eval_errors_offset (env : Env) (a : Args) (i : Str) (st : Setup) (P : Parsed)
    (pre post : List Offset) (o : Offset) (ds : List Dur)
    (hv : a.version = false) (hi : a.items = [i]) (hdash : i ≠ ['-']) (hr : i.head? ≠ some 'R')
    (ht : a.asTotal = none) (hst : setup env a = .ok st) (hl : env.localTZ.Valid)
    (hp : dateParse st i = .ok P) (hoffs : readOffsets a.offsets1 = pre ++ o :: post)
    (hpre : offsetDurs st.mode pre = .ok ds) (hplain : plain o.duration = true)
    (hbad : DurText.parse st.mode o.duration = .syntaxErr ∨ DurText.parse st.mode o.duration = .valueErr) :
    cliEval env a = .error (.exit .offset) := by
  have hloc : st.loc.Valid := by rw [(setup_spec env a st hst).2.2.1]; exact hl
  rw [cliEval_eq env a st hv (not_stdin_of_single a i hi hdash) hst, C19_shift a i hv hi hr ht]
  simp only [evalPlan, shiftPrint, hp, hoffs,
    applyOffsets_bad st.mode pre o post ds hpre (offsetDur_bad st.mode o hplain hbad) P.tp
      (dateParse_valid st i P hloc hp)]
  rfl

/-- **C19_eval_errors (two items).**  With two items, the first failure in the order
    item 1, item 2, offsets of item 1, offsets of item 2 is the command's failure. -/
theorem C19_eval_errors_diff (env : Env) (a : Args) (i1 i2 : Str) (rest : List Str) (st : Setup)
    (hv : a.version = false) (hi : a.items = i1 :: i2 :: rest) (hst : setup env a = .ok st) :
    (∀ f, dateParse st i1 = .error f → cliEval env a = .error f) ∧
    (∀ P1 f, dateParse st i1 = .ok P1 → dateParse st i2 = .error f → cliEval env a = .error f) ∧
    (∀ P1 P2 f, dateParse st i1 = .ok P1 → dateParse st i2 = .ok P2 →
      applyOffsets st.mode P1.tp (readOffsets a.offsets1) = .error f → cliEval env a = .error f) ∧
    (∀ P1 P2 q1 f, dateParse st i1 = .ok P1 → dateParse st i2 = .ok P2 →
      applyOffsets st.mode P1.tp (readOffsets a.offsets1) = .ok q1 →
      applyOffsets st.mode P2.tp (readOffsets a.offsets2) = .error f → cliEval env a = .error f) := by
  have hne : a.items ≠ [['-']] := by rw [hi]; intro h; cases h
  have e := cliEval_eq env a st hv hne hst
  rw [C19_diff a i1 i2 rest hv hi] at e
  refine ⟨?_, ?_, ?_, ?_⟩
  · intro f h1; rw [e]; simp only [evalPlan, diffPrint, h1]; rfl
  · intro P1 f h1 h2; rw [e]; simp only [evalPlan, diffPrint, h1, h2]; rfl
  · intro P1 P2 f h1 h2 h3; rw [e]; simp only [evalPlan, diffPrint, h1, h2, h3]; rfl
  · intro P1 P2 q1 f h1 h2 h3 h4; rw [e]; simp only [evalPlan, diffPrint, h1, h2, h3, h4]; rfl

/-- **C19_eval_errors (recurrence).**  A recurrence text that cannot be read (no regex matches, an
    end point / interval that is not one, a constructor refusal) is the command's failure, with a
    message. -/
theorem C19_eval_errors_recurrence (env : Env) (a : Args) (i : Str) (st : Setup) (f : Fail)
    (hv : a.version = false) (hi : a.items = [i]) (hr : i.head? = some 'R')
    (hst : setup env a = .ok st) (hR : parseRec st i = .error f) :
    cliEval env a = .error f ∧ Benign f := by
  have hdash : i ≠ ['-'] := by intro e; subst e; simp at hr
  refine ⟨?_, parseRec_benign st i f hR⟩
  rw [cliEval_eq env a st hv (not_stdin_of_single a i hi hdash) hst, C19_recurrence a i hv hi hr]
  simp only [evalPlan, recPrint, hR]

/-- **C19_eval_errors (unit).**  An `--as-total` unit other than `s m h S M H` is refused with a
    message (after the duration was read; `argparse` already restricts the option's values). -/
theorem C19_eval_errors_unit (st : Setup) (text unit : Str) (d : Dur) (hp : plain text = true)
    (hpu : plain unit = true) (hparse : DurText.parse st.mode (unescape text) = .ok d)
    (hsmall : (d.seconds st.mode).natAbs < 2 ^ 53) (hu : unitDivisor unit = none) :
    formatDurationStr st text unit = .error (.exit .unit) := by
  have : ¬ (d.seconds st.mode).natAbs ≥ 2 ^ 53 := by omega
  simp only [formatDurationStr, hp, hpu, Bool.not_true, Bool.or_self, Bool.false_eq_true, ↓reduceIte,
    hparse, this, hu]

/-- **C19_eval_outcomes: there is no other outcome.**  `cliEval` is a total function, so every
    invocation has an outcome; if it is not a list of printed lines it is one of: a benign failure
    (exit with a message, or outside the model), the `KeyError` of an unknown calendar name, or the
    `OverflowError` of `str()` on a recurrence point without a print format.  The last two are
    tracebacks of the Python that exists — "never a traceback" is FALSE of the code; see the
    witnesses below. -/
theorem C19_eval_outcomes (env : Env) (a : Args) (hl : env.localTZ.Valid) :
    (∃ lines, cliEval env a = .ok lines) ∨
    (∃ f, cliEval env a = .error f ∧ Benign f) ∨
    (cliEval env a = .error (.traceback .keyError) ∧
      resolveMode (ctxOf a env.envCalendar env.envRef).calendar = .error (.traceback .keyError)) ∨
    (cliEval env a = .error (.traceback .overflowError) ∧ given a.printFormat = none ∧
      ∃ i, plan a = .recurrence i a.printFormat a.maxResults) := by
  cases h : cliEval env a with
  | ok lines => exact .inl ⟨lines, rfl⟩
  | error f =>
    rcases cliEval_error_cases env a f hl h with h' | ⟨h1, h2⟩ | ⟨h1, h2⟩
    · exact .inr (.inl ⟨f, rfl, h'⟩)
    · subst h1; exact .inr (.inr (.inl ⟨rfl, h2⟩))
    · subst h1; exact .inr (.inr (.inr ⟨rfl, h2⟩))

/-- **No point operation ever fails**: conversion to UTC, adding offsets, comparing and
    subtracting are total on the points the command reads (C01, C02, C04), so the command never
    ends in `ExitClass.arith`. -/
theorem C19_eval_never_arith (env : Env) (a : Args) (hl : env.localTZ.Valid) :
    cliEval env a ≠ .error (.exit .arith) := by
  intro h
  rcases cliEval_error_cases env a _ hl h with h' | ⟨h1, _⟩ | ⟨h1, _⟩
  · exact h'
  · cases h1
  · cases h1

/-- With a recognised calendar name (or none) and a print format, or for any argument that is not
    a recurrence, the command never ends in a traceback. -/
theorem C19_eval_no_traceback_partial_known_calendar (env : Env) (a : Args) (hl : env.localTZ.Valid)
    (t : TbClass) (m : Mode) (hcal : resolveMode (ctxOf a env.envCalendar env.envRef).calendar = .ok m)
    (hrec : given a.printFormat ≠ none ∨ ∀ i, plan a ≠ .recurrence i a.printFormat a.maxResults) :
    cliEval env a ≠ .error (.traceback t) := by
  intro h
  rcases cliEval_error_cases env a _ hl h with h' | ⟨_, h2⟩ | ⟨_, h2, i, h3⟩
  · exact h'
  · rw [hcal] at h2; cases h2
  · rcases hrec with h4 | h4
    · exact h4 h2
    · exact h4 i h3


/-! ## Printed as written -/

section asWritten
open IsoDT.Text IsoDT.Props.C07
open _root_.IsoDT.Gen.Templates (parserTables)

def exprSame (a b : Option Expr) : Bool :=
  match a, b with
  | some a, some b => decide (a.segs = b.segs) && decide (a.props = b.props) && decide (a.customTZ = b.customTZ)
  | _, _ => false

/-- For the parser the command uses: every as-parsed expression text of a date form WITHOUT expanded
    year digits (the point then carries 0 expanded digits, and `str` would use the dumper for 0 digits)
    is compiled by the command's dumper (2 digits) to the same printf expression; and every as-parsed
    expression text is made of printable characters. -/
def cliExprOK : Bool :=
  match dumpTablesFor 2, dumpTablesFor 0 with
  | some d2, some d0 =>
    defaultTables.dateEntries.all fun de => de.typ != .complete ||
      defaultTables.timeEntries.all fun te => te.typ == .truncated || te.fmt != de.fmt ||
        (zoneOpts defaultTables de.fmt).all fun zo =>
          plainSp (fmtOf de (some te) zo) &&
          (hasGroup de.tmpl .expandedYear ||
            exprSame (getExpr d2 (fmtOf de (some te) zo)) (getExpr d0 (fmtOf de (some te) zo)))
  | _, _ => false

set_option maxRecDepth 100000 in
theorem cliExprOK_true : cliExprOK = true := by decide +kernel

theorem defaultTables_eq : defaultTables = Gen.Templates.parser_2_all := by rfl
theorem defaultTables_mem : defaultTables ∈ parserTables := by rw [defaultTables_eq]; exact .tail _ (.tail _ (.head _))
theorem defaultTables_ned : defaultTables.ned = 2 := by rw [defaultTables_eq]; rfl


theorem exprSame_eq (a b : Option Expr) (h : exprSame a b = true) : a = b ∧ a.isSome = true := by
  unfold exprSame at h
  split at h
  · rename_i x y
    simp only [Bool.and_eq_true, decide_eq_true_eq] at h
    obtain ⟨⟨h1, h2⟩, h3⟩ := h
    obtain ⟨s1, p1, c1⟩ := x
    obtain ⟨s2, p2, c2⟩ := y
    simp only at h1 h2 h3
    subst h1 h2 h3
    exact ⟨rfl, rfl⟩
  · cases h

theorem cliExpr_spec (de : Entry) (hde : de ∈ defaultTables.dateEntries) (hdc : de.typ = .complete)
    (te : Entry) (hte : te ∈ defaultTables.timeEntries) (htt : te.typ ≠ .truncated) (htf : te.fmt = de.fmt)
    (zo : Option ZEntry) (hzo : ∀ ze, zo = some ze → ze ∈ defaultTables.zoneEntries ∧ ze.fmt = de.fmt) :
    plainSp (fmtOf de (some te) zo) = true ∧
    (hasGroup de.tmpl .expandedYear = false → ∃ d2 d0, dumpTablesFor 2 = some d2 ∧ dumpTablesFor 0 = some d0 ∧
      getExpr d2 (fmtOf de (some te) zo) = getExpr d0 (fmtOf de (some te) zo)) := by
  have hk := cliExprOK_true
  unfold cliExprOK at hk
  split at hk
  · rename_i d2 d0 h2 h0
    simp only [List.all_eq_true, Bool.or_eq_true, bne_iff_ne, ne_eq, beq_iff_eq, Bool.and_eq_true] at hk
    have hmem : zo ∈ zoneOpts defaultTables de.fmt := by
      cases zo with
      | none => exact List.mem_cons_self ..
      | some ze =>
        obtain ⟨h1, h2⟩ := hzo ze rfl
        exact List.mem_cons_of_mem _ (List.mem_map.mpr ⟨ze, List.mem_filter.mpr ⟨h1, by simp [h2]⟩, rfl⟩)
    rcases hk de hde with h | h
    · exact absurd hdc h
    · rcases h te hte with (h | h) | h
      · exact absurd h htt
      · exact absurd htf h
      · obtain ⟨hp, hx⟩ := h zo hmem
        refine ⟨hp, fun hno => ⟨d2, d0, h2, h0, ?_⟩⟩
        rcases hx with hx | hx
        · rw [hno] at hx; cases hx
        · exact (exprSame_eq _ _ hx).1
  · cases hk

theorem dumpExpr_ned (m : Mode) (d d' : DumpTables) (p : XTP) (e : Expr)
    (h : e.props.contains .expandedYearDigits = false) : dumpExpr m d p e = dumpExpr m d' p e := by
  rw [dumpExpr_eq, dumpExpr_eq]
  have : stage3 m d e = stage3 m d' e := by
    funext q
    unfold stage3
    have h' : ¬ DProp.expandedYearDigits ∈ e.props := by simpa using h
    simp [h']
  rw [this]

/-- **C19_eval_as_written — "in the same notation it was written in", to the letter.**
    Take any complete date form `de` of the command's parser (calendar, ordinal or week date; basic
    or extended; with or without a signed expanded year), any non-truncated time form `te` of the
    same format without a decimal fraction (`hh`, `hhmm`, `hhmmss` / `hh:mm`, `hh:mm:ss`), any zone
    form `zo` of that format or none, and any values `v` that fit the widths and form a real
    date-time of the selected calendar mode; let `s` be the text these forms spell for `v` (no `-` on
    an all-zero year or zone).  If `s` is not one of the two notations the built-in strptime formats
    read (`tryStrp … = none`; those are printed through strftime instead), then
    `isodatetime s` — no offsets, no print format, no `--utc` — prints exactly `s`. -/
theorem C19_eval_as_written (env : Cli2.Env) (a : Cli.Args) (st : Setup) (s : Str)
    (de : Entry) (hde : de ∈ defaultTables.dateEntries) (hdc : de.typ = .complete)
    (te : Entry) (hte : te ∈ defaultTables.timeEntries) (htt : te.typ ≠ .truncated) (htf : te.fmt = de.fmt)
    (hnd : ∀ f, isDecFld f = true → hasGroup te.tmpl f = false)
    (zo : Option ZEntry) (hzo : ∀ ze, zo = some ze → ze ∈ defaultTables.zoneEntries ∧ ze.fmt = de.fmt)
    (v : Vals) (hvf : v.Fit 2) (tz : TZ)
    (hz : mkTZ st.mode ((zoneOf st.textCfg.zone (zo.map (·.tmpl)) v).hour.getD 0)
      ((zoneOf st.textCfg.zone (zo.map (·.tmpl)) v).minute.getD 0) = some tz)
    (hvalid : (dateOf de.tmpl v).Valid st.mode ∧ TimeValid te.tmpl v)
    (hy0 : v.yearNeg = true → yearOf de.tmpl v ≠ 0) (hz0 : v.tzNeg = true → zoneZero (ztmplO zo) v = false)
    (hs : s = formText de te zo v)
    (hv : a.version = false) (hi : a.items = [s]) (hoffs : readOffsets a.offsets1 = [])
    (hpf : given a.printFormat = none) (ht : a.asTotal = none) (hutc : a.utc = false)
    (hst : setup env a = .ok st) (hl : env.localTZ.Valid)
    (hplain : plain s = true) (hR : s.head? ≠ some 'R') (hdash : s ≠ ['-'])
    (href : s ≠ "ref".toList) (hnow : s ≠ "now".toList)
    (h1 : tryStrp st s fmtExt = none) (h2 : tryStrp st s fmtBasic = none) :
    cliEval env a = .ok [s] := by
  have hss := setup_spec env a st hst
  have hutc' : st.utc = false := by rw [hss.2.1]; exact hutc
  have hpt : st.textCfg.pt ∈ parserTables := defaultTables_mem
  have hned : st.textCfg.pt.ned = 2 := defaultTables_ned
  have hx0 : st.textCfg.pt.ned = 0 → hasGroup de.tmpl .expandedYear = false := by
    intro h; rw [hned] at h; cases h
  have hvf' : v.Fit st.textCfg.pt.ned := by rw [hned]; exact hvf
  obtain ⟨x, hparse, hxeq, hstr⟩ :=
    C07_as_parsed st.textCfg hpt de hde hdc hx0 te hte htt htf hnd zo hzo v hvf' tz hz hvalid
  have hresp : respell de.tmpl zo v = v := by
    unfold respell
    cases hn : v.yearNeg <;> cases hm : v.tzNeg <;> simp [hy0, hz0, hn, hm] <;> cases v <;> simp_all
  rw [hresp, ← hs] at hstr
  rw [← hs] at hparse
  -- the parsed point is a whole-second point in one representation
  have hdec : ∀ f d, isDecFld f = true → decOf te.tmpl f d = none := by
    intro f d hf; unfold decOf; rw [hnd f hf]; rfl
  obtain ⟨a0, ha0⟩ := Text.parse_ctor st.textCfg s true x hparse
  obtain ⟨tp, htp⟩ := Text.ctor_toTP st.textCfg.mode a0 x ha0 (by rw [hxeq]; rfl)
    (by rw [hxeq]; exact hdec _ _ rfl) (by rw [hxeq]; exact hdec _ _ rfl) (by rw [hxeq]; exact hdec _ _ rfl)
  have hcanon : Canon x := by
    have hc := dateShape_cases de.tmpl ((decodeFacts _ hpt).dates de hde (by rw [hdc]; decide)).2.2
    simp only [datePattern, Prod.mk.injEq] at hc
    rw [hxeq]
    unfold Canon pointOf fieldOf
    rcases hc with ⟨c1, c2, c3, c4, c5⟩ | ⟨c1, c2, c3, c4, c5⟩ | ⟨c1, c2, c3, c4, c5⟩ |
      ⟨c1, c2, c3, c4, c5⟩ | ⟨c1, c2, c3, c4, c5⟩ | ⟨c1, c2, c3, c4, c5⟩ <;> simp [c1, c2, c3, c4, c5]
  have hfmt : x.dumpFmt = some (formExpr de te zo) := by rw [hxeq]
  have hxned : x.ned = nedOf st.textCfg.pt de.tmpl := by rw [hxeq]; rfl
  -- what `date_parse` returns
  have hparsed : dateParse st s = .ok ⟨tp, x.ned, formExpr de te zo⟩ := by
    unfold dateParse
    simp only [href, ↓reduceIte, hnow, hplain, Bool.not_true, Bool.false_eq_true, parseAny, h1, h2, parseIso,
      hparse, htp, hfmt, Option.getD_some, utcIf, hutc']
  -- the command prints the point in its as-parsed format
  obtain ⟨q, hq, _, _, hcli⟩ := C19_eval_shift env a s st _ [] hv hi hdash hR ht hst hl hparsed
    (by rw [hoffs]; rfl)
  simp only [addAll, Except.ok.injEq] at hq
  subst hq
  rw [hcli, hpf]
  simp only [Option.getD_none]
  -- … which is what `str` of the parsed point prints
  obtain ⟨hsh, hex⟩ := asParsed_time st.textCfg.pt hpt de hde hdc te hte htt htf zo hzo
  obtain ⟨dt, e, hdt, he, hpct, hne, _, hprops, _⟩ := exprCheck_spec st.textCfg.pt de (some te) zo hex
  have hff : fmtOf de (some te) zo = formExpr de te zo := rfl
  rw [hff] at he hpct hne
  obtain ⟨hpl, hsame⟩ := cliExpr_spec de hde hdc te hte htt htf zo hzo
  rw [hff] at hpl hsame
  have hstr' : Text.str st.mode x = Text.dumpExpr st.mode dt x e :=
    str_dumpFmt st.mode x dt _ e (by rw [hxned]; exact hdt) hfmt hne hpct he
  have hd : Text.dumpExpr st.mode dt x e = .ok s := by rw [← hstr']; exact hstr
  have hgoal : formatPoint st.mode x.ned tp (formExpr de te zo) = .ok s := by
    unfold formatPoint
    simp only [hpl, Bool.not_true, Bool.false_eq_true, ↓reduceIte, hpct]
    rw [ofTP_of_toTP x tp htp hcanon]
    have hcore : ∀ d2, Text.dump st.mode d2 (core x) (formExpr de te zo) = Text.dump st.mode d2 x (formExpr de te zo) :=
      fun d2 => dump_meta st.mode d2 x _ none none
    cases hg : hasGroup de.tmpl .expandedYear with
    | true =>
      have hd2 : dumpTablesFor 2 = some dt := by
        rw [← hdt]; unfold nedOf; rw [hg, hned]; rfl
      rw [hd2]
      simp only [hcore]
      unfold Text.dump
      rw [hpct, he]
      simp only [Bool.false_eq_true, ↓reduceIte, hd]
    | false =>
      obtain ⟨d2, d0, hd2, hd0, hexp⟩ := hsame hg
      have hdt0 : dt = d0 := by
        have : dumpTablesFor 0 = some dt := by rw [← hdt]; unfold nedOf; rw [hg]; rfl
        rw [hd0] at this; exact (Option.some.inj this).symm
      subst hdt0
      rw [hd2]
      simp only [hcore]
      unfold Text.dump
      rw [hpct, hexp, he]
      have hpx : e.props.contains .expandedYearDigits = false := by
        have := hprops .expandedYear (by decide)
        rw [hg] at this; exact this
      simp only [Bool.false_eq_true, ↓reduceIte, dumpExpr_ned st.mode d2 dt x e hpx, hd]
  rw [hgoal]
  rfl

end asWritten

/-! ## Non-vacuity, and witnesses of what the Python that exists does -/

deriving instance DecidableEq for Except

/-- An environment: no variables set, local zone +05:30, `repr` replaced by a marker. -/
def exEnv : Env := ⟨none, none, ⟨5, 30⟩, fun n k => DurText.intText n ++ '/' :: DurText.intText k⟩
def exArgs (items : List String) : Args :=
  ⟨items.map String.toList, none, none, 10, [], [], none, none, none, false, false⟩
def exSetup (m : Mode) (utc : Bool) : Setup := ⟨m, utc, ⟨5, 30⟩, none, exEnv.floatRepr⟩

example : exEnv.localTZ.Valid := by decide

-- C19_eval_shift: hypotheses at a concrete value, and the line
example : ∃ st, setup exEnv (exArgs ["2000-02-28T12:00Z"]) = .ok st ∧ st.mode = .greg ∧ st.utc = false ∧
    st.loc = ⟨5, 30⟩ := ⟨exSetup .greg false, by rfl, rfl, rfl, rfl⟩
example : dateParse (exSetup .greg false) "2000-02-28T12:00Z".toList =
    .ok ⟨⟨.cal 2000 2 28, 12, 0, 0, ⟨0, 0⟩⟩, 0, "CCYY-MM-DDThh:mmZ".toList⟩ := by decide +kernel
example : offsetDurs .greg (readOffsets ["P2D".toList, "\\-PT1H".toList]) =
    .ok [.units 0 0 2 0 0 0, .units 0 0 0 (-1) 0 0] := by decide +kernel
example : cliEval exEnv { exArgs ["2000-02-28T12:00Z"] with offsets1 := ["P2D".toList, "\\-PT1H".toList] } =
    .ok ["2000-03-01T11:00Z".toList] := by decide +kernel
example : cliEval exEnv { exArgs ["2000-W09-1T12+01"] with offsets1 := ["P1M".toList], utc := true } =
    .ok ["2000-W13-2T11+00".toList] := by decide +kernel
def exArgs360 : Args :=
  { exArgs ["2000-02-28T12:00"] with
    offsets1 := ["P2D".toList]
    printFormat := some "CCYY-DDDThh:mm+hh:mm".toList
    calendar := some "360day".toList }
example : cliEval exEnv exArgs360 = .ok ["2000-060T12:00+05:30".toList] := by decide +kernel

-- C19_eval_diff
example : cliEval exEnv (exArgs ["2000-03-01T00Z", "2000-02-28T12:30Z"]) = .ok ["-P1DT11H30M".toList] := by
  decide +kernel
example : cliEval exEnv { exArgs ["2000", "2001"] with asTotal := some "h".toList } = .ok ["31622400/3600".toList] := by
  decide +kernel

-- C19_eval_as_total
example : cliEval exEnv { exArgs ["P1W"] with asTotal := some "s".toList } = .ok ["604800".toList] := by
  decide +kernel
example : cliEval exEnv { exArgs ["\\-PT90M"] with asTotal := some "M".toList } = .ok ["-5400/60".toList] := by
  decide +kernel

-- C19_eval_recurrence
example : cliEval exEnv { exArgs ["R/2000-01-31T00Z/P1M"] with maxResults := 3 } =
    .ok ["2000-01-31T00:00:00Z".toList, "2000-02-29T00:00:00Z".toList, "2000-03-29T00:00:00Z".toList] := by
  decide +kernel
example : cliEval exEnv { exArgs ["R2/P1D/2000-03-01"] with printFormat := some "CCYYMMDD".toList } =
    .ok ["20000229".toList, "20000301".toList] := by decide +kernel

-- C19_eval_errors
example : cliEval exEnv (exArgs ["2000-02-30"]) = .error (.exit .point) := by decide +kernel
example : cliEval exEnv { exArgs ["2000"] with offsets1 := ["P1D".toList, "1H".toList] } =
    .error (.exit .offset) := by decide +kernel
example : cliEval exEnv (exArgs ["R0/2000/P1D"]) = .error (.exit .recurrence) := by decide +kernel
example : cliEval exEnv { exArgs ["+009999"] with offsets1 := ["P1Y".toList], printFormat := some "CCYY".toList } =
    .error (.exit .dump) := by decide +kernel

/-- **"Never a traceback" is false of the code (1)**: a recurrence that walks below year 0 without
    a print format — `isodatetime R/P1Y/0001` — ends in an uncaught `OverflowError` (the third
    point is year -1, which `str()` cannot write without expanded year digits). -/
theorem C19_traceback_witness_overflow :
    cliEval exEnv (exArgs ["R/P1Y/0001"]) = .error (.traceback .overflowError) := by decide +kernel

/-- **"Never a traceback" is false of the code (2)**: `ISODATETIMECALENDAR=bogus isodatetime 2000`
    ends in an uncaught `KeyError` (`Calendar.set_mode` indexes its mode table with the name). -/
theorem C19_traceback_witness_calendar :
    cliEval { exEnv with envCalendar := some "bogus".toList } (exArgs ["2000"]) =
      .error (.traceback .keyError) := by decide +kernel

/-- **Regression (formerly a misread)**: the basic ordinal date-time without a zone,
    `isodatetime -u 2004031T204619` — day 031 of 2004 — used to be read by the `time.strptime`
    fallback of the built-in format `%Y%m%dT%H%M%S` as 2004-03-1 and printed as `20040301T204619`.
    Since the repair (`DateTimeOperator.strptime` falls back only on `StrftimeSyntaxError`) the
    built-in formats refuse it, the ISO 8601 parser reads it, and it is printed as written. -/
theorem C19_ordinal_basic_regression :
    cliEval exEnv { exArgs ["2004031T204619"] with utc := true } = .ok ["2004031T204619".toList] ∧
    dateParse (exSetup .greg true) "2004031T204619".toList =
      .ok ⟨⟨.ord 2004 31, 20, 46, 19, ⟨0, 0⟩⟩, 0, "CCYYDDDThhmmss".toList⟩ ∧
    cliEval exEnv { exArgs ["2004031T204619"] with utc := true, offsets1 := ["P1D".toList] } =
      .ok ["2004032T204619".toList] := by decide +kernel

/-- **Regression**: the reduced basic time `CCYYMMDDThhmm` without a zone, `isodatetime
    20000228T1234` (formerly read as 12:03:04 UTC and printed `20000228T120304`), and the ordinal
    `CCYYDDDThhmm`, `isodatetime 2004101T0101` (formerly `20041001T010001`), print as written, in
    the local zone. -/
theorem C19_reduced_basic_regression :
    cliEval exEnv (exArgs ["20000228T1234"]) = .ok ["20000228T1234".toList] ∧
    dateParse (exSetup .greg false) "20000228T1234".toList =
      .ok ⟨⟨.cal 2000 2 28, 12, 34, 0, ⟨5, 30⟩⟩, 0, "CCYYMMDDThhmm".toList⟩ ∧
    cliEval exEnv (exArgs ["2004101T0101"]) = .ok ["2004101T0101".toList] ∧
    dateParse (exSetup .greg false) "2004101T0101".toList =
      .ok ⟨⟨.ord 2004 101, 1, 1, 0, ⟨5, 30⟩⟩, 0, "CCYYDDDThhmm".toList⟩ := by decide +kernel

/-- The built-in strptime formats still read what they are for (and only that): the full
    extended and basic date-times, kept in their `%` notation; un-padded fields and a lower-case
    `t` (formerly accepted through the fallback) are now refused by every reader. -/
example : dateParse (exSetup .greg false) "2000-02-28T12:34:56".toList =
    .ok ⟨⟨.cal 2000 2 28, 12, 34, 56, ⟨5, 30⟩⟩, 0, "%Y-%m-%dT%H:%M:%S".toList⟩ := by decide +kernel
example : cliEval exEnv (exArgs ["2000-1-1T0:0:0"]) = .error (.exit .point) ∧
    cliEval exEnv (exArgs ["2000-01-01t00:00:00"]) = .error (.exit .point) := by decide +kernel


/-! ### `C19_eval_as_written` at the former misread text -/

section
open IsoDT.Text IsoDT.Props.C07 IsoDT.Gen.Templates

def wDate : Entry := ⟨.basic, .complete, "CCYYDDD".toList, t2⟩
def wTime : Entry := ⟨.basic, .complete, "hhmmss".toList, t46⟩
def wVals : Vals := { cc := 20, yy := 4, doy := 31, hour := 20, minute := 46, second := 19 }

example : wDate ∈ defaultTables.dateEntries ∧ wTime ∈ defaultTables.timeEntries ∧
    formText wDate wTime none wVals = "2004031T204619".toList := by decide +kernel

/-- The hypotheses of `C19_eval_as_written` hold for `isodatetime 2004031T204619` (local zone
    +05:30, Gregorian mode): basic ordinal date form, `hhmmss`, no zone. -/
example : cliEval exEnv (exArgs ["2004031T204619"]) = .ok ["2004031T204619".toList] :=
  C19_eval_as_written exEnv (exArgs ["2004031T204619"]) (exSetup .greg false) "2004031T204619".toList
    wDate (by decide +kernel) rfl wTime (by decide +kernel) (by decide) rfl
    (fun f hf => by cases f <;> first | exact absurd hf (by decide) | decide +kernel)
    none (fun ze h => by cases h) wVals (by decide) ⟨5, 30⟩ (by decide +kernel) (by decide +kernel)
    (fun h => absurd h (by decide)) (fun h => absurd h (by decide)) (by decide +kernel)
    rfl rfl (by decide) (by decide) rfl rfl (by rfl) (by decide) (by decide) (by decide) (by decide)
    (by decide) (by decide) (by decide +kernel) (by decide +kernel)
end

end IsoDT.Props.C19b
