/-
  C01 (continued) — exact durations act on the timeline as a group of translations.

  Corollaries of `C01_add_exact`, `C01_sub_exact`, `cmp_spec` and the C11 laws of `Dur.add`:
  successive additions compose and commute, subtraction undoes addition, and adding one exact
  duration to two points preserves their comparison.
-/
import IsoDT.Props.C01
import IsoDT.Props.C11
import IsoDT.Lemmas.Cmp

namespace IsoDT.Props.C01
open IsoDT IsoDT.Model IsoDT.Lemmas
open IsoDT.Spec (Date TZ TP)

theorem add_exact (m : Mode) (a b : Dur) (ha : a.isExact = true) (hb : b.isExact = true) :
    (Dur.add m a b).isExact = true := by
  rw [C11.isExact_iff] at ha hb ⊢
  rw [C11.add_ym, ha, hb]; rfl

/-- `(p + d1) + d2` and `p + (d1 + d2)` denote the same instant (and compare equal), in `p`'s
    representation and offset, for all exact `d1`, `d2` of either sign. -/
theorem C01_add_compose (m : Mode) (p : TP) (d1 d2 : Dur) (hv : p.Valid m)
    (h1 : d1.isExact = true) (h2 : d2.isExact = true) :
    ∃ q1 q2 q, addDur m p d1 = some q1 ∧ addDur m q1 d2 = some q2 ∧
      addDur m p (Dur.add m d1 d2) = some q ∧ q2.inst m = q.inst m ∧ cmp m q2 q = some 0 ∧
      q2.date.rep = q.date.rep ∧ q2.tz = q.tz := by
  obtain ⟨q1, e1, i1, s1, r1, t1⟩ := C01_add_exact m p d1 hv h1
  obtain ⟨q2, e2, i2, s2, r2, t2⟩ := C01_add_exact m q1 d2 s1.1 h2
  obtain ⟨q, e, i, s, r, t⟩ := C01_add_exact m p (Dur.add m d1 d2) hv (add_exact m d1 d2 h1 h2)
  have hi : q2.inst m = q.inst m := by rw [i2, i1, i, C11.add_seconds]; omega
  refine ⟨q1, q2, q, e1, e2, e, hi, ?_, by rw [r2, r1, r], by rw [t2, t1, t]⟩
  rw [cmp_spec m q2 q s2.1 s.1, hi]; simp [sgn]

/-- The order of two exact additions does not matter. -/
theorem C01_add_commute (m : Mode) (p : TP) (d1 d2 : Dur) (hv : p.Valid m)
    (h1 : d1.isExact = true) (h2 : d2.isExact = true) :
    ∃ a b a' b', addDur m p d1 = some a ∧ addDur m a d2 = some b ∧
      addDur m p d2 = some a' ∧ addDur m a' d1 = some b' ∧
      b.inst m = b'.inst m ∧ cmp m b b' = some 0 := by
  obtain ⟨a, e1, i1, s1, _⟩ := C01_add_exact m p d1 hv h1
  obtain ⟨b, e2, i2, s2, _⟩ := C01_add_exact m a d2 s1.1 h2
  obtain ⟨a', e3, i3, s3, _⟩ := C01_add_exact m p d2 hv h2
  obtain ⟨b', e4, i4, s4, _⟩ := C01_add_exact m a' d1 s3.1 h1
  have hi : b.inst m = b'.inst m := by omega
  refine ⟨a, b, a', b', e1, e2, e3, e4, hi, ?_⟩
  rw [cmp_spec m b b' s2.1 s4.1, hi]; simp [sgn]

/-- `(p + d) - d` is `p` again: same instant, representation and offset, compares equal. -/
theorem C01_add_sub_cancel (m : Mode) (p : TP) (d : Dur) (hv : p.Valid m) (hd : d.isExact = true) :
    ∃ q r, addDur m p d = some q ∧ subDur m q d = some r ∧ r.inst m = p.inst m ∧
      cmp m r p = some 0 ∧ r.date.rep = p.date.rep ∧ r.tz = p.tz := by
  obtain ⟨q, e1, i1, s1, r1, t1⟩ := C01_add_exact m p d hv hd
  obtain ⟨r, e2, i2, s2, r2, t2⟩ := C01_sub_exact m q d s1.1 hd
  have hi : r.inst m = p.inst m := by omega
  refine ⟨q, r, e1, e2, hi, ?_, by rw [r2, r1], by rw [t2, t1]⟩
  rw [cmp_spec m r p s2.1 hv, hi]; simp [sgn]

/-- Adding the same exact duration to two points preserves their comparison (`<`, `==`, `>`),
    whatever their representations and offsets. -/
theorem C01_add_preserves_order (m : Mode) (a b : TP) (d : Dur) (ha : a.Valid m) (hb : b.Valid m)
    (hd : d.isExact = true) :
    ∃ a' b', addDur m a d = some a' ∧ addDur m b d = some b' ∧ cmp m a' b' = cmp m a b := by
  obtain ⟨a', e1, i1, s1, _⟩ := C01_add_exact m a d ha hd
  obtain ⟨b', e2, i2, s2, _⟩ := C01_add_exact m b d hb hd
  refine ⟨a', b', e1, e2, ?_⟩
  rw [cmp_spec m a' b' s1.1 s2.1, cmp_spec m a b ha hb]
  congr 2; omega

/-! ## Non-vacuity -/

example : (addDur .greg ⟨.cal 2020 2 28, 23, 0, 0, ⟨0, 0⟩⟩ (.units 0 0 1 2 0 0)).bind
      (fun q => addDur .greg q (.weeks (-1))) =
    some ⟨.cal 2020 2 23, 1, 0, 0, ⟨0, 0⟩⟩ := by decide +kernel
example : addDur .greg ⟨.cal 2020 2 28, 23, 0, 0, ⟨0, 0⟩⟩ (Dur.add .greg (.units 0 0 1 2 0 0) (.weeks (-1))) =
    some ⟨.cal 2020 2 23, 1, 0, 0, ⟨0, 0⟩⟩ := by decide +kernel

end IsoDT.Props.C01
