/-
  C08 — Writing a time point out and reading it back is lossless.

  `IsoDT.Text.str` mirrors `TimePoint.__str__` / `_get_dump_format` / `TimePointDumper.dump`; the
  dumper's substitution rules are `Gen.Templates.dumpTables`, regenerated from the live
  `TimePointDumper._rec_formats`.  Agreement with the Python: driver ops `tround`, `tdump`.
-/
import IsoDT.Lemmas.TextDecode
import IsoDT.Lemmas.TextRoundStr
import IsoDT.Lemmas.TextRoundParse

namespace IsoDT.Props.C08
open IsoDT IsoDT.Text
open IsoDT.Spec (Date TZ TP)

/-- The year as `_get_dump_format` spells it: sign (only with expanded digits) and `4 + ned` digits. -/
def yearText (ned : Nat) (y : Int) : List Char :=
  if ned ≠ 0 then (if y < 0 then '-' else '+') :: padNat (4 + ned) y.natAbs else padNat 4 y.natAbs

def dateSuffix : Date → List Char
  | .cal .. => ['-', 'M', 'M', '-', 'D', 'D']
  | .ord .. => ['-', 'D', 'D', 'D']
  | .week .. => ['-', 'W', 'w', 'w', '-', 'D']

def zoneSuffix (z : TZ) : List Char :=
  if z.h = 0 ∧ z.mi = 0 then ['Z'] else ['+', 'h', 'h', ':', 'm', 'm']

/-- **C08 (default format)**: for a whole-second point in any of the three representations,
    `_get_dump_format` is the year digits (signed iff expanded digits are agreed) followed by the
    extended complete date, `Thh:mm:ss` and `Z` or `+hh:mm`; a negative year without expanded digits is
    the documented `OverflowError`. -/
theorem C08_default_format (ned : Nat) (p : TP) :
    getDumpFormat (XTP.ofTP ned p) =
      if ned = 0 ∧ dateYear p.date < 0 then .error .overflow
      else .ok (yearText ned (dateYear p.date) ++ dateSuffix p.date ++
        ['T', 'h', 'h', ':', 'm', 'm', ':', 's', 's'] ++ zoneSuffix p.tz) := by
  obtain ⟨dt, hh, mi, ss, tz⟩ := p
  cases dt with
  | cal y mo d =>
    simp only [getDumpFormat, XTP.ofTP, dateYear, yearText, dateSuffix, zoneSuffix]
    by_cases hn : ned = 0 <;> by_cases hy : y < 0 <;> by_cases hz : tz.h = 0 ∧ tz.mi = 0 <;>
      simp [hn, hy, hz, fracZero]
  | ord y doy =>
    simp only [getDumpFormat, XTP.ofTP, dateYear, yearText, dateSuffix, zoneSuffix]
    by_cases hn : ned = 0 <;> by_cases hy : y < 0 <;> by_cases hz : tz.h = 0 ∧ tz.mi = 0 <;>
      simp [hn, hy, hz, fracZero]
  | week y w d =>
    simp only [getDumpFormat, XTP.ofTP, dateYear, yearText, dateSuffix, zoneSuffix]
    by_cases hn : ned = 0 <;> by_cases hy : y < 0 <;> by_cases hz : tz.h = 0 ∧ tz.mi = 0 <;>
      simp [hn, hy, hz, fracZero]

example : getDumpFormat (XTP.ofTP 2 ⟨.week (-396) 53 7, 24, 0, 0, ⟨0, -30⟩⟩) =
    .ok "-000396-Www-DThh:mm:ss+hh:mm".toList := by rfl

/-! ## The round trip -/

/-- **C08 (writing)**: for every valid whole-second point `p` — calendar, ordinal or week
    representation, any of the four calendar modes, any legal UTC offset (also zero hours with
    negative minutes), 24:00:00 included — whose year is within the range the agreed number of
    expanded year digits can spell (0000–9999 without, `|y| < 10^(4+ned)` with), `str(p)` is exactly
    the specified ISO 8601 text `stdText ned p`: signed-iff-expanded year digits, the complete
    extended date in `p`'s own representation, `Thh:mm:ss`, and `Z` or `±hh:mm`. -/
theorem C08_str (m : Mode) (ned : Nat) (hned : ned = 0 ∨ ned = 2 ∨ ned = 3) (p : TP) (hv : p.Valid m)
    (hy : YearInRange ned (dateYear p.date)) :
    str m (XTP.ofTP ned p) = .ok (stdText ned p) := str_eq_stdText m ned hned p hv hy

/-- **C08 (reading)**: a parser with the matching number of expanded year digits and extended
    notation allowed — whatever its `allow_truncated` setting and default-zone configuration —
    decodes that text to exactly `p`, field for field: same representation, same offset, not
    truncated, zone known, no decimals. -/
theorem C08_parse (cfg : Cfg) (hpt : cfg.pt ∈ Gen.Templates.parserTables) (hb : cfg.pt.basicOnly = false)
    (p : TP) (hv : p.Valid cfg.mode) (hy : YearInRange cfg.pt.ned (dateYear p.date)) :
    parse cfg (stdText cfg.pt.ned p) false = some (XTP.ofTP cfg.pt.ned p) :=
  parse_stdText cfg hpt hb p hv hy

/-- Every parser table carries 0, 2 or 3 expanded year digits (the configurations regenerated). -/
theorem tables_ned : ∀ pt ∈ Gen.Templates.parserTables, pt.ned = 0 ∨ pt.ned = 2 ∨ pt.ned = 3 := by
  decide +kernel

/-- **C08 (round trip)**: writing a valid whole-second point out and reading it back is lossless,
    and `str` is a fixpoint: `str(p)` succeeds with some text, `parse(text)` is a point with exactly
    `p`'s representation, offset and field values, and `str` of that point is the same text again —
    for all three date representations, expanded and negative years, 24:00:00, every UTC offset,
    every calendar mode, every parser default-zone / truncation setting. -/
theorem C08_roundtrip (cfg : Cfg) (hpt : cfg.pt ∈ Gen.Templates.parserTables) (hb : cfg.pt.basicOnly = false)
    (p : TP) (hv : p.Valid cfg.mode) (hy : YearInRange cfg.pt.ned (dateYear p.date)) :
    ∃ text q, str cfg.mode (XTP.ofTP cfg.pt.ned p) = .ok text ∧ parse cfg text false = some q ∧
      q = XTP.ofTP cfg.pt.ned p ∧ q.toTP? = some p ∧ str cfg.mode q = .ok text := by
  have hs := C08_str cfg.mode cfg.pt.ned (tables_ned cfg.pt hpt) p hv hy
  refine ⟨stdText cfg.pt.ned p, XTP.ofTP cfg.pt.ned p, hs, C08_parse cfg hpt hb p hv hy, rfl, ?_, hs⟩
  obtain ⟨dt, hh, mi, ss, tz⟩ := p
  cases dt <;> rfl

/-- Outside the agreed digits the property does not apply: year 10000 without expanded digits
    prints five digits, which the four-digit parser refuses. -/
theorem C08_year_out_of_range_example :
    (match str .greg (XTP.ofTP 0 ⟨.cal 10000 1 1, 0, 0, 0, ⟨0, 0⟩⟩) with
      | .ok t => t == "10000-01-01T00:00:00Z".toList &&
          (parse ⟨Gen.Templates.parser_0_all, false, .unknown, .greg⟩ t false).isNone
      | .error _ => false) = true := by decide +kernel

/-- Non-vacuity: the round trip instantiated at a week date in year -396, 24:00:00, offset -00:30,
    two expanded digits, a parser that allows truncated forms and assumes +05:30. -/
example : ∃ text q, str .greg (XTP.ofTP 2 ⟨.week (-396) 53 7, 24, 0, 0, ⟨0, -30⟩⟩) = .ok text ∧
    parse ⟨Gen.Templates.parser_2_all, true, .assumed 5 30, .greg⟩ text false = some q ∧
    q = XTP.ofTP 2 ⟨.week (-396) 53 7, 24, 0, 0, ⟨0, -30⟩⟩ ∧
    q.toTP? = some ⟨.week (-396) 53 7, 24, 0, 0, ⟨0, -30⟩⟩ ∧ str .greg q = .ok text :=
  C08_roundtrip ⟨Gen.Templates.parser_2_all, true, .assumed 5 30, .greg⟩ (.tail _ (.tail _ (.head _))) rfl
    ⟨.week (-396) 53 7, 24, 0, 0, ⟨0, -30⟩⟩ (by decide +kernel) (by decide +kernel)

end IsoDT.Props.C08
