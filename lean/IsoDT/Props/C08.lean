/-
  C08 — Writing a time point out and reading it back is lossless.

  `IsoDT.Text.str` mirrors `TimePoint.__str__` / `_get_dump_format` / `TimePointDumper.dump`; the
  dumper's substitution rules are `Gen.Templates.dumpTables`, regenerated from the live
  `TimePointDumper._rec_formats`.  Agreement with the Python: driver ops `tround`, `tdump`.
-/
import IsoDT.Lemmas.TextDecode

namespace IsoDT.Props.C08
open IsoDT IsoDT.Text
open IsoDT.Spec (Date TZ TP)

/-- The year as `_get_dump_format` spells it: sign (only with expanded digits) and `4 + ned` digits. -/
def yearText (ned : Nat) (y : Int) : List Char :=
  if ned ≠ 0 then (if y < 0 then '-' else '+') :: padNat (4 + ned) y.natAbs else padNat 4 y.natAbs

def dateSuffix : Date → List Char
  | .cal .. => ['-', 'M', 'M', '-', 'D', 'D']
  | .ord .. => ['-', 'D', 'D', 'D']
  | .week .. => ['-', 'W', 'w', 'w', '-', 'D']

def zoneSuffix (z : TZ) : List Char :=
  if z.h = 0 ∧ z.mi = 0 then ['Z'] else ['+', 'h', 'h', ':', 'm', 'm']

def dateYear : Date → Int
  | .cal y _ _ => y
  | .ord y _ => y
  | .week y _ _ => y

/-- **C08 (default format)**: for a whole-second point in any of the three representations,
    `_get_dump_format` is the year digits (signed iff expanded digits are agreed) followed by the
    extended complete date, `Thh:mm:ss` and `Z` or `+hh:mm`; a negative year without expanded digits is
    the documented `OverflowError`. -/
theorem C08_default_format (ned : Nat) (p : TP) :
    getDumpFormat (XTP.ofTP ned p) =
      if ned = 0 ∧ dateYear p.date < 0 then .error .overflow
      else .ok (yearText ned (dateYear p.date) ++ dateSuffix p.date ++
        ['T', 'h', 'h', ':', 'm', 'm', ':', 's', 's'] ++ zoneSuffix p.tz) := by
  obtain ⟨dt, hh, mi, ss, tz⟩ := p
  cases dt with
  | cal y mo d =>
    simp only [getDumpFormat, XTP.ofTP, dateYear, yearText, dateSuffix, zoneSuffix]
    by_cases hn : ned = 0 <;> by_cases hy : y < 0 <;> by_cases hz : tz.h = 0 ∧ tz.mi = 0 <;>
      simp [hn, hy, hz, fracZero]
  | ord y doy =>
    simp only [getDumpFormat, XTP.ofTP, dateYear, yearText, dateSuffix, zoneSuffix]
    by_cases hn : ned = 0 <;> by_cases hy : y < 0 <;> by_cases hz : tz.h = 0 ∧ tz.mi = 0 <;>
      simp [hn, hy, hz, fracZero]
  | week y w d =>
    simp only [getDumpFormat, XTP.ofTP, dateYear, yearText, dateSuffix, zoneSuffix]
    by_cases hn : ned = 0 <;> by_cases hy : y < 0 <;> by_cases hz : tz.h = 0 ∧ tz.mi = 0 <;>
      simp [hn, hy, hz, fracZero]

example : getDumpFormat (XTP.ofTP 2 ⟨.week (-400) 53 7, 24, 0, 0, ⟨0, -30⟩⟩) =
    .ok "-000400-Www-DThh:mm:ss+hh:mm".toList := by rfl

end IsoDT.Props.C08
