/-
  C20 (continued) — the day-designator shapes of `add_truncated`.

  `Props/C20.lean` covers termination for every shape and the earliest-match property for the
  time-of-day shapes.  Here, for a truncated point that names a day designator (day-of-month,
  day-of-year, weekday, week plus weekday; also week alone, which the library accepts as `-Www`),
  possibly together with time fields:

  * `C20_matches` — the result carries every field the truncated point specifies (time fields for
    every legal combination; day designators whenever at most one designator is named, week plus
    weekday counting as one).  For two unrelated designators (weekday + day-of-month, day-of-month +
    week, ...) the later loop disturbs the earlier field: `C20_matches_counterexample_*`.
  * `C20_day_earliest_same_time` — for every such shape the result is the earliest date-time not
    earlier than `p`, with the result's own time of day, whose date matches.
  * `C20_day_only_earliest` — no time field: time of day unchanged, earliest matching date.
  * `C20_day_hour_earliest` — hour (minute, second) given: earliest date-time with that time of day
    and a matching date.
  * `C20_week_only_earliest` — week alone keeps the weekday as well; it is the earliest match among
    the days with that weekday, but not the earliest day of that week
    (`C20_week_only_not_earliest_in_week`).
  * `C20_day_idempotent` — applying the truncated point again returns the same result.
-/
import IsoDT.Props.C20
import IsoDT.Lemmas.TruncDay

namespace IsoDT.Props.C20
open IsoDT IsoDT.Model IsoDT.Lemmas
open IsoDT.Spec (Date TZ TP)

/-- At most one day designator, week plus weekday counting as one (week alone included). -/
def DayShape (t : Trunc) : Prop :=
  (t.dom = none ∧ t.doy = none) ∨ (t.dow = none ∧ t.week = none ∧ (t.dom = none ∨ t.doy = none))

instance (t : Trunc) : Decidable (DayShape t) := by unfold DayShape; infer_instance

/-- The day with number `n` carries every day designator `t` names: its ISO weekday, its day of the
    month, its day of the year, the number of its ISO week (all read off the calendar definition
    `Spec.Calendar`, independent of any representation). -/
def DayMatch (m : Mode) (t : Trunc) (n : Int) : Prop :=
  (∀ k, t.dow = some k → Spec.weekday m n = k) ∧ (∀ d, t.dom = some d → DomOf m n d) ∧
  (∀ k, t.doy = some k → DoyOf m n k) ∧ (∀ w, t.week = some w → WeekOf m n w)

/-- The same, read directly off the result's own date: it is in the representation of the
    designator (week date, calendar date, ordinal date) and shows the target there. -/
def DirectMatch (t : Trunc) (q : TP) : Prop :=
  (∀ k, t.dow = some k → q.date.rep = 2 ∧ getDow q = k) ∧ (∀ d, t.dom = some d → q.date.rep = 0 ∧ getDom q = d) ∧
  (∀ k, t.doy = some k → q.date.rep = 1 ∧ getDoy q = k) ∧ (∀ w, t.week = some w → q.date.rep = 2 ∧ getWeek q = w)

/-- The time fields `add_truncated` aims for: the given ones, lower ones defaulting to zero. -/
def TimeMatch (t : Trunc) (q : TP) : Prop :=
  (∀ h, t.hh = some h → q.hh = h) ∧ (∀ x, effMI t = some x → q.mi = x) ∧ (∀ s, effSS t = some s → q.ss = s)

/-- `q` is the earliest date-time not earlier than `p`, in `p`'s offset, that satisfies `Match`
    (in whatever date representation). -/
def EarliestAny (m : Mode) (p q : TP) (Match : TP → Prop) : Prop :=
  q.Strict m ∧ q.tz = p.tz ∧ Match q ∧ p.inst m ≤ q.inst m ∧
  ∀ q' : TP, q'.Strict m → q'.tz = p.tz → Match q' → p.inst m ≤ q'.inst m → q.inst m ≤ q'.inst m

/-! ### the chain of parts -/

theorem legal_eff (m : Mode) (t : Trunc) (hl : LegalTrunc m t) :
    (∀ x, effMI t = some x → 0 ≤ x ∧ x < 60) ∧ (∀ x, effSS t = some x → 0 ≤ x ∧ x < 60) := by
  obtain ⟨l1, l2, _⟩ := hl
  have hmi : ∀ x, effMI t = some x → 0 ≤ x ∧ x < 60 := by
    intro x hx
    unfold effMI at hx
    cases hh : t.hh <;> cases hm : t.mi <;> rw [hh, hm] at hx <;> simp only at hx
    · cases hx
    · cases hx; exact l2 _ hm
    · cases hx; omega
    · cases hx; exact l2 _ hm
  refine ⟨hmi, ?_⟩
  intro x hx
  unfold effSS at hx
  cases hs : t.ss with
  | some s => rw [hs] at hx; cases hx; exact l1 _ hs
  | none =>
    rw [hs] at hx; simp only at hx
    split at hx
    · cases hx; omega
    · cases hx

theorem ssRel_strict (m : Mode) (o : Option Int) (a b : TP) (ha : a.Strict m) (r : SsRel m o a b) : b.Strict m := by
  cases o with
  | none => cases r; exact ha
  | some s => exact r.1
theorem miRel_strict (m : Mode) (o : Option Int) (a b : TP) (ha : a.Strict m) (r : MiRel m o a b) : b.Strict m := by
  cases o with
  | none => cases r; exact ha
  | some s => exact r.1
theorem hhRel_strict (m : Mode) (o : Option Int) (a b : TP) (ha : a.Strict m) (r : HhRel m o a b) : b.Strict m := by
  cases o with
  | none => cases r; exact ha
  | some s => exact r.1

/-- A day-designator part keeps validity, offset and time of day, and does not go back. -/
def Keeps (m : Mode) (a b : TP) : Prop :=
  b.Strict m ∧ b.tz = a.tz ∧ b.hh = a.hh ∧ b.mi = a.mi ∧ b.ss = a.ss ∧ a.date.dayNum m ≤ b.date.dayNum m

theorem keeps_refl (m : Mode) (a : TP) (ha : a.Strict m) : Keeps m a a := ⟨ha, rfl, rfl, rfl, rfl, Int.le_refl _⟩

theorem keeps_trans (m : Mode) (a b c : TP) (h1 : Keeps m a b) (h2 : Keeps m b c) : Keeps m a c := by
  obtain ⟨_, a2, a3, a4, a5, a6⟩ := h1
  obtain ⟨b1, b2, b3, b4, b5, b6⟩ := h2
  exact ⟨b1, by rw [b2, a2], by rw [b3, a3], by rw [b4, a4], by rw [b5, a5], by omega⟩

theorem keeps_of_stage (m : Mode) (a b : TP) (k : Nat) (h : DayStage m a b k) : Keeps m a b :=
  ⟨h.1, h.2.1, h.2.2.2.1, h.2.2.2.2.1, h.2.2.2.2.2.1, h.2.2.2.2.2.2⟩

theorem dowRel_keeps (m : Mode) (o : Option Int) (a b : TP) (ha : a.Strict m) (r : DowRel m o a b) : Keeps m a b := by
  cases o with
  | none => cases r; exact keeps_refl m a ha
  | some s => exact keeps_of_stage m a b 2 r.1
theorem domRel_keeps (m : Mode) (o : Option Int) (a b : TP) (ha : a.Strict m) (r : DomRel m o a b) : Keeps m a b := by
  cases o with
  | none => cases r; exact keeps_refl m a ha
  | some s => exact keeps_of_stage m a b 0 r.1
theorem doyRel_keeps (m : Mode) (o : Option Int) (a b : TP) (ha : a.Strict m) (r : DoyRel m o a b) : Keeps m a b := by
  cases o with
  | none => cases r; exact keeps_refl m a ha
  | some s => exact keeps_of_stage m a b 1 r.1
theorem weekRel_keeps (m : Mode) (o : Option Int) (a b : TP) (ha : a.Strict m) (r : WeekRel m o a b) : Keeps m a b := by
  cases o with
  | none => cases r; exact keeps_refl m a ha
  | some s => exact keeps_of_stage m a b 2 r.1

/-- **`add_truncated` as a chain of eight parts**, each with what it hands on: 24:00 normalised,
    the three time-of-day loops, then the weekday, day-of-month, day-of-year and week loops. -/
theorem addTruncated_chain (m : Mode) (p : TP) (hv : p.Valid m) (t : Trunc) (hl : LegalTrunc m t) :
    ∃ p0 p1 p2 p3 p4 p5 p6 q, normalise24 m p = some p0 ∧ addTruncated m p t = some q ∧
      p0.Strict m ∧ p0.tz = p.tz ∧ p0.inst m = p.inst m ∧
      SsRel m (effSS t) p0 p1 ∧ MiRel m (effMI t) p1 p2 ∧ HhRel m t.hh p2 p3 ∧
      DowRel m t.dow p3 p4 ∧ DomRel m t.dom p4 p5 ∧ DoyRel m t.doy p5 p6 ∧ WeekRel m t.week p6 q := by
  obtain ⟨hmi, hss⟩ := legal_eff m t hl
  obtain ⟨_, _, l3, l4, l5, l6, l7⟩ := hl
  obtain ⟨p0, e0, g0⟩ := normalise24_spec m p hv
  obtain ⟨p1, e1, r1⟩ := ss_stage m p0 g0.strict (effSS t) hss
  have s1 := ssRel_strict m _ p0 p1 g0.strict r1
  obtain ⟨p2, e2, r2⟩ := mi_stage m p1 s1 (effMI t) hmi
  have s2 := miRel_strict m _ p1 p2 s1 r2
  obtain ⟨p3, e3, r3⟩ := hh_stage m p2 s2 t.hh l3
  have s3 := hhRel_strict m _ p2 p3 s2 r3
  obtain ⟨p4, e4, r4⟩ := dow_stage m p3 s3 t.dow l4
  have s4 := (dowRel_keeps m _ p3 p4 s3 r4).1
  obtain ⟨p5, e5, r5⟩ := dom_stage m p4 s4 t.dom (fun d hd => by rw [← maxDom_eq]; exact l5 d hd)
  have s5 := (domRel_keeps m _ p4 p5 s4 r5).1
  obtain ⟨p6, e6, r6⟩ := doy_stage m p5 s5 t.doy (fun d hd => by rw [← (daysInYearRec_eq m).2]; exact l6 d hd)
  have s6 := (doyRel_keeps m _ p5 p6 s5 r6).1
  obtain ⟨q, e7, r7⟩ := week_stage m p6 s6 t.week (fun d hd => by rw [← maxW_eq]; exact l7 d hd)
  refine ⟨p0, p1, p2, p3, p4, p5, p6, q, e0, ?_, g0.strict, g0.tz, by rw [g0.inst]; omega,
    r1, r2, r3, r4, r5, r6, r7⟩
  rw [addTruncated_parts]
  simp only [e0, e1, e2, e3, e4, e5, e6, e7, Option.bind_some]

/-! ### the day-designator parts find the first matching day -/

private theorem noneq {P : Int → Prop} : ∀ k, (none : Option Int) = some k → P k :=
  fun _ h => by cases h
private theorem noneq' {P : Int → Prop} {o : Option Int} (e : o = none) : ∀ k, o = some k → P k :=
  fun _ h => by rw [e] at h; cases h
private theorem someq {P : Int → Prop} {a : Int} (h : P a) : ∀ k, some a = some k → P k :=
  fun _ e => by cases e; exact h

theorem week_group (m : Mode) (dow week : Option Int) (p3 p4 q : TP)
    (r4 : DowRel m dow p3 p4) (r7 : WeekRel m week p4 q) :
    (∀ k, dow = some k → q.date.rep = 2 ∧ getDow q = k) ∧ (∀ w, week = some w → q.date.rep = 2 ∧ getWeek q = w) ∧
    (∀ k, dow = some k → Spec.weekday m (q.date.dayNum m) = k) ∧
    (∀ w, week = some w → WeekOf m (q.date.dayNum m) w) ∧
    (dow = none → Spec.weekday m (q.date.dayNum m) = Spec.weekday m (p3.date.dayNum m)) ∧
    ∀ n, p3.date.dayNum m ≤ n → (∀ k, dow = some k → Spec.weekday m n = k) →
      (∀ w, week = some w → WeekOf m n w) →
      (dow = none → week ≠ none → Spec.weekday m n = Spec.weekday m (p3.date.dayNum m)) →
      q.date.dayNum m ≤ n := by
  cases dow with
  | none =>
    cases r4
    cases week with
    | none =>
      cases r7
      exact ⟨noneq, noneq, noneq, noneq,
        fun _ => rfl, fun n hn _ _ _ => hn⟩
    | some w =>
      obtain ⟨st, hg, hwd, hmin⟩ := r7
      refine ⟨noneq, someq (⟨st.2.2.1, hg⟩), noneq, ?_,
        fun _ => hwd, ?_⟩
      · intro w' h; cases h
        have := weekOf_get m q st.1 st.2.2.1; rw [hg] at this; exact this
      · intro n hn _ hw hk
        exact hmin n hn (hk rfl (by simp)) (hw w rfl)
  | some k =>
    obtain ⟨st4, hg4, hmin4⟩ := r4
    have hk4 : Spec.weekday m (p4.date.dayNum m) = k := by rw [← getDow_eq m p4 st4.1 st4.2.2.1]; exact hg4
    cases week with
    | none =>
      cases r7
      refine ⟨someq (⟨st4.2.2.1, hg4⟩), noneq, someq (hk4),
        noneq, (fun h => by cases h), ?_⟩
      intro n hn hd _ _
      exact hmin4 n hn (hd k rfl)
    | some w =>
      obtain ⟨st, hg, hwd, hmin⟩ := r7
      have hkq : Spec.weekday m (q.date.dayNum m) = k := by rw [hwd]; exact hk4
      refine ⟨someq (⟨st.2.2.1, by rw [getDow_eq m q st.1 st.2.2.1]; exact hkq⟩),
        someq (⟨st.2.2.1, hg⟩), someq (hkq), ?_, (fun h => by cases h), ?_⟩
      · intro w' h; cases h
        have := weekOf_get m q st.1 st.2.2.1; rw [hg] at this; exact this
      · intro n hn hd hw _
        have h4 := hmin4 n hn (hd k rfl)
        exact hmin n h4 (by rw [hk4]; exact hd k rfl) (hw w rfl)

theorem dom_group (m : Mode) (dom : Option Int) (p4 p5 : TP) (r5 : DomRel m dom p4 p5) :
    (∀ d, dom = some d → p5.date.rep = 0 ∧ getDom p5 = d) ∧ (∀ d, dom = some d → DomOf m (p5.date.dayNum m) d) ∧
    ∀ n, p4.date.dayNum m ≤ n → (∀ d, dom = some d → DomOf m n d) → p5.date.dayNum m ≤ n := by
  cases dom with
  | none => cases r5; exact ⟨noneq, noneq, fun n hn _ => hn⟩
  | some d =>
    obtain ⟨st, hg, hmin⟩ := r5
    refine ⟨someq (⟨st.2.2.1, hg⟩), ?_, fun n hn hd => hmin n hn (hd d rfl)⟩
    intro d' h; cases h
    have := domOf_get m p5 st.1 st.2.2.1; rw [hg] at this; exact this

theorem doy_group (m : Mode) (doy : Option Int) (p5 p6 : TP) (r6 : DoyRel m doy p5 p6) :
    (∀ d, doy = some d → p6.date.rep = 1 ∧ getDoy p6 = d) ∧ (∀ d, doy = some d → DoyOf m (p6.date.dayNum m) d) ∧
    ∀ n, p5.date.dayNum m ≤ n → (∀ d, doy = some d → DoyOf m n d) → p6.date.dayNum m ≤ n := by
  cases doy with
  | none => cases r6; exact ⟨noneq, noneq, fun n hn _ => hn⟩
  | some d =>
    obtain ⟨st, hg, hmin⟩ := r6
    refine ⟨someq (⟨st.2.2.1, hg⟩), ?_, fun n hn hd => hmin n hn (hd d rfl)⟩
    intro d' h; cases h
    have := doyOf_get m p6 st.1 st.2.2.1; rw [hg] at this; exact this

/-- **The four day-designator parts together**, for at most one designator (week plus weekday
    counting as one): the result shows every named designator, and its day is the first day not
    before the start that does (for week alone: the first such day with the start's weekday). -/
theorem day_chain (m : Mode) (t : Trunc) (p3 p4 p5 p6 q : TP)
    (r4 : DowRel m t.dow p3 p4) (r5 : DomRel m t.dom p4 p5) (r6 : DoyRel m t.doy p5 p6)
    (r7 : WeekRel m t.week p6 q) (hd : DayShape t) :
    DirectMatch t q ∧ DayMatch m t (q.date.dayNum m) ∧
    (t.dow = none → t.week ≠ none → Spec.weekday m (q.date.dayNum m) = Spec.weekday m (p3.date.dayNum m)) ∧
    ∀ n, p3.date.dayNum m ≤ n → DayMatch m t n →
      (t.dow = none → t.week ≠ none → Spec.weekday m n = Spec.weekday m (p3.date.dayNum m)) →
      q.date.dayNum m ≤ n := by
  rcases hd with ⟨h1, h2⟩ | ⟨h1, h2, h3'⟩
  · rw [h1] at r5; rw [h2] at r6
    have e5 : p5 = p4 := r5
    have e6 : p6 = p5 := r6
    rw [e6, e5] at r7
    obtain ⟨a1, a2, a3, a4, a5, a6⟩ := week_group m t.dow t.week p3 p4 q r4 r7
    refine ⟨⟨a1, noneq' h1, noneq' h2, a2⟩, ⟨a3, noneq' h1, noneq' h2, a4⟩, fun h _ => a5 h, ?_⟩
    intro n hn hm hw
    exact a6 n hn hm.1 hm.2.2.2 hw
  · rw [h1] at r4; rw [h2] at r7
    have e4 : p4 = p3 := r4
    have e7 : q = p6 := r7
    rw [e4] at r5; rw [e7]
    rcases h3' with h3' | h3'
    · rw [h3'] at r5
      have e5 : p5 = p3 := r5
      rw [e5] at r6
      obtain ⟨c1, c2, c3⟩ := doy_group m t.doy p3 p6 r6
      refine ⟨⟨noneq' h1, noneq' h3', c1, noneq' h2⟩, ⟨noneq' h1, noneq' h3', c2, noneq' h2⟩,
        fun _ h => absurd h2 h, ?_⟩
      intro n hn hm _
      exact c3 n hn hm.2.2.1
    · rw [h3'] at r6
      have e6 : p6 = p5 := r6
      rw [e6]
      obtain ⟨b1, b2, b3⟩ := dom_group m t.dom p3 p5 r5
      refine ⟨⟨noneq' h1, b1, noneq' h3', noneq' h2⟩, ⟨noneq' h1, b2, noneq' h3', noneq' h2⟩,
        fun _ h => absurd h2 h, ?_⟩
      intro n hn hm _
      exact b3 n hn hm.2.1

/-! ### the whole operation -/

theorem eff_of (t : Trunc) :
    (∀ x, t.mi = some x → effMI t = some x) ∧ (t.hh ≠ none → t.mi = none → effMI t = some 0) ∧
    (∀ s, t.ss = some s → effSS t = some s) ∧ ((t.hh ≠ none ∨ t.mi ≠ none) → t.ss = none → effSS t = some 0) ∧
    (t.hh = none → t.mi = none → t.ss = none → effMI t = none ∧ effSS t = none) ∧
    (∀ h, t.hh = some h → effMI t = some (t.mi.getD 0) ∧ effSS t = some (t.ss.getD 0)) := by
  obtain ⟨week, dow, dom, doy, hh, mi, ss, tz⟩ := t
  cases hh <;> cases mi <;> cases ss <;> simp [effMI, effSS]

/-- **`add_truncated` in two halves**: the time-of-day loops take `p` (24:00 normalised to `p0`)
    less than a day forward to `p3`, which shows the targeted time fields; the day-designator loops
    then walk whole days (weeks) from `p3` to the result `q`, keeping the time of day, and - for at
    most one designator - stop at the first day not before `p3`'s whose date matches. -/
theorem addTruncated_full (m : Mode) (p : TP) (hv : p.Valid m) (t : Trunc) (hl : LegalTrunc m t) :
    ∃ p0 p3 q, normalise24 m p = some p0 ∧ p0.Strict m ∧ p0.tz = p.tz ∧ p0.inst m = p.inst m ∧
      p0.date.rep = p.date.rep ∧
      p3.Strict m ∧ p3.tz = p.tz ∧ p.inst m ≤ p3.inst m ∧ p3.inst m < p.inst m + 86400 ∧ TimeMatch t p3 ∧
      (t.hh = none → t.mi = none → t.ss = none → p3 = p0) ∧
      addTruncated m p t = some q ∧ Keeps m p3 q ∧
      (t.dow = none → t.dom = none → t.doy = none → t.week = none → q = p3) ∧
      (DayShape t → DirectMatch t q ∧ DayMatch m t (q.date.dayNum m) ∧
        (t.dow = none → t.week ≠ none →
          Spec.weekday m (q.date.dayNum m) = Spec.weekday m (p3.date.dayNum m)) ∧
        ∀ n, p3.date.dayNum m ≤ n → DayMatch m t n →
          (t.dow = none → t.week ≠ none → Spec.weekday m n = Spec.weekday m (p3.date.dayNum m)) →
          q.date.dayNum m ≤ n) := by
  obtain ⟨p0, p1, p2, p3, p4, p5, p6, q, e0, eq, s0, tz0, i0, r1, r2, r3, r4, r5, r6, r7⟩ :=
    addTruncated_chain m p hv t hl
  obtain ⟨a1, a2, a3, a4, a5, a6, a7, a8, a9⟩ := time_summary m _ _ _ p0 p1 p2 p3 s0 r1 r2 r3
  have k4 := dowRel_keeps m _ p3 p4 a1 r4
  have k5 := domRel_keeps m _ p4 p5 k4.1 r5
  have k6 := doyRel_keeps m _ p5 p6 k5.1 r6
  have k7 := weekRel_keeps m _ p6 q k6.1 r7
  have kq := keeps_trans m p3 p4 q k4 (keeps_trans m p4 p5 q k5 (keeps_trans m p5 p6 q k6 k7))
  have hrep0 : p0.date.rep = p.date.rep := by
    obtain ⟨x, ex, gx⟩ := normalise24_spec m p hv
    rw [e0] at ex; cases ex; exact gx.rep
  refine ⟨p0, p3, q, e0, s0, tz0, i0, hrep0, a1, by rw [a2, tz0], by omega, by omega, ⟨a8, a7, a6⟩, ?_, eq, kq, ?_,
    fun hd => day_chain m t p3 p4 p5 p6 q r4 r5 r6 r7 hd⟩
  · intro h1 h2 h3
    obtain ⟨e1, e2⟩ := (eff_of t).2.2.2.2.1 h1 h2 h3
    exact a9 e2 e1 h1
  · intro h1 h2 h3 h4
    rw [h1] at r4; rw [h2] at r5; rw [h3] at r6; rw [h4] at r7
    have e4 : p4 = p3 := r4
    have e5 : p5 = p4 := r5
    have e6 : p6 = p5 := r6
    have e7 : q = p6 := r7
    rw [e7, e6, e5, e4]

/-- **C20, fields**: for every valid full point `p` (24:00 included) and every truncated point with
    legal field values, the result `q` of `add_truncated` is a valid date-time in `p`'s offset, not
    earlier than `p`, and
    * carries every time field `t` specifies, the lower time fields defaulting to zero exactly as
      `add_truncated` defaults them (minute 0 when only an hour is given, second 0 when an hour or
      minute is given) - this for *every* combination of fields, since no day loop touches the time
      of day;
    * keeps `p`'s time of day (that of `p` with 24:00 read as next day 00:00) when `t` names no
      time field;
    * for at most one day designator (day-of-month, day-of-year, weekday, week, or week plus
      weekday - `DayShape`) carries it: `q`'s date is in that designator's representation and shows
      the target there (`DirectMatch`), and the day `q` denotes has that day-of-month / day-of-year /
      ISO weekday / ISO week number by the calendar definition (`DayMatch`).  In particular the
      week loop keeps the weekday the weekday loop found.
    For two unrelated designators the later loop disturbs the earlier field
    (`C20_matches_counterexample_*`); such combinations are not shapes of the property. -/
theorem C20_matches (m : Mode) (p : TP) (hv : p.Valid m) (t : Trunc) (hl : LegalTrunc m t) :
    ∃ p0 q, normalise24 m p = some p0 ∧ addTruncated m p t = some q ∧ q.Strict m ∧ q.tz = p.tz ∧
      p.inst m ≤ q.inst m ∧
      (∀ s, t.ss = some s → q.ss = s) ∧ (∀ x, t.mi = some x → q.mi = x) ∧ (∀ h, t.hh = some h → q.hh = h) ∧
      (t.hh ≠ none → t.mi = none → q.mi = 0) ∧ ((t.hh ≠ none ∨ t.mi ≠ none) → t.ss = none → q.ss = 0) ∧
      (t.hh = none → t.mi = none → t.ss = none → q.hh = p0.hh ∧ q.mi = p0.mi ∧ q.ss = p0.ss) ∧
      (DayShape t → DirectMatch t q ∧ DayMatch m t (q.date.dayNum m)) := by
  obtain ⟨p0, p3, q, e0, _, _, _, _, s3, tz3, i3, _, ⟨tm1, tm2, tm3⟩, hno, eq, ⟨qs, qt, qh, qm, qss, qd⟩, _, hday⟩ :=
    addTruncated_full m p hv t hl
  obtain ⟨f1, f2, f3, f4, _, _⟩ := eff_of t
  have hle := dayStage_inst m p3 q q.date.rep ⟨qs, qt, rfl, qh, qm, qss, qd⟩
  refine ⟨p0, q, e0, eq, qs, by rw [qt, tz3], by omega, ?_, ?_, ?_, ?_, ?_, ?_, fun hd => ⟨(hday hd).1, (hday hd).2.1⟩⟩
  · intro s hs; rw [qss]; exact tm3 s (f3 s hs)
  · intro x hx; rw [qm]; exact tm2 x (f1 x hx)
  · intro h hh; rw [qh]; exact tm1 h hh
  · intro h1 h2; rw [qm]; exact tm2 0 (f2 h1 h2)
  · intro h1 h2; rw [qss]; exact tm3 0 (f4 h1 h2)
  · intro h1 h2 h3
    have := hno h1 h2 h3
    rw [qh, qm, qss, this]; exact ⟨rfl, rfl, rfl⟩

/-- From the day-number minimality to the instant minimality: a point `q'` in `p`'s offset, not
    earlier than `p`, at the time of day of `p3` (less than a day after `p`), lies on a day not
    before `p3`'s; and of two such points the one on the earlier day is the earlier instant. -/
theorem same_time_order (m : Mode) (p p3 q q' : TP) (tz3 : p3.tz = p.tz) (i3 : p3.inst m < p.inst m + 86400)
    (kq : Keeps m p3 q) (htz : q'.tz = p.tz) (h1 : q'.hh = q.hh) (h2 : q'.mi = q.mi) (h3 : q'.ss = q.ss)
    (hge : p.inst m ≤ q'.inst m) :
    p3.date.dayNum m ≤ q'.date.dayNum m ∧ (q.date.dayNum m ≤ q'.date.dayNum m → q.inst m ≤ q'.inst m) := by
  obtain ⟨_, qt, qh, qm, qss, _⟩ := kq
  have e3 : p3.inst m = 86400 * p3.date.dayNum m + (3600 * p3.hh + 60 * p3.mi + p3.ss) - p3.tz.seconds := rfl
  have eq : q.inst m = 86400 * q.date.dayNum m + (3600 * q.hh + 60 * q.mi + q.ss) - q.tz.seconds := rfl
  have eq' : q'.inst m = 86400 * q'.date.dayNum m + (3600 * q'.hh + 60 * q'.mi + q'.ss) - q'.tz.seconds := rfl
  have t1 : q'.tz.seconds = p3.tz.seconds := by rw [htz, tz3]
  have t2 : q.tz.seconds = p3.tz.seconds := by rw [qt]
  rw [h1, h2, h3, t1] at eq'
  rw [qh, qm, qss, t2] at eq
  constructor
  · omega
  · intro h; omega

/-- **C20, earliest match at the result's time of day** - every shape with at most one day
    designator (`DayShape`; a week number must come with a weekday), whatever time fields it names:
    the result `q` is the earliest date-time not earlier than `p`, in `p`'s offset, *at `q`'s own time
    of day*, whose date carries the designator.  (For the shapes with an hour, and for those with no
    time field, `q`'s time of day is fixed by `t` and `p` - `C20_day_hour_earliest`,
    `C20_day_only_earliest`.  For minute/second without hour it contains `p`'s hour: that is all
    there is to F9.) -/
theorem C20_day_earliest_same_time (m : Mode) (p : TP) (hv : p.Valid m) (t : Trunc) (hl : LegalTrunc m t)
    (hd : DayShape t) (hw : t.week ≠ none → t.dow ≠ none) :
    ∃ q, addTruncated m p t = some q ∧
      EarliestAny m p q (fun x => x.hh = q.hh ∧ x.mi = q.mi ∧ x.ss = q.ss ∧ DayMatch m t (x.date.dayNum m)) := by
  obtain ⟨p0, p3, q, e0, _, _, _, _, s3, tz3, i3, i3', _, _, eq, kq, _, hday⟩ := addTruncated_full m p hv t hl
  obtain ⟨_, dm, _, hmin⟩ := hday hd
  have hle := dayStage_inst m p3 q q.date.rep ⟨kq.1, kq.2.1, rfl, kq.2.2.1, kq.2.2.2.1, kq.2.2.2.2.1, kq.2.2.2.2.2⟩
  refine ⟨q, eq, kq.1, by rw [kq.2.1, tz3], ⟨rfl, rfl, rfl, dm⟩, by omega, ?_⟩
  intro q' _ htz ⟨h1, h2, h3, hm⟩ hge
  obtain ⟨o1, o2⟩ := same_time_order m p p3 q q' tz3 i3' kq htz h1 h2 h3 hge
  exact o2 (hmin _ o1 hm (fun a b => absurd a (hw b)))

/-- **C20, day designator alone** (`--DD`, `-DDD`, `-W-D`, `-Www-D`: one day designator - day of
    month, day of year, weekday, or week plus weekday - and no time field): the time of day is
    unchanged (that of `p`, 24:00 read as 00:00 of the next day: `p0`), and the result is the
    earliest date-time not earlier than `p`, in `p`'s offset, at that time of day, whose date carries
    the designator.  (Quantifying over *all* date-times with a matching date, whatever their time
    of day, is not what the operation does nor what the property asks: the time of day is kept, so an
    earlier time on the matching day is not a candidate -
    `C20_day_only_keeps_time_example`.) -/
theorem C20_day_only_earliest (m : Mode) (p : TP) (hv : p.Valid m) (t : Trunc) (hl : LegalTrunc m t)
    (hd : DayShape t) (hw : t.week ≠ none → t.dow ≠ none) (ht : t.hh = none ∧ t.mi = none ∧ t.ss = none) :
    ∃ p0 q, normalise24 m p = some p0 ∧ addTruncated m p t = some q ∧
      EarliestAny m p q (fun x => x.hh = p0.hh ∧ x.mi = p0.mi ∧ x.ss = p0.ss ∧ DayMatch m t (x.date.dayNum m)) := by
  obtain ⟨p0, p3, q, e0, _, _, _, _, _, _, _, _, _, hno, eq, kq, _, _⟩ := addTruncated_full m p hv t hl
  obtain ⟨q2, eq2, he⟩ := C20_day_earliest_same_time m p hv t hl hd hw
  rw [eq] at eq2; cases eq2
  have e3 := hno ht.1 ht.2.1 ht.2.2
  have hh : q.hh = p0.hh := by rw [kq.2.2.1, e3]
  have hm : q.mi = p0.mi := by rw [kq.2.2.2.1, e3]
  have hs : q.ss = p0.ss := by rw [kq.2.2.2.2.1, e3]
  rw [hh, hm, hs] at he
  exact ⟨p0, q, e0, eq, he⟩

/-- **C20, day designator with an hour** (`--DDThh`, `-DDDThh:mm`, `-W-DThh:mm:ss`, `-Www-DThh`, ...:
    one day designator together with an hour and optionally minute and second; missing lower
    fields are zero): the time loops land on the next occurrence of that time of day - possibly
    tomorrow - and the day loop walks whole days from there; the result is the earliest date-time
    not earlier than `p`, in `p`'s offset, with that time of day and a date carrying the designator.
    There is no corner where crossing midnight in the time loops loses a match. -/
theorem C20_day_hour_earliest (m : Mode) (p : TP) (hv : p.Valid m) (t : Trunc) (hl : LegalTrunc m t)
    (hd : DayShape t) (hw : t.week ≠ none → t.dow ≠ none) (h : Int) (hh : t.hh = some h) :
    ∃ q, addTruncated m p t = some q ∧
      EarliestAny m p q (fun x => x.hh = h ∧ x.mi = t.mi.getD 0 ∧ x.ss = t.ss.getD 0 ∧
        DayMatch m t (x.date.dayNum m)) := by
  obtain ⟨p0, p3, q, _, _, _, _, _, _, _, _, _, ⟨tm1, tm2, tm3⟩, _, eq, kq, _, _⟩ := addTruncated_full m p hv t hl
  obtain ⟨q2, eq2, he⟩ := C20_day_earliest_same_time m p hv t hl hd hw
  rw [eq] at eq2; cases eq2
  obtain ⟨e1, e2⟩ := (eff_of t).2.2.2.2.2 h hh
  have h1 : q.hh = h := by rw [kq.2.2.1]; exact tm1 h hh
  have h2 : q.mi = t.mi.getD 0 := by rw [kq.2.2.2.1]; exact tm2 _ e1
  have h3 : q.ss = t.ss.getD 0 := by rw [kq.2.2.2.2.1]; exact tm3 _ e2
  rw [h1, h2, h3] at he
  exact ⟨q, eq, he⟩

/-- **Week alone** (`-Www`, which the library accepts; not one of the property's shapes): the week
    loop steps whole weeks, so the weekday is kept along with the time of day, and the result is the
    earliest date-time not earlier than `p` in that week *on `p`'s weekday* at `p`'s time of day.  It
    is not in general the earliest day of that week (`C20_week_only_not_earliest_in_week`). -/
theorem C20_week_only_earliest (m : Mode) (p : TP) (hv : p.Valid m) (t : Trunc) (hl : LegalTrunc m t)
    (w : Int) (hwk : t.week = some w) (hdow : t.dow = none) (hdom : t.dom = none) (hdoy : t.doy = none)
    (ht : t.hh = none ∧ t.mi = none ∧ t.ss = none) :
    ∃ p0 q, normalise24 m p = some p0 ∧ addTruncated m p t = some q ∧
      EarliestAny m p q (fun x => x.hh = p0.hh ∧ x.mi = p0.mi ∧ x.ss = p0.ss ∧
        WeekOf m (x.date.dayNum m) w ∧ Spec.weekday m (x.date.dayNum m) = Spec.weekday m (p0.date.dayNum m)) := by
  obtain ⟨p0, p3, q, e0, _, _, _, _, s3, tz3, i3, i3', _, hno, eq, kq, _, hday⟩ := addTruncated_full m p hv t hl
  obtain ⟨_, dm, hwd, hmin⟩ := hday (Or.inl ⟨hdom, hdoy⟩)
  have e3 := hno ht.1 ht.2.1 ht.2.2
  have hwn : t.week ≠ none := by rw [hwk]; simp
  have hle := dayStage_inst m p3 q q.date.rep ⟨kq.1, kq.2.1, rfl, kq.2.2.1, kq.2.2.2.1, kq.2.2.2.2.1, kq.2.2.2.2.2⟩
  refine ⟨p0, q, e0, eq, kq.1, by rw [kq.2.1, tz3], ?_, by omega, ?_⟩
  · rw [← e3]
    exact ⟨kq.2.2.1, kq.2.2.2.1, kq.2.2.2.2.1, dm.2.2.2 w hwk, hwd hdow hwn⟩
  · intro q' _ htz ⟨h1, h2, h3, hm, hwd'⟩ hge
    rw [← e3] at h1 h2 h3 hwd'
    obtain ⟨o1, o2⟩ := same_time_order m p p3 q q' tz3 i3' kq htz (by rw [h1, kq.2.2.1]) (by rw [h2, kq.2.2.2.1])
      (by rw [h3, kq.2.2.2.2.1]) hge
    refine o2 (hmin _ o1 ⟨noneq' hdow, noneq' hdom, noneq' hdoy, ?_⟩ (fun _ _ => hwd'))
    intro w' hw'; rw [hwk] at hw'; cases hw'; exact hm

/-- A point that already shows every targeted field passes through `add_truncated` unchanged:
    every loop exits at its first test (and the conversions return the point itself). -/
theorem addTruncated_fixed (m : Mode) (q : TP) (hq : q.Strict m) (t : Trunc) (tm : TimeMatch t q)
    (dm : DirectMatch t q) : addTruncated m q t = some q := by
  rw [addTruncated_parts, normalise24_strict m q hq]
  simp only [Option.bind_some, ssPart_fix m _ q tm.2.2, miPart_fix m _ q tm.2.1, hhPart_fix m _ q tm.1,
    dowPart_fix m _ q dm.1, domPart_fix m _ q dm.2.1, doyPart_fix m _ q dm.2.2.1, weekPart_fix m _ q dm.2.2.2]

/-- **C20, idempotence for the day-designator shapes**: applying `t` again to the result returns the
    same result - for every valid `p` and every legal `t` with at most one day designator (week plus
    weekday counting as one; week alone too), whatever time fields it names (so also for the F9
    shapes, whose result matches without being the earliest). -/
theorem C20_day_idempotent (m : Mode) (p : TP) (hv : p.Valid m) (t : Trunc) (hl : LegalTrunc m t)
    (hd : DayShape t) (q : TP) (h : addTruncated m p t = some q) : addTruncated m q t = some q := by
  obtain ⟨p0, p3, q2, _, _, _, _, _, _, _, _, _, ⟨tm1, tm2, tm3⟩, _, eq, kq, _, hday⟩ := addTruncated_full m p hv t hl
  rw [h] at eq; cases eq
  refine addTruncated_fixed m q kq.1 t ⟨?_, ?_, ?_⟩ (hday hd).1
  · intro x hx; rw [kq.2.2.1]; exact tm1 x hx
  · intro x hx; rw [kq.2.2.2.1]; exact tm2 x hx
  · intro x hx; rw [kq.2.2.2.2.1]; exact tm3 x hx

/-! ## The calendar-level designators are what the library's own conversions show -/

/-- For a valid point in any representation, "its day is day `d` of a month / day `k` of a year /
    weekday `k` / in week `w`" (`DayMatch`'s components, read off `Spec.Calendar`) is exactly what
    `to_calendar_date` / `to_ordinal_date` / `to_week_date` display. -/
theorem C20_designator_views (m : Mode) (x : TP) (hx : x.Strict m) (v : Int) :
    (DomOf m (x.date.dayNum m) v ↔ (toRep m 0 x).map getDom = some v) ∧
    (DoyOf m (x.date.dayNum m) v ↔ (toRep m 1 x).map getDoy = some v) ∧
    (Spec.weekday m (x.date.dayNum m) = v ↔ (toRep m 2 x).map getDow = some v) ∧
    (WeekOf m (x.date.dayNum m) v ↔ (toRep m 2 x).map getWeek = some v) := by
  obtain ⟨r0, e0, s0, _, k0, n0, _⟩ := toRep_ok m 0 (by omega) x hx
  obtain ⟨r1, e1, s1, _, k1, n1, _⟩ := toRep_ok m 1 (by omega) x hx
  obtain ⟨r2, e2, s2, _, k2, n2, _⟩ := toRep_ok m 2 (by omega) x hx
  simp only [e0, e1, e2, Option.map_some, Option.some.injEq]
  refine ⟨⟨fun h => getDom_of m r0 s0 k0 v (by rw [n0]; exact h), fun h => ?_⟩,
    ⟨fun h => getDoy_of m r1 s1 k1 v (by rw [n1]; exact h), fun h => ?_⟩,
    ⟨fun h => by rw [getDow_eq m r2 s2 k2, n2]; exact h, fun h => by rw [← n2, ← getDow_eq m r2 s2 k2]; exact h⟩,
    ⟨fun h => getWeek_of m r2 s2 k2 v (by rw [n2]; exact h), fun h => ?_⟩⟩
  · rw [← n0, ← h]; exact domOf_get m r0 s0 k0
  · rw [← n1, ← h]; exact doyOf_get m r1 s1 k1
  · rw [← n2, ← h]; exact weekOf_get m r2 s2 k2

example : DomOf .greg (Date.dayNum .greg (.week 2000 10 6)) 11 :=
  ((C20_designator_views .greg ⟨.week 2000 10 6, 0, 0, 0, ⟨0, 0⟩⟩ (by decide) 11).1).2 (by decide +kernel)

/-! ## Counterexamples: what is false of `add_truncated` -/

theorem not_domOf (m : Mode) (n y mo d d' : Int) (hv : Spec.ValidCal m y mo d) (hn : Spec.dayNumCal m y mo d = n)
    (hne : d ≠ d') : ¬ DomOf m n d' := by
  rintro ⟨Y, M, hv', hn'⟩
  exact hne (cal_unique m y mo d Y M d' hv hv' (by rw [hn, hn'])).2.2

theorem not_doyOf (m : Mode) (n y k k' : Int) (hv : Spec.ValidOrd m y k) (hn : Spec.dayNumOrd m y k = n)
    (hne : k ≠ k') : ¬ DoyOf m n k' := by
  rintro ⟨Y, hv', hn'⟩
  exact hne (ord_unique m y k Y k' hv hv' (by rw [hn, hn'])).2

/-- **Two unrelated day designators: the later loop disturbs the earlier field** (so `C20_matches`
    needs `DayShape`; these combinations are not shapes of the property, and the library's
    truncated-point constructor does not build them).  From `2000-01-01T00:00Z` (a Saturday):
    * weekday 1 + day-of-month 15 gives `2000-01-15`, a Saturday;
    * weekday 1 + day-of-year 40 gives `2000-040`, a Wednesday;
    * day-of-month 15 + day-of-year 40 gives `2000-040` = 9 February;
    * day-of-month 15 + week 10 gives `2000-W10-6` = 11 March;
    * day-of-year 40 + week 10 gives `2000-W10-3` = day 68. -/
theorem C20_matches_counterexample_twoDesignators :
    (addTruncated .greg ⟨.cal 2000 1 1, 0, 0, 0, ⟨0, 0⟩⟩ ⟨none, some 1, some 15, none, none, none, none, none⟩ =
        some ⟨.cal 2000 1 15, 0, 0, 0, ⟨0, 0⟩⟩ ∧
      ¬ DayMatch .greg ⟨none, some 1, some 15, none, none, none, none, none⟩ (Date.dayNum .greg (.cal 2000 1 15))) ∧
    (addTruncated .greg ⟨.cal 2000 1 1, 0, 0, 0, ⟨0, 0⟩⟩ ⟨none, some 1, none, some 40, none, none, none, none⟩ =
        some ⟨.ord 2000 40, 0, 0, 0, ⟨0, 0⟩⟩ ∧
      ¬ DayMatch .greg ⟨none, some 1, none, some 40, none, none, none, none⟩ (Date.dayNum .greg (.ord 2000 40))) ∧
    (addTruncated .greg ⟨.cal 2000 1 1, 0, 0, 0, ⟨0, 0⟩⟩ ⟨none, none, some 15, some 40, none, none, none, none⟩ =
        some ⟨.ord 2000 40, 0, 0, 0, ⟨0, 0⟩⟩ ∧
      ¬ DayMatch .greg ⟨none, none, some 15, some 40, none, none, none, none⟩ (Date.dayNum .greg (.ord 2000 40))) ∧
    (addTruncated .greg ⟨.cal 2000 1 1, 0, 0, 0, ⟨0, 0⟩⟩ ⟨some 10, none, some 15, none, none, none, none, none⟩ =
        some ⟨.week 2000 10 6, 0, 0, 0, ⟨0, 0⟩⟩ ∧
      ¬ DayMatch .greg ⟨some 10, none, some 15, none, none, none, none, none⟩ (Date.dayNum .greg (.week 2000 10 6))) ∧
    (addTruncated .greg ⟨.cal 2000 1 1, 0, 0, 0, ⟨0, 0⟩⟩ ⟨some 10, none, none, some 40, none, none, none, none⟩ =
        some ⟨.week 2000 10 3, 0, 0, 0, ⟨0, 0⟩⟩ ∧
      ¬ DayMatch .greg ⟨some 10, none, none, some 40, none, none, none, none⟩ (Date.dayNum .greg (.week 2000 10 3))) := by
  refine ⟨⟨by decide +kernel, fun h => ?_⟩, ⟨by decide +kernel, fun h => ?_⟩, ⟨by decide +kernel, fun h => ?_⟩,
    ⟨by decide +kernel, fun h => ?_⟩, ⟨by decide +kernel, fun h => ?_⟩⟩
  · exact absurd (h.1 1 rfl) (by decide +kernel)
  · exact absurd (h.1 1 rfl) (by decide +kernel)
  · exact not_domOf .greg _ 2000 2 9 15 (by decide) (by decide +kernel) (by decide) (h.2.1 15 rfl)
  · exact not_domOf .greg _ 2000 3 11 15 (by decide) (by decide +kernel) (by decide) (h.2.1 15 rfl)
  · exact not_doyOf .greg _ 2000 68 40 (by decide) (by decide +kernel) (by decide) (h.2.2.1 40 rfl)

/-- **Week alone is not the earliest day of that week**: `-W11` added to `2020-03-04T10:00Z`
    (Wednesday of week 10) gives Wednesday `2020-W11-3T10:00Z`, while Monday `2020-W11-1T10:00Z` is
    also in week 11, at the same time of day, not earlier than `p`, and earlier than the result.
    (The weekday is kept, like the time of day; see `C20_week_only_earliest`.) -/
theorem C20_week_only_not_earliest_in_week :
    addTruncated .greg ⟨.cal 2020 3 4, 10, 0, 0, ⟨0, 0⟩⟩ ⟨some 11, none, none, none, none, none, none, none⟩ =
      some ⟨.week 2020 11 3, 10, 0, 0, ⟨0, 0⟩⟩ ∧
    WeekOf .greg (Date.dayNum .greg (.week 2020 11 1)) 11 ∧
    (⟨.cal 2020 3 4, 10, 0, 0, ⟨0, 0⟩⟩ : TP).inst .greg ≤ (⟨.week 2020 11 1, 10, 0, 0, ⟨0, 0⟩⟩ : TP).inst .greg ∧
    (⟨.week 2020 11 1, 10, 0, 0, ⟨0, 0⟩⟩ : TP).inst .greg < (⟨.week 2020 11 3, 10, 0, 0, ⟨0, 0⟩⟩ : TP).inst .greg := by
  refine ⟨by decide +kernel, ⟨2020, 1, by decide +kernel, rfl⟩, by decide +kernel, by decide +kernel⟩

/-- The time of day is kept, so "earliest" for a day designator alone ranges over date-times at that
    time of day: `--05` added to `2020-03-04T10:00Z` gives `2020-03-05T10:00Z`, although
    `2020-03-05T00:00Z` is on a matching day, not earlier than `p`, and earlier. -/
theorem C20_day_only_keeps_time_example :
    addTruncated .greg ⟨.cal 2020 3 4, 10, 0, 0, ⟨0, 0⟩⟩ ⟨none, none, some 5, none, none, none, none, none⟩ =
      some ⟨.cal 2020 3 5, 10, 0, 0, ⟨0, 0⟩⟩ ∧
    (⟨.cal 2020 3 4, 10, 0, 0, ⟨0, 0⟩⟩ : TP).inst .greg ≤ (⟨.cal 2020 3 5, 0, 0, 0, ⟨0, 0⟩⟩ : TP).inst .greg ∧
    (⟨.cal 2020 3 5, 0, 0, 0, ⟨0, 0⟩⟩ : TP).inst .greg < (⟨.cal 2020 3 5, 10, 0, 0, ⟨0, 0⟩⟩ : TP).inst .greg := by
  refine ⟨by decide +kernel, by decide +kernel, by decide +kernel⟩

/-! ## Non-vacuity -/

/-- A checkable form of `LegalTrunc`, for instantiating the theorems at concrete values. -/
def legalB (m : Mode) (t : Trunc) : Bool :=
  t.ss.all (fun x => decide (0 ≤ x ∧ x < 60)) && t.mi.all (fun x => decide (0 ≤ x ∧ x < 60)) &&
  t.hh.all (fun x => decide (0 ≤ x ∧ x < 24)) && t.dow.all (fun x => decide (1 ≤ x ∧ x ≤ 7)) &&
  t.dom.all (fun x => decide (1 ≤ x ∧ x ≤ (calOf m).maxDaysInMonth)) &&
  t.doy.all (fun x => decide (1 ≤ x ∧ x ≤ (calOf m).daysInYearLeap)) &&
  t.week.all (fun x => decide (1 ≤ x ∧ x ≤ (calOf m).maxWeeksInYear))

theorem all_elim (o : Option Int) (P : Int → Prop) [DecidablePred P] (h : o.all (fun x => decide (P x)) = true) :
    ∀ x, o = some x → P x := by
  intro x e; subst e; simpa using h

theorem legal_of_legalB (m : Mode) (t : Trunc) (h : legalB m t = true) : LegalTrunc m t := by
  simp only [legalB, Bool.and_eq_true] at h
  obtain ⟨⟨⟨⟨⟨⟨h1, h2⟩, h3⟩, h4⟩, h5⟩, h6⟩, h7⟩ := h
  exact ⟨all_elim _ _ h1, all_elim _ _ h2, all_elim _ _ h3, all_elim _ _ h4, all_elim _ _ h5, all_elim _ _ h6,
    all_elim _ _ h7⟩

/-- `C20_matches` at `-W10-3T06` (week 10, Wednesday, 06:00) added to `2020-03-04T10:00Z`. -/
example : ∃ p0 q, normalise24 .greg ⟨.cal 2020 3 4, 10, 0, 0, ⟨0, 0⟩⟩ = some p0 ∧
    addTruncated .greg ⟨.cal 2020 3 4, 10, 0, 0, ⟨0, 0⟩⟩ ⟨some 10, some 3, none, none, some 6, none, none, none⟩ = some q ∧
    q.hh = 6 ∧ q.mi = 0 ∧ q.ss = 0 ∧ getDow q = 3 ∧ getWeek q = 10 := by
  obtain ⟨p0, q, e0, eq, _, _, _, _, _, h3, h4, h5, _, hd⟩ :=
    C20_matches .greg ⟨.cal 2020 3 4, 10, 0, 0, ⟨0, 0⟩⟩ (by decide)
      ⟨some 10, some 3, none, none, some 6, none, none, none⟩ (legal_of_legalB _ _ (by decide))
  obtain ⟨dm, _⟩ := hd (by decide)
  exact ⟨p0, q, e0, eq, h3 6 rfl, h4 (by decide) rfl, h5 (Or.inl (by decide)) rfl, (dm.1 3 rfl).2, (dm.2.2.2 10 rfl).2⟩
example : addTruncated .greg ⟨.cal 2020 3 4, 10, 0, 0, ⟨0, 0⟩⟩ ⟨some 10, some 3, none, none, some 6, none, none, none⟩ =
    some ⟨.week 2021 10 3, 6, 0, 0, ⟨0, 0⟩⟩ := by decide +kernel

/-- `C20_day_earliest_same_time` at an F9 shape: `-001T-46` added to `2000-003T19:40:08Z`. -/
example : ∃ q, addTruncated .greg ⟨.ord 2000 3, 19, 40, 8, ⟨0, 0⟩⟩ ⟨none, none, none, some 1, none, some 46, none, none⟩ = some q ∧
    EarliestAny .greg ⟨.ord 2000 3, 19, 40, 8, ⟨0, 0⟩⟩ q (fun x => x.hh = q.hh ∧ x.mi = q.mi ∧ x.ss = q.ss ∧
      DayMatch .greg ⟨none, none, none, some 1, none, some 46, none, none⟩ (x.date.dayNum .greg)) :=
  C20_day_earliest_same_time .greg _ (by decide) _ (legal_of_legalB _ _ (by decide)) (by decide) (by decide)

/-- `C20_day_only_earliest` at `--31` added to `2001-01-31T24:00:00+05:30` (next: 31 March) and at
    `-W53-5` in a year without week 53. -/
example : ∃ p0 q, normalise24 .greg ⟨.cal 2001 1 31, 24, 0, 0, ⟨5, 30⟩⟩ = some p0 ∧
    addTruncated .greg ⟨.cal 2001 1 31, 24, 0, 0, ⟨5, 30⟩⟩ ⟨none, none, some 31, none, none, none, none, none⟩ = some q ∧
    EarliestAny .greg ⟨.cal 2001 1 31, 24, 0, 0, ⟨5, 30⟩⟩ q (fun x => x.hh = p0.hh ∧ x.mi = p0.mi ∧ x.ss = p0.ss ∧
      DayMatch .greg ⟨none, none, some 31, none, none, none, none, none⟩ (x.date.dayNum .greg)) :=
  C20_day_only_earliest .greg _ (by decide) _ (legal_of_legalB _ _ (by decide)) (by decide) (by decide) (by decide)
example : addTruncated .greg ⟨.cal 2001 1 31, 24, 0, 0, ⟨5, 30⟩⟩ ⟨none, none, some 31, none, none, none, none, none⟩ =
    some ⟨.cal 2001 3 31, 0, 0, 0, ⟨5, 30⟩⟩ := by decide +kernel
example : ∃ p0 q, normalise24 .greg ⟨.cal 2021 3 1, 10, 0, 0, ⟨0, 0⟩⟩ = some p0 ∧
    addTruncated .greg ⟨.cal 2021 3 1, 10, 0, 0, ⟨0, 0⟩⟩ ⟨some 53, some 5, none, none, none, none, none, none⟩ = some q ∧
    EarliestAny .greg ⟨.cal 2021 3 1, 10, 0, 0, ⟨0, 0⟩⟩ q (fun x => x.hh = p0.hh ∧ x.mi = p0.mi ∧ x.ss = p0.ss ∧
      DayMatch .greg ⟨some 53, some 5, none, none, none, none, none, none⟩ (x.date.dayNum .greg)) :=
  C20_day_only_earliest .greg _ (by decide) _ (legal_of_legalB _ _ (by decide)) (by decide) (by decide) (by decide)

/-- `C20_day_hour_earliest` where the time loops cross midnight past the matching day: `--04T06`
    added to `2020-03-04T10:00Z` gives `2020-04-04T06:00Z` (the 4th at 06:00 of March is before `p`);
    and `-301T00:00:15` added to `2019-300T23:59:30+05:30` gives `2019-301T00:00:15`. -/
example : ∃ q, addTruncated .greg ⟨.cal 2020 3 4, 10, 0, 0, ⟨0, 0⟩⟩ ⟨none, none, some 4, none, some 6, none, none, none⟩ = some q ∧
    EarliestAny .greg ⟨.cal 2020 3 4, 10, 0, 0, ⟨0, 0⟩⟩ q (fun x => x.hh = 6 ∧ x.mi = 0 ∧ x.ss = 0 ∧
      DayMatch .greg ⟨none, none, some 4, none, some 6, none, none, none⟩ (x.date.dayNum .greg)) :=
  C20_day_hour_earliest .greg _ (by decide) _ (legal_of_legalB _ _ (by decide)) (by decide) (by decide) 6 rfl
example : addTruncated .greg ⟨.cal 2020 3 4, 10, 0, 0, ⟨0, 0⟩⟩ ⟨none, none, some 4, none, some 6, none, none, none⟩ =
    some ⟨.cal 2020 4 4, 6, 0, 0, ⟨0, 0⟩⟩ := by decide +kernel
example : addTruncated .greg ⟨.ord 2019 300, 23, 59, 30, ⟨5, 30⟩⟩ ⟨none, none, none, some 301, some 0, none, some 15, none⟩ =
    some ⟨.ord 2019 301, 0, 0, 15, ⟨5, 30⟩⟩ := by decide +kernel

/-- `C20_week_only_earliest` at `-W11` added to `2020-03-04T10:00Z`. -/
example : ∃ p0 q, normalise24 .greg ⟨.cal 2020 3 4, 10, 0, 0, ⟨0, 0⟩⟩ = some p0 ∧
    addTruncated .greg ⟨.cal 2020 3 4, 10, 0, 0, ⟨0, 0⟩⟩ ⟨some 11, none, none, none, none, none, none, none⟩ = some q ∧
    EarliestAny .greg ⟨.cal 2020 3 4, 10, 0, 0, ⟨0, 0⟩⟩ q (fun x => x.hh = p0.hh ∧ x.mi = p0.mi ∧ x.ss = p0.ss ∧
      WeekOf .greg (x.date.dayNum .greg) 11 ∧
      Spec.weekday .greg (x.date.dayNum .greg) = Spec.weekday .greg (p0.date.dayNum .greg)) :=
  C20_week_only_earliest .greg _ (by decide) _ (legal_of_legalB _ _ (by decide)) 11 rfl rfl rfl rfl (by decide)

/-- `C20_day_idempotent` at `-366` added to `2019-300T24:00:00+05:30` (360-day calendar: `-360`). -/
example : addTruncated .greg ⟨.ord 2020 366, 0, 0, 0, ⟨5, 30⟩⟩ ⟨none, none, none, some 366, none, none, none, none⟩ =
    some ⟨.ord 2020 366, 0, 0, 0, ⟨5, 30⟩⟩ :=
  C20_day_idempotent .greg ⟨.ord 2019 300, 24, 0, 0, ⟨5, 30⟩⟩ (by decide) _ (legal_of_legalB _ _ (by decide))
    (by decide) _ (by decide +kernel)
example : addTruncated .d360 ⟨.ord 2019 300, 12, 0, 0, ⟨0, 0⟩⟩ ⟨none, none, none, some 360, none, some 30, none, none⟩ =
    some ⟨.ord 2019 360, 12, 30, 0, ⟨0, 0⟩⟩ := by decide +kernel
example : addTruncated .d360 ⟨.ord 2019 360, 12, 30, 0, ⟨0, 0⟩⟩ ⟨none, none, none, some 360, none, some 30, none, none⟩ =
    some ⟨.ord 2019 360, 12, 30, 0, ⟨0, 0⟩⟩ :=
  C20_day_idempotent .d360 ⟨.ord 2019 300, 12, 0, 0, ⟨0, 0⟩⟩ (by decide) _ (legal_of_legalB _ _ (by decide))
    (by decide) _ (by decide +kernel)

end IsoDT.Props.C20
