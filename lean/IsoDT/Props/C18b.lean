/-
  C18 (fractional Unix times) — the Unix-epoch conversions over exact rationals.

  Model: `Model/UnixQ.lean` (`get_timepoint_from_seconds_since_unix_epoch`,
  `TimePoint.seconds_since_unix_epoch`), on the rational-slot models of `__add__`, `to_time_zone`,
  `__sub__`, `Duration.get_days_and_seconds` (`Props/C01q`, `C02q`, `C11q`).  As there: what the
  ALGORITHM does on exact numbers, nothing about binary64 rounding.

  * `C18_from_unix_rat`       the point built from `x : Rat` seconds since the epoch denotes exactly
                              epoch + x, is legal (whole hour and minute, `0 ≤ second < 60`), in the
                              requested zone, a calendar date in decimal-second form;
  * `C18_seconds_since_rat`   `seconds_since_unix_epoch` of a legal point in ANY precision form is
                              `truncQ (instant − epoch)`: the Python takes `int()` of a float, i.e. it
                              TRUNCATES TOWARD ZERO;
  * `C18_seconds_since_rat_bounds`  what that means: from the epoch on it is the floor (the number of
                              whole seconds elapsed), before the epoch it is the ceiling (minus the
                              number of whole seconds still to go);
  * `C18_seconds_since_not_floor_counterexample`  so it is NOT "the whole number of seconds from the
                              epoch to the instant" in the POSIX sense (`time_t` = floor): the two
                              points 1969-12-31T23:59:59.5Z and 1970-01-01T00:00:00.5Z, one second
                              apart, both answer 0 — the only count that covers two seconds;
  * `C18_unix_round_trip_rat`, `C18_unix_round_trip_back_rat`  the two compositions.
-/
import IsoDT.Model.UnixQ
import IsoDT.Lemmas.CmpQ
import IsoDT.Lemmas.DurationQ
import IsoDT.Props.C01q
import IsoDT.Props.C18

namespace IsoDT.Props.C18
open IsoDT IsoDT.Model IsoDT.Lemmas
open IsoDT.Spec (Date TZ TP)

/-- The instant of 1970-01-01T00:00:00Z as a rational. -/
def epochQ (m : Mode) : Rat := ((unixEpoch.inst m : Int) : Rat)

theorem unixEpochQ_valid (m : Mode) : unixEpochQ.Valid m :=
  (C01.C01_ofTP_valid m unixEpoch).2 (unixEpoch_valid m)

theorem unixEpochQ_inst (m : Mode) : unixEpochQ.inst m = epochQ m := C01.C01_ofTP_inst m unixEpoch

/-- **C18 (from Unix time, rational)**: for EVERY rational number `x` of seconds — either sign, any
    size, any fraction — `get_timepoint_from_seconds_since_unix_epoch(x, utc)` denotes exactly
    1970-01-01T00:00:00Z plus `x` seconds; it is a legal point: a real calendar date, whole hour in
    0..23 and whole minute in 0..59, second in `[0, 60)` carrying the fraction; in UTC, or in the
    local zone `z` when `utc=False`. -/
theorem C18_from_unix_rat (m : Mode) (x : Rat) (z : Option TZ) (hz : ∀ zz, z = some zz → zz.Valid) :
    ∃ q, fromUnixQ m x z = some q ∧ q.inst m = epochQ m + x ∧ q.Valid m ∧ q.hh < 24 ∧
      q.tz = z.getD ⟨0, 0⟩ ∧ q.date.rep = 0 ∧
      ∃ mi ss, q.mi = some mi ∧ q.ss = some ss ∧ IsInt q.hh ∧ IsInt mi ∧ 0 ≤ q.hh ∧ 0 ≤ mi ∧ mi < 60 ∧
        0 ≤ ss ∧ ss < 60 := by
  have hsec : (⟨0, 0, 0, x⟩ : DurQ).seconds = x := by simp only [DurQ.seconds]; grind
  -- the slots of a legal decimal-second point
  have slots : ∀ q : TPQ, q.Valid m → q.mi.isSome = true → q.ss.isSome = true →
      ∃ mi ss, q.mi = some mi ∧ q.ss = some ss ∧ IsInt q.hh ∧ IsInt mi ∧ 0 ≤ q.hh ∧ 0 ≤ mi ∧ mi < 60 ∧
        0 ≤ ss ∧ ss < 60 := by
    intro q hv h1 h2
    obtain ⟨date, hh, mi, ss, tz⟩ := q
    cases mi with
    | none => simp at h1
    | some mi =>
      cases ss with
      | none => simp at h2
      | some ss =>
        obtain ⟨_, _, hok⟩ := hv
        simp only [TPQ.hms, HMS.Ok] at hok
        exact ⟨mi, ss, rfl, rfl, hok.1, hok.2.1, hok.2.2.1, hok.2.2.2.2.1, hok.2.2.2.2.2.1,
          hok.2.2.2.2.2.2.1, hok.2.2.2.2.2.2.2.1⟩
  have emi : unixEpochQ.mi.isSome = true := rfl
  have ess : unixEpochQ.ss.isSome = true := rfl
  cases z with
  | none =>
    obtain ⟨q, e, g⟩ := addExactQ_spec m unixEpochQ ⟨0, 0, 0, x⟩ (unixEpochQ_valid m)
    refine ⟨q, e, by rw [g.inst, hsec, unixEpochQ_inst], g.valid, g.lt24, ?_, ?_,
      slots q g.valid (by rw [g.mi, emi]) (by rw [g.ss, ess])⟩
    · rw [g.tz]; simp only [unixEpochQ, TPQ.ofTP, unixEpoch_eq]; rfl
    · rw [g.rep]; simp only [unixEpochQ, TPQ.ofTP, unixEpoch_eq]; rfl
  | some zz =>
    obtain ⟨r, e1, i1, t1, v1, r1, m1, s1, _⟩ :=
      toTimeZoneQ_spec m unixEpochQ zz (unixEpochQ_valid m) (hz zz rfl)
    obtain ⟨q, e, g⟩ := addExactQ_spec m r ⟨0, 0, 0, x⟩ v1
    refine ⟨q, ?_, by rw [g.inst, hsec, i1, unixEpochQ_inst], g.valid, g.lt24, ?_, ?_,
      slots q g.valid (by rw [g.mi, m1, emi]) (by rw [g.ss, s1, ess])⟩
    · simp only [fromUnixQ, e1, Option.bind_some, e]
    · rw [g.tz, t1]; rfl
    · rw [g.rep, r1]; simp only [unixEpochQ, TPQ.ofTP, unixEpoch_eq]; rfl

example : fromUnixQ .greg (-1/2) none = some ⟨.cal 1969 12 31, 23, some 59, some (119/2), ⟨0, 0⟩⟩ ∧
    fromUnixQ .greg (-3/2) (some ⟨-3, -30⟩) = some ⟨.cal 1969 12 31, 20, some 29, some (117/2), ⟨-3, -30⟩⟩ ∧
    fromUnixQ .greg (946684800 + 1/1024) (some ⟨5, 45⟩) =
      some ⟨.cal 2000 1 1, 5, some 45, some (1/1024), ⟨5, 45⟩⟩ := by decide +kernel

/-- **C18 (to Unix time, rational)**: `seconds_since_unix_epoch` never raises on a legal point —
    decimal seconds, decimal minutes or decimal hours, any representation and offset, 24:00
    included — and returns `int(d)` for the exact signed distance `d` (in seconds) from the epoch to
    the point's instant: the integer part of `d`, i.e. `d` ROUNDED TOWARD ZERO. -/
theorem C18_seconds_since_rat (m : Mode) (p : TPQ) (hv : p.Valid m) :
    secondsSinceQ m p = some (truncQ (p.inst m - epochQ m)) := by
  obtain ⟨dd, hI, mI, s, e, hl, _, _⟩ := subTPQ_spec m p unixEpochQ hv (unixEpochQ_valid m)
  obtain ⟨d1, _, _⟩ := DQ.das_spec m (.units 0 0 dd (hI : Rat) (mI : Rat) s)
  rw [unixEpochQ_inst] at hl
  simp only [secondsSinceQ, e, Option.map_some, secondsInDay_eq, Option.some.injEq]
  congr 1
  simp only [DQ.rough, DQ.ym, DQ.len, Int.zero_mul, Int.add_zero, Rat.intCast_ofNat] at d1
  have c : ((86400 : Int) : Rat) = 86400 := rfl
  rw [c]
  grind

/-- Python's `int()` on a number: the floor from zero upward, the ceiling below zero. -/
theorem truncQ_bounds (x : Rat) :
    (0 ≤ x → (truncQ x : Rat) ≤ x ∧ x < (truncQ x : Rat) + 1 ∧ 0 ≤ truncQ x) ∧
    (x < 0 → x ≤ (truncQ x : Rat) ∧ (truncQ x : Rat) < x + 1 ∧ truncQ x ≤ 0) := by
  constructor
  · intro h
    have hn : ¬ x < 0 := Rat.not_lt.2 h
    unfold truncQ
    rw [if_neg hn]
    refine ⟨Rat.floor_le x, ?_, ?_⟩
    · have := Rat.lt_floor_add_one x
      simpa using this
    · exact Rat.le_floor_iff.2 (by simpa using h)
  · intro h
    unfold truncQ
    rw [if_pos h]
    refine ⟨Rat.le_ceil, Rat.ceil_lt, ?_⟩
    exact Rat.ceil_le_iff.2 (by simpa using Rat.le_of_lt h)

/-- What "the whole number of seconds from the epoch to its instant" is, according to the code:
    at or after the epoch, the number `n` of whole seconds elapsed (`n ≤ d < n + 1`); before the
    epoch, minus the number of whole seconds still to go (`n − 1 < d ≤ n`, NOT the floor). -/
theorem C18_seconds_since_rat_bounds (m : Mode) (p : TPQ) (hv : p.Valid m) :
    ∃ n : Int, secondsSinceQ m p = some n ∧
      (epochQ m ≤ p.inst m → 0 ≤ n ∧ epochQ m + (n : Rat) ≤ p.inst m ∧ p.inst m < epochQ m + (n : Rat) + 1) ∧
      (p.inst m < epochQ m → n ≤ 0 ∧ p.inst m ≤ epochQ m + (n : Rat) ∧ epochQ m + (n : Rat) < p.inst m + 1) := by
  refine ⟨_, C18_seconds_since_rat m p hv, ?_, ?_⟩
  · intro h
    obtain ⟨a, b, c⟩ := (truncQ_bounds (p.inst m - epochQ m)).1 (by grind)
    exact ⟨c, by grind, by grind⟩
  · intro h
    obtain ⟨a, b, c⟩ := (truncQ_bounds (p.inst m - epochQ m)).2 (by grind)
    exact ⟨c, by grind, by grind⟩

/-- On whole-second points the rational function is the integer one of `Props/C18.lean`
    (`C18_seconds_since`): there truncation, floor and the exact distance coincide. -/
theorem C18_seconds_since_rat_extends_int (m : Mode) (p : TP) (hv : p.Valid m) :
    secondsSinceQ m (TPQ.ofTP p) = secondsSinceUnixEpoch m p := by
  rw [C18_seconds_since_rat m _ ((C01.C01_ofTP_valid m p).2 hv), C18_seconds_since m p hv,
    C01.C01_ofTP_inst, epochQ, ← Rat.intCast_sub, truncQ_intCast]

/-- **The count is not the POSIX one before 1970.**  POSIX's `%s` / `time_t` of an instant with a
    fraction is the floor (the civil second it lies in).  The code's `int()` gives 0 for
    1969-12-31T23:59:59.5Z (floor: −1) — the same answer as for 1970-01-01T00:00:00.5Z, a full
    second later; and −1 for 23:59:58.5 (floor: −2), whose civil second `%X` prints as 23:59:58. -/
theorem C18_seconds_since_not_floor_counterexample :
    (⟨.cal 1969 12 31, 23, some 59, some (119/2), ⟨0, 0⟩⟩ : TPQ).Valid .greg ∧
    secondsSinceQ .greg ⟨.cal 1969 12 31, 23, some 59, some (119/2), ⟨0, 0⟩⟩ = some 0 ∧
    ((⟨.cal 1969 12 31, 23, some 59, some (119/2), ⟨0, 0⟩⟩ : TPQ).inst .greg - epochQ .greg).floor = -1 ∧
    secondsSinceQ .greg ⟨.cal 1970 1 1, 0, some 0, some (1/2), ⟨0, 0⟩⟩ = some 0 ∧
    secondsSinceQ .greg ⟨.cal 1969 12 31, 23, some 59, some (117/2), ⟨0, 0⟩⟩ = some (-1) ∧
    ((⟨.cal 1969 12 31, 23, some 59, some (117/2), ⟨0, 0⟩⟩ : TPQ).inst .greg - epochQ .greg).floor = -2 := by
  decide +kernel

/-- `seconds_since_unix_epoch` after `get_timepoint_from_seconds_since_unix_epoch`: `int(x)`; the
    identity exactly on whole numbers. -/
theorem C18_unix_round_trip_rat (m : Mode) (x : Rat) (z : Option TZ) (hz : ∀ zz, z = some zz → zz.Valid) :
    ∃ q, fromUnixQ m x z = some q ∧ secondsSinceQ m q = some (truncQ x) := by
  obtain ⟨q, e, hi, hv, _⟩ := C18_from_unix_rat m x z hz
  refine ⟨q, e, ?_⟩
  rw [C18_seconds_since_rat m q hv, hi]
  congr 2
  grind

theorem C18_unix_round_trip_int (m : Mode) (n : Int) (z : Option TZ) (hz : ∀ zz, z = some zz → zz.Valid) :
    ∃ q, fromUnixQ m (n : Rat) z = some q ∧ secondsSinceQ m q = some n := by
  obtain ⟨q, e, h⟩ := C18_unix_round_trip_rat m (n : Rat) z hz
  exact ⟨q, e, by rw [h, truncQ_intCast]⟩

/-- `get_timepoint_from_seconds_since_unix_epoch` after `seconds_since_unix_epoch` (what
    `strptime(p.strftime("%s"), "%s")` computes): a whole-second point less than one second from
    `p` — not after `p` from the epoch on, not BEFORE `p` before the epoch. -/
theorem C18_unix_round_trip_back_rat (m : Mode) (p : TPQ) (hv : p.Valid m) (z : Option TZ)
    (hz : ∀ zz, z = some zz → zz.Valid) :
    ∃ n q, secondsSinceQ m p = some n ∧ fromUnixQ m (n : Rat) z = some q ∧ q.Valid m ∧
      q.inst m = epochQ m + (n : Rat) ∧
      (epochQ m ≤ p.inst m → q.inst m ≤ p.inst m ∧ p.inst m < q.inst m + 1) ∧
      (p.inst m < epochQ m → p.inst m ≤ q.inst m ∧ q.inst m < p.inst m + 1) := by
  obtain ⟨n, e, h1, h2⟩ := C18_seconds_since_rat_bounds m p hv
  obtain ⟨q, eq', hi, hqv, _⟩ := C18_from_unix_rat m (n : Rat) z hz
  refine ⟨n, q, e, eq', hqv, hi, ?_, ?_⟩
  · intro h; obtain ⟨_, a, b⟩ := h1 h; rw [hi]; exact ⟨a, b⟩
  · intro h; obtain ⟨_, a, b⟩ := h2 h; rw [hi]; exact ⟨a, b⟩

/-! ## Non-vacuity -/

-- decimal-hour and decimal-minute points, other offsets and representations, 24:00
example : secondsSinceQ .greg ⟨.week 1970 1 4, 1/8, none, none, ⟨0, 0⟩⟩ = some 450 ∧
    secondsSinceQ .greg ⟨.ord 1969 365, 23, some (119/2), none, ⟨0, 0⟩⟩ = some (-30) ∧
    secondsSinceQ .greg ⟨.cal 1969 12 31, 24, some 0, some 0, ⟨0, 0⟩⟩ = some 0 ∧
    secondsSinceQ .greg ⟨.cal 1969 12 31, 19, some 29, some (239/4), ⟨-4, -30⟩⟩ = some 0 ∧
    secondsSinceQ .d360 ⟨.cal 1969 12 30, 23, some 59, some (1/4), ⟨0, 0⟩⟩ = some (-59) := by
  decide +kernel
example : (⟨.ord 1969 365, 23, some (119/2), none, ⟨0, 0⟩⟩ : TPQ).Valid .greg ∧
    (⟨.cal 1969 12 31, 19, some 29, some (239/4), ⟨-4, -30⟩⟩ : TPQ).Valid .greg := by decide +kernel

end IsoDT.Props.C18
