import IsoDT.Model.Recurrence
namespace IsoDT.Props.C12
theorem placeholder : (1 : Nat) = 1 := rfl
end IsoDT.Props.C12
