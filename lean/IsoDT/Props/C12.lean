/-
  C12 — A recurrence iterates exactly the series it denotes.

  `Model.mkRec` mirrors `TimeRecurrence.__init__`, `Model.iter m r fuel` the first `fuel` points of
  `__iter__` (with `get_next`/`get_prev` and the bounds check).  `SeriesOK m rep tz l i0 step` says
  that `l` is the arithmetic series of instants `i0, i0+step, …` made of valid points in one
  representation and offset.  Proved for exact intervals of any size (every notation, bounded or
  not, any anchor, any mode); for month/year intervals see `C12_nominal_*` below and DESIGN §1.1
  (known finding F5).
-/
import IsoDT.Lemmas.Rec

namespace IsoDT.Props.C12
open IsoDT IsoDT.Model IsoDT.Lemmas
open IsoDT.Spec (Date TZ TP)

/-- Reading `SeriesOK` pointwise. -/
theorem seriesOK_get (m : Mode) (rep : Nat) (tz : TZ) : ∀ (l : List TP) (i0 step : Int),
    SeriesOK m rep tz l i0 step → ∀ (i : Nat) (h : i < l.length),
      (l[i]).inst m = i0 + (i : Int) * step ∧ (l[i]).Valid m ∧ (l[i]).date.rep = rep ∧ (l[i]).tz = tz := by
  intro l
  induction l with
  | nil => intro _ _ _ i h; simp at h
  | cons p rest ih =>
    intro i0 step hs i h
    obtain ⟨h1, h2, h3, h4, h5⟩ := hs
    cases i with
    | zero => simp only [List.getElem_cons_zero]; exact ⟨by rw [h1]; omega, h2, h3, h4⟩
    | succ k =>
      simp only [List.getElem_cons_succ]
      have := ih (i0 + step) step h5 k (by simpa using h)
      refine ⟨?_, this.2⟩
      rw [this.1]
      have e : ((k + 1 : Nat) : Int) = (k : Int) + 1 := by omega
      rw [e, Int.add_mul]; omega

/-- A series with a positive step is strictly increasing (and with a negative step decreasing). -/
theorem series_strict_mono (m : Mode) (rep : Nat) (tz : TZ) (l : List TP) (i0 step : Int)
    (hs : SeriesOK m rep tz l i0 step) (i j : Nat) (hij : i < j) (hj : j < l.length) :
    (0 < step → (l[i]'(by omega)).inst m < (l[j]).inst m) ∧
    (step < 0 → (l[i]'(by omega)).inst m > (l[j]).inst m) := by
  have a := (seriesOK_get m rep tz l i0 step hs i (by omega)).1
  have b := (seriesOK_get m rep tz l i0 step hs j hj).1
  rw [a, b]
  have hlt : (i : Int) < (j : Int) := by omega
  constructor
  · intro hp
    have := Int.mul_lt_mul_of_pos_right hlt hp
    omega
  · intro hn
    have := Int.mul_lt_mul_of_neg_right hlt hn
    omega

theorem exactRec_of (m : Mode) (r : Rec) (d : Dur) (hd : r.dur = some d) (hex : d.isExact = true)
    (hpos : 0 < d.exactSeconds m) (hmulti : r.reps ≠ some 1)
    (hsv : ∀ s, r.start = some s → s.Valid m) (hev : ∀ e, r.end_ = some e → e.Valid m) :
    ExactRec m r d (d.exactSeconds m) :=
  ⟨hd, hex, rfl, hpos, hmulti, hsv, hev⟩

/-- **start/duration, `n ≥ 2` repetitions, exact interval**: iteration yields exactly `n` points,
    `start, start+d, …, start+(n−1)d` (as instants), each a valid point in the start's
    representation and offset, the first being the start itself. -/
theorem C12_start_duration_bounded (m : Mode) (n : Nat) (s : TP) (d : Dur) (hn : 2 ≤ n) (hs : s.Valid m)
    (hex : d.isExact = true) (hpos : 0 < d.exactSeconds m) (fuel : Nat) (hf : n ≤ fuel) :
    ∃ r, mkRec m (some (n : Int)) (some s) (some d) none = some r ∧
      (iter m r fuel).length = n ∧ (iter m r fuel).head? = some s ∧
      SeriesOK m s.date.rep s.tz (iter m r fuel) (s.inst m) (d.exactSeconds m) := by
  obtain ⟨e, hr, es, ei, _, _⟩ := mkRec_fmt3_bounded m n s d (by omega) hs hex hpos
  refine ⟨_, hr, ?_⟩
  have hx : ExactRec m ⟨some (n : Int), some s, some d, some e, none, 3⟩ d (d.exactSeconds m) :=
    exactRec_of m _ d rfl hex hpos (by simp; omega) (fun s' h => by cases h; exact hs)
      (fun e' h => by cases h; exact es.1)
  rw [iter_fwd m _ d _ hx s rfl fuel]
  obtain ⟨a, b, _⟩ := iterFrom_fwd m _ d _ hx fuel s hs (fun s' h => by cases h; exact Int.le_refl _)
  have hlen := b e rfl (by rw [ei]; have := Int.mul_nonneg (Int.le_of_lt hpos) (show (0:Int) ≤ (n:Int) - 1 by omega); omega)
  have hq : (e.inst m - s.inst m) / d.exactSeconds m = (n : Int) - 1 := by
    rw [ei]
    have : s.inst m + d.exactSeconds m * ((n : Int) - 1) - s.inst m = d.exactSeconds m * ((n : Int) - 1) := by omega
    rw [this, Int.mul_ediv_cancel_left _ (by omega)]
  rw [hq] at hlen
  have hl : (iterFrom m ⟨some (n : Int), some s, some d, some e, none, 3⟩ false fuel s).length = n := by omega
  refine ⟨hl, ?_, a⟩
  cases fuel with
  | zero => omega
  | succ k =>
    have hb : inBounds m ⟨some (n : Int), some s, some d, some e, none, 3⟩ s = true := by
      rw [inBounds_iff m _ d _ hx s hs]
      refine ⟨fun s' h => by cases h; exact Int.le_refl _, fun e' h => ?_⟩
      cases h
      rw [ei]; have := Int.mul_nonneg (Int.le_of_lt hpos) (show (0:Int) ≤ (n:Int) - 1 by omega); omega
    simp only [iterFrom, hb, ↓reduceIte, List.head?_cons]

/-- **start/duration, unbounded, exact interval**: the first `fuel` points are
    `start, start+d, start+2d, …`. -/
theorem C12_start_duration_unbounded (m : Mode) (s : TP) (d : Dur) (hs : s.Valid m)
    (hex : d.isExact = true) (hpos : 0 < d.exactSeconds m) (fuel : Nat) :
    ∃ r, mkRec m none (some s) (some d) none = some r ∧ (iter m r fuel).length = fuel ∧
      SeriesOK m s.date.rep s.tz (iter m r fuel) (s.inst m) (d.exactSeconds m) := by
  refine ⟨_, mkRec_fmt3_unbounded m s d hex hpos, ?_⟩
  have hx : ExactRec m ⟨none, some s, some d, none, none, 3⟩ d (d.exactSeconds m) :=
    exactRec_of m _ d rfl hex hpos (by simp) (fun s' h => by cases h; exact hs) (fun e' h => by cases h)
  rw [iter_fwd m _ d _ hx s rfl fuel]
  obtain ⟨a, _, c⟩ := iterFrom_fwd m _ d _ hx fuel s hs (fun s' h => by cases h; exact Int.le_refl _)
  exact ⟨c rfl, a⟩

/-- **duration/end, `n ≥ 2` repetitions, exact interval**: exactly `n` strictly increasing points
    `end−(n−1)d, …, end−d, end` (as instants): the last one is at the given end. -/
theorem C12_duration_end_bounded (m : Mode) (n : Nat) (e : TP) (d : Dur) (hn : 2 ≤ n) (he : e.Valid m)
    (hex : d.isExact = true) (hpos : 0 < d.exactSeconds m) (fuel : Nat) (hf : n ≤ fuel) :
    ∃ r, mkRec m (some (n : Int)) none (some d) (some e) = some r ∧ (iter m r fuel).length = n ∧
      SeriesOK m e.date.rep e.tz (iter m r fuel) (e.inst m - d.exactSeconds m * ((n : Int) - 1)) (d.exactSeconds m) := by
  obtain ⟨s, hr, ss, si, srep, stz⟩ := mkRec_fmt4_bounded m n e d (by omega) he hex hpos
  refine ⟨_, hr, ?_⟩
  have hx : ExactRec m ⟨some (n : Int), some s, some d, some e, none, 4⟩ d (d.exactSeconds m) :=
    exactRec_of m _ d rfl hex hpos (by simp; omega) (fun s' h => by cases h; exact ss.1)
      (fun e' h => by cases h; exact he)
  rw [iter_fwd m _ d _ hx s rfl fuel]
  obtain ⟨a, b, _⟩ := iterFrom_fwd m _ d _ hx fuel s ss.1 (fun s' h => by cases h; exact Int.le_refl _)
  have hnn := Int.mul_nonneg (Int.le_of_lt hpos) (show (0:Int) ≤ (n:Int) - 1 by omega)
  have hlen := b e rfl (by rw [si]; omega)
  have hq : (e.inst m - s.inst m) / d.exactSeconds m = (n : Int) - 1 := by
    rw [si]
    have : e.inst m - (e.inst m - d.exactSeconds m * ((n : Int) - 1)) = d.exactSeconds m * ((n : Int) - 1) := by omega
    rw [this, Int.mul_ediv_cancel_left _ (by omega)]
  rw [hq] at hlen
  refine ⟨by omega, ?_⟩
  rw [srep, stz, si] at a; exact a

/-- **duration/end, unbounded, exact interval**: iteration runs backwards `end, end−d, end−2d, …`. -/
theorem C12_duration_end_unbounded (m : Mode) (e : TP) (d : Dur) (he : e.Valid m)
    (hex : d.isExact = true) (hpos : 0 < d.exactSeconds m) (fuel : Nat) :
    ∃ r, mkRec m none none (some d) (some e) = some r ∧ (iter m r fuel).length = fuel ∧
      SeriesOK m e.date.rep e.tz (iter m r fuel) (e.inst m) (-(d.exactSeconds m)) := by
  refine ⟨_, mkRec_fmt4_unbounded m e d hex hpos, ?_⟩
  have hx : ExactRec m ⟨none, none, some d, some e, none, 4⟩ d (d.exactSeconds m) :=
    exactRec_of m _ d rfl hex hpos (by simp) (fun s' h => by cases h) (fun e' h => by cases h; exact he)
  rw [iter_rev m _ d _ hx e rfl rfl fuel]
  obtain ⟨a, _, c⟩ := iterFrom_rev m _ d _ hx fuel e he (fun e' h => by cases h; exact Int.le_refl _)
  exact ⟨c rfl, a⟩

/-- **start/second-point notation**: the interval is the exact difference of the two points, and
    the recurrence iterates like the start/duration recurrence with that interval: `n` points
    `start, start+(second−start), …` (bounded) or the first `fuel` of them (unbounded). -/
theorem C12_start_second (m : Mode) (s e2 : TP) (hs : s.Valid m) (he : e2.Valid m)
    (hlt : s.inst m < e2.inst m) (fuel : Nat) :
    (∃ r, mkRec m none (some s) none (some e2) = some r ∧ (iter m r fuel).length = fuel ∧
      SeriesOK m s.date.rep s.tz (iter m r fuel) (s.inst m) (e2.inst m - s.inst m)) ∧
    (∀ n : Nat, 2 ≤ n → n ≤ fuel → ∃ r, mkRec m (some (n : Int)) (some s) none (some e2) = some r ∧
      (iter m r fuel).length = n ∧
      SeriesOK m s.date.rep s.tz (iter m r fuel) (s.inst m) (e2.inst m - s.inst m)) := by
  constructor
  · obtain ⟨d, _, hex, hsec, h1, _⟩ := mkRec_fmt1 m none s e2 hs he hlt (fun n h => by cases h)
    refine ⟨_, h1 rfl, ?_⟩
    have hpos : 0 < d.exactSeconds m := by omega
    have hx : ExactRec m ⟨none, some s, some d, none, some e2, 1⟩ d (d.exactSeconds m) :=
      exactRec_of m _ d rfl hex hpos (by simp) (fun s' h => by cases h; exact hs) (fun e' h => by cases h)
    rw [iter_fwd m _ d _ hx s rfl fuel]
    obtain ⟨a, _, c⟩ := iterFrom_fwd m _ d _ hx fuel s hs (fun s' h => by cases h; exact Int.le_refl _)
    rw [hsec] at a
    exact ⟨c rfl, a⟩
  · intro n hn hf
    obtain ⟨d, _, hex, hsec, _, h2⟩ := mkRec_fmt1 m (some (n : Int)) s e2 hs he hlt
      (fun k h => by cases h; omega)
    obtain ⟨e, hr, es, ei, _, _⟩ := h2 n rfl
    refine ⟨_, hr, ?_⟩
    have hpos : 0 < d.exactSeconds m := by omega
    have hx : ExactRec m ⟨some (n : Int), some s, some d, some e, some e2, 1⟩ d (d.exactSeconds m) :=
      exactRec_of m _ d rfl hex hpos (by simp; omega) (fun s' h => by cases h; exact hs)
        (fun e' h => by cases h; exact es.1)
    rw [iter_fwd m _ d _ hx s rfl fuel]
    obtain ⟨a, b, _⟩ := iterFrom_fwd m _ d _ hx fuel s hs (fun s' h => by cases h; exact Int.le_refl _)
    have hnn := Int.mul_nonneg (Int.le_of_lt (show 0 < e2.inst m - s.inst m by omega))
      (show (0:Int) ≤ (n:Int) - 1 by omega)
    have hlen := b e rfl (by rw [ei]; omega)
    have hq : (e.inst m - s.inst m) / d.exactSeconds m = (n : Int) - 1 := by
      rw [ei, hsec]
      have : s.inst m + (e2.inst m - s.inst m) * ((n : Int) - 1) - s.inst m =
          (e2.inst m - s.inst m) * ((n : Int) - 1) := by omega
      rw [this, Int.mul_ediv_cancel_left _ (by omega)]
    rw [hq] at hlen
    rw [hsec] at a
    exact ⟨by omega, a⟩

/-- **One repetition or a zero interval yields exactly the anchor** (start/duration shown; the
    other notations collapse to the same stored form). -/
theorem C12_single (m : Mode) (reps : Option Int) (s : TP) (d : Dur) (hex : d.isExact = true)
    (hnn : 0 ≤ d.exactSeconds m) (hreps : ∀ n, reps = some n → 1 ≤ n)
    (hone : reps = some 1 ∨ d.exactSeconds m = 0) (fuel : Nat) (hf : 1 ≤ fuel) :
    mkRec m reps (some s) (some d) none = some ⟨some 1, some s, none, some s, none, 3⟩ ∧
    iter m ⟨some 1, some s, none, some s, none, 3⟩ fuel = [s] := by
  constructor
  · have hz : reps = some 1 ∨ isZeroDur m d = true := by
      rcases hone with h | h
      · exact Or.inl h
      · exact Or.inr ((isZeroDur_iff m d hex).mpr h)
    cases reps with
    | none =>
      unfold mkRec
      simp only [Bool.false_eq_true, ↓reduceIte, lt_zero_false m d hex hnn, hz]
    | some n =>
      have h1 := hreps n rfl
      have c1 : ¬ n ≤ 0 := by omega
      unfold mkRec
      simp only [c1, decide_false, Bool.false_eq_true, ↓reduceIte, lt_zero_false m d hex hnn, hz]
  · have hb : inBounds m ⟨some 1, some s, none, some s, none, 3⟩ s = true := by
      simp [inBounds, tpLt, tpGt, cmp]
    unfold iter
    have : ¬ fuel = 0 := by omega
    simp [this, hb]

/-! ## Non-vacuity, and the month/year case (known finding F5) -/

example : (iter .greg ⟨some 3, some ⟨.cal 2002 5 4, 23, 0, 0, ⟨0, 0⟩⟩, some (.units 0 0 0 1 0 0),
    some ⟨.cal 2002 5 5, 1, 0, 0, ⟨0, 0⟩⟩, none, 3⟩ 10).length = 3 := by decide +kernel

/-- The full statement (exactly `n` points) is false of the code for month/year intervals: the far
    bound is one multiplied addition.  `R12/2004-W31-2T23:59:00Z/P1Y13M` yields 11 points. -/
theorem C12_count_counterexample_nominal :
    ∃ r, mkRec .greg (some 12) (some ⟨.week 2004 31 2, 23, 59, 0, ⟨0, 0⟩⟩) (some (.units 1 13 0 0 0 0)) none
      = some r ∧ (iter .greg r 30).length = 11 := by
  refine ⟨⟨some 12, some ⟨.week 2004 31 2, 23, 59, 0, ⟨0, 0⟩⟩, some (.units 1 13 0 0 0 0),
    some ⟨.week 2027 26 1, 23, 59, 0, ⟨0, 0⟩⟩, none, 3⟩, by decide +kernel, by decide +kernel⟩

end IsoDT.Props.C12
