/-
  C03 (algorithms) — the calendar ALGORITHMS of the Python source are the hand-written model.

  `Gen.Algo.*` is regenerated from the AST of `metomi/isodatetime/data.py` (and `timezone.py`) by
  `harness/gen_algo.py` on every check run, one Lean definition per Python function, loops included
  (`for` = structural recursion over the iterated list, `while` = well-founded recursion, `raise` /
  falling off the end = `none`).  `Model.*` is the hand-written model every other theorem of this
  project is about.  Each theorem below says: the regenerated function and the model function agree
  for every calendar mode and EVERY integer argument (no bound on years, no validity assumption),
  so an edit of the Python that changes what one of these functions computes breaks its theorem
  here (the differential test of the harness remains as the second tie).

  Where the model is shaped differently the statement says how:
    * the model walks the indexed month table (`walkFwd`, `posOf`, `walkRev`), the Python walks the
      day list `iter_months_days` returns — equal for all integers (`Lemmas/DayList`);
    * `Model.weekStartCal` / `ordWeekStart` / `weeksInYear` are total where the Python could in
      principle return `None`: the theorems say the Python value is `some` of the model's, always;
    * `Model.daysInMonth` is meant for months 1..12 only (it gives 0 otherwise, Python wraps
      negative indices / raises IndexError): equality on 1..12, the exact behaviour outside as
      `C03_algo__get_days_in_month_all`, and a witness that the two differ there.
-/
import IsoDT.Lemmas.Algo

namespace IsoDT.Props.C03algo
open IsoDT IsoDT.Model IsoDT.Lemmas IsoDT.Lemmas.AlgoEq

/-! ## leap years, year and month lengths, year ranges -/

theorem C03_algo_get_is_leap_year (m : Mode) (y : Int) :
    Gen.Algo.get_is_leap_year m y = isLeapYear y := get_is_leap_year_eq m y
example : Gen.Algo.get_is_leap_year .d360 1900 = false ∧ Gen.Algo.get_is_leap_year .greg (-400) = true := by decide

theorem C03_algo__get_days_in_year (m : Mode) (y : Int) :
    Gen.Algo._get_days_in_year m y = daysInYear m y := _get_days_in_year_eq m y
theorem C03_algo_get_days_in_year (m : Mode) (y : Int) :
    Gen.Algo.get_days_in_year m y = daysInYear m y := get_days_in_year_eq m y
example : Gen.Algo.get_days_in_year .greg 2100 = 365 ∧ Gen.Algo.get_days_in_year .d366 2100 = 366 := by decide

/-- Includes the `while` loop (`Model.firstMult`) and the loop over the leap-year factors. -/
theorem C03_algo__get_days_in_year_range (m : Mode) (s e : Int) :
    Gen.Algo._get_days_in_year_range m s e = daysInYearRange m s e := _get_days_in_year_range_eq m s e
theorem C03_algo_get_days_in_year_range (m : Mode) (s e : Int) :
    Gen.Algo.get_days_in_year_range m s e = daysInYearRange m s e := get_days_in_year_range_eq m s e
example : Gen.Algo.get_days_in_year_range .greg 1996 2004 = 3288 := by decide +kernel

theorem C03_algo__get_days_since_1_ad (m : Mode) (y : Int) :
    Gen.Algo._get_days_since_1_ad m y = daysSince1AD m y := _get_days_since_1_ad_eq m y
theorem C03_algo_get_days_since_1_ad (m : Mode) (y : Int) :
    Gen.Algo.get_days_since_1_ad m y = daysSince1AD m y := _get_days_since_1_ad_eq m y
/-- ... and what that is: the days of years `1..y`. -/
theorem C03_algo_get_days_since_1_ad_closed (m : Mode) (y : Int) :
    Gen.Algo.get_days_since_1_ad m y = if 1 ≤ y then Spec.dby m (y + 1) - Spec.dby m 1 else 0 := by
  rw [C03_algo_get_days_since_1_ad]; unfold daysSince1AD
  by_cases h1 : y = 1
  · subst h1; simp only [↓reduceIte, daysInYear_eq, dby_succ]; omega
  · by_cases h2 : y < 1
    · have : ¬ 1 ≤ y := by omega
      simp only [h1, h2, this, ↓reduceIte]
    · have : 1 ≤ y := by omega
      simp only [h1, h2, this, ↓reduceIte, daysInYearRange_eq]
example : Gen.Algo.get_days_since_1_ad .greg 400 = 146097 ∧ Gen.Algo.get_days_since_1_ad .greg 0 = 0 := by
  decide +kernel

/-- `get_days_in_month(month, year)` for a month in 1..12 (`year` an int). -/
theorem C03_algo__get_days_in_month (m : Mode) (mo y : Int) (h1 : 1 ≤ mo) (h2 : mo ≤ 12) :
    Gen.Algo._get_days_in_month m mo (.int y) = some (daysInMonth m y mo) := by
  rw [_get_days_in_month_eq]; simp [monthIndexed, h1, h2, yearArgLeap, daysInMonth]
/-- `year="leap"` / `year=None`. -/
theorem C03_algo__get_days_in_month_flag (m : Mode) (mo : Int) (h1 : 1 ≤ mo) (h2 : mo ≤ 12) :
    Gen.Algo._get_days_in_month m mo .leap = some (daysInMonthB m true mo) ∧
    Gen.Algo._get_days_in_month m mo .none = some (daysInMonthB m false mo) := by
  rw [_get_days_in_month_eq, _get_days_in_month_eq]; simp [monthIndexed, h1, h2, yearArgLeap]
theorem C03_algo_get_days_in_month (m : Mode) (mo y : Int) (h1 : 1 ≤ mo) (h2 : mo ≤ 12) :
    Gen.Algo.get_days_in_month m mo (.int y) = some (daysInMonth m y mo) :=
  C03_algo__get_days_in_month m mo y h1 h2
/-- Every integer month: the table entry for 1..12, Python's negative-index wrap-around for -11..0
    (month 0 is December, -11 is January), `IndexError` (none) otherwise. -/
theorem C03_algo__get_days_in_month_all (m : Mode) (mo : Int) (ya : Gen.Algo.YearArg) :
    Gen.Algo._get_days_in_month m mo ya = monthIndexed m (yearArgLeap ya) mo := _get_days_in_month_eq m mo ya
/-- Outside 1..12 the model (0) is NOT what the Python does: month 0 is silently December. -/
theorem C03_algo__get_days_in_month_outside_witness :
    Gen.Algo._get_days_in_month .greg 0 (.int 2001) = some 31 ∧ daysInMonth .greg 2001 0 = 0 ∧
    Gen.Algo._get_days_in_month .greg 13 (.int 2001) = none := by decide
example : Gen.Algo._get_days_in_month .greg 2 (.int 2000) = some 29 := by decide

/-! ## `iter_months_days` (every combination of start month / start day / direction) -/

theorem C03_algo__iter_months_days (m : Mode) (lp : Bool) (mo d : Option Int) (rev : Bool) :
    Gen.Algo._iter_months_days m lp mo d rev = iterMonthsDays m lp mo d rev := _iter_months_days_eq m lp mo d rev
theorem C03_algo_iter_months_days (m : Mode) (y : Int) (mo d : Option Int) (rev : Bool) :
    Gen.Algo.iter_months_days m y mo d rev = iterMonthsDaysY m y mo d rev := iter_months_days_eq m y mo d rev
example : Gen.Algo.iter_months_days .greg 2000 (some 2) (some 28) false =
    some ([(2, 28), (2, 29)] ++ (iterMonthsDays .greg true (some 3) none false).getD []) := by decide +kernel
example : Gen.Algo._iter_months_days .d360 false none (some 3) true = none := by decide

/-! ## week-year starts, weeks in a year -/

/-- The Python's last loop always returns: the result is never `None`. -/
theorem C03_algo__get_calendar_date_week_date_start (m : Mode) (y : Int) :
    Gen.Algo._get_calendar_date_week_date_start m y = some (weekStartCal m y) :=
  _get_calendar_date_week_date_start_eq m y
theorem C03_algo_get_calendar_date_week_date_start (m : Mode) (y : Int) :
    Gen.Algo.get_calendar_date_week_date_start m y = some (weekStartCal m y) :=
  get_calendar_date_week_date_start_eq m y
example : Gen.Algo.get_calendar_date_week_date_start .greg 2002 = some (2001, 12, 31) := by decide +kernel

theorem C03_algo__get_ordinal_date_week_date_start (m : Mode) (y : Int) :
    Gen.Algo._get_ordinal_date_week_date_start m y = some (ordWeekStart m y) :=
  _get_ordinal_date_week_date_start_eq m y
theorem C03_algo_get_ordinal_date_week_date_start (m : Mode) (y : Int) :
    Gen.Algo.get_ordinal_date_week_date_start m y = some (ordWeekStart m y) :=
  get_ordinal_date_week_date_start_eq m y
example : Gen.Algo.get_ordinal_date_week_date_start .greg 2002 = some (2001, 365) := by decide +kernel

theorem C03_algo__get_weeks_in_year (m : Mode) (y : Int) :
    Gen.Algo._get_weeks_in_year m y = some (weeksInYear m y) := _get_weeks_in_year_eq m y
theorem C03_algo_get_weeks_in_year (m : Mode) (y : Int) :
    Gen.Algo.get_weeks_in_year m y = some (weeksInYear m y) := get_weeks_in_year_eq m y
example : Gen.Algo.get_weeks_in_year .greg 2004 = some 53 := by decide +kernel

/-! ## the six conversions (every integer argument, valid or not: same result, same failures) -/

theorem C03_algo_get_calendar_date_from_ordinal_date (m : Mode) (y doy : Int) :
    Gen.Algo.get_calendar_date_from_ordinal_date m y doy = calFromOrd m y doy :=
  get_calendar_date_from_ordinal_date_eq m y doy

theorem C03_algo_get_ordinal_date_from_calendar_date (m : Mode) (y mo d : Int) :
    Gen.Algo.get_ordinal_date_from_calendar_date m y mo d = ordFromCal m y mo d :=
  get_ordinal_date_from_calendar_date_eq m y mo d

theorem C03_algo_get_calendar_date_from_week_date (m : Mode) (y w d : Int) :
    Gen.Algo.get_calendar_date_from_week_date m y w d = calFromWeek m y w d :=
  get_calendar_date_from_week_date_eq m y w d

theorem C03_algo_get_week_date_from_calendar_date (m : Mode) (y mo d : Int) :
    Gen.Algo.get_week_date_from_calendar_date m y mo d = weekFromCal m y mo d :=
  get_week_date_from_calendar_date_eq m y mo d

theorem C03_algo_get_ordinal_date_from_week_date (m : Mode) (y w d : Int) :
    Gen.Algo.get_ordinal_date_from_week_date m y w d = ordFromWeek m y w d :=
  get_ordinal_date_from_week_date_eq m y w d

theorem C03_algo_get_week_date_from_ordinal_date (m : Mode) (y doy : Int) :
    Gen.Algo.get_week_date_from_ordinal_date m y doy = weekFromOrd m y doy :=
  get_week_date_from_ordinal_date_eq m y doy

example : Gen.Algo.get_calendar_date_from_ordinal_date .greg 2000 60 = some (2000, 2, 29) ∧
    Gen.Algo.get_calendar_date_from_ordinal_date .greg 2001 366 = none ∧
    Gen.Algo.get_ordinal_date_from_calendar_date .d360 (-1) 2 30 = some (-1, 60) ∧
    Gen.Algo.get_week_date_from_calendar_date .greg 1999 1 3 = some (1998, 53, 7) ∧
    Gen.Algo.get_calendar_date_from_week_date .greg 1998 54 1 = some (1999, 1, 4) ∧
    Gen.Algo.get_week_date_from_ordinal_date .greg 2002 365 = some (2003, 1, 2) := by decide +kernel

/-- Consequence: everything `C03` proves about the model's conversions holds of the regenerated code,
    e.g. converting a valid date to any representation succeeds and keeps the day. -/
theorem C03_algo_week_from_calendar_valid (m : Mode) (y mo d : Int) (h : Spec.ValidCal m y mo d) :
    ∃ wy w wd, Gen.Algo.get_week_date_from_calendar_date m y mo d = some (wy, w, wd) ∧
      Spec.ValidWeek m wy w wd ∧ Spec.dayNumWeek m wy w wd = Spec.dayNumCal m y mo d := by
  rw [C03_algo_get_week_date_from_calendar_date]; exact weekFromCal_spec m y mo d h
example : Spec.ValidCal .greg 2000 2 29 := by decide

/-! ## `timezone.get_local_time_zone` (the operating system's zone data as arguments) -/

/-- `daylight` is Python's `time.daylight` (an int used for its truth value); the result is never a
    `ZeroDivisionError` (`% (sign * 60)`). -/
theorem C03_algo_get_local_time_zone (timezone altzone daylight isdst : Int) :
    Gen.Algo.get_local_time_zone timezone altzone daylight isdst =
      some (localTZ timezone altzone (daylight != 0) isdst) :=
  get_local_time_zone_eq timezone altzone daylight isdst
example : Gen.Algo.get_local_time_zone 12600 9000 1 1 = some (-2, -30) := by decide

end IsoDT.Props.C03algo
