/-
  C04 — Subtracting time points inverts addition.
-/
import IsoDT.Lemmas.Cmp

namespace IsoDT.Props.C04
open IsoDT IsoDT.Model IsoDT.Lemmas
open IsoDT.Spec (Date TZ TP)

/-- **C04**: `a - b` is a days/hours/minutes/seconds duration whose length is the signed
    distance between the instants, with `|h| < 24`, `|m| < 60`, `|s| < 60` and one sign
    throughout — for any two valid points in any representations and offsets, any distance. -/
theorem C04_length_and_shape (m : Mode) (a b : TP) (ha : a.Valid m) (hb : b.Valid m) :
    ∃ dd hh mm ss, subTP m a b = some (.units 0 0 dd hh mm ss) ∧
      (Dur.units 0 0 dd hh mm ss).exactSeconds m = a.inst m - b.inst m ∧
      (-24 < hh ∧ hh < 24 ∧ -60 < mm ∧ mm < 60 ∧ -60 < ss ∧ ss < 60) ∧
      ((0 ≤ dd ∧ 0 ≤ hh ∧ 0 ≤ mm ∧ 0 ≤ ss) ∨ (dd ≤ 0 ∧ hh ≤ 0 ∧ mm ≤ 0 ∧ ss ≤ 0)) := by
  obtain ⟨dd, hh, mm, ss, e, hl, hr, hs⟩ := subTP_spec m a b ha hb
  refine ⟨dd, hh, mm, ss, e, ?_, hr, hs⟩
  simp only [Dur.exactSeconds, secondsInDay_eq, secondsInHour_eq, secondsInMinute_eq]; omega

theorem neg_neg (d : Dur) : d.neg.neg = d := by
  cases d <;> simp only [Dur.neg, Dur.mul] <;> congr 1 <;> omega

/-- `(a - b) == -(b - a)`, even as field-for-field equal durations. -/
theorem C04_antisymmetric (m : Mode) (a b : TP) (ha : a.Valid m) (hb : b.Valid m) :
    subTP m a b = (subTP m b a).map Dur.neg := by
  unfold subTP
  rw [cmp_spec m b a hb ha, cmp_spec m a b ha hb]
  simp only [Option.bind_eq_bind, Option.bind_some]
  obtain ⟨d1, h1, m1, s1, e1, l1, r1⟩ := subCore_spec m a b ha hb
  obtain ⟨d2, h2, m2, s2, e2, l2, r2⟩ := subCore_spec m b a hb ha
  rcases Int.lt_trichotomy (a.inst m) (b.inst m) with h | h | h
  · have c1 : sgn (b.inst m - a.inst m) > 0 := by rw [sgn_pos_iff]; omega
    have c2 : ¬ sgn (a.inst m - b.inst m) > 0 := by rw [sgn_pos_iff]; omega
    rw [if_pos c1, if_neg c2]
  · have c1 : ¬ sgn (b.inst m - a.inst m) > 0 := by rw [sgn_pos_iff]; omega
    have c2 : ¬ sgn (a.inst m - b.inst m) > 0 := by rw [sgn_pos_iff]; omega
    rw [if_neg c1, if_neg c2, e1, e2]
    have z1 : d1 = 0 ∧ h1 = 0 ∧ m1 = 0 ∧ s1 = 0 := by omega
    have z2 : d2 = 0 ∧ h2 = 0 ∧ m2 = 0 ∧ s2 = 0 := by omega
    obtain ⟨rfl, rfl, rfl, rfl⟩ := z1
    obtain ⟨rfl, rfl, rfl, rfl⟩ := z2
    rfl
  · have c1 : ¬ sgn (b.inst m - a.inst m) > 0 := by rw [sgn_pos_iff]; omega
    have c2 : sgn (a.inst m - b.inst m) > 0 := by rw [sgn_pos_iff]; omega
    rw [if_neg c1, if_pos c2, Option.map_map]
    have : Dur.neg ∘ Dur.neg = id := by funext d; exact neg_neg d
    rw [this, Option.map_id]; rfl

/-- `b + (a - b) == a`: adding the difference back lands on the same instant (and therefore
    compares equal, C02). -/
theorem C04_add_back (m : Mode) (a b : TP) (ha : a.Valid m) (hb : b.Valid m) :
    ∃ d q, subTP m a b = some d ∧ addDur m b d = some q ∧ q.inst m = a.inst m ∧ cmp m q a = some 0 := by
  obtain ⟨dd, hh, mm, ss, e, hl, _⟩ := subTP_spec m a b ha hb
  obtain ⟨q, eq', g⟩ := addDur_exact_units m b dd hh mm ss hb
  have hi : q.inst m = a.inst m := by rw [g.inst]; omega
  refine ⟨_, q, e, eq', hi, ?_⟩
  rw [cmp_spec m q a g.strict.1 ha, hi]; simp [sgn]

/-- `(p + d) - p == d` for every exact `d`: same length (exact durations are equal by length,
    C11). -/
theorem C04_add_then_sub (m : Mode) (p : TP) (d h mi s : Int) (hp : p.Valid m) :
    ∃ q r, addDur m p (.units 0 0 d h mi s) = some q ∧ subTP m q p = some r ∧
      r.exactSeconds m = (Dur.units 0 0 d h mi s).exactSeconds m := by
  obtain ⟨q, e, g⟩ := addDur_exact_units m p d h mi s hp
  obtain ⟨dd, hh, mm, ss, e', hl, _⟩ := subTP_spec m q p g.strict.1 hp
  refine ⟨q, _, e, e', ?_⟩
  simp only [Dur.exactSeconds, secondsInDay_eq, secondsInHour_eq, secondsInMinute_eq]
  have := g.inst
  omega

/-- The closed-form leap-year count `__sub__` relies on is exact for every pair of years,
    including across year 0. -/
theorem C04_year_range (m : Mode) (s e : Int) :
    daysInYearRange m s e = if s ≤ e then Spec.dby m (e + 1) - Spec.dby m s else 0 :=
  daysInYearRange_eq m s e

/-! ## Non-vacuity -/

example : subTP .greg ⟨.week 2020 53 7, 0, 0, 0, ⟨5, 30⟩⟩ ⟨.ord 1999 1, 12, 0, 0, ⟨0, 0⟩⟩ =
    some (.units 0 0 8037 6 30 0) := by decide +kernel
example : subTP .greg ⟨.cal (-1) 12 31, 23, 59, 59, ⟨0, 0⟩⟩ ⟨.cal 1 1 1, 0, 0, 0, ⟨0, 0⟩⟩ =
    some (.units 0 0 (-366) 0 0 (-1)) := by decide +kernel

end IsoDT.Props.C04
