import IsoDT.Model.TimePoint
namespace IsoDT.Props.C05
theorem placeholder : (1 : Nat) = 1 := rfl
end IsoDT.Props.C05
