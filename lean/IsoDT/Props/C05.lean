/-
  C05 — Month and year arithmetic follows calendar rules with end-of-period clamping.

  `specMonthStep` is the calendar rule for one month (adjacent month; same day, or the month's
  last day if shorter).  `Model.addMonths` / `Model.addYears` mirror `TimePoint.add_months` and
  the year branch of `TimePoint.__add__`.
-/
import IsoDT.Lemmas.Nominal

namespace IsoDT.Props.C05
open IsoDT IsoDT.Model IsoDT.Lemmas
open IsoDT.Spec (Date TZ TP)

/-- One iteration of the `add_months` loop is the calendar rule: it lands in the adjacent month
    (month index ± 1), on the same day-of-month or on that month's last day if it is shorter,
    and always on a real date of the mode (the month length is the target year's own). -/
theorem C05_month_step (m : Mode) (fwd : Bool) (y mo d : Int) (h : Spec.ValidCal m y mo d) :
    monthStep m fwd (y, mo, d) = specMonthStep m fwd (y, mo, d) ∧
    Spec.ValidCal m (specMonthStep m fwd (y, mo, d)).1 (specMonthStep m fwd (y, mo, d)).2.1
      (specMonthStep m fwd (y, mo, d)).2.2 ∧
    12 * (specMonthStep m fwd (y, mo, d)).1 + (specMonthStep m fwd (y, mo, d)).2.1 =
      12 * y + mo + (if fwd then 1 else -1) ∧
    (specMonthStep m fwd (y, mo, d)).2.2 =
      min d (Spec.monthLen m (specMonthStep m fwd (y, mo, d)).1 (specMonthStep m fwd (y, mo, d)).2.1) :=
  ⟨monthStep_eq m fwd (y, mo, d) h, specMonthStep_spec m fwd (y, mo, d) h⟩

/-- `k` iterations land in the month exactly `k` months away, on a real date, never on a later
    day-of-month; and `k + 1` steps are `k` steps followed by one more. -/
theorem C05_month_steps (m : Mode) (fwd : Bool) (k : Nat) (y mo d : Int) (h : Spec.ValidCal m y mo d) :
    monthSteps m fwd k (y, mo, d) = specMonthSteps m fwd k (y, mo, d) ∧
    Spec.ValidCal m (specMonthSteps m fwd k (y, mo, d)).1 (specMonthSteps m fwd k (y, mo, d)).2.1
      (specMonthSteps m fwd k (y, mo, d)).2.2 ∧
    12 * (specMonthSteps m fwd k (y, mo, d)).1 + (specMonthSteps m fwd k (y, mo, d)).2.1 =
      12 * y + mo + (if fwd then (k : Int) else -(k : Int)) ∧
    (specMonthSteps m fwd k (y, mo, d)).2.2 ≤ d ∧
    specMonthSteps m fwd (k + 1) (y, mo, d) = specMonthStep m fwd (specMonthSteps m fwd k (y, mo, d)) :=
  ⟨(monthSteps_spec m fwd k (y, mo, d) h).1, (monthSteps_spec m fwd k (y, mo, d) h).2.1,
   (monthSteps_spec m fwd k (y, mo, d) h).2.2.1, (monthSteps_spec m fwd k (y, mo, d) h).2.2.2,
   specMonthSteps_succ' m fwd k (y, mo, d)⟩

/-- **C05 (months)**: `add_months(n)` on a point in any representation: in calendar form the
    result is the input moved by `|n|` single clamping steps; ordinal and week dates go through
    their calendar form and back; time of day, offset and representation are kept and the result
    is a valid date of the mode. -/
theorem C05_add_months (m : Mode) (p : TP) (n : Int) (hn : n ≠ 0) (hp : p.Strict m) :
    ∃ y mo d q, convert m 0 p.date = some (.cal y mo d) ∧ Spec.ValidCal m y mo d ∧
      addMonths m p n = some q ∧
      convert m 0 q.date = some (.cal (specMonthSteps m (decide (n > 0)) n.natAbs (y, mo, d)).1
        (specMonthSteps m (decide (n > 0)) n.natAbs (y, mo, d)).2.1
        (specMonthSteps m (decide (n > 0)) n.natAbs (y, mo, d)).2.2) ∧
      q.Strict m ∧ q.date.rep = p.date.rep ∧ q.tz = p.tz ∧ q.hh = p.hh ∧ q.mi = p.mi ∧ q.ss = p.ss :=
  addMonths_spec m p n hn hp

theorem C05_add_zero_months (m : Mode) (p : TP) : addMonths m p 0 = some p := addMonths_zero m p

/-- **C05 (years)**: adding `n` years keeps month and day (29 Feb → 28 Feb in a common year), the
    ordinal day (366 → 365) or the ISO week and weekday (week 53 → the target year's last week),
    according to the representation; everything else is kept and the result is valid. -/
theorem C05_add_years (m : Mode) (p : TP) (n : Int) (hp : p.Strict m) :
    (addYears m p n).Strict m ∧ (addYears m p n).date.rep = p.date.rep ∧ (addYears m p n).tz = p.tz ∧
    (addYears m p n).hh = p.hh ∧ (addYears m p n).mi = p.mi ∧ (addYears m p n).ss = p.ss ∧
    (addYears m p n).date =
      match p.date with
      | .cal y mo d => .cal (y + n) mo (min d (Spec.monthLen m (y + n) mo))
      | .ord y doy => .ord (y + n) (min doy (Spec.yearLen m (y + n)))
      | .week y w d => .week (y + n) (min w (Spec.weeksInYear m (y + n))) d :=
  addYears_spec m p n hp

/-- A mixed duration applies its exact part first, then months, then years. -/
theorem C05_order (m : Mode) (p : TP) (y mo d h mi s : Int) :
    addDur m p (.units y mo d h mi s) =
      (addUnits m p d h mi s).bind fun p1 => (addMonths m p1 mo).bind fun p2 => some (addYears m p2 y) := by
  simp only [addDur, Dur.toDays, Option.bind_eq_bind, Option.pure_def]

/-- **C05 (validity)**: `p + d` for any duration (nominal, exact or mixed, either sign) of a valid
    point is defined, is a valid point of the mode with `0 ≤ h < 24`, in `p`'s representation and
    offset, and its time of day is the time of day after the exact part alone. -/
theorem C05_add_valid (m : Mode) (p : TP) (y mo d h mi s : Int) (hv : p.Valid m) :
    ∃ p1 q, addUnits m p d h mi s = some p1 ∧ addDur m p (.units y mo d h mi s) = some q ∧
      q.Strict m ∧ q.date.rep = p.date.rep ∧ q.tz = p.tz ∧ q.hh = p1.hh ∧ q.mi = p1.mi ∧ q.ss = p1.ss := by
  obtain ⟨p1, e1, g1⟩ := addUnits_spec m p d h mi s hv
  rw [C05_order, e1, Option.bind_some]
  by_cases c : mo = 0
  · subst c
    rw [addMonths_zero, Option.bind_some]
    obtain ⟨a1, a2, a3, a4, a5, a6, _⟩ := addYears_spec m p1 y g1.strict
    exact ⟨p1, _, rfl, rfl, a1, by rw [a2, g1.rep], by rw [a3, g1.tz], a4, a5, a6⟩
  · obtain ⟨_, _, _, p2, _, _, e2, _, s2, r2, t2, hh2, mi2, ss2⟩ := addMonths_spec m p1 mo c g1.strict
    rw [e2, Option.bind_some]
    obtain ⟨a1, a2, a3, a4, a5, a6, _⟩ := addYears_spec m p2 y s2
    exact ⟨p1, _, rfl, rfl, a1, by rw [a2, r2, g1.rep], by rw [a3, t2, g1.tz], by rw [a4, hh2],
      by rw [a5, mi2], by rw [a6, ss2]⟩

/-! ## Non-vacuity: the clamps of the statement -/

example : addDur .greg ⟨.cal 2001 3 31, 1, 2, 3, ⟨0, 0⟩⟩ (.units 0 1 0 0 0 0) =
    some ⟨.cal 2001 4 30, 1, 2, 3, ⟨0, 0⟩⟩ := by decide +kernel
example : addDur .greg ⟨.cal 2000 2 29, 0, 0, 0, ⟨0, 0⟩⟩ (.units 1 0 0 0 0 0) =
    some ⟨.cal 2001 2 28, 0, 0, 0, ⟨0, 0⟩⟩ := by decide +kernel
example : addDur .greg ⟨.ord 2000 366, 0, 0, 0, ⟨0, 0⟩⟩ (.units 1 0 0 0 0 0) =
    some ⟨.ord 2001 365, 0, 0, 0, ⟨0, 0⟩⟩ := by decide +kernel
example : addDur .greg ⟨.week 2020 53 7, 0, 0, 0, ⟨0, 0⟩⟩ (.units 1 0 0 0 0 0) =
    some ⟨.week 2021 52 7, 0, 0, 0, ⟨0, 0⟩⟩ := by decide +kernel
example : addDur .greg ⟨.cal 2019 12 31, 0, 0, 0, ⟨0, 0⟩⟩ (.units 0 2 0 0 0 0) =
    some ⟨.cal 2020 2 29, 0, 0, 0, ⟨0, 0⟩⟩ := by decide +kernel
example : addDur .d360 ⟨.cal 2001 1 30, 0, 0, 0, ⟨0, 0⟩⟩ (.units 0 1 0 0 0 0) =
    some ⟨.cal 2001 2 30, 0, 0, 0, ⟨0, 0⟩⟩ := by decide +kernel

end IsoDT.Props.C05
