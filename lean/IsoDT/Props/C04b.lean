/-
  C04 (continued) — differences of time points compose along the timeline.

  Corollaries of `subTP_spec` / `cmp_spec`: the difference is uniquely determined by the two instants
  (whatever the representations and offsets), vanishes exactly for equal instants, carries the sign
  of the comparison, and differences add up (`(a - b) + (b - c)` has the length of `a - c`).
-/
import IsoDT.Props.C04

namespace IsoDT.Props.C04
open IsoDT IsoDT.Model IsoDT.Lemmas
open IsoDT.Spec (Date TZ TP)

/-- A days/hours/minutes/seconds tuple of one sign with `|h| < 24`, `|m| < 60`, `|s| < 60` is
    determined by its length. -/
theorem shape_unique (d h mi s d' h' mi' s' : Int)
    (e : 86400 * d + 3600 * h + 60 * mi + s = 86400 * d' + 3600 * h' + 60 * mi' + s')
    (r : -24 < h ∧ h < 24 ∧ -60 < mi ∧ mi < 60 ∧ -60 < s ∧ s < 60)
    (r' : -24 < h' ∧ h' < 24 ∧ -60 < mi' ∧ mi' < 60 ∧ -60 < s' ∧ s' < 60)
    (g : (0 ≤ d ∧ 0 ≤ h ∧ 0 ≤ mi ∧ 0 ≤ s) ∨ (d ≤ 0 ∧ h ≤ 0 ∧ mi ≤ 0 ∧ s ≤ 0))
    (g' : (0 ≤ d' ∧ 0 ≤ h' ∧ 0 ≤ mi' ∧ 0 ≤ s') ∨ (d' ≤ 0 ∧ h' ≤ 0 ∧ mi' ≤ 0 ∧ s' ≤ 0)) :
    d = d' ∧ h = h' ∧ mi = mi' ∧ s = s' := by
  omega

/-- The difference depends on the two INSTANTS only: any other spellings of the same two instants
    (other representation, other offset, 24:00) give the field-for-field same duration. -/
theorem C04_depends_on_instants_only (m : Mode) (a b a' b' : TP)
    (ha : a.Valid m) (hb : b.Valid m) (ha' : a'.Valid m) (hb' : b'.Valid m)
    (ea : a.inst m = a'.inst m) (eb : b.inst m = b'.inst m) :
    subTP m a b = subTP m a' b' := by
  obtain ⟨d, h, mi, s, e, l, r, g⟩ := subTP_spec m a b ha hb
  obtain ⟨d', h', mi', s', e', l', r', g'⟩ := subTP_spec m a' b' ha' hb'
  obtain ⟨rfl, rfl, rfl, rfl⟩ := shape_unique d h mi s d' h' mi' s' (by omega) r r' g g'
  rw [e, e']

/-- `a - b` is the empty duration exactly when the instants coincide, i.e. exactly when `a == b`. -/
theorem C04_zero_iff_equal (m : Mode) (a b : TP) (ha : a.Valid m) (hb : b.Valid m) :
    (subTP m a b = some (.units 0 0 0 0 0 0) ↔ a.inst m = b.inst m) ∧
    (subTP m a b = some (.units 0 0 0 0 0 0) ↔ cmp m a b = some 0) := by
  obtain ⟨d, h, mi, s, e, l, r, g⟩ := subTP_spec m a b ha hb
  have k : subTP m a b = some (.units 0 0 0 0 0 0) ↔ a.inst m = b.inst m := by
    constructor
    · intro z
      rw [e] at z
      injection z with z; injection z with _ _ z1 z2 z3 z4
      omega
    · intro z
      have : d = 0 ∧ h = 0 ∧ mi = 0 ∧ s = 0 := by omega
      obtain ⟨rfl, rfl, rfl, rfl⟩ := this
      exact e
  refine ⟨k, ?_⟩
  rw [k, cmp_spec m a b ha hb]
  constructor
  · intro z; rw [z]; simp [sgn]
  · intro z
    injection z with z
    have := (sgn_zero_iff _).mp z
    omega

/-- The sign of every field of `a - b` follows the comparison: no field is negative when `a >= b`,
    none is positive when `a <= b`. -/
theorem C04_sign_follows_cmp (m : Mode) (a b : TP) (ha : a.Valid m) (hb : b.Valid m) :
    ∃ d h mi s, subTP m a b = some (.units 0 0 d h mi s) ∧
      (b.inst m ≤ a.inst m → 0 ≤ d ∧ 0 ≤ h ∧ 0 ≤ mi ∧ 0 ≤ s) ∧
      (a.inst m ≤ b.inst m → d ≤ 0 ∧ h ≤ 0 ∧ mi ≤ 0 ∧ s ≤ 0) := by
  obtain ⟨d, h, mi, s, e, l, r, g⟩ := subTP_spec m a b ha hb
  refine ⟨d, h, mi, s, e, ?_, ?_⟩ <;> intro z <;> omega

/-- Differences add up along the timeline: `(a - b) + (b - c)` has exactly the length of `a - c`,
    for any three valid points in any representations and offsets. -/
theorem C04_chasles (m : Mode) (a b c : TP) (ha : a.Valid m) (hb : b.Valid m) (hc : c.Valid m) :
    ∃ x y z, subTP m a b = some x ∧ subTP m b c = some y ∧ subTP m a c = some z ∧
      z.exactSeconds m = x.exactSeconds m + y.exactSeconds m := by
  obtain ⟨d1, h1, m1, s1, e1, l1, _⟩ := subTP_spec m a b ha hb
  obtain ⟨d2, h2, m2, s2, e2, l2, _⟩ := subTP_spec m b c hb hc
  obtain ⟨d3, h3, m3, s3, e3, l3, _⟩ := subTP_spec m a c ha hc
  refine ⟨_, _, _, e1, e2, e3, ?_⟩
  simp only [Dur.exactSeconds, secondsInDay_eq, secondsInHour_eq, secondsInMinute_eq]
  omega

/-! ## Non-vacuity -/

example : subTP .greg ⟨.week 2020 53 7, 0, 0, 0, ⟨5, 30⟩⟩ ⟨.ord 1999 1, 12, 0, 0, ⟨0, 0⟩⟩ =
    subTP .greg ⟨.cal 2021 1 2, 18, 30, 0, ⟨0, 0⟩⟩ ⟨.cal 1999 1 1, 13, 0, 0, ⟨1, 0⟩⟩ := by decide +kernel
example : subTP .d360 ⟨.cal 2000 2 30, 24, 0, 0, ⟨0, 0⟩⟩ ⟨.cal 2000 3 1, 1, 0, 0, ⟨1, 0⟩⟩ =
    some (.units 0 0 0 0 0 0) := by decide +kernel

end IsoDT.Props.C04
