/-
  C13 (fractional points and intervals) — `get_first_after` on the rational recurrence model
  (`Model.RecurrenceQFirst.getFirstAfterQ`: `TimeRecurrence.get_first_after` as it is after the
  repair 6ac11ec / finding F22; `getFirstAfterFloorQ`: as it was before), as an ALGORITHM over exact
  rationals (see `Props/C12q.lean` for what that means for the binary64 Python).

  "get_first_after(p) returns the earliest member strictly later than p, the first member when p
  precedes the series, and None when no later member exists" — for recurrences that have a start
  point and an exact interval of ANY positive rational length `L`, and ANY legal probe (rational
  instant; any zone, date representation and precision form):

  * `C13_rat_first_after_exact` (start/duration, `n ≥ 2` repetitions or unbounded) and
    `C13_rat_first_after_exact_second_point` (start/second-point): with
    `K = ⌊(inst p − inst s)/L⌋ + 1`, the answer is the point at `inst s + K·L` in `p`'s zone,
    representation and precision form; (a) it is returned exactly when `K` is a member index
    (`K < n`, or unbounded), (b) it is strictly later than `p`, (c) no grid instant
    `inst s + k·L` lies strictly between; `None` exactly when `inst s + K·L` is beyond the last
    member; a probe before the series gives the start, a probe after the last member `None`.
    (`Lemmas.RecurrenceQFirst.core` is the same statement for any stored recurrence with an exact
    positive interval whose end point is on the grid — it also covers the bounded duration/end
    notation, whose start point is derived.)
  * `C13_rat_first_after_is_valid`: whatever `get_first_after` returns, `get_is_valid` accepts.
  * `C13_first_after_floor_witness`: the pre-repair code on `R/2020-01-01T00:00:00Z/PT1,5S` and
    on `R/2020-01-01T00:00:00,5Z/PT1S` returns a point `get_is_valid` rejects (finding F22); the
    repaired code returns the member.
  * `C13_rat_first_after_floor_agrees_on_whole_seconds`: the repair changes nothing when the
    probe's offset from the start and the interval are whole seconds.
  * `C13_rat_first_after_extends_int`: on embedded whole-second inputs the rational model IS the
    integer model (`Model.Recurrence.getFirstAfter`, theorems `C13_first_after_*`), every branch.
-/
import IsoDT.Props.C13q
import IsoDT.Lemmas.RecurrenceQFirst

namespace IsoDT.Props.C13
open IsoDT IsoDT.Model IsoDT.Lemmas IsoDT.Lemmas.DQ IsoDT.Props.C12q IsoDT.Props.C13q
open IsoDT.Lemmas.RecurrenceQFirst
open IsoDT.Spec (Date TZ TP)

/-- **get_first_after, start/duration notation**, exact interval `d` of length `L > 0` (any
    positive rational), start `s`, `n ≥ 2` repetitions (`N = some n`) or unbounded (`N = none`),
    ANY legal probe `p`:

    1. `p` before the series → the start point;
    2. `p` after the last member `inst s + (n−1)·L` → `None`;
    3. otherwise, with `K = ⌊(inst p − inst s)/L⌋ + 1` (a natural number ≥ 1):
       the member before, `inst s + (K−1)·L`, is at or before `p`;
       (b) `inst s + K·L` is strictly later than `p`;
       (c) every grid instant `inst s + k·L` strictly later than `p` is at or after it — it is the
           EARLIEST such instant;
       (a) when `K` is a member index (`K < n`, or the series is unbounded) the result is the
           point `q` at that instant, `p` moved by exactly `inst s + K·L − inst p` in `p`'s zone,
           representation and precision form (`GoodQ`, what `addDurationQ` produces), and it is
           within the recurrence's bounds;
       and the result is `None` exactly when `K ≥ n`, i.e. when no later member exists. -/
theorem C13_rat_first_after_exact (m : Mode) (N : Option Nat) (hN : ∀ n, N = some n → 2 ≤ n) (s : TPQ)
    (d : DurationQ) (hs : s.Valid m) (hex : d.isExact = true) (hpos : 0 < d.exactSeconds m) (p : TPQ)
    (hp : p.Valid m) (fuel : Nat) :
    ∃ r, mkRecQ m (N.map fun n => (n : Int)) (some s) (some d) none = some r ∧
      (p.inst m < s.inst m → getFirstAfterQ m r p fuel = some s) ∧
      (∀ n, N = some n → s.inst m + ((n - 1 : Nat) : Rat) * d.exactSeconds m < p.inst m →
        getFirstAfterQ m r p fuel = none) ∧
      (s.inst m ≤ p.inst m →
        (∀ n, N = some n → p.inst m ≤ s.inst m + ((n - 1 : Nat) : Rat) * d.exactSeconds m) →
        ∃ K : Nat, (K : Int) = ((p.inst m - s.inst m) / d.exactSeconds m).floor + 1 ∧ 1 ≤ K ∧
          s.inst m + ((K - 1 : Nat) : Rat) * d.exactSeconds m ≤ p.inst m ∧
          p.inst m < s.inst m + (K : Rat) * d.exactSeconds m ∧
          (∀ k : Nat, p.inst m < s.inst m + (k : Rat) * d.exactSeconds m →
            s.inst m + (K : Rat) * d.exactSeconds m ≤ s.inst m + (k : Rat) * d.exactSeconds m) ∧
          ((∀ n, N = some n → K < n) →
            ∃ q, getFirstAfterQ m r p fuel = some q ∧
              q.inst m = s.inst m + (K : Rat) * d.exactSeconds m ∧
              GoodQ m p q (s.inst m + (K : Rat) * d.exactSeconds m - p.inst m) ∧
              inBoundsQ m r q = true) ∧
          (getFirstAfterQ m r p fuel = none ↔ ∃ n, N = some n ∧ n ≤ K)) := by
  have hpos' : 0 < len d := by rw [← exactSeconds_eq m d]; exact hpos
  cases hNc : N with
  | none =>
    have hx : ExactRecQ m ⟨none, some s, some d, none, none, 3⟩ d (d.exactSeconds m) :=
      exactRecQ_of m _ d rfl hex hpos (by simp) (fun s' h => by cases h; exact hs) (fun e' h => by cases h)
    exact ⟨_, mkRecQ_fmt3_unbounded m s d hex hpos',
      core m _ d _ hx s rfl none (fun n h => by cases h) (fun _ => rfl) p hp fuel⟩
  | some n =>
    obtain ⟨e, hr, hx, ei⟩ := fmt3_bounded_facts m n s d (hN n hNc) hs hex hpos
    exact ⟨_, hr, core m _ d _ hx s rfl (some n) (fun n' h => by cases h; exact ⟨e, rfl, ei⟩)
      (fun h => by cases h) p hp fuel⟩

/-- Non-vacuity: `R3/2020-01-01T00:00:00Z/PT1,5S`, probe `00:00:02` written as 01:00:02+01:00 in
    ordinal form. -/
example := C13_rat_first_after_exact .greg (some 3) (fun n h => by cases h; decide +kernel)
  ⟨.cal 2020 1 1, 0, some 0, some 0, ⟨0, 0⟩⟩ (.units 0 0 0 0 0 (3/2)) (by decide +kernel) rfl (by decide +kernel)
  ⟨.ord 2020 1, 1, some 0, some 2, ⟨1, 0⟩⟩ (by decide +kernel) 10

-- the same run of the model: members :00, :01.5, :03; probes :02 (→ :03 in the probe's spelling),
-- :03 = the last member (→ None), 23:59:59 the day before (→ the start), :04 (→ None)
example : getFirstAfterQ .greg ⟨some 3, some ⟨.cal 2020 1 1, 0, some 0, some 0, ⟨0, 0⟩⟩,
      some (.units 0 0 0 0 0 (3/2)), some ⟨.cal 2020 1 1, 0, some 0, some 3, ⟨0, 0⟩⟩, none, 3⟩
      ⟨.ord 2020 1, 1, some 0, some 2, ⟨1, 0⟩⟩ 10 = some ⟨.ord 2020 1, 1, some 0, some 3, ⟨1, 0⟩⟩ ∧
    getFirstAfterQ .greg ⟨some 3, some ⟨.cal 2020 1 1, 0, some 0, some 0, ⟨0, 0⟩⟩,
      some (.units 0 0 0 0 0 (3/2)), some ⟨.cal 2020 1 1, 0, some 0, some 3, ⟨0, 0⟩⟩, none, 3⟩
      ⟨.cal 2020 1 1, 0, some 0, some 3, ⟨0, 0⟩⟩ 10 = none ∧
    getFirstAfterQ .greg ⟨some 3, some ⟨.cal 2020 1 1, 0, some 0, some 0, ⟨0, 0⟩⟩,
      some (.units 0 0 0 0 0 (3/2)), some ⟨.cal 2020 1 1, 0, some 0, some 3, ⟨0, 0⟩⟩, none, 3⟩
      ⟨.cal 2019 12 31, 23, some 59, some 59, ⟨0, 0⟩⟩ 10 = some ⟨.cal 2020 1 1, 0, some 0, some 0, ⟨0, 0⟩⟩ ∧
    getFirstAfterQ .greg ⟨some 3, some ⟨.cal 2020 1 1, 0, some 0, some 0, ⟨0, 0⟩⟩,
      some (.units 0 0 0 0 0 (3/2)), some ⟨.cal 2020 1 1, 0, some 0, some 3, ⟨0, 0⟩⟩, none, 3⟩
      ⟨.cal 2020 1 1, 0, some 0, some 4, ⟨0, 0⟩⟩ 10 = none := by decide +kernel

/-- **get_first_after, start/second-point notation**: the interval is the exact difference
    `L = inst e2 − inst s > 0` of the two points (whatever zones, representations and precision
    forms they are written in); `n ≥ 2` repetitions or unbounded; ANY legal probe.  Clauses as in
    `C13_rat_first_after_exact`. -/
theorem C13_rat_first_after_exact_second_point (m : Mode) (N : Option Nat) (hN : ∀ n, N = some n → 2 ≤ n)
    (s e2 : TPQ) (hs : s.Valid m) (he : e2.Valid m) (hlt : s.inst m < e2.inst m) (p : TPQ) (hp : p.Valid m)
    (fuel : Nat) :
    ∃ r, mkRecQ m (N.map fun n => (n : Int)) (some s) none (some e2) = some r ∧
      (p.inst m < s.inst m → getFirstAfterQ m r p fuel = some s) ∧
      (∀ n, N = some n → s.inst m + ((n - 1 : Nat) : Rat) * (e2.inst m - s.inst m) < p.inst m →
        getFirstAfterQ m r p fuel = none) ∧
      (s.inst m ≤ p.inst m →
        (∀ n, N = some n → p.inst m ≤ s.inst m + ((n - 1 : Nat) : Rat) * (e2.inst m - s.inst m)) →
        ∃ K : Nat, (K : Int) = ((p.inst m - s.inst m) / (e2.inst m - s.inst m)).floor + 1 ∧ 1 ≤ K ∧
          s.inst m + ((K - 1 : Nat) : Rat) * (e2.inst m - s.inst m) ≤ p.inst m ∧
          p.inst m < s.inst m + (K : Rat) * (e2.inst m - s.inst m) ∧
          (∀ k : Nat, p.inst m < s.inst m + (k : Rat) * (e2.inst m - s.inst m) →
            s.inst m + (K : Rat) * (e2.inst m - s.inst m) ≤ s.inst m + (k : Rat) * (e2.inst m - s.inst m)) ∧
          ((∀ n, N = some n → K < n) →
            ∃ q, getFirstAfterQ m r p fuel = some q ∧
              q.inst m = s.inst m + (K : Rat) * (e2.inst m - s.inst m) ∧
              GoodQ m p q (s.inst m + (K : Rat) * (e2.inst m - s.inst m) - p.inst m) ∧
              inBoundsQ m r q = true) ∧
          (getFirstAfterQ m r p fuel = none ↔ ∃ n, N = some n ∧ n ≤ K)) := by
  have hL : 0 < e2.inst m - s.inst m := by grind
  obtain ⟨d, _, hex, hlen, hunb, hbnd⟩ := mkRecQ_fmt1 m (N.map fun n => (n : Int)) s e2 hs he hlt
    (by intro n h
        cases hNc : N with
        | none => rw [hNc] at h; cases h
        | some k =>
          rw [hNc] at h
          have h' : ((k : Nat) : Int) = n := Option.some.inj h
          have := hN k hNc; omega)
  cases hNc : N with
  | none =>
    have hmk := hunb (by rw [hNc]; rfl)
    have hx : ExactRecQ m ⟨none, some s, some d, none, some e2, 1⟩ d (e2.inst m - s.inst m) :=
      ⟨rfl, hex, hlen, hL, by simp, fun s' h => by cases h; exact hs, fun e' h => by cases h⟩
    exact ⟨_, hmk, core m _ d _ hx s rfl none (fun n h => by cases h) (fun _ => rfl) p hp fuel⟩
  | some n =>
    obtain ⟨e, hmk, g⟩ := hbnd (n : Int) (by rw [hNc]; rfl)
    have hn := hN n hNc
    have hx : ExactRecQ m ⟨some (n : Int), some s, some d, some e, some e2, 1⟩ d (e2.inst m - s.inst m) :=
      ⟨rfl, hex, hlen, hL, by simp; omega, fun s' h => by cases h; exact hs, fun e' h => by cases h; exact g.valid⟩
    have ei : e.inst m = s.inst m + ((n - 1 : Nat) : Rat) * (e2.inst m - s.inst m) := by
      rw [g.inst, cast_pred n (by omega)]; grind
    exact ⟨_, hmk, core m _ d _ hx s rfl (some n) (fun n' h => by cases h; exact ⟨e, rfl, ei⟩)
      (fun h => by cases h) p hp fuel⟩

/-- Non-vacuity: `R/2020-01-01T00:00:00,5Z/2020-01-01T01:00:01,75+01:00` (interval 1.25 s). -/
example := C13_rat_first_after_exact_second_point .greg none (fun n h => by cases h)
  ⟨.cal 2020 1 1, 0, some 0, some (1/2), ⟨0, 0⟩⟩ ⟨.cal 2020 1 1, 1, some 0, some (7/4), ⟨1, 0⟩⟩
  (by decide +kernel) (by decide +kernel) (by decide +kernel) ⟨.cal 2020 1 1, 0, some 0, some 2, ⟨0, 0⟩⟩ (by decide +kernel) 10

-- members :00.5, :01.75, :03, …; the first after :02 is :03
example : (mkRecQ .greg none (some ⟨.cal 2020 1 1, 0, some 0, some (1/2), ⟨0, 0⟩⟩) none
      (some ⟨.cal 2020 1 1, 1, some 0, some (7/4), ⟨1, 0⟩⟩)).bind
      (fun r => getFirstAfterQ .greg r ⟨.cal 2020 1 1, 0, some 0, some 2, ⟨0, 0⟩⟩ 10) =
    some ⟨.cal 2020 1 1, 0, some 0, some 3, ⟨0, 0⟩⟩ := by decide +kernel

/-- **What get_first_after returns is a member**: on any stored recurrence with an exact positive
    interval and a start point that is not after its end point (every constructed one), a result
    `q` of `get_first_after p` is strictly later than `p` and is accepted by `get_is_valid` — as
    soon as the scanned prefix reaches past `q` (`inst q < inst s + fuel'·L`; in the Python the
    scan simply runs until it does, cf. `C13_rat_is_valid_unbounded`). -/
theorem C13_rat_first_after_is_valid (m : Mode) (r : RecQ) (d : DurationQ) (L : Rat) (hr : ExactRecQ m r d L)
    (s : TPQ) (hs : r.start = some s) (hse : ∀ e, r.end_ = some e → s.inst m ≤ e.inst m) (p : TPQ)
    (hp : p.Valid m) (fuel : Nat) (q : TPQ) (h : getFirstAfterQ m r p fuel = some q) (fuel' : Nat)
    (hf : q.inst m < s.inst m + (fuel' : Rat) * L) :
    p.inst m < q.inst m ∧ getIsValidQ m r q fuel' = true := by
  obtain ⟨hqv, hqb, hlt, K, hK⟩ := result_on_grid m r d L hr s hs hse p hp fuel q h
  refine ⟨hlt, valid_of_on_grid m r d L hr s hs q hqv hqb K hK fuel' ?_⟩
  exact grid_lt (s.inst m) L (q.inst m) hr.pos K fuel' (by rw [hK]; exact Rat.le_refl) hf

/-- Non-vacuity: `R/2020-01-01T00:00:00Z/PT1,5S`, probe `00:00:02`, result `00:00:03`. -/
example := C13_rat_first_after_is_valid .greg
  ⟨none, some ⟨.cal 2020 1 1, 0, some 0, some 0, ⟨0, 0⟩⟩, some (.units 0 0 0 0 0 (3/2)), none, none, 3⟩
  (.units 0 0 0 0 0 (3/2)) (3/2)
  ⟨rfl, rfl, by decide +kernel, by decide +kernel, by decide +kernel, fun s h => by cases h; decide +kernel, fun e h => by cases h⟩
  ⟨.cal 2020 1 1, 0, some 0, some 0, ⟨0, 0⟩⟩ rfl (fun e h => by cases h)
  ⟨.cal 2020 1 1, 0, some 0, some 2, ⟨0, 0⟩⟩ (by decide +kernel) 10
  ⟨.cal 2020 1 1, 0, some 0, some 3, ⟨0, 0⟩⟩ (by decide +kernel) 10 (by decide +kernel)

/-- **Finding F22, the witnesses** (kernel-evaluated runs of the two models).
    `R/2020-01-01T00:00:00Z/PT1,5S` (members :00, :01.5, :03, …), probe `00:00:02`: the pre-repair
    code (`floor(seconds_since)`) returns `00:00:03,5`, which `get_is_valid` rejects; the repaired
    code returns the member `00:00:03`.  `R/2020-01-01T00:00:00,5Z/PT1S` (members :00.5, :01.5,
    :02.5, …), probe `00:00:02`: pre-repair `00:00:03` (rejected), repaired `00:00:02,5`. -/
theorem C13_first_after_floor_witness :
    (getFirstAfterFloorQ .greg ⟨none, some ⟨.cal 2020 1 1, 0, some 0, some 0, ⟨0, 0⟩⟩,
        some (.units 0 0 0 0 0 (3/2)), none, none, 3⟩ ⟨.cal 2020 1 1, 0, some 0, some 2, ⟨0, 0⟩⟩ 10 =
        some ⟨.cal 2020 1 1, 0, some 0, some (7/2), ⟨0, 0⟩⟩ ∧
      getIsValidQ .greg ⟨none, some ⟨.cal 2020 1 1, 0, some 0, some 0, ⟨0, 0⟩⟩,
        some (.units 0 0 0 0 0 (3/2)), none, none, 3⟩ ⟨.cal 2020 1 1, 0, some 0, some (7/2), ⟨0, 0⟩⟩ 10 = false ∧
      getFirstAfterQ .greg ⟨none, some ⟨.cal 2020 1 1, 0, some 0, some 0, ⟨0, 0⟩⟩,
        some (.units 0 0 0 0 0 (3/2)), none, none, 3⟩ ⟨.cal 2020 1 1, 0, some 0, some 2, ⟨0, 0⟩⟩ 10 =
        some ⟨.cal 2020 1 1, 0, some 0, some 3, ⟨0, 0⟩⟩ ∧
      getIsValidQ .greg ⟨none, some ⟨.cal 2020 1 1, 0, some 0, some 0, ⟨0, 0⟩⟩,
        some (.units 0 0 0 0 0 (3/2)), none, none, 3⟩ ⟨.cal 2020 1 1, 0, some 0, some 3, ⟨0, 0⟩⟩ 10 = true) ∧
    (getFirstAfterFloorQ .greg ⟨none, some ⟨.cal 2020 1 1, 0, some 0, some (1/2), ⟨0, 0⟩⟩,
        some (.units 0 0 0 0 0 1), none, none, 3⟩ ⟨.cal 2020 1 1, 0, some 0, some 2, ⟨0, 0⟩⟩ 10 =
        some ⟨.cal 2020 1 1, 0, some 0, some 3, ⟨0, 0⟩⟩ ∧
      getIsValidQ .greg ⟨none, some ⟨.cal 2020 1 1, 0, some 0, some (1/2), ⟨0, 0⟩⟩,
        some (.units 0 0 0 0 0 1), none, none, 3⟩ ⟨.cal 2020 1 1, 0, some 0, some 3, ⟨0, 0⟩⟩ 10 = false ∧
      getFirstAfterQ .greg ⟨none, some ⟨.cal 2020 1 1, 0, some 0, some (1/2), ⟨0, 0⟩⟩,
        some (.units 0 0 0 0 0 1), none, none, 3⟩ ⟨.cal 2020 1 1, 0, some 0, some 2, ⟨0, 0⟩⟩ 10 =
        some ⟨.cal 2020 1 1, 0, some 0, some (5/2), ⟨0, 0⟩⟩ ∧
      getIsValidQ .greg ⟨none, some ⟨.cal 2020 1 1, 0, some 0, some (1/2), ⟨0, 0⟩⟩,
        some (.units 0 0 0 0 0 1), none, none, 3⟩ ⟨.cal 2020 1 1, 0, some 0, some (5/2), ⟨0, 0⟩⟩ 10 = true) := by
  decide +kernel

-- the two recurrences of the witness are what the constructor stores for these notations
example : mkRecQ .greg none (some ⟨.cal 2020 1 1, 0, some 0, some 0, ⟨0, 0⟩⟩) (some (.units 0 0 0 0 0 (3/2))) none =
      some ⟨none, some ⟨.cal 2020 1 1, 0, some 0, some 0, ⟨0, 0⟩⟩, some (.units 0 0 0 0 0 (3/2)), none, none, 3⟩ ∧
    mkRecQ .greg none (some ⟨.cal 2020 1 1, 0, some 0, some (1/2), ⟨0, 0⟩⟩) (some (.units 0 0 0 0 0 1)) none =
      some ⟨none, some ⟨.cal 2020 1 1, 0, some 0, some (1/2), ⟨0, 0⟩⟩, some (.units 0 0 0 0 0 1), none, none, 3⟩ := by
  decide +kernel

/-- **The repair is conservative**: on a stored recurrence with an exact positive interval, when
    the probe's offset from the start `inst p − inst s` and the interval length `L` are whole
    numbers of seconds, the pre-repair and the repaired `get_first_after` return the same thing
    (`floor` of a whole number is the identity) — for probes inside and outside the bounds. -/
theorem C13_rat_first_after_floor_agrees_on_whole_seconds (m : Mode) (r : RecQ) (d : DurationQ) (L : Rat)
    (hr : ExactRecQ m r d L) (s : TPQ) (hs : r.start = some s) (p : TPQ) (hp : p.Valid m) (fuel : Nat)
    (hx : IsInt (p.inst m - s.inst m)) (hL : IsInt L) :
    getFirstAfterFloorQ m r p fuel = getFirstAfterQ m r p fuel :=
  floor_agrees m r d L hr s hs p hp fuel hx hL

/-- Non-vacuity: `R/2020-01-01T00:00:00,5Z/PT2S` (a fractional start!), probe `00:00:03,5`: the
    offset (3 s) and the interval (2 s) are whole. -/
example := C13_rat_first_after_floor_agrees_on_whole_seconds .greg
  ⟨none, some ⟨.cal 2020 1 1, 0, some 0, some (1/2), ⟨0, 0⟩⟩, some (.units 0 0 0 0 0 2), none, none, 3⟩
  (.units 0 0 0 0 0 2) 2
  ⟨rfl, rfl, by decide +kernel, by decide +kernel, by decide +kernel, fun s h => by cases h; decide +kernel, fun e h => by cases h⟩
  ⟨.cal 2020 1 1, 0, some 0, some (1/2), ⟨0, 0⟩⟩ rfl ⟨.cal 2020 1 1, 0, some 0, some (7/2), ⟨0, 0⟩⟩ (by decide +kernel) 10
  (by decide +kernel) (by decide +kernel)

/-- **The rational model extends the integer model**: on whole-second points (`TPQ.ofTP`) and a
    stored whole-number recurrence (`RecQ.ofRec`: `DurationQ.ofDur` interval) `get_first_after` of
    the rational model is `getFirstAfter` of `Model.Recurrence` — EVERY recurrence (exact, month /
    year, single point, no start point), every probe, every fuel.  So `C13_first_after_exact`,
    `C13_first_after_outside`, `C13_first_after_least` (`Props/C13.lean`, `C13b.lean`) are
    statements about this model too. -/
theorem C13_rat_first_after_extends_int (m : Mode) (r : Rec) (p : TP) (fuel : Nat) :
    getFirstAfterQ m (RecQ.ofRec r) (TPQ.ofTP p) fuel = (getFirstAfter m r p fuel).map TPQ.ofTP :=
  getFirstAfterQ_ofRec m r p fuel

-- the witness of the repaired defect F3 (`Props/C13.lean`), read through the rational model
example : getFirstAfterQ .greg (RecQ.ofRec ⟨some 3, some ⟨.cal 2002 5 4, 23, 0, 0, ⟨0, 0⟩⟩,
      some (.units 0 0 0 1 0 0), some ⟨.cal 2002 5 5, 1, 0, 0, ⟨0, 0⟩⟩, none, 3⟩)
      (TPQ.ofTP ⟨.ord 2002 124, 23, 30, 0, ⟨0, 0⟩⟩) 10 =
    some (TPQ.ofTP ⟨.ord 2002 125, 0, 0, 0, ⟨0, 0⟩⟩) := by
  rw [C13_rat_first_after_extends_int]; decide +kernel

end IsoDT.Props.C13
