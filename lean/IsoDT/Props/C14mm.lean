/-
  C14 (continued) — recurrences with `min_point`/`max_point` as values: `__eq__`/`__hash__` over
  all six components (repetitions, start, end, interval, min, max), and `__add__`/`__sub__`, which
  move the anchors and pass `min_point`/`max_point` on UNCHANGED.

  `Model.eqMM`, `hashKeyMM`, `shiftMM` (`Model/RecurrenceMM.lean`) mirror the three methods.
-/
import IsoDT.Props.C14
import IsoDT.Props.C12mm

namespace IsoDT.Props.C14
open IsoDT IsoDT.Model IsoDT.Lemmas IsoDT.Props.C12
open IsoDT.Spec (Date TZ TP)

/-! ## (e) equality and hashing over six components -/

/-- The relation `__eq__` decides on an optional point: both absent, or the same instant. -/
def SameOptInst (m : Mode) (a b : Option TP) : Prop :=
  (a = none ∧ b = none) ∨ ∃ x y, a = some x ∧ b = some y ∧ x.inst m = y.inst m

/-- The validity side conditions of a `RecMM`: its four optional points are valid points. -/
def PointsValidMM (m : Mode) (a : RecMM) : Prop :=
  (∀ x, a.base.start = some x → x.Valid m) ∧ (∀ x, a.base.end_ = some x → x.Valid m) ∧
  (∀ x, a.minP = some x → x.Valid m) ∧ (∀ x, a.maxP = some x → x.Valid m)

/-- **Equality of recurrences with min/max**: all six components equal — repetitions equal; start
    points, end points, min points, max points each both absent or at the same instant (whatever
    zone/representation they are written in); intervals equal as durations. -/
theorem C14_mm_eq_iff (m : Mode) (a b : RecMM) (hva : PointsValidMM m a) (hvb : PointsValidMM m b) :
    eqMM m a b = true ↔
      a.base.reps = b.base.reps ∧ SameOptInst m a.base.start b.base.start ∧
      SameOptInst m a.base.end_ b.base.end_ ∧ optDurEq m a.base.dur b.base.dur = true ∧
      SameOptInst m a.minP b.minP ∧ SameOptInst m a.maxP b.maxP := by
  unfold eqMM SameOptInst
  simp only [Bool.and_eq_true]
  rw [C14_eq_iff m a.base b.base ⟨hva.1, hva.2.1⟩ ⟨hvb.1, hvb.2.1⟩,
    optTpEq_iff m _ _ hva.2.2.1 hvb.2.2.1, optTpEq_iff m _ _ hva.2.2.2 hvb.2.2.2]
  constructor
  · rintro ⟨⟨⟨h1, h2, h3, h4⟩, h5⟩, h6⟩; exact ⟨h1, h2, h3, h4, h5, h6⟩
  · rintro ⟨h1, h2, h3, h4, h5, h6⟩; exact ⟨⟨⟨h1, h2, h3, h4⟩, h5⟩, h6⟩

/-- `eqMM` is `Rec.eq` of the bases together with the two window points. -/
theorem C14_mm_eq_split (m : Mode) (a b : RecMM) :
    eqMM m a b = true ↔
      Rec.eq m a.base b.base = true ∧ optTpEq m a.minP b.minP = true ∧ optTpEq m a.maxP b.maxP = true := by
  unfold eqMM; simp only [Bool.and_eq_true, and_assoc]

theorem optHash_eq (m : Mode) (a b : Option TP) (ha : ∀ x, a = some x → x.Valid m)
    (hb : ∀ x, b = some x → x.Valid m) (h : SameOptInst m a b) :
    a.map (Model.hashKey m) = b.map (Model.hashKey m) := by
  rcases h with ⟨x, y⟩ | ⟨x, y, hx, hy, hi⟩
  · rw [x, y]
  · rw [hx, hy]
    simp only [Option.map_some]
    rw [(hashKey_eq_of_inst_eq m x y (ha x hx) (hb y hy) hi).1]

/-- **Equal recurrences have equal hashes** (the six hashed components agree). -/
theorem C14_mm_hash (m : Mode) (a b : RecMM) (hva : PointsValidMM m a) (hvb : PointsValidMM m b)
    (h : eqMM m a b = true) : hashKeyMM m a = hashKeyMM m b := by
  obtain ⟨h0, h5, h6⟩ := (C14_mm_eq_split m a b).mp h
  obtain ⟨_, _, _, _, g5, g6⟩ := (C14_mm_eq_iff m a b hva hvb).mp h
  unfold hashKeyMM
  rw [C14_hash m a.base b.base ⟨hva.1, hva.2.1⟩ ⟨hvb.1, hvb.2.1⟩ h0,
    optHash_eq m _ _ hva.2.2.1 hvb.2.2.1 g5, optHash_eq m _ _ hva.2.2.2 hvb.2.2.2 g6]

theorem optTpEq_refl (m : Mode) (a : Option TP) : optTpEq m a a = true := by
  cases a with
  | none => rfl
  | some x => simp [optTpEq, tpEq, cmp]

theorem Rec_eq_refl (m : Mode) (b : Rec) : Rec.eq m b b = true := by
  unfold Rec.eq
  simp only [beq_self_eq_true, optTpEq_refl, Bool.and_self, Bool.true_and]
  cases b.dur with
  | none => rfl
  | some d => exact (dur_eq_iff m d d).mpr ⟨rfl, rfl⟩

/-- **Recurrences differing only in `min_point` are equal iff the two min points are both absent
    or denote the same instant**; so a different, an added or a dropped `min_point` makes them
    unequal. -/
theorem C14_mm_differ_only_in_min (m : Mode) (b : Rec) (mn mn' mx : Option TP)
    (h1 : ∀ x, mn = some x → x.Valid m) (h2 : ∀ x, mn' = some x → x.Valid m) :
    eqMM m ⟨b, mn, mx⟩ ⟨b, mn', mx⟩ = true ↔ SameOptInst m mn mn' := by
  rw [C14_mm_eq_split]
  simp only [Rec_eq_refl, optTpEq_refl, true_and, and_true]
  exact optTpEq_iff m mn mn' h1 h2

/-- The same for `max_point`. -/
theorem C14_mm_differ_only_in_max (m : Mode) (b : Rec) (mn mx mx' : Option TP)
    (h1 : ∀ x, mx = some x → x.Valid m) (h2 : ∀ x, mx' = some x → x.Valid m) :
    eqMM m ⟨b, mn, mx⟩ ⟨b, mn, mx'⟩ = true ↔ SameOptInst m mx mx' := by
  rw [C14_mm_eq_split]
  simp only [Rec_eq_refl, optTpEq_refl, true_and]
  exact optTpEq_iff m mx mx' h1 h2

/-- In particular: a recurrence with a `min_point` (or `max_point`) is never equal to the same
    recurrence without it, and two valid min points at different instants make unequal recurrences. -/
theorem C14_mm_window_matters (m : Mode) (b : Rec) (x y : TP) (mn mx : Option TP) (hx : x.Valid m) (hy : y.Valid m) :
    eqMM m ⟨b, some x, mx⟩ ⟨b, none, mx⟩ = false ∧ eqMM m ⟨b, mn, some x⟩ ⟨b, mn, none⟩ = false ∧
    (x.inst m ≠ y.inst m → eqMM m ⟨b, some x, mx⟩ ⟨b, some y, mx⟩ = false ∧
      eqMM m ⟨b, mn, some x⟩ ⟨b, mn, some y⟩ = false) := by
  have hsx : ∀ z, some x = some z → z.Valid m := fun z h => by cases h; exact hx
  have hsy : ∀ z, some y = some z → z.Valid m := fun z h => by cases h; exact hy
  have hn : ∀ z, (none : Option TP) = some z → z.Valid m := fun z h => by cases h
  have key : ∀ {c : Bool} {P : Prop}, (c = true ↔ P) → ¬ P → c = false := by
    intro c P h hp; cases c
    · rfl
    · exact absurd (h.mp rfl) hp
  refine ⟨key (C14_mm_differ_only_in_min m b _ _ mx hsx hn) ?_, key (C14_mm_differ_only_in_max m b mn _ _ hsx hn) ?_,
    fun hne => ⟨key (C14_mm_differ_only_in_min m b _ _ mx hsx hsy) ?_,
      key (C14_mm_differ_only_in_max m b mn _ _ hsx hsy) ?_⟩⟩
  · rintro (⟨h, _⟩ | ⟨_, _, _, h, _⟩) <;> cases h
  · rintro (⟨h, _⟩ | ⟨_, _, _, h, _⟩) <;> cases h
  · rintro (⟨h, _⟩ | ⟨x', y', h1, h2, h3⟩)
    · cases h
    · cases h1; cases h2; exact hne h3
  · rintro (⟨h, _⟩ | ⟨x', y', h1, h2, h3⟩)
    · cases h
    · cases h1; cases h2; exact hne h3

/-! ## (d) shifting: the anchors move, the window stays -/

/-- **`r + x` keeps `min_point` and `max_point` unchanged** and shifts the rest as the recurrence
    without a window is shifted (`Rec.shift`, theorems `C14_shift_*`). -/
theorem C14_mm_shift_iff (m : Mode) (r r' : RecMM) (x : Dur) :
    shiftMM m r x = some r' ↔
      r.base.shift m x = some r'.base ∧ r'.minP = r.minP ∧ r'.maxP = r.maxP := by
  unfold shiftMM
  cases h : r.base.shift m x with
  | none => simp
  | some b =>
    simp only [Option.map_some, Option.some.injEq]
    constructor
    · intro e; subst e; exact ⟨rfl, rfl, rfl⟩
    · rintro ⟨e1, e2, e3⟩
      cases r' with
      | mk b' mn' mx' => simp only at e1 e2 e3; subst e1 e2 e3; rfl

/-- Lifting a shift of the base recurrence. -/
theorem C14_mm_shift_lift (m : Mode) (r0 r0' : Rec) (x : Dur) (mn mx : Option TP)
    (h : r0.shift m x = some r0') : shiftMM m ⟨r0, mn, mx⟩ x = some ⟨r0', mn, mx⟩ :=
  (C14_mm_shift_iff m _ _ x).mpr ⟨h, rfl, rfl⟩

/-- **Shifting `Rn/start/d` with a window by an exact `x`** (`n ≥ 2`, exact interval): the result
    has the same repetitions, interval, `min_point` and `max_point`, its start is moved by `x`;
    and its iteration is the moved series cut by the UNMOVED window: the `k`-th point exists iff
    `k < n`, `min ≤ start + x` and `start + x + k·L ≤ max`. -/
theorem C14_mm_shift_start_duration (m : Mode) (n : Nat) (s : TP) (d x : Dur) (mn mx : Option TP) (hn : 2 ≤ n)
    (hs : s.Valid m) (hex : d.isExact = true) (hpos : 0 < d.exactSeconds m) (hx : x.isExact = true)
    (hmin : ∀ a, mn = some a → a.Valid m) (hmax : ∀ b, mx = some b → b.Valid m)
    (fuel : Nat) (hf : n ≤ fuel) :
    ∃ r r' s', mkRecMM m (some (n : Int)) (some s) (some d) none mn mx = some r ∧
      addDur m s x = some s' ∧ s'.inst m = s.inst m + x.exactSeconds m ∧
      shiftMM m r x = some r' ∧ r'.minP = mn ∧ r'.maxP = mx ∧
      r'.base.reps = some (n : Int) ∧ r'.base.dur = some d ∧ r'.base.start = some s' ∧
      SeriesOK m s.date.rep s.tz (iterMM m r' fuel) (s.inst m + x.exactSeconds m) (d.exactSeconds m) ∧
      (∀ k : Nat, (∃ p, (iterMM m r fuel)[k]? = some p) ↔
        k < n ∧ (∀ a, mn = some a → a.inst m ≤ s.inst m) ∧
          (∀ b, mx = some b → s.inst m + (k : Int) * d.exactSeconds m ≤ b.inst m)) ∧
      (∀ k : Nat, (∃ p, (iterMM m r' fuel)[k]? = some p) ↔
        k < n ∧ (∀ a, mn = some a → a.inst m ≤ s.inst m + x.exactSeconds m) ∧
          (∀ b, mx = some b → s.inst m + x.exactSeconds m + (k : Int) * d.exactSeconds m ≤ b.inst m)) := by
  obtain ⟨r0, r0', s', hr, hs', hi, hsh, hreps, hdur, hstart, hlen, hlen', hser, hser'⟩ :=
    C14_shift_start_duration m n s d x hn hs hex hpos hx fuel hf
  refine ⟨⟨r0, mn, mx⟩, ⟨r0', mn, mx⟩, s', mkRecMM_of m _ _ _ _ mn mx r0 hr, hs', hi,
    C14_mm_shift_lift m r0 r0' x mn mx hsh, rfl, rfl, hreps, hdur, hstart, ?_, ?_, ?_⟩
  · rw [iterMM_eq_takeWhile]; exact seriesOK_takeWhile m _ _ _ _ _ _ hser'
  · exact window_exists_fwd m ⟨r0, mn, mx⟩ _ _ fuel _ _ n hser hlen hpos hmin hmax
  · exact window_exists_fwd m ⟨r0', mn, mx⟩ _ _ fuel _ _ n hser' hlen' hpos hmin hmax

/-- **Shifting `R/d/end` (unbounded, backwards) with a window by an exact `x`**: same interval and
    window, end moved by `x`; the `k`-th point of the result exists iff `k < fuel`,
    `end + x ≤ max` and `min ≤ end + x − k·L`. -/
theorem C14_mm_shift_duration_end_unbounded (m : Mode) (e : TP) (d x : Dur) (mn mx : Option TP)
    (he : e.Valid m) (hex : d.isExact = true) (hpos : 0 < d.exactSeconds m) (hx : x.isExact = true)
    (hmin : ∀ a, mn = some a → a.Valid m) (hmax : ∀ b, mx = some b → b.Valid m) (fuel : Nat) :
    ∃ r r' e', mkRecMM m none none (some d) (some e) mn mx = some r ∧
      addDur m e x = some e' ∧ e'.inst m = e.inst m + x.exactSeconds m ∧
      shiftMM m r x = some r' ∧ r'.minP = mn ∧ r'.maxP = mx ∧
      r'.base.reps = none ∧ r'.base.dur = some d ∧ r'.base.end_ = some e' ∧ r'.base.fmt = 4 ∧
      SeriesOK m e.date.rep e.tz (iterMM m r' fuel) (e.inst m + x.exactSeconds m) (-(d.exactSeconds m)) ∧
      (∀ k : Nat, (∃ p, (iterMM m r' fuel)[k]? = some p) ↔
        k < fuel ∧ (∀ b, mx = some b → e.inst m + x.exactSeconds m ≤ b.inst m) ∧
          (∀ a, mn = some a → a.inst m ≤ e.inst m + x.exactSeconds m - (k : Int) * d.exactSeconds m)) := by
  obtain ⟨r0, r0', e', hr, he', hi, hsh, _, hf4, _, hreps, _, hdur, _, hend, _, hlen', _, hser', _⟩ :=
    C14_shift_duration_end_unbounded m e d x he hex hpos hx fuel
  refine ⟨⟨r0, mn, mx⟩, ⟨r0', mn, mx⟩, e', mkRecMM_of m _ _ _ _ mn mx r0 hr, he', hi,
    C14_mm_shift_lift m r0 r0' x mn mx hsh, rfl, rfl, hreps, hdur, hend, hf4, ?_, ?_⟩
  · rw [iterMM_eq_takeWhile]; exact seriesOK_takeWhile m _ _ _ _ _ _ hser'
  · exact window_exists_rev m ⟨r0', mn, mx⟩ _ _ fuel _ _ fuel hser' hlen' hpos hmin hmax

/-- **(r + x) − x == r with a window** (start/duration, `n ≥ 2`, exact interval, exact `x`): the
    window is carried through both shifts unchanged, so the six-component `==` holds. -/
theorem C14_mm_shift_inverse (m : Mode) (n : Nat) (s : TP) (d x : Dur) (mn mx : Option TP) (hn : 2 ≤ n)
    (hs : s.Valid m) (hex : d.isExact = true) (hpos : 0 < d.exactSeconds m) (hx : x.isExact = true) :
    ∃ r r1 r2, mkRecMM m (some (n : Int)) (some s) (some d) none mn mx = some r ∧ shiftMM m r x = some r1 ∧
      shiftMM m r1 (x.mul (-1)) = some r2 ∧ eqMM m r2 r = true ∧ r2.minP = mn ∧ r2.maxP = mx := by
  obtain ⟨r0, r1, r2, hr, h1, h2, heq⟩ := C14_shift_inverse m n s d x hn hs hex hpos hx
  refine ⟨⟨r0, mn, mx⟩, ⟨r1, mn, mx⟩, ⟨r2, mn, mx⟩, mkRecMM_of m _ _ _ _ mn mx r0 hr,
    C14_mm_shift_lift m r0 r1 x mn mx h1, C14_mm_shift_lift m r1 r2 _ mn mx h2, ?_, rfl, rfl⟩
  rw [C14_mm_eq_split]
  exact ⟨heq, optTpEq_refl m mn, optTpEq_refl m mx⟩

/-! ## Non-vacuity -/

/-- `R5/2002-05-04T23:00Z/PT1H` with `max_point = 2002-05-05T01:00Z`, shifted by `PT1H`: the start
    moves, `max_point` does not, so the result has TWO points (00:00, 01:00), not the three points
    of the original each moved by an hour. -/
example : (mkRecMM .greg (some 5) (some ⟨.cal 2002 5 4, 23, 0, 0, ⟨0, 0⟩⟩) (some (.units 0 0 0 1 0 0)) none
      none (some ⟨.cal 2002 5 5, 1, 0, 0, ⟨0, 0⟩⟩)).bind
      (fun r => (shiftMM .greg r (.units 0 0 0 1 0 0)).map fun r' =>
        (r'.minP, r'.maxP, r'.base.start, iterMM .greg r 9, iterMM .greg r' 9)) =
    some (none, some ⟨.cal 2002 5 5, 1, 0, 0, ⟨0, 0⟩⟩, some ⟨.cal 2002 5 5, 0, 0, 0, ⟨0, 0⟩⟩,
      [⟨.cal 2002 5 4, 23, 0, 0, ⟨0, 0⟩⟩, ⟨.cal 2002 5 5, 0, 0, 0, ⟨0, 0⟩⟩, ⟨.cal 2002 5 5, 1, 0, 0, ⟨0, 0⟩⟩],
      [⟨.cal 2002 5 5, 0, 0, 0, ⟨0, 0⟩⟩, ⟨.cal 2002 5 5, 1, 0, 0, ⟨0, 0⟩⟩]) := by
  decide +kernel

/-- Equal although the `max_point` is written in another zone and as `24:00`; equal hash keys. -/
example :
    let b : Rec := ⟨some 5, some ⟨.cal 2002 5 4, 23, 0, 0, ⟨0, 0⟩⟩, some (.units 0 0 0 1 0 0),
      some ⟨.cal 2002 5 5, 3, 0, 0, ⟨0, 0⟩⟩, none, 3⟩
    let a : RecMM := ⟨b, none, some ⟨.cal 2002 5 5, 0, 0, 0, ⟨0, 0⟩⟩⟩
    let c : RecMM := ⟨b, none, some ⟨.ord 2002 124, 24, 0, 0, ⟨0, 0⟩⟩⟩
    let c' : RecMM := ⟨b, none, some ⟨.week 2002 18 6, 19, 0, 0, ⟨-5, 0⟩⟩⟩
    let e : RecMM := ⟨b, none, some ⟨.cal 2002 5 5, 0, 0, 1, ⟨0, 0⟩⟩⟩
    eqMM .greg a c = true ∧ (hashKeyMM .greg a == hashKeyMM .greg c) = true ∧ eqMM .greg a c' = true ∧
      (hashKeyMM .greg a == hashKeyMM .greg c') = true ∧ eqMM .greg a e = false ∧
      eqMM .greg a ⟨b, none, none⟩ = false ∧ PointsValidMM .greg a ∧ PointsValidMM .greg c := by
  refine ⟨by decide +kernel, by decide +kernel, by decide +kernel, by decide +kernel, by decide +kernel,
    by decide +kernel, ?_, ?_⟩ <;>
  exact ⟨fun x h => (by cases h; decide), fun x h => (by cases h; decide), fun x h => (by cases h),
    fun x h => (by cases h; decide)⟩

/-- hypotheses of `C14_mm_shift_start_duration` / `C14_mm_shift_inverse` / `C14_mm_shift_duration_end_unbounded`
    at concrete values (a negative shift, a `24:00` end, window points in other zones) -/
example : (2 : Nat) ≤ 5 ∧ (⟨.cal 2002 5 4, 23, 0, 0, ⟨0, 0⟩⟩ : TP).Valid .greg ∧
    (Dur.units 0 0 0 1 0 0).isExact = true ∧ 0 < (Dur.units 0 0 0 1 0 0).exactSeconds .greg ∧
    (Dur.units 0 0 0 (-3) 0 0).isExact = true ∧ (⟨.cal 2002 5 5, 3, 0, 0, ⟨2, 0⟩⟩ : TP).Valid .greg ∧
    (⟨.ord 2000 366, 24, 0, 0, ⟨-3, 0⟩⟩ : TP).Valid .greg ∧ (Dur.weeks (-1)).isExact = true := by decide
example : (mkRecMM .greg none none (some (.units 0 0 0 0 90 0)) (some ⟨.ord 2000 366, 24, 0, 0, ⟨-3, 0⟩⟩)
      (some ⟨.cal 2000 12 25, 0, 0, 0, ⟨0, 0⟩⟩) (some ⟨.cal 2001 1 1, 3, 0, 0, ⟨0, 0⟩⟩)).bind
      (fun r => (shiftMM .greg r (.weeks (-1))).map fun r' => (r'.minP, r'.maxP, iterMM .greg r' 3)) =
    some (some ⟨.cal 2000 12 25, 0, 0, 0, ⟨0, 0⟩⟩, some ⟨.cal 2001 1 1, 3, 0, 0, ⟨0, 0⟩⟩,
      [⟨.ord 2000 360, 0, 0, 0, ⟨-3, 0⟩⟩, ⟨.ord 2000 359, 22, 30, 0, ⟨-3, 0⟩⟩, ⟨.ord 2000 359, 21, 0, 0, ⟨-3, 0⟩⟩]) := by
  decide +kernel

end IsoDT.Props.C14
