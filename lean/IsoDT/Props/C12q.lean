/-
  C12 (fractional points and intervals) — A recurrence iterates exactly the series it denotes, as
  an ALGORITHM over exact rationals.

  `Model.RecurrenceQ` is `TimeRecurrence` on points whose hour / minute / second slots may carry a
  fraction and may be `None` (decimal-second / decimal-minute / decimal-hour forms, `Model.TPQ`)
  and on intervals with fractional hours / minutes / seconds (`Model.DurationQ`): `mkRecQ` mirrors
  `TimeRecurrence.__init__`, `inBoundsQ` `_get_is_in_bounds`, `iterQ m r fuel` the first `fuel`
  points of `__iter__` (with `get_next` / `get_prev`).  `SeriesOKQ m p0 l i0 step` says that `l` is
  the arithmetic series of RATIONAL instants `i0, i0+step, i0+2·step, …`, made of legal points in
  the date representation, UTC offset and precision form of `p0`.

  Proved for every exact interval of positive length — ANY positive rational, `PT0,25S` or
  `1/1000000 s` alike: there is no smallest interval and no tolerance anywhere —, every legal
  anchor in any precision form, all four calendar modes, every repetition count:

  * `C12_rat_start_duration_bounded` / `_unbounded`, `C12_rat_duration_end_bounded` / `_unbounded`,
    `C12_rat_start_second`: exactly `n` points (bounded), at instants `anchor ± k·len(d)`;
  * `C12_rat_single`, `C12_rat_zero_length`, `C12_rat_negative_refused`, `C12_rat_second_before_start`:
    the one-repetition, zero-length and negative-length cases as the code behaves;
  * `C12_rat_in_bounds_exact`, `C12_rat_no_tolerance`: membership of the bounds is exact comparison
    of rational instants — a point any `ε > 0` past the end (or before the start) is out of bounds
    and is never yielded;
  * `C12_rat_extends_int`: on whole-second points and whole-number
    intervals the rational model is the integer model of `Props/C12.lean`.

  What this does NOT say: anything about binary rounding in the real float computation.  Python's
  slots are binary64; where every input and intermediate value is a dyadic fraction of moderate
  size the float run IS the rational run (checked differentially), and then these theorems are
  about the code's actual answers; for e.g. `PT0,1S` the float run accumulates rounding noise that
  exact arithmetic does not have.
-/
import IsoDT.Lemmas.RecurrenceQ
import IsoDT.Lemmas.RecurrenceQInt

namespace IsoDT.Props.C12q
open IsoDT IsoDT.Model IsoDT.Lemmas IsoDT.Lemmas.DQ
open IsoDT.Spec (Date TZ TP)

/-- Reading `SeriesOKQ` pointwise: the `i`-th point is at `i0 + i·step`, legal, in `p0`'s form. -/
theorem seriesOKQ_get (m : Mode) (p0 : TPQ) (l : List TPQ) (i0 step : Rat)
    (hs : SeriesOKQ m p0 l i0 step) (i : Nat) (h : i < l.length) :
    (l[i]).inst m = i0 + (i : Rat) * step ∧ (l[i]).Valid m ∧ SameFormQ p0 (l[i]) := by
  obtain ⟨p, e1, e2⟩ := seriesQ_getElem? m p0 l i0 step hs i h
  rw [List.getElem?_eq_getElem h] at e1
  cases e1; exact e2

/-- A series with a positive step is strictly increasing (with a negative step, decreasing):
    no two iterated points coincide, however small the interval. -/
theorem seriesQ_strict_mono (m : Mode) (p0 : TPQ) (l : List TPQ) (i0 step : Rat)
    (hs : SeriesOKQ m p0 l i0 step) (i j : Nat) (hij : i < j) (hj : j < l.length) :
    (0 < step → (l[i]'(by omega)).inst m < (l[j]).inst m) ∧
    (step < 0 → (l[i]'(by omega)).inst m > (l[j]).inst m) := by
  have a := (seriesOKQ_get m p0 l i0 step hs i (by omega)).1
  have b := (seriesOKQ_get m p0 l i0 step hs j hj).1
  rw [a, b]
  have hlt : (i : Rat) < (j : Rat) := Rat.natCast_lt_natCast.2 hij
  constructor
  · intro hp
    have := Rat.mul_lt_mul_of_pos_right hlt hp
    grind
  · intro hn
    have hp : 0 < -step := by grind
    have := Rat.mul_lt_mul_of_pos_right hlt hp
    grind

theorem exactRecQ_of (m : Mode) (r : RecQ) (d : DurationQ) (hd : r.dur = some d) (hex : d.isExact = true)
    (hpos : 0 < d.exactSeconds m) (hmulti : r.reps ≠ some 1)
    (hsv : ∀ s, r.start = some s → s.Valid m) (hev : ∀ e, r.end_ = some e → e.Valid m) :
    ExactRecQ m r d (d.exactSeconds m) :=
  ⟨hd, hex, (exactSeconds_eq m d).symm, hpos, hmulti, hsv, hev⟩

theorem cast_pred (n : Nat) (h : 1 ≤ n) : (((n : Int) - 1 : Int) : Rat) = ((n - 1 : Nat) : Rat) := by
  have : (n : Int) - 1 = ((n - 1 : Nat) : Int) := by omega
  rw [this]; rfl

theorem pred_succ_cast (n : Nat) (_h : 1 ≤ n) : ((n - 1 + 1 : Nat) : Rat) = ((n - 1 : Nat) : Rat) + 1 := by
  rw [Rat.natCast_add]; rfl

/-- **start/duration, `n ≥ 2` repetitions, exact interval of any positive length**: iteration
    yields exactly `n` points, at the rational instants `inst(start) + k·len(d)`, `k = 0 … n−1`,
    each a legal point in the start's representation, offset and precision form, the first being
    the start itself. -/
theorem C12_rat_start_duration_bounded (m : Mode) (n : Nat) (s : TPQ) (d : DurationQ) (hn : 2 ≤ n)
    (hs : s.Valid m) (hex : d.isExact = true) (hpos : 0 < d.exactSeconds m) (fuel : Nat) (hf : n ≤ fuel) :
    ∃ r, mkRecQ m (some (n : Int)) (some s) (some d) none = some r ∧
      (iterQ m r fuel).length = n ∧ (iterQ m r fuel).head? = some s ∧
      SeriesOKQ m s (iterQ m r fuel) (s.inst m) (d.exactSeconds m) := by
  have hpos' : 0 < len d := by rw [← exactSeconds_eq m d]; exact hpos
  obtain ⟨e, hr, g⟩ := mkRecQ_fmt3_bounded m n s d (by omega) hs hex hpos'
  refine ⟨_, hr, ?_⟩
  have hx : ExactRecQ m ⟨some (n : Int), some s, some d, some e, none, 3⟩ d (d.exactSeconds m) :=
    exactRecQ_of m _ d rfl hex hpos (by simp; omega) (fun s' h => by cases h; exact hs)
      (fun e' h => by cases h; exact g.valid)
  rw [iterQ_fwd m _ d _ hx s rfl fuel]
  obtain ⟨a, b, _⟩ := iterFromQ_fwd m _ d _ hx fuel s hs (fun s' h => by cases h; exact Rat.le_refl)
  have ei : e.inst m = s.inst m + ((n - 1 : Nat) : Rat) * d.exactSeconds m := by
    rw [g.inst, cast_pred n (by omega), exactSeconds_eq]; grind
  have hlen := b e rfl (n - 1) (by rw [ei]; exact Rat.le_refl)
    (by rw [ei, pred_succ_cast n (by omega)]; grind)
  have hl : (iterFromQ m ⟨some (n : Int), some s, some d, some e, none, 3⟩ false fuel s).length = n := by
    omega
  refine ⟨hl, ?_, a⟩
  cases fuel with
  | zero => omega
  | succ k =>
    have hb : inBoundsQ m ⟨some (n : Int), some s, some d, some e, none, 3⟩ s = true := by
      rw [inBoundsQ_iff m _ s hs hx.startValid hx.endValid]
      refine ⟨fun s' h => by cases h; exact Rat.le_refl, fun e' h => ?_⟩
      cases h
      rw [ei]
      have : (0 : Rat) ≤ ((n - 1 : Nat) : Rat) * d.exactSeconds m :=
        Rat.mul_nonneg Rat.natCast_nonneg (Rat.le_of_lt hpos)
      grind
    simp only [iterFromQ, hb, ↓reduceIte, List.head?_cons]

/-- The same read point by point: for every `k < n` the `k`-th iterated point exists, is at the
    rational instant `inst(start) + k·len(d)`, and is a legal point in the start's UTC offset, date
    representation and precision form. -/
theorem C12_rat_start_duration_bounded_pointwise (m : Mode) (n : Nat) (s : TPQ) (d : DurationQ) (hn : 2 ≤ n)
    (hs : s.Valid m) (hex : d.isExact = true) (hpos : 0 < d.exactSeconds m) (fuel : Nat) (hf : n ≤ fuel) :
    ∃ r, mkRecQ m (some (n : Int)) (some s) (some d) none = some r ∧ (iterQ m r fuel).length = n ∧
      ∀ k : Nat, k < n → ∃ p, (iterQ m r fuel)[k]? = some p ∧
        p.inst m = s.inst m + (k : Rat) * d.exactSeconds m ∧ p.Valid m ∧ p.tz = s.tz ∧
        p.date.rep = s.date.rep ∧ p.mi.isSome = s.mi.isSome ∧ p.ss.isSome = s.ss.isSome := by
  obtain ⟨r, hr, hlen, _, hser⟩ := C12_rat_start_duration_bounded m n s d hn hs hex hpos fuel hf
  refine ⟨r, hr, hlen, fun k hk => ?_⟩
  obtain ⟨p, e1, e2, e3, e4⟩ := seriesQ_getElem? m s _ _ _ hser k (by omega)
  exact ⟨p, e1, e2, e3, e4.2.1, e4.1, e4.2.2.1, e4.2.2.2⟩

/-- **start/duration, unbounded**: the first `fuel` points are at `inst(start) + k·len(d)`. -/
theorem C12_rat_start_duration_unbounded (m : Mode) (s : TPQ) (d : DurationQ) (hs : s.Valid m)
    (hex : d.isExact = true) (hpos : 0 < d.exactSeconds m) (fuel : Nat) :
    ∃ r, mkRecQ m none (some s) (some d) none = some r ∧ (iterQ m r fuel).length = fuel ∧
      SeriesOKQ m s (iterQ m r fuel) (s.inst m) (d.exactSeconds m) := by
  have hpos' : 0 < len d := by rw [← exactSeconds_eq m d]; exact hpos
  refine ⟨_, mkRecQ_fmt3_unbounded m s d hex hpos', ?_⟩
  have hx : ExactRecQ m ⟨none, some s, some d, none, none, 3⟩ d (d.exactSeconds m) :=
    exactRecQ_of m _ d rfl hex hpos (by simp) (fun s' h => by cases h; exact hs) (fun e' h => by cases h)
  rw [iterQ_fwd m _ d _ hx s rfl fuel]
  obtain ⟨a, _, c⟩ := iterFromQ_fwd m _ d _ hx fuel s hs (fun s' h => by cases h; exact Rat.le_refl)
  exact ⟨c rfl, a⟩

/-- **duration/end, `n ≥ 2` repetitions**: exactly `n` strictly increasing points at
    `inst(end) − (n−1)·len(d), …, inst(end) − len(d), inst(end)`: the last one is at the given end. -/
theorem C12_rat_duration_end_bounded (m : Mode) (n : Nat) (e : TPQ) (d : DurationQ) (hn : 2 ≤ n)
    (he : e.Valid m) (hex : d.isExact = true) (hpos : 0 < d.exactSeconds m) (fuel : Nat) (hf : n ≤ fuel) :
    ∃ r, mkRecQ m (some (n : Int)) none (some d) (some e) = some r ∧ (iterQ m r fuel).length = n ∧
      SeriesOKQ m e (iterQ m r fuel) (e.inst m - ((n - 1 : Nat) : Rat) * d.exactSeconds m)
        (d.exactSeconds m) := by
  have hpos' : 0 < len d := by rw [← exactSeconds_eq m d]; exact hpos
  obtain ⟨s, hr, g⟩ := mkRecQ_fmt4_bounded m n e d (by omega) he hex hpos'
  refine ⟨_, hr, ?_⟩
  have hx : ExactRecQ m ⟨some (n : Int), some s, some d, some e, none, 4⟩ d (d.exactSeconds m) :=
    exactRecQ_of m _ d rfl hex hpos (by simp; omega) (fun s' h => by cases h; exact g.valid)
      (fun e' h => by cases h; exact he)
  rw [iterQ_fwd m _ d _ hx s rfl fuel]
  obtain ⟨a, b, _⟩ := iterFromQ_fwd m _ d _ hx fuel s g.valid (fun s' h => by cases h; exact Rat.le_refl)
  have si : s.inst m = e.inst m - ((n - 1 : Nat) : Rat) * d.exactSeconds m := by
    rw [g.inst, cast_pred n (by omega), exactSeconds_eq]; grind
  have hlen := b e rfl (n - 1) (by rw [si]; grind) (by rw [si, pred_succ_cast n (by omega)]; grind)
  refine ⟨by omega, ?_⟩
  rw [si] at a
  exact seriesOKQ_form m e s (sameFormQ_of_good g) _ _ _ a

/-- **duration/end, unbounded**: iteration runs backwards `end, end−d, end−2d, …`. -/
theorem C12_rat_duration_end_unbounded (m : Mode) (e : TPQ) (d : DurationQ) (he : e.Valid m)
    (hex : d.isExact = true) (hpos : 0 < d.exactSeconds m) (fuel : Nat) :
    ∃ r, mkRecQ m none none (some d) (some e) = some r ∧ (iterQ m r fuel).length = fuel ∧
      SeriesOKQ m e (iterQ m r fuel) (e.inst m) (-(d.exactSeconds m)) := by
  have hpos' : 0 < len d := by rw [← exactSeconds_eq m d]; exact hpos
  refine ⟨_, mkRecQ_fmt4_unbounded m e d hex hpos', ?_⟩
  have hx : ExactRecQ m ⟨none, none, some d, some e, none, 4⟩ d (d.exactSeconds m) :=
    exactRecQ_of m _ d rfl hex hpos (by simp) (fun s' h => by cases h) (fun e' h => by cases h; exact he)
  rw [iterQ_rev m _ d _ hx e rfl rfl fuel]
  obtain ⟨a, _, c⟩ := iterFromQ_rev m _ d _ hx fuel e he (fun e' h => by cases h; exact Rat.le_refl)
  exact ⟨c rfl, a⟩

/-- **start/second-point notation**: the interval is the exact (rational) difference of the two
    points — whatever precision forms, representations and offsets they are written in — and the
    recurrence iterates like the start/duration recurrence with that interval: the first `fuel`
    points `start, start+(second−start), …` (unbounded), exactly `n` of them (bounded). -/
theorem C12_rat_start_second (m : Mode) (s e2 : TPQ) (hs : s.Valid m) (he : e2.Valid m)
    (hlt : s.inst m < e2.inst m) (fuel : Nat) :
    (∃ r, mkRecQ m none (some s) none (some e2) = some r ∧ (iterQ m r fuel).length = fuel ∧
      SeriesOKQ m s (iterQ m r fuel) (s.inst m) (e2.inst m - s.inst m)) ∧
    (∀ n : Nat, 2 ≤ n → n ≤ fuel → ∃ r, mkRecQ m (some (n : Int)) (some s) none (some e2) = some r ∧
      (iterQ m r fuel).length = n ∧
      SeriesOKQ m s (iterQ m r fuel) (s.inst m) (e2.inst m - s.inst m)) := by
  constructor
  · obtain ⟨d, _, hex, hsec, h1, _⟩ := mkRecQ_fmt1 m none s e2 hs he hlt (fun n h => by cases h)
    refine ⟨_, h1 rfl, ?_⟩
    have hsec' : d.exactSeconds m = e2.inst m - s.inst m := by rw [exactSeconds_eq]; exact hsec
    have hpos : 0 < d.exactSeconds m := by rw [hsec']; grind
    have hx : ExactRecQ m ⟨none, some s, some d, none, some e2, 1⟩ d (d.exactSeconds m) :=
      exactRecQ_of m _ d rfl hex hpos (by simp) (fun s' h => by cases h; exact hs) (fun e' h => by cases h)
    rw [iterQ_fwd m _ d _ hx s rfl fuel]
    obtain ⟨a, _, c⟩ := iterFromQ_fwd m _ d _ hx fuel s hs (fun s' h => by cases h; exact Rat.le_refl)
    rw [hsec'] at a
    exact ⟨c rfl, a⟩
  · intro n hn hf
    obtain ⟨d, _, hex, hsec, _, h2⟩ := mkRecQ_fmt1 m (some (n : Int)) s e2 hs he hlt
      (fun k h => by cases h; omega)
    obtain ⟨e, hr, g⟩ := h2 n rfl
    refine ⟨_, hr, ?_⟩
    have hsec' : d.exactSeconds m = e2.inst m - s.inst m := by rw [exactSeconds_eq]; exact hsec
    have hpos : 0 < d.exactSeconds m := by rw [hsec']; grind
    have hx : ExactRecQ m ⟨some (n : Int), some s, some d, some e, some e2, 1⟩ d (d.exactSeconds m) :=
      exactRecQ_of m _ d rfl hex hpos (by simp; omega) (fun s' h => by cases h; exact hs)
        (fun e' h => by cases h; exact g.valid)
    rw [iterQ_fwd m _ d _ hx s rfl fuel]
    obtain ⟨a, b, _⟩ := iterFromQ_fwd m _ d _ hx fuel s hs (fun s' h => by cases h; exact Rat.le_refl)
    have ei : e.inst m = s.inst m + ((n - 1 : Nat) : Rat) * d.exactSeconds m := by
      rw [g.inst, cast_pred n (by omega), hsec']; grind
    have hlen := b e rfl (n - 1) (by rw [ei]; exact Rat.le_refl)
      (by rw [ei, pred_succ_cast n (by omega)]; grind)
    rw [hsec'] at a
    exact ⟨by omega, a⟩

/-! ## One repetition, zero length, negative length: as the code behaves -/

/-- The stored single-point recurrence yields exactly its point. -/
theorem iterQ_single (m : Mode) (s : TPQ) (fmt : Nat) (fuel : Nat) (hf : 1 ≤ fuel) :
    iterQ m ⟨some 1, some s, none, some s, none, fmt⟩ fuel = [s] := by
  have hb : inBoundsQ m ⟨some 1, some s, none, some s, none, fmt⟩ s = true := by
    simp [inBoundsQ, tpLtQ, tpGtQ, cmpQ]
  unfold iterQ
  have : ¬ fuel = 0 := by omega
  simp [this, hb]

/-- **One repetition or a zero-length interval yields exactly the anchor** (start/duration
    notation): the recurrence is stored as a one-point recurrence without interval, whatever the
    start is. -/
theorem C12_rat_single (m : Mode) (reps : Option Int) (s : TPQ) (d : DurationQ) (hex : d.isExact = true)
    (hnn : 0 ≤ d.exactSeconds m) (hreps : ∀ n, reps = some n → 1 ≤ n)
    (hone : reps = some 1 ∨ d.exactSeconds m = 0) (fuel : Nat) (hf : 1 ≤ fuel) :
    mkRecQ m reps (some s) (some d) none = some ⟨some 1, some s, none, some s, none, 3⟩ ∧
    iterQ m ⟨some 1, some s, none, some s, none, 3⟩ fuel = [s] := by
  rw [exactSeconds_eq] at hnn hone
  refine ⟨?_, iterQ_single m s 3 fuel hf⟩
  have hz : reps = some 1 ∨ isZeroDurQ m d = true := by
    rcases hone with h | h
    · exact Or.inl h
    · exact Or.inr ((isZeroDurQ_iff m d hex).mpr h)
  cases reps with
  | none =>
    unfold mkRecQ
    simp only [Bool.false_eq_true, ↓reduceIte, ltQ_zero_false m d hex hnn, hz]
  | some n =>
    have h1 := hreps n rfl
    have c1 : ¬ n ≤ 0 := by omega
    unfold mkRecQ
    simp only [c1, decide_false, Bool.false_eq_true, ↓reduceIte, ltQ_zero_false m d hex hnn, hz]

/-- The same in duration/end notation: a zero-length interval (or one repetition) yields the end. -/
theorem C12_rat_zero_length_end (m : Mode) (reps : Option Int) (e : TPQ) (d : DurationQ)
    (hex : d.isExact = true) (hnn : 0 ≤ d.exactSeconds m) (hreps : ∀ n, reps = some n → 1 ≤ n)
    (hone : reps = some 1 ∨ d.exactSeconds m = 0) (fuel : Nat) (hf : 1 ≤ fuel) :
    mkRecQ m reps none (some d) (some e) = some ⟨some 1, some e, none, some e, none, 4⟩ ∧
    iterQ m ⟨some 1, some e, none, some e, none, 4⟩ fuel = [e] := by
  rw [exactSeconds_eq] at hnn hone
  refine ⟨?_, iterQ_single m e 4 fuel hf⟩
  have hz : reps = some 1 ∨ isZeroDurQ m d = true := by
    rcases hone with h | h
    · exact Or.inl h
    · exact Or.inr ((isZeroDurQ_iff m d hex).mpr h)
  cases reps with
  | none =>
    unfold mkRecQ
    simp only [Bool.false_eq_true, ↓reduceIte, ltQ_zero_false m d hex hnn, hz]
  | some n =>
    have h1 := hreps n rfl
    have c1 : ¬ n ≤ 0 := by omega
    unfold mkRecQ
    simp only [c1, decide_false, Bool.false_eq_true, ↓reduceIte, ltQ_zero_false m d hex hnn, hz]

/-- Start/second-point notation with the second point AT the start's instant (in whatever
    spelling): one repetition, the start. -/
theorem C12_rat_second_at_start (m : Mode) (reps : Option Int) (s e2 : TPQ) (hs : s.Valid m) (he : e2.Valid m)
    (heq : s.inst m = e2.inst m) (hreps : ∀ n, reps = some n → 2 ≤ n) (fuel : Nat) (hf : 1 ≤ fuel) :
    mkRecQ m reps (some s) none (some e2) = some ⟨some 1, some s, none, some e2, some e2, 1⟩ ∧
    (iterQ m ⟨some 1, some s, none, some e2, some e2, 1⟩ fuel = [s]) := by
  have c1 : tpEqQ m s e2 = true := (tpEqQ_iff m s e2 hs he).mpr heq
  constructor
  · cases reps with
    | none => unfold mkRecQ; simp only [Bool.false_eq_true, ↓reduceIte, reduceCtorEq, c1]
    | some n =>
      have h2 := hreps n rfl
      have k1 : ¬ n ≤ 0 := by omega
      have k2 : ¬ (n = 1) := by omega
      unfold mkRecQ
      simp only [k1, decide_false, Bool.false_eq_true, ↓reduceIte, Option.some.injEq, k2, c1]
  · have hb : inBoundsQ m ⟨some 1, some s, none, some e2, some e2, 1⟩ s = true := by
      rw [inBoundsQ_iff m _ s hs (fun s' h => by cases h; exact hs) (fun e' h => by cases h; exact he)]
      exact ⟨fun s' h => by cases h; exact Rat.le_refl, fun e' h => by cases h; rw [heq]; exact Rat.le_refl⟩
    unfold iterQ
    have : ¬ fuel = 0 := by omega
    simp [this, hb]

/-- **A negative-length exact interval is refused** (`BadInputError`), in both notations that take
    an interval, whatever the repetition count and the anchor — however small the negative length. -/
theorem C12_rat_negative_refused (m : Mode) (reps : Option Int) (p : TPQ) (d : DurationQ)
    (hex : d.isExact = true) (hneg : d.exactSeconds m < 0) :
    mkRecQ m reps (some p) (some d) none = none ∧ mkRecQ m reps none (some d) (some p) = none := by
  rw [exactSeconds_eq] at hneg
  have hl := (ltQ_zero_iff m d hex).mpr hneg
  constructor <;> (unfold mkRecQ; cases reps <;> simp [hl])

/-- **A second point before the start is refused** (start/second-point notation, more than one
    repetition) — however small the distance. -/
theorem C12_rat_second_before_start (m : Mode) (reps : Option Int) (s e2 : TPQ) (hs : s.Valid m)
    (he : e2.Valid m) (hlt : e2.inst m < s.inst m) (hreps : reps ≠ some 1) :
    mkRecQ m reps (some s) none (some e2) = none := by
  have c1 : tpEqQ m s e2 = false := by
    cases h : tpEqQ m s e2
    · rfl
    · have := (tpEqQ_iff m s e2 hs he).mp h; grind
  have c2 : tpLtQ m e2 s = true := (tpLtQ_iff m e2 s he hs).mpr hlt
  unfold mkRecQ
  cases reps with
  | none => simp [c1, c2]
  | some n =>
    by_cases k : n ≤ 0
    · simp [k]
    · have k2 : ¬ n = 1 := fun h => hreps (by rw [h])
      simp [k, k2, c1, c2]

/-! ## Membership of the bounds is exact comparison: no tolerance -/

/-- **The bounds of `Rn/start/d`** (`n ≥ 2`, exact `d` of positive length): a legal point `p`, in any
    spelling, is in bounds exactly when `inst(start) ≤ inst(p) ≤ inst(start) + (n−1)·len(d)` as
    rational numbers. -/
theorem C12_rat_in_bounds_exact (m : Mode) (n : Nat) (s : TPQ) (d : DurationQ) (hn : 2 ≤ n)
    (hs : s.Valid m) (hex : d.isExact = true) (hpos : 0 < d.exactSeconds m) (p : TPQ) (hp : p.Valid m) :
    ∃ r, mkRecQ m (some (n : Int)) (some s) (some d) none = some r ∧
      (inBoundsQ m r p = true ↔
        s.inst m ≤ p.inst m ∧ p.inst m ≤ s.inst m + ((n - 1 : Nat) : Rat) * d.exactSeconds m) := by
  have hpos' : 0 < len d := by rw [← exactSeconds_eq m d]; exact hpos
  obtain ⟨e, hr, g⟩ := mkRecQ_fmt3_bounded m n s d (by omega) hs hex hpos'
  refine ⟨_, hr, ?_⟩
  have ei : e.inst m = s.inst m + ((n - 1 : Nat) : Rat) * d.exactSeconds m := by
    rw [g.inst, cast_pred n (by omega), exactSeconds_eq]; grind
  rw [inBoundsQ_iff m _ p hp (fun s' h => by cases h; exact hs) (fun e' h => by cases h; exact g.valid), ← ei]
  constructor
  · rintro ⟨h1, h2⟩; exact ⟨h1 s rfl, h2 e rfl⟩
  · rintro ⟨h1, h2⟩; exact ⟨fun s' h => by cases h; exact h1, fun e' h => by cases h; exact h2⟩

/-- **No tolerance**: a legal point at distance `ε > 0` — ANY positive rational, `1/1000 s` or
    less — past the last point `start + (n−1)·d`, or before the start, is NOT in bounds, no
    iterated point is at its instant, it is not among the iterated points and `get_is_valid`
    rejects it. -/
theorem C12_rat_no_tolerance (m : Mode) (n : Nat) (s : TPQ) (d : DurationQ) (hn : 2 ≤ n)
    (hs : s.Valid m) (hex : d.isExact = true) (hpos : 0 < d.exactSeconds m) (fuel : Nat)
    (p : TPQ) (hp : p.Valid m) (ε : Rat) (hε : 0 < ε)
    (hpi : p.inst m = s.inst m + ((n - 1 : Nat) : Rat) * d.exactSeconds m + ε ∨ p.inst m = s.inst m - ε) :
    ∃ r, mkRecQ m (some (n : Int)) (some s) (some d) none = some r ∧ inBoundsQ m r p = false ∧
      (∀ q ∈ iterQ m r fuel, q.inst m ≠ p.inst m) ∧ p ∉ iterQ m r fuel ∧ getIsValidQ m r p fuel = false := by
  obtain ⟨r, hr, hb⟩ := C12_rat_in_bounds_exact m n s d hn hs hex hpos p hp
  have hpos' : 0 < len d := by rw [← exactSeconds_eq m d]; exact hpos
  obtain ⟨e, hr', g⟩ := mkRecQ_fmt3_bounded m n s d (by omega) hs hex hpos'
  rw [hr] at hr'
  have hre : r = ⟨some (n : Int), some s, some d, some e, none, 3⟩ := by simpa using hr'
  have hout : inBoundsQ m r p = false := by
    cases h : inBoundsQ m r p
    · rfl
    · have := hb.mp h
      have : (0 : Rat) ≤ ((n - 1 : Nat) : Rat) * d.exactSeconds m :=
        Rat.mul_nonneg Rat.natCast_nonneg (Rat.le_of_lt hpos)
      rcases hpi with hpi | hpi <;> grind
  subst hre
  have hx : ExactRecQ m ⟨some (n : Int), some s, some d, some e, none, 3⟩ d (d.exactSeconds m) :=
    exactRecQ_of m _ d rfl hex hpos (by simp; omega) (fun s' h => by cases h; exact hs)
      (fun e' h => by cases h; exact g.valid)
  have hne : ∀ q ∈ iterQ m ⟨some (n : Int), some s, some d, some e, none, 3⟩ fuel, q.inst m ≠ p.inst m := by
    intro q hq heq
    have hqb := iterQ_mem_inBounds m _ fuel q hq
    -- every yielded point is legal (it is in the series), so its bounds verdict is by instant
    have hqv : q.Valid m := by
      rw [iterQ_fwd m _ d _ hx s rfl fuel] at hq
      obtain ⟨a, _, _⟩ := iterFromQ_fwd m _ d _ hx fuel s hs (fun s' h => by cases h; exact Rat.le_refl)
      exact seriesQ_mem_valid m s _ _ _ a q hq
    have h1 := (inBoundsQ_iff m _ q hqv hx.startValid hx.endValid).mp hqb
    have h2 : inBoundsQ m ⟨some (n : Int), some s, some d, some e, none, 3⟩ p = true := by
      rw [inBoundsQ_iff m _ p hp hx.startValid hx.endValid, ← heq]; exact h1
    rw [hout] at h2; cases h2
  refine ⟨_, hr, hout, hne, fun hmem => hne p hmem rfl, ?_⟩
  unfold getIsValidQ; simp [hout]

/-! ## The rational model extends the whole-second model -/

/-- **On whole-second points and whole-number intervals the rational model IS the integer model**
    of `Props/C12.lean` / `Model.Recurrence`: the constructor builds the embedded recurrence (or
    fails alike), and iteration, bounds, neighbours, indexing and membership give the embedded
    answers.  So the theorems of `Props/C12.lean`, `C13*.lean` are the instances of this model at
    `TPQ.ofTP` / `DurationQ.ofDur`. -/
theorem C12_rat_extends_int (m : Mode) :
    (∀ (reps : Option Int) (start : Option TP) (dur : Option Dur) (end_ : Option TP),
      mkRecQ m reps (start.map TPQ.ofTP) (dur.map DurationQ.ofDur) (end_.map TPQ.ofTP) =
        (mkRec m reps start dur end_).map RecQ.ofRec) ∧
    (∀ (r : Rec) (fuel : Nat), iterQ m (RecQ.ofRec r) fuel = (iter m r fuel).map TPQ.ofTP) ∧
    (∀ (r : Rec) (p : TP), inBoundsQ m (RecQ.ofRec r) (TPQ.ofTP p) = inBounds m r p) ∧
    (∀ (r : Rec) (p : TP), getNextQ m (RecQ.ofRec r) (TPQ.ofTP p) = (getNext m r p).map TPQ.ofTP) ∧
    (∀ (r : Rec) (p : TP), getPrevQ m (RecQ.ofRec r) (TPQ.ofTP p) = (getPrev m r p).map TPQ.ofTP) ∧
    (∀ (r : Rec) (i : Nat), getItemQ m (RecQ.ofRec r) i = (getItem m r i).map TPQ.ofTP) ∧
    (∀ (r : Rec) (p : TP) (fuel : Nat), getIsValidQ m (RecQ.ofRec r) (TPQ.ofTP p) fuel = getIsValid m r p fuel) :=
  ⟨mkRecQ_ofRec m, iterQ_ofRec m, inBoundsQ_ofRec m, getNextQ_ofRec m, getPrevQ_ofRec m, getItemQ_ofRec m,
    getIsValidQ_ofRec m⟩

/-- Constructor and iteration chained: the same list of points under `TPQ.ofTP`. -/
theorem C12_rat_extends_int_points (m : Mode) (reps : Option Int) (start : Option TP) (dur : Option Dur)
    (end_ : Option TP) (r : Rec) (h : mkRec m reps start dur end_ = some r) (fuel : Nat) :
    ∃ rq, mkRecQ m reps (start.map TPQ.ofTP) (dur.map DurationQ.ofDur) (end_.map TPQ.ofTP) = some rq ∧
      iterQ m rq fuel = (iter m r fuel).map TPQ.ofTP :=
  ⟨RecQ.ofRec r, by rw [mkRecQ_ofRec, h]; rfl, iterQ_ofRec m r fuel⟩

-- the example of `Props/C12.lean`: R3/2002-05-04T23:00:00Z/PT1H
example : mkRec .greg (some 3) (some ⟨.cal 2002 5 4, 23, 0, 0, ⟨0, 0⟩⟩) (some (.units 0 0 0 1 0 0)) none =
      some ⟨some 3, some ⟨.cal 2002 5 4, 23, 0, 0, ⟨0, 0⟩⟩, some (.units 0 0 0 1 0 0),
        some ⟨.cal 2002 5 5, 1, 0, 0, ⟨0, 0⟩⟩, none, 3⟩ ∧
    iterQ .greg (RecQ.ofRec ⟨some 3, some ⟨.cal 2002 5 4, 23, 0, 0, ⟨0, 0⟩⟩, some (.units 0 0 0 1 0 0),
        some ⟨.cal 2002 5 5, 1, 0, 0, ⟨0, 0⟩⟩, none, 3⟩) 10 =
      [TPQ.ofTP ⟨.cal 2002 5 4, 23, 0, 0, ⟨0, 0⟩⟩, TPQ.ofTP ⟨.cal 2002 5 5, 0, 0, 0, ⟨0, 0⟩⟩,
       TPQ.ofTP ⟨.cal 2002 5 5, 1, 0, 0, ⟨0, 0⟩⟩] := by decide +kernel

/-! ## Non-vacuity (kernel-evaluated runs of the model) -/

-- R3/2020-01-01T00:00:00Z/PT0,25S: offsets 0, 1/4, 1/2
example : (⟨.cal 2020 1 1, 0, some 0, some 0, ⟨0, 0⟩⟩ : TPQ).Valid .greg ∧
    (DurationQ.units 0 0 0 0 0 (1/4)).isExact = true ∧
    (0 : Rat) < (DurationQ.units 0 0 0 0 0 (1/4)).exactSeconds .greg := by decide +kernel

example : mkRecQ .greg (some 3) (some ⟨.cal 2020 1 1, 0, some 0, some 0, ⟨0, 0⟩⟩)
      (some (.units 0 0 0 0 0 (1/4))) none =
    some ⟨some 3, some ⟨.cal 2020 1 1, 0, some 0, some 0, ⟨0, 0⟩⟩, some (.units 0 0 0 0 0 (1/4)),
      some ⟨.cal 2020 1 1, 0, some 0, some (1/2), ⟨0, 0⟩⟩, none, 3⟩ := by decide +kernel

example : iterQ .greg ⟨some 3, some ⟨.cal 2020 1 1, 0, some 0, some 0, ⟨0, 0⟩⟩, some (.units 0 0 0 0 0 (1/4)),
      some ⟨.cal 2020 1 1, 0, some 0, some (1/2), ⟨0, 0⟩⟩, none, 3⟩ 10 =
    [⟨.cal 2020 1 1, 0, some 0, some 0, ⟨0, 0⟩⟩, ⟨.cal 2020 1 1, 0, some 0, some (1/4), ⟨0, 0⟩⟩,
     ⟨.cal 2020 1 1, 0, some 0, some (1/2), ⟨0, 0⟩⟩] := by decide +kernel

example : ((iterQ .greg ⟨some 3, some ⟨.cal 2020 1 1, 0, some 0, some 0, ⟨0, 0⟩⟩,
      some (.units 0 0 0 0 0 (1/4)), some ⟨.cal 2020 1 1, 0, some 0, some (1/2), ⟨0, 0⟩⟩, none, 3⟩ 10).map
      fun p => p.inst .greg - TPQ.inst .greg ⟨.cal 2020 1 1, 0, some 0, some 0, ⟨0, 0⟩⟩) = [0, 1/4, 1/2] := by
  decide +kernel

-- a point 1/1000 s past the end (00:00:00.501) is out of bounds; the end itself is in bounds
example : inBoundsQ .greg ⟨some 3, some ⟨.cal 2020 1 1, 0, some 0, some 0, ⟨0, 0⟩⟩,
      some (.units 0 0 0 0 0 (1/4)), some ⟨.cal 2020 1 1, 0, some 0, some (1/2), ⟨0, 0⟩⟩, none, 3⟩
      ⟨.cal 2020 1 1, 0, some 0, some (501/1000), ⟨0, 0⟩⟩ = false ∧
    inBoundsQ .greg ⟨some 3, some ⟨.cal 2020 1 1, 0, some 0, some 0, ⟨0, 0⟩⟩,
      some (.units 0 0 0 0 0 (1/4)), some ⟨.cal 2020 1 1, 0, some 0, some (1/2), ⟨0, 0⟩⟩, none, 3⟩
      ⟨.cal 2020 1 1, 0, some 0, some (1/2), ⟨0, 0⟩⟩ = true ∧
    (⟨.cal 2020 1 1, 0, some 0, some (501/1000), ⟨0, 0⟩⟩ : TPQ).Valid .greg ∧
    TPQ.inst .greg ⟨.cal 2020 1 1, 0, some 0, some (501/1000), ⟨0, 0⟩⟩ =
      TPQ.inst .greg ⟨.cal 2020 1 1, 0, some 0, some 0, ⟨0, 0⟩⟩ + ((3 - 1 : Nat) : Rat) * (1/4) + 1/1000 := by
  decide +kernel

-- decimal-hour anchor 12.5h (week date, +05:30), interval PT0,25H, four points ending at 13.25h
example : (⟨.week 2020 1 3, 25/2, none, none, ⟨5, 30⟩⟩ : TPQ).Valid .greg ∧
    mkRecQ .greg (some 4) (some ⟨.week 2020 1 3, 25/2, none, none, ⟨5, 30⟩⟩) (some (.units 0 0 0 (1/4) 0 0)) none =
      some ⟨some 4, some ⟨.week 2020 1 3, 25/2, none, none, ⟨5, 30⟩⟩, some (.units 0 0 0 (1/4) 0 0),
        some ⟨.week 2020 1 3, 53/4, none, none, ⟨5, 30⟩⟩, none, 3⟩ ∧
    iterQ .greg ⟨some 4, some ⟨.week 2020 1 3, 25/2, none, none, ⟨5, 30⟩⟩, some (.units 0 0 0 (1/4) 0 0),
        some ⟨.week 2020 1 3, 53/4, none, none, ⟨5, 30⟩⟩, none, 3⟩ 10 =
      [⟨.week 2020 1 3, 25/2, none, none, ⟨5, 30⟩⟩, ⟨.week 2020 1 3, 51/4, none, none, ⟨5, 30⟩⟩,
       ⟨.week 2020 1 3, 13, none, none, ⟨5, 30⟩⟩, ⟨.week 2020 1 3, 53/4, none, none, ⟨5, 30⟩⟩] := by
  decide +kernel

-- duration/end, 360-day calendar, PT0,5S across the year boundary: 3 points ending at the end
example : mkRecQ .d360 (some 3) none (some (.units 0 0 0 0 0 (1/2))) (some ⟨.cal 2001 1 1, 0, some 0, some (1/4), ⟨0, 0⟩⟩) =
      some ⟨some 3, some ⟨.cal 2000 12 30, 23, some 59, some (237/4), ⟨0, 0⟩⟩, some (.units 0 0 0 0 0 (1/2)),
        some ⟨.cal 2001 1 1, 0, some 0, some (1/4), ⟨0, 0⟩⟩, none, 4⟩ ∧
    iterQ .d360 ⟨some 3, some ⟨.cal 2000 12 30, 23, some 59, some (237/4), ⟨0, 0⟩⟩, some (.units 0 0 0 0 0 (1/2)),
        some ⟨.cal 2001 1 1, 0, some 0, some (1/4), ⟨0, 0⟩⟩, none, 4⟩ 10 =
      [⟨.cal 2000 12 30, 23, some 59, some (237/4), ⟨0, 0⟩⟩, ⟨.cal 2000 12 30, 23, some 59, some (239/4), ⟨0, 0⟩⟩,
       ⟨.cal 2001 1 1, 0, some 0, some (1/4), ⟨0, 0⟩⟩] := by decide +kernel

-- start/second point in different precision forms and offsets: 12.5h Z and 13:45.5 +01:00, interval 15 min 30 s
example : mkRecQ .greg none (some ⟨.cal 2000 1 1, 25/2, none, none, ⟨0, 0⟩⟩) none
      (some ⟨.ord 2000 1, 13, some (91/2), none, ⟨1, 0⟩⟩) =
    some ⟨none, some ⟨.cal 2000 1 1, 25/2, none, none, ⟨0, 0⟩⟩, some (.units 0 0 0 0 15 30), none,
      some ⟨.ord 2000 1, 13, some (91/2), none, ⟨1, 0⟩⟩, 1⟩ := by decide +kernel

-- zero length and negative length
example : mkRecQ .greg (some 5) (some ⟨.cal 2020 1 1, 0, some 0, some (1/8), ⟨0, 0⟩⟩)
      (some (.units 0 0 0 1 0 (-3600))) none =
    some ⟨some 1, some ⟨.cal 2020 1 1, 0, some 0, some (1/8), ⟨0, 0⟩⟩, none,
      some ⟨.cal 2020 1 1, 0, some 0, some (1/8), ⟨0, 0⟩⟩, none, 3⟩ := by decide +kernel
example : mkRecQ .greg (some 5) (some ⟨.cal 2020 1 1, 0, some 0, some (1/8), ⟨0, 0⟩⟩)
      (some (.units 0 0 0 0 0 (-1/1000))) none = none := by decide +kernel

end IsoDT.Props.C12q
