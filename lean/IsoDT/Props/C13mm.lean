/-
  C13 (continued) — the recurrence queries with `min_point` / `max_point`:
  `get_is_valid`, `r[i]`, `get_next`/`get_prev`, `get_first_after` of `Model/RecurrenceMM.lean`.

  * `C13_mm_is_valid_sound` (every recurrence): `get_is_valid(p)` true ⇒ `p` passes the bounds test
    (so its instant is within [min, max]) and one of the ITERATED points equals it.
  * `C13_mm_is_valid_iff_iterated` (exact interval): … iff one of the iterated points (of the
    iteration cut by the window) is at the probe's instant.
  * the converse of soundness w.r.t. the series fails in the code when the start is before
    `min_point` (nothing is iterated, so nothing is valid): `C13_mm_is_valid_start_before_min_witness`.
  * `C13_mm_getitem_is_iter`, `C13_mm_next_prev`, `C13_mm_first_after_exact`, `C13_mm_first_after_outside`.
-/
import IsoDT.Props.C13b
import IsoDT.Props.C12mm

namespace IsoDT.Props.C13
open IsoDT IsoDT.Model IsoDT.Lemmas IsoDT.Props.C12
open IsoDT.Spec (Date TZ TP)

/-! ## `get_is_valid` -/

/-- The scan only answers `True` at a listed point equal (`==`) to the probe. -/
theorem scanValid_true_mem (m : Mode) (r : Rec) (p : TP) : ∀ l : List TP,
    scanValid m r p l = true → ∃ q ∈ l, tpEq m q p = true := by
  intro l
  induction l with
  | nil => intro h; simp [scanValid] at h
  | cons q rest ih =>
    intro h
    unfold scanValid at h
    by_cases c1 : tpEq m q p = true
    · exact ⟨q, List.mem_cons_self, c1⟩
    · rw [if_neg c1] at h
      split at h
      · cases h
      · split at h
        · cases h
        · obtain ⟨x, hx, hxe⟩ := ih h
          exact ⟨x, List.mem_cons_of_mem _ hx, hxe⟩

/-- **`get_is_valid` with a window is sound** — every recurrence, any interval, any amount of
    iteration: if it answers `True` then the probe passes `_get_is_in_bounds` (start, min, max,
    end) and one of the points `__iter__` yields (with the window) compares equal to it.  With
    valid points: the probe's instant is within [min, max] and equals that of an iterated point,
    which is also a point of the unrestricted iteration. -/
theorem C13_mm_is_valid_sound (m : Mode) (r : RecMM) (p : TP) (fuel : Nat)
    (h : getIsValidMM m r p fuel = true) :
    inBoundsMM m r p = true ∧ inBounds m r.base p = true ∧ withinMM m r p = true ∧
    (∃ q ∈ iterMM m r fuel, tpEq m q p = true ∧ q ∈ iter m r.base fuel ∧ withinMM m r q = true) ∧
    (p.Valid m → (∀ a, r.minP = some a → a.Valid m) → (∀ b, r.maxP = some b → b.Valid m) →
      (∀ a, r.minP = some a → a.inst m ≤ p.inst m) ∧ (∀ b, r.maxP = some b → p.inst m ≤ b.inst m) ∧
      ∀ q ∈ iterMM m r fuel, tpEq m q p = true → q.Valid m → q.inst m = p.inst m) := by
  unfold getIsValidMM at h
  cases hb : inBoundsMM m r p with
  | false => rw [hb] at h; simp at h
  | true =>
    rw [hb] at h
    simp only [Bool.not_true, Bool.false_eq_true, ↓reduceIte] at h
    have hb' := hb
    rw [inBoundsMM_eq, Bool.and_eq_true] at hb'
    obtain ⟨q, hq, hqe⟩ := scanValid_true_mem m r.base p _ h
    have hpre := (C12_mm_iter_longest_prefix m r fuel)
    refine ⟨rfl, hb'.1, hb'.2, ⟨q, hq, hqe, hpre.2.2.1.subset hq, (hpre.2.2.2.1 q hq).1⟩, ?_⟩
    intro hp hmin hmax
    have := (withinMM_iff m r p hp hmin hmax).mp hb'.2
    exact ⟨this.1, this.2, fun q _ he hqv => (tpEq_iff m q p hqv hp).mp he⟩

/-- Being within the window depends on the instant only. -/
theorem withinMM_congr (m : Mode) (r : RecMM) (p q : TP) (hp : p.Valid m) (hq : q.Valid m)
    (hmin : ∀ a, r.minP = some a → a.Valid m) (hmax : ∀ b, r.maxP = some b → b.Valid m)
    (h : q.inst m = p.inst m) : withinMM m r q = withinMM m r p := by
  have a := withinMM_iff m r p hp hmin hmax
  have b := withinMM_iff m r q hq hmin hmax
  rw [h] at b
  rw [Bool.eq_iff_iff, a, b]

/-- **`get_is_valid` with a window is membership of the iterated points** (exact interval; every
    notation, bounded or not, forwards or backwards; any amount of iteration): true exactly when
    one of the points `__iter__` yields — the unrestricted series cut by [min, max], see
    `C12_mm_iter_longest_prefix` — is at the probe's instant. -/
theorem C13_mm_is_valid_iff_iterated (m : Mode) (r : RecMM) (d : Dur) (L : Int) (hr : ExactRec m r.base d L)
    (hmin : ∀ a, r.minP = some a → a.Valid m) (hmax : ∀ b, r.maxP = some b → b.Valid m)
    (p : TP) (hp : p.Valid m) (fuel : Nat) :
    getIsValidMM m r p fuel = true ↔ ∃ q ∈ iterMM m r fuel, q.inst m = p.inst m := by
  -- a series for the iterated points, and the scan over it
  have key : ∀ (rep : Nat) (tz : TZ) (i0 step : Int), SeriesOK m rep tz (iterMM m r fuel) i0 step →
      (scanValid m r.base p (iterMM m r fuel) = true ↔ ∃ q ∈ iterMM m r fuel, q.inst m = p.inst m) →
      (getIsValidMM m r p fuel = true ↔ ∃ q ∈ iterMM m r fuel, q.inst m = p.inst m) := by
    intro rep tz i0 step hser hsc
    unfold getIsValidMM
    cases cb : inBoundsMM m r p with
    | true => simp only [Bool.not_true, Bool.false_eq_true, ↓reduceIte]; exact hsc
    | false =>
      simp only [Bool.not_false, ↓reduceIte, Bool.false_eq_true, false_iff]
      rintro ⟨q, hq, hqe⟩
      have hqv := series_mem_valid m _ _ _ _ _ hser q hq
      obtain ⟨w1, w2, _⟩ := (C12_mm_iter_longest_prefix m r fuel).2.2.2.1 q hq
      rw [inBoundsMM_eq, ← inBounds_congr m r.base d L hr p q hp hqv hqe,
        ← withinMM_congr m r p q hp hqv hmin hmax hqe, w1, w2] at cb
      cases cb
  cases hs : r.base.start with
  | some s =>
    obtain ⟨a, _, _⟩ := C12_mm_exact_forward m r d L hr s hs hmin hmax fuel
    exact key _ _ _ _ a (scan_fwd m r.base (by rw [hs]; rfl) p hp _ _ _ _ _ a hr.pos)
  | none =>
    cases he : r.base.end_ with
    | some e =>
      obtain ⟨a, _, _⟩ := C12_mm_exact_backward m r d L hr e hs he hmin hmax fuel
      exact key _ _ _ _ a (scan_rev m r.base (by rw [hs]; rfl) (by rw [he]; rfl) p hp _ _ _ _ _ a
        (by have := hr.pos; omega))
    | none =>
      have h0 : iterMM m r fuel = [] := by
        rw [iterMM_eq_takeWhile]
        have : iter m r.base fuel = [] := by unfold iter; simp only [hs, he, Option.isNone_none, ↓reduceIte]
        rw [this]; rfl
      unfold getIsValidMM
      rw [h0]
      constructor
      · intro h; split at h <;> simp [scanValid] at h
      · rintro ⟨q, hq, _⟩; cases hq

/-- Consequence: with a window `get_is_valid` implies `get_is_valid` without it (exact interval). -/
theorem C13_mm_is_valid_implies_unrestricted (m : Mode) (r : RecMM) (d : Dur) (L : Int)
    (hr : ExactRec m r.base d L)
    (hmin : ∀ a, r.minP = some a → a.Valid m) (hmax : ∀ b, r.maxP = some b → b.Valid m)
    (p : TP) (hp : p.Valid m) (fuel : Nat) (h : getIsValidMM m r p fuel = true) :
    getIsValid m r.base p fuel = true := by
  obtain ⟨q, hq, hqe⟩ := (C13_mm_is_valid_iff_iterated m r d L hr hmin hmax p hp fuel).mp h
  exact (C13_is_valid_iff_iterated m r.base d L hr p hp fuel).mpr
    ⟨q, (C12_mm_iter_longest_prefix m r fuel).2.2.1.subset hq, hqe⟩

/-- **The converse fails in the code when the start is before `min_point`**:
    `R5/2002-05-04T23:00Z/PT1H` with `min_point = 2002-05-05T00:00Z`; the probe `01:00Z` is a member of
    the series, is at or after the minimum and passes the bounds test, yet `get_is_valid` is
    `False` — `__iter__` yields nothing because its first point is out of bounds.
    (`get_next` from the start, by contrast, finds the member at the minimum.) -/
theorem C13_mm_is_valid_start_before_min_witness :
    ∃ r, mkRecMM .greg (some 5) (some ⟨.cal 2002 5 4, 23, 0, 0, ⟨0, 0⟩⟩) (some (.units 0 0 0 1 0 0)) none
        (some ⟨.cal 2002 5 5, 0, 0, 0, ⟨0, 0⟩⟩) none = some r ∧
      inBoundsMM .greg r ⟨.cal 2002 5 5, 1, 0, 0, ⟨0, 0⟩⟩ = true ∧
      getIsValid .greg r.base ⟨.cal 2002 5 5, 1, 0, 0, ⟨0, 0⟩⟩ 10 = true ∧
      getIsValidMM .greg r ⟨.cal 2002 5 5, 1, 0, 0, ⟨0, 0⟩⟩ 10 = false ∧
      iterMM .greg r 10 = [] ∧
      getNextMM .greg r ⟨.cal 2002 5 4, 23, 0, 0, ⟨0, 0⟩⟩ = some ⟨.cal 2002 5 5, 0, 0, 0, ⟨0, 0⟩⟩ := by
  refine ⟨⟨⟨some 5, some ⟨.cal 2002 5 4, 23, 0, 0, ⟨0, 0⟩⟩, some (.units 0 0 0 1 0 0),
    some ⟨.cal 2002 5 5, 3, 0, 0, ⟨0, 0⟩⟩, none, 3⟩, some ⟨.cal 2002 5 5, 0, 0, 0, ⟨0, 0⟩⟩, none⟩,
    by decide +kernel, by decide +kernel, by decide +kernel, by decide +kernel, by decide +kernel,
    by decide +kernel⟩

/-- Non-vacuity of `C13_mm_is_valid_iff_iterated`: `R5/2002-05-04T23:00Z/PT1H`, max `01:00Z`. -/
example := C13_mm_is_valid_iff_iterated .greg
    ⟨⟨some 5, some ⟨.cal 2002 5 4, 23, 0, 0, ⟨0, 0⟩⟩, some (.units 0 0 0 1 0 0),
      some ⟨.cal 2002 5 5, 3, 0, 0, ⟨0, 0⟩⟩, none, 3⟩, none, some ⟨.cal 2002 5 5, 1, 0, 0, ⟨0, 0⟩⟩⟩
    (.units 0 0 0 1 0 0) 3600
    ⟨rfl, rfl, by decide, by decide, by decide, fun s h => by cases h; decide, fun e h => by cases h; decide⟩
    (fun a h => by cases h) (fun b h => by cases h; decide)
    ⟨.ord 2002 125, 3, 0, 0, ⟨2, 0⟩⟩ (by decide) 10
example : getIsValidMM .greg
    ⟨⟨some 5, some ⟨.cal 2002 5 4, 23, 0, 0, ⟨0, 0⟩⟩, some (.units 0 0 0 1 0 0),
      some ⟨.cal 2002 5 5, 3, 0, 0, ⟨0, 0⟩⟩, none, 3⟩, none, some ⟨.cal 2002 5 5, 1, 0, 0, ⟨0, 0⟩⟩⟩
    ⟨.ord 2002 125, 3, 0, 0, ⟨2, 0⟩⟩ 10 = true ∧
  getIsValidMM .greg
    ⟨⟨some 5, some ⟨.cal 2002 5 4, 23, 0, 0, ⟨0, 0⟩⟩, some (.units 0 0 0 1 0 0),
      some ⟨.cal 2002 5 5, 3, 0, 0, ⟨0, 0⟩⟩, none, 3⟩, none, some ⟨.cal 2002 5 5, 1, 0, 0, ⟨0, 0⟩⟩⟩
    ⟨.ord 2002 125, 4, 0, 0, ⟨2, 0⟩⟩ 10 = false := by decide +kernel

/-! ## `r[i]` -/

/-- **`r[i]` with a window** is the `i`-th point of any run of `__iter__` (with the window) that
    visits more than `i` points; `none` = `IndexError`.  Every recurrence, any interval. -/
theorem C13_mm_getitem_is_iter (m : Mode) (r : RecMM) (i fuel : Nat) (h : i < fuel) :
    getItemMM m r i = (iterMM m r fuel)[i]? := by
  unfold getItemMM
  have agree : ∀ j, j ≤ i → (iter m r.base (i + 1))[j]? = (iter m r.base fuel)[j]? := by
    intro j hj
    rw [iter_prefix m r.base j (i + 1) (by omega), iter_prefix m r.base j fuel (by omega)]
  apply Option.ext
  intro p
  rw [iterMM_eq_takeWhile, iterMM_eq_takeWhile, takeWhile_getElem?_iff, takeWhile_getElem?_iff,
    agree i (Nat.le_refl i)]
  constructor
  · rintro ⟨h1, h2⟩
    exact ⟨h1, fun j hj q hq => h2 j hj q (by rw [agree j hj]; exact hq)⟩
  · rintro ⟨h1, h2⟩
    exact ⟨h1, fun j hj q hq => h2 j hj q (by rw [← agree j hj]; exact hq)⟩

/-- Hence `r[i]`, when it exists, is the `i`-th point of the unrestricted iteration and points
    `0..i` of the unrestricted iteration are all within [min, max]. -/
theorem C13_mm_getitem (m : Mode) (r : RecMM) (i : Nat) (p : TP) :
    getItemMM m r i = some p ↔
      getItem m r.base i = some p ∧
        ∀ j, j ≤ i → ∀ q, getItem m r.base j = some q → withinMM m r q = true := by
  unfold getItemMM getItem
  rw [iterMM_eq_takeWhile, takeWhile_getElem?_iff]
  constructor
  · rintro ⟨h1, h2⟩
    exact ⟨h1, fun j hj q hq => h2 j hj q (by rw [iter_prefix m r.base j (i + 1) (by omega)]; exact hq)⟩
  · rintro ⟨h1, h2⟩
    exact ⟨h1, fun j hj q hq => h2 j hj q (by rw [← iter_prefix m r.base j (i + 1) (by omega)]; exact hq)⟩

example : getItemMM .greg
    ⟨⟨some 5, some ⟨.cal 2002 5 4, 23, 0, 0, ⟨0, 0⟩⟩, some (.units 0 0 0 1 0 0),
      some ⟨.cal 2002 5 5, 3, 0, 0, ⟨0, 0⟩⟩, none, 3⟩, none, some ⟨.cal 2002 5 5, 1, 0, 0, ⟨0, 0⟩⟩⟩ 2 =
      some ⟨.cal 2002 5 5, 1, 0, 0, ⟨0, 0⟩⟩ ∧
    getItemMM .greg
    ⟨⟨some 5, some ⟨.cal 2002 5 4, 23, 0, 0, ⟨0, 0⟩⟩, some (.units 0 0 0 1 0 0),
      some ⟨.cal 2002 5 5, 3, 0, 0, ⟨0, 0⟩⟩, none, 3⟩, none, some ⟨.cal 2002 5 5, 1, 0, 0, ⟨0, 0⟩⟩⟩ 3 = none := by
  decide +kernel

/-! ## `get_next` / `get_prev` -/

/-- **`get_next`/`get_prev` with a window**: the neighbour of the recurrence without the window,
    returned only if it is within [min, max] (every recurrence, any interval). -/
theorem C13_mm_next_prev (m : Mode) (r : RecMM) (p : TP) :
    getNextMM m r p = (getNext m r.base p).filter (withinMM m r) ∧
    getPrevMM m r p = (getPrev m r.base p).filter (withinMM m r) :=
  ⟨getNextMM_eq m r p, getPrevMM_eq m r p⟩

/-- For an exact interval: from any valid point, the point one interval later (earlier), if it is
    within start/end and within [min, max] by instants. -/
theorem C13_mm_next_prev_exact (m : Mode) (r : RecMM) (d : Dur) (L : Int) (hr : ExactRec m r.base d L)
    (hmin : ∀ a, r.minP = some a → a.Valid m) (hmax : ∀ b, r.maxP = some b → b.Valid m)
    (p : TP) (hp : p.Valid m) :
    (∃ q, Good m p q L ∧ getNextMM m r p = if inBoundsMM m r q then some q else none) ∧
    (∃ q, Good m p q (-L) ∧ getPrevMM m r p = if inBoundsMM m r q then some q else none) ∧
    (∀ q, getNextMM m r p = some q →
      (∀ a, r.minP = some a → a.inst m ≤ q.inst m) ∧ (∀ b, r.maxP = some b → q.inst m ≤ b.inst m)) := by
  obtain ⟨q, _, g, hn⟩ := getNext_exact m r.base d L hr p hp
  obtain ⟨q', _, g', hn'⟩ := getPrev_exact m r.base d L hr p hp
  have e1 : getNextMM m r p = if inBoundsMM m r q then some q else none := by
    rw [getNextMM_eq, hn, inBoundsMM_eq]
    cases inBounds m r.base q <;> cases hw : withinMM m r q <;> simp [Option.filter, hw]
  refine ⟨⟨q, g, e1⟩, ⟨q', g', ?_⟩, ?_⟩
  · rw [getPrevMM_eq, hn', inBoundsMM_eq]
    cases inBounds m r.base q' <;> cases hw : withinMM m r q' <;> simp [Option.filter, hw]
  · intro x hx
    rw [e1] at hx
    cases hb : inBoundsMM m r q with
    | false => rw [hb] at hx; simp at hx
    | true =>
      rw [hb] at hx
      simp only [↓reduceIte, Option.some.injEq] at hx
      subst hx
      rw [inBoundsMM_eq, Bool.and_eq_true] at hb
      exact (withinMM_iff m r q g.strict.1 hmin hmax).mp hb.2

/-! ## `get_first_after` -/

/-- The closed-form branch with a window = the closed-form branch without, filtered. -/
theorem getFirstAfterMM_exact_eq (m : Mode) (r : RecMM) (p : TP) (fuel : Nat) (d : Dur)
    (hb : inBoundsMM m r p = true) (hd : r.base.dur = some d) (hex : d.isExact = true) :
    getFirstAfterMM m r p fuel = (getFirstAfter m r.base p fuel).filter (withinMM m r) := by
  have hb' := hb
  rw [inBoundsMM_eq, Bool.and_eq_true] at hb'
  unfold getFirstAfterMM getFirstAfter
  cases hs : r.base.start with
  | none => rfl
  | some s =>
    simp only [hb, hb'.1, ↓reduceIte, hd, hex]
    cases hsub : subTP m p s with
    | none => rfl
    | some diff =>
      simp only
      by_cases hz : d.seconds m = 0
      · simp only [hz, ↓reduceIte, Option.filter_none]
      · simp only [hz, ↓reduceIte]
        cases ha : addDur m p (Dur.sub m d (.units 0 0 0 0 0 (Int.fmod (diff.seconds m) (d.seconds m)))) with
        | none => rfl
        | some q =>
          simp only [inBoundsMM_eq]
          cases inBounds m r.base q <;> cases hw : withinMM m r q <;> simp [Option.filter, hw]

/-- **`get_first_after` with a window, exact interval** (recurrence with start `s`): for a probe
    that passes the bounds test the result is the earliest member strictly later than the probe,
    `s + (⌊(p − s)/L⌋ + 1)·L`, if that passes the bounds test (start/end AND min/max), else `None`;
    for a probe that fails the bounds test — for whatever reason, including being outside
    [min, max] only — it is the start point if the probe is before the start (whether or not the
    start is within [min, max]) and `None` otherwise. -/
theorem C13_mm_first_after_exact (m : Mode) (r : RecMM) (d : Dur) (L : Int) (hr : ExactRec m r.base d L) (s : TP)
    (hs : r.base.start = some s) (p : TP) (hp : p.Valid m) (fuel : Nat) :
    (inBoundsMM m r p = true →
      ∃ q, Good m p q (L - (p.inst m - s.inst m) % L) ∧
        q.inst m = s.inst m + ((p.inst m - s.inst m) / L + 1) * L ∧ p.inst m < q.inst m ∧
        q.inst m ≤ p.inst m + L ∧
        getFirstAfterMM m r p fuel = (if inBoundsMM m r q then some q else none)) ∧
    (inBoundsMM m r p = false → p.inst m < s.inst m → getFirstAfterMM m r p fuel = some s) ∧
    (inBoundsMM m r p = false → ¬ p.inst m < s.inst m → getFirstAfterMM m r p fuel = none) := by
  have hsv := hr.startValid s hs
  refine ⟨?_, ?_, ?_⟩
  · intro hb
    have hb' := hb
    rw [inBoundsMM_eq, Bool.and_eq_true] at hb'
    obtain ⟨q, g, h1, h2, h3, h4⟩ := (C13_first_after_exact m r.base d L hr s hs p hp fuel).1 hb'.1
    refine ⟨q, g, h1, h2, h3, ?_⟩
    rw [getFirstAfterMM_exact_eq m r p fuel d hb hr.dur hr.exact, h4, inBoundsMM_eq]
    cases inBounds m r.base q <;> cases hw : withinMM m r q <;> simp [Option.filter, hw]
  · intro hb hlt
    unfold getFirstAfterMM
    simp only [hs, hb, Bool.false_eq_true, ↓reduceIte, (tpLt_iff m p s hp hsv).mpr hlt]
  · intro hb hge
    have : tpLt m p s = false := by
      cases h : tpLt m p s
      · rfl
      · exact absurd ((tpLt_iff m p s hp hsv).mp h) hge
    unfold getFirstAfterMM
    simp only [hs, hb, Bool.false_eq_true, ↓reduceIte, this]

/-- **`get_first_after` for a probe that fails the bounds test** — every recurrence with a start
    point, any interval: the start if the probe is before it, else `None`.  In particular a probe
    between start and end but before `min_point` gets `None`, not the first member ≥ min. -/
theorem C13_mm_first_after_outside (m : Mode) (r : RecMM) (s : TP) (hs : r.base.start = some s) (p : TP)
    (fuel : Nat) (hb : inBoundsMM m r p = false) :
    getFirstAfterMM m r p fuel = if tpLt m p s then some s else none := by
  unfold getFirstAfterMM
  simp only [hs, hb, Bool.false_eq_true, ↓reduceIte]

/-- Witnesses (`R5/2002-05-04T23:00Z/PT1H`, window [00:00Z, 02:00Z]):
    probe 22:00Z (before start) gets the start 23:00Z although that is before `min_point`;
    probe 23:30Z (after start, before min) gets `None` although 00:00Z, 01:00Z, 02:00Z follow;
    probe 00:30Z gets 01:00Z; probe 02:00Z (at max) gets `None`. -/
example :
    let r : RecMM := ⟨⟨some 5, some ⟨.cal 2002 5 4, 23, 0, 0, ⟨0, 0⟩⟩, some (.units 0 0 0 1 0 0),
      some ⟨.cal 2002 5 5, 3, 0, 0, ⟨0, 0⟩⟩, none, 3⟩, some ⟨.cal 2002 5 5, 0, 0, 0, ⟨0, 0⟩⟩,
      some ⟨.cal 2002 5 5, 2, 0, 0, ⟨0, 0⟩⟩⟩
    getFirstAfterMM .greg r ⟨.cal 2002 5 4, 22, 0, 0, ⟨0, 0⟩⟩ 10 = some ⟨.cal 2002 5 4, 23, 0, 0, ⟨0, 0⟩⟩ ∧
    getFirstAfterMM .greg r ⟨.cal 2002 5 4, 23, 30, 0, ⟨0, 0⟩⟩ 10 = none ∧
    getFirstAfterMM .greg r ⟨.cal 2002 5 5, 0, 30, 0, ⟨0, 0⟩⟩ 10 = some ⟨.cal 2002 5 5, 1, 0, 0, ⟨0, 0⟩⟩ ∧
    getFirstAfterMM .greg r ⟨.cal 2002 5 5, 2, 0, 0, ⟨0, 0⟩⟩ 10 = none := by
  decide +kernel

/-- `C13_mm_first_after_exact` at that recurrence, probe `2002-125T02:30+02:00` (= 00:30Z). -/
example := C13_mm_first_after_exact .greg
    ⟨⟨some 5, some ⟨.cal 2002 5 4, 23, 0, 0, ⟨0, 0⟩⟩, some (.units 0 0 0 1 0 0),
      some ⟨.cal 2002 5 5, 3, 0, 0, ⟨0, 0⟩⟩, none, 3⟩, some ⟨.cal 2002 5 5, 0, 0, 0, ⟨0, 0⟩⟩,
      some ⟨.cal 2002 5 5, 2, 0, 0, ⟨0, 0⟩⟩⟩
    (.units 0 0 0 1 0 0) 3600
    ⟨rfl, rfl, by decide, by decide, by decide, fun s h => by cases h; decide, fun e h => by cases h; decide⟩
    ⟨.cal 2002 5 4, 23, 0, 0, ⟨0, 0⟩⟩ rfl ⟨.ord 2002 125, 2, 30, 0, ⟨2, 0⟩⟩ (by decide) 10

end IsoDT.Props.C13
