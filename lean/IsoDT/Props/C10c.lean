/-
  C10 — durations survive a round trip through text: the date-time-like ALTERNATIVE spelling in its
  reduced, ordinal and date-only forms, with zones, inner signs, and the rule for a leading sign.

  `Model.DurTextAlt.parseAltDur` is the fallback of `DurationParser.parse` for EVERY text (the
  regenerated time-point templates, `TimePoint.__init__(is_duration=True)`, the `result_map`);
  `parseA` is `DurationParser.parse` (sign factor, designator regexes, fallback).  `Props/C10` covers
  the designator forms and the four COMPLETE alternative forms with whole seconds; here:

    * `C10_alt_forms`, `C10_alt_forms_date` : for every listed date form × time form × zone form of the
      table (table-driven, all field values that fit the widths) the fallback returns the duration with
      exactly the spelled components and ZERO for the omitted ones;
    * `C10_alt_reduced_*`   : the same through `DurationParser.parse`, family by family, with the
      designator spelling of the same duration;
    * `C10_alt_roundtrip`   : `parse(str(parse(text))) = parse(text)`;
    * `C10_alt_refused_*`   : week dates, truncated forms; what a zone and an inner sign do instead;
    * `C10_alt_sign_*`      : a leading `-` or `+`.
-/
import IsoDT.Lemmas.DurTextAltForms
import IsoDT.Lemmas.DurTextAltBounds

namespace IsoDT.Props.C10
open IsoDT IsoDT.Model IsoDT.Text IsoDT.Gen
open IsoDT.Model.DurText (toText renderW)
open IsoDT.Model.DurTextAlt IsoDT.Lemmas.DurTextAlt
open IsoDT.Lemmas.DurText (Digs ascii_append ascii_cons ascii_digs)
open IsoDT.Props.C07 (zoneText)
open _root_.IsoDT.Gen.Templates (parser_2_all)

/-! ## Every form of the table at once -/

/-- **C10 (alternative spelling, every `date T time zone` form)**: for every COMPLETE date form of the
    live table (calendar, ordinal, week; basic, extended; with or without sign and two expanded year
    digits), every time form of the same format without a decimal fraction (`hh`, `hhmm` / `hh:mm`,
    `hhmmss` / `hh:mm:ss`), every zone form of that format or none, and ALL field values that fit the
    group widths — month 00..99, day 00..99, ordinal day 000..999, hour 00..99, minute and second 00..99,
    nothing is bounds-checked — the fallback returns the duration with exactly the spelled components
    (`durOfVals`: years `±(10000·X + 100·CC + YY)`, months, days or ordinal days, hours, minutes,
    seconds; an omitted minute / second is ZERO).  The zone is parsed and then IGNORED; the text is
    refused exactly when the date is a week date or the zone minutes are 60 or more. -/
theorem C10_alt_forms (m : Mode)
    (de : Entry) (hde : de ∈ parser_2_all.dateEntries) (hdc : de.typ = .complete)
    (te : Entry) (hte : te ∈ parser_2_all.timeEntries) (htt : te.typ ≠ .truncated) (htf : te.fmt = de.fmt)
    (hnd : hasGroup te.tmpl .hourDec = false ∧ hasGroup te.tmpl .minuteDec = false ∧
      hasGroup te.tmpl .secondDec = false)
    (zo : Option ZEntry) (hzo : ∀ ze, zo = some ze → ze ∈ parser_2_all.zoneEntries ∧ ze.fmt = de.fmt)
    (v : Vals) (hv : v.Fit 2) :
    parseAltDur m (trender de.tmpl (envOf de.tmpl v) ++
        'T' :: (trender te.tmpl (envOf te.tmpl v) ++ zoneText zo v)) =
      if zoneAccepted zo v = true ∧ hasGroup de.tmpl .weekOfYear = false then
        .ok (durOfVals de.tmpl te.tmpl v)
      else .err :=
  parseAltDur_rendered m de hde hdc te hte htt htf hnd zo hzo v hv

/-- **C10 (alternative spelling, every date-only form)**: likewise for a date alone, complete or REDUCED
    (`CC`, `CCYY`, `CCYY-MM`, `CCYYMMDD`, `CCYY-MM-DD`, `CCYYDDD`, `CCYY-DDD` and their signed
    variants; the week forms are refused): months, days and every time component are ZERO unless
    spelled (`durOfVals _ []`), never "missing". -/
theorem C10_alt_forms_date (m : Mode) (de : Entry)
    (hmem : de ∈ dateOrder parser_2_all (dateTypes false [])) (v : Vals) (hv : v.Fit 2) :
    parseAltDur m (trender de.tmpl (envOf de.tmpl v)) =
      if hasGroup de.tmpl .weekOfYear = false then .ok (durOfVals de.tmpl [] v) else .err :=
  parseAltDur_date m de hmem v hv

-- non-vacuity: `-000004-03` (signed, two expanded digits, reduced) is years -4, months 3
example :
    (⟨.basic, .reduced, ['+', 'X', 'C', 'C', 'Y', 'Y', '-', 'M', 'M'],
        [.sign .yearSign, .digits .expandedYear 2, .digits .century 2, .digits .yearOfCentury 2, .lit '-',
         .digits .monthOfYear 2]⟩ : Entry) ∈ dateOrder parser_2_all (dateTypes false []) ∧
    Vals.Fit 2 { yearNeg := true, yy := 4, month := 3 } ∧
    parseAltDur .greg "-000004-03".toList = .ok (.units (-4) 3 0 0 0 0) := by
  refine ⟨by decide +kernel, by decide, by decide +kernel⟩

/-! ## The forms, family by family, through `DurationParser.parse` -/

/-- **C10_alt_reduced (year only)**: `PYYYY` is `PyY` — months, days, hours, minutes, seconds ZERO. -/
theorem C10_alt_reduced_year (m : Mode) (y : Nat) (hy : y < 10000) :
    AltSpelling m (renderW 4 y) (.units y 0 0 0 0 0) := by
  have h := alt_year m y hy
  rw [renderW_eq] at h ⊢
  have := altSpelling_of m (renderNat 4 y) [] y 0 0 0 0 0 (digs_renderNat 4 y) (by rw [renderNat_length]; decide)
    (Or.inl rfl) (by ascii_tac) (by decide) (by decide) (by decide) (by simpa using h)
  simpa using this

example : AltSpelling .greg "0004".toList (.units 4 0 0 0 0 0) ∧ toText (.units 4 0 0 0 0 0) = "P4Y".toList :=
  ⟨C10_alt_reduced_year .greg 4 (by decide), by decide +kernel⟩

/-- **C10_alt_reduced (century only)**: `PCC` is `P(100·CC)Y`: a two-digit alternative text is read as a
    century (`P20` = `P2000Y`). -/
theorem C10_alt_reduced_century (m : Mode) (c : Nat) (hc : c < 100) :
    AltSpelling m (renderW 2 c) (.units (100 * c) 0 0 0 0 0) := by
  have h := alt_century m c hc
  rw [renderW_eq] at h ⊢
  have := altSpelling_of m (renderNat 2 c) [] (100 * c) 0 0 0 0 0 (digs_renderNat 2 c)
    (by rw [renderNat_length]; decide) (Or.inl rfl) (by ascii_tac) (by decide) (by decide) (by decide)
    (by simpa using h)
  simpa using this

example : AltSpelling .d360 "20".toList (.units 2000 0 0 0 0 0) :=
  C10_alt_reduced_century .d360 20 (by decide)

/-- **C10_alt_reduced (year-month)**: `PYYYY-MM` is `PyYmoM` with days 0 (not "missing"), for every
    month 00–99. -/
theorem C10_alt_reduced_year_month (m : Mode) (y mo : Nat) (hy : y < 10000) (hmo : mo < 100) :
    AltSpelling m (renderW 4 y ++ '-' :: renderW 2 mo) (.units y mo 0 0 0 0) := by
  have h := alt_year_month m y mo hy hmo
  rw [renderW_eq, renderW_eq] at h ⊢
  exact altSpelling_of m (renderNat 4 y) _ y mo 0 0 0 0 (digs_renderNat 4 y) (by rw [renderNat_length]; decide)
    (Or.inr ⟨_, _, rfl, Or.inl rfl⟩) (by ascii_tac) (by decide) (by decide) (by decide) h

example : AltSpelling .greg "0004-03".toList (.units 4 3 0 0 0 0) ∧
    toText (.units 4 3 0 0 0 0) = "P4Y3M".toList ∧
    AltSpelling .greg "0004-00".toList (.units 4 0 0 0 0 0) ∧
    AltSpelling .greg "0004-13".toList (.units 4 13 0 0 0 0) :=
  ⟨C10_alt_reduced_year_month .greg 4 3 (by decide) (by decide), by decide +kernel,
   C10_alt_reduced_year_month .greg 4 0 (by decide) (by decide),
   C10_alt_reduced_year_month .greg 4 13 (by decide) (by decide)⟩

/-! ### complete dates: alone, with a reduced or complete time, with a zone -/

/-- **C10_alt_reduced (date alone)**: `PYYYY-MM-DD` / `PYYYYMMDD` is `PyYmoMdD`, `PYYYY-DDD` /
    `PYYYYDDD` is `PyYdddD` (months ZERO); hours, minutes, seconds ZERO — for month 00–99, day 00–99,
    ordinal day 000–999 (month 00 / 13, day 00 / 32, ordinal 000 / 367 are all legal here). -/
theorem C10_alt_reduced_date (m : Mode) (sp : DateSp) (y mo d ddd : Nat)
    (hy : y < 10000) (hmo : mo < 100) (hd : d < 100) (hddd : ddd < 1000) :
    AltSpelling m (sp.text y mo d ddd) (.units y (sp.months mo) (sp.days d ddd) 0 0 0) := by
  have hp := alt_date m sp y mo d ddd hy hmo hd hddd
  have hsplit := sp.text_split y mo d ddd []
  rw [List.append_nil] at hsplit
  rw [hsplit] at hp ⊢
  obtain ⟨h1, h2⟩ := sp.lead_digs y mo d ddd
  refine altSpelling_of m _ _ y (sp.months mo) (sp.days d ddd) 0 0 0 h1 h2 ?_ ?_ (by decide) (by decide)
    (by decide) hp
  · cases sp <;> simp [DateSp.trail]
  · rw [List.append_nil]; exact sp.trail_ascii mo d ddd

example : AltSpelling .greg "0004-03-02".toList (.units 4 3 2 0 0 0) ∧
    AltSpelling .greg "00040302".toList (.units 4 3 2 0 0 0) ∧
    AltSpelling .greg "0004-123".toList (.units 4 0 123 0 0 0) ∧
    AltSpelling .greg "0004123".toList (.units 4 0 123 0 0 0) ∧
    AltSpelling .d360 "0004-00-32".toList (.units 4 0 32 0 0 0) ∧
    AltSpelling .d360 "0004-367".toList (.units 4 0 367 0 0 0) :=
  ⟨C10_alt_reduced_date .greg .xc 4 3 2 0 (by decide) (by decide) (by decide) (by decide),
   C10_alt_reduced_date .greg .bc 4 3 2 0 (by decide) (by decide) (by decide) (by decide),
   C10_alt_reduced_date .greg .xo 4 0 0 123 (by decide) (by decide) (by decide) (by decide),
   C10_alt_reduced_date .greg .bo 4 0 0 123 (by decide) (by decide) (by decide) (by decide),
   C10_alt_reduced_date .d360 .xc 4 0 32 0 (by decide) (by decide) (by decide) (by decide),
   C10_alt_reduced_date .d360 .xo 4 0 0 367 (by decide) (by decide) (by decide) (by decide)⟩

/-- **C10_alt (date, time, zone)**: every complete date spelling followed by `T` and `hh`, `hh:mm` /
    `hhmm` or `hh:mm:ss` / `hhmmss`, and by no zone, `Z`, `±hh`, `±hh:mm` / `±hhmm` whose minutes are
    below 60: the duration has exactly the written components, the omitted minutes / seconds are ZERO,
    and the zone is IGNORED (`P0004-03-02T05+01:00` is `P4Y3M2DT5H`, like `P0004-03-02T05Z`). -/
theorem C10_alt_date_time_zone (m : Mode) (sp : DateSp) (t : TimeSp) (z : ZoneSp) (y mo d ddd h mi s : Nat)
    (hy : y < 10000) (hmo : mo < 100) (hd : d < 100) (hddd : ddd < 1000) (hh : h < 100) (hmi : mi < 100)
    (hs : s < 100) (hz : z.Fit) (hok : z.ok = true) :
    AltSpelling m (sp.text y mo d ddd ++ 'T' :: (t.text sp.ext h mi s ++ z.text sp.ext))
      (.units y (sp.months mo) (sp.days d ddd) h (t.minutes mi) (t.seconds s)) := by
  have hp := alt_date_time_zone m sp t z y mo d ddd h mi s hy hmo hd hddd hh hmi hs hz
  rw [hok, if_pos rfl, sp.text_split] at hp
  rw [sp.text_split]
  obtain ⟨h1, h2⟩ := sp.lead_digs y mo d ddd
  refine altSpelling_of m _ _ y (sp.months mo) (sp.days d ddd) h (t.minutes mi) (t.seconds s) h1 h2 ?_ ?_ hh
    (by cases t <;> simp only [TimeSp.minutes] <;> omega) (by cases t <;> simp only [TimeSp.seconds] <;> omega) hp
  · rcases sp.trail_shape mo d ddd (t.text sp.ext h mi s ++ z.text sp.ext) with e | e
    · exact Or.inr ⟨'T', _, e, Or.inr rfl⟩
    · exact Or.inr e
  · exact ascii_append (sp.trail_ascii mo d ddd)
      (ascii_cons (by decide) (ascii_append (t.text_ascii _ h mi s) (z.text_ascii _)))

/-- … and with zone minutes of 60 or more the text is refused (`TimeZone(...)` checks its bounds even
    though the zone is not used). -/
theorem C10_alt_date_time_bad_zone (m : Mode) (sp : DateSp) (t : TimeSp) (z : ZoneSp) (y mo d ddd h mi s : Nat)
    (hy : y < 10000) (hmo : mo < 100) (hd : d < 100) (hddd : ddd < 1000) (hh : h < 100) (hmi : mi < 100)
    (hs : s < 100) (hz : z.Fit) (hok : z.ok = false) :
    parseA m ('P' :: (sp.text y mo d ddd ++ 'T' :: (t.text sp.ext h mi s ++ z.text sp.ext))) = .err := by
  have hp := alt_date_time_zone m sp t z y mo d ddd h mi s hy hmo hd hddd hh hmi hs hz
  rw [hok, if_neg (by decide), sp.text_split] at hp
  rw [sp.text_split]
  obtain ⟨h1, h2⟩ := sp.lead_digs y mo d ddd
  refine (parseA_of_alt m _ _ _ h1 h2 ?_ ?_ hp).1
  · rcases sp.trail_shape mo d ddd (t.text sp.ext h mi s ++ z.text sp.ext) with e | e
    · exact Or.inr ⟨'T', _, e, Or.inr rfl⟩
    · exact Or.inr e
  · exact ascii_append (sp.trail_ascii mo d ddd)
      (ascii_cons (by decide) (ascii_append (t.text_ascii _ h mi s) (z.text_ascii _)))

/-- **C10_alt_reduced (date + hour)**: `PYYYY-MM-DDThh` (and the basic / ordinal spellings) is
    `PyYmoMdDThH`: minutes and seconds ZERO; hour 00–99 (24, 25 are legal here). -/
theorem C10_alt_reduced_date_hour (m : Mode) (sp : DateSp) (y mo d ddd h : Nat)
    (hy : y < 10000) (hmo : mo < 100) (hd : d < 100) (hddd : ddd < 1000) (hh : h < 100) :
    AltSpelling m (sp.text y mo d ddd ++ 'T' :: renderW 2 h)
      (.units y (sp.months mo) (sp.days d ddd) h 0 0) := by
  have := C10_alt_date_time_zone m sp .h .none y mo d ddd h 0 0 hy hmo hd hddd hh (by decide) (by decide)
    trivial rfl
  simpa [TimeSp.text, ZoneSp.text, TimeSp.minutes, TimeSp.seconds] using this

/-- **C10_alt_reduced (date + hour:minute)**: `PYYYY-MM-DDThh:mm` / `PYYYYMMDDThhmm` (and the ordinal
    spellings) is `PyYmoMdDThHmiM`: seconds ZERO; minute 00–99 (60 is legal here). -/
theorem C10_alt_reduced_date_hour_minute (m : Mode) (sp : DateSp) (y mo d ddd h mi : Nat)
    (hy : y < 10000) (hmo : mo < 100) (hd : d < 100) (hddd : ddd < 1000) (hh : h < 100) (hmi : mi < 100) :
    AltSpelling m (sp.text y mo d ddd ++ 'T' :: TimeSp.text sp.ext .hm h mi 0)
      (.units y (sp.months mo) (sp.days d ddd) h mi 0) := by
  have := C10_alt_date_time_zone m sp .hm .none y mo d ddd h mi 0 hy hmo hd hddd hh hmi (by decide)
    trivial rfl
  simpa [ZoneSp.text, TimeSp.minutes, TimeSp.seconds] using this

example : AltSpelling .greg "0004-03-02T05".toList (.units 4 3 2 5 0 0) ∧
    AltSpelling .greg "00040302T05".toList (.units 4 3 2 5 0 0) ∧
    AltSpelling .greg "0004-062T25".toList (.units 4 0 62 25 0 0) ∧
    AltSpelling .greg "0004-03-02T05:06".toList (.units 4 3 2 5 6 0) ∧
    AltSpelling .greg "00040302T0560".toList (.units 4 3 2 5 60 0) ∧
    toText (.units 4 3 2 5 6 0) = "P4Y3M2DT5H6M".toList :=
  ⟨C10_alt_reduced_date_hour .greg .xc 4 3 2 0 5 (by decide) (by decide) (by decide) (by decide) (by decide),
   C10_alt_reduced_date_hour .greg .bc 4 3 2 0 5 (by decide) (by decide) (by decide) (by decide) (by decide),
   C10_alt_reduced_date_hour .greg .xo 4 0 0 62 25 (by decide) (by decide) (by decide) (by decide) (by decide),
   C10_alt_reduced_date_hour_minute .greg .xc 4 3 2 0 5 6 (by decide) (by decide) (by decide) (by decide)
     (by decide) (by decide),
   C10_alt_reduced_date_hour_minute .greg .bc 4 3 2 0 5 60 (by decide) (by decide) (by decide) (by decide)
     (by decide) (by decide),
   by decide +kernel⟩

-- the zone is ignored: `P0004-03-02T05:06-01:00` = `P0004-03-02T05:06` = P4Y3M2DT5H6M; minutes 60: refused
example : AltSpelling .greg "0004-03-02T05:06-01:00".toList (.units 4 3 2 5 6 0) ∧
    AltSpelling .greg "00040302T05Z".toList (.units 4 3 2 5 0 0) ∧
    parseA .greg "P0004-03-02T05:06+01:60".toList = .err :=
  ⟨C10_alt_date_time_zone .greg .xc .hm (.hhmm true 1 0) 4 3 2 0 5 6 0 (by decide) (by decide) (by decide)
     (by decide) (by decide) (by decide) (by decide) ⟨by decide, by decide⟩ rfl,
   C10_alt_date_time_zone .greg .bc .h .utc 4 3 2 0 5 0 0 (by decide) (by decide) (by decide)
     (by decide) (by decide) (by decide) (by decide) trivial rfl,
   C10_alt_date_time_bad_zone .greg .xc .hm (.hhmm false 1 60) 4 3 2 0 5 6 0 (by decide) (by decide) (by decide)
     (by decide) (by decide) (by decide) (by decide) ⟨by decide, by decide⟩ rfl⟩

/-- The complete forms with whole seconds of `Props/C10` (`C10_alt`, `C10_alt_canonical`) are the
    instance `hh:mm:ss` / `hhmmss`, no zone: the two models agree there. -/
theorem C10_alt_complete (m : Mode) (sp : DateSp) (y mo d ddd h mi s : Nat)
    (hy : y < 10000) (hmo : mo < 100) (hd : d < 100) (hddd : ddd < 1000) (hh : h < 100) (hmi : mi < 100)
    (hs : s < 100) :
    AltSpelling m (sp.text y mo d ddd ++ 'T' :: TimeSp.text sp.ext .hms h mi s)
      (.units y (sp.months mo) (sp.days d ddd) h mi s) := by
  have := C10_alt_date_time_zone m sp .hms .none y mo d ddd h mi s hy hmo hd hddd hh hmi hs trivial rfl
  simpa [ZoneSp.text, TimeSp.minutes, TimeSp.seconds] using this

example (m : Mode) (Y M D h mi s : Nat) (hY : Y < 10000) (hM : M < 100) (hD : D < 100)
    (hh : h < 100) (hmi : mi < 100) (hs : s < 100) :
    parseA m ('P' :: IsoDT.Lemmas.DurText.altXC (renderW 4 Y) (renderW 2 M) (renderW 2 D) (renderW 2 h)
      (renderW 2 mi) (renderW 2 s)) = .ok (.units Y M D h mi s) ∧
    DurText.parse m ('P' :: IsoDT.Lemmas.DurText.altXC (renderW 4 Y) (renderW 2 M) (renderW 2 D) (renderW 2 h)
      (renderW 2 mi) (renderW 2 s)) = .ok (.units Y M D h mi s) :=
  ⟨(C10_alt_complete m .xc Y M D 0 h mi s hY hM hD (by decide) hh hmi hs).alt,
   (C10_alt_canonical m Y M D h mi s hY hM hD hh hmi hs).1⟩

/-- **C10_alt_reduced**: the family statements in one — year only; year-month; date (calendar or
    ordinal, extended or basic); date + hour; date + hour:minute.  Each alternative text denotes exactly
    the duration with the written components and ZERO for the omitted ones, which is also what its
    designator spelling `str()` denotes; with a leading `-` or `+` each is refused. -/
theorem C10_alt_reduced (m : Mode) (sp : DateSp) (y mo d ddd h mi : Nat)
    (hy : y < 10000) (hmo : mo < 100) (hd : d < 100) (hddd : ddd < 1000) (hh : h < 100) (hmi : mi < 100) :
    AltSpelling m (renderW 4 y) (.units y 0 0 0 0 0) ∧
    AltSpelling m (renderW 4 y ++ '-' :: renderW 2 mo) (.units y mo 0 0 0 0) ∧
    AltSpelling m (sp.text y mo d ddd) (.units y (sp.months mo) (sp.days d ddd) 0 0 0) ∧
    AltSpelling m (sp.text y mo d ddd ++ 'T' :: renderW 2 h) (.units y (sp.months mo) (sp.days d ddd) h 0 0) ∧
    AltSpelling m (sp.text y mo d ddd ++ 'T' :: TimeSp.text sp.ext .hm h mi 0)
      (.units y (sp.months mo) (sp.days d ddd) h mi 0) :=
  ⟨C10_alt_reduced_year m y hy, C10_alt_reduced_year_month m y mo hy hmo,
   C10_alt_reduced_date m sp y mo d ddd hy hmo hd hddd,
   C10_alt_reduced_date_hour m sp y mo d ddd h hy hmo hd hddd hh,
   C10_alt_reduced_date_hour_minute m sp y mo d ddd h mi hy hmo hd hddd hh hmi⟩

example : AltSpelling .d366 (DateSp.bo.text 4 0 0 366 ++ 'T' :: TimeSp.text false .hm 24 0 0)
    (.units 4 0 366 24 0 0) ∧ DateSp.bo.text 4 0 0 366 ++ 'T' :: TimeSp.text false .hm 24 0 0 = "0004366T2400".toList :=
  ⟨(C10_alt_reduced .d366 .bo 4 0 0 366 24 0 (by decide) (by decide) (by decide) (by decide) (by decide)
    (by decide)).2.2.2.2, by decide +kernel⟩

/-! ## C10_alt_roundtrip -/

/-- **C10_alt_roundtrip**: for EVERY text the fallback accepts with whole components — no assumption on
    its shape — the result `D` is a unit-form duration whose months, days, hours, minutes, seconds are
    non-negative numbers, the last three below 100 (`parseAltDur_ok_bounds`); and if `D` is single-signed
    (always, unless an inner `-` made the years negative next to a positive component), then `str(D)` —
    always the designator form — parses back to the very same `D`, through `parseA` and through
    `DurText.parse` (`C10_roundtrip`; the binary64 side condition holds since the time units are below
    100), `D == D` and `str` is a fixpoint. -/
theorem C10_alt_roundtrip (m : Mode) (rest : List Char) (D : Dur) (h : parseAltDur m rest = .ok D)
    (hs : SingleSigned D) :
    parseA m (toText D) = .ok D ∧ DurText.parse m (toText D) = .ok D ∧ normal D = D ∧
    Dur.eq m D D = true ∧ TimeExact D := by
  obtain ⟨y, mo, d, hh, mi, sec, rfl, _, _, h1, h2, h3, h4, h5, h6⟩ := parseAltDur_ok_bounds m rest D h
  have hx : TimeExact (.units y mo d hh mi sec) :=
    timeExact_of_lt _ _ _ _ _ _ (by omega) (by omega) (by omega)
  have hn := normal_units y mo d hh mi sec
  have r1 := parseA_str m _ hs hx
  have r2 := C10_roundtrip m _ hs hx
  rw [hn] at r1 r2
  exact ⟨r1, r2.1, hn, r2.2.1, hx⟩

/-- **No `None` component**: the time point the fallback builds is never truncated and always has its
    year and hour, for EVERY text — so the `Duration(**result_map)` it feeds never gets `years=None` or
    `hours=None`; months / days are either given or left at the constructor's default 0 (`days=None`
    of `PYYYY-MM` becomes 0: `C10_alt_reduced_year_month`), minutes / seconds likewise. -/
theorem C10_alt_no_missing_component (m : Mode) (s : List Char) (p : XTP) (h : parseAltTP m s = some p) :
    p.truncated = false ∧ (∃ y, p.year = some y) ∧ (∃ hh, p.hour = some hh) := by
  obtain ⟨h1, h2, h3⟩ := parseAltTP_complete m s p h
  exact ⟨h1, Option.isSome_iff_exists.mp h2, Option.isSome_iff_exists.mp h3⟩

example : (parseAltTP .greg "0004-03".toList).map (fun p => (p.truncated, p.year, p.month, p.day, p.hour)) =
    some (false, some 4, some 3, none, some 0) := by decide +kernel

/-- When is the result single-signed?  Exactly when the years are not negative, or nothing but the years
    is set. -/
theorem C10_alt_singleSigned_iff (m : Mode) (rest : List Char) (y mo d hh mi sec : Int)
    (h : parseAltDur m rest = .ok (.units y mo d hh mi sec)) :
    SingleSigned (.units y mo d hh mi sec) ↔ (0 ≤ y ∨ (mo = 0 ∧ d = 0 ∧ hh = 0 ∧ mi = 0 ∧ sec = 0)) := by
  obtain ⟨y', mo', d', hh', mi', sec', e, g1, g2, g3, _, g4, _, g5, _⟩ := parseAltDur_ok_bounds m rest _ h
  injection e with e1 e2 e3 e4 e5 e6
  subst e1 e2 e3 e4 e5 e6
  simp only [SingleSigned]
  omega

example : parseAltDur .greg "0004-03".toList = .ok (.units 4 3 0 0 0 0) ∧
    toText (.units 4 3 0 0 0 0) = "P4Y3M".toList ∧
    parseA .greg "P4Y3M".toList = .ok (.units 4 3 0 0 0 0) ∧ normal (.units 4 3 0 0 0 0) = .units 4 3 0 0 0 0 := by
  refine ⟨by decide +kernel, by decide +kernel, by decide +kernel, by decide⟩

/-- The single-signedness hypothesis is needed: an inner minus sign (expanded-year form) gives a
    MIXED-sign duration — years negative, months and days positive — whose `str()` (`P-4Y3M2D`) no
    parser path accepts.  `P-000004-03-02` is outside C10's "well-formed duration strings", but the
    code accepts it; recorded as a finding. -/
theorem C10_alt_roundtrip_counter_inner_sign :
    parseA .greg "P-000004-03-02".toList = .ok (.units (-4) 3 2 0 0 0) ∧
    ¬ SingleSigned (.units (-4) 3 2 0 0 0) ∧
    toText (.units (-4) 3 2 0 0 0) = "P-4Y3M2D".toList ∧
    parseA .greg "P-4Y3M2D".toList = .err := by
  refine ⟨by decide +kernel, ?_, by decide +kernel, by decide +kernel⟩
  intro h
  rcases h with ⟨h, _⟩ | ⟨_, h, _⟩ <;> exact absurd h (by decide)

/-! ## C10_alt_refused -/

/-- **C10_alt_refused (week dates)**: every week-date spelling (`P0000-W01-1`, `P0000W011`, `P0000-W01`,
    `P0000W01`; any year, week 00–99, weekday 0–9) is refused by `DurationParser.parse`, with or without
    a leading `-`. -/
theorem C10_alt_refused_week (m : Mode) (sp : WeekSp) (y w k : Nat) (hy : y < 10000) (hw : w < 100) (hk : k < 10) :
    parseA m ('P' :: sp.text y w k) = .err ∧ parseA m ('-' :: 'P' :: sp.text y w k) = .err := by
  have hv : ({ cc := y / 100, yy := y % 100, week := w, dow := k } : Vals).Fit 2 := by
    simp only [Vals.Fit]
    refine ⟨by decide, by omega, by omega, by decide, by decide, by decide, hw, hk, by decide, by decide,
      by decide, by decide, by decide, ⟨by decide, by decide⟩, ⟨by decide, by decide⟩, ⟨by decide, by decide⟩⟩
  have key := C10_alt_forms_date m sp.entry (by cases sp <;> decide +kernel)
    { cc := y / 100, yy := y % 100, week := w, dow := k } hv
  have hweek : hasGroup sp.entry.tmpl .weekOfYear = true := by cases sp <;> rfl
  rw [hweek, if_neg (by decide)] at key
  cases sp
  · -- YYYY-Www-D
    have ht : parseAltDur m (renderNat 4 y ++ '-' :: 'W' :: (renderNat 2 w ++ '-' :: renderNat 1 k)) = .err := by
      simpa [WeekSp.entry, trender, envOf, Vals.nat, render_year_app] using key
    have := parseA_of_alt m (renderNat 4 y) _ _ (digs_renderNat 4 y) (by rw [renderNat_length]; decide)
      (Or.inr ⟨_, _, rfl, Or.inl rfl⟩) (by ascii_tac) ht
    simp only [WeekSp.text, renderW_eq]
    exact ⟨this.1, this.2.1⟩
  · -- YYYYWwwD
    have ht : parseAltDur m (renderNat 4 y ++ 'W' :: (renderNat 2 w ++ renderNat 1 k)) = .err := by
      simpa [WeekSp.entry, trender, envOf, Vals.nat, render_year_app] using key
    have := parseA_of_alt_W m (renderNat 4 y) (renderNat 1 k) w _ (digs_renderNat 4 y)
      (by rw [renderNat_length]; decide) (by ascii_tac) ht
    simp only [WeekSp.text, renderW_eq]
    exact this
  · -- YYYY-Www
    have ht : parseAltDur m (renderNat 4 y ++ '-' :: 'W' :: renderNat 2 w) = .err := by
      simpa [WeekSp.entry, trender, envOf, Vals.nat, render_year_app] using key
    have := parseA_of_alt m (renderNat 4 y) _ _ (digs_renderNat 4 y) (by rw [renderNat_length]; decide)
      (Or.inr ⟨_, _, rfl, Or.inl rfl⟩) (by ascii_tac) ht
    simp only [WeekSp.text, renderW_eq]
    exact ⟨this.1, this.2.1⟩
  · -- YYYYWww
    have ht : parseAltDur m (renderNat 4 y ++ 'W' :: (renderNat 2 w ++ [])) = .err := by
      simpa [WeekSp.entry, trender, envOf, Vals.nat, render_year_app] using key
    have := parseA_of_alt_W m (renderNat 4 y) [] w _ (digs_renderNat 4 y)
      (by rw [renderNat_length]; decide) (by ascii_tac) ht
    simp only [WeekSp.text, renderW_eq]
    simpa [AltR.toAR] using this

example : parseA .greg "P0000-W01-1".toList = .err ∧ parseA .greg "P0000W011".toList = .err :=
  ⟨(C10_alt_refused_week .greg .xw 0 1 1 (by decide) (by decide) (by decide)).1,
   (C10_alt_refused_week .greg .bw 0 1 1 (by decide) (by decide) (by decide)).1⟩

/-- A complete week date in front of a time is refused as well (any time form, any zone): instance of
    `C10_alt_forms`. -/
theorem C10_alt_refused_week_time (m : Mode)
    (de : Entry) (hde : de ∈ parser_2_all.dateEntries) (hdc : de.typ = .complete)
    (hw : hasGroup de.tmpl .weekOfYear = true)
    (te : Entry) (hte : te ∈ parser_2_all.timeEntries) (htt : te.typ ≠ .truncated) (htf : te.fmt = de.fmt)
    (hnd : hasGroup te.tmpl .hourDec = false ∧ hasGroup te.tmpl .minuteDec = false ∧
      hasGroup te.tmpl .secondDec = false)
    (zo : Option ZEntry) (hzo : ∀ ze, zo = some ze → ze ∈ parser_2_all.zoneEntries ∧ ze.fmt = de.fmt)
    (v : Vals) (hv : v.Fit 2) :
    parseAltDur m (trender de.tmpl (envOf de.tmpl v) ++
        'T' :: (trender te.tmpl (envOf te.tmpl v) ++ zoneText zo v)) = .err := by
  rw [C10_alt_forms m de hde hdc te hte htt htf hnd zo hzo v hv, hw]
  simp

example : parseA .greg "P0000-W01-1T05:06".toList = .err ∧ parseA .greg "P0000W011T05".toList = .err := by
  refine ⟨by decide +kernel, by decide +kernel⟩

/-- **C10_alt_refused (truncated forms)**: `allow_truncated=False` — no truncated date form of the table
    is ever tried.  Every truncated date form except `-YYMM` spells only texts that no complete or
    reduced form matches (decided over the regenerated table by the shape check `refusedShape`) … -/
theorem C10_alt_truncated_shapes : ∀ e ∈ parser_2_all.dateEntries, e.typ = .truncated →
    e.expr ≠ ['-', 'Y', 'Y', 'M', 'M'] → refusedShape e.tmpl = true := by
  decide +kernel

/-- … so every text of such a form (`P04-03-02`, `P040302`, `P04123`, `P-04`, `P--0302`, `P---02`,
    `P-123`, `P04W011`, `P-W011`, …: any digits), alone or in front of `T…`, is refused by the
    fallback; so is the empty date (`PT05`). -/
theorem C10_alt_refused_truncated (m : Mode) (e : Entry) (he : e ∈ parser_2_all.dateEntries)
    (ht : e.typ = .truncated) (hx : e.expr ≠ ['-', 'Y', 'Y', 'M', 'M']) (env : Env)
    (hf : fits e.tmpl env = true) :
    parseAltDur m (trender e.tmpl env) = .err ∧
      ∀ tail, 'T' ∉ tail → parseAltDur m (trender e.tmpl env ++ 'T' :: tail) = .err :=
  parseAltDur_refused_shape m e.tmpl (C10_alt_truncated_shapes e he ht hx) env hf

theorem C10_alt_refused_empty_date (m : Mode) (tail : List Char) (h : 'T' ∉ tail) :
    parseAltDur m ('T' :: tail) = .err := by
  have := (parseAltDur_refused_shape m [] (by decide +kernel) [] rfl).2 tail h
  simpa [trender] using this

example : parseA .greg "P04-03-02".toList = .err ∧ parseA .greg "P040302".toList = .err ∧
    parseA .greg "P04123".toList = .err ∧ parseA .greg "P-04".toList = .err ∧
    parseA .greg "P--0302".toList = .err ∧ parseA .greg "P---02".toList = .err ∧
    parseA .greg "P-123".toList = .err ∧ parseA .greg "P04-03-02T05".toList = .err ∧
    parseA .greg "PT05".toList = .err ∧ parseA .greg "P0004-03-02T-06".toList = .err ∧
    parseA .greg "P0004-03T05".toList = .err ∧ parseA .greg "P0004T05".toList = .err := by
  refine ⟨by decide +kernel, by decide +kernel, by decide +kernel, by decide +kernel, by decide +kernel,
    by decide +kernel, by decide +kernel, by decide +kernel, by decide +kernel, by decide +kernel,
    by decide +kernel, by decide +kernel⟩

/-- … while the truncated form `-YYMM` is NOT refused: with two expanded year digits `-YYMM` is also
    `±XCC` (sign, two expanded digits, century), so `P-0403` is minus 40300 YEARS (and `P-0004` is
    minus 400 years, `P+0004` plus 400 years).  A finding: an accidental, enormous duration. -/
theorem C10_alt_signed_century (m : Mode) (neg : Bool) (x c : Nat) (hx : x < 100) (hc : c < 100) :
    parseAltDur m (sgnChar neg :: (renderW 2 x ++ renderW 2 c)) =
      .ok (.units ((if neg then -1 else 1) * (10000 * x + 100 * c)) 0 0 0 0 0) := by
  have hv : ({ yearNeg := neg, x := x, cc := c } : Vals).Fit 2 := by
    simp only [Vals.Fit]
    refine ⟨hx, hc, by decide, by decide, by decide, by decide, by decide, by decide, by decide, by decide,
      by decide, by decide, by decide, ⟨by decide, by decide⟩, ⟨by decide, by decide⟩, ⟨by decide, by decide⟩⟩
  have key := C10_alt_forms_date m
    ⟨.basic, .reduced, ['+', 'X', 'C', 'C'], [.sign .yearSign, .digits .expandedYear 2, .digits .century 2]⟩
    (by decide +kernel) { yearNeg := neg, x := x, cc := c } hv
  cases neg <;>
    simp [trender, envOf, Vals.nat, Vals.neg, durOfVals, yearOf, monthOf, daysOf, hourOf, minuteOf,
      secondOf, hasGroup, groupFields] at key <;>
    simp [sgnChar, renderW_eq, key] <;> omega

theorem C10_alt_truncated_collision :
    parseA .greg "P-0403".toList = .ok (.units (-40300) 0 0 0 0 0) ∧
    parseA .greg "P-0004".toList = .ok (.units (-400) 0 0 0 0 0) ∧
    parseA .greg "P+0004".toList = .ok (.units 400 0 0 0 0 0) ∧
    toText (.units (-40300) 0 0 0 0 0) = "-P40300Y".toList := by
  refine ⟨by decide +kernel, by decide +kernel, by decide +kernel, by decide +kernel⟩

/-- **Zones and inner signs are NOT refused** (the rest of `C10_alt_refused`, stated as what the code
    returns): a zone is parsed, bounds-checked and ignored (`C10_alt_date_time_zone`,
    `C10_alt_date_time_bad_zone`); an inner sign in front of SIX year digits is the sign of an expanded
    year and negates the YEARS only (`C10_alt_forms` / `C10_alt_forms_date`: `yearOf`). -/
theorem C10_alt_zone_and_inner_sign_witnesses :
    parseA .greg "P0004-03-02T05Z".toList = .ok (.units 4 3 2 5 0 0) ∧
    parseA .greg "P0004-03-02T05+01".toList = .ok (.units 4 3 2 5 0 0) ∧
    parseA .greg "P00040302T0506-0100".toList = .ok (.units 4 3 2 5 6 0) ∧
    parseA .greg "P0004-03-02T05:06:07+99:99".toList = .err ∧
    parseA .greg "P+000004-03-02".toList = .ok (.units 4 3 2 0 0 0) ∧
    parseA .greg "P-000004-03-02".toList = .ok (.units (-4) 3 2 0 0 0) ∧
    parseA .greg "P-000004".toList = .ok (.units (-4) 0 0 0 0 0) ∧
    parseA .greg "P-0000-00-01T00".toList = .err ∧ parseA .greg "P+0000-00-01T00".toList = .err := by
  refine ⟨by decide +kernel, by decide +kernel, by decide +kernel, by decide +kernel, by decide +kernel,
    by decide +kernel, by decide +kernel, by decide +kernel, by decide +kernel⟩

/-- **C10_alt_refused**: week dates and truncated forms are refused (zones and inner signs are not: see
    above what they do). -/
theorem C10_alt_refused (m : Mode) (wsp : WeekSp) (y w k : Nat) (hy : y < 10000) (hw : w < 100) (hk : k < 10)
    (e : Entry) (he : e ∈ parser_2_all.dateEntries) (ht : e.typ = .truncated)
    (hx : e.expr ≠ ['-', 'Y', 'Y', 'M', 'M']) (env : Env) (hf : fits e.tmpl env = true) :
    parseA m ('P' :: wsp.text y w k) = .err ∧ parseA m ('-' :: 'P' :: wsp.text y w k) = .err ∧
    parseAltDur m (trender e.tmpl env) = .err ∧
    (∀ tail, 'T' ∉ tail → parseAltDur m (trender e.tmpl env ++ 'T' :: tail) = .err) :=
  ⟨(C10_alt_refused_week m wsp y w k hy hw hk).1, (C10_alt_refused_week m wsp y w k hy hw hk).2,
   (C10_alt_refused_truncated m e he ht hx env hf).1, (C10_alt_refused_truncated m e he ht hx env hf).2⟩

-- non-vacuity: `YY-MM-DD` is a truncated entry other than `-YYMM`, and `04-03-02` fits it
example :
    (⟨.extended, .truncated, ['Y', 'Y', '-', 'M', 'M', '-', 'D', 'D'],
        [.digits .yearOfCentury 2, .lit '-', .digits .monthOfYear 2, .lit '-', .digits .dayOfMonth 2]⟩ : Entry) ∈
      parser_2_all.dateEntries ∧
    fits [.digits .yearOfCentury 2, .lit '-', .digits .monthOfYear 2, .lit '-', .digits .dayOfMonth 2]
      [(.yearOfCentury, ['0', '4']), (.monthOfYear, ['0', '3']), (.dayOfMonth, ['0', '2'])] = true ∧
    trender [.digits .yearOfCentury 2, .lit '-', .digits .monthOfYear 2, .lit '-', .digits .dayOfMonth 2]
      [(.yearOfCentury, ['0', '4']), (.monthOfYear, ['0', '3']), (.dayOfMonth, ['0', '2'])] = "04-03-02".toList := by
  refine ⟨by decide +kernel, by decide +kernel, by decide +kernel⟩

/-! ## C10_alt_sign -/

/-- **C10_alt_sign (minus)**: `DurationParser.parse("-P…")` negates designator forms (`C10_designators`),
    but for every text that only the fallback could read — no designator regex matches `P…` — a leading
    `-` makes the parser skip the fallback ("don't allow our negative extension") and raise: there is no
    negative alternative spelling. -/
theorem C10_alt_sign_minus (m : Mode) (s : List Char) (hasc : ∀ c ∈ s, c.toNat < 128)
    (hnone : DurText.firstMatch durRegexes ('P' :: s) = none) :
    parseA m ('-' :: 'P' :: s) = .err ∧ parseA m ('P' :: s) = (parseAltDur m s).toAR :=
  ⟨parseA_minus_alt m s hasc hnone, parseA_alt m s hasc hnone⟩

/-- **C10_alt_sign (plus)**: a leading `+` is refused for EVERY text — designator or alternative: the
    regexes are anchored at `P` and the fallback needs `expression.startswith("P")`. -/
theorem C10_alt_sign_plus (m : Mode) (s : List Char) (hasc : ∀ c ∈ s, c.toNat < 128) :
    parseA m ('+' :: s) = .err :=
  parseA_plus m s hasc

/-- **C10_alt_sign**: both rules in one. -/
theorem C10_alt_sign (m : Mode) (s : List Char) (hasc : ∀ c ∈ s, c.toNat < 128)
    (hnone : DurText.firstMatch durRegexes ('P' :: s) = none) :
    parseA m ('P' :: s) = (parseAltDur m s).toAR ∧ parseA m ('-' :: 'P' :: s) = .err ∧
    parseA m ('+' :: 'P' :: s) = .err :=
  ⟨parseA_alt m s hasc hnone, parseA_minus_alt m s hasc hnone,
   parseA_plus m _ (IsoDT.Lemmas.DurText.ascii_cons (by decide) hasc)⟩

/-- The witnesses: `-P0000-00-01T00` and `+P0000-00-01T00` are refused, `P0000-00-01T00` is one day;
    the designator form takes the minus (`-P1D`), not the plus. -/
theorem C10_alt_sign_witnesses :
    parseA .greg "-P0000-00-01T00".toList = .err ∧
    parseA .greg "+P0000-00-01T00".toList = .err ∧
    parseA .greg "P0000-00-01T00".toList = .ok (.units 0 0 1 0 0 0) ∧
    parseA .greg "-P1D".toList = .ok (.units 0 0 (-1) 0 0 0) ∧
    parseA .greg "+P1D".toList = .err ∧
    DurText.firstMatch durRegexes "P0000-00-01T00".toList = none := by
  refine ⟨by decide +kernel, by decide +kernel, by decide +kernel, by decide +kernel, by decide +kernel,
    by decide +kernel⟩

example : (∀ c ∈ "0000-00-01T00".toList, c.toNat < 128) ∧
    parseA .d360 "-P0000-00-01T00".toList = .err :=
  ⟨by decide, (C10_alt_sign_minus .d360 "0000-00-01T00".toList (by decide) (by decide +kernel)).1⟩

end IsoDT.Props.C10
