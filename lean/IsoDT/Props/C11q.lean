/-
  C11 (decimal components) — Duration arithmetic, equality, ordering and hashing are coherent, as
  ALGORITHMS over exact rationals.

  `Model.DurationQ` is `Duration` with the components the constructor allows to carry a fraction
  (hours, minutes, seconds) in `Rat`, and the whole ones (years, months, weeks, days) in `Int`;
  its functions run the statements of `Duration.__add__`, `__sub__`, `__mul__`, `__floordiv__`,
  `__abs__`, `__eq__`, `__hash__`, the ordering operators, `get_days_and_seconds`, `get_seconds`,
  `to_days`, `to_weeks` and the `standardize` block of `__init__` over exact rationals.  Proved
  here, for all four calendar modes and ALL component values (any size, either sign, any
  fraction):

  * `C11q_eq_iff`, `C11q_eq_equivalence`, `C11q_exact_eq_by_length`, `C11q_exact_ne_nominal`:
    `==` holds exactly when years, months and the exact length match;
  * `C11q_hash`, `C11q_hash_iff`: equal durations hash the same tuple (and conversely);
  * `C11q_add_comm`, `C11q_add_assoc` (field for field), `C11q_add_zero`, `C11q_add_inverse`,
    `C11q_sub`, `C11q_mul_is_repeated_add`, `C11q_mul_neg_is_repeated_add`, `C11q_mul_fieldwise`;
  * `C11q_units`, `C11q_units_frac`, `C11q_constructor`, `C11q_constructor_accepts`,
    `C11q_standardize`, `C11q_abs`, `C11q_floordiv`;
  * `C11q_order`, `C11q_order_mutual`, `C11q_order_consistent_with_eq`,
    `C11q_exact_order_by_length`, `C11q_das_floor_split`, `C11q_get_seconds`;
  * `C11_rat_extends_int`: on durations with whole components every operation coincides with the
    integer model of `Props/C11.lean` (whose theorems are therefore the instances at `ofDur`).

  What this does NOT say: anything about binary rounding in the real float computation.  On
  floats the laws hold only while every intermediate value is exactly representable — e.g.
  `Duration(days=100000, seconds=2**-20) == Duration(days=100000)` is `True` in Python (the sum
  `8640000000 + 2**-20` rounds) although `>` between the same two is also `True`; over `Rat`
  (`C11q_order_consistent_with_eq`) that cannot happen.
-/
import IsoDT.Lemmas.DurationQ

namespace IsoDT.Props.C11q
open IsoDT IsoDT.Model IsoDT.Lemmas IsoDT.Lemmas.DQ

/-! ## equality and hashing -/

/-- `==` on durations: equal exactly when years, months and the exact remainder
    (`_get_non_nominal_seconds`, a rational) all match. -/
theorem C11q_eq_iff (m : Mode) (a b : DurationQ) :
    DurationQ.eq m a b = true ↔ ym a = ym b ∧ a.exactSeconds m = b.exactSeconds m := by
  rw [eq_iff, exactSeconds_eq, exactSeconds_eq]

/-- The exact remainder is 604800 s per week, 86400 per day, 3600 per hour, 60 per minute, whatever
    the calendar mode. -/
theorem C11q_exactSeconds (m : Mode) :
    (∀ w, (DurationQ.weeks w).exactSeconds m = 604800 * (w : Rat)) ∧
    (∀ y mo d h mi s, (DurationQ.units y mo d h mi s).exactSeconds m = 86400 * (d : Rat) + 3600 * h + 60 * mi + s) :=
  ⟨fun w => exactSeconds_eq m (.weeks w), fun y mo d h mi s => exactSeconds_eq m (.units y mo d h mi s)⟩

theorem C11q_eq_equivalence (m : Mode) (a b c : DurationQ) :
    DurationQ.eq m a a = true ∧ (DurationQ.eq m a b = true → DurationQ.eq m b a = true) ∧
    (DurationQ.eq m a b = true → DurationQ.eq m b c = true → DurationQ.eq m a c = true) := by
  refine ⟨(eq_iff m a a).mpr ⟨rfl, rfl⟩, fun h => ?_, fun h1 h2 => ?_⟩
  · have := (eq_iff m a b).mp h
    exact (eq_iff m b a).mpr ⟨this.1.symm, this.2.symm⟩
  · have x := (eq_iff m a b).mp h1
    have y := (eq_iff m b c).mp h2
    exact (eq_iff m a c).mpr ⟨x.1.trans y.1, x.2.trans y.2⟩

/-- Exact durations are equal purely by total length, whatever units spell them. -/
theorem C11q_exact_eq_by_length (m : Mode) (a b : DurationQ) (ha : a.isExact = true) (hb : b.isExact = true) :
    DurationQ.eq m a b = true ↔ a.exactSeconds m = b.exactSeconds m := by
  rw [isExact_iff] at ha hb
  rw [C11q_eq_iff, ha, hb]; simp

/-- An exact duration never equals a nominal one (either way round). -/
theorem C11q_exact_ne_nominal (m : Mode) (a b : DurationQ) (ha : a.isExact = true) (hb : b.isExact = false) :
    DurationQ.eq m a b = false ∧ DurationQ.eq m b a = false := by
  have hb' : ¬ ym b = (0, 0) := fun h => by rw [(isExact_iff b).mpr h] at hb; cases hb
  rw [isExact_iff] at ha
  constructor
  · cases h : DurationQ.eq m a b
    · rfl
    · exact absurd (ha ▸ ((eq_iff m a b).mp h).1).symm hb'
  · cases h : DurationQ.eq m b a
    · rfl
    · exact absurd (ha ▸ ((eq_iff m b a).mp h).1) hb'

/-- Equal durations hash equally (the hashed tuple is the same; Python hashes numbers by value). -/
theorem C11q_hash (m : Mode) (a b : DurationQ) (h : DurationQ.eq m a b = true) :
    DurationQ.hashKey m a = DurationQ.hashKey m b := by
  rw [eq_iff] at h
  rw [hashKey_eq, hashKey_eq, h.1, h.2]

/-- … and the hashed tuple determines `==`. -/
theorem C11q_hash_iff (m : Mode) (a b : DurationQ) :
    DurationQ.eq m a b = true ↔ DurationQ.hashKey m a = DurationQ.hashKey m b := by
  rw [eq_iff, hashKey_eq, hashKey_eq]
  constructor
  · intro h; rw [h.1, h.2]
  · intro h
    simp only [Prod.mk.injEq] at h
    exact ⟨Prod.ext h.1 h.2.1, h.2.2⟩

/-! ## addition -/

/-- Commutative — even field for field. -/
theorem C11q_add_comm (m : Mode) (a b : DurationQ) : DurationQ.add m a b = DurationQ.add m b a := by
  cases a <;> cases b <;> simp only [DurationQ.add, DurationQ.toDays, daysInWeek_eq] <;> congr 1 <;>
    first | omega | grind

/-- Associative — even field for field. -/
theorem C11q_add_assoc (m : Mode) (a b c : DurationQ) :
    DurationQ.add m (DurationQ.add m a b) c = DurationQ.add m a (DurationQ.add m b c) := by
  cases a <;> cases b <;> cases c <;> simp only [DurationQ.add, DurationQ.toDays, daysInWeek_eq] <;>
    congr 1 <;> first | omega | grind

/-- Addition adds years, months and exact lengths. -/
theorem C11q_add_length (m : Mode) (a b : DurationQ) :
    ym (DurationQ.add m a b) = ((ym a).1 + (ym b).1, (ym a).2 + (ym b).2) ∧
    (DurationQ.add m a b).exactSeconds m = a.exactSeconds m + b.exactSeconds m := by
  simp only [exactSeconds_eq]; exact ⟨add_ym m a b, add_len m a b⟩

/-- The empty duration is the identity (up to `==`: `P1W + P0Y` is spelled `P7D`); on unit-form
    durations even field for field. -/
theorem C11q_add_zero (m : Mode) (a : DurationQ) :
    DurationQ.eq m (DurationQ.add m a DurationQ.zero) a = true ∧
    DurationQ.eq m (DurationQ.add m DurationQ.zero a) a = true ∧
    DurationQ.add m a DurationQ.zero = a.toDays m := by
  refine ⟨?_, ?_, ?_⟩
  · rw [eq_iff, add_ym, add_len, zero_len]
    exact ⟨by simp [ym, DurationQ.zero], by grind⟩
  · rw [eq_iff, add_ym, add_len, zero_len]
    exact ⟨by simp [ym, DurationQ.zero], by grind⟩
  · cases a <;> simp only [DurationQ.add, DurationQ.toDays, DurationQ.zero] <;> congr 1 <;>
      first | omega | grind

/-- `d + (-1 * d)` is empty. -/
theorem C11q_add_inverse (m : Mode) (a : DurationQ) :
    (DurationQ.add m a (a.mul (-1))).nonzero = false ∧
    DurationQ.eq m (DurationQ.add m a (a.mul (-1))) DurationQ.zero = true := by
  cases a with
  | weeks w =>
    have e : DurationQ.add m (.weeks w) ((DurationQ.weeks w).mul (-1)) = .weeks 0 := by
      simp only [DurationQ.mul, DurationQ.add]; congr 1; omega
    rw [e]
    refine ⟨rfl, (eq_iff m _ _).mpr ⟨rfl, ?_⟩⟩
    rw [zero_len]; simp only [len, Rat.intCast_zero]; grind
  | units y mo d h mi s =>
    have e : DurationQ.add m (.units y mo d h mi s) ((DurationQ.units y mo d h mi s).mul (-1)) =
        .units 0 0 0 0 0 0 := by
      simp only [DurationQ.mul, DurationQ.add, DurationQ.toDays, Rat.intCast_neg, Rat.intCast_ofNat]
      congr 1 <;> first | omega | grind
    rw [e]
    exact ⟨by decide +kernel, (eq_iff m _ _).mpr ⟨rfl, rfl⟩⟩

/-- Subtraction is addition of the negation (by definition of `__sub__`). -/
theorem C11q_sub (m : Mode) (a b : DurationQ) : DurationQ.sub m a b = DurationQ.add m a (b.mul (-1)) := rfl

/-- `a - a` is empty. -/
theorem C11q_sub_self (m : Mode) (a : DurationQ) :
    (DurationQ.sub m a a).nonzero = false ∧ DurationQ.eq m (DurationQ.sub m a a) DurationQ.zero = true :=
  C11q_add_inverse m a

/-! ## multiplication -/

theorem nfold_spec (m : Mode) (a : DurationQ) : ∀ n : Nat,
    ym (DurationQ.nfold m a n) = ((ym a).1 * (n : Int), (ym a).2 * (n : Int)) ∧
    len (DurationQ.nfold m a n) = len a * ((n : Int) : Rat) := by
  intro n
  induction n with
  | zero =>
    refine ⟨by simp [DurationQ.nfold, DurationQ.zero, ym], ?_⟩
    simp only [DurationQ.nfold, zero_len, Int.natCast_zero, Rat.intCast_zero]; grind
  | succ k ih =>
    obtain ⟨i1, i2⟩ := ih
    simp only [DurationQ.nfold, add_ym, add_len, i1, i2]
    have e : ((k + 1 : Nat) : Int) = (k : Int) + 1 := by omega
    rw [e, Int.mul_add, Int.mul_add, Rat.intCast_add]
    refine ⟨by simp, ?_⟩
    simp only [Rat.intCast_ofNat]; grind

/-- `n * d` equals `n`-fold addition of `d`. -/
theorem C11q_mul_is_repeated_add (m : Mode) (a : DurationQ) (n : Nat) :
    DurationQ.eq m (a.mul n) (DurationQ.nfold m a n) = true := by
  rw [eq_iff, mul_ym, mul_len, (nfold_spec m a n).1, (nfold_spec m a n).2]
  exact ⟨rfl, rfl⟩

/-- `(-n) * d` equals `n`-fold addition of `-1 * d`. -/
theorem C11q_mul_neg_is_repeated_add (m : Mode) (a : DurationQ) (n : Nat) :
    DurationQ.eq m (a.mul (-(n : Int))) (DurationQ.nfold m a.neg n) = true := by
  rw [eq_iff, mul_ym, mul_len, (nfold_spec m a.neg n).1, (nfold_spec m a.neg n).2]
  unfold DurationQ.neg
  rw [mul_ym, mul_len]
  refine ⟨by simp only [Prod.mk.injEq]; constructor <;> grind, ?_⟩
  simp only [Rat.intCast_neg, Rat.intCast_ofNat]; grind

/-- … and in day representation `n * d` and the `n`-fold sum agree field for field (years, months,
    days, hours, minutes and seconds separately, not only in total length). -/
theorem C11q_mul_fieldwise (m : Mode) (a : DurationQ) (n : Nat) :
    (a.mul n).toDays m = (DurationQ.nfold m a n).toDays m := by
  induction n with
  | zero =>
    cases a <;> simp only [DurationQ.mul, DurationQ.nfold, DurationQ.toDays, DurationQ.zero, Int.natCast_zero,
      Int.mul_zero, Int.zero_mul, Rat.intCast_zero, Rat.mul_zero]
  | succ k ih =>
    have e : ((k + 1 : Nat) : Int) = (k : Int) + 1 := by omega
    have step : ∀ x : DurationQ, (DurationQ.add m x a).toDays m = DurationQ.add m (x.toDays m) a := by
      intro x; cases x <;> cases a <;> simp only [DurationQ.add, DurationQ.toDays, daysInWeek_eq] <;>
        congr 1 <;> first | omega | grind
    rw [DurationQ.nfold, step, ← ih, e]
    cases a <;> simp only [DurationQ.mul, DurationQ.add, DurationQ.toDays, daysInWeek_eq, Rat.intCast_add,
      Rat.intCast_ofNat] <;> congr 1 <;> first | omega | grind

/-- Multiplication scales years, months and exact length. -/
theorem C11q_mul_length (m : Mode) (a : DurationQ) (n : Int) :
    ym (a.mul n) = ((ym a).1 * n, (ym a).2 * n) ∧ (a.mul n).exactSeconds m = a.exactSeconds m * (n : Rat) := by
  simp only [exactSeconds_eq]; exact ⟨mul_ym a n, mul_len a n⟩

/-! ## units, constructor, `standardize` -/

/-- A week is exactly 7 days, a day 24 hours (whole numbers of them: weeks and days cannot carry a
    fraction), and `to_days` of `n` weeks is `7n` days. -/
theorem C11q_units (m : Mode) (n : Int) :
    DurationQ.eq m (.weeks n) (.units 0 0 (7 * n) 0 0 0) = true ∧
    DurationQ.eq m (.units 0 0 n 0 0 0) (.units 0 0 0 (24 * (n : Rat)) 0 0) = true ∧
    DurationQ.eq m (.weeks n) (.units 0 0 0 (168 * (n : Rat)) 0 0) = true ∧
    (DurationQ.weeks n).toDays m = .units 0 0 (n * 7) 0 0 0 := by
  refine ⟨(eq_iff m _ _).mpr ⟨rfl, ?_⟩, (eq_iff m _ _).mpr ⟨rfl, ?_⟩, (eq_iff m _ _).mpr ⟨rfl, ?_⟩, ?_⟩
  · simp only [len, Rat.intCast_mul, Rat.intCast_ofNat]; grind
  · simp only [len, Rat.intCast_zero]; grind
  · simp only [len, Rat.intCast_zero]; grind
  · simp only [DurationQ.toDays, daysInWeek_eq]

/-- An hour is exactly 60 minutes and a minute 60 seconds — for ANY number of them, fractions
    included (`PT0.5H == PT30M`, `PT0.25M == PT15S`). -/
theorem C11q_units_frac (m : Mode) (q : Rat) :
    DurationQ.eq m (.units 0 0 0 q 0 0) (.units 0 0 0 0 (60 * q) 0) = true ∧
    DurationQ.eq m (.units 0 0 0 0 q 0) (.units 0 0 0 0 0 (60 * q)) = true ∧
    DurationQ.eq m (.units 0 0 0 q 0 0) (.units 0 0 0 0 0 (3600 * q)) = true := by
  refine ⟨(eq_iff m _ _).mpr ⟨rfl, ?_⟩, (eq_iff m _ _).mpr ⟨rfl, ?_⟩, (eq_iff m _ _).mpr ⟨rfl, ?_⟩⟩ <;>
    (simp only [len]; grind)

/-- The constructor counts weeks as 7 days unless weeks is the only unit given (then it keeps
    week form, of the same length). -/
theorem C11q_constructor (m : Mode) (y mo w d : Int) (h mi s : Rat) :
    (DurationQ.mk m y mo w d h mi s).exactSeconds m = (DurationQ.units y mo (d + 7 * w) h mi s).exactSeconds m ∧
    ym (DurationQ.mk m y mo w d h mi s) = (y, mo) := by
  unfold DurationQ.mk
  simp only [daysInWeek_eq, exactSeconds_eq]
  by_cases hc : w ≠ 0 ∧ y = 0 ∧ mo = 0 ∧ d = 0 ∧ h = 0 ∧ mi = 0 ∧ s = 0
  · rw [if_pos hc]
    obtain ⟨_, rfl, rfl, rfl, rfl, rfl, rfl⟩ := hc
    refine ⟨?_, rfl⟩
    have e : (0 + 7 * w) / 7 = w := by omega
    rw [e]
    simp only [len, Rat.intCast_add, Rat.intCast_mul, Rat.intCast_ofNat]; grind
  · rw [if_neg hc]
    exact ⟨rfl, rfl⟩

/-- The constructor rejects exactly the non-whole years / months / weeks / days. -/
theorem C11q_constructor_accepts (m : Mode) (y mo w d h mi s : Rat) :
    (DurationQ.mk? m y mo w d h mi s).isSome = true ↔ y.den = 1 ∧ mo.den = 1 ∧ w.den = 1 ∧ d.den = 1 := by
  unfold DurationQ.mk? DurationQ.intLike?
  by_cases h1 : y.den = 1 <;> by_cases h2 : mo.den = 1 <;> by_cases h3 : w.den = 1 <;>
    by_cases h4 : d.den = 1 <;> simp [h1, h2, h3, h4]

/-- `standardize=True` only respells: the result is `==` to the unstandardized duration, hashes
    the same, has the same `get_days_and_seconds()` (so compares the same), and its seconds and
    minutes are in `[0, 60)`, its hours in `[0, 24)`. -/
theorem C11q_standardize (m : Mode) (a : DurationQ) :
    DurationQ.eq m (a.standardize m) a = true ∧
    DurationQ.hashKey m (a.standardize m) = DurationQ.hashKey m a ∧
    (∀ y mo d h mi s, a = .units y mo d h mi s → ∃ d' : Int, ∃ h' mi' s' : Rat,
      a.standardize m = .units y mo d' h' mi' s' ∧
      0 ≤ s' ∧ s' < 60 ∧ 0 ≤ mi' ∧ mi' < 60 ∧ 0 ≤ h' ∧ h' < 24) := by
  have e : DurationQ.eq m (a.standardize m) a = true :=
    (eq_iff m _ _).mpr ⟨standardize_ym m a, standardize_len m a⟩
  refine ⟨e, C11q_hash m _ _ e, ?_⟩
  rintro y mo d h mi s rfl
  exact standardize_ranges m y mo d h mi s

/-! ## ordering -/

/-- The rough length used by `<`, `<=`, `>`, `>=`: a year counts as the calendar's common-year
    length, a month as 30 days. -/
def roughSeconds (m : Mode) (a : DurationQ) : Rat :=
  (((ym a).1 * Spec.yearLenB m false * 86400 + (ym a).2 * 30 * 86400 : Int) : Rat) + a.exactSeconds m

theorem roughSeconds_eq (m : Mode) (a : DurationQ) : roughSeconds m a = rough m a := by
  unfold roughSeconds rough; rw [exactSeconds_eq]

/-- `get_days_and_seconds()` is the floor split of the rough length: whole days, and seconds in
    `[0, 86400)` (carrying any fraction). -/
theorem C11q_das_floor_split (m : Mode) (a : DurationQ) :
    ((a.daysAndSeconds m).1 : Rat) * 86400 + (a.daysAndSeconds m).2 = roughSeconds m a ∧
    0 ≤ (a.daysAndSeconds m).2 ∧ (a.daysAndSeconds m).2 < 86400 := by
  rw [roughSeconds_eq]; exact das_spec m a

/-- `get_seconds()` is the rough length (the exact length for an exact duration). -/
theorem C11q_get_seconds (m : Mode) (a : DurationQ) : a.seconds m = roughSeconds m a := by
  unfold DurationQ.seconds
  split
  · rename_i h
    rw [isExact_iff] at h
    unfold roughSeconds; rw [h]; simp only [Int.zero_mul, Int.add_zero, Rat.intCast_zero]; grind
  · rw [secondsInDay_eq, Rat.intCast_ofNat]; exact (C11q_das_floor_split m a).1

/-- `<`, `<=`, `>`, `>=` are the order of the rough lengths (rationals), hence mutually consistent:
    exactly one of `<`, "same rough length", `>`; `<=` / `>=` are the unions; transitive. -/
theorem C11q_order (m : Mode) (a b : DurationQ) :
    (DurationQ.lt m a b = true ↔ roughSeconds m a < roughSeconds m b) ∧
    (DurationQ.le m a b = true ↔ roughSeconds m a ≤ roughSeconds m b) ∧
    (DurationQ.gt m a b = true ↔ roughSeconds m a > roughSeconds m b) ∧
    (DurationQ.ge m a b = true ↔ roughSeconds m a ≥ roughSeconds m b) := by
  obtain ⟨ea, ra⟩ := C11q_das_floor_split m a
  obtain ⟨eb, rb⟩ := C11q_das_floor_split m b
  have l1 := pairLt_iff _ _ ra rb
  have l2 := pairLt_iff _ _ rb ra
  rw [ea, eb] at l1 l2
  unfold DurationQ.lt DurationQ.le DurationQ.gt DurationQ.ge
  refine ⟨l1, ?_, l2, ?_⟩
  · cases h : DurationQ.pairLt (b.daysAndSeconds m) (a.daysAndSeconds m)
    · have : ¬ roughSeconds m b < roughSeconds m a := fun x => by rw [l2.mpr x] at h; cases h
      simp only [Bool.not_false, true_iff]; exact Rat.not_lt.1 this
    · have := l2.mp h
      simp only [Bool.not_true, Bool.false_eq_true, false_iff]; exact Rat.not_le.2 this
  · cases h : DurationQ.pairLt (a.daysAndSeconds m) (b.daysAndSeconds m)
    · have : ¬ roughSeconds m a < roughSeconds m b := fun x => by rw [l1.mpr x] at h; cases h
      simp only [Bool.not_false, true_iff]; exact Rat.not_lt.1 this
    · have := l1.mp h
      simp only [Bool.not_true, Bool.false_eq_true, false_iff]; exact Rat.not_le.2 this

/-- The four operators are mutually consistent, with no reference to lengths: `<=` is "not `>`",
    `>=` is "not `<`", `>` is `<` with the operands swapped, `<` and `>` exclude each other, and
    `<` is transitive. -/
theorem C11q_order_mutual (m : Mode) (a b c : DurationQ) :
    DurationQ.le m a b = !DurationQ.gt m a b ∧ DurationQ.ge m a b = !DurationQ.lt m a b ∧
    DurationQ.gt m a b = DurationQ.lt m b a ∧ DurationQ.ge m a b = DurationQ.le m b a ∧
    ¬ (DurationQ.lt m a b = true ∧ DurationQ.gt m a b = true) ∧
    (DurationQ.lt m a b = true → DurationQ.lt m b c = true → DurationQ.lt m a c = true) ∧
    (DurationQ.le m a b = true → DurationQ.le m b c = true → DurationQ.le m a c = true) ∧
    (DurationQ.le m a b = true ∨ DurationQ.le m b a = true) := by
  obtain ⟨ab1, ab2, ab3, _⟩ := C11q_order m a b
  obtain ⟨bc1, bc2, _, _⟩ := C11q_order m b c
  obtain ⟨ac1, ac2, _, _⟩ := C11q_order m a c
  obtain ⟨_, ba2, _, _⟩ := C11q_order m b a
  refine ⟨rfl, rfl, rfl, rfl, ?_, ?_, ?_, ?_⟩
  · rintro ⟨h1, h2⟩
    have := ab1.mp h1; have := ab3.mp h2; grind
  · intro h1 h2
    have := ab1.mp h1; have := bc1.mp h2; exact ac1.mpr (by grind)
  · intro h1 h2
    have := ab2.mp h1; have := bc2.mp h2; exact ac2.mpr (by grind)
  · rcases Rat.le_total (a := roughSeconds m a) (b := roughSeconds m b) with h | h
    · exact Or.inl (ab2.mpr h)
    · exact Or.inr (ba2.mpr h)

/-- Equal durations are neither `<` nor `>`, and are both `<=` and `>=`. -/
theorem C11q_order_consistent_with_eq (m : Mode) (a b : DurationQ) (h : DurationQ.eq m a b = true) :
    DurationQ.lt m a b = false ∧ DurationQ.gt m a b = false ∧ DurationQ.le m a b = true ∧
    DurationQ.ge m a b = true := by
  rw [C11q_eq_iff] at h
  have e : roughSeconds m a = roughSeconds m b := by unfold roughSeconds; rw [h.1, h.2]
  obtain ⟨o1, o2, o3, o4⟩ := C11q_order m a b
  refine ⟨?_, ?_, o2.mpr (by grind), o4.mpr (by grind)⟩
  · cases hl : DurationQ.lt m a b
    · rfl
    · have := o1.mp hl; grind
  · cases hl : DurationQ.gt m a b
    · rfl
    · have := o3.mp hl; grind

/-- Exact durations are ordered and equal purely by total length, whatever units spell them; so
    between exact durations exactly one of `<`, `==`, `>` holds. -/
theorem C11q_exact_order_by_length (m : Mode) (a b : DurationQ) (ha : a.isExact = true) (hb : b.isExact = true) :
    (DurationQ.lt m a b = true ↔ a.exactSeconds m < b.exactSeconds m) ∧
    (DurationQ.gt m a b = true ↔ a.exactSeconds m > b.exactSeconds m) ∧
    (DurationQ.le m a b = true ↔ a.exactSeconds m ≤ b.exactSeconds m) ∧
    (DurationQ.ge m a b = true ↔ a.exactSeconds m ≥ b.exactSeconds m) ∧
    (DurationQ.eq m a b = true ↔ a.exactSeconds m = b.exactSeconds m) := by
  have hE := C11q_exact_eq_by_length m a b ha hb
  rw [isExact_iff] at ha hb
  obtain ⟨o1, o2, o3, o4⟩ := C11q_order m a b
  have ra : roughSeconds m a = a.exactSeconds m := by
    unfold roughSeconds; rw [ha]; simp only [Int.zero_mul, Int.add_zero, Rat.intCast_zero]; grind
  have rb : roughSeconds m b = b.exactSeconds m := by
    unfold roughSeconds; rw [hb]; simp only [Int.zero_mul, Int.add_zero, Rat.intCast_zero]; grind
  rw [ra, rb] at o1 o2 o3 o4
  exact ⟨o1, o3, o2, o4, hE⟩

/-- The days / hours / minutes / seconds record that `TimePoint.__add__` consumes (`Model.DurQ`,
    for which `C01_add_exact_rat` is stated) has the duration's exact length. -/
theorem C11q_toDurQ_seconds (m : Mode) (a : DurationQ) : (a.toDurQ m).seconds = a.exactSeconds m := by
  rw [exactSeconds_eq]
  cases a <;> simp only [DurationQ.toDurQ, DurationQ.toDays, DurQ.seconds, len, daysInWeek_eq,
    Rat.intCast_mul, Rat.intCast_ofNat] <;> grind

/-! ## `abs` and `//` -/

/-- `abs` makes every component non-negative (component by component — it is not the absolute
    value of the length: `abs(P1DT-1H)` is `P1DT1H`), is idempotent, and forgets an overall sign. -/
theorem C11q_abs (a : DurationQ) :
    a.abs.abs = a.abs ∧ (a.mul (-1)).abs = a.abs ∧
    (∀ y mo d h mi s, a.abs = .units y mo d h mi s → 0 ≤ y ∧ 0 ≤ mo ∧ 0 ≤ d ∧ 0 ≤ h ∧ 0 ≤ mi ∧ 0 ≤ s) ∧
    (∀ w, a.abs = .weeks w → 0 ≤ w) := by
  cases a with
  | weeks w =>
    refine ⟨?_, ?_, fun _ _ _ _ _ _ h => (by cases h), fun w' h => ?_⟩
    · simp only [DurationQ.abs]; congr 1
    · simp only [DurationQ.abs, DurationQ.mul]; congr 1; omega
    · simp only [DurationQ.abs, DurationQ.weeks.injEq] at h; omega
  | units y mo d h mi s =>
    refine ⟨?_, ?_, fun y' mo' d' h' mi' s' e => ?_, fun _ h => (by cases h)⟩
    · simp only [DurationQ.abs, rat_abs_abs]; congr 1 <;> omega
    · simp only [DurationQ.abs, DurationQ.mul, rat_abs_neg]; congr 1 <;> omega
    · simp only [DurationQ.abs, DurationQ.units.injEq] at e
      obtain ⟨rfl, rfl, rfl, rfl, rfl, rfl⟩ := e
      exact ⟨by omega, by omega, by omega, rat_abs_nonneg h, rat_abs_nonneg mi, rat_abs_nonneg s⟩

/-- `d // n` floors every component separately (so it is not division of the length, and
    `d // 1` drops the fractions: `PT1,5H // 1` is `PT1H`); it fails exactly for `n = 0`.  For
    `n > 0` every resulting hour / minute / second count is the whole `q` with `q·n ≤ x < (q+1)·n`. -/
theorem C11q_floordiv (a : DurationQ) (n : Int) :
    ((a.floordiv n).isSome = true ↔ n ≠ 0) ∧
    (0 < n → ∀ y mo d h mi s, a = .units y mo d h mi s → ∃ h' mi' s' : Rat,
      a.floordiv n = some (.units (y / n) (mo / n) (d / n) h' mi' s') ∧
      IsInt h' ∧ h' * (n : Rat) ≤ h ∧ h < (h' + 1) * (n : Rat) ∧
      IsInt mi' ∧ mi' * (n : Rat) ≤ mi ∧ mi < (mi' + 1) * (n : Rat) ∧
      IsInt s' ∧ s' * (n : Rat) ≤ s ∧ s < (s' + 1) * (n : Rat)) := by
  constructor
  · unfold DurationQ.floordiv
    by_cases hn : n = 0
    · simp [hn]
    · rw [if_neg hn]; cases a <;> simp [hn]
  · rintro hn y mo d h mi s rfl
    obtain ⟨a1, a2, a3⟩ := floorDivQ_spec h n hn
    obtain ⟨b1, b2, b3⟩ := floorDivQ_spec mi n hn
    obtain ⟨c1, c2, c3⟩ := floorDivQ_spec s n hn
    refine ⟨_, _, _, ?_, a1, a2, a3, b1, b2, b3, c1, c2, c3⟩
    unfold DurationQ.floordiv
    rw [if_neg (by omega)]
    simp only [Int.fdiv_eq_ediv_of_nonneg _ (Int.le_of_lt hn)]

/-! ## The rational model extends the integer model -/

/-- On durations with whole components every operation of the rational model gives the integer
    model's answer (embedded by `ofDur`, which is injective); so each theorem of `Props/C11.lean`
    is the instance of the theorem above at `ofDur a`, `ofDur b`. -/
theorem C11_rat_extends_int (m : Mode) (a b : Dur) (n : Int) (k : Nat) :
    DurationQ.add m (.ofDur a) (.ofDur b) = .ofDur (Dur.add m a b) ∧
    DurationQ.sub m (.ofDur a) (.ofDur b) = .ofDur (Dur.sub m a b) ∧
    (DurationQ.ofDur a).mul n = .ofDur (a.mul n) ∧
    (DurationQ.ofDur a).neg = .ofDur a.neg ∧
    (DurationQ.ofDur a).abs = .ofDur a.abs ∧
    (DurationQ.ofDur a).floordiv n = (a.floordiv n).map DurationQ.ofDur ∧
    (DurationQ.ofDur a).toDays m = .ofDur (a.toDays m) ∧
    (DurationQ.ofDur a).toWeeks m = .ofDur (a.toWeeks m) ∧
    DurationQ.nfold m (.ofDur a) k = .ofDur (Dur.nfold m a k) ∧
    (DurationQ.ofDur a).isExact = a.isExact ∧
    (DurationQ.ofDur a).nonzero = a.nonzero ∧
    (DurationQ.ofDur a).exactSeconds m = ((a.exactSeconds m : Int) : Rat) ∧
    (DurationQ.ofDur a).daysAndSeconds m = ((a.daysAndSeconds m).1, (((a.daysAndSeconds m).2 : Int) : Rat)) ∧
    (DurationQ.ofDur a).seconds m = ((a.seconds m : Int) : Rat) ∧
    DurationQ.hashKey m (.ofDur a) =
      ((Dur.hashKey m a).1, (Dur.hashKey m a).2.1, (((Dur.hashKey m a).2.2 : Int) : Rat)) ∧
    DurationQ.eq m (.ofDur a) (.ofDur b) = Dur.eq m a b ∧
    DurationQ.lt m (.ofDur a) (.ofDur b) = Dur.lt m a b ∧
    DurationQ.le m (.ofDur a) (.ofDur b) = Dur.le m a b ∧
    DurationQ.gt m (.ofDur a) (.ofDur b) = Dur.gt m a b ∧
    DurationQ.ge m (.ofDur a) (.ofDur b) = Dur.ge m a b := by
  have hlt : ∀ x y : Dur, DurationQ.lt m (.ofDur x) (.ofDur y) = Dur.lt m x y := fun x y => by
    unfold DurationQ.lt Dur.lt; rw [ofDur_daysAndSeconds, ofDur_daysAndSeconds, pairLt_intCast]
  refine ⟨ofDur_add m a b, ?_, ofDur_mul a n, ofDur_mul a (-1), ofDur_abs a, ofDur_floordiv a n,
    ofDur_toDays m a, ofDur_toWeeks m a, ofDur_nfold m a k, ofDur_isExact a, ofDur_nonzero a,
    ofDur_exactSeconds m a, ofDur_daysAndSeconds m a, ofDur_seconds m a, ofDur_hashKey m a,
    ofDur_eq m a b, hlt a b, ?_, hlt b a, ?_⟩
  · unfold DurationQ.sub Dur.sub; rw [ofDur_mul, ofDur_add]
  · have := hlt b a; unfold DurationQ.lt Dur.lt at this
    unfold DurationQ.le Dur.le; rw [this]
  · have := hlt a b; unfold DurationQ.lt Dur.lt at this
    unfold DurationQ.ge Dur.ge; rw [this]

/-- The constructor too, and the embedding loses nothing. -/
theorem C11_rat_extends_int_constructor (m : Mode) (y mo w d h mi s : Int) :
    DurationQ.mk m y mo w d (h : Rat) (mi : Rat) (s : Rat) = .ofDur (mkDur m y mo w d h mi s) ∧
    DurationQ.mk? m (y : Rat) (mo : Rat) (w : Rat) (d : Rat) (h : Rat) (mi : Rat) (s : Rat) =
      some (.ofDur (mkDur m y mo w d h mi s)) ∧
    (∀ a b : Dur, DurationQ.ofDur a = DurationQ.ofDur b → a = b) := by
  refine ⟨ofDur_mk m y mo w d h mi s, ?_, ofDur_injective⟩
  simp only [DurationQ.mk?, DurationQ.intLike?, Rat.den_intCast, Rat.num_intCast, if_true]
  rw [ofDur_mk]

/-- Example of an integer theorem recovered as an instance: `C11.C11_hash` from `C11q_hash`. -/
theorem C11_hash_from_rat (m : Mode) (a b : Dur) (h : Dur.eq m a b = true) :
    Dur.hashKey m a = Dur.hashKey m b := by
  obtain ⟨_, _, _, _, _, _, _, _, _, _, _, _, _, _, ha, he, _⟩ := C11_rat_extends_int m a b 0 0
  obtain ⟨_, _, _, _, _, _, _, _, _, _, _, _, _, _, hb, _⟩ := C11_rat_extends_int m b b 0 0
  have := C11q_hash m (.ofDur a) (.ofDur b) (he.trans h)
  rw [ha, hb] at this
  simp only [Prod.mk.injEq, Rat.intCast_inj] at this
  exact Prod.ext this.1 (Prod.ext this.2.1 this.2.2)

/-! ## Non-vacuity -/

-- P1W == P6DT23H59,5M30S ; PT0,5H == PT30M == PT1800S ; hashed tuples equal
example : DurationQ.eq .greg (.weeks 1) (.units 0 0 6 23 (119/2) 30) = true := by decide +kernel
example : DurationQ.eq .greg (.units 0 0 0 (1/2) 0 0) (.units 0 0 0 0 30 0) = true ∧
    DurationQ.hashKey .greg (.units 0 0 0 (1/2) 0 0) = DurationQ.hashKey .greg (.units 0 0 0 0 0 1800) := by
  decide +kernel
-- a near miss of 1/8 s is not equal, and is ordered
example : DurationQ.eq .greg (.units 0 0 1 0 0 0) (.units 0 0 0 24 0 (1/8)) = false ∧
    DurationQ.lt .greg (.units 0 0 1 0 0 0) (.units 0 0 0 24 0 (1/8)) = true := by decide +kernel
-- nominal: P1Y is not == P365D but is <= and >= it (Gregorian); in the 360-day calendar P1Y < P365D
example : DurationQ.eq .greg (.units 1 0 0 0 0 0) (.units 0 0 365 0 0 0) = false ∧
    DurationQ.le .greg (.units 1 0 0 0 0 0) (.units 0 0 365 0 0 0) = true ∧
    DurationQ.lt .d360 (.units 1 0 0 0 0 0) (.units 0 0 364 (47/2) 30 0) = true := by decide +kernel
-- get_days_and_seconds of a negative fraction: -0.5 s is day -1 plus 86399.5 s
example : (DurationQ.units 0 0 0 0 0 (-1/2)).daysAndSeconds .greg = (-1, 172799/2) := by decide +kernel
-- addition promotes week form; the inverse; multiplication; floor division of fractions
example : DurationQ.add .greg (.weeks 1) (.units 0 0 0 (3/2) 0 0) = .units 0 0 7 (3/2) 0 0 := by decide +kernel
example : DurationQ.add .greg (.units 1 2 3 (1/2) (1/4) (1/8)) ((DurationQ.units 1 2 3 (1/2) (1/4) (1/8)).mul (-1)) =
    DurationQ.zero := by decide +kernel
example : (DurationQ.units 0 0 1 (3/2) 0 (1/8)).mul 3 = DurationQ.nfold .greg (.units 0 0 1 (3/2) 0 (1/8)) 3 := by
  decide +kernel
example : (DurationQ.units 0 0 3 (3/2) (-1/4) 0).floordiv 2 = some (.units 0 0 1 0 (-1) 0) := by decide +kernel
example : (DurationQ.units 0 0 0 (3/2) 0 0).floordiv 1 = some (.units 0 0 0 1 0 0) ∧
    (DurationQ.units 0 0 1 (-1) 0 (-1/2)).abs = .units 0 0 1 1 0 (1/2) := by decide +kernel
-- standardize: PT3664,5S -> PT1H1M4,5S ; PT-0,5S -> P-1DT23H59M59,5S
example : (DurationQ.units 0 0 0 0 0 (7329/2)).standardize .greg = .units 0 0 0 1 1 (9/2) := by decide +kernel
example : (DurationQ.units 0 0 0 0 0 (-1/2)).standardize .greg = .units 0 0 (-1) 23 59 (119/2) := by
  decide +kernel
-- constructor: fractional days are rejected, fractional hours are not; weeks alone keep week form
example : DurationQ.mk? .greg 0 0 0 (3/2) 0 0 0 = none ∧
    DurationQ.mk? .greg 0 0 0 1 (3/2) 0 0 = some (.units 0 0 1 (3/2) 0 0) ∧
    DurationQ.mk? .greg 0 0 2 0 0 0 0 = some (.weeks 2) ∧
    DurationQ.mk? .greg 0 0 2 0 0 0 (1/2) = some (.units 0 0 14 0 0 (1/2)) := by decide +kernel

end IsoDT.Props.C11q
