/-
  C20 (rational slots) — adding a truncated time point to a full point given in ANY
  time-precision form (decimal seconds / decimal minutes / decimal hours; `Model.TruncatedQ`, the
  statements of `TimePoint.add_truncated` and of the truncated branch of `__add__` over exact
  rationals; truncated fields whole numbers, the shapes of the property).

  What the code does, proved for every mode, date representation, offset, year, 24:00 included,
  and EVERY full point `p` (fraction of a second or not):

  * `t` names a time field (`T06`, `T-30`, `T--15`, also together with a day designator):
    `to_hour_minute_second()` expands `p` to hour:minute:second, and a point strictly inside a
    second is moved up to the next whole second (`Model.ceilSec`).  From there on everything is the
    whole-second computation of `Props/C20.lean`, `C20b.lean` on that point
    (`C20_time_field_is_ceilSec_run`): it terminates, the result is not earlier than `p`, carries
    the fields with lower ones zero, is the earliest match among ALL rational-slot candidates not
    earlier than `p`, and is idempotent; the result is in hour:minute:second form whatever `p`'s
    form was.
  * `t` names only a day designator: no expansion, no time loop; the three time slots of `p` (24:00
    normalised) - precision form and fraction included - are carried through the day loops
    untouched, and the date is what the whole-second model computes
    (`C20_day_only_is_date_run`); terminates, matches, earliest at that time of day, idempotent.
  * `C20_rat_extends_int`: on whole-second points in h:m:s form the model IS `addTruncTP`.

  History: before the repair "adding a truncated time to a point inside a second starts from the
  next whole second" the seconds loop never ended for such a point; the six inputs that were the
  witnesses are now regression examples (`C20_fraction_regression`).
-/
import IsoDT.Lemmas.TruncQ
import IsoDT.Props.C20b

namespace IsoDT.Props.C20
open IsoDT IsoDT.Model IsoDT.Lemmas IsoDT.Lemmas.TruncQ
open IsoDT.Spec (Date TZ TP)

/-- `t` names a time-of-day field. -/
def HasTime (t : Trunc) : Prop := t.hh ≠ none ∨ t.mi ≠ none ∨ t.ss ≠ none

instance (t : Trunc) : Decidable (HasTime t) := by unfold HasTime; infer_instance

/-! ## The rational model extends the whole-second model -/

/-- **On whole-second points the rational model coincides with `addTruncTP`** (`add_truncated` with
    the zone alignment of `__add__`), for every point and every truncated point, legal or not. -/
theorem C20_rat_extends_int (m : Mode) (p : TP) (t : Trunc) :
    addTruncTPQ m (TPQ.ofTP p) t = (addTruncTP m p t).map TPQ.ofTP := addTruncTPQ_ofTP m p t

theorem C20_rat_extends_int_add_truncated (m : Mode) (p : TP) (t : Trunc) :
    addTruncatedQ m (TPQ.ofTP p) t = (addTruncated m p t).map TPQ.ofTP := addTruncatedQ_ofTP m p t

example : addTruncTPQ .greg (TPQ.ofTP ⟨.cal 2000 1 1, 5, 59, 59, ⟨0, 0⟩⟩) ⟨none, none, none, none, some 6, none, none, some ⟨1, 0⟩⟩ =
    some (TPQ.ofTP ⟨.cal 2000 1 2, 5, 0, 0, ⟨0, 0⟩⟩) := by
  rw [C20_rat_extends_int]; decide +kernel

/-! ## The two reductions -/

/-- **The whole-second point the run starts from** when a time field is named: `ceilSec m p` is
    `TPQ.ofTP c` for the strict whole-second point `c` at the least whole second not earlier than `p`
    (`p ≤ c < p + 1 s`; `c = p` when `p` denotes a whole second), in `p`'s offset and date
    representation. -/
theorem C20_ceilSec (m : Mode) (p : TPQ) (hv : p.Valid m) :
    ∃ c : TP, ceilSec m p = some (TPQ.ofTP c) ∧ c.Strict m ∧ c.tz = p.tz ∧ c.date.rep = p.date.rep ∧
      p.inst m ≤ ((c.inst m : Int) : Rat) ∧ ((c.inst m : Int) : Rat) < p.inst m + 1 ∧
      (WholeSec p → ((c.inst m : Int) : Rat) = p.inst m) := ceilSec_spec m p hv

/-- **A time field is named**: for EVERY legal `p`, the run on `p` is the whole-second model's run
    on `ceilSec p`, and the result is in hour:minute:second form. -/
theorem C20_time_field_is_ceilSec_run (m : Mode) (p : TPQ) (hv : p.Valid m) (t : Trunc) (ht : HasTime t) :
    ∃ c : TP, ceilSec m p = some (TPQ.ofTP c) ∧ c.Strict m ∧ c.tz = p.tz ∧ c.date.rep = p.date.rep ∧
      p.inst m ≤ ((c.inst m : Int) : Rat) ∧ ((c.inst m : Int) : Rat) < p.inst m + 1 ∧
      addTruncatedQ m p t = (addTruncated m c t).map TPQ.ofTP := by
  obtain ⟨c, ec, cs, ctz, cr, c1, c2, _⟩ := ceilSec_spec m p hv
  exact ⟨c, ec, cs, ctz, cr, c1, c2, addTruncatedQ_time m p t ht c ec cs⟩

/-- **Only day designators are named**: the date is the whole-second model's answer for `p0`'s date
    at 00:00:00 (`p0` = `p` with 24:00 normalised), and hour, minute and second slots of `p0` -
    `None` slots and fraction included - are those of the result. -/
theorem C20_day_only_is_date_run (m : Mode) (p : TPQ) (hv : p.Valid m) (t : Trunc) (ht : ¬ HasTime t) :
    ∃ p0, normalise24Q m p = some p0 ∧ p0.Valid m ∧ p0.hh < 24 ∧ p0.inst m = p.inst m ∧ p0.tz = p.tz ∧
      p0.date.rep = p.date.rep ∧ p0.mi.isSome = p.mi.isSome ∧ p0.ss.isSome = p.ss.isSome ∧
      addTruncatedQ m p t = (addTruncated m ⟨p0.date, 0, 0, 0, p0.tz⟩ t).map
        fun r => ⟨r.date, p0.hh, p0.mi, p0.ss, r.tz⟩ := by
  have h1 : t.hh = none := Classical.byContradiction fun h => ht (Or.inl h)
  have h2 : t.mi = none := Classical.byContradiction fun h => ht (Or.inr (Or.inl h))
  have h3 : t.ss = none := Classical.byContradiction fun h => ht (Or.inr (Or.inr h))
  obtain ⟨p0, e0, g0, e⟩ := addTruncatedQ_dayOnly m p hv t h1 h2 h3
  exact ⟨p0, e0, g0.valid, g0.lt24, by rw [g0.inst]; grind, g0.tz, g0.rep, g0.mi, g0.ss, e⟩

/-! ## Termination -/

/-- Zone-free core of `C20_terminates_rat`. -/
theorem terminates_core (m : Mode) (p : TPQ) (hv : p.Valid m) (t : Trunc) (hl : LegalTrunc m t) :
    ∃ q, addTruncatedQ m p t = some q ∧ q.Valid m ∧ q.hh < 24 ∧ q.tz = p.tz ∧ p.inst m ≤ q.inst m := by
  by_cases ht : HasTime t
  · obtain ⟨c, _, cs, ctz, _, c1, _, e⟩ := C20_time_field_is_ceilSec_run m p hv t ht
    obtain ⟨q', eq, qs, qtz, qi⟩ := C20_terminates m c cs.1 t hl
    have sq := ofTP_strict m q' qs
    refine ⟨TPQ.ofTP q', by rw [e, eq]; rfl, sq.1, sq.2, by show q'.tz = p.tz; rw [qtz, ctz], ?_⟩
    rw [ofTP_inst]
    have := Rat.intCast_le_intCast.2 qi
    grind
  · have h1 : t.hh = none := Classical.byContradiction fun h => ht (Or.inl h)
    have h2 : t.mi = none := Classical.byContradiction fun h => ht (Or.inr (Or.inl h))
    have h3 : t.ss = none := Classical.byContradiction fun h => ht (Or.inr (Or.inr h))
    obtain ⟨p0, e0, g0, e⟩ := addTruncatedQ_dayOnly m p hv t h1 h2 h3
    have ss := skel_strict m p0 g0.valid
    obtain ⟨_, r, en, er, rs, rtz, ri, _, _, _, _, _, hkeep, _⟩ := C20_matches m (skel p0) ss.1 t hl
    rw [normalise24_strict' m _ ss] at en
    cases en
    obtain ⟨z1, z2, z3⟩ := hkeep h1 h2 h3
    obtain ⟨qs, qi⟩ := reT_spec m p0 ⟨g0.valid, g0.lt24⟩ r rs ⟨z1, z2, z3⟩
    obtain ⟨_, pi0⟩ := reT_spec m p0 ⟨g0.valid, g0.lt24⟩ (skel p0) ss ⟨rfl, rfl, rfl⟩
    rw [reT_skel] at pi0
    refine ⟨reT p0 r, by rw [e]; show Option.map (reT p0) (addTruncated m (skel p0) t) = _; rw [er]; rfl,
      qs.1, qs.2, by show r.tz = p.tz; rw [rtz]; exact g0.tz, ?_⟩
    have := g0.inst
    have := Rat.intCast_le_intCast.2 ri
    grind

/-- **C20, termination over rational slots, all inputs** (`truncated + full`, zone alignment
    included): for EVERY legal full point `p` in any precision form - on a whole second or strictly
    inside one - and every truncated point with legal whole-number fields and (if it has one) a
    legal zone, every loop ends within its fuel; the result is a legal point with `hh < 24`, in `p`'s
    offset, not earlier than `p`. -/
theorem C20_terminates_rat (m : Mode) (p : TPQ) (hv : p.Valid m) (t : Trunc) (hl : LegalTrunc m t)
    (hz : ∀ z, t.tz = some z → z.Valid) :
    ∃ q, addTruncTPQ m p t = some q ∧ q.Valid m ∧ q.hh < 24 ∧ q.tz = p.tz ∧ p.inst m ≤ q.inst m := by
  unfold addTruncTPQ addTruncTPQF
  cases htz : t.tz with
  | none => exact terminates_core m p hv t hl
  | some z =>
    simp only
    obtain ⟨p1, e1, i1, t1, v1, _⟩ := toTimeZoneQ_spec m p z hv (hz z htz)
    obtain ⟨r, er, rv, rlt, rtz, ri⟩ := terminates_core m p1 v1 t hl
    obtain ⟨q, eq, qi, qtz, qv, _, _, _, qlt⟩ := toTimeZoneQ_spec m r p.tz rv hv.2.1
    have er' : addTruncatedQF stdTruncFuel m p1 t = some r := er
    refine ⟨q, by rw [e1, Option.bind_some, er', Option.bind_some, eq], qv, qlt rlt, qtz, ?_⟩
    rw [qi, ← i1]; exact ri

/-- **No early answer**: whatever `truncated + full` returns is a legal point in `p`'s offset that is
    not earlier than `p` (the zeroing of lower fields never produces a point before `p`, also for `p`
    strictly inside a second). -/
theorem C20_never_earlier_rat (m : Mode) (p : TPQ) (hv : p.Valid m) (t : Trunc) (hl : LegalTrunc m t)
    (hz : ∀ z, t.tz = some z → z.Valid) (q : TPQ) (h : addTruncTPQ m p t = some q) :
    q.Valid m ∧ q.hh < 24 ∧ q.tz = p.tz ∧ p.inst m ≤ q.inst m := by
  obtain ⟨q2, e, a, b, c, d⟩ := C20_terminates_rat m p hv t hl hz
  rw [h] at e; cases e
  exact ⟨a, b, c, d⟩

/-- **Regression: the six inputs on which the operation used not to return** (the seconds loop
    compared a second slot carrying a fraction with a whole number for ever):
    `T06` + `05:59:59,875Z` = `06:00:00Z`; `T06` + `06:00:00,125Z` = next day `06:00:00Z`;
    `T06` + `06:00:00,5Z` = next day `06:00:00Z`; `T--15` + `00:00:15,5Z` = `00:01:15Z`;
    `T06` + decimal-minute `05:59,125Z` (= 05:59:07,5) = `06:00:00Z`;
    `T-30+01` + `05:59:59,5Z` (= 07:00:00 in +01:00 after the step to the next second) = `06:30:00Z`. -/
theorem C20_fraction_regression :
    addTruncTPQ .greg ⟨.cal 2000 1 1, 5, some 59, some (479/8), ⟨0, 0⟩⟩ ⟨none, none, none, none, some 6, none, none, none⟩ =
      some ⟨.cal 2000 1 1, 6, some 0, some 0, ⟨0, 0⟩⟩ ∧
    addTruncTPQ .greg ⟨.cal 2000 1 1, 6, some 0, some (1/8), ⟨0, 0⟩⟩ ⟨none, none, none, none, some 6, none, none, none⟩ =
      some ⟨.cal 2000 1 2, 6, some 0, some 0, ⟨0, 0⟩⟩ ∧
    addTruncTPQ .greg ⟨.cal 2000 1 1, 6, some 0, some (1/2), ⟨0, 0⟩⟩ ⟨none, none, none, none, some 6, none, none, none⟩ =
      some ⟨.cal 2000 1 2, 6, some 0, some 0, ⟨0, 0⟩⟩ ∧
    addTruncTPQ .greg ⟨.cal 2000 1 1, 0, some 0, some (31/2), ⟨0, 0⟩⟩ ⟨none, none, none, none, none, none, some 15, none⟩ =
      some ⟨.cal 2000 1 1, 0, some 1, some 15, ⟨0, 0⟩⟩ ∧
    addTruncTPQ .greg ⟨.cal 2000 1 1, 5, some (473/8), none, ⟨0, 0⟩⟩ ⟨none, none, none, none, some 6, none, none, none⟩ =
      some ⟨.cal 2000 1 1, 6, some 0, some 0, ⟨0, 0⟩⟩ ∧
    addTruncTPQ .greg ⟨.cal 2000 1 1, 5, some 59, some (119/2), ⟨0, 0⟩⟩ ⟨none, none, none, none, none, some 30, none, some ⟨1, 0⟩⟩ =
      some ⟨.cal 2000 1 1, 6, some 30, some 0, ⟨0, 0⟩⟩ := by
  refine ⟨?_, ?_, ?_, ?_, ?_, ?_⟩ <;> decide +kernel

example : ∃ q, addTruncTPQ .greg ⟨.cal 2000 1 1, 5, some 59, some (479/8), ⟨0, 0⟩⟩
    ⟨none, none, none, none, some 6, none, none, some ⟨1, 0⟩⟩ = some q ∧ q.Valid .greg ∧ q.hh < 24 ∧
    q.tz = ⟨0, 0⟩ ∧ (⟨.cal 2000 1 1, 5, some 59, some (479/8), ⟨0, 0⟩⟩ : TPQ).inst .greg ≤ q.inst .greg :=
  C20_terminates_rat .greg _ (by decide +kernel) _ (legal_of_legalB _ _ (by decide))
    (by intro z h; cases h; decide)
-- ... and the value: 05:59:59,875Z read in +01:00 is 06:59:59,875; next whole second 07:00:00; next 06:00 there is tomorrow
example : addTruncTPQ .greg ⟨.cal 2000 1 1, 5, some 59, some (479/8), ⟨0, 0⟩⟩
    ⟨none, none, none, none, some 6, none, none, some ⟨1, 0⟩⟩ = some ⟨.cal 2000 1 2, 5, some 0, some 0, ⟨0, 0⟩⟩ := by
  decide +kernel

/-! ## The result carries the specified fields -/

/-- **C20, fields, a time field named** (EVERY legal `p`, any precision form, fraction or not): the
    result is the whole-second point `q'` in hour:minute:second form (`TPQ.ofTP q'`: all three slots
    present and whole - the decimal-hour / decimal-minute form of `p` is NOT kept); it is valid, in
    `p`'s offset, not earlier than `p`; it carries every time field `t` specifies, lower fields zero as
    `add_truncated` defaults them; for at most one day designator it carries that too. -/
theorem C20_matches_rat_time (m : Mode) (p : TPQ) (hv : p.Valid m) (t : Trunc) (hl : LegalTrunc m t)
    (ht : HasTime t) :
    ∃ q' : TP, addTruncatedQ m p t = some (TPQ.ofTP q') ∧ q'.Strict m ∧ q'.tz = p.tz ∧
      p.inst m ≤ ((q'.inst m : Int) : Rat) ∧
      (∀ s, t.ss = some s → q'.ss = s) ∧ (∀ x, t.mi = some x → q'.mi = x) ∧ (∀ h, t.hh = some h → q'.hh = h) ∧
      (t.hh ≠ none → t.mi = none → q'.mi = 0) ∧ ((t.hh ≠ none ∨ t.mi ≠ none) → t.ss = none → q'.ss = 0) ∧
      (DayShape t → DirectMatch t q' ∧ DayMatch m t (q'.date.dayNum m)) := by
  obtain ⟨c, _, cs, ctz, _, c1, _, e⟩ := C20_time_field_is_ceilSec_run m p hv t ht
  obtain ⟨_, q', _, eq, qs, qtz, qi, a1, a2, a3, a4, a5, _, a7⟩ := C20_matches m c cs.1 t hl
  refine ⟨q', by rw [e, eq]; rfl, qs, by rw [qtz, ctz], ?_, a1, a2, a3, a4, a5, a7⟩
  have := Rat.intCast_le_intCast.2 qi
  grind

/-- **C20, fields, only day designators named** (any `p`, fraction or not): hour, minute and second
    slots of the result are those of `p0` (`p` with 24:00 normalised) - same precision form, same
    fraction: "time of day unchanged"; the result is valid, in `p`'s offset, not earlier than `p`,
    and for at most one day designator its date carries it. -/
theorem C20_matches_rat_day (m : Mode) (p : TPQ) (hv : p.Valid m) (t : Trunc) (hl : LegalTrunc m t)
    (ht : ¬ HasTime t) :
    ∃ p0 q, normalise24Q m p = some p0 ∧ addTruncatedQ m p t = some q ∧ q.Valid m ∧ q.hh < 24 ∧ q.tz = p.tz ∧
      p.inst m ≤ q.inst m ∧ q.hh = p0.hh ∧ q.mi = p0.mi ∧ q.ss = p0.ss ∧
      (DayShape t → DirectMatch t (skel q) ∧ DayMatch m t (q.date.dayNum m)) := by
  have h1 : t.hh = none := Classical.byContradiction fun h => ht (Or.inl h)
  have h2 : t.mi = none := Classical.byContradiction fun h => ht (Or.inr (Or.inl h))
  have h3 : t.ss = none := Classical.byContradiction fun h => ht (Or.inr (Or.inr h))
  obtain ⟨p0, e0, g0, e⟩ := addTruncatedQ_dayOnly m p hv t h1 h2 h3
  have ss := skel_strict m p0 g0.valid
  obtain ⟨_, r, en, er, rs, rtz, ri, _, _, _, _, _, hkeep, hday⟩ := C20_matches m (skel p0) ss.1 t hl
  rw [normalise24_strict' m _ ss] at en
  cases en
  obtain ⟨z1, z2, z3⟩ := hkeep h1 h2 h3
  obtain ⟨qs, qi⟩ := reT_spec m p0 ⟨g0.valid, g0.lt24⟩ r rs ⟨z1, z2, z3⟩
  obtain ⟨_, pi0⟩ := reT_spec m p0 ⟨g0.valid, g0.lt24⟩ (skel p0) ss ⟨rfl, rfl, rfl⟩
  rw [reT_skel] at pi0
  have hsk : skel (reT p0 r) = r := by
    obtain ⟨rd, rh, rm, rss, rz⟩ := r
    simp only at z1 z2 z3
    subst z1 z2 z3
    rfl
  refine ⟨p0, reT p0 r, e0, by rw [e]; show Option.map (reT p0) (addTruncated m (skel p0) t) = _; rw [er]; rfl,
    qs.1, qs.2, by show r.tz = p.tz; rw [rtz]; exact g0.tz, ?_, rfl, rfl, rfl, ?_⟩
  · have := g0.inst
    have := Rat.intCast_le_intCast.2 ri
    grind
  · intro hd
    rw [hsk]
    exact hday hd

/-! ## The result is the earliest match, among ALL rational-slot candidates -/

/-- The time of day of `x`, expanded to hour, minute, second as `get_hour_minute_second` does,
    shows the time fields `add_truncated` aims for (the given ones, lower ones zero). -/
def TimeMatchQ (m : Mode) (t : Trunc) (x : TPQ) : Prop :=
  ∃ H M S : Rat, hmsQ m x = some (H, M, S) ∧ (∀ h, t.hh = some h → H = (h : Rat)) ∧
    (∀ v, effMI t = some v → M = (v : Rat)) ∧ (∀ s, effSS t = some s → S = (s : Rat))

/-- `q` is the earliest legal point (any precision form, `hh < 24`) in `p`'s offset, not earlier
    than `p`, that satisfies `Match`. -/
def EarliestQ (m : Mode) (p q : TPQ) (Match : TPQ → Prop) : Prop :=
  q.Valid m ∧ q.hh < 24 ∧ q.tz = p.tz ∧ Match q ∧ p.inst m ≤ q.inst m ∧
  ∀ x : TPQ, x.Valid m → x.hh < 24 → x.tz = p.tz → Match x → p.inst m ≤ x.inst m → q.inst m ≤ x.inst m

/-- A candidate whose expanded time of day shows whole-number targets down to the second is a
    whole-second point. -/
theorem timeMatchQ_whole (m : Mode) (t : Trunc) (ht : HasTime t) (x : TPQ) (hx : TPQ.Strict m x)
    (hm : TimeMatchQ m t x) :
    ∃ x' : TP, x'.Strict m ∧ x'.tz = x.tz ∧ x'.date = x.date ∧ ((x'.inst m : Int) : Rat) = x.inst m ∧
      TimeMatch t x' := by
  obtain ⟨H, M, S, e, m1, m2, m3⟩ := hm
  obtain ⟨x', f, e1, f0, f1, xs, xd, xtz, xi, _⟩ := hmsTPQ_spec m x hx
  simp only [hmsTPQ, e, Option.map_some, liftF, Option.some.injEq, TPQ.mk.injEq] at e1
  obtain ⟨_, eH, eM, eS, _⟩ := e1
  obtain ⟨s, hs⟩ := truncSS_some_of_time t ht
  have hS := m3 s hs
  have hf : f = 0 := by
    apply Classical.byContradiction
    intro hne
    have hpos : 0 < f := by grind
    exact not_isInt_add_frac x'.ss f hpos f1 s (by rw [← eS, hS])
  subst hf
  refine ⟨x', xs, xtz, xd, by rw [← xi]; grind, ?_, ?_, ?_⟩
  · intro h hh
    have := m1 h hh
    rw [eH] at this
    exact Rat.intCast_inj.1 this
  · intro v hv
    have := m2 v hv
    rw [eM] at this
    exact Rat.intCast_inj.1 this
  · intro s' hs'
    have := m3 s' hs'
    rw [eS, Rat.add_zero] at this
    exact Rat.intCast_inj.1 this

theorem timeMatchQ_ofTP (m : Mode) (t : Trunc) (q : TP) (h : TimeMatch t q) : TimeMatchQ m t (TPQ.ofTP q) :=
  ⟨_, _, _, hmsQ_ofTP m q, fun h' hh => (by rw [h.1 h' hh]), fun v hv => (by rw [h.2.1 v hv]),
    fun s hs => (by rw [h.2.2 s hs])⟩

/-- Transfer of "earliest" from whole-second candidates to all rational-slot candidates: `c` is
    the least whole second not earlier than `p`, and every candidate is a whole second. -/
theorem earliest_transfer (m : Mode) (p : TPQ) (c q' : TP) (ctz : c.tz = p.tz)
    (c1 : p.inst m ≤ ((c.inst m : Int) : Rat)) (c2 : ((c.inst m : Int) : Rat) < p.inst m + 1)
    (Match : TP → Prop) (MatchQ : TPQ → Prop)
    (he : EarliestAny m c q' Match) (hq : MatchQ (TPQ.ofTP q'))
    (hx : ∀ x : TPQ, TPQ.Strict m x → MatchQ x →
      ∃ x' : TP, x'.Strict m ∧ x'.tz = x.tz ∧ ((x'.inst m : Int) : Rat) = x.inst m ∧ Match x') :
    EarliestQ m p (TPQ.ofTP q') MatchQ := by
  obtain ⟨qs, qtz, _, qi, qmin⟩ := he
  have sq := ofTP_strict m q' qs
  refine ⟨sq.1, sq.2, by show q'.tz = p.tz; rw [qtz, ctz], hq, ?_, ?_⟩
  · rw [ofTP_inst]
    have := Rat.intCast_le_intCast.2 qi
    grind
  · intro x xv xlt xtz xm xge
    obtain ⟨x', xs', xtz', xi', xm'⟩ := hx x ⟨xv, xlt⟩ xm
    have : c.inst m ≤ x'.inst m := by
      have h1 : ((c.inst m : Int) : Rat) < ((x'.inst m + 1 : Int) : Rat) := by
        have c1' : (1 : Rat) = ((1 : Int) : Rat) := rfl
        rw [Rat.intCast_add, ← c1', xi']; grind
      have := Rat.intCast_lt_intCast.1 h1
      omega
    have := qmin x' xs' (by rw [xtz', xtz, ctz]) xm' this
    rw [ofTP_inst, ← xi']
    exact Rat.intCast_le_intCast.2 this

/-- **C20, earliest match, an hour is named** (`Thh`, `Thh:mm`, `Thh:mm:ss`, alone or with one day
    designator: `--DDThh`, `-DDDThh:mm`, `-W-DThh`, `-Www-DThh`): for EVERY legal `p` in any precision
    form, the result is the earliest point - among the legal points of EVERY precision form,
    fractions included - in `p`'s offset, not earlier than `p`, whose time of day is exactly
    `hh:mm:ss` (missing lower fields zero) and whose date carries the designator.  So `T06` added to
    `06:00:00,5` goes to the NEXT day's `06:00:00` (today's is earlier than `p`). -/
theorem C20_earliest_rat_hours (m : Mode) (p : TPQ) (hv : p.Valid m) (t : Trunc) (hl : LegalTrunc m t)
    (hd : DayShape t) (hwk : t.week ≠ none → t.dow ≠ none) (h : Int) (hh : t.hh = some h) :
    ∃ q' : TP, addTruncatedQ m p t = some (TPQ.ofTP q') ∧
      EarliestQ m p (TPQ.ofTP q') (fun x => TimeMatchQ m t x ∧ DayMatch m t (x.date.dayNum m)) := by
  have ht : HasTime t := Or.inl (by rw [hh]; simp)
  obtain ⟨c, _, cs, ctz, _, c1, c2, e⟩ := C20_time_field_is_ceilSec_run m p hv t ht
  obtain ⟨q', eq, he⟩ := C20_day_hour_earliest m c cs.1 t hl hd hwk h hh
  obtain ⟨e1, e2⟩ := (eff_of t).2.2.2.2.2 h hh
  refine ⟨q', by rw [e, eq]; rfl, earliest_transfer m p c q' ctz c1 c2 _ _ he ?_ ?_⟩
  · obtain ⟨_, _, ⟨m1, m2, m3, m4⟩, _⟩ := he
    refine ⟨timeMatchQ_ofTP m t q' ⟨fun h' hh' => (by rw [hh] at hh'; cases hh'; exact m1),
      fun v hv => (by rw [e1] at hv; cases hv; exact m2), fun s hs => (by rw [e2] at hs; cases hs; exact m3)⟩, m4⟩
  · intro x xs ⟨xm, xd⟩
    obtain ⟨x', xs', xtz', xdt, xi', tm⟩ := timeMatchQ_whole m t ht x xs xm
    exact ⟨x', xs', xtz', xi', tm.1 h hh, tm.2.1 _ e1, tm.2.2 _ e2, by rw [xdt]; exact xd⟩

/-- **`T-mm`, `T-mm:ss`** (minute, no hour, no day designator), every legal `p`. -/
theorem C20_earliest_rat_minutes (m : Mode) (p : TPQ) (hv : p.Valid m) (v : Int) (hvr : 0 ≤ v ∧ v < 60)
    (ss : Option Int) (hs : ∀ s, ss = some s → 0 ≤ s ∧ s < 60) :
    ∃ q' : TP, addTruncatedQ m p ⟨none, none, none, none, none, some v, ss, none⟩ = some (TPQ.ofTP q') ∧
      EarliestQ m p (TPQ.ofTP q') (TimeMatchQ m ⟨none, none, none, none, none, some v, ss, none⟩) := by
  have ht : HasTime ⟨none, none, none, none, none, some v, ss, none⟩ := Or.inr (Or.inl (by simp))
  obtain ⟨c, _, cs, ctz, _, c1, c2, e⟩ := C20_time_field_is_ceilSec_run m p hv _ ht
  obtain ⟨q', eq, qs, qtz, qr, qm, qge, qmin⟩ := C20_minutes m c cs.1 v hvr ss hs
  have e1 : effMI ⟨none, none, none, none, none, some v, ss, none⟩ = some v := rfl
  have e2 : effSS ⟨none, none, none, none, none, some v, ss, none⟩ = some (ss.getD 0) := by
    cases ss <;> rfl
  refine ⟨q', by rw [e, eq]; rfl,
    earliest_transfer m p c q' ctz c1 c2 (fun x => x.mi = v ∧ x.ss = ss.getD 0) _ ⟨qs, qtz, qm, qge, qmin⟩ ?_ ?_⟩
  · exact timeMatchQ_ofTP m _ q' ⟨fun h' hh' => (by cases hh'), fun v' hv' => (by rw [e1] at hv'; cases hv'; exact qm.1),
      fun s hs' => (by rw [e2] at hs'; cases hs'; exact qm.2)⟩
  · intro x xs xm
    obtain ⟨x', xs', xtz', _, xi', tm⟩ := timeMatchQ_whole m _ ht x xs xm
    exact ⟨x', xs', xtz', xi', tm.2.1 _ e1, tm.2.2 _ e2⟩

/-- **`T--ss`** (only a second), every legal `p`: `T--15` added to a point at `hh:mm:15` exactly
    returns it; added to `hh:mm:15,5` it goes to the NEXT minute's `:15`.  The candidates range over
    all precision forms, so nothing between `p` and the result - whole second or not - shows second
    15 (with a zero fraction). -/
theorem C20_earliest_rat_seconds (m : Mode) (p : TPQ) (hv : p.Valid m) (s : Int) (hs : 0 ≤ s ∧ s < 60) :
    ∃ q' : TP, addTruncatedQ m p ⟨none, none, none, none, none, none, some s, none⟩ = some (TPQ.ofTP q') ∧
      EarliestQ m p (TPQ.ofTP q') (TimeMatchQ m ⟨none, none, none, none, none, none, some s, none⟩) := by
  have ht : HasTime ⟨none, none, none, none, none, none, some s, none⟩ := Or.inr (Or.inr (by simp))
  obtain ⟨c, _, cs, ctz, _, c1, c2, e⟩ := C20_time_field_is_ceilSec_run m p hv _ ht
  obtain ⟨q', eq, qs, qtz, qr, qm, qge, qmin⟩ := C20_seconds m c cs.1 s hs
  refine ⟨q', by rw [e, eq]; rfl,
    earliest_transfer m p c q' ctz c1 c2 (fun x => x.ss = s) _ ⟨qs, qtz, qm, qge, qmin⟩ ?_ ?_⟩
  · exact timeMatchQ_ofTP m _ q' ⟨fun h' hh' => (by cases hh'), fun v' hv' => (by cases hv'),
      fun s' hs' => (by cases hs'; exact qm)⟩
  · intro x xs xm
    obtain ⟨x', xs', xtz', _, xi', tm⟩ := timeMatchQ_whole m _ ht x xs xm
    exact ⟨x', xs', xtz', xi', tm.2.2 s rfl⟩

/-- **C20, earliest match, only day designators named** (`--DD`, `-DDD`, `-W-D`, `-Www-D`; any `p`,
    with or without a fraction, any precision form): the time slots are those of `p0` (`p` with 24:00
    normalised) and the result is the earliest legal point in `p`'s offset, not earlier than `p`, with
    exactly those slots, whose date carries the designator.  A fraction survives: `---15` added to
    `2000-01-01T00:00:15,5Z` is `2000-01-15T00:00:15,5Z`. -/
theorem C20_earliest_rat_day (m : Mode) (p : TPQ) (hv : p.Valid m) (t : Trunc) (hl : LegalTrunc m t)
    (hd : DayShape t) (hwk : t.week ≠ none → t.dow ≠ none) (ht : ¬ HasTime t) :
    ∃ p0 q, normalise24Q m p = some p0 ∧ addTruncatedQ m p t = some q ∧
      EarliestQ m p q (fun x => x.hh = p0.hh ∧ x.mi = p0.mi ∧ x.ss = p0.ss ∧ DayMatch m t (x.date.dayNum m)) := by
  have h1 : t.hh = none := Classical.byContradiction fun h => ht (Or.inl h)
  have h2 : t.mi = none := Classical.byContradiction fun h => ht (Or.inr (Or.inl h))
  have h3 : t.ss = none := Classical.byContradiction fun h => ht (Or.inr (Or.inr h))
  obtain ⟨p0, e0, g0, e⟩ := addTruncatedQ_dayOnly m p hv t h1 h2 h3
  have ss := skel_strict m p0 g0.valid
  obtain ⟨_, r, en, er, rs, rtz, ⟨z1, z2, z3, rdm⟩, ri, rmin⟩ := C20_day_only_earliest m (skel p0) ss.1 t hl hd hwk ⟨h1, h2, h3⟩
  rw [normalise24_strict' m _ ss] at en
  cases en
  obtain ⟨qs, qi⟩ := reT_spec m p0 ⟨g0.valid, g0.lt24⟩ r rs ⟨z1, z2, z3⟩
  obtain ⟨_, pi0⟩ := reT_spec m p0 ⟨g0.valid, g0.lt24⟩ (skel p0) ss ⟨rfl, rfl, rfl⟩
  rw [reT_skel] at pi0
  have hpi := g0.inst
  refine ⟨p0, reT p0 r, e0, by rw [e]; show Option.map (reT p0) (addTruncated m (skel p0) t) = _; rw [er]; rfl,
    qs.1, qs.2, by show r.tz = p.tz; rw [rtz]; exact g0.tz, ⟨rfl, rfl, rfl, rdm⟩, ?_, ?_⟩
  · have := Rat.intCast_le_intCast.2 ri
    grind
  · intro x xv xlt xtz ⟨x1, x2, x3, xd⟩ xge
    obtain ⟨_, xi⟩ := reT_spec m x ⟨xv, xlt⟩ (skel x) (skel_strict m x xv) ⟨rfl, rfl, rfl⟩
    rw [reT_skel] at xi
    have hsecs : x.hms.secs = p0.hms.secs := by simp only [TPQ.hms, x1, x2, x3]
    have hle : (skel p0).inst m ≤ (skel x).inst m := by
      apply Rat.intCast_le_intCast.1
      grind
    have := rmin (skel x) (skel_strict m x xv) (by show x.tz = p0.tz; rw [xtz, g0.tz]) ⟨rfl, rfl, rfl, xd⟩ hle
    have := Rat.intCast_le_intCast.2 this
    grind

/-! ## All inputs; applying `t` again changes nothing -/

theorem timeMatch_of_fields (t : Trunc) (q : TP) (a1 : ∀ s, t.ss = some s → q.ss = s)
    (a2 : ∀ x, t.mi = some x → q.mi = x) (a3 : ∀ h, t.hh = some h → q.hh = h)
    (a4 : t.hh ≠ none → t.mi = none → q.mi = 0) (a5 : (t.hh ≠ none ∨ t.mi ≠ none) → t.ss = none → q.ss = 0) :
    TimeMatch t q := by
  obtain ⟨week, dow, dom, doy, hh, mi, ss, tz⟩ := t
  refine ⟨a3, ?_, ?_⟩
  · intro x hx
    cases hh <;> cases mi <;> simp [effMI] at hx a2 a4 <;> first | (subst hx; exact a2) | (subst hx; exact a4)
  · intro s hs
    cases ss with
    | some s' => simp [effSS] at hs; subst hs; exact a1 s' rfl
    | none =>
      cases hh <;> cases mi <;> simp [effSS, effMI] at hs a5 <;> (subst hs; exact a5)

/-- **C20, fields, all inputs**: for every legal `p` in any precision form (fraction or not) and
    every legal `t`, `add_truncated` returns a point `q` that is legal with `hh < 24`, in `p`'s offset,
    not earlier than `p`, and
    * its time of day, expanded to hour, minute, second, shows every time field `t` specifies with
      the lower ones zero (`TimeMatchQ`);
    * if `t` names a time field, `q` is a whole-second point in hour:minute:second form (all three
      slots present and whole) - `p`'s precision form and fraction are not kept;
    * if `t` names no time field, `q`'s three slots are exactly those of `p` with 24:00 normalised:
      same precision form (`None` slots stay `None`), same fraction;
    * for at most one day designator the date of `q` carries it. -/
theorem C20_matches_rat (m : Mode) (p : TPQ) (hv : p.Valid m) (t : Trunc) (hl : LegalTrunc m t) :
    ∃ q, addTruncatedQ m p t = some q ∧
    q.Valid m ∧ q.hh < 24 ∧ q.tz = p.tz ∧ p.inst m ≤ q.inst m ∧ TimeMatchQ m t q ∧
    (HasTime t → ∃ q' : TP, q = TPQ.ofTP q') ∧
    (¬ HasTime t → ∃ p0, normalise24Q m p = some p0 ∧ q.hh = p0.hh ∧ q.mi = p0.mi ∧ q.ss = p0.ss) ∧
    (DayShape t → DayMatch m t (q.date.dayNum m)) := by
  by_cases ht : HasTime t
  · obtain ⟨q', e, qs, qtz, qi, a1, a2, a3, a4, a5, a6⟩ := C20_matches_rat_time m p hv t hl ht
    have sq := ofTP_strict m q' qs
    exact ⟨TPQ.ofTP q', e, sq.1, sq.2, qtz, by rw [ofTP_inst]; exact qi,
      timeMatchQ_ofTP m t q' (timeMatch_of_fields t q' a1 a2 a3 a4 a5), fun _ => ⟨q', rfl⟩,
      fun hn => absurd ht hn, fun hd => (a6 hd).2⟩
  · obtain ⟨p0, q, e0, e, a, b, c, d, k1, k2, k3, dm⟩ := C20_matches_rat_day m p hv t hl ht
    have h1 : t.hh = none := Classical.byContradiction fun h => ht (Or.inl h)
    have h2 : t.mi = none := Classical.byContradiction fun h => ht (Or.inr (Or.inl h))
    have h3 : t.ss = none := Classical.byContradiction fun h => ht (Or.inr (Or.inr h))
    obtain ⟨e1, e2⟩ := (eff_of t).2.2.2.2.1 h1 h2 h3
    obtain ⟨H, M, S, eh, _⟩ := hmsQ_spec m q ⟨a, b⟩
    exact ⟨q, e, a, b, c, d, ⟨_, _, _, eh, fun h' hh' => (by rw [h1] at hh'; cases hh'),
      fun v hv' => (by rw [e1] at hv'; cases hv'), fun s hs => (by rw [e2] at hs; cases hs)⟩,
      fun h => absurd h ht, fun _ => ⟨p0, e0, k1, k2, k3⟩, fun hd => (dm hd).2⟩

/-- **Applying `t` again returns the same result** (at most one day designator, any time fields,
    every legal `p`). -/
theorem C20_idempotent_rat (m : Mode) (p : TPQ) (hv : p.Valid m) (t : Trunc) (hl : LegalTrunc m t)
    (hd : DayShape t) (q : TPQ) (h : addTruncatedQ m p t = some q) :
    addTruncatedQ m q t = some q := by
  by_cases ht : HasTime t
  · obtain ⟨c, _, cs, _, _, _, _, e⟩ := C20_time_field_is_ceilSec_run m p hv t ht
    rw [e] at h
    obtain ⟨q', eq, rfl⟩ := Option.map_eq_some_iff.1 h
    rw [addTruncatedQ_ofTP, C20_day_idempotent m c cs.1 t hl hd q' eq]
    rfl
  · have h1 : t.hh = none := Classical.byContradiction fun h => ht (Or.inl h)
    have h2 : t.mi = none := Classical.byContradiction fun h => ht (Or.inr (Or.inl h))
    have h3 : t.ss = none := Classical.byContradiction fun h => ht (Or.inr (Or.inr h))
    obtain ⟨p0, e0, g0, e⟩ := addTruncatedQ_dayOnly m p hv t h1 h2 h3
    have ss := skel_strict m p0 g0.valid
    rw [e] at h
    obtain ⟨r, er, rfl⟩ := Option.map_eq_some_iff.1 h
    obtain ⟨_, r2, en, er2, rs, _, _, _, _, _, _, _, hkeep, _⟩ := C20_matches m (skel p0) ss.1 t hl
    rw [normalise24_strict' m _ ss] at en
    cases en
    have er' : addTruncated m (skel p0) t = some r := er
    rw [er'] at er2; cases er2
    obtain ⟨z1, z2, z3⟩ := hkeep h1 h2 h3
    obtain ⟨qs, _⟩ := reT_spec m p0 ⟨g0.valid, g0.lt24⟩ r rs ⟨z1, z2, z3⟩
    have hsk : skel (reT p0 r) = r := by
      obtain ⟨rd, rh, rm, rss, rz⟩ := r
      simp only at z1 z2 z3
      subst z1 z2 z3
      rfl
    obtain ⟨q0, eq0, _, e2⟩ := addTruncatedQ_dayOnly m (reT p0 r) qs.1 t h1 h2 h3
    rw [normalise24Q_strict m _ qs] at eq0
    cases eq0
    rw [e2]
    show Option.map (reT (reT p0 r)) (addTruncated m (skel (reT p0 r)) t) = _
    rw [hsk, C20_day_idempotent m (skel p0) ss.1 t hl hd r er']
    rfl

/-- With a zone of its own, `t` is read in that zone and the answer is re-expressed in `p`'s. -/
theorem C20_zone_rat (m : Mode) (p : TPQ) (t : Trunc) (z : TZ) (hz : t.tz = some z) :
    addTruncTPQ m p t =
      (toTimeZoneQ m p z).bind fun q => (addTruncatedQ m q t).bind fun r => toTimeZoneQ m r p.tz := by
  unfold addTruncTPQ addTruncTPQF; rw [hz]; rfl

theorem C20_no_zone_rat (m : Mode) (p : TPQ) (t : Trunc) (hz : t.tz = none) :
    addTruncTPQ m p t = addTruncatedQ m p t := by
  unfold addTruncTPQ addTruncTPQF; rw [hz]; rfl

/-! ## Non-vacuity -/

-- `T06` added to decimal-minute `05:59,5` (= 05:59:30): result 06:00:00 in h:m:s form
example : addTruncatedQ .greg ⟨.cal 2000 1 1, 5, some (119/2), none, ⟨0, 0⟩⟩ ⟨none, none, none, none, some 6, none, none, none⟩ =
    some ⟨.cal 2000 1 1, 6, some 0, some 0, ⟨0, 0⟩⟩ := by decide +kernel
-- `T06` added to decimal-hour `06,5` (= 06:30:00): tomorrow 06:00:00
example : addTruncatedQ .greg ⟨.cal 2000 12 31, 13/2, none, none, ⟨5, 30⟩⟩ ⟨none, none, none, none, some 6, none, none, none⟩ =
    some ⟨.cal 2001 1 1, 6, some 0, some 0, ⟨5, 30⟩⟩ := by decide +kernel
-- `T00` added to `2000-12-31T23:59:59,5`: the step to the next whole second crosses the year
example : ceilSec .greg ⟨.cal 2000 12 31, 23, some 59, some (119/2), ⟨0, 0⟩⟩ = some ⟨.cal 2001 1 1, 0, some 0, some 0, ⟨0, 0⟩⟩ := by
  decide +kernel
example : addTruncatedQ .greg ⟨.cal 2000 12 31, 23, some 59, some (119/2), ⟨0, 0⟩⟩ ⟨none, none, none, none, some 0, none, none, none⟩ =
    some ⟨.cal 2001 1 1, 0, some 0, some 0, ⟨0, 0⟩⟩ := by decide +kernel
-- `---15` added to `00:00:15,5`: the fraction survives; to decimal-hour `05,5`: the form survives
example : addTruncatedQ .greg ⟨.cal 2000 1 1, 0, some 0, some (31/2), ⟨0, 0⟩⟩ ⟨none, none, some 15, none, none, none, none, none⟩ =
    some ⟨.cal 2000 1 15, 0, some 0, some (31/2), ⟨0, 0⟩⟩ := by decide +kernel
example : addTruncatedQ .greg ⟨.cal 2000 1 1, 11/2, none, none, ⟨0, 0⟩⟩ ⟨none, some 3, none, none, none, none, none, none⟩ =
    some ⟨.week 2000 1 3, 11/2, none, none, ⟨0, 0⟩⟩ := by decide +kernel
-- 24:00 in decimal-hour form + `-W-3`
example : addTruncatedQ .greg ⟨.cal 2000 1 1, 24, none, none, ⟨0, 0⟩⟩ ⟨none, some 3, none, none, none, none, none, none⟩ =
    some ⟨.week 2000 1 3, 0, none, none, ⟨0, 0⟩⟩ := by decide +kernel

/-- `C20_time_field_is_ceilSec_run` / `C20_matches_rat_time` at `-001T06` + `2000-12-31T05:30:00,25+05:30`
    (strictly inside a second). -/
example : ∃ q' : TP, addTruncatedQ .greg ⟨.cal 2000 12 31, 5, some 30, some (1/4), ⟨5, 30⟩⟩
      ⟨none, none, none, some 1, some 6, none, none, none⟩ = some (TPQ.ofTP q') ∧ q'.hh = 6 ∧ q'.mi = 0 ∧ q'.ss = 0 ∧
      getDoy q' = 1 := by
  obtain ⟨q', e, _, _, _, _, _, a3, a4, a5, a6⟩ := C20_matches_rat_time .greg ⟨.cal 2000 12 31, 5, some 30, some (1/4), ⟨5, 30⟩⟩
    (by decide +kernel) ⟨none, none, none, some 1, some 6, none, none, none⟩ (legal_of_legalB _ _ (by decide))
    (by decide)
  exact ⟨q', e, a3 6 rfl, a4 (by decide) rfl, a5 (Or.inl (by decide)) rfl, ((a6 (by decide)).1.2.2.1 1 rfl).2⟩

/-- `C20_matches_rat_day` / `C20_earliest_rat_day` at `--31` + `2001-01-31T24:00+05:30` in decimal-minute form
    and at `-W53-5` + `2021-03-01T10:07,375Z`. -/
example : ∃ p0 q, normalise24Q .greg ⟨.cal 2001 1 31, 24, some 0, none, ⟨5, 30⟩⟩ = some p0 ∧
    addTruncatedQ .greg ⟨.cal 2001 1 31, 24, some 0, none, ⟨5, 30⟩⟩ ⟨none, none, some 31, none, none, none, none, none⟩ = some q ∧
    EarliestQ .greg ⟨.cal 2001 1 31, 24, some 0, none, ⟨5, 30⟩⟩ q
      (fun x => x.hh = p0.hh ∧ x.mi = p0.mi ∧ x.ss = p0.ss ∧
        DayMatch .greg ⟨none, none, some 31, none, none, none, none, none⟩ (x.date.dayNum .greg)) :=
  C20_earliest_rat_day .greg _ (by decide +kernel) _ (legal_of_legalB _ _ (by decide)) (by decide) (by decide) (by decide)
example : addTruncatedQ .greg ⟨.cal 2001 1 31, 24, some 0, none, ⟨5, 30⟩⟩ ⟨none, none, some 31, none, none, none, none, none⟩ =
    some ⟨.cal 2001 3 31, 0, some 0, none, ⟨5, 30⟩⟩ := by decide +kernel
example : addTruncatedQ .greg ⟨.cal 2021 3 1, 10, some (59/8), none, ⟨0, 0⟩⟩ ⟨some 53, some 5, none, none, none, none, none, none⟩ =
    some ⟨.week 2026 53 5, 10, some (59/8), none, ⟨0, 0⟩⟩ := by decide +kernel

/-- `C20_earliest_rat_hours` at `T06` + `2000-01-01T06:00:00,5Z`: the NEXT day's 06:00:00;
    `C20_earliest_rat_seconds` at `T--15` + `00:00:15,5Z`: the next minute's :15;
    `C20_earliest_rat_minutes` at `T-30` + decimal-minute `23:59,5` on the last day of a 360-day year. -/
example : ∃ q' : TP, addTruncatedQ .greg ⟨.cal 2000 1 1, 6, some 0, some (1/2), ⟨0, 0⟩⟩ ⟨none, none, none, none, some 6, none, none, none⟩ =
      some (TPQ.ofTP q') ∧
    EarliestQ .greg ⟨.cal 2000 1 1, 6, some 0, some (1/2), ⟨0, 0⟩⟩ (TPQ.ofTP q')
      (fun x => TimeMatchQ .greg ⟨none, none, none, none, some 6, none, none, none⟩ x ∧
        DayMatch .greg ⟨none, none, none, none, some 6, none, none, none⟩ (x.date.dayNum .greg)) :=
  C20_earliest_rat_hours .greg _ (by decide +kernel) _ (legal_of_legalB _ _ (by decide)) (by decide) (by decide) 6 rfl
example : addTruncatedQ .greg ⟨.cal 2000 1 1, 6, some 0, some (1/2), ⟨0, 0⟩⟩ ⟨none, none, none, none, some 6, none, none, none⟩ =
    some ⟨.cal 2000 1 2, 6, some 0, some 0, ⟨0, 0⟩⟩ := by decide +kernel
example : ∃ q' : TP, addTruncatedQ .greg ⟨.cal 2000 1 1, 0, some 0, some (31/2), ⟨0, 0⟩⟩ ⟨none, none, none, none, none, none, some 15, none⟩ =
      some (TPQ.ofTP q') ∧
    EarliestQ .greg ⟨.cal 2000 1 1, 0, some 0, some (31/2), ⟨0, 0⟩⟩ (TPQ.ofTP q')
      (TimeMatchQ .greg ⟨none, none, none, none, none, none, some 15, none⟩) :=
  C20_earliest_rat_seconds .greg _ (by decide +kernel) 15 (by decide)
example : addTruncatedQ .greg ⟨.cal 2000 1 1, 0, some 0, some (31/2), ⟨0, 0⟩⟩ ⟨none, none, none, none, none, none, some 15, none⟩ =
    some ⟨.cal 2000 1 1, 0, some 1, some 15, ⟨0, 0⟩⟩ := by decide +kernel
example : ∃ q' : TP, addTruncatedQ .d360 ⟨.ord 2000 360, 23, some (119/2), none, ⟨0, 0⟩⟩ ⟨none, none, none, none, none, some 30, none, none⟩ =
      some (TPQ.ofTP q') ∧
    EarliestQ .d360 ⟨.ord 2000 360, 23, some (119/2), none, ⟨0, 0⟩⟩ (TPQ.ofTP q')
      (TimeMatchQ .d360 ⟨none, none, none, none, none, some 30, none, none⟩) :=
  C20_earliest_rat_minutes .d360 _ (by decide +kernel) 30 (by decide) none (fun _ h => by cases h)
example : addTruncatedQ .d360 ⟨.ord 2000 360, 23, some (119/2), none, ⟨0, 0⟩⟩ ⟨none, none, none, none, none, some 30, none, none⟩ =
    some ⟨.ord 2001 1, 0, some 30, some 0, ⟨0, 0⟩⟩ := by decide +kernel

/-- `C20_idempotent_rat` at a day-designator run with a fraction and at a time run from inside a second;
    `C20_never_earlier_rat`; `C20_matches_rat`. -/
example : addTruncatedQ .greg ⟨.cal 2000 1 15, 0, some 0, some (31/2), ⟨0, 0⟩⟩ ⟨none, none, some 15, none, none, none, none, none⟩ =
    some ⟨.cal 2000 1 15, 0, some 0, some (31/2), ⟨0, 0⟩⟩ :=
  C20_idempotent_rat .greg ⟨.cal 2000 1 1, 0, some 0, some (31/2), ⟨0, 0⟩⟩ (by decide +kernel) _
    (legal_of_legalB _ _ (by decide)) (by decide) _ (by decide +kernel)
example : addTruncatedQ .greg ⟨.cal 2000 1 1, 6, some 0, some 0, ⟨0, 0⟩⟩ ⟨none, none, none, none, some 6, none, none, none⟩ =
    some ⟨.cal 2000 1 1, 6, some 0, some 0, ⟨0, 0⟩⟩ :=
  C20_idempotent_rat .greg ⟨.cal 2000 1 1, 5, some 59, some (479/8), ⟨0, 0⟩⟩ (by decide +kernel) _
    (legal_of_legalB _ _ (by decide)) (by decide) _ (by decide +kernel)
example : (⟨.cal 2000 1 1, 5, some 59, some (479/8), ⟨0, 0⟩⟩ : TPQ).inst .greg ≤
    (⟨.cal 2000 1 2, 5, some 0, some 0, ⟨0, 0⟩⟩ : TPQ).inst .greg :=
  (C20_never_earlier_rat .greg ⟨.cal 2000 1 1, 5, some 59, some (479/8), ⟨0, 0⟩⟩ (by decide +kernel)
    ⟨none, none, none, none, some 6, none, none, some ⟨1, 0⟩⟩ (legal_of_legalB _ _ (by decide))
    (by intro z h; cases h; decide) _ (by decide +kernel)).2.2.2
example : ∃ q, addTruncatedQ .greg ⟨.cal 2000 1 1, 11/2, none, none, ⟨0, 0⟩⟩ ⟨none, some 3, none, none, none, none, none, none⟩ = some q ∧
    q.mi = none ∧ DayMatch .greg ⟨none, some 3, none, none, none, none, none, none⟩ (q.date.dayNum .greg) := by
  obtain ⟨q, e, _, _, _, _, _, _, hk, hd⟩ := C20_matches_rat .greg ⟨.cal 2000 1 1, 11/2, none, none, ⟨0, 0⟩⟩ (by decide +kernel)
    ⟨none, some 3, none, none, none, none, none, none⟩ (legal_of_legalB _ _ (by decide))
  obtain ⟨p0, e0, _, k2, _⟩ := hk (by decide)
  have : p0 = ⟨.cal 2000 1 1, 11/2, none, none, ⟨0, 0⟩⟩ := by
    have h0 : normalise24Q .greg ⟨.cal 2000 1 1, 11/2, none, none, ⟨0, 0⟩⟩ = some ⟨.cal 2000 1 1, 11/2, none, none, ⟨0, 0⟩⟩ := by
      decide +kernel
    rw [h0] at e0; cases e0; rfl
  exact ⟨q, e, by rw [k2, this], hd (by decide)⟩

end IsoDT.Props.C20
