/-
  C06 (continued) — re-zoning is canonical and composes.

  A point with `0 ≤ h < 24` is determined by its instant, its UTC offset and its date representation
  (`C06_canonical`); hence re-zoning through an intermediate offset gives field for field what the
  direct re-zoning gives, re-zoning to the offset a point already has is the identity, and going
  there and back returns the very same point.
-/
import IsoDT.Props.C06
import IsoDT.Lemmas.Conv

namespace IsoDT.Props.C06
open IsoDT IsoDT.Model IsoDT.Lemmas
open IsoDT.Spec (Date TZ TP)

/-- Two points with `0 ≤ h < 24` in the same representation and offset that denote the same instant
    are the same point, field for field. -/
theorem C06_canonical (m : Mode) (a b : TP) (ha : a.Strict m) (hb : b.Strict m)
    (hr : a.date.rep = b.date.rep) (ht : a.tz = b.tz) (hi : a.inst m = b.inst m) : a = b := by
  obtain ⟨⟨da, a1, a2, a3, a4, a5, a6, a7, a8⟩, a9⟩ := ha
  obtain ⟨⟨db, b1, b2, b3, b4, b5, b6, b7, b8⟩, b9⟩ := hb
  obtain ⟨dta, ha', ma, sa, za⟩ := a
  obtain ⟨dtb, hb', mb, sb, zb⟩ := b
  simp only at *
  subst ht
  simp only [Spec.TP.inst, Spec.TP.secOfDay] at hi
  have hn : dta.dayNum m = dtb.dayNum m := by omega
  have hd := date_unique m dta dtb da db hr hn
  subst hd
  have : ha' = hb' ∧ ma = mb ∧ sa = sb := by omega
  obtain ⟨rfl, rfl, rfl⟩ := this
  rfl

/-- Re-zoning through an intermediate offset is the direct re-zoning, field for field. -/
theorem C06_compose (m : Mode) (p : TP) (z1 z2 : TZ) (hv : p.Valid m) (h24 : p.hh < 24)
    (hz1 : z1.Valid) (hz2 : z2.Valid) :
    ∃ q1 q2, toTimeZone m p z1 = some q1 ∧ toTimeZone m q1 z2 = some q2 ∧ toTimeZone m p z2 = some q2 := by
  obtain ⟨q1, e1, i1, t1, r1, v1, l1⟩ := toTimeZone_spec m p z1 hv hz1
  obtain ⟨q2, e2, i2, t2, r2, v2, l2⟩ := toTimeZone_spec m q1 z2 v1 hz2
  obtain ⟨q, e, i, t, r, v, l⟩ := toTimeZone_spec m p z2 hv hz2
  refine ⟨q1, q2, e1, e2, ?_⟩
  rw [e]
  congr 1
  exact C06_canonical m q q2 ⟨v, l h24⟩ ⟨v2, l2 (l1 h24)⟩ (by rw [r, r2, r1]) (by rw [t, t2])
    (by rw [i, i2, i1])

/-- Re-zoning to the offset the point already carries changes nothing; there and back is the
    identity. -/
theorem C06_identity_and_round_trip (m : Mode) (p : TP) (z : TZ) (hv : p.Valid m) (h24 : p.hh < 24)
    (hz : z.Valid) :
    toTimeZone m p p.tz = some p ∧
    ∃ q, toTimeZone m p z = some q ∧ toTimeZone m q p.tz = some p := by
  have hpz : p.tz.Valid := hv.2.2.2.2.2.2.2.2
  obtain ⟨q0, e0, i0, t0, r0, v0, l0⟩ := toTimeZone_spec m p p.tz hv hpz
  have id0 : q0 = p := C06_canonical m q0 p ⟨v0, l0 h24⟩ ⟨hv, h24⟩ r0 t0 i0
  refine ⟨by rw [e0, id0], ?_⟩
  obtain ⟨q1, q2, e1, e2, e3⟩ := C06_compose m p z p.tz hv h24 hz hpz
  refine ⟨q1, e1, ?_⟩
  rw [e2, ← e3, e0, id0]

/-! ## Non-vacuity -/

example : (toTimeZone .greg ⟨.week 2020 53 7, 23, 30, 0, ⟨5, 30⟩⟩ ⟨-11, -45⟩).bind
      (fun q => toTimeZone .greg q ⟨14, 0⟩) =
    toTimeZone .greg ⟨.week 2020 53 7, 23, 30, 0, ⟨5, 30⟩⟩ ⟨14, 0⟩ := by decide +kernel

end IsoDT.Props.C06
