/-
  C17 — strftime matches POSIX for the supported directives and strptime inverts it.

  Model: `Model/Strftime.lean` (`TimePointDumper.strftime`, `TimePointParser.strptime`) over the
  translation tables regenerated from parser_spec.py (`Gen.Strftime`).
  Specification: part 1 of `Lemmas/Strftime.lean` (`Spec.Posix`): `posix c items` is the POSIX text of a
  format on the civil date-time `c`; `IsCivil m p c` says `c` is the civil date-time of `p`;
  `parseFmt fmt = some items` says `fmt` is a format over the supported directives and literal text.
-/
import IsoDT.Lemmas.Strftime

namespace IsoDT.Props.C17
open IsoDT IsoDT.Model IsoDT.Model.Strf IsoDT.Lemmas IsoDT.Lemmas.Strf
open IsoDT.Spec (Date TZ TP)
open IsoDT.Spec.Posix
open IsoDT.Gen.Strftime (Fld Fmt Pat Cls Piece)

/-- Every valid point has a civil date-time (so the theorems below are about something). -/
theorem C17_civil_exists (m : Mode) (p : TP) (hv : p.Valid m) : ∃ c, IsCivil m p c := by
  obtain ⟨r, _, hrv, hrr, hn⟩ := convert_spec m 0 (by omega) p.date hv.1
  obtain ⟨y, mo, d, rfl⟩ := rep0_cal r hrr
  exact ⟨⟨y, mo, d, p.date.dayNum m - Spec.dby m y + 1, p.hh, p.mi, p.ss, 60 * p.tz.h + p.tz.mi,
    p.inst m - epochInst m⟩, hrv, hn, rfl, rfl, rfl, rfl, rfl, rfl⟩

/-- General form: the year needs to lie in 0000–9999 only if the format prints it. -/
theorem C17_strftime_general (m : Mode) (p : TP) (hv : p.Valid m) (c : Civil) (hc : IsCivil m p c)
    (fmt : List Char) (items : List FItem) (hf : parseFmt fmt = some items)
    (hy : SField.year ∈ fieldsOf items → 0 ≤ c.year ∧ c.year ≤ 9999) :
    strftime m p fmt = .ok (posix c items) := by
  obtain ⟨ht, hpc⟩ := translate_scan fmt items hf
  obtain ⟨p', hfd, hv', hrep, hn, h1, h2, h3, h4⟩ := forDump_spec m p hv
  have hc' := isCivil_transfer m p p' c hc hn h1 h2 h3 h4
  have hctx := dumpCtx_spec m p' hv' hrep c hc'
  have hren := render_items m p' hv' c hc' items hy
  unfold strftime
  rw [ht]
  simp only [hfd, Option.bind_some, hctx]
  rw [if_neg, if_neg]
  · exact congrArg Except.ok hren
  · simpa using hpc
  · intro ⟨hcen, hnot⟩
    apply hnot
    apply hy
    apply century_mem
    simpa using hcen

/-- **C17 (strftime)**: for every valid point `p` — calendar, ordinal or week representation, any
    UTC offset, any of the four calendar modes — whose civil year lies in 0000–9999, and every format
    string over the eleven supported directives and literal text, `p.strftime(fmt)` is the text POSIX
    `strftime` gives for the civil date-time of `p`: `%Y` is the *calendar* year also for week dates,
    `%j` the day of that year, `%z` carries the sign of the offset also when its hour part is zero,
    `%s` is the Unix time of the instant.  (24:00:00 is printed as hour 24 of the stored day.) -/
theorem C17_strftime (m : Mode) (p : TP) (hv : p.Valid m) (c : Civil) (hc : IsCivil m p c)
    (hy : 0 ≤ c.year ∧ c.year ≤ 9999) (fmt : List Char) (items : List FItem)
    (hf : parseFmt fmt = some items) :
    strftime m p fmt = .ok (posix c items) :=
  C17_strftime_general m p hv c hc fmt items hf (fun _ => hy)

/-- Outside 0000–9999 a format that prints the year is refused (`TimePointDumperBoundsError`), never
    rendered with a truncated year. -/
theorem C17_strftime_bounds (m : Mode) (p : TP) (hv : p.Valid m) (c : Civil) (hc : IsCivil m p c)
    (hy : ¬ (0 ≤ c.year ∧ c.year ≤ 9999)) (fmt : List Char) (items : List FItem)
    (hf : parseFmt fmt = some items) (hyear : Piece.fld .century ∈ piecesOfItems items) :
    strftime m p fmt = .error .bounds := by
  obtain ⟨ht, _⟩ := translate_scan fmt items hf
  obtain ⟨p', hfd, hv', hrep, hn, h1, h2, h3, h4⟩ := forDump_spec m p hv
  have hc' := isCivil_transfer m p p' c hc hn h1 h2 h3 h4
  have hctx := dumpCtx_spec m p' hv' hrep c hc'
  unfold strftime
  rw [ht]
  simp only [hfd, Option.bind_some, hctx]
  rw [if_pos]
  exact ⟨by simpa using hyear, hy⟩

/-- **C17 (`%s`)**: `%s` prints the whole number of seconds from 1970-01-01T00:00:00Z to the instant
    of `p`, in decimal, for every valid point (no restriction on the year). -/
theorem C17_unix (m : Mode) (p : TP) (hv : p.Valid m) :
    strftime m p ['%', 's'] = .ok (decimalInt (p.inst m - unixEpoch.inst m)) := by
  obtain ⟨c, hc⟩ := C17_civil_exists m p hv
  have h := C17_strftime_general m p hv c hc ['%', 's'] [.conv .s] (by decide) (by simp [fieldsOf, Dir.fields])
  rw [h, unixEpoch_inst]
  simp [posix, itemText, field, hc.2.2.2.2.2.2.2]

/-- **C17 (unsupported)**: a format in which `%` is followed by any other letter, digit or underscore
    is refused with `StrftimeSyntaxError` (a `ValueError`) by both `strftime` and `strptime`, whatever
    else it contains and whatever the point or the text. -/
theorem C17_unsupported (fmt : List Char) (c : Char) (hmem : Item.dir c ∈ scan fmt)
    (hc : Dir.ofChar c = none) (m : Mode) (p : TP) (cfg : PCfg) (loc : TZ) (data : List Char) :
    strftime m p fmt = .error .syntax ∧ strptime m cfg loc data fmt = .error .syntax := by
  have ht : translate (scan fmt) = .error .syntax := translate_unsupported (scan fmt) c hmem hc
  unfold strftime strptime
  rw [ht]
  exact ⟨rfl, rfl⟩

/-! ## Non-vacuity -/

example : parseFmt "%Y-%m-%dT%H:%M:%S%z %j %s".toList =
    some [.conv .Y, .lit '-', .conv .m, .lit '-', .conv .d, .lit 'T', .conv .H, .lit ':', .conv .M, .lit ':',
      .conv .S, .conv .z, .lit ' ', .conv .j, .lit ' ', .conv .s] := by decide
example : parseFmt "%y".toList = none ∧ parseFmt "100%".toList = none ∧ parseFmt "%%".toList = none := by decide
/-- The repaired defect F6: a week date whose week-year differs from the calendar year. -/
example : strftime .greg ⟨.week 1970 53 5, 0, 1, 0, ⟨0, 0⟩⟩ "%Y %j".toList = .ok "1971 001".toList := by
  decide +kernel
/-- A negative offset with zero hours, a pre-1970 instant. -/
example : strftime .greg ⟨.cal 1969 12 31, 23, 30, 0, ⟨0, -30⟩⟩ "%z %s".toList = .ok "-0030 0".toList ∧
    strftime .greg ⟨.ord 1969 365, 23, 0, 0, ⟨0, 0⟩⟩ "%s".toList = .ok "-3600".toList := by
  decide +kernel
example : strftime .greg ⟨.cal 10000 1 1, 0, 0, 0, ⟨0, 0⟩⟩ "%F".toList = .error .bounds ∧
    strftime .greg ⟨.cal 10000 1 1, 0, 0, 0, ⟨0, 0⟩⟩ "%m".toList = .ok "01".toList := by decide +kernel
example : strftime .greg ⟨.cal 2000 1 1, 0, 0, 0, ⟨0, 0⟩⟩ "%Y%Q".toList = .error .syntax := by decide +kernel

end IsoDT.Props.C17
