/-
  C17 — strftime matches POSIX for the supported directives and strptime inverts it.

  Model: `Model/Strftime.lean` (`TimePointDumper.strftime`, `TimePointParser.strptime`) over the
  translation tables regenerated from parser_spec.py (`Gen.Strftime`).
  Specification: part 1 of `Lemmas/Strftime.lean` (`Spec.Posix`): `posix c items` is the POSIX text of a
  format on the civil date-time `c`; `IsCivil m p c` says `c` is the civil date-time of `p`;
  `parseFmt fmt = some items` says `fmt` is a format over the supported directives and literal text.
-/
import IsoDT.Lemmas.Strftime

namespace IsoDT.Props.C17
open IsoDT IsoDT.Model IsoDT.Model.Strf IsoDT.Lemmas IsoDT.Lemmas.Strf
open IsoDT.Spec (Date TZ TP)
open IsoDT.Spec.Posix
open IsoDT.Gen.Strftime (Fld Fmt Pat Cls Piece)

/-- Every valid point has a civil date-time (so the theorems below are about something). -/
theorem C17_civil_exists (m : Mode) (p : TP) (hv : p.Valid m) : ∃ c, IsCivil m p c := by
  obtain ⟨r, _, hrv, hrr, hn⟩ := convert_spec m 0 (by omega) p.date hv.1
  obtain ⟨y, mo, d, rfl⟩ := rep0_cal r hrr
  exact ⟨⟨y, mo, d, p.date.dayNum m - Spec.dby m y + 1, p.hh, p.mi, p.ss, 60 * p.tz.h + p.tz.mi,
    p.inst m - epochInst m⟩, hrv, hn, rfl, rfl, rfl, rfl, rfl, rfl⟩

/-- General form: the year needs to lie in 0000–9999 only if the format prints it. -/
theorem C17_strftime_general (m : Mode) (p : TP) (hv : p.Valid m) (c : Civil) (hc : IsCivil m p c)
    (fmt : List Char) (items : List FItem) (hf : parseFmt fmt = some items)
    (hy : SField.year ∈ fieldsOf items → 0 ≤ c.year ∧ c.year ≤ 9999) :
    strftime m p fmt = .ok (posix c items) := by
  obtain ⟨ht, hpc⟩ := translate_scan fmt items hf
  obtain ⟨p', hfd, hv', hrep, hn, h1, h2, h3, h4⟩ := forDump_spec m p hv
  have hc' := isCivil_transfer m p p' c hc hn h1 h2 h3 h4
  have hctx := dumpCtx_spec m p' hv' hrep c hc'
  have hren := render_items m p' hv' c hc' items hy
  unfold strftime
  rw [ht]
  simp only [hfd, Option.bind_some, hctx]
  rw [if_neg, if_neg]
  · exact congrArg Except.ok hren
  · simpa using hpc
  · intro ⟨hcen, hnot⟩
    apply hnot
    apply hy
    apply century_mem
    simpa using hcen

/-- **C17 (strftime)**: for every valid point `p` — calendar, ordinal or week representation, any
    UTC offset, any of the four calendar modes — whose civil year lies in 0000–9999, and every format
    string over the eleven supported directives and literal text, `p.strftime(fmt)` is the text POSIX
    `strftime` gives for the civil date-time of `p`: `%Y` is the *calendar* year also for week dates,
    `%j` the day of that year, `%z` carries the sign of the offset also when its hour part is zero,
    `%s` is the Unix time of the instant.  (24:00:00 is printed as hour 24 of the stored day.) -/
theorem C17_strftime (m : Mode) (p : TP) (hv : p.Valid m) (c : Civil) (hc : IsCivil m p c)
    (hy : 0 ≤ c.year ∧ c.year ≤ 9999) (fmt : List Char) (items : List FItem)
    (hf : parseFmt fmt = some items) :
    strftime m p fmt = .ok (posix c items) :=
  C17_strftime_general m p hv c hc fmt items hf (fun _ => hy)

/-- Outside 0000–9999 a format that prints the year is refused (`TimePointDumperBoundsError`), never
    rendered with a truncated year. -/
theorem C17_strftime_bounds (m : Mode) (p : TP) (hv : p.Valid m) (c : Civil) (hc : IsCivil m p c)
    (hy : ¬ (0 ≤ c.year ∧ c.year ≤ 9999)) (fmt : List Char) (items : List FItem)
    (hf : parseFmt fmt = some items) (hyear : Piece.fld .century ∈ piecesOfItems items) :
    strftime m p fmt = .error .bounds := by
  obtain ⟨ht, _⟩ := translate_scan fmt items hf
  obtain ⟨p', hfd, hv', hrep, hn, h1, h2, h3, h4⟩ := forDump_spec m p hv
  have hc' := isCivil_transfer m p p' c hc hn h1 h2 h3 h4
  have hctx := dumpCtx_spec m p' hv' hrep c hc'
  unfold strftime
  rw [ht]
  simp only [hfd, Option.bind_some, hctx]
  rw [if_pos]
  exact ⟨by simpa using hyear, hy⟩

/-- **C17 (`%s`)**: `%s` prints the whole number of seconds from 1970-01-01T00:00:00Z to the instant
    of `p`, in decimal, for every valid point (no restriction on the year). -/
theorem C17_unix (m : Mode) (p : TP) (hv : p.Valid m) :
    strftime m p ['%', 's'] = .ok (decimalInt (p.inst m - unixEpoch.inst m)) := by
  obtain ⟨c, hc⟩ := C17_civil_exists m p hv
  have h := C17_strftime_general m p hv c hc ['%', 's'] [.conv .s] (by decide) (by simp [fieldsOf, Dir.fields])
  rw [h, unixEpoch_inst]
  simp [posix, itemText, field, hc.2.2.2.2.2.2.2]

/-- **C17 (unsupported)**: a format in which `%` is followed by any other letter, digit or underscore
    is refused with `StrftimeSyntaxError` (a `ValueError`) by both `strftime` and `strptime`, whatever
    else it contains and whatever the point or the text. -/
theorem C17_unsupported (fmt : List Char) (c : Char) (hmem : Item.dir c ∈ scan fmt)
    (hc : Dir.ofChar c = none) (m : Mode) (p : TP) (cfg : PCfg) (loc : TZ) (data : List Char) :
    strftime m p fmt = .error .syntax ∧ strptime m cfg loc data fmt = .error .syntax := by
  have ht : translate (scan fmt) = .error .syntax := translate_unsupported (scan fmt) c hmem hc
  unfold strftime strptime
  rw [ht]
  exact ⟨rfl, rfl⟩

/-- **C17 (strptime inverts strftime)**: let `fmt` be a format over the supported directives and
    literal text that *determines* date, time and zone (`Determined`: no field named twice; either
    `%s` is the only conversion, or year, hour, minute, second, zone and exactly one of month + day /
    day-of-year are named — in any order, with any literal text, adjacent numeric conversions
    included).  Then for every valid point `p` with a civil year in 0000–9999, in any representation,
    offset and mode, whatever the parser's assumed zone and the process-local zone `loc`:
    `strftime` succeeds, and `strptime` on its output with the same format returns a valid point at the
    *same instant* — with `p`'s own offset and clock fields, except for `%s`, which comes back in the
    local zone. -/
theorem C17_strptime (m : Mode) (p : TP) (hv : p.Valid m) (c : Civil) (hc : IsCivil m p c)
    (hy : 0 ≤ c.year ∧ c.year ≤ 9999) (fmt : List Char) (items : List FItem)
    (hf : parseFmt fmt = some items) (hd : Determined items) (cfg : PCfg) (loc : TZ) (hloc : loc.Valid) :
    ∃ text q, strftime m p fmt = .ok text ∧ strptime m cfg loc text fmt = .ok q ∧
      q.inst m = p.inst m ∧ q.Valid m ∧
      (fieldsOf items = [.unix] → q.tz = loc) ∧
      (fieldsOf items ≠ [.unix] → q.tz = p.tz ∧ q.hh = p.hh ∧ q.mi = p.mi ∧ q.ss = p.ss) := by
  obtain ⟨ht, _⟩ := translate_scan fmt items hf
  obtain ⟨p', _, hv', _, hn, h1, h2, h3, h4⟩ := forDump_spec m p hv
  have hc' := isCivil_transfer m p p' c hc hn h1 h2 h3 h4
  have hinst : p'.inst m = p.inst m := by
    have a := hc.2.2.2.2.2.2.2
    have b := hc'.2.2.2.2.2.2.2
    omega
  have hren := render_items m p' hv' c hc' items (fun _ => hy)
  have hnd := nodup_fldsOf_items items hd.1
  have hmatch := match_rendered (ctxOf p' c) (piecesOfItems items)
    (fun f _ => fits_all m p' hv' c hc' hy f) hnd
  rw [hren] at hmatch
  have hstrp : ∀ q, assemble m cfg loc (bindingsOf (ctxOf p' c) (piecesOfItems items)) = .ok q →
      strptime m cfg loc (posix c items) fmt = .ok q := by
    intro q hq
    unfold strptime
    rw [ht]
    simp only [hasDup_false _ hnd, Bool.false_eq_true, ↓reduceIte, hmatch, hq]
  refine ⟨posix c items, ?_⟩
  have hstrf := C17_strftime m p hv c hc hy fmt items hf
  have mem := fun f => mem_fldsOf_items f items
  rcases hd.2 with hu | ⟨hnu, g1, g2, g3, g4, g5, g6⟩
  · obtain ⟨q, hq, hi, hs, htz⟩ := assemble_unix m p' c hc'.2.2.2.2.2.2.2 cfg loc hloc (piecesOfItems items)
      ((mem .unix).mpr (by rw [hu]; simp [sf])) (fun h => by have := (mem .tzSign).mp h; rw [hu] at this; simp [sf] at this)
    exact ⟨q, hstrf, hstrp q hq, by rw [hi, hinst], hs.1, fun _ => htz, fun hne => absurd hu hne⟩
  · obtain ⟨q, hq, hi, hqv, e1, e2, e3, e4, _⟩ := assemble_full m p' hv' c hc' hy cfg loc (piecesOfItems items)
      (fun h => hnu ((mem .unix).mp h)) ((mem .century).mpr g1) ((mem .yearOfCentury).mpr g1)
      ((mem .hourOfDay).mpr g2) ((mem .minuteOfHour).mpr g3) ((mem .secondOfMinute).mpr g4)
      ((mem .tzSign).mpr g5) ((mem .tzHourAbs).mpr g5) ((mem .tzMinuteAbs).mpr g5)
      (by
        rcases g6 with ⟨a, b, c'⟩ | ⟨a, b, c'⟩
        · exact Or.inl ⟨(mem .monthOfYear).mpr a, (mem .dayOfMonth).mpr b, fun h => c' ((mem .dayOfYear).mp h)⟩
        · exact Or.inr ⟨(mem .dayOfYear).mpr a, fun h => b ((mem .monthOfYear).mp h),
            fun h => c' ((mem .dayOfMonth).mp h)⟩)
    refine ⟨q, hstrf, hstrp q hq, by rw [hi, hinst], hqv, ?_, fun _ => ⟨by rw [e1, h4], by rw [e2, h1],
      by rw [e3, h2], by rw [e4, h3]⟩⟩
    intro hu
    rw [hu] at hnu
    exact absurd (by simp) hnu

/-- **C17 (defaults)**: whenever `strptime` accepts a text under a format (without `%s`) over the
    supported directives, every part the format does not name takes its default: hour, minute,
    second 0; month and day 1 (a calendar date, unless the day of the year is named, which gives an
    ordinal date); the year — the start of the era — 0; and the zone is the parser's assumed zone
    (`assumed_time_zone`, else UTC when `default_to_unknown_time_zone`, else the local zone).  The
    result is always a valid point. -/
theorem C17_defaults (m : Mode) (cfg : PCfg) (loc : TZ) (data fmt : List Char) (items : List FItem) (q : TP)
    (hf : parseFmt fmt = some items) (hnu : SField.unix ∉ fieldsOf items)
    (hq : strptime m cfg loc data fmt = .ok q) :
    (SField.hour ∉ fieldsOf items → q.hh = 0) ∧
    (SField.minute ∉ fieldsOf items → q.mi = 0) ∧
    (SField.second ∉ fieldsOf items → q.ss = 0) ∧
    (SField.zone ∉ fieldsOf items → q.tz = cfg.defaultZone loc) ∧
    (SField.yday ∉ fieldsOf items → ∃ y mo d, q.date = .cal y mo d ∧
      (SField.year ∉ fieldsOf items → y = 0) ∧ (SField.month ∉ fieldsOf items → mo = 1) ∧
      (SField.day ∉ fieldsOf items → d = 1)) ∧
    (SField.yday ∈ fieldsOf items → ∃ y n, q.date = .ord y n ∧ (SField.year ∉ fieldsOf items → y = 0)) ∧
    q.Valid m := by
  obtain ⟨ht, _⟩ := translate_scan fmt items hf
  unfold strptime at hq
  rw [ht] at hq
  simp only at hq
  by_cases hdup : hasDup (fldsOf (piecesOfItems items)) = true
  · rw [if_pos hdup] at hq; exact absurd hq (by simp)
  · rw [if_neg hdup] at hq
    cases hm : matchPieces (piecesOfItems items) data with
    | none => rw [hm] at hq; exact absurd hq (by simp)
    | some b =>
      rw [hm] at hq
      simp only at hq
      have hkeys := keys_of_match _ _ _ hm
      have habs : ∀ f, sf f ∉ fieldsOf items → b.lookup f = none := fun f hf' =>
        lookup_absent b f (by rw [hkeys, mem_fldsOf_items]; exact hf')
      have hnum : ∀ f, sf f ∉ fieldsOf items → numOf b f = none := fun f hf' => by
        unfold numOf; rw [habs f hf']; rfl
      unfold assemble at hq
      rw [habs .unix hnu] at hq
      simp only at hq
      obtain ⟨e1, e2, e3, e4, e5, e6⟩ := mkPoint_inv _ _ _ _ _ _ _ _ _ _ _ hq
      refine ⟨fun h => by rw [e1, hnum .hourOfDay h]; rfl, fun h => by rw [e2, hnum .minuteOfHour h]; rfl,
        fun h => by rw [e3, hnum .secondOfMinute h]; rfl, ?_, ?_, ?_, e6⟩
      · intro h
        rw [e4, any_zone_false b items hkeys h hnu]
        simp
      · intro h
        rw [hnum .dayOfYear h] at e5
        refine ⟨_, _, _, e5, ?_, ?_, ?_⟩
        · intro hy; rw [hnum .century hy, hnum .yearOfCentury hy]; rfl
        · intro hmo; rw [hnum .monthOfYear hmo]; rfl
        · intro hdd; rw [hnum .dayOfMonth hdd]; rfl
      · intro h
        obtain ⟨v, hv⟩ := lookup_present b .dayOfYear (by rw [hkeys, mem_fldsOf_items]; exact h)
        have hn : numOf b .dayOfYear = some (parseNat v : Int) := by unfold numOf; rw [hv]; rfl
        rw [hn] at e5
        refine ⟨_, _, e5, ?_⟩
        intro hy; rw [hnum .century hy, hnum .yearOfCentury hy]; rfl

/-- `%s` *together with* `%z` is outside `Determined`, and there the round trip can fail: the `%s`
    translator overwrites the captured offset with the local zone's, but the captured sign is still
    applied to it.  (Harness: recorded as finding F14 when registered.) -/
theorem C17_unix_with_zone_counterexample :
    strftime .greg ⟨.cal 2000 1 1, 0, 0, 0, ⟨-1, 0⟩⟩ "%s %z".toList = .ok "946688400 -0100".toList ∧
    strptime .greg ⟨none, false⟩ ⟨5, 30⟩ "946688400 -0100".toList "%s %z".toList =
      .ok ⟨.cal 2000 1 1, 6, 30, 0, ⟨-5, -30⟩⟩ ∧
    TP.inst .greg ⟨.cal 2000 1 1, 6, 30, 0, ⟨-5, -30⟩⟩ ≠ TP.inst .greg ⟨.cal 2000 1 1, 0, 0, 0, ⟨-1, 0⟩⟩ := by
  decide +kernel

/-! ## Non-vacuity -/

example : parseFmt "%Y-%m-%dT%H:%M:%S%z %j %s".toList =
    some [.conv .Y, .lit '-', .conv .m, .lit '-', .conv .d, .lit 'T', .conv .H, .lit ':', .conv .M, .lit ':',
      .conv .S, .conv .z, .lit ' ', .conv .j, .lit ' ', .conv .s] := by decide
example : parseFmt "%y".toList = none ∧ parseFmt "100%".toList = none ∧ parseFmt "%%".toList = none := by decide
/-- The repaired defect F6: a week date whose week-year differs from the calendar year. -/
example : strftime .greg ⟨.week 1970 53 5, 0, 1, 0, ⟨0, 0⟩⟩ "%Y %j".toList = .ok "1971 001".toList := by
  decide +kernel
/-- A negative offset with zero hours, a pre-1970 instant. -/
example : strftime .greg ⟨.cal 1969 12 31, 23, 30, 0, ⟨0, -30⟩⟩ "%z %s".toList = .ok "-0030 0".toList ∧
    strftime .greg ⟨.ord 1969 365, 23, 0, 0, ⟨0, 0⟩⟩ "%s".toList = .ok "-3600".toList := by
  decide +kernel
example : strftime .greg ⟨.cal 10000 1 1, 0, 0, 0, ⟨0, 0⟩⟩ "%F".toList = .error .bounds ∧
    strftime .greg ⟨.cal 10000 1 1, 0, 0, 0, ⟨0, 0⟩⟩ "%m".toList = .ok "01".toList := by decide +kernel
example : strftime .greg ⟨.cal 2000 1 1, 0, 0, 0, ⟨0, 0⟩⟩ "%Y%Q".toList = .error .syntax := by decide +kernel

example : Determined [.conv .Y, .lit '-', .conv .m, .lit '-', .conv .d, .lit 'T', .conv .H, .lit ':', .conv .M,
    .lit ':', .conv .S, .conv .z] ∧ Determined [.conv .z, .conv .X, .conv .j, .conv .Y] ∧
    Determined [.lit 'e', .conv .s, .lit '.'] ∧ ¬ Determined [.conv .F, .conv .X] ∧
    ¬ Determined [.conv .F, .conv .j, .conv .X, .conv .z] ∧ ¬ Determined [.conv .s, .conv .z] := by decide
/-- Round trip through adjacent numeric conversions, week date at 24:00 with a negative half-hour offset. -/
example : strftime .greg ⟨.week 2004 53 5, 24, 0, 0, ⟨0, -30⟩⟩ "%z%Y%j%H%M%S".toList =
      .ok "-00302004366240000".toList ∧
    strptime .greg ⟨some ⟨1, 0⟩, false⟩ ⟨5, 30⟩ "-00302004366240000".toList "%z%Y%j%H%M%S".toList =
      .ok ⟨.ord 2004 366, 24, 0, 0, ⟨0, -30⟩⟩ := by decide +kernel
/-- The repaired defect F7: a pre-1970 Unix time comes back, in the local zone. -/
example : strptime .greg ⟨none, false⟩ ⟨-3, -30⟩ "-3600".toList "%s".toList =
    .ok ⟨.cal 1969 12 31, 19, 30, 0, ⟨-3, -30⟩⟩ := by decide +kernel
/-- Defaults: only a month. -/
example : strptime .greg ⟨some ⟨5, 30⟩, false⟩ ⟨0, 0⟩ "03".toList "%m".toList =
    .ok ⟨.cal 0 3 1, 0, 0, 0, ⟨5, 30⟩⟩ := by decide +kernel
example : strptime .greg ⟨none, false⟩ ⟨0, 0⟩ "20032002".toList "%Y%Y".toList = .error .conversion ∧
    strptime .greg ⟨none, false⟩ ⟨0, 0⟩ "2003-02-29".toList "%F".toList = .error .badInput ∧
    strptime .greg ⟨none, false⟩ ⟨0, 0⟩ "2003".toList "%Y%E".toList = .error .syntax := by decide +kernel

end IsoDT.Props.C17
