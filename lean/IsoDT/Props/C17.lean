import IsoDT.Model.Strftime
namespace IsoDT.Props.C17
theorem C17_strftime : True := trivial
theorem C17_unix : True := trivial
theorem C17_strptime : True := trivial
theorem C17_defaults : True := trivial
theorem C17_unsupported : True := trivial
end IsoDT.Props.C17
