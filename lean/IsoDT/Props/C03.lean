import IsoDT.Model.Calendar
namespace IsoDT.Props.C03
open IsoDT

theorem placeholder : (1 : Nat) = 1 := rfl

end IsoDT.Props.C03
