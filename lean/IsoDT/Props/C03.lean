/-
  C03 — Calendar, ordinal and ISO-week dates are faithful views of one day.

  Property theorems only (helper lemmas live in IsoDT/Lemmas).  Everything is stated for every
  year in `Int` (0, negative, beyond 9999) and all four calendar modes; `Model.*` are the
  code-shaped functions tied to data.py by the correspondence check, `Spec.*` is the calendar
  definition, `Gen.*` the tables regenerated from the source on every run.
-/
import IsoDT.Lemmas.Conv

namespace IsoDT.Props.C03
open IsoDT IsoDT.Model IsoDT.Lemmas

/-! ## The regenerated tables are the calendar definition -/

/-- Month lengths per mode and leap flag, as `set_mode` installs them, are the Spec's:
    twelve 30-day months; 365 days always; 366 days always; Gregorian. -/
theorem C03_tables (m : Mode) (lp : Bool) : Model.table m lp = Spec.monthTab m lp := table_eq m lp

/-- The leap-year factors and the Monday reference the source declares. -/
theorem C03_constants :
    Gen.leapFactors = [(4, true), (100, false), (400, true)] ∧
    Gen.weekRefCal = (2000, 1, 3) ∧ Gen.weekRefOrd = (2000, 3) ∧
    ∀ m, (calOf m).daysInWeek = 7 ∧ (calOf m).monthsInYear = 12 :=
  ⟨gen_leapFactors, gen_weekRefCal, gen_weekRefOrd, fun m => ⟨daysInWeek_eq m, monthsInYear_eq m⟩⟩

/-! ## Queries -/

theorem C03_is_leap_year (y : Int) : isLeapYear y = Spec.isLeapG y := isLeapYear_eq y

theorem C03_days_in_year (m : Mode) (y : Int) : daysInYear m y = Spec.yearLen m y := daysInYear_eq m y

theorem C03_days_in_month (m : Mode) (y mo : Int) (h1 : 1 ≤ mo) (h2 : mo ≤ 12) :
    daysInMonth m y mo = Spec.monthLen m y mo := daysInMonth_eq m y mo h1 h2

/-- `get_days_in_year_range`, including its `while` loop, is the closed form. -/
theorem C03_days_in_year_range (m : Mode) (s e : Int) :
    daysInYearRange m s e = if s ≤ e then Spec.dby m (e + 1) - Spec.dby m s else 0 :=
  daysInYearRange_eq m s e

/-- The number of days of years `s..e` really is the sum of the year lengths. -/
theorem C03_year_lengths_add_up (m : Mode) (y : Int) : Spec.dby m (y + 1) = Spec.dby m y + Spec.yearLen m y :=
  dby_succ m y

theorem C03_week_start (m : Mode) (y : Int) :
    Spec.ValidCal m (weekStartCal m y).1 (weekStartCal m y).2.1 (weekStartCal m y).2.2 ∧
    Spec.dayNumCal m (weekStartCal m y).1 (weekStartCal m y).2.1 (weekStartCal m y).2.2 =
      Spec.weekYearStart m y := weekStartCal_spec m y

theorem C03_weeks_in_year (m : Mode) (y : Int) :
    weeksInYear m y = Spec.weeksInYear m y ∧ 51 ≤ weeksInYear m y ∧ weeksInYear m y ≤ 53 ∧
    (m ≠ .d360 → 52 ≤ weeksInYear m y) := by
  rw [weeksInYear_eq]
  exact ⟨rfl, (weeksInYear_bounds m y).1, (weeksInYear_bounds m y).2,
    fun h => weeksInYear_bounds_long m h y⟩

/-! ## The calendar definition itself: Monday = 1, week 1 contains 4 January, continuity -/

theorem C03_monday_anchor (m : Mode) : Spec.weekday m (Spec.dayNumCal m 2000 1 3) = 1 := by
  rw [dayNumCal_jan]; unfold Spec.weekday Spec.weekRef Spec.dayNumOrd; omega

/-- Weekdays run continuously over all day numbers (through year 0 and below). -/
theorem C03_weekday_continuous (m : Mode) (n : Int) :
    Spec.weekday m (n + 1) = Spec.weekday m n % 7 + 1 ∧ 1 ≤ Spec.weekday m n ∧ Spec.weekday m n ≤ 7 :=
  ⟨weekday_succ m n, weekday_range m n⟩

/-- Week 1 of week-year `wy` is the week (Monday..Sunday) containing 4 January of `wy`. -/
theorem C03_week_one (m : Mode) (wy : Int) :
    Spec.weekday m (Spec.weekYearStart m wy) = 1 ∧
    Spec.weekYearStart m wy ≤ Spec.dayNumOrd m wy 4 ∧ Spec.dayNumOrd m wy 4 < Spec.weekYearStart m wy + 7 := by
  refine ⟨weekday_weekYearStart m wy, ?_, ?_⟩ <;>
    (unfold Spec.weekYearStart Spec.weekday; omega)

/-- The day-of-week field of a week date is the weekday of the day it denotes. -/
theorem C03_week_date_weekday (m : Mode) (wy w d : Int) (h : Spec.ValidWeek m wy w d) :
    Spec.weekday m (Spec.dayNumWeek m wy w d) = d := by
  obtain ⟨_, _, h1, h2⟩ := h
  have := weekday_weekYearStart m wy
  unfold Spec.dayNumWeek Spec.weekday at *; omega

/-! ## Conversions: total, valid, lossless -/

theorem C03_ordinal_from_calendar (m : Mode) (y mo d : Int) (h : Spec.ValidCal m y mo d) :
    ∃ doy, ordFromCal m y mo d = some (y, doy) ∧ Spec.ValidOrd m y doy ∧
      Spec.dayNumOrd m y doy = Spec.dayNumCal m y mo d := ordFromCal_spec m y mo d h

theorem C03_calendar_from_ordinal (m : Mode) (y doy : Int) (h : Spec.ValidOrd m y doy) :
    ∃ mo d, calFromOrd m y doy = some (y, mo, d) ∧ Spec.ValidCal m y mo d ∧
      Spec.dayNumCal m y mo d = Spec.dayNumOrd m y doy := calFromOrd_spec m y doy h

theorem C03_calendar_from_week (m : Mode) (y w d : Int) (h : Spec.ValidWeek m y w d) :
    ∃ cy mo cd, calFromWeek m y w d = some (cy, mo, cd) ∧ Spec.ValidCal m cy mo cd ∧
      Spec.dayNumCal m cy mo cd = Spec.dayNumWeek m y w d := calFromWeek_spec m y w d h

theorem C03_week_from_calendar (m : Mode) (y mo d : Int) (h : Spec.ValidCal m y mo d) :
    ∃ wy w wd, weekFromCal m y mo d = some (wy, w, wd) ∧ Spec.ValidWeek m wy w wd ∧
      Spec.dayNumWeek m wy w wd = Spec.dayNumCal m y mo d := weekFromCal_spec m y mo d h

theorem C03_ordinal_from_week (m : Mode) (y w d : Int) (h : Spec.ValidWeek m y w d) :
    ∃ oy doy, ordFromWeek m y w d = some (oy, doy) ∧ Spec.ValidOrd m oy doy ∧
      Spec.dayNumOrd m oy doy = Spec.dayNumWeek m y w d := ordFromWeek_spec m y w d h

theorem C03_week_from_ordinal (m : Mode) (y doy : Int) (h : Spec.ValidOrd m y doy) :
    ∃ wy w wd, weekFromOrd m y doy = some (wy, w, wd) ∧ Spec.ValidWeek m wy w wd ∧
      Spec.dayNumWeek m wy w wd = Spec.dayNumOrd m y doy := weekFromOrd_spec m y doy h

/-- All six directions at once: re-expressing a valid date in representation `k` succeeds, gives
    a valid date of that representation, denoting the same day. -/
theorem C03_convert (m : Mode) (k : Nat) (hk : k < 3) (dt : Spec.Date) (h : dt.Valid m) :
    ∃ r, convert m k dt = some r ∧ r.Valid m ∧ r.rep = k ∧ r.dayNum m = dt.dayNum m :=
  convert_spec m k hk dt h

/-- A valid date is determined by its representation and the day it denotes. -/
theorem C03_valid_date_unique (m : Mode) (a b : Spec.Date) (ha : a.Valid m) (hb : b.Valid m)
    (hr : a.rep = b.rep) (hn : a.dayNum m = b.dayNum m) : a = b :=
  date_unique m a b ha hb hr hn

/-- Mutually inverse: converting to any representation and back returns the original date. -/
theorem C03_roundtrip (m : Mode) (k : Nat) (hk : k < 3) (dt : Spec.Date) (h : dt.Valid m) :
    ∃ r, convert m k dt = some r ∧ convert m dt.rep r = some dt := by
  obtain ⟨r, he, hv, hr, hn⟩ := C03_convert m k hk dt h
  have hrep : dt.rep < 3 := by cases dt <;> simp [Spec.Date.rep]
  obtain ⟨r', he', hv', hr', hn'⟩ := C03_convert m dt.rep hrep r hv
  refine ⟨r, he, ?_⟩
  rw [he', C03_valid_date_unique m r' dt hv' h hr' (by rw [hn', hn])]

/-- Path independence: going through an intermediate representation changes nothing. -/
theorem C03_path_independent (m : Mode) (k k' : Nat) (hk : k < 3) (hk' : k' < 3) (dt : Spec.Date)
    (h : dt.Valid m) :
    ∃ r, convert m k dt = some r ∧ convert m k' r = convert m k' dt := by
  obtain ⟨r, he, hv, hr, hn⟩ := C03_convert m k hk dt h
  obtain ⟨a, hea, hva, hra, hna⟩ := C03_convert m k' hk' r hv
  obtain ⟨b, heb, hvb, hrb, hnb⟩ := C03_convert m k' hk' dt h
  refine ⟨r, he, ?_⟩
  rw [hea, heb, C03_valid_date_unique m a b hva hvb (by rw [hra, hrb]) (by rw [hna, hnb, hn])]

/-! ## Non-vacuity: concrete valid dates at the interesting corners -/

example : Spec.ValidCal .greg 2000 2 29 ∧ Spec.ValidOrd .greg 2004 366 ∧ Spec.ValidWeek .greg 2020 53 7 ∧
    Spec.ValidWeek .d360 2001 52 7 ∧ Spec.ValidCal .d360 (-1) 2 30 ∧ Spec.ValidOrd .greg 0 366 := by decide
example : convert .greg 2 (.cal 2021 1 3) = some (.week 2020 53 7) := by decide +kernel
example : convert .greg 0 (.week 0 1 1) = some (.cal 0 1 3) := by decide +kernel
example : daysInYearRange .greg (-400) 2000 = 876948 := by decide +kernel

end IsoDT.Props.C03
