/-
  C11 (order, continued) — the ordering operators of `Duration` form a total preorder that is
  compatible with addition and with multiplication by a non-negative integer.

  Everything is a corollary of `C11_order` (the operators compare the rough lengths) together with
  the additivity of the rough length under `Dur.add` / `Dur.mul`.
-/
import IsoDT.Props.C11

namespace IsoDT.Props.C11
open IsoDT IsoDT.Model IsoDT.Lemmas

/-- The rough length is additive under `+`. -/
theorem roughSeconds_add (m : Mode) (a b : Dur) :
    roughSeconds m (Dur.add m a b) = roughSeconds m a + roughSeconds m b := by
  unfold roughSeconds
  rw [add_ym, add_seconds]
  generalize Spec.yearLenB m false = L
  simp only [Int.add_mul]
  omega

/-- The rough length is homogeneous under `* n`. -/
theorem roughSeconds_mul (m : Mode) (a : Dur) (n : Int) :
    roughSeconds m (a.mul n) = roughSeconds m a * n := by
  unfold roughSeconds
  rw [mul_ym, mul_seconds]
  generalize Spec.yearLenB m false = L
  simp only [Int.add_mul, Int.mul_assoc, Int.mul_comm n]

/-- `<` is a strict order on rough lengths: irreflexive, asymmetric, transitive; and exactly one of
    `a < b`, "same rough length", `a > b` holds. -/
theorem C11_order_strict (m : Mode) (a b c : Dur) :
    Dur.lt m a a = false ∧
    (Dur.lt m a b = true → Dur.lt m b a = false) ∧
    (Dur.lt m a b = true → Dur.lt m b c = true → Dur.lt m a c = true) ∧
    (Dur.le m a b = true → Dur.le m b c = true → Dur.le m a c = true) ∧
    (Dur.le m a b = true ∨ Dur.le m b a = true) ∧
    (Dur.gt m a b = Dur.lt m b a) ∧ (Dur.ge m a b = Dur.le m b a) := by
  obtain ⟨ab1, ab2, _, _⟩ := C11_order m a b
  obtain ⟨ba1, ba2, _, _⟩ := C11_order m b a
  obtain ⟨bc1, bc2, _, _⟩ := C11_order m b c
  obtain ⟨ac1, ac2, _, _⟩ := C11_order m a c
  obtain ⟨aa1, _, _, _⟩ := C11_order m a a
  refine ⟨?_, ?_, ?_, ?_, ?_, rfl, rfl⟩
  · cases h : Dur.lt m a a
    · rfl
    · have := aa1.mp h; omega
  · intro h
    have := ab1.mp h
    cases h' : Dur.lt m b a
    · rfl
    · have := ba1.mp h'; omega
  · intro h1 h2
    have := ab1.mp h1; have := bc1.mp h2
    exact ac1.mpr (by omega)
  · intro h1 h2
    have := ab2.mp h1; have := bc2.mp h2
    exact ac2.mpr (by omega)
  · by_cases h : roughSeconds m a ≤ roughSeconds m b
    · exact Or.inl (ab2.mpr h)
    · exact Or.inr (ba2.mpr (by omega))

/-- Adding the same duration to both sides preserves the order (both ways), for every calendar
    mode and all durations, nominal ones included. -/
theorem C11_order_add_compat (m : Mode) (a b c : Dur) :
    (Dur.lt m (Dur.add m a c) (Dur.add m b c) = Dur.lt m a b) ∧
    (Dur.le m (Dur.add m a c) (Dur.add m b c) = Dur.le m a b) := by
  obtain ⟨o1, o2, _, _⟩ := C11_order m a b
  obtain ⟨p1, p2, _, _⟩ := C11_order m (Dur.add m a c) (Dur.add m b c)
  rw [roughSeconds_add, roughSeconds_add] at p1 p2
  constructor
  · cases h : Dur.lt m a b
    · cases h' : Dur.lt m (Dur.add m a c) (Dur.add m b c)
      · rfl
      · have := p1.mp h'
        have := o1.mpr (by omega)
        simp_all
    · have := o1.mp h
      exact p1.mpr (by omega)
  · cases h : Dur.le m a b
    · cases h' : Dur.le m (Dur.add m a c) (Dur.add m b c)
      · rfl
      · have := p2.mp h'
        have := o2.mpr (by omega)
        simp_all
    · have := o2.mp h
      exact p2.mpr (by omega)

/-- Multiplying by a non-negative integer is monotone for `<=`. -/
theorem C11_order_mul_mono (m : Mode) (a b : Dur) (n : Int) (hn : 0 ≤ n)
    (h : Dur.le m a b = true) : Dur.le m (a.mul n) (b.mul n) = true := by
  obtain ⟨_, o2, _, _⟩ := C11_order m a b
  obtain ⟨_, p2, _, _⟩ := C11_order m (a.mul n) (b.mul n)
  rw [roughSeconds_mul, roughSeconds_mul] at p2
  exact p2.mpr (Int.mul_le_mul_of_nonneg_right (o2.mp h) hn)

/-! ## Non-vacuity -/

example : Dur.lt .greg (.units 0 1 0 0 0 0) (.units 0 0 31 0 0 0) = true ∧
    Dur.lt .greg (Dur.add .greg (.units 0 1 0 0 0 0) (.weeks 2))
      (Dur.add .greg (.units 0 0 31 0 0 0) (.weeks 2)) = true := by decide
example : Dur.le .d360 (.weeks 1) (.units 0 0 7 0 0 0) = true ∧
    Dur.le .d360 ((Dur.weeks 1).mul 3) ((Dur.units 0 0 7 0 0 0).mul 3) = true := by decide

end IsoDT.Props.C11
