/-
  C06 — Changing the UTC offset never changes the instant.
-/
import IsoDT.Lemmas.Cmp

namespace IsoDT.Props.C06
open IsoDT IsoDT.Model IsoDT.Lemmas
open IsoDT.Spec (Date TZ TP)

/-- **C06**: `to_time_zone` (hence `to_utc`, `to_local_time_zone` and a dump with a literal zone,
    which all go through it) keeps the instant, carries exactly the requested offset, keeps the
    date representation and has valid local fields — for every valid point, every legal
    destination offset (−99:59 … +99:59, minutes carrying the hour's sign), every mode. -/
theorem C06_to_time_zone (m : Mode) (p : TP) (z : TZ) (hv : p.Valid m) (hz : z.Valid) :
    ∃ q, toTimeZone m p z = some q ∧ q.inst m = p.inst m ∧ q.tz = z ∧ q.date.rep = p.date.rep ∧
      q.Valid m ∧ (p.hh < 24 → q.hh < 24) := toTimeZone_spec m p z hv hz

/-- The re-zoned value compares equal to the original (both operand orders), hashes equal, and
    their difference is the empty duration. -/
theorem C06_equal_hash_diff (m : Mode) (p : TP) (z : TZ) (hv : p.Valid m) (hz : z.Valid) :
    ∃ q, toTimeZone m p z = some q ∧ cmp m q p = some 0 ∧ cmp m p q = some 0 ∧
      hashKey m q = hashKey m p ∧ (hashKey m p).isSome ∧
      subTP m q p = some (.units 0 0 0 0 0 0) := by
  obtain ⟨q, e, hi, _, _, vq, _⟩ := toTimeZone_spec m p z hv hz
  refine ⟨q, e, ?_, ?_, ?_, ?_, ?_⟩
  · rw [cmp_spec m q p vq hv, hi]; simp [sgn]
  · rw [cmp_spec m p q hv vq, hi]; simp [sgn]
  · exact (hashKey_eq_of_inst_eq m q p vq hv hi).1
  · exact (hashKey_eq_of_inst_eq m p q hv vq hi.symm).2
  · obtain ⟨dd, hh, mm, ss, e', hl, hr, hs⟩ := subTP_spec m q p vq hv
    rw [e']
    have : dd = 0 ∧ hh = 0 ∧ mm = 0 ∧ ss = 0 := by omega
    obtain ⟨rfl, rfl, rfl, rfl⟩ := this
    rfl

theorem C06_to_utc (m : Mode) (p : TP) (hv : p.Valid m) :
    ∃ q, toUtc m p = some q ∧ q.inst m = p.inst m ∧ q.tz = ⟨0, 0⟩ ∧ q.date.rep = p.date.rep ∧ q.Valid m := by
  obtain ⟨q, e, a, b, c, d, _⟩ := toTimeZone_spec m p ⟨0, 0⟩ hv utc_valid
  exact ⟨q, e, a, b, c, d⟩

/-- `TimeZone(hours, minutes)` accepts exactly the legal offsets: −99 ≤ h ≤ 99, |m| ≤ 59, and the
    minutes never contradict the hours' sign. -/
theorem C06_tz_constructor (m : Mode) (h mi : Int) :
    mkTZ m h mi = if (⟨h, mi⟩ : TZ).Valid then some ⟨h, mi⟩ else none := by
  unfold mkTZ
  rw [minutesInHour_eq]
  simp only
  by_cases hv : (⟨h, mi⟩ : TZ).Valid
  · rw [if_pos hv]
    unfold TZ.Valid at hv
    simp only at hv
    rw [if_neg (by omega), if_neg]
    split <;> split <;> omega
  · rw [if_neg hv]
    unfold TZ.Valid at hv
    simp only at hv
    by_cases c1 : h < -99 ∨ h > 99
    · rw [if_pos c1]
    · rw [if_neg c1, if_pos]
      split <;> split <;> omega

/-- The sign / absolute-value accessors the dumper prints determine the offset: both parts carry
    the printed sign (so `-00:30` is minus thirty minutes, not plus). -/
theorem C06_sign_abs (z : TZ) (hz : z.Valid) :
    z.h = tzSign z * tzHourAbs z ∧ z.mi = tzSign z * tzMinuteAbs z ∧
    0 ≤ tzHourAbs z ∧ tzHourAbs z ≤ 99 ∧ 0 ≤ tzMinuteAbs z ∧ tzMinuteAbs z ≤ 59 := by
  obtain ⟨h1, h2, h3, h4, h5, h6⟩ := hz
  unfold tzSign tzHourAbs tzMinuteAbs
  split <;> split <;> split <;> omega

/-! ## Non-vacuity -/

example : (⟨0, -30⟩ : TZ).Valid ∧ (⟨-99, -59⟩ : TZ).Valid ∧ ¬ (⟨1, -30⟩ : TZ).Valid := by decide
example : toTimeZone .greg ⟨.week 2021 1 1, 0, 10, 0, ⟨5, 45⟩⟩ ⟨-99, -59⟩ =
    some ⟨.week 2020 53 3, 14, 26, 0, ⟨-99, -59⟩⟩ := by decide +kernel
example : mkTZ .greg 0 (-30) = some ⟨0, -30⟩ ∧ mkTZ .greg 1 (-30) = none ∧ mkTZ .greg 100 0 = none := by
  decide

end IsoDT.Props.C06
