/-
  C06 (text side) — a dump whose format carries a LITERAL zone prints the point converted to that
  zone, so the text parses back to the same instant carrying exactly that offset.

  Formats covered: the complete extended formats `CCYY-MM-DDThh:mm:ss±hh:mm`, `CCYY-DDDThh:mm:ss±hh:mm`,
  `CCYY-Www-DThh:mm:ss±hh:mm` (the one matching the point's date representation), literal zone any
  legal offset `-99:59 … +99:59` (the two-digit hour group of the default parser's `±hh:mm` regex
  and `TimeZone(...)` allow exactly that), `TimePointDumper()` without expanded year digits
  (`dumper_0`), reading parser without expanded year digits.
  `IsoDT.Text.dump` mirrors `TimePointDumper.dump` / `_get_expression_and_properties` /
  `get_time_zone` / `_dump_expression_with_properties`; agreement with the Python: driver op `tdump`.
-/
import IsoDT.Props.C06
import IsoDT.Lemmas.TextDumpZone

namespace IsoDT.Props.C06
open IsoDT IsoDT.Model IsoDT.Lemmas IsoDT.Text
open IsoDT.Spec (Date TZ TP)

/-- `get_time_zone` (the dumper's reading of the literal zone, through `TimePointParser()`):
    a literal `±hh:mm` spelling a legal offset — `-00:30`, `+00:00`, `-99:59` included — is read as
    exactly that offset. -/
theorem C06_literal_zone_read (z : TZ) (hz : z.Valid) :
    getTimeZone (litZoneText z) = some (z.h, z.mi) := getTimeZone_lit z hz

/-- **C06 (dump with a literal zone)**: for every valid whole-second point `p` (any representation,
    any calendar mode, any offset, 24:00:00 included) and every legal literal offset `z`
    (−99:59 … +99:59, minutes carrying the hour's sign — the whole range `TimeZone(...)` accepts; no
    narrower bound is needed), dumping `p` with the complete extended format of its own representation
    followed by the literal zone `z` succeeds whenever the year of the RE-ZONED point `q` is within
    0000–9999, and prints exactly: date and time of `q` (as `stdText 0 q` spells them) followed by the
    literal zone text. -/
theorem C06_dump_literal_zone (m : Mode) (p : TP) (hv : p.Valid m) (z : TZ) (hz : z.Valid)
    (q : TP) (hq : toTimeZone m p z = some q)
    (hy : 0 ≤ dateYear q.date ∧ dateYear q.date ≤ 9999) :
    dump m Gen.Templates.dumper_0 (XTP.ofTP 0 p) (litFormat p.date z) = .ok (zonedText q z) := by
  rw [dump_litZone m p q hv z hz hq, if_pos hy]

/-- For a non-zero literal offset the printed text is exactly the specified text `stdText 0 q` of the
    re-zoned point (for the literal `+00:00` it differs from `stdText` only in the zone spelling:
    `+00:00` instead of `Z`). -/
theorem C06_dump_literal_zone_stdText (m : Mode) (p : TP) (hv : p.Valid m) (z : TZ) (hz : z.Valid)
    (hz0 : z ≠ ⟨0, 0⟩) (q : TP) (hq : toTimeZone m p z = some q)
    (hy : 0 ≤ dateYear q.date ∧ dateYear q.date ≤ 9999) :
    dump m Gen.Templates.dumper_0 (XTP.ofTP 0 p) (litFormat p.date z) = .ok (stdText 0 q) := by
  obtain ⟨q', hq', _, htz, _⟩ := toTimeZone_spec m p z hv hz
  rw [hq] at hq'
  obtain rfl := Option.some.inj hq'
  rw [C06_dump_literal_zone m p hv z hz q hq hy, ← htz]
  congr 1
  apply zonedText_eq_stdText
  rw [htz]
  intro h
  apply hz0
  obtain ⟨zh, zm⟩ := z
  simp only at h
  rw [h.1, h.2]

/-- **C06 (year bounds of a literal-zone dump)**: the 0000–9999 check is made on the year of the
    RE-ZONED point: if re-zoning carries the point out of that range (e.g. `9999-12-31T23:00Z` dumped
    with `+05:00`), the dump is the documented `TimePointDumperBoundsError`; a point whose own year is
    out of range but whose re-zoned year is in range prints. -/
theorem C06_dump_literal_zone_bounds (m : Mode) (p : TP) (hv : p.Valid m) (z : TZ) (hz : z.Valid)
    (q : TP) (hq : toTimeZone m p z = some q)
    (hy : ¬ (0 ≤ dateYear q.date ∧ dateYear q.date ≤ 9999)) :
    dump m Gen.Templates.dumper_0 (XTP.ofTP 0 p) (litFormat p.date z) = .error .err := by
  rw [dump_litZone m p q hv z hz hq, if_neg hy]

/-- **C06 (literal-zone dump, round trip)**: under the hypotheses of `C06_dump_literal_zone`, the
    printed text, read by any parser without expanded year digits that allows extended notation (any
    `allow_truncated`, any default-zone setting, same calendar mode), is the re-zoned point `q` field
    for field; `q` is the same instant as `p`, carries exactly the literal offset `z`, keeps `p`'s
    date representation and is valid.  This holds for EVERY legal literal offset, `+00:00` included
    (then the text ends in `+00:00`, and the parsed point carries the offset zero). -/
theorem C06_dump_literal_zone_roundtrip (m : Mode) (cfg : Cfg)
    (hpt : cfg.pt ∈ Gen.Templates.parserTables) (hned : cfg.pt.ned = 0)
    (hb : cfg.pt.basicOnly = false) (hm : cfg.mode = m)
    (p : TP) (hv : p.Valid m) (z : TZ) (hz : z.Valid)
    (q : TP) (hq : toTimeZone m p z = some q)
    (hy : 0 ≤ dateYear q.date ∧ dateYear q.date ≤ 9999) :
    ∃ text, dump m Gen.Templates.dumper_0 (XTP.ofTP 0 p) (litFormat p.date z) = .ok text ∧
      text = zonedText q z ∧ (z ≠ ⟨0, 0⟩ → text = stdText 0 q) ∧
      parse cfg text false = some (XTP.ofTP 0 q) ∧ (XTP.ofTP 0 q).toTP? = some q ∧
      q.inst m = p.inst m ∧ q.tz = z ∧ q.date.rep = p.date.rep ∧ q.Valid m := by
  subst hm
  obtain ⟨q', hq', hinst, htz, hrep, hvq, _⟩ := toTimeZone_spec cfg.mode p z hv hz
  rw [hq] at hq'
  obtain rfl := Option.some.inj hq'
  refine ⟨zonedText q z, C06_dump_literal_zone cfg.mode p hv z hz q hq hy, rfl, ?_, ?_,
    ofTP_toTP 0 q, hinst, htz, hrep, hvq⟩
  · intro hz0
    have h1 := C06_dump_literal_zone cfg.mode p hv z hz q hq hy
    rw [C06_dump_literal_zone_stdText cfg.mode p hv z hz hz0 q hq hy] at h1
    exact (Except.ok.inj h1).symm
  · have hyr : YearInRange cfg.pt.ned (dateYear q.date) := by
      unfold YearInRange; rw [if_pos hned]; exact hy
    have := parse_zonedText cfg hpt hb q hvq hyr
    rw [hned, htz] at this
    exact this

/-- The requested corollary in its plain form: for a non-zero literal offset the dump is the
    specified text of `q`, and that text parses back to `q` — same instant as `p`, offset exactly `z`. -/
theorem C06_dump_literal_zone_roundtrip_stdText (m : Mode) (cfg : Cfg)
    (hpt : cfg.pt ∈ Gen.Templates.parserTables) (hned : cfg.pt.ned = 0)
    (hb : cfg.pt.basicOnly = false) (hm : cfg.mode = m)
    (p : TP) (hv : p.Valid m) (z : TZ) (hz : z.Valid) (hz0 : z ≠ ⟨0, 0⟩)
    (q : TP) (hq : toTimeZone m p z = some q)
    (hy : 0 ≤ dateYear q.date ∧ dateYear q.date ≤ 9999) :
    dump m Gen.Templates.dumper_0 (XTP.ofTP 0 p) (litFormat p.date z) = .ok (stdText 0 q) ∧
      parse cfg (stdText 0 q) false = some (XTP.ofTP 0 q) ∧ q.inst m = p.inst m ∧ q.tz = z := by
  obtain ⟨text, h1, _, h3, h4, _, h6, h7, _⟩ :=
    C06_dump_literal_zone_roundtrip m cfg hpt hned hb hm p hv z hz q hq hy
  have e := h3 hz0
  subst e
  exact ⟨h1, h4, h6, h7⟩

/-! ## Non-vacuity -/

/-- A week date at 24:00:00 with offset −00:30, dumped with the literal zone `+05:45`: the text is
    that of the next day 06:15 at `+05:45`, and it reads back as that point. -/
example : ∃ text,
    dump .greg Gen.Templates.dumper_0 (XTP.ofTP 0 ⟨.week 2020 53 7, 24, 0, 0, ⟨0, -30⟩⟩)
      (litFormat (.week 2020 53 7) ⟨5, 45⟩) = .ok text ∧
    text = zonedText ⟨.week 2021 1 1, 6, 15, 0, ⟨5, 45⟩⟩ ⟨5, 45⟩ ∧
    ((⟨5, 45⟩ : TZ) ≠ ⟨0, 0⟩ → text = stdText 0 ⟨.week 2021 1 1, 6, 15, 0, ⟨5, 45⟩⟩) ∧
    parse ⟨Gen.Templates.parser_0_all, true, .assumed 1 0, .greg⟩ text false =
      some (XTP.ofTP 0 ⟨.week 2021 1 1, 6, 15, 0, ⟨5, 45⟩⟩) ∧
    (XTP.ofTP 0 ⟨.week 2021 1 1, 6, 15, 0, ⟨5, 45⟩⟩).toTP? = some ⟨.week 2021 1 1, 6, 15, 0, ⟨5, 45⟩⟩ ∧
    (⟨.week 2021 1 1, 6, 15, 0, ⟨5, 45⟩⟩ : TP).inst .greg =
      (⟨.week 2020 53 7, 24, 0, 0, ⟨0, -30⟩⟩ : TP).inst .greg ∧
    (⟨.week 2021 1 1, 6, 15, 0, ⟨5, 45⟩⟩ : TP).tz = ⟨5, 45⟩ ∧
    (⟨.week 2021 1 1, 6, 15, 0, ⟨5, 45⟩⟩ : TP).date.rep = (Date.week 2020 53 7).rep ∧
    (⟨.week 2021 1 1, 6, 15, 0, ⟨5, 45⟩⟩ : TP).Valid .greg :=
  C06_dump_literal_zone_roundtrip .greg ⟨Gen.Templates.parser_0_all, true, .assumed 1 0, .greg⟩
    (.head _) rfl rfl rfl ⟨.week 2020 53 7, 24, 0, 0, ⟨0, -30⟩⟩ (by decide +kernel) ⟨5, 45⟩ (by decide)
    ⟨.week 2021 1 1, 6, 15, 0, ⟨5, 45⟩⟩ (by decide +kernel) (by decide +kernel)

example : zonedText ⟨.week 2021 1 1, 6, 15, 0, ⟨5, 45⟩⟩ ⟨5, 45⟩ = "2021-W01-1T06:15:00+05:45".toList := by
  decide +kernel

example : dump .greg Gen.Templates.dumper_0 (XTP.ofTP 0 ⟨.cal 2000 3 1, 0, 10, 0, ⟨0, 0⟩⟩)
      "CCYY-MM-DDThh:mm:ss-00:30".toList = .ok "2000-02-29T23:40:00-00:30".toList := by decide +kernel

example : dump .greg Gen.Templates.dumper_0 (XTP.ofTP 0 ⟨.ord 2001 1, 4, 0, 0, ⟨5, 30⟩⟩)
      "CCYY-DDDThh:mm:ss+00:00".toList = .ok "2000-366T22:30:00+00:00".toList := by decide +kernel

example : litFormat (.cal 2000 3 1) ⟨0, -30⟩ = "CCYY-MM-DDThh:mm:ss-00:30".toList ∧
    stdText 0 ⟨.cal 2000 2 29, 23, 40, 0, ⟨0, -30⟩⟩ = "2000-02-29T23:40:00-00:30".toList := by
  decide +kernel

/-- The bounds theorem instantiated: 9999-12-31T23:00:00Z with the literal zone `+05:00` is year 10000
    after re-zoning, hence the bounds error — although the point's own year is in range. -/
example : dump .greg Gen.Templates.dumper_0 (XTP.ofTP 0 ⟨.cal 9999 12 31, 23, 0, 0, ⟨0, 0⟩⟩)
      (litFormat (.cal 9999 12 31) ⟨5, 0⟩) = .error .err :=
  C06_dump_literal_zone_bounds .greg ⟨.cal 9999 12 31, 23, 0, 0, ⟨0, 0⟩⟩ (by decide +kernel) ⟨5, 0⟩
    (by decide) ⟨.cal 10000 1 1, 4, 0, 0, ⟨5, 0⟩⟩ (by decide +kernel) (by decide)

/-- …and the converse: year 10000 at `+05:00` re-zoned by the literal `-01:00` is back in 9999 and
    prints. -/
example : dump .greg Gen.Templates.dumper_0 (XTP.ofTP 0 ⟨.cal 10000 1 1, 4, 0, 0, ⟨5, 0⟩⟩)
      (litFormat (.cal 10000 1 1) ⟨-1, 0⟩) = .ok "9999-12-31T22:00:00-01:00".toList :=
  (C06_dump_literal_zone .greg ⟨.cal 10000 1 1, 4, 0, 0, ⟨5, 0⟩⟩ (by decide +kernel) ⟨-1, 0⟩
    (by decide) ⟨.cal 9999 12 31, 22, 0, 0, ⟨-1, 0⟩⟩ (by decide +kernel) (by decide)).trans
    (by decide +kernel)

example : getTimeZone (litZoneText ⟨0, -30⟩) = some (0, -30) := C06_literal_zone_read ⟨0, -30⟩ (by decide)
example : litZoneText ⟨0, -30⟩ = "-00:30".toList ∧ litZoneText ⟨-99, -59⟩ = "-99:59".toList ∧
    litZoneText ⟨0, 0⟩ = "+00:00".toList := by decide +kernel

end IsoDT.Props.C06
