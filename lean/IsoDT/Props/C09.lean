/-
  C09 — Impossible dates and malformed text are rejected, cleanly.

  `Model.mkTP` mirrors `TimePoint.__init__` (non-truncated, integral arguments): conflict rules,
  defaults, `TimeZone(...)`, `_check_bounds`.  `Gen.Exceptions.raised` lists every `raise` site of
  the parsers, the parser tables, the dumper and the constructor path of data.py with the MRO of
  the class raised, as the live interpreter reports it.
  Acceptance through each *text* notation is C07's decode composed with this constructor (checked
  end to end by the `textaccept` correspondence); arbitrary garbage through the three parsers
  ("never another exception type, never a hang") is observed by the correspondence, not proved:
  Python-level `TypeError`s from unmodelled paths are exactly what a model of values cannot exhibit
  (known findings F10, F11).
-/
import IsoDT.Model.Construct
import IsoDT.Gen.Exceptions
import IsoDT.Lemmas.Conv

namespace IsoDT.Props.C09
open IsoDT IsoDT.Model IsoDT.Lemmas
open IsoDT.Spec (Date TZ TP)

theorem inRange_some (x lo hi : Int) : inRange (some x) lo hi = true ↔ lo ≤ x ∧ x ≤ hi := by
  simp [inRange]

theorem mkTZOpt_valid (m : Mode) (h mi : Option Int) (z : TZ) (e : mkTZOpt m h mi = some z) : z.Valid := by
  unfold mkTZOpt at e
  rw [minutesInHour_eq] at e
  unfold TZ.Valid
  cases h with
  | none =>
    cases mi with
    | none =>
      have : z = ⟨0, 0⟩ := by simpa using e.symm
      subst this; decide
    | some mv =>
      simp only at e
      by_cases c : mv < 1 - 60 ∨ mv > 60 - 1
      · rw [if_pos c] at e; cases e
      · rw [if_neg c] at e
        have : z = ⟨0, mv⟩ := by simpa using e.symm
        subst this; simp only; omega
  | some hv =>
    simp only at e
    by_cases c : hv < -99 ∨ hv > 99
    · rw [if_pos c] at e; cases e
    · rw [if_neg c] at e
      cases mi with
      | none =>
        have : z = ⟨hv, 0⟩ := by simpa using e.symm
        subst this; simp only; omega
      | some mv =>
        simp only at e
        by_cases c2 : mv < (if hv > 0 then 0 else 1 - 60) ∨ mv > (if hv < 0 then 0 else 60 - 1)
        · rw [if_pos c2] at e; cases e
        · rw [if_neg c2] at e
          have : z = ⟨hv, mv⟩ := by simpa using e.symm
          subst this; simp only
          split at c2 <;> split at c2 <;> omega

theorem boundsOk_facts (m : Mode) (y : Int) (month dom week doy dow : Option Int) (hh mi ss : Int)
    (h : boundsOk m y month dom week doy dow hh mi ss = true) :
    (∀ mo, month = some mo → 1 ≤ mo ∧ mo ≤ 12) ∧
    (∀ mo d, month = some mo → dom = some d → 1 ≤ d ∧ d ≤ daysInMonth m y mo) ∧
    (∀ w, week = some w → 1 ≤ w ∧ w ≤ weeksInYear m y) ∧
    (∀ n, doy = some n → 1 ≤ n ∧ n ≤ daysInYear m y) ∧
    (∀ d, dow = some d → 1 ≤ d ∧ d ≤ 7) ∧
    0 ≤ hh ∧ hh ≤ 24 ∧ 0 ≤ mi ∧ mi < 60 ∧ 0 ≤ ss ∧ ss < 60 ∧ (hh = 24 → mi = 0 ∧ ss = 0) := by
  unfold boundsOk at h
  simp only [Bool.and_eq_true, monthsInYear_eq, daysInWeek_eq, hoursInDay_eq, minutesInHour_eq,
    secondsInMinute_eq, decide_eq_true_eq] at h
  obtain ⟨⟨⟨⟨⟨⟨h1, h2⟩, h3⟩, h4⟩, h5⟩, h6⟩, h7⟩ := h
  refine ⟨?_, ?_, ?_, ?_, ?_, h6.1, h6.2, ?_⟩
  · intro mo e; rw [e] at h1; exact (inRange_some _ _ _).mp h1
  · intro mo d e1 e2; rw [e1, e2] at h2; exact (inRange_some _ _ _).mp h2
  · intro w e; rw [e] at h3; exact (inRange_some _ _ _).mp h3
  · intro n e; rw [e] at h4; exact (inRange_some _ _ _).mp h4
  · intro d e; rw [e] at h5; exact (inRange_some _ _ _).mp h5
  · by_cases c : hh = 24
    · rw [if_pos c] at h7
      have := of_decide_eq_true h7
      omega
    · rw [if_neg c] at h7
      have := of_decide_eq_true h7
      omega

/-- **No impossible date-time is admitted**: whatever keyword arguments are given (any subset, any
    integers), if the constructor accepts them the resulting point is a real date of the active
    mode with a legal time of day and offset — month 1..12, the day within the month's length for
    that year, ordinal day within the year's length, ISO week within the year's number of weeks,
    weekday 1..7, hour 0..24 with 24 only as 24:00:00, minute and second below 60, zone parts in
    range and of one sign. -/
theorem C09_accept_sound (m : Mode) (a : TPArgs) (p : TP) (h : mkTP m a = some p) : p.Valid m := by
  unfold mkTP at h
  cases hy : a.year with
  | none => rw [hy] at h; cases h
  | some y =>
    rw [hy] at h
    simp only at h
    cases hz : mkTZOpt m a.tzh a.tzm with
    | none => rw [hz] at h; cases h
    | some tz =>
      rw [hz] at h
      have tzv := mkTZOpt_valid m _ _ tz hz
      simp only at h
      split at h
      · cases h
      · split at h
        · rename_i _ hb
          obtain ⟨f1, f2, f3, f4, f5, f6⟩ := boundsOk_facts m y _ _ _ _ _ _ _ _ hb
          unfold finishTP at h
          split at h
          · rename_i mo d e1 e2 _ _ _
            have : p = ⟨.cal y mo d, a.hh.getD 0, a.mi.getD 0, a.ss.getD 0, tz⟩ := by simpa using h.symm
            subst this
            have hm := f1 mo e1
            have hd := f2 mo d e1 e2
            rw [daysInMonth_eq m y mo hm.1 hm.2] at hd
            exact ⟨⟨hm.1, hm.2, hd.1, hd.2⟩, f6.1, f6.2.1, f6.2.2.1, f6.2.2.2.1, f6.2.2.2.2.1, f6.2.2.2.2.2.1,
              f6.2.2.2.2.2.2, tzv⟩
          · rename_i n _ _ e3 _ _
            have : p = ⟨.ord y n, a.hh.getD 0, a.mi.getD 0, a.ss.getD 0, tz⟩ := by simpa using h.symm
            subst this
            have hn := f4 n e3
            rw [daysInYear_eq] at hn
            exact ⟨⟨hn.1, hn.2⟩, f6.1, f6.2.1, f6.2.2.1, f6.2.2.2.1, f6.2.2.2.2.1, f6.2.2.2.2.2.1,
              f6.2.2.2.2.2.2, tzv⟩
          · rename_i w d _ _ _ e4 e5
            have : p = ⟨.week y w d, a.hh.getD 0, a.mi.getD 0, a.ss.getD 0, tz⟩ := by simpa using h.symm
            subst this
            have hw := f3 w e4
            have hd := f5 d e5
            rw [weeksInYear_eq] at hw
            exact ⟨⟨hw.1, hw.2, hd.1, hd.2⟩, f6.1, f6.2.1, f6.2.2.1, f6.2.2.2.1, f6.2.2.2.2.1, f6.2.2.2.2.2.1,
              f6.2.2.2.2.2.2, tzv⟩
          · cases h
        · cases h

theorem mkTZOpt_of_valid (m : Mode) (z : TZ) (hz : z.Valid) : mkTZOpt m (some z.h) (some z.mi) = some z := by
  obtain ⟨h, mi⟩ := z
  unfold TZ.Valid at hz
  simp only at hz
  unfold mkTZOpt
  rw [minutesInHour_eq]
  simp only
  rw [if_neg (by omega), if_neg]
  split <;> split <;> omega

/-- **Every in-range combination is accepted**: for every valid point, the constructor called with
    the fields that spell it returns exactly that point (in every mode, representation, offset,
    24:00 included). -/
theorem C09_accept_complete (m : Mode) (p : TP) (hv : p.Valid m) : mkTP m (argsOf p) = some p := by
  obtain ⟨date, hh, mi, ss, tz⟩ := p
  obtain ⟨hd, h1, h2, h3, h4, h5, h6, h7, h8⟩ := hv
  simp only at hd h1 h2 h3 h4 h5 h6 h7 h8
  have htz := mkTZOpt_of_valid m tz h8
  have hb : ∀ (month dom week doy dow : Option Int) (y : Int),
      (∀ mo, month = some mo → 1 ≤ mo ∧ mo ≤ 12) →
      (∀ d, dom = some d → 1 ≤ d ∧ d ≤ (match month with | some mo => daysInMonth m y mo | none => (calOf m).maxDaysInMonth)) →
      (∀ w, week = some w → 1 ≤ w ∧ w ≤ weeksInYear m y) →
      (∀ n, doy = some n → 1 ≤ n ∧ n ≤ daysInYear m y) →
      (∀ d, dow = some d → 1 ≤ d ∧ d ≤ 7) →
      boundsOk m y month dom week doy dow hh mi ss = true := by
    intro month dom week doy dow y g1 g2 g3 g4 g5
    unfold boundsOk
    simp only [Bool.and_eq_true, monthsInYear_eq, daysInWeek_eq, hoursInDay_eq, minutesInHour_eq,
      secondsInMinute_eq, decide_eq_true_eq]
    refine ⟨⟨⟨⟨⟨⟨?_, ?_⟩, ?_⟩, ?_⟩, ?_⟩, ⟨h1, h2⟩⟩, ?_⟩
    · cases month with | none => rfl | some mo => exact (inRange_some _ _ _).mpr (g1 mo rfl)
    · cases dom with | none => rfl | some d => exact (inRange_some _ _ _).mpr (g2 d rfl)
    · cases week with | none => rfl | some w => exact (inRange_some _ _ _).mpr (g3 w rfl)
    · cases doy with | none => rfl | some n => exact (inRange_some _ _ _).mpr (g4 n rfl)
    · cases dow with | none => rfl | some d => exact (inRange_some _ _ _).mpr (g5 d rfl)
    · by_cases c : hh = 24
      · rw [if_pos c]; exact decide_eq_true (h7 c)
      · rw [if_neg c]; exact decide_eq_true ⟨h3, h4, h5, h6⟩
  cases date with
  | cal y mo d =>
    have hv : Spec.ValidCal m y mo d := hd
    obtain ⟨v1, v2, v3, v4⟩ := hv
    have t1 : truthy (some mo) = true := by simp [truthy]; omega
    have := hb (some mo) (some d) none none none y (fun x e => by cases e; exact ⟨v1, v2⟩)
      (fun x e => by cases e; simp only; rw [daysInMonth_eq m y mo v1 v2]; exact ⟨v3, v4⟩)
      (fun _ e => by cases e) (fun _ e => by cases e) (fun _ e => by cases e)
    simp only [mkTP, argsOf, htz, t1, truthy, Bool.true_or, Bool.or_false, Bool.false_or, Bool.and_false,
      Bool.false_and, Option.isSome_none, Option.isNone_none, Bool.not_false, Bool.and_self, Bool.false_eq_true,
      ↓reduceIte, dflt, Option.getD_some, this, finishTP, Bool.and_true, Bool.or_self]
  | ord y n =>
    have hv : Spec.ValidOrd m y n := hd
    have := hb none none none (some n) none y (fun _ e => by cases e) (fun _ e => by cases e)
      (fun _ e => by cases e) (fun x e => by cases e; rw [daysInYear_eq]; exact hv) (fun _ e => by cases e)
    simp only [mkTP, argsOf, htz, truthy, Bool.or_self, Bool.false_and, Option.isSome_some, Option.isNone_some,
      Bool.false_eq_true, ↓reduceIte, dflt, Option.getD_some, this, finishTP, Bool.and_true, Bool.not_false]
  | week y w d =>
    have hv : Spec.ValidWeek m y w d := hd
    obtain ⟨v1, v2, v3, v4⟩ := hv
    have t1 : truthy (some w) = true := by simp [truthy]; omega
    have t2 : truthy (some d) = true := by simp [truthy]; omega
    have tn : truthy none = false := rfl
    have := hb none none (some w) none (some d) y (fun _ e => by cases e) (fun _ e => by cases e)
      (fun x e => by cases e; rw [weeksInYear_eq]; exact ⟨v1, v2⟩) (fun _ e => by cases e)
      (fun x e => by cases e; exact ⟨v3, v4⟩)
    simp only [mkTP, argsOf, htz, t1, t2, tn, Bool.true_or, Bool.or_self, Bool.false_and, Bool.and_false,
      Option.isSome_none, Option.isNone_none, Bool.not_true, Bool.and_self, Bool.false_eq_true, ↓reduceIte, dflt,
      Option.getD_some, this, finishTP, Bool.and_true, Bool.or_false, Bool.false_or]

/-- The constructor refuses two date representations at once and a missing year. -/
theorem C09_conflicts (m : Mode) (a : TPArgs) :
    (a.year = none → mkTP m a = none) ∧
    (∀ y, a.year = some y → (truthy a.month || truthy a.dom) = true → (truthy a.week || truthy a.dow) = true →
      mkTP m a = none) ∧
    (∀ y, a.year = some y → (truthy a.month || truthy a.dom) = true → a.doy.isSome = true → mkTP m a = none) ∧
    (∀ y, a.year = some y → (truthy a.week || truthy a.dow) = true → a.doy.isSome = true → mkTP m a = none) := by
  refine ⟨fun h => by unfold mkTP; rw [h], ?_, ?_, ?_⟩ <;>
  · intro y hy h1 h2
    unfold mkTP; rw [hy]; simp only
    cases mkTZOpt m a.tzh a.tzm <;> simp only [h1, h2, Bool.and_self, Bool.true_or, Bool.or_true, ↓reduceIte]

/-- **Every exception the parsers and constructors raise derives from `ValueError`** (all `raise`
    sites of parsers.py, parser_spec.py, dumpers.py and the constructor path of data.py, with the
    MRO the interpreter reports). -/
theorem C09_exceptions : ∀ e ∈ Gen.Exceptions.raised, "ValueError" ∈ e.2.2.2.2 := by decide

theorem C09_exceptions_nonempty : 20 ≤ Gen.Exceptions.raised.length := by decide

/-! ## Non-vacuity: the impossible dates of the statement -/

example : mkTP .greg ⟨some 2001, some 2, none, none, some 29, none, none, none, none, none, none⟩ = none ∧
    mkTP .greg ⟨some 2000, some 2, none, none, some 30, none, none, none, none, none, none⟩ = none ∧
    mkTP .d360 ⟨some 2000, some 1, none, none, some 31, none, none, none, none, none, none⟩ = none ∧
    mkTP .greg ⟨some 2001, none, none, some 366, none, none, none, none, none, none, none⟩ = none ∧
    mkTP .greg ⟨some 2001, none, some 53, none, none, some 1, none, none, none, none, none⟩ = none ∧
    mkTP .greg ⟨some 2000, some 13, none, none, none, none, none, none, none, none, none⟩ = none ∧
    mkTP .greg ⟨some 2000, none, none, none, none, none, some 24, some 0, some 1, none, none⟩ = none ∧
    mkTP .greg ⟨some 2000, none, none, none, none, none, none, none, none, some 1, some (-30)⟩ = none := by
  decide +kernel
example : mkTP .greg ⟨some 2000, some 2, none, none, some 29, none, some 24, none, none, some 0, some (-30)⟩ =
    some ⟨.cal 2000 2 29, 24, 0, 0, ⟨0, -30⟩⟩ := by decide +kernel

end IsoDT.Props.C09
