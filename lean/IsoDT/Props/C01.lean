/-
  C01 — Adding an exact duration translates the instant exactly.

  `Model.addDur` mirrors `TimePoint.__add__` (with `_tick_over`, `_tick_over_day_of_month` and the
  year / week-year loops); `Spec.TP.inst` is the instant a point denotes.  The theorems hold for
  every valid whole-second point (three representations, any offset, 24:00 included, every year
  in `Int`), every exact duration of either sign, and all four calendar modes.
  Fractional (float) operands are outside the model: see DESIGN §10.
-/
import IsoDT.Lemmas.Tick

namespace IsoDT.Props.C01
open IsoDT IsoDT.Model IsoDT.Lemmas
open IsoDT.Spec (Date TZ TP)

/-- `_tick_over` from any intermediate state of an addition (a calendar month in 1..12, every
    other field anywhere in `Int`): the instant, representation and offset are kept, and every
    field ends inside its legal range. -/
theorem C01_tick_over (m : Mode) (p : TP) (hp : PreValid p.date) :
    ∃ q, tickOver m p = some q ∧ q.inst m = p.inst m ∧ q.date.Valid m ∧
      0 ≤ q.hh ∧ q.hh < 24 ∧ 0 ≤ q.mi ∧ q.mi < 60 ∧ 0 ≤ q.ss ∧ q.ss < 60 ∧
      q.tz = p.tz ∧ q.date.rep = p.date.rep := tickOver_spec m p hp

/-- The carry loops of `_tick_over` always make progress: every year has a positive number of
    days, every week-year a positive number of weeks (so the real, unguarded loops terminate). -/
theorem C01_loops_progress (m : Mode) (y : Int) :
    0 < daysInYear m y ∧ 0 < weeksInYear m y ∧ 0 < (calOf m).monthsInYear :=
  ⟨daysInYear_pos m y, weeksInYear_pos m y, by rw [monthsInYear_eq]; omega⟩

/-- **C01**: `p + d` for an exact `d` denotes the instant of `p` shifted by exactly the length of
    `d`; it is a valid point with `0 ≤ h < 24`, in `p`'s representation and UTC offset. -/
theorem C01_add_exact (m : Mode) (p : TP) (dur : Dur) (hv : p.Valid m) (hex : dur.isExact = true) :
    ∃ q, addDur m p dur = some q ∧ q.inst m = p.inst m + dur.exactSeconds m ∧ q.Strict m ∧
      q.date.rep = p.date.rep ∧ q.tz = p.tz := by
  cases dur with
  | weeks w =>
    obtain ⟨q, he, g⟩ := addUnits_spec m p (w * (calOf m).daysInWeek) 0 0 0 hv
    refine ⟨q, ?_, ?_, g.strict, g.rep, g.tz⟩
    · simp only [addDur, Dur.toDays, he, Option.bind_eq_bind, Option.bind_some, addMonths, addYears,
        ↓reduceIte, Option.pure_def]
    · rw [g.inst]; simp only [Dur.exactSeconds, daysInWeek_eq, secondsInDay_eq]; omega
  | units y mo d h mi s =>
    simp only [Dur.isExact, Bool.and_eq_true, beq_iff_eq] at hex
    obtain ⟨hy, hmo⟩ := hex
    subst hy hmo
    obtain ⟨q, he, g⟩ := addUnits_spec m p d h mi s hv
    refine ⟨q, ?_, ?_, g.strict, g.rep, g.tz⟩
    · simp only [addDur, Dur.toDays, he, Option.bind_eq_bind, Option.bind_some, addMonths, addYears,
        ↓reduceIte, Option.pure_def]
    · rw [g.inst]
      simp only [Dur.exactSeconds, secondsInDay_eq, secondsInHour_eq, secondsInMinute_eq]; omega

/-- `p - d` is `p + (-d)`, by definition of `__sub__` … -/
theorem C01_sub_is_add_neg (m : Mode) (p : TP) (dur : Dur) : subDur m p dur = addDur m p dur.neg := rfl

theorem neg_exact (dur : Dur) (h : dur.isExact = true) : dur.neg.isExact = true := by
  cases dur with
  | weeks w => rfl
  | units y mo d h' mi s =>
    simp only [Dur.isExact, Bool.and_eq_true, beq_iff_eq] at h
    simp only [Dur.neg, Dur.mul, Dur.isExact, h.1, h.2]; decide

theorem neg_seconds (m : Mode) (dur : Dur) : dur.neg.exactSeconds m = - dur.exactSeconds m := by
  cases dur <;> simp only [Dur.neg, Dur.mul, Dur.exactSeconds, daysInWeek_eq, secondsInDay_eq,
    secondsInHour_eq, secondsInMinute_eq] <;> omega

/-- … and therefore shifts the instant by exactly minus the length of `d`. -/
theorem C01_sub_exact (m : Mode) (p : TP) (dur : Dur) (hv : p.Valid m) (hex : dur.isExact = true) :
    ∃ q, subDur m p dur = some q ∧ q.inst m = p.inst m - dur.exactSeconds m ∧ q.Strict m ∧
      q.date.rep = p.date.rep ∧ q.tz = p.tz := by
  obtain ⟨q, he, hi, r⟩ := C01_add_exact m p dur.neg hv (neg_exact dur hex)
  refine ⟨q, he, ?_, r⟩
  rw [hi, neg_seconds]; omega

/-- Week form and day form of the same length add identically (`PnW` is `P(7n)D`). -/
theorem C01_weeks_are_days (m : Mode) (p : TP) (w : Int) :
    addDur m p (.weeks w) = addDur m p (.units 0 0 (w * 7) 0 0 0) := by
  simp only [addDur, Dur.toDays, daysInWeek_eq]

/-! ## Non-vacuity and the regression witnesses of the repaired defects (F1, F2) -/

example : (⟨.ord 2004 366, 0, 0, 0, ⟨0, 0⟩⟩ : TP).Valid .greg := by decide
example : addDur .greg ⟨.ord 2004 366, 0, 0, 0, ⟨0, 0⟩⟩ (.units 0 0 1 0 0 0) =
    some ⟨.ord 2005 1, 0, 0, 0, ⟨0, 0⟩⟩ := by decide +kernel
example : addDur .greg ⟨.cal 2000 12 31, 24, 0, 0, ⟨0, 0⟩⟩ (.units 0 0 0 0 0 0) =
    some ⟨.cal 2001 1 1, 0, 0, 0, ⟨0, 0⟩⟩ := by decide +kernel
example : addDur .greg ⟨.week 2020 53 7, 23, 59, 59, ⟨0, -30⟩⟩ (.units 0 0 0 0 0 1) =
    some ⟨.week 2021 1 1, 0, 0, 0, ⟨0, -30⟩⟩ := by decide +kernel
example : addDur .d360 ⟨.cal 0 1 1, 0, 0, 0, ⟨0, 0⟩⟩ (.units 0 0 (-1) 0 0 0) =
    some ⟨.cal (-1) 12 30, 0, 0, 0, ⟨0, 0⟩⟩ := by decide +kernel

end IsoDT.Props.C01
