/-
  C13 — Recurrence queries agree with iteration.

  Proved for recurrences with an exact interval (any notation): `get_next`/`get_prev` move to the
  adjacent member and give `None` past the ends, `r[i]` is the `i`-th iterated point,
  `get_is_valid` is membership of the iterated series by instant (so any representation or offset
  of the probe), and the closed form of `get_first_after` is the earliest member strictly later
  than the probe.  Month/year intervals: observed by the correspondence only.
-/
import IsoDT.Props.C12

namespace IsoDT.Props.C13
open IsoDT IsoDT.Model IsoDT.Lemmas IsoDT.Props.C12
open IsoDT.Spec (Date TZ TP)

/-- **get_next / get_prev** on a recurrence with exact interval `d` of length `L`: from any valid
    point `p` (in particular a member, however it is written) the candidate is exactly one
    interval away, in `p`'s representation and offset, and it is returned iff it lies within the
    recurrence's bounds — otherwise `None` (the ends of a bounded series). -/
theorem C13_next_prev (m : Mode) (r : Rec) (d : Dur) (L : Int) (hr : ExactRec m r d L) (p : TP)
    (hp : p.Valid m) :
    (∃ q, Good m p q L ∧ getNext m r p = (if inBounds m r q then some q else none) ∧
      (inBounds m r q = true ↔ (∀ s, r.start = some s → s.inst m ≤ q.inst m) ∧
        (∀ e, r.end_ = some e → q.inst m ≤ e.inst m))) ∧
    (∃ q, Good m p q (-L) ∧ getPrev m r p = (if inBounds m r q then some q else none) ∧
      (inBounds m r q = true ↔ (∀ s, r.start = some s → s.inst m ≤ q.inst m) ∧
        (∀ e, r.end_ = some e → q.inst m ≤ e.inst m))) := by
  obtain ⟨q, _, g, hn⟩ := getNext_exact m r d L hr p hp
  obtain ⟨q', _, g', hn'⟩ := getPrev_exact m r d L hr p hp
  exact ⟨⟨q, g, hn, inBounds_iff m r d L hr q g.strict.1⟩, ⟨q', g', hn', inBounds_iff m r d L hr q' g'.strict.1⟩⟩

/-- One repetition: no neighbours. -/
theorem C13_single_no_neighbours (m : Mode) (r : Rec) (h : r.reps = some 1) (p : TP) :
    getNext m r p = none ∧ getPrev m r p = none := by
  unfold getNext getPrev; simp [h]

/-! ### membership -/

theorem series_inst_ne_of_gt (m : Mode) (rep : Nat) (tz : TZ) : ∀ (l : List TP) (i0 step x : Int),
    SeriesOK m rep tz l i0 step → 0 < step → x < i0 → ∀ q ∈ l, q.inst m ≠ x := by
  intro l
  induction l with
  | nil => intro _ _ _ _ _ _ q hq; cases hq
  | cons p rest ih =>
    intro i0 step x hs hpos hx q hq
    obtain ⟨h1, _, _, _, h5⟩ := hs
    rcases List.mem_cons.mp hq with rfl | hq
    · omega
    · exact ih (i0 + step) step x h5 hpos (by omega) q hq

theorem series_inst_ne_of_lt (m : Mode) (rep : Nat) (tz : TZ) : ∀ (l : List TP) (i0 step x : Int),
    SeriesOK m rep tz l i0 step → step < 0 → i0 < x → ∀ q ∈ l, q.inst m ≠ x := by
  intro l
  induction l with
  | nil => intro _ _ _ _ _ _ q hq; cases hq
  | cons p rest ih =>
    intro i0 step x hs hneg hx q hq
    obtain ⟨h1, _, _, _, h5⟩ := hs
    rcases List.mem_cons.mp hq with rfl | hq
    · omega
    · exact ih (i0 + step) step x h5 hneg (by omega) q hq

/-- The scan of `get_is_valid` over an increasing series (a recurrence that has a start point):
    true exactly when some listed point is at the probe's instant.  The early exit (taken only
    when there is no end point) is sound because the later points are later still. -/
theorem scan_fwd (m : Mode) (r : Rec) (hst : r.start.isNone = false) (p : TP) (hp : p.Valid m)
    (rep : Nat) (tz : TZ) : ∀ (l : List TP) (i0 step : Int), SeriesOK m rep tz l i0 step → 0 < step →
      (scanValid m r p l = true ↔ ∃ q ∈ l, q.inst m = p.inst m) := by
  intro l
  induction l with
  | nil => intro _ _ _ _; simp [scanValid]
  | cons q rest ih =>
    intro i0 step hs hpos
    obtain ⟨h1, hv, _, _, h5⟩ := hs
    have he := tpEq_iff m q p hv hp
    have hg := tpGt_iff m q p hv hp
    unfold scanValid
    by_cases c1 : tpEq m q p = true
    · rw [if_pos c1]
      exact ⟨fun _ => ⟨q, List.mem_cons_self, he.mp c1⟩, fun _ => rfl⟩
    · rw [if_neg c1]
      simp only [hst, Bool.false_and, Bool.false_eq_true, ↓reduceIte]
      have hne : q.inst m ≠ p.inst m := fun h => c1 (he.mpr h)
      by_cases c2 : (r.end_.isNone && tpGt m q p) = true
      · rw [if_pos c2]
        simp only [Bool.and_eq_true] at c2
        have hgt := hg.mp c2.2
        constructor
        · intro h; cases h
        · rintro ⟨x, hx, hxe⟩
          rcases List.mem_cons.mp hx with rfl | hx
          · exact absurd hxe hne
          · exact absurd hxe (series_inst_ne_of_gt m rep tz rest (i0 + step) step (p.inst m) h5 hpos
              (by omega) x hx)
      · rw [if_neg c2, ih (i0 + step) step h5 hpos]
        constructor
        · rintro ⟨x, hx, hxe⟩; exact ⟨x, List.mem_cons_of_mem _ hx, hxe⟩
        · rintro ⟨x, hx, hxe⟩
          rcases List.mem_cons.mp hx with rfl | hx
          · exact absurd hxe hne
          · exact ⟨x, hx, hxe⟩

/-- The same for the backward iteration of an unbounded duration/end recurrence. -/
theorem scan_rev (m : Mode) (r : Rec) (hst : r.start.isNone = true) (hen : r.end_.isNone = false) (p : TP)
    (hp : p.Valid m) (rep : Nat) (tz : TZ) : ∀ (l : List TP) (i0 step : Int),
      SeriesOK m rep tz l i0 step → step < 0 →
      (scanValid m r p l = true ↔ ∃ q ∈ l, q.inst m = p.inst m) := by
  intro l
  induction l with
  | nil => intro _ _ _ _; simp [scanValid]
  | cons q rest ih =>
    intro i0 step hs hneg
    obtain ⟨h1, hv, _, _, h5⟩ := hs
    have he := tpEq_iff m q p hv hp
    have hl := tpLt_iff m q p hv hp
    unfold scanValid
    by_cases c1 : tpEq m q p = true
    · rw [if_pos c1]
      exact ⟨fun _ => ⟨q, List.mem_cons_self, he.mp c1⟩, fun _ => rfl⟩
    · rw [if_neg c1]
      have hne : q.inst m ≠ p.inst m := fun h => c1 (he.mpr h)
      simp only [hst, hen, Bool.true_and, Bool.false_and, Bool.false_eq_true, ↓reduceIte]
      by_cases c2 : tpLt m q p = true
      · rw [if_pos c2]
        have hlt := hl.mp c2
        constructor
        · intro h; cases h
        · rintro ⟨x, hx, hxe⟩
          rcases List.mem_cons.mp hx with rfl | hx
          · exact absurd hxe hne
          · exact absurd hxe (series_inst_ne_of_lt m rep tz rest (i0 + step) step (p.inst m) h5 hneg
              (by omega) x hx)
      · rw [if_neg c2, ih (i0 + step) step h5 hneg]
        constructor
        · rintro ⟨x, hx, hxe⟩; exact ⟨x, List.mem_cons_of_mem _ hx, hxe⟩
        · rintro ⟨x, hx, hxe⟩
          rcases List.mem_cons.mp hx with rfl | hx
          · exact absurd hxe hne
          · exact ⟨x, hx, hxe⟩

/-- **get_is_valid**, start/duration with `n ≥ 2` repetitions and an exact interval: true exactly
    when iteration yields a point at the probe's instant, i.e. iff the probe is at
    `start + k·d` for some `0 ≤ k < n` — whatever representation or offset the probe is written in. -/
theorem C13_is_valid_bounded (m : Mode) (n : Nat) (s : TP) (d : Dur) (hn : 2 ≤ n) (hs : s.Valid m)
    (hex : d.isExact = true) (hpos : 0 < d.exactSeconds m) (fuel : Nat) (hf : n ≤ fuel)
    (p : TP) (hp : p.Valid m) :
    ∃ r, mkRec m (some (n : Int)) (some s) (some d) none = some r ∧
      (getIsValid m r p fuel = true ↔ ∃ q ∈ iter m r fuel, q.inst m = p.inst m) ∧
      ((∃ q ∈ iter m r fuel, q.inst m = p.inst m) ↔
        ∃ k : Nat, k < n ∧ p.inst m = s.inst m + (k : Int) * d.exactSeconds m) := by
  obtain ⟨r, hr, hlen, _, hser⟩ := C12_start_duration_bounded m n s d hn hs hex hpos fuel hf
  obtain ⟨e, hr', es, ei, _, _⟩ := mkRec_fmt3_bounded m n s d (by omega) hs hex hpos
  rw [hr] at hr'
  have hre : r = ⟨some (n : Int), some s, some d, some e, none, 3⟩ := by simpa using hr'
  refine ⟨r, hr, ?_, ?_⟩
  · have hx : ExactRec m r d (d.exactSeconds m) := by
      rw [hre]
      exact exactRec_of m _ d rfl hex hpos (by simp; omega) (fun s' h => by cases h; exact hs)
        (fun e' h => by cases h; exact es.1)
    have hsc := scan_fwd m r (by rw [hre]; rfl) p hp _ _ (iter m r fuel) _ _ hser hpos
    unfold getIsValid
    by_cases cb : inBounds m r p = true
    · simp only [cb, Bool.not_true, Bool.false_eq_true, ↓reduceIte]
      exact hsc
    · have cb' : inBounds m r p = false := by cases h : inBounds m r p <;> simp_all
      simp only [cb', Bool.not_false, ↓reduceIte, Bool.false_eq_true, false_iff]
      rintro ⟨q, hq, hqe⟩
      apply cb
      rw [inBounds_iff m r d _ hx p hp]
      obtain ⟨i, hi, rfl⟩ := List.getElem_of_mem hq
      have hg := seriesOK_get m _ _ _ _ _ hser i hi
      rw [hlen] at hi
      constructor
      · intro s' h; rw [hre] at h; cases h
        rw [← hqe, hg.1]
        have := Int.mul_nonneg (Int.natCast_nonneg i) (Int.le_of_lt hpos); omega
      · intro e' h; rw [hre] at h; cases h
        rw [← hqe, hg.1, ei]
        have h1 : (i : Int) ≤ (n : Int) - 1 := by omega
        have := Int.mul_le_mul_of_nonneg_right h1 (Int.le_of_lt hpos)
        rw [Int.mul_comm (d.exactSeconds m)]; omega
  · constructor
    · rintro ⟨q, hq, hqe⟩
      obtain ⟨i, hi, rfl⟩ := List.getElem_of_mem hq
      have hg := seriesOK_get m _ _ _ _ _ hser i hi
      exact ⟨i, by omega, by rw [← hqe, hg.1]⟩
    · rintro ⟨k, hk, hke⟩
      have hk' : k < (iter m r fuel).length := by omega
      have hg := seriesOK_get m _ _ _ _ _ hser k hk'
      exact ⟨(iter m r fuel)[k], List.getElem_mem hk', by rw [hg.1, hke]⟩

/-- **`r[i]`** is the `i`-th iterated point (start/duration, `n ≥ 2`, exact interval): at instant
    `start + i·d` for `i < n`, and an `IndexError` (`none`) from `n` on. -/
theorem C13_getitem (m : Mode) (n : Nat) (s : TP) (d : Dur) (hn : 2 ≤ n) (hs : s.Valid m)
    (hex : d.isExact = true) (hpos : 0 < d.exactSeconds m) (i : Nat) :
    ∃ r, mkRec m (some (n : Int)) (some s) (some d) none = some r ∧
      (i < n → ∃ p, getItem m r i = some p ∧ p.inst m = s.inst m + (i : Int) * d.exactSeconds m ∧
        p.Valid m ∧ p.date.rep = s.date.rep ∧ p.tz = s.tz) ∧
      (n ≤ i → getItem m r i = none) := by
  obtain ⟨r, hr, hlen, _, hser⟩ := C12_start_duration_bounded m n s d hn hs hex hpos (max n (i + 1)) (by omega)
  -- the prefix of length i+1 is what __getitem__ walks
  obtain ⟨e, hr', es, ei, _, _⟩ := mkRec_fmt3_bounded m n s d (by omega) hs hex hpos
  rw [hr] at hr'
  have hre : r = ⟨some (n : Int), some s, some d, some e, none, 3⟩ := by simpa using hr'
  have hx : ExactRec m r d (d.exactSeconds m) := by
    rw [hre]
    exact exactRec_of m _ d rfl hex hpos (by simp; omega) (fun s' h => by cases h; exact hs)
      (fun e' h => by cases h; exact es.1)
  have hs' : r.start = some s := by rw [hre]
  obtain ⟨a, b, _⟩ := iterFrom_fwd m r d _ hx (i + 1) s hs (fun s' h => by rw [hs'] at h; cases h; exact Int.le_refl _)
  have hnn := Int.mul_nonneg (Int.le_of_lt hpos) (show (0:Int) ≤ (n:Int) - 1 by omega)
  have hlen2 := b e (by rw [hre]) (by rw [ei]; omega)
  have hq : (e.inst m - s.inst m) / d.exactSeconds m = (n : Int) - 1 := by
    rw [ei]
    have : s.inst m + d.exactSeconds m * ((n : Int) - 1) - s.inst m = d.exactSeconds m * ((n : Int) - 1) := by omega
    rw [this, Int.mul_ediv_cancel_left _ (by omega)]
  rw [hq] at hlen2
  refine ⟨r, hr, ?_, ?_⟩
  · intro hi
    have hl : i < (iterFrom m r false (i + 1) s).length := by omega
    have hg := seriesOK_get m _ _ _ _ _ a i hl
    refine ⟨(iterFrom m r false (i + 1) s)[i], ?_, hg.1, hg.2.1, hg.2.2.1, hg.2.2.2⟩
    unfold getItem
    rw [iter_fwd m r d _ hx s hs' (i + 1)]
    exact List.getElem?_eq_getElem hl
  · intro hi
    unfold getItem
    rw [iter_fwd m r d _ hx s hs' (i + 1)]
    apply List.getElem?_eq_none
    omega

/-! ### `get_first_after` -/

/-- **get_first_after**, closed form for an exact interval: for a probe within the bounds the
    result is the member `start + (⌊(p − start)/L⌋ + 1)·L` — the earliest member strictly later
    than `p` — if that is still within the bounds, and `None` otherwise (repaired defect F3);
    before the start it is the start; after the end `None`. -/
theorem C13_first_after_exact (m : Mode) (r : Rec) (d : Dur) (L : Int) (hr : ExactRec m r d L) (s : TP)
    (hs : r.start = some s) (p : TP) (hp : p.Valid m) (fuel : Nat) :
    (inBounds m r p = true →
      ∃ q, Good m p q (L - (p.inst m - s.inst m) % L) ∧
        q.inst m = s.inst m + ((p.inst m - s.inst m) / L + 1) * L ∧ p.inst m < q.inst m ∧
        q.inst m ≤ p.inst m + L ∧
        getFirstAfter m r p fuel = (if inBounds m r q then some q else none)) ∧
    (inBounds m r p = false → p.inst m < s.inst m → getFirstAfter m r p fuel = some s) ∧
    (inBounds m r p = false → ¬ p.inst m < s.inst m → getFirstAfter m r p fuel = none) := by
  have hsv := hr.startValid s hs
  have hpos := hr.pos
  refine ⟨?_, ?_, ?_⟩
  · intro hb
    have hge : s.inst m ≤ p.inst m := ((inBounds_iff m r d L hr p hp).mp hb).1 s hs
    obtain ⟨dd, hh, mm, ss, hd, hl, _, _⟩ := subTP_spec m p s hp hsv
    have hdsec : (Dur.units 0 0 dd hh mm ss).seconds m = p.inst m - s.inst m := by
      rw [seconds_exact m _ rfl]
      simp only [Dur.exactSeconds, secondsInDay_eq, secondsInHour_eq, secondsInMinute_eq]; omega
    have hLsec : d.seconds m = L := by rw [seconds_exact m d hr.exact, hr.len]
    have hfm : Int.fmod (p.inst m - s.inst m) L = (p.inst m - s.inst m) % L :=
      Int.fmod_eq_emod_of_nonneg _ (by omega)
    -- the duration added: d - since
    have hsubex : (Dur.sub m d (.units 0 0 0 0 0 ((p.inst m - s.inst m) % L))).isExact = true := by
      have := hr.exact
      cases d with
      | weeks w => rfl
      | units y mo a b c e =>
        simp only [Dur.isExact, Bool.and_eq_true, beq_iff_eq] at this
        simp [Dur.sub, Dur.add, Dur.mul, Dur.toDays, Dur.isExact, this.1, this.2]
    have hsubsec : (Dur.sub m d (.units 0 0 0 0 0 ((p.inst m - s.inst m) % L))).exactSeconds m =
        L - (p.inst m - s.inst m) % L := by
      have hl' := hr.len
      cases d with
      | weeks w =>
        simp only [Dur.sub, Dur.add, Dur.mul, Dur.toDays, Dur.exactSeconds, daysInWeek_eq, secondsInDay_eq,
          secondsInHour_eq, secondsInMinute_eq] at hl' ⊢
        omega
      | units y mo a b c e =>
        simp only [Dur.sub, Dur.add, Dur.mul, Dur.toDays, Dur.exactSeconds, secondsInDay_eq,
          secondsInHour_eq, secondsInMinute_eq] at hl' ⊢
        omega
    obtain ⟨q, hq, g⟩ := addDur_exact m p _ hp hsubex
    rw [hsubsec] at g
    have hmod := Int.emod_nonneg (p.inst m - s.inst m) (show L ≠ 0 by omega)
    have hmod2 := Int.emod_lt_of_pos (p.inst m - s.inst m) hpos
    have hdm := Int.emod_add_mul_ediv (p.inst m - s.inst m) L
    refine ⟨q, g, ?_, by rw [g.inst]; omega, by rw [g.inst]; omega, ?_⟩
    · rw [g.inst, Int.add_mul, Int.one_mul, Int.mul_comm ((p.inst m - s.inst m) / L) L]; omega
    · unfold getFirstAfter
      have hL0 : ¬ L = 0 := by omega
      simp only [hs, hb, ↓reduceIte, hr.dur, hr.exact, hd, hdsec, hLsec, hL0, hfm, hq]
  · intro hb hlt
    unfold getFirstAfter
    simp only [hs, hb, Bool.false_eq_true, ↓reduceIte, (tpLt_iff m p s hp hsv).mpr hlt]
  · intro hb hge
    have : tpLt m p s = false := by
      cases h : tpLt m p s
      · rfl
      · exact absurd ((tpLt_iff m p s hp hsv).mp h) hge
    unfold getFirstAfter
    simp only [hs, hb, Bool.false_eq_true, ↓reduceIte, this]

/-! ## Non-vacuity: the witness of the repaired defect F3 -/

example : getFirstAfter .greg ⟨some 3, some ⟨.cal 2002 5 4, 23, 0, 0, ⟨0, 0⟩⟩, some (.units 0 0 0 1 0 0),
    some ⟨.cal 2002 5 5, 1, 0, 0, ⟨0, 0⟩⟩, none, 3⟩ ⟨.cal 2002 5 5, 1, 0, 0, ⟨0, 0⟩⟩ 10 = none := by
  decide +kernel
example : getFirstAfter .greg ⟨some 3, some ⟨.cal 2002 5 4, 23, 0, 0, ⟨0, 0⟩⟩, some (.units 0 0 0 1 0 0),
    some ⟨.cal 2002 5 5, 1, 0, 0, ⟨0, 0⟩⟩, none, 3⟩ ⟨.ord 2002 124, 23, 30, 0, ⟨0, 0⟩⟩ 10 =
    some ⟨.ord 2002 125, 0, 0, 0, ⟨0, 0⟩⟩ := by
  decide +kernel

end IsoDT.Props.C13
