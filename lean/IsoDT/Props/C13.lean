import IsoDT.Model.Recurrence
namespace IsoDT.Props.C13
theorem placeholder : (1 : Nat) = 1 := rfl
end IsoDT.Props.C13
