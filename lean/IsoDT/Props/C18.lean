/-
  C18 — Unix time and the system's local UTC offset are converted exactly.

  The operating system's zone data (`time.timezone`, `time.altzone`, `time.daylight`,
  `time.localtime().tm_isdst`) enter as parameters; `Model.splitOffset` mirrors the arithmetic of
  `timezone.get_local_time_zone` with Python's floor division and divisor-signed modulus.
-/
import IsoDT.Model.LocalTZ
import IsoDT.Lemmas.Cmp

namespace IsoDT.Props.C18
open IsoDT IsoDT.Model IsoDT.Lemmas
open IsoDT.Spec (Date TZ TP)

theorem fdiv_neg60 (q : Int) : Int.fdiv q (-60) = (-q) / 60 := by
  have h := Int.neg_fdiv_neg (-q) 60
  rw [Int.neg_neg] at h
  rw [h, Int.fdiv_eq_ediv_of_nonneg _ (by omega)]

/-- **C18 (local offset)**: for *every* whole-minute UTC offset in seconds (not only ±24 h), either
    sign, hour part zero or not, the reported pair is exact — `60·h + m` is the offset in minutes —
    with `|m| < 60` and both parts carrying the offset's sign. -/
theorem C18_split (off : Int) (hdiv : off % 60 = 0) :
    60 * (splitOffset off).1 + (splitOffset off).2 = off / 60 ∧
    -60 < (splitOffset off).2 ∧ (splitOffset off).2 < 60 ∧
    (0 ≤ off → 0 ≤ (splitOffset off).1 ∧ 0 ≤ (splitOffset off).2) ∧
    (off < 0 → (splitOffset off).1 ≤ 0 ∧ (splitOffset off).2 ≤ 0) := by
  unfold splitOffset
  by_cases c : off < 0
  · simp only [c, ↓reduceIte]
    have e1 : (-1 : Int) * 60 = -60 := by omega
    have e2 : (-1 : Int) * off = -off := by omega
    rw [e1, e2, Int.fdiv_eq_ediv_of_nonneg _ (by omega : (0 : Int) ≤ 3600),
      Int.fdiv_eq_ediv_of_nonneg _ (by omega : (0 : Int) ≤ 60), Int.fmod_def, fdiv_neg60]
    refine ⟨by omega, by omega, by omega, fun h => by omega, fun _ => by omega⟩
  · simp only [c, ↓reduceIte]
    have e1 : (1 : Int) * 60 = 60 := by omega
    have e2 : (1 : Int) * off = off := by omega
    rw [e1, e2, Int.fdiv_eq_ediv_of_nonneg _ (by omega : (0 : Int) ≤ 3600),
      Int.fdiv_eq_ediv_of_nonneg _ (by omega : (0 : Int) ≤ 60),
      Int.fmod_eq_emod_of_nonneg _ (by omega : (0 : Int) ≤ 60)]
    refine ⟨by omega, by omega, by omega, fun _ => by omega, fun h => h.elim⟩

/-- The reported pair is always a legal `TimeZone` when the offset is within ±99:59. -/
theorem C18_split_valid (off : Int) (hdiv : off % 60 = 0) (hr : -359940 ≤ off ∧ off ≤ 359940) :
    (⟨(splitOffset off).1, (splitOffset off).2⟩ : TZ).Valid := by
  obtain ⟨h1, h2, h3, h4, h5⟩ := C18_split off hdiv
  unfold TZ.Valid
  simp only
  by_cases c : off < 0
  · have := h5 c; omega
  · have := h4 (by omega); omega

/-- Daylight saving: the alternative offset is used exactly when DST is in effect *and* the zone
    has DST rules; `time.timezone`/`altzone` are seconds west of UTC. -/
theorem C18_dst_choice (timezone altzone : Int) (daylight : Bool) (isdst : Int) :
    localOffsetSeconds timezone altzone daylight isdst =
      if isdst = 1 ∧ daylight = true then -altzone else -timezone := rfl

theorem C18_local (timezone altzone : Int) (daylight : Bool) (isdst : Int) :
    localTZ timezone altzone daylight isdst =
      splitOffset (localOffsetSeconds timezone altzone daylight isdst) := rfl

/-- The text forms: `Z` exactly for the zero offset; otherwise sign, two-digit hours and (normal,
    extended) two-digit minutes; the reduced form falls back to the normal one when minutes ≠ 0. -/
theorem C18_format (h mi : Int) :
    (h = 0 ∧ mi = 0 → formatLocalTZ 0 (h, mi) = "Z" ∧ formatLocalTZ 1 (h, mi) = "Z" ∧
      formatLocalTZ 2 (h, mi) = "Z") ∧
    (¬ (h = 0 ∧ mi = 0) →
      formatLocalTZ 0 (h, mi) = (if h < 0 ∨ mi < 0 then "-" else "+") ++ pad2 h ++ pad2 mi ∧
      formatLocalTZ 2 (h, mi) = (if h < 0 ∨ mi < 0 then "-" else "+") ++ pad2 h ++ ":" ++ pad2 mi ∧
      formatLocalTZ 1 (h, mi) =
        (if mi ≠ 0 then formatLocalTZ 0 (h, mi) else (if h < 0 ∨ mi < 0 then "-" else "+") ++ pad2 h)) := by
  constructor
  · intro hz
    simp [formatLocalTZ, hz]
  · intro hnz
    unfold formatLocalTZ
    simp only [hnz, ↓reduceIte]
    refine ⟨by simp, by simp, ?_⟩
    by_cases c : mi ≠ 0
    · simp [c]
    · simp [c]

/-! ### the Unix epoch -/

theorem unixEpoch_eq : unixEpoch = ⟨.cal 1970 1 1, 0, 0, 0, ⟨0, 0⟩⟩ := by decide

theorem unixEpoch_valid (m : Mode) : unixEpoch.Valid m := by
  rw [unixEpoch_eq]; cases m <;> decide

/-- **C18 (from Unix time)**: the point built from `n` seconds since the epoch denotes
    1970-01-01T00:00:00Z plus `n` seconds, in UTC or in the requested local zone. -/
theorem C18_from_unix (m : Mode) (n : Int) (z : Option TZ) (hz : ∀ zz, z = some zz → zz.Valid) :
    ∃ q, fromUnix m n z = some q ∧ q.inst m = unixEpoch.inst m + n ∧ q.Strict m ∧
      q.tz = z.getD ⟨0, 0⟩ ∧ q.date.rep = 0 := by
  cases z with
  | none =>
    obtain ⟨q, e, g⟩ := addDur_exact_units m unixEpoch 0 0 0 n (unixEpoch_valid m)
    refine ⟨q, e, by rw [g.inst]; omega, g.strict, ?_, ?_⟩
    · rw [g.tz, unixEpoch_eq]; rfl
    · rw [g.rep, unixEpoch_eq]; rfl
  | some zz =>
    obtain ⟨r, e1, i1, t1, r1, v1, _⟩ := toTimeZone_spec m unixEpoch zz (unixEpoch_valid m) (hz zz rfl)
    obtain ⟨q, e, g⟩ := addDur_exact_units m r 0 0 0 n v1
    refine ⟨q, ?_, by rw [g.inst, i1]; omega, g.strict, ?_, ?_⟩
    · simp only [fromUnix, e1, Option.bind_some, e]
    · rw [g.tz, t1]; rfl
    · rw [g.rep, r1, unixEpoch_eq]; rfl

/-- **C18 (to Unix time)**: `seconds_since_unix_epoch` of any valid point, in any offset or
    representation, is the whole number of seconds from the epoch to its instant. -/
theorem C18_seconds_since (m : Mode) (p : TP) (hp : p.Valid m) :
    secondsSinceUnixEpoch m p = some (p.inst m - unixEpoch.inst m) := by
  obtain ⟨dd, hh, mm, ss, e, hl, _, _⟩ := subTP_spec m p unixEpoch hp (unixEpoch_valid m)
  simp only [secondsSinceUnixEpoch, e, Option.map_some, Dur.daysAndSeconds, secondsInDay_eq,
    secondsInHour_eq, secondsInMinute_eq, Option.some.injEq]
  have e1 : (0 : Int) * (calOf m).roughDaysInYear = 0 := by omega
  have e2 : (0 : Int) * (calOf m).roughDaysInMonth = 0 := by omega
  rw [e1, e2]
  omega

/-! ## Non-vacuity -/

example : splitOffset (-1800) = (0, -30) ∧ splitOffset (-9000) = (-2, -30) ∧ splitOffset 20700 = (5, 45) ∧
    splitOffset 0 = (0, 0) ∧ splitOffset (-86400) = (-24, 0) := by decide
example : localTZ 12600 9000 true 1 = (-2, -30) ∧ localTZ 12600 9000 false 1 = (-3, -30) := by decide
example : fromUnix .greg (-1) none = some ⟨.cal 1969 12 31, 23, 59, 59, ⟨0, 0⟩⟩ := by decide +kernel

end IsoDT.Props.C18
