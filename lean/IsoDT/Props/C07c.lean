/-
  C07 (second sentence) — "Parsing with dump_as_parsed and converting back to text reproduces the
  input (up to trailing zeros of a decimal fraction)", for every documented non-truncated form.

  `Props/C07` / `Props/C07b` say what `parse` returns for the text a complete date form, a
  non-truncated time form and a zone form (or none) spell: the point `pointOf`.  With
  `dump_as_parsed=True` the same point carries the concatenated expression text of the matched
  entries as its dump format (`parse_asParsed`), and `str` runs the dumper on it.  Here `str` of that
  point is shown to be the text the same regular expressions spell for the values as read back from
  the point (`Lemmas/TextAsParsed`): the input itself, except that
  * a `-` on an all-zero year (`-000000`) or on an all-zero zone (`-00`, `-00:00`, `-0000`) comes back
    as `+` (the point does not keep the sign of a zero);
  * a decimal fraction comes back as `TimePoint._decimal_string` of its digits: trailing zeros
    stripped, at least one digit kept, when there are at most six digits; longer fractions are
    rounded to six digits (the known finding F12);
  * a text without zone has a format without zone: nothing is printed for the configured default
    zone the point received; `Z` prints `Z`.
  The dumper's chain of regex substitutions on each concrete expression text is evaluated by the
  kernel for every combination of entries of every regenerated table (`C07_as_parsed_tables`).
-/
import IsoDT.Props.C07b
import IsoDT.Lemmas.TextAsParsed

namespace IsoDT.Props.C07
open IsoDT IsoDT.Text IsoDT.Model
open _root_.IsoDT.Gen.Templates (timeDesignator dateTypeOrder parserTables)

/-! ## The tables pass the checks -/

/-- The zone forms that may follow a time of format `f`: none, or a listed zone form of that format. -/
def zoneOpts (pt : ParserTables) (f : FormatKey) : List (Option ZEntry) :=
  none :: (pt.zoneEntries.filter (·.fmt == f)).map some

/-- For every non-truncated date form alone, and for every complete date form with every non-truncated
    time form of the same format and every zone form of that format or none: the parts have groups of
    their own kind only (`shapeCheck`), and the dumper compiles the concatenated expression text to
    exactly the printf expression the regular expressions correspond to (`exprCheck`). -/
def asParsedOK (pt : ParserTables) : Bool :=
  pt.dateEntries.all fun de =>
    (de.typ == .truncated || (shapeCheck de none none && exprCheck pt de none none)) &&
    (de.typ != .complete ||
      pt.timeEntries.all fun te => te.typ == .truncated || te.fmt != de.fmt ||
        (zoneOpts pt de.fmt).all fun zo => shapeCheck de (some te) zo && exprCheck pt de (some te) zo)

set_option maxRecDepth 100000 in
/-- **C07 (expression texts)**: in every regenerated configuration, the expression text of every
    documented non-truncated combination of forms is compiled by the dumper's substitution rules to the
    printf expression that corresponds, item by item, to the forms' regular expressions. -/
theorem C07_as_parsed_tables : parserTables.all asParsedOK = true := by decide +kernel

theorem asParsed_time (pt : ParserTables) (hpt : pt ∈ parserTables)
    (de : Entry) (hde : de ∈ pt.dateEntries) (hdc : de.typ = .complete)
    (te : Entry) (hte : te ∈ pt.timeEntries) (htt : te.typ ≠ .truncated) (htf : te.fmt = de.fmt)
    (zo : Option ZEntry) (hzo : ∀ ze, zo = some ze → ze ∈ pt.zoneEntries ∧ ze.fmt = de.fmt) :
    shapeCheck de (some te) zo = true ∧ exprCheck pt de (some te) zo = true := by
  have hk := List.all_eq_true.mp C07_as_parsed_tables pt hpt
  simp only [asParsedOK, Bool.and_eq_true, List.all_eq_true, Bool.or_eq_true, beq_iff_eq, bne_iff_ne,
    ne_eq] at hk
  have hmem : zo ∈ zoneOpts pt de.fmt := by
    cases zo with
    | none => exact List.mem_cons_self ..
    | some ze =>
      obtain ⟨h1, h2⟩ := hzo ze rfl
      exact List.mem_cons_of_mem _ (List.mem_map.mpr ⟨ze, List.mem_filter.mpr ⟨h1, by simp [h2]⟩, rfl⟩)
  rcases (hk de hde).2 with h | h
  · exact absurd hdc h
  · rcases h te hte with (h | h) | h
    · exact absurd h htt
    · exact absurd htf h
    · exact h zo hmem

theorem asParsed_date (pt : ParserTables) (hpt : pt ∈ parserTables)
    (de : Entry) (hde : de ∈ pt.dateEntries) (hnt : de.typ ≠ .truncated) :
    shapeCheck de none none = true ∧ exprCheck pt de none none = true := by
  have hk := List.all_eq_true.mp C07_as_parsed_tables pt hpt
  simp only [asParsedOK, Bool.and_eq_true, List.all_eq_true, Bool.or_eq_true, beq_iff_eq] at hk
  rcases (hk de hde).1 with h | h
  · exact absurd h hnt
  · exact h

/-! ## The texts and the re-spelled values -/

/-- The text a date form, a time form and a zone form (or none) spell for the values `v`. -/
def formText (de te : Entry) (zo : Option ZEntry) (v : Vals) : List Char :=
  trender de.tmpl (envOf de.tmpl v) ++ 'T' :: (trender te.tmpl (envOf te.tmpl v) ++ zoneText zo v)

/-- The expression text `get_info` assembles for these forms: `CCYY-MM-DD` `T` `hh:mm:ss` `+hh:mm`. -/
def formExpr (de te : Entry) (zo : Option ZEntry) : List Char :=
  de.expr ++ 'T' :: (te.expr ++ zexprO zo)

/-- The values as `str` spells the SIGNS back: a `-` on an all-zero year, or on an all-zero zone
    (hour `00` and, if the form has minutes, minute `00`), is `+`. -/
def respell (de : Template) (zo : Option ZEntry) (v : Vals) : Vals :=
  { v with
    yearNeg := v.yearNeg && decide (yearOf de v ≠ 0)
    tzNeg := v.tzNeg && !zoneZero (ztmplO zo) v }

/-- … and the decimal fraction as `_decimal_string` prints a fraction of at most six digits: without
    its trailing zeros, at least one digit kept (`stripZeros_spec`). -/
def respellDec (de : Template) (zo : Option ZEntry) (v : Vals) : Vals :=
  { respell de zo v with
    hourDec := stripZeros v.hourDec
    minuteDec := stripZeros v.minuteDec
    secondDec := stripZeros v.secondDec }

theorem textOf_eq (de te : Entry) (zo : Option ZEntry) (v : Vals) :
    textOf de (some te) zo v = formText de te zo v := by
  cases zo <;> rfl

theorem ztmpl_map (zo : Option ZEntry) (f : Fld) :
    hasGroup (ztmplO zo) f = true → ∃ ze, zo = some ze ∧ hasGroup ze.tmpl f = true := by
  cases zo with
  | none => intro h; simp [ztmplO, hasGroup, groupFields] at h
  | some ze => intro h; exact ⟨ze, rfl, h⟩

/-- Two assignments that agree on every group of the three forms spell the same text. -/
theorem formText_congr (de te : Entry) (zo : Option ZEntry) (v v' : Vals)
    (hd : ∀ f, hasGroup de.tmpl f = true → v.nat f = v'.nat f ∧ v.neg f = v'.neg f ∧ v.dec f = v'.dec f)
    (ht : ∀ f, hasGroup te.tmpl f = true → v.nat f = v'.nat f ∧ v.neg f = v'.neg f ∧ v.dec f = v'.dec f)
    (hz : ∀ f, hasGroup (ztmplO zo) f = true → v.nat f = v'.nat f ∧ v.neg f = v'.neg f ∧ v.dec f = v'.dec f) :
    formText de te zo v = formText de te zo v' := by
  unfold formText
  rw [envOf_congr de.tmpl v v' hd, envOf_congr te.tmpl v v' ht]
  cases zo with
  | none => rfl
  | some ze =>
    simp only [zoneText]
    rw [envOf_congr ze.tmpl v v' hz]

/-! ## Parsing with `dump_as_parsed` -/

/-- **C07 (dump_as_parsed, the parse)**: with `dump_as_parsed=True` the parser returns the same point
    as without (`C07_parse`: `pointOf`, iff the values form a valid date-time), carrying as its dump
    format the concatenated expression text of the matched date, time and zone forms. -/
theorem C07_parse_as_parsed (cfg : Cfg) (hpt : cfg.pt ∈ parserTables)
    (de : Entry) (hde : de ∈ cfg.pt.dateEntries) (hdc : de.typ = .complete)
    (hx : cfg.pt.ned = 0 → hasGroup de.tmpl .expandedYear = false)
    (te : Entry) (hte : te ∈ cfg.pt.timeEntries) (htt : te.typ ≠ .truncated) (htf : te.fmt = de.fmt)
    (zo : Option ZEntry) (hzo : ∀ ze, zo = some ze → ze ∈ cfg.pt.zoneEntries ∧ ze.fmt = de.fmt)
    (v : Vals) (hv : v.Fit cfg.pt.ned) (tz : Spec.TZ)
    (hz : mkTZ cfg.mode ((zoneOf cfg.zone (zo.map (·.tmpl)) v).hour.getD 0)
      ((zoneOf cfg.zone (zo.map (·.tmpl)) v).minute.getD 0) = some tz) :
    parse cfg (formText de te zo v) true =
      if (dateOf de.tmpl v).Valid cfg.mode ∧ TimeValid te.tmpl v then
        some { pointOf cfg de.tmpl te.tmpl v tz with dumpFmt := some (formExpr de te zo) }
      else none := by
  have tf := tableFacts cfg.pt hpt
  have df := decodeFacts cfg.pt hpt
  obtain ⟨hdi, _, _⟩ := df.dates de hde (by rw [hdc]; decide)
  obtain ⟨hti, _⟩ := df.times te hte htt
  have hfd := fits_envOf cfg.pt.ned de.tmpl (tf.dates de hde).1 hdi v hv
  have hft := fits_envOf cfg.pt.ned te.tmpl (tf.times te hte).1 hti v hv
  have key := C07_groups cfg hpt de hde hdc te hte htt htf (zo.map fun ze => (ze, envOf ze.tmpl v))
    (by
      intro ze zenv h
      cases zo with
      | none => cases h
      | some z =>
        simp only [Option.map_some, Option.some.injEq, Prod.mk.injEq] at h
        obtain ⟨rfl, rfl⟩ := h
        obtain ⟨h1, h2⟩ := hzo z rfl
        have hz := df.zones z h1
        simp only [zoneOK, Bool.and_eq_true] at hz
        exact ⟨h1, h2, fits_envOf cfg.pt.ned z.tmpl (tf.zones z h1).1 hz.1 v hv⟩)
    (envOf de.tmpl v) (envOf te.tmpl v) hfd hft
  have hzone : processZone cfg.zone (zoneEnvOf (zo.map fun ze => (ze, envOf ze.tmpl v))) =
      some (zoneOf cfg.zone (zo.map (·.tmpl)) v) := by
    cases zo with
    | none => exact processZone_none cfg.zone v
    | some z => exact processZone_envOf cfg.pt.ned cfg.zone z.tmpl (df.zones z (hzo z rfl).1) v hv
  have htext : zoneTextOf (zo.map fun ze => (ze, envOf ze.tmpl v)) = zoneText zo v := by
    cases zo <;> rfl
  have hexpr : zoneExprOf (zo.map fun ze => (ze, envOf ze.tmpl v)) = zexprO zo := by
    cases zo <;> rfl
  rw [hzone, htext, hexpr] at key
  simp only [Option.map_some] at key
  have hp := C07_parse cfg hpt de hde hdc hx te hte htt htf zo hzo v hv tz hz
  have key' : getInfo cfg (formText de te zo v) = some _ := key
  rw [parse_asParsed cfg _ _ key']
  unfold formText
  rw [hp]
  split <;> rfl

/-! ## The property -/

/-- **C07 (dump_as_parsed round trip, every time form)**: for every regenerated configuration, every
    complete date form (not a signed form when no expanded digits are configured), every non-truncated
    time form of the same format — with or without a decimal fraction —, every zone form of that
    format or none, and every assignment of values that fit the widths and form a valid date-time:
    parsing the text with `dump_as_parsed=True` succeeds, and `str` of the result is the text the same
    forms spell for the values `spelled` — as given, except that a `-` on an all-zero year or zone is
    `+` and a decimal fraction of ANY length is `_decimal_string` of its digits (≤ 6 digits: trailing
    zeros dropped; more: rounded to six — finding F12).  Without a zone in the text nothing is printed
    for the zone; `Z` prints `Z`. -/
theorem C07_as_parsed_any (cfg : Cfg) (hpt : cfg.pt ∈ parserTables)
    (de : Entry) (hde : de ∈ cfg.pt.dateEntries) (hdc : de.typ = .complete)
    (hx : cfg.pt.ned = 0 → hasGroup de.tmpl .expandedYear = false)
    (te : Entry) (hte : te ∈ cfg.pt.timeEntries) (htt : te.typ ≠ .truncated) (htf : te.fmt = de.fmt)
    (zo : Option ZEntry) (hzo : ∀ ze, zo = some ze → ze ∈ cfg.pt.zoneEntries ∧ ze.fmt = de.fmt)
    (v : Vals) (hv : v.Fit cfg.pt.ned) (tz : Spec.TZ)
    (hz : mkTZ cfg.mode ((zoneOf cfg.zone (zo.map (·.tmpl)) v).hour.getD 0)
      ((zoneOf cfg.zone (zo.map (·.tmpl)) v).minute.getD 0) = some tz)
    (hvalid : (dateOf de.tmpl v).Valid cfg.mode ∧ TimeValid te.tmpl v) :
    ∃ x, parse cfg (formText de te zo v) true = some x ∧
      x = { pointOf cfg de.tmpl te.tmpl v tz with dumpFmt := some (formExpr de te zo) } ∧
      str cfg.mode x = .ok (formText de te zo (spelled de.tmpl (ztmplO zo) v)) := by
  refine ⟨_, ?_, rfl, ?_⟩
  · rw [C07_parse_as_parsed cfg hpt de hde hdc hx te hte htt htf zo hzo v hv tz hz, if_pos hvalid]
  · have df := decodeFacts cfg.pt hpt
    obtain ⟨hdi, hdcc, hds⟩ := df.dates de hde (by rw [hdc]; decide)
    obtain ⟨hti, hts⟩ := df.times te hte htt
    obtain ⟨hsh, hex⟩ := asParsed_time cfg.pt hpt de hde hdc te hte htt htf zo hzo
    have hzi : (ztmplO zo).all (itemOK cfg.pt.ned) = true := by
      cases zo with
      | none => rfl
      | some ze =>
        have := df.zones ze (hzo ze rfl).1
        simp only [zoneOK, Bool.and_eq_true] at this
        exact this.1
    have := str_pointOf cfg de (some te) zo v tz hdi hdcc hds hx hti hts hzi hsh hex hv hz
    rw [textOf_eq] at this
    exact this

/-- **C07 (dump_as_parsed round trip)**: for a time form WITHOUT a decimal fraction (`hh`, `hhmm`,
    `hhmmss`, basic or extended), `str` of the point parsed with `dump_as_parsed=True` reproduces the
    input text, except that a `-` on an all-zero year or an all-zero zone is re-spelled `+`
    (`respell`); with no zone in the text the format has none either — the point carries the
    configured default zone and nothing is printed for it; `Z` prints `Z`. -/
theorem C07_as_parsed (cfg : Cfg) (hpt : cfg.pt ∈ parserTables)
    (de : Entry) (hde : de ∈ cfg.pt.dateEntries) (hdc : de.typ = .complete)
    (hx : cfg.pt.ned = 0 → hasGroup de.tmpl .expandedYear = false)
    (te : Entry) (hte : te ∈ cfg.pt.timeEntries) (htt : te.typ ≠ .truncated) (htf : te.fmt = de.fmt)
    (hnd : ∀ f, isDecFld f = true → hasGroup te.tmpl f = false)
    (zo : Option ZEntry) (hzo : ∀ ze, zo = some ze → ze ∈ cfg.pt.zoneEntries ∧ ze.fmt = de.fmt)
    (v : Vals) (hv : v.Fit cfg.pt.ned) (tz : Spec.TZ)
    (hz : mkTZ cfg.mode ((zoneOf cfg.zone (zo.map (·.tmpl)) v).hour.getD 0)
      ((zoneOf cfg.zone (zo.map (·.tmpl)) v).minute.getD 0) = some tz)
    (hvalid : (dateOf de.tmpl v).Valid cfg.mode ∧ TimeValid te.tmpl v) :
    ∃ x, parse cfg (formText de te zo v) true = some x ∧
      x = { pointOf cfg de.tmpl te.tmpl v tz with dumpFmt := some (formExpr de te zo) } ∧
      str cfg.mode x = .ok (formText de te zo (respell de.tmpl zo v)) := by
  obtain ⟨x, h1, h2, h3⟩ := C07_as_parsed_any cfg hpt de hde hdc hx te hte htt htf zo hzo v hv tz hz hvalid
  refine ⟨x, h1, h2, ?_⟩
  rw [h3]
  obtain ⟨hsh, _⟩ := asParsed_time cfg.pt hpt de hde hdc te hte htt htf zo hzo
  simp only [shapeCheck, Bool.and_eq_true, decide_eq_true_eq] at hsh
  obtain ⟨⟨⟨⟨sd, _⟩, _⟩, sz⟩, _⟩ := hsh
  congr 1
  apply formText_congr
  · intro f hf
    have := List.all_eq_true.mp sd f (mem_of_hasGroup _ f hf)
    cases f <;> first | exact absurd this (by decide) | exact ⟨rfl, rfl, rfl⟩
  · intro f hf
    cases hd : isDecFld f
    · cases f <;> first | exact absurd hd (by decide) | exact ⟨rfl, rfl, rfl⟩
    · rw [hnd f hd] at hf; cases hf
  · intro f hf
    have := List.all_eq_true.mp sz f (mem_of_hasGroup _ f hf)
    cases f <;> first | exact absurd this (by decide) | exact ⟨rfl, rfl, rfl⟩

/-- **C07 (dump_as_parsed round trip, unchanged text)**: … and when the text does not spell a negative
    zero — no `-` on an all-zero year, no `-` on an all-zero zone — `str` reproduces the input text
    exactly. -/
theorem C07_as_parsed_same (cfg : Cfg) (hpt : cfg.pt ∈ parserTables)
    (de : Entry) (hde : de ∈ cfg.pt.dateEntries) (hdc : de.typ = .complete)
    (hx : cfg.pt.ned = 0 → hasGroup de.tmpl .expandedYear = false)
    (te : Entry) (hte : te ∈ cfg.pt.timeEntries) (htt : te.typ ≠ .truncated) (htf : te.fmt = de.fmt)
    (hnd : ∀ f, isDecFld f = true → hasGroup te.tmpl f = false)
    (zo : Option ZEntry) (hzo : ∀ ze, zo = some ze → ze ∈ cfg.pt.zoneEntries ∧ ze.fmt = de.fmt)
    (v : Vals) (hv : v.Fit cfg.pt.ned) (tz : Spec.TZ)
    (hz : mkTZ cfg.mode ((zoneOf cfg.zone (zo.map (·.tmpl)) v).hour.getD 0)
      ((zoneOf cfg.zone (zo.map (·.tmpl)) v).minute.getD 0) = some tz)
    (hvalid : (dateOf de.tmpl v).Valid cfg.mode ∧ TimeValid te.tmpl v)
    (hy0 : v.yearNeg = true → yearOf de.tmpl v ≠ 0)
    (hz0 : v.tzNeg = true → zoneZero (ztmplO zo) v = false) :
    ∃ x, parse cfg (formText de te zo v) true = some x ∧
      str cfg.mode x = .ok (formText de te zo v) := by
  obtain ⟨x, h1, _, h3⟩ := C07_as_parsed cfg hpt de hde hdc hx te hte htt htf hnd zo hzo v hv tz hz hvalid
  refine ⟨x, h1, ?_⟩
  rw [h3]
  have : respell de.tmpl zo v = v := by
    unfold respell
    cases hn : v.yearNeg <;> cases hm : v.tzNeg <;> simp [hy0, hz0, hn, hm] <;> cases v <;> simp_all
  rw [this]

/-- **C07 (dump_as_parsed round trip, decimal fraction)**: for a time form WITH a decimal fraction
    (`hh,ii`, `hhmm,nn`, `hhmmss,tt` and their `.` and extended variants — the decimal sign is kept as
    written) whose fraction has at most six digits, `str` of the point parsed with
    `dump_as_parsed=True` reproduces the input text up to the trailing zeros of the fraction: the
    printed fraction is the input digits with trailing zeros stripped, at least one digit kept
    (`stripZeros`, `stripZeros_spec`); signs of zero as in `C07_as_parsed`.  (Fractions of more than six
    digits are rounded to six: `C07_as_parsed_any`, finding F12.) -/
theorem C07_as_parsed_decimal (cfg : Cfg) (hpt : cfg.pt ∈ parserTables)
    (de : Entry) (hde : de ∈ cfg.pt.dateEntries) (hdc : de.typ = .complete)
    (hx : cfg.pt.ned = 0 → hasGroup de.tmpl .expandedYear = false)
    (te : Entry) (hte : te ∈ cfg.pt.timeEntries) (htt : te.typ ≠ .truncated) (htf : te.fmt = de.fmt)
    (zo : Option ZEntry) (hzo : ∀ ze, zo = some ze → ze ∈ cfg.pt.zoneEntries ∧ ze.fmt = de.fmt)
    (v : Vals) (hv : v.Fit cfg.pt.ned)
    (h6 : ∀ f, isDecFld f = true → hasGroup te.tmpl f = true → (v.dec f).length ≤ 6)
    (tz : Spec.TZ)
    (hz : mkTZ cfg.mode ((zoneOf cfg.zone (zo.map (·.tmpl)) v).hour.getD 0)
      ((zoneOf cfg.zone (zo.map (·.tmpl)) v).minute.getD 0) = some tz)
    (hvalid : (dateOf de.tmpl v).Valid cfg.mode ∧ TimeValid te.tmpl v) :
    ∃ x, parse cfg (formText de te zo v) true = some x ∧
      x = { pointOf cfg de.tmpl te.tmpl v tz with dumpFmt := some (formExpr de te zo) } ∧
      str cfg.mode x = .ok (formText de te zo (respellDec de.tmpl zo v)) := by
  obtain ⟨x, h1, h2, h3⟩ := C07_as_parsed_any cfg hpt de hde hdc hx te hte htt htf zo hzo v hv tz hz hvalid
  refine ⟨x, h1, h2, ?_⟩
  rw [h3]
  obtain ⟨hsh, _⟩ := asParsed_time cfg.pt hpt de hde hdc te hte htt htf zo hzo
  simp only [shapeCheck, Bool.and_eq_true, decide_eq_true_eq] at hsh
  obtain ⟨⟨⟨⟨sd, _⟩, _⟩, sz⟩, _⟩ := hsh
  congr 1
  apply formText_congr
  · intro f hf
    have := List.all_eq_true.mp sd f (mem_of_hasGroup _ f hf)
    cases f <;> first | exact absurd this (by decide) | exact ⟨rfl, rfl, rfl⟩
  · intro f hf
    cases hd : isDecFld f
    · cases f <;> first | exact absurd hd (by decide) | exact ⟨rfl, rfl, rfl⟩
    · have hl := h6 f hd hf
      refine ⟨by cases f <;> rfl, by cases f <;> rfl, ?_⟩
      cases f <;> first
        | exact absurd hd (by decide)
        | (simp only [Vals.dec] at hl
           simp only [spelled, respellDec, Vals.dec, decimalString, hl, if_true])
  · intro f hf
    have := List.all_eq_true.mp sz f (mem_of_hasGroup _ f hf)
    cases f <;> first | exact absurd this (by decide) | exact ⟨rfl, rfl, rfl⟩

/-- **C07 (dump_as_parsed round trip, date alone)**: for a text that is one date form, complete or
    reduced (`CCYYMMDD`, `CCYY-DDD`, `CCYY-Www-D`, `CCYY-MM`, `CCYY`, `CC`, `CCYYWww`, … and their
    signed expanded variants; not the later form of a documented overlap): parsing with
    `dump_as_parsed=True` gives the point of `C07_parse_date` with the form's expression text as its
    dump format, and `str` prints the input text back (a `-` on an all-zero year as `+`): no time, no
    zone — whatever zone the configuration gave the point. -/
theorem C07_as_parsed_date (cfg : Cfg) (hpt : cfg.pt ∈ parserTables) (de : Entry)
    (hmem : de ∈ dateOrder cfg.pt (dateTypes cfg.allowTruncated [])) (hnt : de.typ ≠ .truncated)
    (hl : cfg.allowTruncated = false ∨ isLoser cfg.pt.ned de = false)
    (hx : cfg.pt.ned = 0 → hasGroup de.tmpl .expandedYear = false)
    (v : Vals) (hv : v.Fit cfg.pt.ned) (tz : Spec.TZ)
    (hz : mkTZ cfg.mode ((zoneOf cfg.zone none v).hour.getD 0)
      ((zoneOf cfg.zone none v).minute.getD 0) = some tz)
    (hvalid : (dateOf de.tmpl v).Valid cfg.mode) :
    ∃ x, parse cfg (trender de.tmpl (envOf de.tmpl v)) true = some x ∧
      x = { pointOf cfg de.tmpl [] v tz with dumpFmt := some de.expr } ∧
      str cfg.mode x = .ok (trender de.tmpl (envOf de.tmpl (respell de.tmpl none v))) := by
  have tf := tableFacts cfg.pt hpt
  have df := decodeFacts cfg.pt hpt
  have hde := dateOrder_sub _ _ de hmem
  obtain ⟨hdi, hdcc, hds⟩ := df.dates de hde hnt
  refine ⟨_, ?_, rfl, ?_⟩
  · have hfd := fits_envOf cfg.pt.ned de.tmpl (tf.dates de hde).1 hdi v hv
    have key := C07_groups_date cfg hpt de hmem hl (envOf de.tmpl v) hfd
    rw [processZone_none cfg.zone v] at key
    simp only [Option.map_some] at key
    rw [parse_asParsed cfg _ _ key, C07_parse_date cfg hpt de hmem hnt hl hx v hv tz hz, if_pos hvalid]
    rfl
  · obtain ⟨hsh, hex⟩ := asParsed_date cfg.pt hpt de hde hnt
    have := str_pointOf cfg de none none v tz hdi hdcc hds hx rfl (by decide) rfl hsh hex hv hz
    simp only [textOf, fmtOf, ttmplO, ztmplO] at this
    rw [this]
    simp only [shapeCheck, Bool.and_eq_true, decide_eq_true_eq] at hsh
    obtain ⟨⟨⟨⟨sd, _⟩, _⟩, _⟩, _⟩ := hsh
    congr 2
    apply envOf_congr
    intro f hf
    have := List.all_eq_true.mp sd f (mem_of_hasGroup _ f hf)
    cases f <;> first | exact absurd this (by decide) | exact ⟨rfl, rfl, rfl⟩

/-! ## Non-vacuity and regression: concrete forms, values and texts -/

section Examples
open _root_.IsoDT.Gen.Templates

/-- `parse(s, dump_as_parsed=True)` then `str`, by evaluation of the two models. -/
def reprint (cfg : Cfg) (s : String) : Option (List Char) :=
  match parse cfg s.toList true with
  | none => none
  | some x =>
    match str cfg.mode x with
    | .ok t => some t
    | .error _ => none

/-- `±XCCYY-MM-DD`, `hh:mm:ss`, `±hh:mm` of the configuration with two expanded digits. -/
def apDate : Entry := ⟨.extended, .complete, "+XCCYY-MM-DD".toList, t84⟩
def apTime : Entry := ⟨.extended, .complete, "hh:mm:ss".toList, t64⟩
def apZone : ZEntry := ⟨.extended, "+hh:mm".toList, t76⟩

/-- Year −0 (a leap year), 29 February, 24:00:00, zone −00:00: every sign is on a zero. -/
def apVals : Vals :=
  { yearNeg := true, x := 0, cc := 0, yy := 0, month := 2, day := 29, hour := 24, minute := 0, second := 0,
    tzNeg := true, tzHour := 0, tzMinute := 0 }

example : apDate ∈ exCfg.pt.dateEntries ∧ apTime ∈ exCfg.pt.timeEntries ∧ apZone ∈ exCfg.pt.zoneEntries ∧
    apVals.Fit exCfg.pt.ned ∧ (dateOf apDate.tmpl apVals).Valid exCfg.mode ∧ TimeValid apTime.tmpl apVals := by
  decide +kernel

example : formText apDate apTime (some apZone) apVals = "-000000-02-29T24:00:00-00:00".toList ∧
    formExpr apDate apTime (some apZone) = "+XCCYY-MM-DDThh:mm:ss+hh:mm".toList ∧
    formText apDate apTime (some apZone) (respell apDate.tmpl (some apZone) apVals) =
      "+000000-02-29T24:00:00+00:00".toList := by decide +kernel

/-- `C07_as_parsed` at a text whose two signs are both on zeros: both come back as `+`. -/
example : ∃ x, parse exCfg (formText apDate apTime (some apZone) apVals) true = some x ∧
    x = { pointOf exCfg apDate.tmpl apTime.tmpl apVals ⟨0, 0⟩ with
          dumpFmt := some (formExpr apDate apTime (some apZone)) } ∧
    str exCfg.mode x = .ok (formText apDate apTime (some apZone) (respell apDate.tmpl (some apZone) apVals)) :=
  C07_as_parsed exCfg exCfg_mem apDate (by decide +kernel) rfl (fun h => absurd h (by decide))
    apTime (by decide +kernel) (by decide) rfl (fun f hf => by cases f <;> first | decide +kernel | cases hf)
    (some apZone) (fun ze h => by cases h; exact ⟨by decide +kernel, rfl⟩) apVals (by decide +kernel) ⟨0, 0⟩
    (by decide +kernel) (by decide +kernel)

/-- … and by evaluation of the parser and dumper models on the text itself. -/
example : reprint exCfg "-000000-02-29T24:00:00-00:00" = some "+000000-02-29T24:00:00+00:00".toList := by
  decide +kernel

/-- A `-` on a zone that is zero hours but NOT zero minutes stays: `-00:30`. -/
example : reprint exCfg "2000-02-29T23:59:59-00:30" = some "2000-02-29T23:59:59-00:30".toList ∧
    zoneZero apZone.tmpl { tzNeg := true, tzHour := 0, tzMinute := 30 } = false := by decide +kernel

/-- `C07_parse_as_parsed` at these forms: the point of `C07_parse` with the expression text. -/
example : parse exCfg (formText apDate apTime (some apZone) apVals) true =
    some { pointOf exCfg apDate.tmpl apTime.tmpl apVals ⟨0, 0⟩ with
           dumpFmt := some "+XCCYY-MM-DDThh:mm:ss+hh:mm".toList } := by
  rw [C07_parse_as_parsed exCfg exCfg_mem apDate (by decide +kernel) rfl (fun h => absurd h (by decide))
    apTime (by decide +kernel) (by decide) rfl (some apZone)
    (fun ze h => by cases h; exact ⟨by decide +kernel, rfl⟩) apVals (by decide +kernel) ⟨0, 0⟩
    (by decide +kernel), if_pos (by decide +kernel)]
  rfl

/-- `C07_as_parsed_same`: an extended week date, `hh:mm`, NO zone (assumed zone `+05:30`, not printed). -/
def apWeek : Entry := ⟨.extended, .complete, "CCYY-Www-D".toList, t33⟩
def apHM : Entry := ⟨.extended, .reduced, "hh:mm".toList, t69⟩
def apWVals : Vals := { cc := 20, yy := 0, week := 5, dow := 3, hour := 12, minute := 30 }

example : ∃ x, parse exCfg (formText apWeek apHM none apWVals) true = some x ∧
    str exCfg.mode x = .ok (formText apWeek apHM none apWVals) :=
  C07_as_parsed_same exCfg exCfg_mem apWeek (by decide +kernel) rfl (fun h => absurd h (by decide))
    apHM (by decide +kernel) (by decide) rfl (fun f hf => by cases f <;> first | decide +kernel | cases hf)
    none (fun _ h => by cases h) apWVals (by decide +kernel) ⟨5, 30⟩ (by decide +kernel) (by decide +kernel)
    (fun h => by cases h) (fun h => by cases h)

example : formText apWeek apHM none apWVals = "2000-W05-3T12:30".toList ∧
    reprint exCfg "2000-W05-3T12:30" = some "2000-W05-3T12:30".toList ∧
    ((parse exCfg "2000-W05-3T12:30".toList true).map (·.tz)) = some ⟨5, 30⟩ := by decide +kernel

/-- `Z` prints `Z`; a basic ordinal date with `hh` only. -/
example : reprint exCfgB "2000060T23Z" = some "2000060T23Z".toList := by decide +kernel

/-- `C07_as_parsed_decimal`: `±XCCYYMMDD`, `hhmm,nn`, `±hh` (the forms of `Props/C07b`), fraction `500`:
    the trailing zeros go, the comma stays, `-03` stays. -/
def apDecVals : Vals := { exVals with minuteDec := ['5', '0', '0'] }

example : ∃ x, parse exCfg (formText exDate exTime (some exZone) apDecVals) true = some x ∧
    x = { pointOf exCfg exDate.tmpl exTime.tmpl apDecVals ⟨-3, 0⟩ with
          dumpFmt := some (formExpr exDate exTime (some exZone)) } ∧
    str exCfg.mode x = .ok (formText exDate exTime (some exZone) (respellDec exDate.tmpl (some exZone) apDecVals)) :=
  C07_as_parsed_decimal exCfg exCfg_mem exDate (by decide +kernel) rfl (fun h => absurd h (by decide))
    exTime (by decide +kernel) (by decide) rfl (some exZone)
    (fun ze h => by cases h; exact ⟨by decide +kernel, rfl⟩) apDecVals (by decide +kernel)
    (fun f _ _ => by cases f <;> decide +kernel) ⟨-3, 0⟩ (by decide +kernel) (by decide +kernel)

example : formText exDate exTime (some exZone) apDecVals = "-0004000229T1230,500-03".toList ∧
    formText exDate exTime (some exZone) (respellDec exDate.tmpl (some exZone) apDecVals) =
      "-0004000229T1230,5-03".toList ∧
    reprint exCfg "-0004000229T1230,500-03" = some "-0004000229T1230,5-03".toList := by decide +kernel

/-- An all-zero fraction keeps one digit; the decimal point is kept as written. -/
example : reprint exCfg "2000-01-01T12.000Z" = some "2000-01-01T12.0Z".toList ∧
    stripZeros ['0', '0', '0'] = ['0'] ∧ stripZeros ['5', '0', '0'] = ['5'] ∧
    stripZeros ['0', '5', '0', '1'] = ['0', '5', '0', '1'] := by decide +kernel

/-- `C07_as_parsed_any` at a fraction of SEVEN digits (finding F12): `.1234567` is printed `.123457`. -/
def apSecDec : Entry := ⟨.extended, .complete, "hh:mm:ss.tt".toList, t67⟩
def apUtc : ZEntry := ⟨.extended, "Z".toList, t73⟩
def apLongVals : Vals :=
  { cc := 20, yy := 0, month := 1, day := 1, hour := 12, minute := 0, second := 0,
    secondDec := ['1', '2', '3', '4', '5', '6', '7'] }
def apCal : Entry := ⟨.extended, .complete, "CCYY-MM-DD".toList, t29⟩

example : ∃ x, parse exCfg (formText apCal apSecDec (some apUtc) apLongVals) true = some x ∧
    x = { pointOf exCfg apCal.tmpl apSecDec.tmpl apLongVals ⟨0, 0⟩ with
          dumpFmt := some (formExpr apCal apSecDec (some apUtc)) } ∧
    str exCfg.mode x = .ok (formText apCal apSecDec (some apUtc) (spelled apCal.tmpl apUtc.tmpl apLongVals)) :=
  C07_as_parsed_any exCfg exCfg_mem apCal (by decide +kernel) rfl (fun _ => by decide +kernel)
    apSecDec (by decide +kernel) (by decide) rfl (some apUtc)
    (fun ze h => by cases h; exact ⟨by decide +kernel, rfl⟩) apLongVals (by decide +kernel) ⟨0, 0⟩
    (by decide +kernel) (by decide +kernel)

example : formText apCal apSecDec (some apUtc) apLongVals = "2000-01-01T12:00:00.1234567Z".toList ∧
    formText apCal apSecDec (some apUtc) (spelled apCal.tmpl apUtc.tmpl apLongVals) =
      "2000-01-01T12:00:00.123457Z".toList ∧
    reprint exCfg "2000-01-01T12:00:00.1234567Z" = some "2000-01-01T12:00:00.123457Z".toList := by
  decide +kernel

/-- `C07_as_parsed_date`: the reduced century form `±XCC` at `-0000` — year −0 comes back `+0000`; and
    the basic reduced week form `CCYYWww` in a basic-only configuration. -/
example : ∃ x, parse exCfg (trender exCentury.tmpl (envOf exCentury.tmpl { x := 0, cc := 0, yearNeg := true })) true =
      some x ∧
    x = { pointOf exCfg exCentury.tmpl [] { x := 0, cc := 0, yearNeg := true } ⟨5, 30⟩ with
          dumpFmt := some exCentury.expr } ∧
    str exCfg.mode x = .ok (trender exCentury.tmpl (envOf exCentury.tmpl
      (respell exCentury.tmpl none { x := 0, cc := 0, yearNeg := true }))) :=
  C07_as_parsed_date exCfg exCfg_mem exCentury (by decide +kernel) (by decide) (Or.inl rfl)
    (fun h => absurd h (by decide)) _ (by decide +kernel) ⟨5, 30⟩ (by decide +kernel) (by decide +kernel)

example : trender exCentury.tmpl (envOf exCentury.tmpl { x := 0, cc := 0, yearNeg := true }) = "-0000".toList ∧
    trender exCentury.tmpl (envOf exCentury.tmpl
      (respell exCentury.tmpl none { x := 0, cc := 0, yearNeg := true })) = "+0000".toList ∧
    reprint exCfg "-0000" = some "+0000".toList ∧ reprint exCfg "-0020" = some "-0020".toList := by
  decide +kernel

example : ∃ x, parse exCfgB (trender exWeek.tmpl (envOf exWeek.tmpl { cc := 20, yy := 0, week := 5 })) true = some x ∧
    x = { pointOf exCfgB exWeek.tmpl [] { cc := 20, yy := 0, week := 5 } ⟨0, 0⟩ with
          dumpFmt := some exWeek.expr } ∧
    str exCfgB.mode x = .ok (trender exWeek.tmpl (envOf exWeek.tmpl
      (respell exWeek.tmpl none { cc := 20, yy := 0, week := 5 }))) :=
  C07_as_parsed_date exCfgB (.tail _ (.head _)) exWeek (by decide +kernel) (by decide) (Or.inl rfl)
    (fun _ => by decide +kernel) _ (by decide +kernel) ⟨0, 0⟩ (by decide +kernel) (by decide +kernel)

example : reprint exCfgB "2000W05" = some "2000W05".toList ∧ reprint exCfg "2000-02" = some "2000-02".toList ∧
    reprint exCfg "20" = some "20".toList := by decide +kernel

/-- The table check is not vacuous: it ranges over every complete date × non-truncated time × zone
    combination, e.g. 6 × 9 × 4 of the extended format alone in the full tables. -/
example : (parser_2_all.dateEntries.filter fun e => e.typ == .complete && e.fmt == .extended).length = 6 ∧
    (parser_2_all.timeEntries.filter fun e => e.typ != .truncated && e.fmt == .extended).length = 9 ∧
    (zoneOpts parser_2_all .extended).length = 4 ∧
    exprCheck parser_2_all apDate (some apTime) (some apZone) = true ∧
    -- a WRONG correspondence is rejected: the basic time form's regex against the extended expression
    exprCheck parser_2_all apDate (some ⟨.extended, .complete, "hh:mm:ss".toList, t46⟩) (some apZone) = false := by
  decide +kernel

end Examples

end IsoDT.Props.C07
