/-
  C12 (continued) — iteration of a recurrence that has a `min_point` / `max_point`.

  `Model.RecMM` is a `Model.Rec` plus the two optional points (`Model/RecurrenceMM.lean`); the `…MM`
  functions mirror `_get_is_in_bounds`, `get_next`, `get_prev`, `__iter__`, `__getitem__`,
  `get_is_valid`, `get_first_after`, `__add__`, `__eq__`, `__hash__` with both points taken into
  account.

  * `RecMM_none_is_Rec`: with `min_point = max_point = None` every `…MM` function IS the function of
    `Model/Recurrence.lean`, so all C12/C13/C14 theorems are statements about `RecMM` with no window.
  * `C12_mm_iter_longest_prefix` (every recurrence, every interval): `__iter__` yields the LONGEST PREFIX
    of what it would yield without min/max whose points are all within [min, max] — same points,
    same order, nothing after the first point outside; in particular NOTHING AT ALL when the first
    point is before `min_point` (the code stops, it does not skip forward).
  * `C12_mm_exact_forward` / `C12_mm_exact_backward`: for exact intervals, by instants: the `k`-th point
    exists iff it exists without min/max, the first point is not before min (after max, backwards),
    and `first ± k·L` is not after max (before min).
-/
import IsoDT.Props.C12
import IsoDT.Lemmas.RecMM

namespace IsoDT.Props.C12
open IsoDT IsoDT.Model IsoDT.Lemmas
open IsoDT.Spec (Date TZ TP)

/-! ## (a) no window: the existing model -/

theorem firstAfterLoopMM_none (m : Mode) (b : Rec) (p : TP) : ∀ (fuel : Nat) (c : Option TP),
    firstAfterLoopMM m ⟨b, none, none⟩ p fuel c = firstAfterLoop m b p fuel c := by
  intro fuel
  induction fuel with
  | zero => intro c; rfl
  | succ fuel ih =>
    intro c
    cases c with
    | none => rfl
    | some c =>
      simp only [firstAfterLoopMM, firstAfterLoop]
      rw [ih, getNextMM_eq]
      have : (getNext m b c).filter (withinMM m ⟨b, none, none⟩) = getNext m b c := by
        cases getNext m b c <;> simp [Option.filter, withinMM_none]
      simp only [this]

/-- **Without `min_point`/`max_point` the model with them is the existing model**: every `…MM`
    function on `⟨b, none, none⟩` equals the corresponding function on `b`.  Hence every theorem
    of C12, C13, C14 about `Rec` is a theorem about `RecMM` with `minP = maxP = none`. -/
theorem RecMM_none_is_Rec (m : Mode) (b : Rec) :
    (∀ reps start dur end_, mkRecMM m reps start dur end_ none none =
        (mkRec m reps start dur end_).map fun r => ⟨r, none, none⟩) ∧
    (∀ p, inBoundsMM m ⟨b, none, none⟩ p = inBounds m b p) ∧
    (∀ p, getNextMM m ⟨b, none, none⟩ p = getNext m b p) ∧
    (∀ p, getPrevMM m ⟨b, none, none⟩ p = getPrev m b p) ∧
    (∀ rev fuel p, iterFromMM m ⟨b, none, none⟩ rev fuel p = iterFrom m b rev fuel p) ∧
    (∀ fuel, iterMM m ⟨b, none, none⟩ fuel = iter m b fuel) ∧
    (∀ i, getItemMM m ⟨b, none, none⟩ i = getItem m b i) ∧
    (∀ p fuel, getIsValidMM m ⟨b, none, none⟩ p fuel = getIsValid m b p fuel) ∧
    (∀ p fuel, getFirstAfterMM m ⟨b, none, none⟩ p fuel = getFirstAfter m b p fuel) ∧
    (∀ d, shiftMM m ⟨b, none, none⟩ d = (b.shift m d).map fun b' => ⟨b', none, none⟩) ∧
    (∀ b2, eqMM m ⟨b, none, none⟩ ⟨b2, none, none⟩ = Rec.eq m b b2) ∧
    (∀ b2, hashKeyMM m ⟨b, none, none⟩ = hashKeyMM m ⟨b2, none, none⟩ ↔ b.hashKey m = b2.hashKey m) := by
  have hw : ∀ p, withinMM m ⟨b, none, none⟩ p = true := fun p => withinMM_none m b p
  have hib : ∀ p, inBoundsMM m ⟨b, none, none⟩ p = inBounds m b p := by
    intro p; rw [inBoundsMM_eq, hw, Bool.and_true]
  have hfilter : ∀ o : Option TP, o.filter (withinMM m ⟨b, none, none⟩) = o := by
    intro o; cases o <;> simp [Option.filter, hw]
  have hit : ∀ fuel, iterMM m ⟨b, none, none⟩ fuel = iter m b fuel := by
    intro fuel; rw [iterMM_eq_takeWhile, takeWhile_all _ hw]
  refine ⟨fun _ _ _ _ => rfl, hib, ?_, ?_, ?_, hit, ?_, ?_, ?_, fun _ => rfl, ?_, ?_⟩
  · intro p; rw [getNextMM_eq, hfilter]
  · intro p; rw [getPrevMM_eq, hfilter]
  · intro rev fuel p; rw [iterFromMM_eq_takeWhile, takeWhile_all _ hw]
  · intro i; unfold getItemMM getItem; rw [hit]
  · intro p fuel; unfold getIsValidMM getIsValid; rw [hib, hit]
  · intro p fuel
    unfold getFirstAfterMM getFirstAfter
    simp only [hib, firstAfterLoopMM_none]
    rfl
  · intro b2; unfold eqMM; simp only [optTpEq, Bool.and_true]
  · intro b2; unfold hashKeyMM
    simp only [Option.map_none, Prod.mk.injEq, and_true]

/-! ## (b) iteration within a window -/

/-- **`__iter__` with `min_point`/`max_point` yields the longest prefix of the unrestricted
    iteration whose points all lie within [min, max]** — every recurrence (any notation, any
    interval, exact or not, any points), any amount `fuel` of iteration.

    `withinMM m r q` is the pair of tests `not (q < min_point)` and `not (q > max_point)`.
    1. it is `takeWhile`: the same points in the same order, cut at the first one outside;
    2. pointwise: the `k`-th point exists iff the `k`-th unrestricted point exists and the
       unrestricted points number `0..k` are all within the window;
    3. it is a prefix of the unrestricted iteration;
    4. every yielded point is within the window (and within the start/end bounds);
    5. (longest) if it is shorter than the unrestricted iteration, the next unrestricted point is
       outside the window;
    6. if the first unrestricted point is outside the window nothing is yielded. -/
theorem C12_mm_iter_longest_prefix (m : Mode) (r : RecMM) (fuel : Nat) :
    iterMM m r fuel = (iter m r.base fuel).takeWhile (withinMM m r) ∧
    (∀ (k : Nat) (p : TP), (iterMM m r fuel)[k]? = some p ↔
      (iter m r.base fuel)[k]? = some p ∧
        ∀ j, j ≤ k → ∀ q, (iter m r.base fuel)[j]? = some q → withinMM m r q = true) ∧
    iterMM m r fuel <+: iter m r.base fuel ∧
    (∀ q ∈ iterMM m r fuel, withinMM m r q = true ∧ inBounds m r.base q = true ∧ inBoundsMM m r q = true) ∧
    (∀ q, (iter m r.base fuel)[(iterMM m r fuel).length]? = some q → withinMM m r q = false) ∧
    (∀ q, (iter m r.base fuel).head? = some q → withinMM m r q = false → iterMM m r fuel = []) := by
  have h := iterMM_eq_takeWhile m r fuel
  refine ⟨h, ?_, ?_, ?_, ?_, ?_⟩
  · intro k p; rw [h]; exact takeWhile_getElem?_iff _ _ k p
  · rw [h]; exact List.takeWhile_prefix _
  · intro q hq
    rw [h] at hq
    have hw : withinMM m r q = true := mem_takeWhile_true _ _ q hq
    have hb : inBounds m r.base q = true :=
      iter_mem_inBounds m r.base fuel q ((List.takeWhile_prefix _).subset hq)
    exact ⟨hw, hb, by rw [inBoundsMM_eq, hw, hb]; rfl⟩
  · intro q hq
    rw [h] at hq
    cases hw : withinMM m r q with
    | false => rfl
    | true =>
      exfalso
      -- then index `length` would survive the takeWhile
      have hall : ∀ j, j ≤ ((iter m r.base fuel).takeWhile (withinMM m r)).length → ∀ q',
          (iter m r.base fuel)[j]? = some q' → withinMM m r q' = true := by
        intro j hj q' hq'
        by_cases hjl : j = ((iter m r.base fuel).takeWhile (withinMM m r)).length
        · subst hjl; rw [hq] at hq'; cases hq'; exact hw
        · have hlt : j < ((iter m r.base fuel).takeWhile (withinMM m r)).length := by omega
          have hmem : ((iter m r.base fuel).takeWhile (withinMM m r))[j]? =
              some (((iter m r.base fuel).takeWhile (withinMM m r))[j]) := List.getElem?_eq_getElem hlt
          have hx := (takeWhile_getElem?_iff (withinMM m r) _ j _).mp hmem
          have := hx.2 j (Nat.le_refl j) q' hq'
          exact this
      have := (takeWhile_getElem?_iff (withinMM m r) (iter m r.base fuel) _ q).mpr ⟨hq, hall⟩
      have hnone : ((iter m r.base fuel).takeWhile (withinMM m r))[
          ((iter m r.base fuel).takeWhile (withinMM m r)).length]? = none :=
        List.getElem?_eq_none (Nat.le_refl _)
      rw [hnone] at this; cases this
  · intro q hq hw
    rw [h]; exact takeWhile_head_false _ _ q hq hw

/-- The same relative to the loop of `__iter__` started at any point (`iterFrom`). -/
theorem C12_mm_iterFrom_longest_prefix (m : Mode) (r : RecMM) (rev : Bool) (fuel : Nat) (p : TP) :
    iterFromMM m r rev fuel p = (iterFrom m r.base rev fuel p).takeWhile (withinMM m r) ∧
    (∀ (k : Nat) (x : TP), (iterFromMM m r rev fuel p)[k]? = some x ↔
      (iterFrom m r.base rev fuel p)[k]? = some x ∧
        ∀ j, j ≤ k → ∀ q, (iterFrom m r.base rev fuel p)[j]? = some q → withinMM m r q = true) ∧
    iterFromMM m r rev fuel p <+: iterFrom m r.base rev fuel p ∧
    (withinMM m r p = false → iterFromMM m r rev fuel p = []) := by
  have h := iterFromMM_eq_takeWhile m r rev fuel p
  refine ⟨h, ?_, ?_, ?_⟩
  · intro k x; rw [h]; exact takeWhile_getElem?_iff _ _ k x
  · rw [h]; exact List.takeWhile_prefix _
  · intro hw
    rw [h]
    cases fuel with
    | zero => rfl
    | succ f =>
      simp only [iterFrom]
      split
      · rw [List.takeWhile_cons, hw]; rfl
      · rfl

/-- **The window as instants**: for valid points, a yielded point `q` has
    `min.inst ≤ q.inst ≤ max.inst` (for whichever of the two exist). -/
theorem C12_mm_yielded_within (m : Mode) (r : RecMM) (fuel : Nat)
    (hmin : ∀ a, r.minP = some a → a.Valid m) (hmax : ∀ b, r.maxP = some b → b.Valid m)
    (q : TP) (hq : q ∈ iterMM m r fuel) (hqv : q.Valid m) :
    (∀ a, r.minP = some a → a.inst m ≤ q.inst m) ∧ (∀ b, r.maxP = some b → q.inst m ≤ b.inst m) :=
  (withinMM_iff m r q hqv hmin hmax).mp ((C12_mm_iter_longest_prefix m r fuel).2.2.2.1 q hq).1

/-! ### exact intervals: the window against an arithmetic series -/

/-- An increasing series cut by a window: index `k` survives iff the first instant is not before
    `min` and the `k`-th is not after `max`. -/
theorem series_window_fwd (m : Mode) (r : RecMM) (rep : Nat) (tz : TZ) (l : List TP) (i0 L : Int)
    (hs : SeriesOK m rep tz l i0 L) (hpos : 0 < L)
    (hmin : ∀ a, r.minP = some a → a.Valid m) (hmax : ∀ b, r.maxP = some b → b.Valid m)
    (k : Nat) (p : TP) :
    (l.takeWhile (withinMM m r))[k]? = some p ↔
      l[k]? = some p ∧ (∀ a, r.minP = some a → a.inst m ≤ i0) ∧
        (∀ b, r.maxP = some b → i0 + (k : Int) * L ≤ b.inst m) := by
  rw [takeWhile_getElem?_iff]
  constructor
  · rintro ⟨h1, h2⟩
    refine ⟨h1, ?_, ?_⟩
    · intro a ha
      have hlen : 0 < l.length := by
        have := (List.getElem?_eq_some_iff.mp h1).1; omega
      obtain ⟨q, e1, e2, e3, _⟩ := series_getElem? m rep tz l i0 L hs 0 hlen
      have := ((withinMM_iff m r q e3 hmin hmax).mp (h2 0 (Nat.zero_le k) q e1)).1 a ha
      rw [e2] at this; omega
    · intro b hb
      have hlen : k < l.length := (List.getElem?_eq_some_iff.mp h1).1
      obtain ⟨q, e1, e2, e3, _⟩ := series_getElem? m rep tz l i0 L hs k hlen
      have := ((withinMM_iff m r q e3 hmin hmax).mp (h2 k (Nat.le_refl k) q e1)).2 b hb
      rw [e2] at this; exact this
  · rintro ⟨h1, h2, h3⟩
    refine ⟨h1, ?_⟩
    intro j hj q hq
    have hlen : j < l.length := (List.getElem?_eq_some_iff.mp hq).1
    obtain ⟨q', e1, e2, e3, _⟩ := series_getElem? m rep tz l i0 L hs j hlen
    rw [hq] at e1; cases e1
    rw [withinMM_iff m r q e3 hmin hmax]
    have hjk : (j : Int) * L ≤ (k : Int) * L :=
      Int.mul_le_mul_of_nonneg_right (by omega) (Int.le_of_lt hpos)
    have hj0 : 0 ≤ (j : Int) * L := Int.mul_nonneg (by omega) (Int.le_of_lt hpos)
    constructor
    · intro a ha; have := h2 a ha; omega
    · intro b hb; have := h3 b hb; omega

/-- A decreasing series (`i0, i0 − L, …`) cut by a window. -/
theorem series_window_rev (m : Mode) (r : RecMM) (rep : Nat) (tz : TZ) (l : List TP) (i0 L : Int)
    (hs : SeriesOK m rep tz l i0 (-L)) (hpos : 0 < L)
    (hmin : ∀ a, r.minP = some a → a.Valid m) (hmax : ∀ b, r.maxP = some b → b.Valid m)
    (k : Nat) (p : TP) :
    (l.takeWhile (withinMM m r))[k]? = some p ↔
      l[k]? = some p ∧ (∀ b, r.maxP = some b → i0 ≤ b.inst m) ∧
        (∀ a, r.minP = some a → a.inst m ≤ i0 - (k : Int) * L) := by
  rw [takeWhile_getElem?_iff]
  constructor
  · rintro ⟨h1, h2⟩
    refine ⟨h1, ?_, ?_⟩
    · intro b hb
      have hlen : 0 < l.length := by
        have := (List.getElem?_eq_some_iff.mp h1).1; omega
      obtain ⟨q, e1, e2, e3, _⟩ := series_getElem? m rep tz l i0 (-L) hs 0 hlen
      have := ((withinMM_iff m r q e3 hmin hmax).mp (h2 0 (Nat.zero_le k) q e1)).2 b hb
      rw [e2] at this; omega
    · intro a ha
      have hlen : k < l.length := (List.getElem?_eq_some_iff.mp h1).1
      obtain ⟨q, e1, e2, e3, _⟩ := series_getElem? m rep tz l i0 (-L) hs k hlen
      have := ((withinMM_iff m r q e3 hmin hmax).mp (h2 k (Nat.le_refl k) q e1)).1 a ha
      rw [e2, Int.mul_neg] at this; omega
  · rintro ⟨h1, h2, h3⟩
    refine ⟨h1, ?_⟩
    intro j hj q hq
    have hlen : j < l.length := (List.getElem?_eq_some_iff.mp hq).1
    obtain ⟨q', e1, e2, e3, _⟩ := series_getElem? m rep tz l i0 (-L) hs j hlen
    rw [hq] at e1; cases e1
    rw [withinMM_iff m r q e3 hmin hmax, e2, Int.mul_neg]
    have hjk : (j : Int) * L ≤ (k : Int) * L :=
      Int.mul_le_mul_of_nonneg_right (by omega) (Int.le_of_lt hpos)
    have hj0 : 0 ≤ (j : Int) * L := Int.mul_nonneg (by omega) (Int.le_of_lt hpos)
    constructor
    · intro a ha; have := h3 a ha; omega
    · intro b hb; have := h2 b hb; omega

/-- **Exact interval, forward iteration (the recurrence has a start point `s`), with a window**:
    the yielded points are an arithmetic series from the start's instant with step `L` in the
    start's representation and offset, and the `k`-th point exists iff the `k`-th point of the
    unrestricted iteration exists, `min ≤ s`, and `s + k·L ≤ max` (as instants).  So a start before
    `min_point` yields nothing, and otherwise the points are those up to `max_point`. -/
theorem C12_mm_exact_forward (m : Mode) (r : RecMM) (d : Dur) (L : Int) (hr : ExactRec m r.base d L)
    (s : TP) (hs : r.base.start = some s)
    (hmin : ∀ a, r.minP = some a → a.Valid m) (hmax : ∀ b, r.maxP = some b → b.Valid m) (fuel : Nat) :
    SeriesOK m s.date.rep s.tz (iterMM m r fuel) (s.inst m) L ∧
    (∀ (k : Nat) (p : TP), (iterMM m r fuel)[k]? = some p ↔
      (iter m r.base fuel)[k]? = some p ∧ (∀ a, r.minP = some a → a.inst m ≤ s.inst m) ∧
        (∀ b, r.maxP = some b → s.inst m + (k : Int) * L ≤ b.inst m)) ∧
    ((∃ a, r.minP = some a ∧ s.inst m < a.inst m) → iterMM m r fuel = []) := by
  obtain ⟨a, _, _⟩ := iterFrom_fwd m r.base d L hr fuel s (hr.startValid s hs)
    (fun s' h => by rw [hs] at h; cases h; exact Int.le_refl _)
  rw [← iter_fwd m r.base d L hr s hs fuel] at a
  have hchar : ∀ (k : Nat) (p : TP), (iterMM m r fuel)[k]? = some p ↔
      (iter m r.base fuel)[k]? = some p ∧ (∀ a, r.minP = some a → a.inst m ≤ s.inst m) ∧
        (∀ b, r.maxP = some b → s.inst m + (k : Int) * L ≤ b.inst m) := by
    intro k p
    rw [iterMM_eq_takeWhile]
    exact series_window_fwd m r _ _ _ _ _ a hr.pos hmin hmax k p
  refine ⟨?_, hchar, ?_⟩
  · rw [iterMM_eq_takeWhile]; exact seriesOK_takeWhile m _ _ _ _ _ _ a
  · rintro ⟨mn, hmn, hlt⟩
    cases hl : iterMM m r fuel with
    | nil => rfl
    | cons x rest =>
      have h0 : (iterMM m r fuel)[0]? = some x := by rw [hl]; rfl
      have := ((hchar 0 x).mp h0).2.1 mn hmn
      omega

/-- **Exact interval, backward iteration (`R/d/end`: no start point, end point `e`), with a
    window**: the yielded points are `e, e−L, e−2L, …`, and the `k`-th exists iff the `k`-th
    unrestricted one exists, `e ≤ max`, and `min ≤ e − k·L`.  So an end after `max_point` yields
    nothing. -/
theorem C12_mm_exact_backward (m : Mode) (r : RecMM) (d : Dur) (L : Int) (hr : ExactRec m r.base d L)
    (e : TP) (hs : r.base.start = none) (he : r.base.end_ = some e)
    (hmin : ∀ a, r.minP = some a → a.Valid m) (hmax : ∀ b, r.maxP = some b → b.Valid m) (fuel : Nat) :
    SeriesOK m e.date.rep e.tz (iterMM m r fuel) (e.inst m) (-L) ∧
    (∀ (k : Nat) (p : TP), (iterMM m r fuel)[k]? = some p ↔
      (iter m r.base fuel)[k]? = some p ∧ (∀ b, r.maxP = some b → e.inst m ≤ b.inst m) ∧
        (∀ a, r.minP = some a → a.inst m ≤ e.inst m - (k : Int) * L)) ∧
    ((∃ b, r.maxP = some b ∧ b.inst m < e.inst m) → iterMM m r fuel = []) := by
  obtain ⟨a, _, _⟩ := iterFrom_rev m r.base d L hr fuel e (hr.endValid e he)
    (fun e' h => by rw [he] at h; cases h; exact Int.le_refl _)
  rw [← iter_rev m r.base d L hr e hs he fuel] at a
  have hchar : ∀ (k : Nat) (p : TP), (iterMM m r fuel)[k]? = some p ↔
      (iter m r.base fuel)[k]? = some p ∧ (∀ b, r.maxP = some b → e.inst m ≤ b.inst m) ∧
        (∀ a, r.minP = some a → a.inst m ≤ e.inst m - (k : Int) * L) := by
    intro k p
    rw [iterMM_eq_takeWhile]
    exact series_window_rev m r _ _ _ _ _ a hr.pos hmin hmax k p
  refine ⟨?_, hchar, ?_⟩
  · rw [iterMM_eq_takeWhile]; exact seriesOK_takeWhile m _ _ _ _ _ _ a
  · rintro ⟨mx, hmx, hlt⟩
    cases hl : iterMM m r fuel with
    | nil => rfl
    | cons x rest =>
      have h0 : (iterMM m r fuel)[0]? = some x := by rw [hl]; rfl
      have := ((hchar 0 x).mp h0).2.1 mx hmx
      omega

/-! ### the constructor's notations with a window (exact interval) -/

theorem mkRecMM_of (m : Mode) (reps : Option Int) (start : Option TP) (dur : Option Dur) (end_ : Option TP)
    (mn mx : Option TP) (r0 : Rec) (h : mkRec m reps start dur end_ = some r0) :
    mkRecMM m reps start dur end_ mn mx = some ⟨r0, mn, mx⟩ := by
  unfold mkRecMM; rw [h]; rfl

/-- Existence of the `k`-th point of a windowed increasing series of known length. -/
theorem window_exists_fwd (m : Mode) (r : RecMM) (rep : Nat) (tz : TZ) (fuel : Nat) (i0 L : Int) (n : Nat)
    (hs : SeriesOK m rep tz (iter m r.base fuel) i0 L) (hlen : (iter m r.base fuel).length = n) (hpos : 0 < L)
    (hmin : ∀ a, r.minP = some a → a.Valid m) (hmax : ∀ b, r.maxP = some b → b.Valid m) (k : Nat) :
    (∃ p, (iterMM m r fuel)[k]? = some p) ↔
      k < n ∧ (∀ a, r.minP = some a → a.inst m ≤ i0) ∧ (∀ b, r.maxP = some b → i0 + (k : Int) * L ≤ b.inst m) := by
  rw [iterMM_eq_takeWhile]
  constructor
  · rintro ⟨p, hp⟩
    obtain ⟨h1, h2, h3⟩ := (series_window_fwd m r rep tz _ i0 L hs hpos hmin hmax k p).mp hp
    exact ⟨by rw [← hlen]; exact (List.getElem?_eq_some_iff.mp h1).1, h2, h3⟩
  · rintro ⟨h1, h2, h3⟩
    have hk : k < (iter m r.base fuel).length := by omega
    exact ⟨_, (series_window_fwd m r rep tz _ i0 L hs hpos hmin hmax k _).mpr
      ⟨List.getElem?_eq_getElem hk, h2, h3⟩⟩

theorem window_exists_rev (m : Mode) (r : RecMM) (rep : Nat) (tz : TZ) (fuel : Nat) (i0 L : Int) (n : Nat)
    (hs : SeriesOK m rep tz (iter m r.base fuel) i0 (-L)) (hlen : (iter m r.base fuel).length = n) (hpos : 0 < L)
    (hmin : ∀ a, r.minP = some a → a.Valid m) (hmax : ∀ b, r.maxP = some b → b.Valid m) (k : Nat) :
    (∃ p, (iterMM m r fuel)[k]? = some p) ↔
      k < n ∧ (∀ b, r.maxP = some b → i0 ≤ b.inst m) ∧ (∀ a, r.minP = some a → a.inst m ≤ i0 - (k : Int) * L) := by
  rw [iterMM_eq_takeWhile]
  constructor
  · rintro ⟨p, hp⟩
    obtain ⟨h1, h2, h3⟩ := (series_window_rev m r rep tz _ i0 L hs hpos hmin hmax k p).mp hp
    exact ⟨by rw [← hlen]; exact (List.getElem?_eq_some_iff.mp h1).1, h2, h3⟩
  · rintro ⟨h1, h2, h3⟩
    have hk : k < (iter m r.base fuel).length := by omega
    exact ⟨_, (series_window_rev m r rep tz _ i0 L hs hpos hmin hmax k _).mpr
      ⟨List.getElem?_eq_getElem hk, h2, h3⟩⟩

/-- **`Rn/start/d` with `min_point`/`max_point`** (`n ≥ 2`, exact interval `d` of `L` seconds):
    the yielded points form the arithmetic series `start, start+L, …` (valid points in the start's
    representation and offset), and the `k`-th point exists exactly when `k < n`, `min ≤ start`
    and `start + k·L ≤ max`.  (`min > start`: nothing is yielded — the code does not skip.) -/
theorem C12_mm_start_duration_bounded (m : Mode) (n : Nat) (s : TP) (d : Dur) (mn mx : Option TP) (hn : 2 ≤ n)
    (hs : s.Valid m) (hex : d.isExact = true) (hpos : 0 < d.exactSeconds m)
    (hmin : ∀ a, mn = some a → a.Valid m) (hmax : ∀ b, mx = some b → b.Valid m)
    (fuel : Nat) (hf : n ≤ fuel) :
    ∃ r, mkRecMM m (some (n : Int)) (some s) (some d) none mn mx = some r ∧ r.minP = mn ∧ r.maxP = mx ∧
      SeriesOK m s.date.rep s.tz (iterMM m r fuel) (s.inst m) (d.exactSeconds m) ∧
      ∀ k : Nat, (∃ p, (iterMM m r fuel)[k]? = some p) ↔
        k < n ∧ (∀ a, mn = some a → a.inst m ≤ s.inst m) ∧
          (∀ b, mx = some b → s.inst m + (k : Int) * d.exactSeconds m ≤ b.inst m) := by
  obtain ⟨r0, hr, hlen, _, hser⟩ := C12_start_duration_bounded m n s d hn hs hex hpos fuel hf
  refine ⟨⟨r0, mn, mx⟩, mkRecMM_of m _ _ _ _ mn mx r0 hr, rfl, rfl, ?_, ?_⟩
  · rw [iterMM_eq_takeWhile]; exact seriesOK_takeWhile m _ _ _ _ _ _ hser
  · exact window_exists_fwd m ⟨r0, mn, mx⟩ _ _ fuel _ _ n hser hlen hpos hmin hmax

/-- **`R/start/d` (unbounded) with a window**: the first `fuel` points, cut at `max_point`. -/
theorem C12_mm_start_duration_unbounded (m : Mode) (s : TP) (d : Dur) (mn mx : Option TP)
    (hs : s.Valid m) (hex : d.isExact = true) (hpos : 0 < d.exactSeconds m)
    (hmin : ∀ a, mn = some a → a.Valid m) (hmax : ∀ b, mx = some b → b.Valid m) (fuel : Nat) :
    ∃ r, mkRecMM m none (some s) (some d) none mn mx = some r ∧ r.minP = mn ∧ r.maxP = mx ∧
      SeriesOK m s.date.rep s.tz (iterMM m r fuel) (s.inst m) (d.exactSeconds m) ∧
      ∀ k : Nat, (∃ p, (iterMM m r fuel)[k]? = some p) ↔
        k < fuel ∧ (∀ a, mn = some a → a.inst m ≤ s.inst m) ∧
          (∀ b, mx = some b → s.inst m + (k : Int) * d.exactSeconds m ≤ b.inst m) := by
  obtain ⟨r0, hr, hlen, hser⟩ := C12_start_duration_unbounded m s d hs hex hpos fuel
  refine ⟨⟨r0, mn, mx⟩, mkRecMM_of m _ _ _ _ mn mx r0 hr, rfl, rfl, ?_, ?_⟩
  · rw [iterMM_eq_takeWhile]; exact seriesOK_takeWhile m _ _ _ _ _ _ hser
  · exact window_exists_fwd m ⟨r0, mn, mx⟩ _ _ fuel _ _ fuel hser hlen hpos hmin hmax

/-- **The fuel that suffices** for `R/start/d` with a `max_point` `b`: once `start + fuel·L` is past
    `b`, the bound `k < fuel` is no restriction — the iteration has ended by itself: the `k`-th
    point exists exactly when `min ≤ start` and `start + k·L ≤ b`. -/
theorem C12_mm_start_duration_unbounded_fuel (m : Mode) (s : TP) (d : Dur) (mn : Option TP) (b : TP)
    (hs : s.Valid m) (hex : d.isExact = true) (hpos : 0 < d.exactSeconds m)
    (hmin : ∀ a, mn = some a → a.Valid m) (hb : b.Valid m) (fuel : Nat)
    (hfuel : b.inst m < s.inst m + (fuel : Int) * d.exactSeconds m) :
    ∃ r, mkRecMM m none (some s) (some d) none mn (some b) = some r ∧
      ∀ k : Nat, (∃ p, (iterMM m r fuel)[k]? = some p) ↔
        (∀ a, mn = some a → a.inst m ≤ s.inst m) ∧ s.inst m + (k : Int) * d.exactSeconds m ≤ b.inst m := by
  obtain ⟨r, hr, _, _, _, hk⟩ := C12_mm_start_duration_unbounded m s d mn (some b) hs hex hpos hmin
    (fun x h => by cases h; exact hb) fuel
  refine ⟨r, hr, fun k => ?_⟩
  rw [hk k]
  constructor
  · rintro ⟨_, h2, h3⟩; exact ⟨h2, h3 b rfl⟩
  · rintro ⟨h2, h3⟩
    refine ⟨?_, h2, fun x hx => by cases hx; exact h3⟩
    by_cases hlt : k < fuel
    · exact hlt
    · exfalso
      have : (fuel : Int) * d.exactSeconds m ≤ (k : Int) * d.exactSeconds m :=
        Int.mul_le_mul_of_nonneg_right (by omega) (Int.le_of_lt hpos)
      omega

/-- **`Rn/d/end` with a window** (`n ≥ 2`): iteration runs forward from the derived start
    `end − (n−1)·L`; the `k`-th point exists exactly when `k < n`, `min ≤ end − (n−1)·L` and
    `end − (n−1)·L + k·L ≤ max`. -/
theorem C12_mm_duration_end_bounded (m : Mode) (n : Nat) (e : TP) (d : Dur) (mn mx : Option TP) (hn : 2 ≤ n)
    (he : e.Valid m) (hex : d.isExact = true) (hpos : 0 < d.exactSeconds m)
    (hmin : ∀ a, mn = some a → a.Valid m) (hmax : ∀ b, mx = some b → b.Valid m)
    (fuel : Nat) (hf : n ≤ fuel) :
    ∃ r, mkRecMM m (some (n : Int)) none (some d) (some e) mn mx = some r ∧ r.minP = mn ∧ r.maxP = mx ∧
      SeriesOK m e.date.rep e.tz (iterMM m r fuel)
        (e.inst m - d.exactSeconds m * ((n : Int) - 1)) (d.exactSeconds m) ∧
      ∀ k : Nat, (∃ p, (iterMM m r fuel)[k]? = some p) ↔
        k < n ∧ (∀ a, mn = some a → a.inst m ≤ e.inst m - d.exactSeconds m * ((n : Int) - 1)) ∧
          (∀ b, mx = some b →
            e.inst m - d.exactSeconds m * ((n : Int) - 1) + (k : Int) * d.exactSeconds m ≤ b.inst m) := by
  obtain ⟨r0, hr, hlen, hser⟩ := C12_duration_end_bounded m n e d hn he hex hpos fuel hf
  refine ⟨⟨r0, mn, mx⟩, mkRecMM_of m _ _ _ _ mn mx r0 hr, rfl, rfl, ?_, ?_⟩
  · rw [iterMM_eq_takeWhile]; exact seriesOK_takeWhile m _ _ _ _ _ _ hser
  · exact window_exists_fwd m ⟨r0, mn, mx⟩ _ _ fuel _ _ n hser hlen hpos hmin hmax

/-- **`R/d/end` (unbounded) with a window**: iteration runs backwards from the end; the `k`-th
    point exists exactly when `k < fuel`, `end ≤ max` and `min ≤ end − k·L`.  (`end > max`:
    nothing is yielded.) -/
theorem C12_mm_duration_end_unbounded (m : Mode) (e : TP) (d : Dur) (mn mx : Option TP)
    (he : e.Valid m) (hex : d.isExact = true) (hpos : 0 < d.exactSeconds m)
    (hmin : ∀ a, mn = some a → a.Valid m) (hmax : ∀ b, mx = some b → b.Valid m) (fuel : Nat) :
    ∃ r, mkRecMM m none none (some d) (some e) mn mx = some r ∧ r.minP = mn ∧ r.maxP = mx ∧
      SeriesOK m e.date.rep e.tz (iterMM m r fuel) (e.inst m) (-(d.exactSeconds m)) ∧
      ∀ k : Nat, (∃ p, (iterMM m r fuel)[k]? = some p) ↔
        k < fuel ∧ (∀ b, mx = some b → e.inst m ≤ b.inst m) ∧
          (∀ a, mn = some a → a.inst m ≤ e.inst m - (k : Int) * d.exactSeconds m) := by
  obtain ⟨r0, hr, hlen, hser⟩ := C12_duration_end_unbounded m e d he hex hpos fuel
  refine ⟨⟨r0, mn, mx⟩, mkRecMM_of m _ _ _ _ mn mx r0 hr, rfl, rfl, ?_, ?_⟩
  · rw [iterMM_eq_takeWhile]; exact seriesOK_takeWhile m _ _ _ _ _ _ hser
  · exact window_exists_rev m ⟨r0, mn, mx⟩ _ _ fuel _ _ fuel hser hlen hpos hmin hmax

/-- **start/second-point notation with a window** (`Rn/start/second`, `n ≥ 2`, and `R/start/second`):
    as start/duration with the interval `second − start`. -/
theorem C12_mm_start_second (m : Mode) (s e2 : TP) (mn mx : Option TP) (hs : s.Valid m) (he : e2.Valid m)
    (hlt : s.inst m < e2.inst m)
    (hmin : ∀ a, mn = some a → a.Valid m) (hmax : ∀ b, mx = some b → b.Valid m) (fuel : Nat) :
    (∃ r, mkRecMM m none (some s) none (some e2) mn mx = some r ∧ r.minP = mn ∧ r.maxP = mx ∧
      SeriesOK m s.date.rep s.tz (iterMM m r fuel) (s.inst m) (e2.inst m - s.inst m) ∧
      ∀ k : Nat, (∃ p, (iterMM m r fuel)[k]? = some p) ↔
        k < fuel ∧ (∀ a, mn = some a → a.inst m ≤ s.inst m) ∧
          (∀ b, mx = some b → s.inst m + (k : Int) * (e2.inst m - s.inst m) ≤ b.inst m)) ∧
    (∀ n : Nat, 2 ≤ n → n ≤ fuel →
      ∃ r, mkRecMM m (some (n : Int)) (some s) none (some e2) mn mx = some r ∧ r.minP = mn ∧ r.maxP = mx ∧
        SeriesOK m s.date.rep s.tz (iterMM m r fuel) (s.inst m) (e2.inst m - s.inst m) ∧
        ∀ k : Nat, (∃ p, (iterMM m r fuel)[k]? = some p) ↔
          k < n ∧ (∀ a, mn = some a → a.inst m ≤ s.inst m) ∧
            (∀ b, mx = some b → s.inst m + (k : Int) * (e2.inst m - s.inst m) ≤ b.inst m)) := by
  have hpos : 0 < e2.inst m - s.inst m := by omega
  constructor
  · obtain ⟨r0, hr, hlen, hser⟩ := (C12_start_second m s e2 hs he hlt fuel).1
    refine ⟨⟨r0, mn, mx⟩, mkRecMM_of m _ _ _ _ mn mx r0 hr, rfl, rfl, ?_, ?_⟩
    · rw [iterMM_eq_takeWhile]; exact seriesOK_takeWhile m _ _ _ _ _ _ hser
    · exact window_exists_fwd m ⟨r0, mn, mx⟩ _ _ fuel _ _ fuel hser hlen hpos hmin hmax
  · intro n hn hf
    obtain ⟨r0, hr, hlen, hser⟩ := (C12_start_second m s e2 hs he hlt fuel).2 n hn hf
    refine ⟨⟨r0, mn, mx⟩, mkRecMM_of m _ _ _ _ mn mx r0 hr, rfl, rfl, ?_, ?_⟩
    · rw [iterMM_eq_takeWhile]; exact seriesOK_takeWhile m _ _ _ _ _ _ hser
    · exact window_exists_fwd m ⟨r0, mn, mx⟩ _ _ fuel _ _ n hser hlen hpos hmin hmax

/-- **One repetition or a zero interval with a window**: the anchor, if it is within [min, max]
    (by the code's own comparison), else nothing. -/
theorem C12_mm_single (m : Mode) (reps : Option Int) (s : TP) (d : Dur) (mn mx : Option TP)
    (hex : d.isExact = true) (hnn : 0 ≤ d.exactSeconds m) (hreps : ∀ n, reps = some n → 1 ≤ n)
    (hone : reps = some 1 ∨ d.exactSeconds m = 0) (fuel : Nat) (hf : 1 ≤ fuel) :
    mkRecMM m reps (some s) (some d) none mn mx = some ⟨⟨some 1, some s, none, some s, none, 3⟩, mn, mx⟩ ∧
    iterMM m ⟨⟨some 1, some s, none, some s, none, 3⟩, mn, mx⟩ fuel =
      if withinMM m ⟨⟨some 1, some s, none, some s, none, 3⟩, mn, mx⟩ s then [s] else [] := by
  obtain ⟨h1, h2⟩ := C12_single m reps s d hex hnn hreps hone fuel hf
  refine ⟨mkRecMM_of m _ _ _ _ mn mx _ h1, ?_⟩
  rw [iterMM_eq_takeWhile]
  simp only [h2, List.takeWhile_cons, List.takeWhile_nil]

/-! ## Non-vacuity -/

/-- `R5/2002-05-04T23:00Z/PT1H`, `max_point = 2002-05-05T03:00+02:00` (= 01:00Z, another zone):
    three points, the last one AT the maximum. -/
example : (mkRecMM .greg (some 5) (some ⟨.cal 2002 5 4, 23, 0, 0, ⟨0, 0⟩⟩) (some (.units 0 0 0 1 0 0)) none
      none (some ⟨.cal 2002 5 5, 3, 0, 0, ⟨2, 0⟩⟩)).map (fun r => iterMM .greg r 10) =
    some [⟨.cal 2002 5 4, 23, 0, 0, ⟨0, 0⟩⟩, ⟨.cal 2002 5 5, 0, 0, 0, ⟨0, 0⟩⟩, ⟨.cal 2002 5 5, 1, 0, 0, ⟨0, 0⟩⟩] := by
  decide +kernel

/-- The same recurrence with `min_point = 2002-05-04T24:00Z` (one hour after the start): NOTHING is
    yielded although four members are at or after the minimum — `__iter__` stops at the first
    point out of bounds, and that is the start. -/
example : (mkRecMM .greg (some 5) (some ⟨.cal 2002 5 4, 23, 0, 0, ⟨0, 0⟩⟩) (some (.units 0 0 0 1 0 0)) none
      (some ⟨.cal 2002 5 4, 24, 0, 0, ⟨0, 0⟩⟩) none).map (fun r => iterMM .greg r 10) = some [] := by
  decide +kernel

/-- … while `get_next` from the start does return the member at the minimum. -/
example : (mkRecMM .greg (some 5) (some ⟨.cal 2002 5 4, 23, 0, 0, ⟨0, 0⟩⟩) (some (.units 0 0 0 1 0 0)) none
      (some ⟨.cal 2002 5 4, 24, 0, 0, ⟨0, 0⟩⟩) none).bind
      (fun r => getNextMM .greg r ⟨.cal 2002 5 4, 23, 0, 0, ⟨0, 0⟩⟩) =
    some ⟨.cal 2002 5 5, 0, 0, 0, ⟨0, 0⟩⟩ := by decide +kernel

/-- hypotheses of `C12_mm_start_duration_bounded` at that value -/
example : (2 : Nat) ≤ 5 ∧ (⟨.cal 2002 5 4, 23, 0, 0, ⟨0, 0⟩⟩ : TP).Valid .greg ∧
    (Dur.units 0 0 0 1 0 0).isExact = true ∧ 0 < (Dur.units 0 0 0 1 0 0).exactSeconds .greg ∧
    (⟨.cal 2002 5 5, 3, 0, 0, ⟨2, 0⟩⟩ : TP).Valid .greg ∧ (⟨.cal 2002 5 4, 24, 0, 0, ⟨0, 0⟩⟩ : TP).Valid .greg := by
  decide

/-- `R/PT90M/2000-366T24:00-03:00` backwards with `min_point` two steps back and `max_point` at
    the end's instant written as `2001-01-01T03:00Z`: three points. -/
example : (mkRecMM .greg none none (some (.units 0 0 0 0 90 0)) (some ⟨.ord 2000 366, 24, 0, 0, ⟨-3, 0⟩⟩)
      (some ⟨.cal 2001 1 1, 0, 0, 0, ⟨0, 0⟩⟩) (some ⟨.cal 2001 1 1, 3, 0, 0, ⟨0, 0⟩⟩)).map
      (fun r => iterMM .greg r 10) =
    some [⟨.ord 2000 366, 24, 0, 0, ⟨-3, 0⟩⟩, ⟨.ord 2000 366, 22, 30, 0, ⟨-3, 0⟩⟩,
      ⟨.ord 2000 366, 21, 0, 0, ⟨-3, 0⟩⟩] := by
  decide +kernel

/-- A month interval (not exact): `C12_mm_iter_longest_prefix` still applies. -/
example : (mkRecMM .greg none (some ⟨.cal 2001 1 31, 0, 0, 0, ⟨0, 0⟩⟩) (some (.units 0 1 0 0 0 0)) none
      none (some ⟨.cal 2001 3 28, 0, 0, 0, ⟨0, 0⟩⟩)).map (fun r => (iterMM .greg r 5, iter .greg r.base 4)) =
    some ([⟨.cal 2001 1 31, 0, 0, 0, ⟨0, 0⟩⟩, ⟨.cal 2001 2 28, 0, 0, 0, ⟨0, 0⟩⟩, ⟨.cal 2001 3 28, 0, 0, 0, ⟨0, 0⟩⟩],
      [⟨.cal 2001 1 31, 0, 0, 0, ⟨0, 0⟩⟩, ⟨.cal 2001 2 28, 0, 0, 0, ⟨0, 0⟩⟩, ⟨.cal 2001 3 28, 0, 0, 0, ⟨0, 0⟩⟩,
       ⟨.cal 2001 4 28, 0, 0, 0, ⟨0, 0⟩⟩]) := by
  decide +kernel

/-- `RecMM_none_is_Rec` at `R3/2002-05-04T23:00Z/PT1H`. -/
example := RecMM_none_is_Rec .greg ⟨some 3, some ⟨.cal 2002 5 4, 23, 0, 0, ⟨0, 0⟩⟩, some (.units 0 0 0 1 0 0),
    some ⟨.cal 2002 5 5, 1, 0, 0, ⟨0, 0⟩⟩, none, 3⟩
example : iterMM .greg ⟨⟨some 3, some ⟨.cal 2002 5 4, 23, 0, 0, ⟨0, 0⟩⟩, some (.units 0 0 0 1 0 0),
    some ⟨.cal 2002 5 5, 1, 0, 0, ⟨0, 0⟩⟩, none, 3⟩, none, none⟩ 10 =
    [⟨.cal 2002 5 4, 23, 0, 0, ⟨0, 0⟩⟩, ⟨.cal 2002 5 5, 0, 0, 0, ⟨0, 0⟩⟩, ⟨.cal 2002 5 5, 1, 0, 0, ⟨0, 0⟩⟩] := by
  decide +kernel

/-- `C12_mm_exact_forward` at `R5/2002-05-04T23:00Z/PT1H` with window
    [2002-05-04T23:00Z, 2002-05-05T03:00+02:00]. -/
example := C12_mm_exact_forward .greg
    ⟨⟨some 5, some ⟨.cal 2002 5 4, 23, 0, 0, ⟨0, 0⟩⟩, some (.units 0 0 0 1 0 0),
      some ⟨.cal 2002 5 5, 3, 0, 0, ⟨0, 0⟩⟩, none, 3⟩, some ⟨.cal 2002 5 4, 23, 0, 0, ⟨0, 0⟩⟩,
      some ⟨.cal 2002 5 5, 3, 0, 0, ⟨2, 0⟩⟩⟩
    (.units 0 0 0 1 0 0) 3600
    ⟨rfl, rfl, by decide, by decide, by decide, fun s h => by cases h; decide, fun e h => by cases h; decide⟩
    ⟨.cal 2002 5 4, 23, 0, 0, ⟨0, 0⟩⟩ rfl (fun a h => by cases h; decide) (fun b h => by cases h; decide) 10

/-- `C12_mm_exact_backward` at `R/PT90M/2000-366T24:00-03:00` with window
    [2001-01-01T00:00Z, 2001-01-01T03:00Z]. -/
example := C12_mm_exact_backward .greg
    ⟨⟨none, none, some (.units 0 0 0 0 90 0), some ⟨.ord 2000 366, 24, 0, 0, ⟨-3, 0⟩⟩, none, 4⟩,
      some ⟨.cal 2001 1 1, 0, 0, 0, ⟨0, 0⟩⟩, some ⟨.cal 2001 1 1, 3, 0, 0, ⟨0, 0⟩⟩⟩
    (.units 0 0 0 0 90 0) 5400
    ⟨rfl, rfl, by decide, by decide, by decide, fun s h => (by cases h), fun e h => (by cases h; decide)⟩
    ⟨.ord 2000 366, 24, 0, 0, ⟨-3, 0⟩⟩ rfl rfl (fun a h => by cases h; decide) (fun b h => by cases h; decide) 10

/-- hypotheses of `C12_mm_duration_end_*` / `C12_mm_start_second` at concrete values -/
example : (⟨.ord 2000 366, 24, 0, 0, ⟨-3, 0⟩⟩ : TP).Valid .greg ∧ (Dur.units 0 0 0 0 90 0).isExact = true ∧
    0 < (Dur.units 0 0 0 0 90 0).exactSeconds .greg ∧ (⟨.cal 2001 1 1, 0, 0, 0, ⟨0, 0⟩⟩ : TP).Valid .greg ∧
    (⟨.cal 2001 2 28, 12, 0, 0, ⟨1, 0⟩⟩ : TP).Valid .greg ∧ (⟨.ord 2001 60, 6, 30, 0, ⟨-2, 0⟩⟩ : TP).Valid .greg ∧
    (⟨.cal 2001 2 28, 12, 0, 0, ⟨1, 0⟩⟩ : TP).inst .greg < (⟨.ord 2001 60, 6, 30, 0, ⟨-2, 0⟩⟩ : TP).inst .greg := by
  decide +kernel

end IsoDT.Props.C12
