/-
  C02 / C04 / C06 (rational slots) — comparison, hashing, re-zoning and point difference follow
  the timeline as ALGORITHMS, for every reduced-precision form.

  The Python keeps `_hour_of_day`, `_minute_of_hour`, `_second_of_minute` as floats, the last two
  possibly `None` (decimal seconds / decimal minutes / decimal hours).  `Model.TimePointQ2` runs the
  statements of `to_time_zone`, `_cmp`, `__hash__` and `__sub__(TimePoint)` over exact rationals.
  Proved here, for all four calendar modes, the three date representations in any mix, any two
  offsets, any mix of precision forms, 24:00 included, every year in `Int`:

  * `C06_to_time_zone_rat`: re-zoning keeps the instant, sets the requested offset, gives a legal
    point in the same representation and precision form;
  * `C02_cmp_rat` / `C02_operators_rat`: `_cmp` decides the order of the instants;
  * `C02_hash_rat`: points denoting the same instant have the same hash tuple — also across
    precision forms (12.5h hashes like 12:30:00), because `__hash__` goes through
    `get_hour_minute_second`, which expands every form to whole hour, whole minute, second;
  * `C04_sub_rat`: `a - b` is a days/hours/minutes/seconds `Duration` (all four slots set, whatever
    slots of the operands were `None`) of length exactly `inst a − inst b`, with whole hours and
    minutes, `|h| < 24`, `|m| < 60`, `|s| < 60` and one sign throughout;
  * `*_extends_int`: on whole-second points each function is the integer model's.

  What this does NOT say: anything about binary rounding in the real float computation.  The float
  code is observably NOT exact on the decimal forms (differential test, /repo): e.g.
  `T12,1` (decimal hours) `==` `T12:06:00` is `True` (second of day 43560.0 both) while their
  hashes differ (`get_hour_minute_second` gives `(12.0, 5.0, 59.99999999999872)`), their difference
  is the mixed-sign `P-1DT23H59M59,99999999999872S`, and for some equal instants in two offsets
  both `a > b` and `b > a` hold and `a - b` recurses without end.  In exact arithmetic none of this
  happens (the theorems below); the defects are rounding, not logic.
-/
import IsoDT.Lemmas.CmpQ

namespace IsoDT.Props.C02
open IsoDT IsoDT.Model IsoDT.Lemmas
open IsoDT.Spec (Date TZ TP)

/-! ## C06: re-zoning -/

/-- **C06 over rationals**: `to_time_zone` keeps the instant, carries exactly the requested
    offset, gives a legal point (so every slot that must hold a whole number does) in the same
    date representation and the same precision form (`None` pattern), with `hh < 24` unless the
    point was returned unchanged — for every legal point in any precision form, every legal
    destination offset, every mode. -/
theorem C06_to_time_zone_rat (m : Mode) (p : TPQ) (z : TZ) (hv : p.Valid m) (hz : z.Valid) :
    ∃ q, toTimeZoneQ m p z = some q ∧ q.inst m = p.inst m ∧ q.tz = z ∧ q.Valid m ∧
      q.date.rep = p.date.rep ∧ q.mi.isSome = p.mi.isSome ∧ q.ss.isSome = p.ss.isSome ∧
      (p.hh < 24 → q.hh < 24) := toTimeZoneQ_spec m p z hv hz

example : (⟨.week 2021 1 1, 1/8, none, none, ⟨5, 45⟩⟩ : TPQ).Valid .greg ∧ (⟨-99, -59⟩ : TZ).Valid := by
  decide +kernel
-- decimal-hour point: the offset's minutes go into the hour slot as a fraction
example : toTimeZoneQ .greg ⟨.week 2021 1 1, 1/8, none, none, ⟨5, 45⟩⟩ ⟨-99, -59⟩ =
    some ⟨.week 2020 53 3, 1727/120, none, none, ⟨-99, -59⟩⟩ := by decide +kernel
-- decimal-minute point at 24:00
example : toTimeZoneQ .d360 ⟨.cal 2000 12 30, 24, some 0, none, ⟨0, 0⟩⟩ ⟨0, -30⟩ =
    some ⟨.cal 2000 12 30, 23, some 30, none, ⟨0, -30⟩⟩ := by decide +kernel
-- unchanged offset: the very same point (24:00 kept)
example : toTimeZoneQ .greg ⟨.ord 2001 59, 24, none, none, ⟨5, 30⟩⟩ ⟨5, 30⟩ =
    some ⟨.ord 2001 59, 24, none, none, ⟨5, 30⟩⟩ := by decide +kernel

/-! ## C02: comparison -/

/-- **C02 over rationals**: `_cmp` never raises on legal operands and its verdict `c`
    (`-1` / `0` / `1` for `<` / `==` / `>`) is the sign of the difference of the instants —
    whatever representations, offsets, precision forms and 24:00 spellings the operands use. -/
theorem C02_cmp_rat (m : Mode) (a b : TPQ) (ha : a.Valid m) (hb : b.Valid m) :
    ∃ c, cmpQ m a b = some c ∧ c = sgnQ (a.inst m - b.inst m) ∧
      (c = -1 ↔ a.inst m < b.inst m) ∧ (c = 0 ↔ a.inst m = b.inst m) ∧ (c = 1 ↔ a.inst m > b.inst m) := by
  refine ⟨_, cmpQ_spec m a b ha hb, rfl, ?_, ?_, ?_⟩
  · rw [sgnQ_neg_iff]; grind
  · rw [sgnQ_zero_iff]; grind
  · rw [sgnQ_one_iff]; grind

-- 12.5h (decimal hours, Z)  <  13:30.5 (decimal minutes, +01:00) = 12:30:30Z
example : (⟨.cal 2000 1 1, 25/2, none, none, ⟨0, 0⟩⟩ : TPQ).Valid .greg ∧
    (⟨.ord 2000 1, 13, some (61/2), none, ⟨1, 0⟩⟩ : TPQ).Valid .greg ∧
    cmpQ .greg ⟨.cal 2000 1 1, 25/2, none, none, ⟨0, 0⟩⟩ ⟨.ord 2000 1, 13, some (61/2), none, ⟨1, 0⟩⟩ = some (-1) ∧
    sgnQ (TPQ.inst .greg ⟨.cal 2000 1 1, 25/2, none, none, ⟨0, 0⟩⟩ -
      TPQ.inst .greg ⟨.ord 2000 1, 13, some (61/2), none, ⟨1, 0⟩⟩) = -1 := by decide +kernel

/-- The six comparison operators as `_cmp` computes them. -/
def ltQ (m : Mode) (a b : TPQ) : Prop := cmpQ m a b = some (-1)
def eqQ (m : Mode) (a b : TPQ) : Prop := cmpQ m a b = some 0
def gtQ (m : Mode) (a b : TPQ) : Prop := cmpQ m a b = some 1
def leQ (m : Mode) (a b : TPQ) : Prop := ltQ m a b ∨ eqQ m a b
def geQ (m : Mode) (a b : TPQ) : Prop := gtQ m a b ∨ eqQ m a b
def neQ (m : Mode) (a b : TPQ) : Prop := ¬ eqQ m a b

/-- `<`, `==`, `>`, `<=`, `>=`, `!=` on legal points in any precision forms are the order of the
    instants. -/
theorem C02_operators_rat (m : Mode) (a b : TPQ) (ha : a.Valid m) (hb : b.Valid m) :
    (ltQ m a b ↔ a.inst m < b.inst m) ∧ (eqQ m a b ↔ a.inst m = b.inst m) ∧
    (gtQ m a b ↔ a.inst m > b.inst m) ∧ (leQ m a b ↔ a.inst m ≤ b.inst m) ∧
    (geQ m a b ↔ a.inst m ≥ b.inst m) ∧ (neQ m a b ↔ a.inst m ≠ b.inst m) := by
  unfold leQ geQ neQ ltQ eqQ gtQ
  rw [cmpQ_spec m a b ha hb]
  simp only [Option.some.injEq, sgnQ_neg_iff, sgnQ_zero_iff, sgnQ_one_iff]
  refine ⟨?_, ?_, ?_, ?_, ?_, ?_⟩ <;> grind

example : (⟨.cal 2000 1 1, 25/2, none, none, ⟨0, 0⟩⟩ : TPQ).Valid .greg ∧
    (⟨.ord 2000 1, 13, some (61/2), none, ⟨1, 0⟩⟩ : TPQ).Valid .greg ∧
    (⟨.week 1999 52 6, 12, some 30, some 0, ⟨0, 0⟩⟩ : TPQ).Valid .greg := by decide +kernel
-- 12.5h (decimal hours, Z)  vs  13:30.5 (decimal minutes, +01:00) = 12:30:30Z
example : cmpQ .greg ⟨.cal 2000 1 1, 25/2, none, none, ⟨0, 0⟩⟩ ⟨.ord 2000 1, 13, some (61/2), none, ⟨1, 0⟩⟩ =
    some (-1) := by decide +kernel
example : cmpQ .greg ⟨.ord 2000 1, 13, some (61/2), none, ⟨1, 0⟩⟩ ⟨.cal 2000 1 1, 25/2, none, none, ⟨0, 0⟩⟩ =
    some 1 := by decide +kernel
-- 12.5h == 12:30:00 (week date, full precision), both operand orders
example : cmpQ .greg ⟨.cal 2000 1 1, 25/2, none, none, ⟨0, 0⟩⟩ ⟨.week 1999 52 6, 12, some 30, some 0, ⟨0, 0⟩⟩ =
    some 0 := by decide +kernel
example : cmpQ .greg ⟨.week 1999 52 6, 12, some 30, some 0, ⟨0, 0⟩⟩ ⟨.cal 2000 1 1, 25/2, none, none, ⟨0, 0⟩⟩ =
    some 0 := by decide +kernel
-- 24:00 in decimal-hour form == next day 00:00:00 in another offset
example : cmpQ .greg ⟨.cal 2000 12 31, 24, none, none, ⟨0, 0⟩⟩ ⟨.cal 2001 1 1, 1, some 0, some 0, ⟨1, 0⟩⟩ =
    some 0 := by decide +kernel
-- a difference of 1/1000 s is seen
example : cmpQ .greg ⟨.cal 2000 1 1, 0, some 0, some (1/1000), ⟨0, 0⟩⟩ ⟨.cal 2000 1 1, 0, none, none, ⟨0, 0⟩⟩ =
    some 1 := by decide +kernel
-- the one shape on which `get_hour_minute_second` cannot be used (second slot without minute slot)
-- is no obstacle to `_cmp`, which goes through `get_second_of_day`
example : cmpQ .greg ⟨.cal 2000 1 1, 12, none, some 5, ⟨0, 0⟩⟩ ⟨.cal 2000 1 1, 12, some 0, some 0, ⟨0, 0⟩⟩ =
    some 1 := by decide +kernel

/-- Exactly one of `a < b`, `a == b`, `a > b`. -/
theorem C02_trichotomy_rat (m : Mode) (a b : TPQ) (ha : a.Valid m) (hb : b.Valid m) :
    (ltQ m a b ∧ ¬ eqQ m a b ∧ ¬ gtQ m a b) ∨ (¬ ltQ m a b ∧ eqQ m a b ∧ ¬ gtQ m a b) ∨
    (¬ ltQ m a b ∧ ¬ eqQ m a b ∧ gtQ m a b) := by
  obtain ⟨h1, h2, h3, _⟩ := C02_operators_rat m a b ha hb
  rw [h1, h2, h3]; grind

example : ltQ .greg ⟨.cal 2000 1 1, 25/2, none, none, ⟨0, 0⟩⟩ ⟨.ord 2000 1, 13, some (61/2), none, ⟨1, 0⟩⟩ := by
  unfold ltQ; decide +kernel

/-- `==` and `!=` are symmetric and `<` mirrors `>`, across precision forms. -/
theorem C02_eq_symm_rat (m : Mode) (a b : TPQ) (ha : a.Valid m) (hb : b.Valid m) :
    (eqQ m a b ↔ eqQ m b a) ∧ (neQ m a b ↔ neQ m b a) ∧ (ltQ m a b ↔ gtQ m b a) := by
  obtain ⟨h1, h2, h3, _, _, h6⟩ := C02_operators_rat m a b ha hb
  obtain ⟨g1, g2, g3, _, _, g6⟩ := C02_operators_rat m b a hb ha
  rw [h1, h2, h6, g2, g3, g6]; grind

example : eqQ .greg ⟨.cal 2000 1 1, 25/2, none, none, ⟨0, 0⟩⟩ ⟨.week 1999 52 6, 12, some 30, some 0, ⟨0, 0⟩⟩ ∧
    eqQ .greg ⟨.week 1999 52 6, 12, some 30, some 0, ⟨0, 0⟩⟩ ⟨.cal 2000 1 1, 25/2, none, none, ⟨0, 0⟩⟩ := by
  unfold eqQ; decide +kernel

/-- `<=`, `<`, `==` are transitive, across precision forms. -/
theorem C02_trans_rat (m : Mode) (a b c : TPQ) (ha : a.Valid m) (hb : b.Valid m) (hc : c.Valid m) :
    (leQ m a b → leQ m b c → leQ m a c) ∧ (ltQ m a b → ltQ m b c → ltQ m a c) ∧
    (eqQ m a b → eqQ m b c → eqQ m a c) := by
  have h1 := C02_operators_rat m a b ha hb
  have h2 := C02_operators_rat m b c hb hc
  have h3 := C02_operators_rat m a c ha hc
  rw [h1.2.2.2.1, h2.2.2.2.1, h3.2.2.2.1, h1.1, h2.1, h3.1, h1.2.1, h2.2.1, h3.2.1]; grind

example : leQ .greg ⟨.week 1999 52 6, 12, some 30, some 0, ⟨0, 0⟩⟩ ⟨.cal 2000 1 1, 25/2, none, none, ⟨0, 0⟩⟩ ∧
    leQ .greg ⟨.cal 2000 1 1, 25/2, none, none, ⟨0, 0⟩⟩ ⟨.ord 2000 1, 13, some (61/2), none, ⟨1, 0⟩⟩ := by
  unfold leQ ltQ eqQ; decide +kernel

/-! ## C02: hashing -/

/-- **C02 (hash) over rationals**: legal points denoting the same instant have the same hash
    tuple, and `__hash__` does not raise — also when the two are in DIFFERENT precision forms
    (decimal hours vs. hour:minute:second, …), offsets and representations.  (Python hashes the
    tuple; numerically equal `int`/`float` entries hash equally — CPython, trusted.) -/
theorem C02_hash_rat (m : Mode) (a b : TPQ) (ha : a.Valid m) (hb : b.Valid m)
    (h : a.inst m = b.inst m) : hashKeyQ m a = hashKeyQ m b ∧ (hashKeyQ m a).isSome :=
  hashKeyQ_eq_of_inst_eq m a b ha hb h

-- 12.5h (decimal hours) and 12:30:00 (week date, full precision): one instant, one hash tuple
example : TPQ.inst .greg ⟨.cal 2000 1 1, 25/2, none, none, ⟨0, 0⟩⟩ =
      TPQ.inst .greg ⟨.week 1999 52 6, 12, some 30, some 0, ⟨0, 0⟩⟩ ∧
    hashKeyQ .greg ⟨.cal 2000 1 1, 25/2, none, none, ⟨0, 0⟩⟩ = some [2000, 1, 1, 12, 30, 0] ∧
    hashKeyQ .greg ⟨.week 1999 52 6, 12, some 30, some 0, ⟨0, 0⟩⟩ = some [2000, 1, 1, 12, 30, 0] := by
  decide +kernel

/-- Points that compare equal hash equally. -/
theorem C02_hash_of_eq_rat (m : Mode) (a b : TPQ) (ha : a.Valid m) (hb : b.Valid m) (h : eqQ m a b) :
    hashKeyQ m a = hashKeyQ m b ∧ (hashKeyQ m a).isSome :=
  hashKeyQ_eq_of_inst_eq m a b ha hb (((C02_operators_rat m a b ha hb).2.1).mp h)

-- decimal minutes at 24:00 vs decimal hours in +01:00
example : eqQ .greg ⟨.cal 2000 12 31, 24, some 0, none, ⟨0, 0⟩⟩ ⟨.week 2001 1 1, 1, none, none, ⟨1, 0⟩⟩ ∧
    hashKeyQ .greg ⟨.cal 2000 12 31, 24, some 0, none, ⟨0, 0⟩⟩ =
      hashKeyQ .greg ⟨.week 2001 1 1, 1, none, none, ⟨1, 0⟩⟩ := by
  unfold eqQ; decide +kernel

/-- The hashed tuple: a real calendar date, whole hour in 0..23, whole minute in 0..59, second in
    `[0, 60)`, together denoting the point's instant in UTC. -/
theorem C02_hash_key_rat (m : Mode) (p : TPQ) (hv : p.Valid m) :
    ∃ (y mo d H M : Int) (S : Rat),
      hashKeyQ m p = some [(y : Rat), (mo : Rat), (d : Rat), (H : Rat), (M : Rat), S] ∧
      Spec.ValidCal m y mo d ∧ (0 ≤ H ∧ H ≤ 23) ∧ (0 ≤ M ∧ M ≤ 59 ∧ 0 ≤ S ∧ S < 60) ∧
      86400 * ((Spec.dayNumCal m y mo d : Int) : Rat) + (3600 * (H : Rat) + 60 * (M : Rat) + S) = p.inst m :=
  hashKeyQ_some m p hv

-- 12.1h vs 12:06:00: equal tuples in exact arithmetic (the float code yields (12.0, 5.0, 59.99999999999872))
example : (⟨.cal 2000 1 1, 121/10, none, none, ⟨0, 0⟩⟩ : TPQ).Valid .greg ∧
    hashKeyQ .greg ⟨.cal 2000 1 1, 121/10, none, none, ⟨0, 0⟩⟩ = some [2000, 1, 1, 12, 6, 0] ∧
    hashKeyQ .greg ⟨.cal 2000 1 1, 12, some 6, some 0, ⟨0, 0⟩⟩ = some [2000, 1, 1, 12, 6, 0] := by
  decide +kernel
example : hashKeyQ .d360 ⟨.ord 2000 360, 23, some (119/2), none, ⟨-1, 0⟩⟩ = some [2001, 1, 1, 0, 59, 30] := by
  decide +kernel

/-! ## C04: point difference -/

/-- **C04 over rationals**: `a - b` never raises on legal operands; the result `Duration` has
    days, hours, minutes and seconds only (`DurQ`: all four always set — `__sub__` goes through
    `get_hour_minute_second`, so `None` slots of the operands do not reach the result), its length
    is exactly the signed distance between the instants, hours and minutes are whole numbers,
    `|h| < 24`, `|m| < 60`, `|s| < 60`, and all four carry one sign — for any two legal points in any
    representations, offsets and precision forms, any distance. -/
theorem C04_sub_rat (m : Mode) (a b : TPQ) (ha : a.Valid m) (hb : b.Valid m) :
    ∃ d : DurQ, subTPQ m a b = some d ∧ d.seconds = a.inst m - b.inst m ∧
      (-24 < d.h ∧ d.h < 24 ∧ -60 < d.mi ∧ d.mi < 60 ∧ -60 < d.s ∧ d.s < 60) ∧
      ((0 ≤ d.days ∧ 0 ≤ d.h ∧ 0 ≤ d.mi ∧ 0 ≤ d.s) ∨ (d.days ≤ 0 ∧ d.h ≤ 0 ∧ d.mi ≤ 0 ∧ d.s ≤ 0)) ∧
      IsInt d.h ∧ IsInt d.mi := by
  have c0 : ((0 : Int) : Rat) = 0 := rfl
  have c24 : ((24 : Int) : Rat) = 24 := rfl
  have c60 : ((60 : Int) : Rat) = 60 := rfl
  have cm24 : ((-24 : Int) : Rat) = -24 := rfl
  have cm60 : ((-60 : Int) : Rat) = -60 := rfl
  obtain ⟨dd, hI, mI, s, e, hl, ⟨r1, r2, r3, r4, r5, r6⟩, hs⟩ := subTPQ_spec m a b ha hb
  refine ⟨_, e, hl, ⟨?_, ?_, ?_, ?_, r5, r6⟩, ?_, isInt_intCast _, isInt_intCast _⟩
  · rw [← cm24, Rat.intCast_lt_intCast]; exact r1
  · rw [← c24, Rat.intCast_lt_intCast]; exact r2
  · rw [← cm60, Rat.intCast_lt_intCast]; exact r3
  · rw [← c60, Rat.intCast_lt_intCast]; exact r4
  · rw [← c0]
    simp only [Rat.intCast_le_intCast]
    rw [c0]
    exact hs

example : (⟨.cal 2000 1 1, 25/2, none, none, ⟨0, 0⟩⟩ : TPQ).Valid .greg ∧
    (⟨.week 1999 52 5, 23, some (119/2), none, ⟨-1, 0⟩⟩ : TPQ).Valid .greg := by decide +kernel
-- decimal hours minus decimal minutes: all four slots of the result are set
example : subTPQ .greg ⟨.cal 2000 1 1, 25/2, none, none, ⟨0, 0⟩⟩ ⟨.week 1999 52 5, 23, some (119/2), none, ⟨-1, 0⟩⟩ =
    some ⟨0, 11, 30, 30⟩ := by decide +kernel
-- swapped: every slot negated
example : subTPQ .greg ⟨.week 1999 52 5, 23, some (119/2), none, ⟨-1, 0⟩⟩ ⟨.cal 2000 1 1, 25/2, none, none, ⟨0, 0⟩⟩ =
    some ⟨0, -11, -30, -30⟩ := by decide +kernel
-- fractional seconds, a borrow through minutes, hours and days, across a leap day
example : subTPQ .greg ⟨.cal 2000 3 1, 0, some 0, some (1/4), ⟨0, 0⟩⟩ ⟨.ord 2000 59, 0, some 0, some (1/2), ⟨0, 0⟩⟩ =
    some ⟨1, 23, 59, 239/4⟩ := by decide +kernel
-- equal instants in different forms: the empty duration
example : subTPQ .greg ⟨.cal 2000 1 1, 121/10, none, none, ⟨0, 0⟩⟩ ⟨.cal 2000 1 1, 12, some 6, some 0, ⟨0, 0⟩⟩ =
    some ⟨0, 0, 0, 0⟩ := by decide +kernel

/-- `b + (a - b)` lands on the instant of `a` (and compares equal to it), in `b`'s representation,
    offset and precision form. -/
theorem C04_add_back_rat (m : Mode) (a b : TPQ) (ha : a.Valid m) (hb : b.Valid m) :
    ∃ d q, subTPQ m a b = some d ∧ addExactQ m b d = some q ∧ q.inst m = a.inst m ∧ q.Valid m ∧
      cmpQ m q a = some 0 := by
  obtain ⟨d, e, hl, _⟩ := C04_sub_rat m a b ha hb
  obtain ⟨q, eq', g⟩ := addExactQ_spec m b d hb
  have hi : q.inst m = a.inst m := by rw [g.inst, hl]; grind
  refine ⟨d, q, e, eq', hi, g.valid, ?_⟩
  rw [cmpQ_spec m q a g.valid ha, hi]
  have : a.inst m - a.inst m = 0 := by grind
  rw [this]; rfl

example : addExactQ .greg ⟨.week 1999 52 5, 23, some (119/2), none, ⟨-1, 0⟩⟩ ⟨0, 11, 30, 30⟩ =
    some ⟨.week 1999 52 6, 11, some 30, none, ⟨-1, 0⟩⟩ ∧
    cmpQ .greg ⟨.week 1999 52 6, 11, some 30, none, ⟨-1, 0⟩⟩ ⟨.cal 2000 1 1, 25/2, none, none, ⟨0, 0⟩⟩ = some 0 := by
  decide +kernel

/-- The sign of `a - b` agrees with the comparison. -/
theorem C02_sub_sign_rat (m : Mode) (a b : TPQ) (ha : a.Valid m) (hb : b.Valid m) :
    ∃ d, subTPQ m a b = some d ∧ cmpQ m a b = some (sgnQ d.seconds) := by
  obtain ⟨d, e, hl, _⟩ := C04_sub_rat m a b ha hb
  exact ⟨d, e, by rw [cmpQ_spec m a b ha hb, hl]⟩

example : cmpQ .greg ⟨.week 1999 52 5, 23, some (119/2), none, ⟨-1, 0⟩⟩ ⟨.cal 2000 1 1, 25/2, none, none, ⟨0, 0⟩⟩ =
    some (sgnQ (DurQ.seconds ⟨0, -11, -30, -30⟩)) := by decide +kernel

/-- The re-zoned value compares equal to the original (both operand orders), hashes equal, and
    their difference has length zero. -/
theorem C06_equal_hash_diff_rat (m : Mode) (p : TPQ) (z : TZ) (hv : p.Valid m) (hz : z.Valid) :
    ∃ q d, toTimeZoneQ m p z = some q ∧ cmpQ m q p = some 0 ∧ cmpQ m p q = some 0 ∧
      hashKeyQ m q = hashKeyQ m p ∧ (hashKeyQ m p).isSome ∧ subTPQ m q p = some d ∧ d.seconds = 0 := by
  obtain ⟨q, e, hi, _, vq, _⟩ := toTimeZoneQ_spec m p z hv hz
  obtain ⟨d, e', hl, _⟩ := C04_sub_rat m q p vq hv
  have z1 : q.inst m - p.inst m = 0 := by rw [hi]; grind
  have z2 : p.inst m - q.inst m = 0 := by rw [hi]; grind
  refine ⟨q, d, e, ?_, ?_, ?_, ?_, e', by rw [hl, z1]⟩
  · rw [cmpQ_spec m q p vq hv, z1]; rfl
  · rw [cmpQ_spec m p q hv vq, z2]; rfl
  · exact (hashKeyQ_eq_of_inst_eq m q p vq hv hi).1
  · exact (hashKeyQ_eq_of_inst_eq m p q hv vq hi.symm).2

example : subTPQ .greg ⟨.week 2020 53 3, 1727/120, none, none, ⟨-99, -59⟩⟩ ⟨.week 2021 1 1, 1/8, none, none, ⟨5, 45⟩⟩ =
    some ⟨0, 0, 0, 0⟩ := by decide +kernel

/-! ## The rational model extends the whole-second model -/

/-- `to_time_zone` on a whole-second point: the integer model's answer. -/
theorem C06_to_time_zone_rat_extends_int (m : Mode) (p : TP) (z : TZ) :
    toTimeZoneQ m (TPQ.ofTP p) z = (toTimeZone m p z).map TPQ.ofTP := toTimeZoneQ_ofTP m p z

example : toTimeZoneQ .greg (TPQ.ofTP ⟨.week 2021 1 1, 0, 10, 0, ⟨5, 45⟩⟩) ⟨-99, -59⟩ =
    some (TPQ.ofTP ⟨.week 2020 53 3, 14, 26, 0, ⟨-99, -59⟩⟩) := by decide +kernel

/-- `_cmp` on whole-second points: the integer model's answer. -/
theorem C02_cmp_rat_extends_int (m : Mode) (a b : TP) :
    cmpQ m (TPQ.ofTP a) (TPQ.ofTP b) = cmp m a b := cmpQ_ofTP m a b

example : cmpQ .greg (TPQ.ofTP ⟨.cal 2000 12 31, 24, 0, 0, ⟨0, 0⟩⟩) (TPQ.ofTP ⟨.cal 2001 1 1, 1, 0, 0, ⟨1, 0⟩⟩) =
    some 0 := by decide +kernel

/-- The hash tuple of a whole-second point: the integer model's, entry by entry. -/
theorem C02_hash_rat_extends_int (m : Mode) (p : TP) :
    hashKeyQ m (TPQ.ofTP p) = (hashKey m p).map (List.map fun (x : Int) => (x : Rat)) :=
  hashKeyQ_ofTP m p

example : hashKeyQ .greg (TPQ.ofTP ⟨.cal 2000 12 31, 24, 0, 0, ⟨0, 0⟩⟩) = some [2001, 1, 1, 0, 0, 0] := by
  decide +kernel

/-- `a - b` on whole-second points: the integer model's duration, slot by slot. -/
theorem C04_sub_rat_extends_int (m : Mode) (a b : TP) :
    subTPQ m (TPQ.ofTP a) (TPQ.ofTP b) = (subTP m a b).map durQOf := subTPQ_ofTP m a b

example : subTPQ .greg (TPQ.ofTP ⟨.week 2020 53 7, 0, 0, 0, ⟨5, 30⟩⟩) (TPQ.ofTP ⟨.ord 1999 1, 12, 0, 0, ⟨0, 0⟩⟩) =
    some ⟨8037, 6, 30, 0⟩ := by decide +kernel

end IsoDT.Props.C02
