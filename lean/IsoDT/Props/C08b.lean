/-
  C08 (decimal forms) — writing a time point with a decimal hour, minute or second out and reading it
  back is lossless.

  `Props/C08` proves the round trip for whole-second points.  Here the point carries a decimal
  fraction on its last given unit (`DTP`: `hh,ds` / `hh:mm,ds` / `hh:mm:ss,ds`, the lower units
  absent), of at most the dumper's six digits.  `_get_dump_format` chooses `Thh,ii` / `Thh:mm,nn` /
  `Thh:mm:ss,tt`, and `_decimal_string` prints the fraction without its trailing zeros (at least one
  digit); a decimal SECOND whose fraction is zero prints no fraction at all (`Thh:mm:ss`).  So the
  text read back is the point with its fraction as printed — the same field values, the fraction the
  same NUMBER — and, in the zero-fraction decimal-second case, the whole-second point.
  Definitions and proofs: `Lemmas/TextRoundDec`.
-/
import IsoDT.Props.C08
import IsoDT.Lemmas.TextRoundDec

namespace IsoDT.Props.C08
open IsoDT IsoDT.Text
open IsoDT.Spec (Date TZ TP)

/-! ## The specified text, spelled out -/

/-- The time part of `decText`: two-digit units, `,`, the fraction without trailing zeros; nothing
    after the seconds when a decimal second's fraction is zero. -/
def dtimeText : DTime → List Char
  | .hour hh ds => renderNat 2 hh.toNat ++ ',' :: stripZeros ds
  | .minute hh mi ds => renderNat 2 hh.toNat ++ ':' :: (renderNat 2 mi.toNat ++ ',' :: stripZeros ds)
  | .second hh mi ss ds =>
    renderNat 2 hh.toNat ++ ':' :: (renderNat 2 mi.toNat ++ ':' :: (renderNat 2 ss.toNat ++
      (if fracZero ds then [] else ',' :: stripZeros ds)))

/-- `decText` is the date of `stdText`, `T`, `dtimeText`, the zone of `stdText`. -/
theorem C08_decText_shape (ned : Nat) (d : DTP) :
    decText ned d = trender (dateTmpl ned d.date) (dateEnv ned d.date) ++
      'T' :: (dtimeText d.time ++ trender (zoneTmpl d.tz) (zoneEnv d.tz)) := by
  obtain ⟨date, time, tz⟩ := d
  cases time with
  | hour hh ds => simp [decText, dtimeText, dtimeTmpl, dtimeEnv, trender]
  | minute hh mi ds => simp [decText, dtimeText, dtimeTmpl, dtimeEnv, trender]
  | second hh mi ss ds =>
    cases hf : fracZero ds <;> simp [decText, dtimeText, dtimeTmpl, dtimeEnv, timeTmpl, trender, hf]

example : dtimeText (.minute 7 5 "0250".toList) = "07:05,025".toList := by decide +kernel
example : dtimeText (.second 7 5 9 "00".toList) = "07:05:09".toList := by decide +kernel

/-! ## The round trip -/

/-- **C08 (writing, decimal forms)**: for every valid point `d` with a decimal hour, minute or second
    — calendar, ordinal or week representation, any calendar mode, any legal UTC offset, hour 24 with
    a zero fraction included — whose fraction is a non-empty string of at most six digits and whose
    year the agreed expanded digits can spell, `str(d)` is exactly the specified text `decText ned d`:
    the date and zone as for whole-second points, the time `hh,F` / `hh:mm,F` / `hh:mm:ss,F` with `F`
    the fraction without trailing zeros — and plain `hh:mm:ss` for a decimal second whose fraction is
    zero. -/
theorem C08_str_decimal (m : Mode) (ned : Nat) (hned : ned = 0 ∨ ned = 2 ∨ ned = 3) (d : DTP)
    (hv : d.Valid m) (hy : YearInRange ned (dateYear d.date)) :
    str m (d.toXTP ned) = .ok (decText ned d) := str_eq_decText m ned hned d hv hy

example : str .greg (DTP.toXTP 2 ⟨.week (-396) 53 7, .hour 24 "000".toList, ⟨0, -30⟩⟩) =
    .ok "-000396-W53-7T24,0-00:30".toList := by
  rw [C08_str_decimal .greg 2 (by decide) _ (by decide +kernel) (by decide +kernel)]
  decide +kernel

/-- **C08 (reading, decimal forms)**: a parser with the matching number of expanded year digits and
    extended notation allowed — whatever its `allow_truncated` setting and default-zone configuration —
    decodes that text to `d.reparsed`: `d` itself with its fraction as printed (`C08_reparsed_fields`:
    every field equal, the fraction equal as a number), the whole-second point when `d` is a decimal
    second with a zero fraction. -/
theorem C08_parse_decimal (cfg : Cfg) (hpt : cfg.pt ∈ Gen.Templates.parserTables)
    (hb : cfg.pt.basicOnly = false) (d : DTP) (hv : d.Valid cfg.mode)
    (hy : YearInRange cfg.pt.ned (dateYear d.date)) :
    parse cfg (decText cfg.pt.ned d) false = some (d.reparsed cfg.pt.ned) :=
  parse_decText cfg hpt hb d hv hy

example : parse ⟨Gen.Templates.parser_0_all, true, .unknown, .greg⟩
      (decText 0 ⟨.cal 2000 2 29, .minute 23 59 "9990".toList, ⟨5, 30⟩⟩) false =
    some (DTP.toXTP 0 ⟨.cal 2000 2 29, .minute 23 59 "999".toList, ⟨5, 30⟩⟩) :=
  C08_parse_decimal ⟨Gen.Templates.parser_0_all, true, .unknown, .greg⟩ (.head _) rfl
    ⟨.cal 2000 2 29, .minute 23 59 "9990".toList, ⟨5, 30⟩⟩ (by decide +kernel) (by decide +kernel)

/-! ## What is read back is the same point -/

/-- A zero fraction has the value 0. -/
theorem fracValue_of_fracZero (s : List Char) (h : fracZero s = true) : fracValue s = 0 := by
  have hs := (sig_eq_nil_iff s).mpr h
  obtain ⟨k, hk⟩ := sig_decomp s
  rw [hs, List.nil_append] at hk
  have h0 : digitsVal s = 0 := by
    have := digitsVal_zeros [] k
    rw [List.nil_append, ← hk] at this
    rw [this]; simp [digitsVal]
  unfold fracValue
  rw [Rat.mkRat_eq_zero (Nat.ne_of_gt (Nat.pow_pos (by decide)))]
  simp [h0]

/-- The fraction read back against the fraction written: printed without trailing zeros; a decimal
    second's zero fraction is dropped. -/
def fracBack (dropZero : Bool) : Option (List Char) → Option (List Char)
  | none => none
  | some ds => if dropZero && fracZero ds then none else some (stripZeros ds)

/-- The same number (an absent fraction is 0). -/
theorem fracBack_value (b : Bool) (f : Option (List Char)) :
    ((fracBack b f).map fracValue).getD 0 = (f.map fracValue).getD 0 := by
  cases f with
  | none => rfl
  | some ds =>
    cases b
    · simp [fracBack, fracValue_stripZeros]
    · cases hf : fracZero ds
      · simp [fracBack, hf, fracValue_stripZeros]
      · simp [fracBack, hf, fracValue_of_fracZero ds hf]

/-- **C08 (decimal forms, the point read back)**: `d.reparsed` has exactly the fields of `d` — number
    of expanded digits, year, month, day, ordinal day, week, weekday (so the same date representation),
    hour, minute, second (present or absent alike), offset, not truncated, zone known, no dump format —
    and each fraction is the written fraction as printed, i.e. the same number (`fracBack_value`). -/
theorem C08_reparsed_fields (ned : Nat) (d : DTP) :
    (d.reparsed ned).ned = (d.toXTP ned).ned ∧ (d.reparsed ned).year = (d.toXTP ned).year ∧
    (d.reparsed ned).month = (d.toXTP ned).month ∧ (d.reparsed ned).day = (d.toXTP ned).day ∧
    (d.reparsed ned).doy = (d.toXTP ned).doy ∧ (d.reparsed ned).week = (d.toXTP ned).week ∧
    (d.reparsed ned).dow = (d.toXTP ned).dow ∧ (d.reparsed ned).hour = (d.toXTP ned).hour ∧
    (d.reparsed ned).minute = (d.toXTP ned).minute ∧ (d.reparsed ned).second = (d.toXTP ned).second ∧
    (d.reparsed ned).tz = (d.toXTP ned).tz ∧ (d.reparsed ned).tzUnknown = (d.toXTP ned).tzUnknown ∧
    (d.reparsed ned).truncated = (d.toXTP ned).truncated ∧
    (d.reparsed ned).truncProp = (d.toXTP ned).truncProp ∧
    (d.reparsed ned).dumpFmt = (d.toXTP ned).dumpFmt ∧
    (d.reparsed ned).hourDec = fracBack false (d.toXTP ned).hourDec ∧
    (d.reparsed ned).minuteDec = fracBack false (d.toXTP ned).minuteDec ∧
    (d.reparsed ned).secondDec = fracBack true (d.toXTP ned).secondDec := by
  obtain ⟨date, time, tz⟩ := d
  cases time with
  | hour hh ds => cases date <;> simp [DTP.reparsed, DTP.norm, DTime.norm, DTP.toXTP, XTP.withTime, fracBack]
  | minute hh mi ds =>
    cases date <;> simp [DTP.reparsed, DTP.norm, DTime.norm, DTP.toXTP, XTP.withTime, fracBack]
  | second hh mi ss ds =>
    cases hf : fracZero ds
    · cases date <;> simp [DTP.reparsed, DTP.norm, DTime.norm, DTP.toXTP, XTP.withTime, fracBack, hf]
    · cases date <;>
        simp [DTP.reparsed, DTP.toXTP, XTP.withTime, dateBase, XTP.ofTP, fracBack, hf]

/-- `d.reparsed` is the text-layer value of a point of the same kind whenever a fraction is printed,
    and the whole-second point of `Props/C08` otherwise. -/
theorem C08_reparsed_cases (ned : Nat) (d : DTP) :
    (d.whole = none ∧ d.reparsed ned = d.norm.toXTP ned) ∨
    (∃ p, d.whole = some p ∧ d.reparsed ned = XTP.ofTP ned p ∧ decText ned d = stdText ned p) := by
  cases hw : d.whole with
  | none => exact Or.inl ⟨rfl, reparsed_of_not_whole ned d hw⟩
  | some p =>
    obtain ⟨h1, h2, _⟩ := reparsed_of_whole ned d p hw
    exact Or.inr ⟨p, rfl, h1, h2⟩

example : (DTP.reparsed 0 ⟨.cal 2000 2 29, .second 24 0 0 "000".toList, ⟨1, 0⟩⟩) =
    XTP.ofTP 0 ⟨.cal 2000 2 29, 24, 0, 0, ⟨1, 0⟩⟩ := by decide +kernel
example : (DTP.reparsed 0 ⟨.cal 2000 2 29, .second 23 0 0 "0100".toList, ⟨1, 0⟩⟩) =
    DTP.toXTP 0 ⟨.cal 2000 2 29, .second 23 0 0 "01".toList, ⟨1, 0⟩⟩ := by decide +kernel
example : fracValue "0100".toList = fracValue "01".toList := fracValue_stripZeros "0100".toList

/-- **C08 (round trip, decimal forms)**: writing a valid point with a decimal hour, minute or second of
    at most six digits out and reading it back is lossless, and `str` is a fixpoint: `str(d)` succeeds
    with the specified text, `parse(text)` is the point `d.reparsed` — the same representation, offset
    and field values, the fraction the same number (`C08_reparsed_fields`, `fracBack_value`) — and `str`
    of that point is the same text again; for all three date representations, expanded and negative
    years, hour 24 with a zero fraction, every UTC offset, every calendar mode, every parser
    default-zone / truncation setting. -/
theorem C08_roundtrip_decimal (cfg : Cfg) (hpt : cfg.pt ∈ Gen.Templates.parserTables)
    (hb : cfg.pt.basicOnly = false) (d : DTP) (hv : d.Valid cfg.mode)
    (hy : YearInRange cfg.pt.ned (dateYear d.date)) :
    ∃ text q, str cfg.mode (d.toXTP cfg.pt.ned) = .ok text ∧ text = decText cfg.pt.ned d ∧
      parse cfg text false = some q ∧ q = d.reparsed cfg.pt.ned ∧ str cfg.mode q = .ok text := by
  have hned := tables_ned cfg.pt hpt
  exact ⟨decText cfg.pt.ned d, d.reparsed cfg.pt.ned, C08_str_decimal cfg.mode cfg.pt.ned hned d hv hy, rfl,
    C08_parse_decimal cfg hpt hb d hv hy, rfl, str_reparsed cfg.mode cfg.pt.ned hned d hv hy⟩

/-- Non-vacuity: the round trip at a week date in year -396, decimal second 23:59:59,0250, offset
    -00:30, two expanded digits, a parser that allows truncated forms and assumes +05:30. -/
example : ∃ text q,
    str .greg (DTP.toXTP 2 ⟨.week (-396) 53 7, .second 23 59 59 "0250".toList, ⟨0, -30⟩⟩) = .ok text ∧
    text = "-000396-W53-7T23:59:59,025-00:30".toList ∧
    parse ⟨Gen.Templates.parser_2_all, true, .assumed 5 30, .greg⟩ text false = some q ∧
    q = DTP.toXTP 2 ⟨.week (-396) 53 7, .second 23 59 59 "025".toList, ⟨0, -30⟩⟩ ∧
    str .greg q = .ok text := by
  obtain ⟨text, q, h1, h2, h3, h4, h5⟩ :=
    C08_roundtrip_decimal ⟨Gen.Templates.parser_2_all, true, .assumed 5 30, .greg⟩
      (.tail _ (.tail _ (.head _))) rfl
      ⟨.week (-396) 53 7, .second 23 59 59 "0250".toList, ⟨0, -30⟩⟩ (by decide +kernel) (by decide +kernel)
  exact ⟨text, q, h1, h2.trans (by decide +kernel), h3, h4.trans (by decide +kernel), h5⟩

/-- … and at the zero-fraction decimal second 24:00:00,000: printed `24:00:00`, read back as the
    whole-second point. -/
example : ∃ text q,
    str .d360 (DTP.toXTP 0 ⟨.cal 2000 2 30, .second 24 0 0 "000".toList, ⟨0, 0⟩⟩) = .ok text ∧
    text = "2000-02-30T24:00:00Z".toList ∧
    parse ⟨Gen.Templates.parser_0_all, false, .unknown, .d360⟩ text false = some q ∧
    q = XTP.ofTP 0 ⟨.cal 2000 2 30, 24, 0, 0, ⟨0, 0⟩⟩ ∧ str .d360 q = .ok text := by
  obtain ⟨text, q, h1, h2, h3, h4, h5⟩ :=
    C08_roundtrip_decimal ⟨Gen.Templates.parser_0_all, false, .unknown, .d360⟩ (.head _) rfl
      ⟨.cal 2000 2 30, .second 24 0 0 "000".toList, ⟨0, 0⟩⟩ (by decide +kernel) (by decide +kernel)
  exact ⟨text, q, h1, h2.trans (by decide +kernel), h3, h4.trans (by decide +kernel), h5⟩

/-- … and at the corners of the other two forms: decimal hour 24 with a zero fraction (`T24,0`), and a
    decimal minute whose fraction is zero (`T12:30,0`: here the fraction is kept, as one `0`). -/
example : ∃ text q,
    str .d366 (DTP.toXTP 3 ⟨.ord 1234567 366, .hour 24 "00".toList, ⟨-12, -45⟩⟩) = .ok text ∧
    text = "+1234567-366T24,0-12:45".toList ∧
    parse ⟨Gen.Templates.parser_3_all, true, .localOffset 1 0, .d366⟩ text false = some q ∧
    q = DTP.toXTP 3 ⟨.ord 1234567 366, .hour 24 "0".toList, ⟨-12, -45⟩⟩ ∧ str .d366 q = .ok text := by
  obtain ⟨text, q, h1, h2, h3, h4, h5⟩ :=
    C08_roundtrip_decimal ⟨Gen.Templates.parser_3_all, true, .localOffset 1 0, .d366⟩
      (.tail _ (.tail _ (.tail _ (.tail _ (.head _))))) rfl
      ⟨.ord 1234567 366, .hour 24 "00".toList, ⟨-12, -45⟩⟩ (by decide +kernel) (by decide +kernel)
  exact ⟨text, q, h1, h2.trans (by decide +kernel), h3, h4.trans (by decide +kernel), h5⟩

example : ∃ text q,
    str .greg (DTP.toXTP 0 ⟨.cal 1999 12 31, .minute 12 30 "000".toList, ⟨0, 0⟩⟩) = .ok text ∧
    text = "1999-12-31T12:30,0Z".toList ∧
    parse ⟨Gen.Templates.parser_0_all, false, .unknown, .greg⟩ text false = some q ∧
    q = DTP.toXTP 0 ⟨.cal 1999 12 31, .minute 12 30 "0".toList, ⟨0, 0⟩⟩ ∧ str .greg q = .ok text := by
  obtain ⟨text, q, h1, h2, h3, h4, h5⟩ :=
    C08_roundtrip_decimal ⟨Gen.Templates.parser_0_all, false, .unknown, .greg⟩ (.head _) rfl
      ⟨.cal 1999 12 31, .minute 12 30 "000".toList, ⟨0, 0⟩⟩ (by decide +kernel) (by decide +kernel)
  exact ⟨text, q, h1, h2.trans (by decide +kernel), h3, h4.trans (by decide +kernel), h5⟩

/-! ## Outside the domain -/

/-- Hour 24 with a non-zero fraction is not a time point (`_check_bounds`), in any of the three forms:
    the hypothesis `hh = 24 → fracZero ds` of `DTime.Valid` is needed.  Likewise a fraction of more
    than six digits is rounded by `_decimal_string`, so the text no longer spells the point. -/
theorem C08_decimal_out_of_domain_examples :
    checkBounds .greg (DTP.toXTP 0 ⟨.cal 2000 1 1, .hour 24 "5".toList, ⟨0, 0⟩⟩) = false ∧
    checkBounds .greg (DTP.toXTP 0 ⟨.cal 2000 1 1, .minute 24 0 "5".toList, ⟨0, 0⟩⟩) = false ∧
    checkBounds .greg (DTP.toXTP 0 ⟨.cal 2000 1 1, .second 24 0 0 "5".toList, ⟨0, 0⟩⟩) = false ∧
    str .greg (DTP.toXTP 0 ⟨.cal 2000 1 1, .hour 12 "1234567".toList, ⟨0, 0⟩⟩) =
      .ok "2000-01-01T12,123457Z".toList := by decide +kernel

end IsoDT.Props.C08
