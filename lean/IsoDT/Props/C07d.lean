/-
  C07 (last sentence) — "When truncated forms are enabled, every truncated date and time form likewise
  decodes to exactly the fields it spells (reported as its truncated properties, zone unknown unless
  given) and is reproduced by dump_as_parsed."

  The truncated tables are those of `Gen.Templates` (regenerated from the regexes the live parser
  compiled): the date forms `-YYMM`, `-YY`, `--MMDD`, `--MM`, `---DD`, `YYMMDD`, `YYDDD`, `-DDD`, `YYWwwD`,
  `YYWww`, `-zWwwD`, `-zWww`, `-WwwD`, `-Www`, `-W-D` and their extended spellings, and the time forms
  `-mmss`, `-mm`, `--ss` with an optional decimal fraction (comma or point) and their extended spellings.
  The combinations (DESIGN §9 "C07 ambiguity"): a truncated date alone; a truncated date, `T`, a time
  form and a zone form or none, where a TRUNCATED time form needs a date that carries the truncation
  marker (leading hyphen); and no date at all (`T…`) with any time form.  After a truncated date the
  parser excludes no format, so basic and extended times and zones are all covered.

  `Lemmas/TextTruncInfo` proves the REGEX half (`get_info` returns exactly the rendered groups — no
  other form of the try-order pre-empts a truncated form: `C07_overlaps` lists no truncated form as the
  later one of an overlap, re-checked here as `C07_truncated_first`); `Lemmas/TextTrunc` the VALUE half
  (`assemble`, `ctor`).  The specification (`TVals`, `tenvOf`, `tpointOf`) does not mention either.
-/
import IsoDT.Props.C07c
import IsoDT.Lemmas.TextTruncInfo
import IsoDT.Lemmas.TextTruncDump
import IsoDT.Model.TruncProps

namespace IsoDT.Props.C07
open IsoDT IsoDT.Text IsoDT.Model
open _root_.IsoDT.Gen.Templates (timeDesignator dateTypeOrder parserTables)

/-! ## The tables -/

set_option maxRecDepth 100000 in
/-- **C07 (truncated forms are never pre-empted)**: in every regenerated configuration no truncated date
    form is the later form of a documented overlap (`C07_overlaps`: the later forms are signed reduced
    forms), so `C07_first_match` applies to every truncated date form. -/
theorem C07_truncated_first : ∀ pt ∈ parserTables, ∀ e ∈ pt.dateEntries,
    e.typ = .truncated → isLoser pt.ned e = false := by decide +kernel

/-- **C07 (truncated tables)**: every truncated date form of every regenerated table is non-empty, is
    marked by a leading-hyphen group or has a year of century (and no century), consists of literals,
    the marker and digit groups of the documented widths (year of century 2, year of decade 1, month 2,
    day 2, day of year 3, week 2, weekday 1) and has one of the eight documented field patterns; every
    truncated time form is `-` or `--` followed by digit groups and `:`, `,`, `.`; every time form has
    one of the thirteen documented unit patterns; no time form matches the empty text or a lone `-`. -/
theorem C07_truncated_tables : parserTables.all truncTableOK = true := trunc_tables_ok

/-! ## The texts -/

/-- The regular expression of the date part: a truncated date form, or nothing (`T…`). -/
def dtmplO : Option Entry → Template
  | none => []
  | some de => de.tmpl

def dexprO : Option Entry → List Char
  | none => []
  | some de => de.expr

/-- Does the date part carry the truncation marker?  (An absent date counts as marked.) -/
def markedO : Option Entry → Bool
  | none => true
  | some de => hasGroup de.tmpl .truncated

/-- The text a truncated date form (or none), a time form and a zone form (or none) spell for `v`. -/
def truncText (dpo : Option Entry) (te : Entry) (zo : Option ZEntry) (v : TVals) : List Char :=
  trender (dtmplO dpo) (tenvOf (dtmplO dpo) v) ++
    'T' :: (trender te.tmpl (tenvOf te.tmpl v) ++ zoneText zo v.toVals)

/-- The expression text `get_info` assembles for these forms, e.g. `-YYMMT-mm,nn+hh`. -/
def truncExpr (dpo : Option Entry) (te : Entry) (zo : Option ZEntry) : List Char :=
  dexprO dpo ++ 'T' :: (te.expr ++ zexprO zo)

/-- `dump_format` / `truncated_dump_format` as `parse` sets them. -/
def dumpOf (asParsed : Bool) (expr : List Char) : Option (List Char) := if asParsed then some expr else none

/-! ## Decoding -/

/-- **C07 (truncated decode)**: for every regenerated configuration with truncated forms enabled, every
    truncated date form or no date, every time form (a truncated one only after a marked or absent
    date), every zone form or none, and every assignment of values that fit the group widths: parsing
    the text the forms spell is an error if `TimeZone(...)` rejects the resolved zone or
    `_check_bounds` rejects the point, and otherwise exactly the truncated point `tpointOf`: each field
    present iff its group is, with the spelled value, nothing defaulted, `truncated`, the year (if any)
    the year of century / of decade alone, the zone as `zoneOf` says — unknown iff no zone is spelled and
    the parser defaults to unknown — and, with `dump_as_parsed`, the expression text as dump format. -/
theorem C07_truncated_decode (cfg : Cfg) (hpt : cfg.pt ∈ parserTables) (hat : cfg.allowTruncated = true)
    (dpo : Option Entry) (hdp : ∀ de, dpo = some de → de ∈ cfg.pt.dateEntries ∧ de.typ = .truncated)
    (te : Entry) (hte : te ∈ cfg.pt.timeEntries) (htm : te.typ = .truncated → markedO dpo = true)
    (zo : Option ZEntry) (hzo : ∀ ze, zo = some ze → ze ∈ cfg.pt.zoneEntries)
    (v : TVals) (hv : v.Fit cfg.pt.ned) (asParsed : Bool) :
    parse cfg (truncText dpo te zo v) asParsed =
      match mkTZ cfg.mode ((zoneOf cfg.zone (zo.map (·.tmpl)) v.toVals).hour.getD 0)
          ((zoneOf cfg.zone (zo.map (·.tmpl)) v.toVals).minute.getD 0) with
      | none => none
      | some tz =>
        if checkBounds cfg.mode (tpointOf (dtmplO dpo) te.tmpl v tz
            (unknownOf (zoneOf cfg.zone (zo.map (·.tmpl)) v.toVals)) (dumpOf asParsed (truncExpr dpo te zo))) then
          some (tpointOf (dtmplO dpo) te.tmpl v tz
            (unknownOf (zoneOf cfg.zone (zo.map (·.tmpl)) v.toVals)) (dumpOf asParsed (truncExpr dpo te zo)))
        else none := by
  have tf := tableFacts cfg.pt hpt
  have uf := truncFacts cfg.pt hpt
  have df := decodeFacts cfg.pt hpt
  obtain ⟨_, _, hti, hts⟩ := uf.times te hte
  have hft := fits_tenvOf cfg.pt.ned te.tmpl (tf.times te hte).1 hti v hv
  -- the date part
  have hdi : (dtmplO dpo).all tItemOK = true := by
    cases dpo with
    | none => rfl
    | some de => exact (uf.dates de (hdp de rfl).1 (hdp de rfl).2).2.2.1
  have hds : tdateShapeOK (dtmplO dpo) = true := by
    cases dpo with
    | none => decide
    | some de => exact (uf.dates de (hdp de rfl).1 (hdp de rfl).2).2.2.2
  have htr : markedO dpo = true ∨ hasGroup (dtmplO dpo) .yearOfCentury = true := by
    cases dpo with
    | none => exact Or.inl rfl
    | some de => exact (uf.dates de (hdp de rfl).1 (hdp de rfl).2).2.1
  have key := getInfo_trunc cfg hpt hat (dpo.map fun de => (de, tenvOf de.tmpl v))
    (by
      intro de denv h
      cases dpo with
      | none => cases h
      | some d =>
        simp only [Option.map_some, Option.some.injEq, Prod.mk.injEq] at h
        obtain ⟨rfl, rfl⟩ := h
        obtain ⟨h1, h2⟩ := hdp d rfl
        exact ⟨h1, h2, fits_tenvOf cfg.pt.ned d.tmpl (tf.dates d h1).1 (uf.dates d h1 h2).2.2.1 v hv⟩)
    te hte
    (by intro h; have := htm h; cases dpo <;> exact this)
    (zo.map fun ze => (ze, envOf ze.tmpl v.toVals))
    (by
      intro ze zenv h
      cases zo with
      | none => cases h
      | some z =>
        simp only [Option.map_some, Option.some.injEq, Prod.mk.injEq] at h
        obtain ⟨rfl, rfl⟩ := h
        have h1 := hzo z rfl
        have hz := df.zones z h1
        simp only [zoneOK, Bool.and_eq_true] at hz
        exact ⟨h1, fits_envOf cfg.pt.ned z.tmpl (tf.zones z h1).1 hz.1 v.toVals hv.1⟩)
    (tenvOf te.tmpl v) hft
  have hzone : processZone cfg.zone (zoneEnvOf (zo.map fun ze => (ze, envOf ze.tmpl v.toVals))) =
      some (zoneOf cfg.zone (zo.map (·.tmpl)) v.toVals) := by
    cases zo with
    | none => exact processZone_none cfg.zone v.toVals
    | some z => exact processZone_envOf cfg.pt.ned cfg.zone z.tmpl (df.zones z (hzo z rfl)) v.toVals hv.1
  have htext : zoneTextOf (zo.map fun ze => (ze, envOf ze.tmpl v.toVals)) = zoneText zo v.toVals := by
    cases zo <;> rfl
  have hexpr : zoneExprOf (zo.map fun ze => (ze, envOf ze.tmpl v.toVals)) = zexprO zo := by
    cases zo <;> rfl
  have hdt : dpText (dpo.map fun de => (de, tenvOf de.tmpl v)) =
      trender (dtmplO dpo) (tenvOf (dtmplO dpo) v) := by cases dpo <;> rfl
  have hde : dpEnv (dpo.map fun de => (de, tenvOf de.tmpl v)) = tenvOf (dtmplO dpo) v := by
    cases dpo <;> rfl
  have hdx : dpExpr (dpo.map fun de => (de, tenvOf de.tmpl v)) = dexprO dpo := by cases dpo <;> rfl
  have hdm : dpMarker (dpo.map fun de => (de, tenvOf de.tmpl v)) = markedO dpo := by cases dpo <;> rfl
  rw [hzone, htext, hexpr, hdt, hde, hdx, hdm] at key
  simp only [Option.map_some] at key
  unfold parse truncText
  rw [show ('T' : Char) = timeDesignator from rfl, key]
  simp only []
  rw [assemble_tenvOf cfg (dtmplO dpo) te.tmpl (markedO dpo) _ _ v _ hdi hti htr hv]
  simp only []
  rw [ctor_targsOf cfg.mode (dtmplO dpo) te.tmpl _ v _ hds hts]
  cases asParsed <;> rfl

theorem truncated_mem_types_all : TypeKey.truncated ∈ dateTypes true [] := by decide

/-- **C07 (truncated decode, date alone)**: likewise for a text that is one truncated date form: no time
    group at all, the missing zone resolved by the parser's configuration (unknown when it defaults to
    unknown).  No earlier form of the try-order catches the text (`C07_first_match` with
    `C07_truncated_first`). -/
theorem C07_truncated_decode_date (cfg : Cfg) (hpt : cfg.pt ∈ parserTables)
    (hat : cfg.allowTruncated = true) (de : Entry) (hde : de ∈ cfg.pt.dateEntries)
    (hdt : de.typ = .truncated) (v : TVals) (hv : v.Fit cfg.pt.ned) (asParsed : Bool) :
    parse cfg (trender de.tmpl (tenvOf de.tmpl v)) asParsed =
      match mkTZ cfg.mode ((zoneOf cfg.zone none v.toVals).hour.getD 0)
          ((zoneOf cfg.zone none v.toVals).minute.getD 0) with
      | none => none
      | some tz =>
        if checkBounds cfg.mode (tpointOf de.tmpl [] v tz (unknownOf (zoneOf cfg.zone none v.toVals))
            (dumpOf asParsed de.expr)) then
          some (tpointOf de.tmpl [] v tz (unknownOf (zoneOf cfg.zone none v.toVals)) (dumpOf asParsed de.expr))
        else none := by
  have tf := tableFacts cfg.pt hpt
  have uf := truncFacts cfg.pt hpt
  obtain ⟨_, htr, hdi, hds⟩ := uf.dates de hde hdt
  have hmem : de ∈ dateOrder cfg.pt (dateTypes cfg.allowTruncated []) := by
    rw [hat]
    exact mem_dateOrder _ _ de hde (tf.dates de hde).2.2 (hdt ▸ truncated_mem_types_all)
  have hfd := fits_tenvOf cfg.pt.ned de.tmpl (tf.dates de hde).1 hdi v hv
  have key := C07_groups_date cfg hpt de hmem (Or.inr (C07_truncated_first cfg.pt hpt de hde hdt))
    (tenvOf de.tmpl v) hfd
  rw [processZone_none cfg.zone v.toVals, has_tenvOf] at key
  simp only [Option.map_some] at key
  have ha := assemble_tenvOf cfg de.tmpl [] (hasGroup de.tmpl .truncated) (zoneOf cfg.zone none v.toVals)
    de.expr v (if asParsed then some de.expr else none) hdi rfl htr hv
  rw [show tenvOf [] v = [] from rfl] at ha
  unfold parse
  rw [key]
  simp only []
  rw [ha]
  simp only []
  rw [ctor_targsOf cfg.mode de.tmpl [] _ v _ hds (by decide)]
  rfl

/-! ## The decoded point, field by field -/

/-- **C07 (truncated properties)**: the truncated point carries exactly the spelled fields — each date
    and time field is present iff the form has its group, with the spelled value; nothing is defaulted
    (no month 1, day 1, hour 0 …); the year is the year of century or of decade alone, and
    `truncated_property` names which; a decimal fraction stays on the unit it was spelled on; the point
    is `truncated`, has no expanded year digits, and its zone is `unknown` exactly as `unk` says. -/
theorem C07_truncated_fields (de te : Template) (v : TVals) (tz : Spec.TZ) (unk : Bool)
    (dump : Option (List Char)) :
    let p := tpointOf de te v tz unk dump
    p.truncated = true ∧ p.ned = 0 ∧
    p.year = (if hasGroup de .yearOfCentury || hasGroup de .yearOfDecade then
      some (((if hasGroup de .yearOfDecade then v.z else 0) +
        (if hasGroup de .yearOfCentury then v.yy else 0) : Nat) : Int) else none) ∧
    p.truncProp = (if hasGroup de .yearOfDecade then some .yearOfDecade
      else if hasGroup de .yearOfCentury then some .yearOfCentury else none) ∧
    p.month = (if hasGroup de .monthOfYear then some (v.month : Int) else none) ∧
    p.day = (if hasGroup de .dayOfMonth then some (v.day : Int) else none) ∧
    p.doy = (if hasGroup de .dayOfYear then some (v.doy : Int) else none) ∧
    p.week = (if hasGroup de .weekOfYear then some (v.week : Int) else none) ∧
    p.dow = (if hasGroup de .dayOfWeek then some (v.dow : Int) else none) ∧
    p.hour = (if hasGroup te .hourOfDay then some (v.hour : Int) else none) ∧
    p.minute = (if hasGroup te .minuteOfHour then some (v.minute : Int) else none) ∧
    p.second = (if hasGroup te .secondOfMinute then some (v.second : Int) else none) ∧
    p.hourDec = (if hasGroup te .hourDec then some v.hourDec else none) ∧
    p.minuteDec = (if hasGroup te .minuteDec then some v.minuteDec else none) ∧
    p.secondDec = (if hasGroup te .secondDec then some v.secondDec else none) ∧
    p.tz = tz ∧ p.tzUnknown = unk ∧ p.dumpFmt = dump :=
  ⟨rfl, rfl, rfl, rfl, rfl, rfl, rfl, rfl, rfl, rfl, rfl, rfl, rfl, rfl, rfl, rfl, rfl, rfl⟩

/-- The dict the documented semantics prescribes for `get_truncated_properties()`: the year of decade or
    of century, then each spelled date and time field with its spelled value (a decimal fraction with
    its unit), in the method's order; nothing else. -/
def spelledProps (de te : Template) (v : TVals) : List TPropEntry :=
  (if hasGroup de .yearOfDecade then [(TPropKey.yearOfDecade, (v.z : Int), none)] else []) ++
  (if hasGroup de .yearOfCentury && !hasGroup de .yearOfDecade then
    [(TPropKey.yearOfCentury, (v.yy : Int), none)] else []) ++
  (if hasGroup de .monthOfYear then [(TPropKey.monthOfYear, (v.month : Int), none)] else []) ++
  (if hasGroup de .weekOfYear then [(TPropKey.weekOfYear, (v.week : Int), none)] else []) ++
  (if hasGroup de .dayOfYear then [(TPropKey.dayOfYear, (v.doy : Int), none)] else []) ++
  (if hasGroup de .dayOfMonth then [(TPropKey.dayOfMonth, (v.day : Int), none)] else []) ++
  (if hasGroup de .dayOfWeek then [(TPropKey.dayOfWeek, (v.dow : Int), none)] else []) ++
  (if hasGroup te .hourOfDay then
    [(TPropKey.hourOfDay, (v.hour : Int), if hasGroup te .hourDec then some v.hourDec else none)] else []) ++
  (if hasGroup te .minuteOfHour then
    [(TPropKey.minuteOfHour, (v.minute : Int), if hasGroup te .minuteDec then some v.minuteDec else none)]
   else []) ++
  (if hasGroup te .secondOfMinute then
    [(TPropKey.secondOfMinute, (v.second : Int), if hasGroup te .secondDec then some v.secondDec else none)]
   else [])

theorem tpropEntry_fieldOf (k : TPropKey) (t : Template) (f : Fld) (n : Nat) (d : Option (List Char)) :
    tpropEntry k (fieldOf t f n) d = if hasGroup t f then [(k, (n : Int), d)] else [] := by
  unfold fieldOf tpropEntry
  cases hasGroup t f <;> rfl

/-- **C07 (reported as its truncated properties)**: `get_truncated_properties()` of the decoded truncated
    point is exactly the dict of the spelled fields with the spelled values (`spelledProps`) — for a
    date expression that spells at most one of year of century / year of decade (every listed one:
    `tdateCheck`), and values that fit their widths. -/
theorem C07_truncated_properties (de te : Template) (v : TVals) (tz : Spec.TZ) (unk : Bool)
    (dump : Option (List Char)) (hys : tyearShapeOK de = true) (hy : v.yy < 100) (hz : v.z < 10) :
    truncatedProperties (tpointOf de te v tz unk dump) = .props (spelledProps de te v) := by
  simp only [tyearShapeOK, Bool.not_eq_true', Bool.and_eq_false_iff] at hys
  unfold truncatedProperties spelledProps
  simp only [tpointOf, tpropEntry_fieldOf, decOf, Bool.not_true, Bool.false_eq_true, if_false]
  cases hZ : hasGroup de .yearOfDecade <;> cases hY : hasGroup de .yearOfCentury
  · simp [tpropOf, tyearOf, hZ, hY]
  · have e : ((v.yy : Nat) : Int) % 100 = (v.yy : Int) := by omega
    simp [tpropOf, tyearOf, hZ, hY, e]
  · have e : ((v.z : Nat) : Int) % 10 = (v.z : Int) := by omega
    simp [tpropOf, tyearOf, hZ, hY, e]
  · rcases hys with h | h
    · rw [hY] at h; cases h
    · rw [hZ] at h; cases h

/-- **C07 (zone unknown unless given)**: the zone of the decoded truncated point is unknown iff the text
    spells no zone and the parser defaults to an unknown zone (`default_to_unknown_time_zone`; the
    stored offset is then `+00:00`); a spelled zone is never unknown; with an assumed zone or the local
    zone the point gets that zone. -/
theorem C07_truncated_zone (zd : ZoneDefault) (zt : Option Template) (v : Vals) :
    unknownOf (zoneOf zd zt v) = (zt.isNone && decide (zd = .unknown)) ∧
    (zt = none → zd = .unknown → zoneOf zd zt v = ⟨none, none⟩) ∧
    (zt = none → ∀ h mi, zd = .assumed h mi ∨ zd = .localOffset h mi → zoneOf zd zt v = ⟨some h, some mi⟩) := by
  refine ⟨?_, ?_, ?_⟩
  · cases zt with
    | none => cases zd <;> simp [zoneOf, unknownOf]
    | some t => simp only [zoneOf, unknownOf]; split <;> simp
  · rintro rfl rfl; rfl
  · rintro rfl h mi (rfl | rfl) <;> rfl

/-- **C07 (truncated acceptance)**: `_check_bounds` accepts the truncated point iff the date part of the
    check (`dateBounds`: month 1–12; day 1–the length of the month in the spelled year-of-century, in a
    leap year when no year is spelled, 1–the calendar's longest month when no month is spelled either; week 1–the year's / the
    maximum number of weeks; ordinal day 1–the year's / a leap year's length; weekday 1–7) accepts
    exactly the spelled fields, and the time of day is legal (`TimeValid`: an absent hour counts as 0, so
    minute and second are below 60). -/
theorem C07_truncated_accept (m : Mode) (de te : Template) (v : TVals) (tz : Spec.TZ) (unk : Bool)
    (dump : Option (List Char)) (ht : ttimeShapeOK te = true) :
    checkBounds m (tpointOf de te v tz unk dump) = true ↔
      dateBounds m (tyearOf de v) (fieldOf de .monthOfYear v.month) (fieldOf de .dayOfMonth v.day)
        (fieldOf de .weekOfYear v.week) (fieldOf de .dayOfYear v.doy) (fieldOf de .dayOfWeek v.dow) = true ∧
      TimeValid te v.toVals := by
  rw [checkBounds_split, Bool.and_eq_true, timeBounds_tpointOf m de te v tz unk dump ht]
  rfl

/-! ## `dump_as_parsed` -/

/-- The zone forms that may follow a time after a truncated date: none, or ANY listed zone form (no
    format is excluded). -/
def zoneOptsAll (pt : ParserTables) : List (Option ZEntry) := none :: pt.zoneEntries.map some

/-- The dumper's substitution rules (for a point without expanded year digits), evaluated on the
    expression texts part by part: the date rules on every truncated date expression and on the empty
    date (`tdateCheck`), the whole format of every truncated date alone (`exprCheck`), and the zone
    split plus time and zone rules on every time expression followed by every zone expression or none
    (`ttzCheck`).  `getExpr_T` composes the parts. -/
def truncDumpOK (pt : ParserTables) : Bool :=
  tdateCheck [] [] &&
  pt.dateEntries.all (fun de => de.typ != .truncated ||
    (tdateCheck de.expr de.tmpl && exprCheck pt de none none)) &&
  pt.timeEntries.all (fun te => (zoneOptsAll pt).all fun zo => ttzCheck te zo)

set_option maxRecDepth 100000 in
/-- **C07 (truncated expression texts)**: in every regenerated configuration, the expression text of
    every truncated date form, of every time form and of every zone form is compiled by the dumper's
    substitution rules to the printf expression that corresponds, item by item, to the form's regular
    expression, and the zone of `time ++ zone` is split off where it starts. -/
theorem C07_truncated_as_parsed_tables : parserTables.all truncDumpOK = true := by decide +kernel

structure TruncDumpFacts (pt : ParserTables) : Prop where
  empty : tdateCheck [] [] = true
  dates : ∀ de ∈ pt.dateEntries, de.typ = .truncated →
    tdateCheck de.expr de.tmpl = true ∧ exprCheck pt de none none = true
  times : ∀ te ∈ pt.timeEntries, ∀ zo : Option ZEntry, (∀ ze, zo = some ze → ze ∈ pt.zoneEntries) →
    ttzCheck te zo = true

theorem truncDumpFacts (pt : ParserTables) (h : pt ∈ parserTables) : TruncDumpFacts pt := by
  have hk := List.all_eq_true.mp C07_truncated_as_parsed_tables pt h
  simp only [truncDumpOK, Bool.and_eq_true, List.all_eq_true, Bool.or_eq_true, bne_iff_ne, ne_eq] at hk
  obtain ⟨⟨h1, h2⟩, h3⟩ := hk
  refine ⟨h1, fun de hde ht => ?_, fun te hte zo hzo => ?_⟩
  · rcases h2 de hde with h | h
    · exact absurd ht h
    · exact h
  · apply h3 te hte
    cases zo with
    | none => exact List.mem_cons_self ..
    | some ze => exact List.mem_cons_of_mem _ (List.mem_map.mpr ⟨ze, hzo ze rfl, rfl⟩)

/-- Two assignments that agree on every group of a template spell the same group texts. -/
theorem tenvOf_congr (t : Template) (v v' : TVals)
    (h : ∀ f, hasGroup t f = true → v.nat f = v'.nat f ∧ v.neg f = v'.neg f ∧ v.dec f = v'.dec f) :
    tenvOf t v = tenvOf t v' := by
  induction t with
  | nil => rfl
  | cons it t ih =>
    have ht : ∀ f, hasGroup t f = true → hasGroup (it :: t) f = true := by
      intro f hf
      unfold hasGroup at hf ⊢
      cases it <;> simp_all [groupFields]
    have ih := ih fun f hf => h f (ht f hf)
    have hh : ∀ f, (match it with
        | .lit _ => False | .digits g _ => g = f | .digitsPlus g => g = f | .sign g => g = f
        | .group g _ => g = f) → hasGroup (it :: t) f = true := by
      intro f hf
      unfold hasGroup
      cases it <;> simp_all [groupFields]
    cases it with
    | lit c => simpa [tenvOf] using ih
    | digits g n => simp only [tenvOf, ih, (h g (hh g rfl)).1]
    | digitsPlus g => simp only [tenvOf, ih, (h g (hh g rfl)).2.2]
    | sign g => simp only [tenvOf, ih, (h g (hh g rfl)).2.1]
    | group g ls => simp only [tenvOf, ih]

theorem truncText_congr (dpo : Option Entry) (te : Entry) (zo : Option ZEntry) (v v' : TVals)
    (hd : ∀ f, hasGroup (dtmplO dpo) f = true →
      v.nat f = v'.nat f ∧ v.neg f = v'.neg f ∧ v.dec f = v'.dec f)
    (ht : ∀ f, hasGroup te.tmpl f = true → v.nat f = v'.nat f ∧ v.neg f = v'.neg f ∧ v.dec f = v'.dec f)
    (hz : ∀ f, hasGroup (ztmplO zo) f = true →
      v.toVals.nat f = v'.toVals.nat f ∧ v.neg f = v'.neg f ∧ v.dec f = v'.dec f) :
    truncText dpo te zo v = truncText dpo te zo v' := by
  unfold truncText
  rw [tenvOf_congr (dtmplO dpo) v v' hd, tenvOf_congr te.tmpl v v' ht]
  cases zo with
  | none => rfl
  | some ze =>
    simp only [zoneText]
    rw [envOf_congr ze.tmpl v.toVals v'.toVals hz]

/-- The values as `str` spells the zone SIGN back: a `-` on an all-zero zone is `+`. -/
def trespell (zo : Option ZEntry) (v : TVals) : TVals :=
  { v with tzNeg := v.tzNeg && !zoneZero (ztmplO zo) v.toVals }

/-- … and a decimal fraction of at most six digits without its trailing zeros (at least one digit
    kept, `stripZeros_spec`). -/
def trespellDec (zo : Option ZEntry) (v : TVals) : TVals :=
  { trespell zo v with
    hourDec := stripZeros v.hourDec
    minuteDec := stripZeros v.minuteDec
    secondDec := stripZeros v.secondDec }

/-- The legality of the spelled values, as `TimePoint._check_bounds` judges a truncated point
    (`C07_truncated_accept`). -/
def TruncValid (m : Mode) (de te : Template) (v : TVals) : Prop :=
  dateBounds m (tyearOf de v) (fieldOf de .monthOfYear v.month) (fieldOf de .dayOfMonth v.day)
    (fieldOf de .weekOfYear v.week) (fieldOf de .dayOfYear v.doy) (fieldOf de .dayOfWeek v.dow) = true ∧
  TimeValid te v.toVals

instance (m : Mode) (de te : Template) (v : TVals) : Decidable (TruncValid m de te v) := by
  unfold TruncValid; infer_instance

/-- **C07 (truncated, dump_as_parsed round trip)**: for every regenerated configuration with truncated
    forms enabled, every truncated date form or no date, every time form (a truncated one only after a
    marked or absent date; with or without a decimal fraction), every zone form or none, every fitting
    and legal assignment of values: parsing the text with `dump_as_parsed=True` yields the truncated
    point `tpointOf` carrying the expression text, and `str` of it is the text the same forms spell for
    the values `tspelled` — as given, except that a `-` on an all-zero zone is `+` and a decimal fraction
    is `_decimal_string` of its digits (≤ 6 digits: trailing zeros dropped; more: rounded to six —
    finding F12).  Without a zone in the text nothing is printed for the zone. -/
theorem C07_truncated_as_parsed_any (cfg : Cfg) (hpt : cfg.pt ∈ parserTables)
    (hat : cfg.allowTruncated = true)
    (dpo : Option Entry) (hdp : ∀ de, dpo = some de → de ∈ cfg.pt.dateEntries ∧ de.typ = .truncated)
    (te : Entry) (hte : te ∈ cfg.pt.timeEntries) (htm : te.typ = .truncated → markedO dpo = true)
    (zo : Option ZEntry) (hzo : ∀ ze, zo = some ze → ze ∈ cfg.pt.zoneEntries)
    (v : TVals) (hv : v.Fit cfg.pt.ned) (tz : Spec.TZ)
    (hz : mkTZ cfg.mode ((zoneOf cfg.zone (zo.map (·.tmpl)) v.toVals).hour.getD 0)
      ((zoneOf cfg.zone (zo.map (·.tmpl)) v.toVals).minute.getD 0) = some tz)
    (hvalid : TruncValid cfg.mode (dtmplO dpo) te.tmpl v) :
    ∃ x, parse cfg (truncText dpo te zo v) true = some x ∧
      x = tpointOf (dtmplO dpo) te.tmpl v tz (unknownOf (zoneOf cfg.zone (zo.map (·.tmpl)) v.toVals))
        (some (truncExpr dpo te zo)) ∧
      str cfg.mode x = .ok (truncText dpo te zo (tspelled (ztmplO zo) v)) := by
  have uf := truncFacts cfg.pt hpt
  have df := decodeFacts cfg.pt hpt
  have kf := truncDumpFacts cfg.pt hpt
  obtain ⟨_, _, hti, hts⟩ := uf.times te hte
  have hcb := (C07_truncated_accept cfg.mode (dtmplO dpo) te.tmpl v tz
    (unknownOf (zoneOf cfg.zone (zo.map (·.tmpl)) v.toVals)) (some (truncExpr dpo te zo)) hts).mpr hvalid
  refine ⟨_, ?_, rfl, ?_⟩
  · rw [C07_truncated_decode cfg hpt hat dpo hdp te hte htm zo hzo v hv true, hz]
    simp only [dumpOf, if_true]
    rw [if_pos hcb]
  · have hdi : (dtmplO dpo).all tItemOK = true := by
      cases dpo with
      | none => rfl
      | some de => exact (uf.dates de (hdp de rfl).1 (hdp de rfl).2).2.2.1
    have hdc : tdateCheck (dexprO dpo) (dtmplO dpo) = true := by
      cases dpo with
      | none => exact kf.empty
      | some de => exact (kf.dates de (hdp de rfl).1 (hdp de rfl).2).1
    have hzi : (ztmplO zo).all (itemOK cfg.pt.ned) = true := by
      cases zo with
      | none => rfl
      | some ze =>
        have := df.zones ze (hzo ze rfl)
        simp only [zoneOK, Bool.and_eq_true] at this
        exact this.1
    have := str_tpointOf cfg.mode cfg.pt.ned cfg.zone (dexprO dpo) (dtmplO dpo) te zo v tz hdi hti hts hzi hdc
      (kf.times te hte zo hzo) hv hz
    rw [show truncExpr dpo te zo = dexprO dpo ++ 'T' :: (te.expr ++ zexprO zo) from rfl, this]
    have htxt : trender (ztmplO zo) (envOf (ztmplO zo) (tspelled (ztmplO zo) v).toVals) =
        zoneText zo (tspelled (ztmplO zo) v).toVals := by cases zo <;> rfl
    rw [htxt]
    rfl

/-- **C07 (truncated, dump_as_parsed reproduces the input)**: for a time form WITHOUT a decimal fraction
    whose text does not spell a `-` on an all-zero zone, `str` of the point parsed with
    `dump_as_parsed=True` is the input text, character for character. -/
theorem C07_truncated_as_parsed (cfg : Cfg) (hpt : cfg.pt ∈ parserTables)
    (hat : cfg.allowTruncated = true)
    (dpo : Option Entry) (hdp : ∀ de, dpo = some de → de ∈ cfg.pt.dateEntries ∧ de.typ = .truncated)
    (te : Entry) (hte : te ∈ cfg.pt.timeEntries) (htm : te.typ = .truncated → markedO dpo = true)
    (hnd : ∀ f, isDecFld f = true → hasGroup te.tmpl f = false)
    (zo : Option ZEntry) (hzo : ∀ ze, zo = some ze → ze ∈ cfg.pt.zoneEntries)
    (v : TVals) (hv : v.Fit cfg.pt.ned) (tz : Spec.TZ)
    (hz : mkTZ cfg.mode ((zoneOf cfg.zone (zo.map (·.tmpl)) v.toVals).hour.getD 0)
      ((zoneOf cfg.zone (zo.map (·.tmpl)) v.toVals).minute.getD 0) = some tz)
    (hvalid : TruncValid cfg.mode (dtmplO dpo) te.tmpl v)
    (hz0 : v.tzNeg = true → zoneZero (ztmplO zo) v.toVals = false) :
    ∃ x, parse cfg (truncText dpo te zo v) true = some x ∧ x.truncated = true ∧
      str cfg.mode x = .ok (truncText dpo te zo v) := by
  obtain ⟨x, h1, h2, h3⟩ :=
    C07_truncated_as_parsed_any cfg hpt hat dpo hdp te hte htm zo hzo v hv tz hz hvalid
  refine ⟨x, h1, by rw [h2]; rfl, ?_⟩
  rw [h3]
  have uf := truncFacts cfg.pt hpt
  have kf := truncDumpFacts cfg.pt hpt
  have hdi : (dtmplO dpo).all tItemOK = true := by
    cases dpo with
    | none => rfl
    | some de => exact (uf.dates de (hdp de rfl).1 (hdp de rfl).2).2.2.1
  have hneg : (tspelled (ztmplO zo) v).tzNeg = v.tzNeg := by
    show (v.tzNeg && !zoneZero (ztmplO zo) v.toVals) = v.tzNeg
    cases hn : v.tzNeg
    · rfl
    · rw [hz0 hn]; rfl
  refine congrArg _ ?_
  apply truncText_congr
  · intro f hf
    refine ⟨tspelled_nat _ v f, ?_, ?_⟩
    · rcases hasGroup_tclass _ hdi f hf with h | h | h <;>
        cases f <;> first | rfl | exact absurd h (by decide)
    · have : isDecFld f = false := by
        cases hd : isDecFld f
        · rfl
        · have hdc : tdateCheck (dexprO dpo) (dtmplO dpo) = true := by
            cases dpo with
            | none => exact kf.empty
            | some de => exact (kf.dates de (hdp de rfl).1 (hdp de rfl).2).1
          simp only [tdateCheck, Bool.and_eq_true] at hdc
          have := List.all_eq_true.mp hdc.1.2 f (mem_of_hasGroup _ f hf)
          cases f <;> first | exact absurd hd (by decide) | exact absurd this (by decide)
      cases f <;> first | rfl | exact absurd this (by decide)
  · intro f hf
    refine ⟨tspelled_nat _ v f, ?_, ?_⟩
    · rcases hasGroup_tclass _ (uf.times te hte).2.2.1 f hf with h | h | h <;>
        cases f <;> first | rfl | exact absurd h (by decide)
    · cases hd : isDecFld f
      · cases f <;> first | rfl | exact absurd hd (by decide)
      · rw [hnd f hd] at hf; cases hf
  · intro f hf
    have := kf.times te hte zo hzo
    unfold ttzCheck at this
    split at this
    · cases this
    · simp only [Bool.and_eq_true] at this
      have hzf := List.all_eq_true.mp this.1.2 f (mem_of_hasGroup _ f hf)
      refine ⟨tspelled_vnat _ v f, ?_, ?_⟩
      · cases f <;> first | rfl | exact absurd hzf (by decide) | (show (tspelled _ v).tzNeg = _; exact hneg)
      · cases f <;> first | rfl | exact absurd hzf (by decide)

/-- **C07 (truncated, dump_as_parsed, decimal fraction)**: for a time form WITH a decimal fraction of at
    most six digits, `str` reproduces the input text up to the trailing zeros of the fraction
    (`stripZeros`); a `-` on an all-zero zone is `+`. -/
theorem C07_truncated_as_parsed_decimal (cfg : Cfg) (hpt : cfg.pt ∈ parserTables)
    (hat : cfg.allowTruncated = true)
    (dpo : Option Entry) (hdp : ∀ de, dpo = some de → de ∈ cfg.pt.dateEntries ∧ de.typ = .truncated)
    (te : Entry) (hte : te ∈ cfg.pt.timeEntries) (htm : te.typ = .truncated → markedO dpo = true)
    (zo : Option ZEntry) (hzo : ∀ ze, zo = some ze → ze ∈ cfg.pt.zoneEntries)
    (v : TVals) (hv : v.Fit cfg.pt.ned)
    (h6 : v.hourDec.length ≤ 6 ∧ v.minuteDec.length ≤ 6 ∧ v.secondDec.length ≤ 6) (tz : Spec.TZ)
    (hz : mkTZ cfg.mode ((zoneOf cfg.zone (zo.map (·.tmpl)) v.toVals).hour.getD 0)
      ((zoneOf cfg.zone (zo.map (·.tmpl)) v.toVals).minute.getD 0) = some tz)
    (hvalid : TruncValid cfg.mode (dtmplO dpo) te.tmpl v) :
    ∃ x, parse cfg (truncText dpo te zo v) true = some x ∧ x.truncated = true ∧
      str cfg.mode x = .ok (truncText dpo te zo (trespellDec zo v)) := by
  obtain ⟨x, h1, h2, h3⟩ :=
    C07_truncated_as_parsed_any cfg hpt hat dpo hdp te hte htm zo hzo v hv tz hz hvalid
  refine ⟨x, h1, by rw [h2]; rfl, ?_⟩
  rw [h3]
  have : tspelled (ztmplO zo) v = trespellDec zo v := by
    obtain ⟨a, b, c⟩ := h6
    simp only [tspelled, trespellDec, trespell, decimalString, a, b, c, if_true]
  rw [this]

/-- **C07 (truncated, dump_as_parsed, date alone)**: a truncated date form alone is reproduced exactly
    (it has neither sign nor fraction): `str(parse(text, dump_as_parsed=True)) = text`. -/
theorem C07_truncated_as_parsed_date (cfg : Cfg) (hpt : cfg.pt ∈ parserTables)
    (hat : cfg.allowTruncated = true) (de : Entry) (hde : de ∈ cfg.pt.dateEntries)
    (hdt : de.typ = .truncated) (v : TVals) (hv : v.Fit cfg.pt.ned) (tz : Spec.TZ)
    (hz : mkTZ cfg.mode ((zoneOf cfg.zone none v.toVals).hour.getD 0)
      ((zoneOf cfg.zone none v.toVals).minute.getD 0) = some tz)
    (hvalid : TruncValid cfg.mode de.tmpl [] v) :
    ∃ x, parse cfg (trender de.tmpl (tenvOf de.tmpl v)) true = some x ∧
      x = tpointOf de.tmpl [] v tz (unknownOf (zoneOf cfg.zone none v.toVals)) (some de.expr) ∧
      str cfg.mode x = .ok (trender de.tmpl (tenvOf de.tmpl v)) := by
  have uf := truncFacts cfg.pt hpt
  have kf := truncDumpFacts cfg.pt hpt
  have hcb := (C07_truncated_accept cfg.mode de.tmpl [] v tz
    (unknownOf (zoneOf cfg.zone none v.toVals)) (some de.expr) (by decide)).mpr hvalid
  refine ⟨_, ?_, rfl, ?_⟩
  · rw [C07_truncated_decode_date cfg hpt hat de hde hdt v hv true, hz]
    simp only [dumpOf, if_true]
    rw [if_pos hcb]
  · exact str_tpointOf_date cfg.mode cfg.pt de v tz _ (uf.dates de hde hdt).2.2.1 (kf.dates de hde hdt).1
      (kf.dates de hde hdt).2 hv

/-! ## The property, end to end -/

/-- **C07 (truncated forms, end to end)**: whenever parsing the text of a truncated combination succeeds,
    the result is `truncated`, its `get_truncated_properties()` is exactly the dict of the spelled fields
    with the spelled values, its zone is the spelled zone — or, with no zone spelled, the parser's
    default, `unknown` exactly under `default_to_unknown_time_zone` —, and the spelled values are legal
    (`TruncValid`); and conversely legal values with an acceptable zone always parse
    (`C07_truncated_as_parsed_any`, first part). -/
theorem C07_truncated (cfg : Cfg) (hpt : cfg.pt ∈ parserTables) (hat : cfg.allowTruncated = true)
    (dpo : Option Entry) (hdp : ∀ de, dpo = some de → de ∈ cfg.pt.dateEntries ∧ de.typ = .truncated)
    (te : Entry) (hte : te ∈ cfg.pt.timeEntries) (htm : te.typ = .truncated → markedO dpo = true)
    (zo : Option ZEntry) (hzo : ∀ ze, zo = some ze → ze ∈ cfg.pt.zoneEntries)
    (v : TVals) (hv : v.Fit cfg.pt.ned) (asParsed : Bool) (p : XTP)
    (h : parse cfg (truncText dpo te zo v) asParsed = some p) :
    p.truncated = true ∧
    truncatedProperties p = .props (spelledProps (dtmplO dpo) te.tmpl v) ∧
    p.tzUnknown = (zo.isNone && decide (cfg.zone = .unknown)) ∧
    mkTZ cfg.mode ((zoneOf cfg.zone (zo.map (·.tmpl)) v.toVals).hour.getD 0)
      ((zoneOf cfg.zone (zo.map (·.tmpl)) v.toVals).minute.getD 0) = some p.tz ∧
    p.dumpFmt = dumpOf asParsed (truncExpr dpo te zo) ∧
    TruncValid cfg.mode (dtmplO dpo) te.tmpl v := by
  have uf := truncFacts cfg.pt hpt
  have kf := truncDumpFacts cfg.pt hpt
  rw [C07_truncated_decode cfg hpt hat dpo hdp te hte htm zo hzo v hv asParsed] at h
  cases hz : mkTZ cfg.mode ((zoneOf cfg.zone (zo.map (·.tmpl)) v.toVals).hour.getD 0)
      ((zoneOf cfg.zone (zo.map (·.tmpl)) v.toVals).minute.getD 0) with
  | none => rw [hz] at h; cases h
  | some tz =>
    rw [hz] at h
    simp only [] at h
    split at h
    · rename_i hcb
      have hp : p = _ := (Option.some.inj h).symm
      subst hp
      have hys : tyearShapeOK (dtmplO dpo) = true := by
        cases dpo with
        | none => decide
        | some de =>
          have := (kf.dates de (hdp de rfl).1 (hdp de rfl).2).1
          simp only [tdateCheck, Bool.and_eq_true] at this
          exact this.2
      refine ⟨rfl, C07_truncated_properties _ _ v tz _ _ hys hv.1.2.2.1 hv.2, ?_, rfl, rfl, ?_⟩
      · show unknownOf _ = _
        rw [(C07_truncated_zone cfg.zone (zo.map (·.tmpl)) v.toVals).1]
        cases zo <;> rfl
      · exact (C07_truncated_accept cfg.mode _ _ v tz _ _ (uf.times te hte).2.2.2).mp hcb
    · cases h

/-! ## Non-vacuity and regression: concrete forms, values and texts -/

section TruncExamples
open _root_.IsoDT.Gen.Templates

/-- Two expanded year digits, all formats, truncated forms enabled, `default_to_unknown_time_zone`. -/
def trCfg : Cfg := ⟨parser_2_all, true, .unknown, .greg⟩
/-- The same with an assumed zone `+05:30`, basic only, no expanded digits, 360-day calendar. -/
def trCfgB : Cfg := ⟨parser_0_basic, true, .assumed 5 30, .d360⟩
theorem trCfg_mem : trCfg.pt ∈ parserTables := .tail _ (.tail _ (.head _))
theorem trCfgB_mem : trCfgB.pt ∈ parserTables := .tail _ (.head _)

/-- `-YYMM` (basic), `-mm,nn` (basic truncated, decimal minute), `±hh:mm` (EXTENDED zone): no format is
    excluded after a truncated date. -/
def trDate : Entry := ⟨.basic, .truncated, "-YYMM".toList, t14⟩
def trTime : Entry := ⟨.basic, .truncated, "-mm,nn".toList, t59⟩
def trZone : ZEntry := ⟨.extended, "+hh:mm".toList, t76⟩

/-- Year of century 05, December, minute 30.5, zone −01:30. -/
def trVals : TVals :=
  { yy := 5, month := 12, minute := 30, minuteDec := ['5'], tzNeg := true, tzHour := 1, tzMinute := 30 }

example : trDate ∈ trCfg.pt.dateEntries ∧ trTime ∈ trCfg.pt.timeEntries ∧ trZone ∈ trCfg.pt.zoneEntries ∧
    trVals.Fit trCfg.pt.ned ∧ markedO (some trDate) = true ∧
    TruncValid trCfg.mode trDate.tmpl trTime.tmpl trVals := by decide +kernel

example : truncText (some trDate) trTime (some trZone) trVals = "-0512T-30,5-01:30".toList ∧
    truncExpr (some trDate) trTime (some trZone) = "-YYMMT-mm,nn+hh:mm".toList := by decide +kernel

/-- `C07_truncated_decode` at these forms. -/
example : parse trCfg "-0512T-30,5-01:30".toList true =
    some (tpointOf trDate.tmpl trTime.tmpl trVals ⟨-1, -30⟩ false (some "-YYMMT-mm,nn+hh:mm".toList)) := by
  have h := C07_truncated_decode trCfg trCfg_mem rfl (some trDate)
    (fun de h => by cases h; exact ⟨by decide +kernel, rfl⟩) trTime (by decide +kernel) (fun _ => by decide +kernel)
    (some trZone) (fun ze h => by cases h; decide +kernel) trVals (by decide +kernel) true
  rw [show mkTZ trCfg.mode _ _ = some (⟨-1, -30⟩ : Spec.TZ) from by decide +kernel] at h
  simp only [] at h
  rw [if_pos (by decide +kernel)] at h
  exact h

/-- … and the point, field by field: only year-of-century, month and the decimal minute; nothing
    defaulted; zone −01:30, known. -/
example : tpointOf trDate.tmpl trTime.tmpl trVals ⟨-1, -30⟩ false (some "-YYMMT-mm,nn+hh:mm".toList) =
    { ned := 0, year := some 5, month := some 12, day := none, doy := none, week := none, dow := none,
      hour := none, minute := some 30, second := none, hourDec := none, minuteDec := some ['5'],
      secondDec := none, tz := ⟨-1, -30⟩, tzUnknown := false, truncated := true,
      truncProp := some .yearOfCentury, dumpFmt := some "-YYMMT-mm,nn+hh:mm".toList } := by decide +kernel

/-- `C07_truncated_as_parsed_any` / `_decimal` at these forms with fraction `500`: the trailing zeros go. -/
example : ∃ x, parse trCfg (truncText (some trDate) trTime (some trZone) { trVals with minuteDec := "500".toList }) true =
      some x ∧ x.truncated = true ∧
    str trCfg.mode x = .ok (truncText (some trDate) trTime (some trZone)
      (trespellDec (some trZone) { trVals with minuteDec := "500".toList })) :=
  C07_truncated_as_parsed_decimal trCfg trCfg_mem rfl (some trDate)
    (fun de h => by cases h; exact ⟨by decide +kernel, rfl⟩) trTime (by decide +kernel) (fun _ => by decide +kernel)
    (some trZone) (fun ze h => by cases h; decide +kernel) _ (by decide +kernel) (by decide +kernel) ⟨-1, -30⟩
    (by decide +kernel) (by decide +kernel)

example : truncText (some trDate) trTime (some trZone) { trVals with minuteDec := "500".toList } =
      "-0512T-30,500-01:30".toList ∧
    truncText (some trDate) trTime (some trZone)
      (trespellDec (some trZone) { trVals with minuteDec := "500".toList }) = "-0512T-30,5-01:30".toList ∧
    reprint trCfg "-0512T-30,500-01:30" = some "-0512T-30,5-01:30".toList := by decide +kernel

/-- `C07_truncated_properties` / `C07_truncated`: the dict `get_truncated_properties()` returns. -/
example : truncatedProperties (tpointOf trDate.tmpl trTime.tmpl trVals ⟨-1, -30⟩ false none) =
    .props [(.yearOfCentury, 5, none), (.monthOfYear, 12, none), (.minuteOfHour, 30, some ['5'])] := by
  rw [C07_truncated_properties _ _ _ _ _ _ (by decide +kernel) (by decide) (by decide)]
  decide +kernel

example (p : XTP) (h : parse trCfg (truncText (some trDate) trTime (some trZone) trVals) false = some p) :
    p.truncated = true ∧
    truncatedProperties p = .props (spelledProps trDate.tmpl trTime.tmpl trVals) ∧ p.tzUnknown = false :=
  have k := C07_truncated trCfg trCfg_mem rfl (some trDate)
    (fun de h => by cases h; exact ⟨by decide +kernel, rfl⟩) trTime (by decide +kernel) (fun _ => by decide +kernel)
    (some trZone) (fun ze h => by cases h; decide +kernel) trVals (by decide +kernel) false p h
  ⟨k.1, k.2.1, k.2.2.1⟩

/-- NO DATE: `T-30` (truncated minute alone), zone unknown; `T12:30Z` is a truncated point too. -/
def trMin : Entry := ⟨.basic, .truncated, "-mm".toList, t56⟩

example : ∃ x, parse trCfg (truncText none trMin none { minute := 30 }) true = some x ∧ x.truncated = true ∧
    str trCfg.mode x = .ok (truncText none trMin none { minute := 30 }) :=
  C07_truncated_as_parsed trCfg trCfg_mem rfl none (fun _ h => by cases h) trMin (by decide +kernel)
    (fun _ => rfl) (fun f hf => by cases f <;> first | decide +kernel | cases hf) none (fun _ h => by cases h)
    _ (by decide +kernel) ⟨0, 0⟩ (by decide +kernel) (by decide +kernel) (fun h => by cases h)

example : truncText none trMin none { minute := 30 } = "T-30".toList ∧
    parse trCfg "T-30".toList false =
      some { ned := 0, year := none, month := none, day := none, doy := none, week := none, dow := none,
             hour := none, minute := some 30, second := none, hourDec := none, minuteDec := none,
             secondDec := none, tz := ⟨0, 0⟩, tzUnknown := true, truncated := true, truncProp := none,
             dumpFmt := none } ∧
    reprint trCfg "T-30" = some "T-30".toList ∧ reprint trCfg "T12:30Z" = some "T12:30Z".toList ∧
    (parse trCfg "T12:30Z".toList false).map (fun p => (p.truncated, p.tzUnknown, p.hour)) =
      some (true, false, some 12) := by decide +kernel

/-- `C07_truncated_zone`: unknown only under `default_to_unknown_time_zone`; with an assumed zone the
    truncated point gets it. -/
example : (parse trCfgB "T-30".toList false).map (fun p => (p.tz, p.tzUnknown)) = some (⟨5, 30⟩, false) ∧
    unknownOf (zoneOf trCfgB.zone none {}) = false ∧ unknownOf (zoneOf trCfg.zone none {}) = true := by
  decide +kernel

/-- YEAR OF DECADE: `-zWwwD` with `--ss` and `Z`. -/
def trWeek : Entry := ⟨.basic, .truncated, "-zWwwD".toList, t24⟩
def trSec : Entry := ⟨.extended, .truncated, "--ss".toList, t57⟩
def trUtc : ZEntry := ⟨.basic, "Z".toList, t73⟩
def trWVals : TVals := { z := 5, week := 12, dow := 3, second := 59 }

example : ∃ x, parse trCfg (truncText (some trWeek) trSec (some trUtc) trWVals) true = some x ∧ x.truncated = true ∧
    str trCfg.mode x = .ok (truncText (some trWeek) trSec (some trUtc) trWVals) :=
  C07_truncated_as_parsed trCfg trCfg_mem rfl (some trWeek)
    (fun de h => by cases h; exact ⟨by decide +kernel, rfl⟩) trSec (by decide +kernel) (fun _ => by decide +kernel)
    (fun f hf => by cases f <;> first | decide +kernel | cases hf) (some trUtc)
    (fun ze h => by cases h; decide +kernel) _ (by decide +kernel) ⟨0, 0⟩ (by decide +kernel) (by decide +kernel)
    (fun h => by cases h)

example : truncText (some trWeek) trSec (some trUtc) trWVals = "-5W123T--59Z".toList ∧
    (parse trCfg "-5W123T--59Z".toList false).map (fun p => (p.year, p.week, p.dow, p.second, p.minute)) =
      some (some 5, some 12, some 3, some 59, none) ∧
    (parse trCfg "-5W123T--59Z".toList false).map (fun p => (p.truncProp, p.tzUnknown)) =
      some (some TruncProp.yearOfDecade, false) ∧
    reprint trCfg "-5W123T--59Z" = some "-5W123T--59Z".toList := by decide +kernel

/-- DATE ALONE (`C07_truncated_decode_date`, `C07_truncated_as_parsed_date`): `--MMDD` has no year, so
    29 February is legal (the leap-year table) and 30 February is not; `-YYMM`, `---DD`, `-W-D`. -/
def trMD : Entry := ⟨.basic, .truncated, "--MMDD".toList, t16⟩

example : ∃ x, parse trCfg (trender trMD.tmpl (tenvOf trMD.tmpl { month := 2, day := 29 })) true = some x ∧
    x = tpointOf trMD.tmpl [] { month := 2, day := 29 } ⟨0, 0⟩ true (some trMD.expr) ∧
    str trCfg.mode x = .ok (trender trMD.tmpl (tenvOf trMD.tmpl { month := 2, day := 29 })) :=
  C07_truncated_as_parsed_date trCfg trCfg_mem rfl trMD (by decide +kernel) rfl _ (by decide +kernel) ⟨0, 0⟩
    (by decide +kernel) (by decide +kernel)

example : trender trMD.tmpl (tenvOf trMD.tmpl { month := 2, day := 29 }) = "--0229".toList ∧
    reprint trCfg "--0229" = some "--0229".toList ∧ parse trCfg "--0230".toList false = none ∧
    ¬ TruncValid .greg trMD.tmpl [] { month := 2, day := 30 } ∧
    -- in the 360-day calendar every month has 30 days
    (parse trCfgB "--0230".toList false).isSome = true ∧
    -- with a year of century the month length is that of the year 0005 (not leap)
    parse trCfg "050229".toList false = none ∧ (parse trCfg "040229".toList false).isSome = true ∧
    reprint trCfg "-0512" = some "-0512".toList ∧ reprint trCfg "---31" = some "---31".toList ∧
    reprint trCfg "-W-7" = some "-W-7".toList ∧ reprint trCfg "85-W15-5" = some "85-W15-5".toList := by
  decide +kernel

/-- `C07_truncated_as_parsed_any` at a fraction of SEVEN digits (finding F12) on a truncated second,
    extended `--ss.tt`, no date, no zone: `.1234567` is printed `.123457`. -/
def trSecDec : Entry := ⟨.extended, .truncated, "--ss.tt".toList, t63⟩
def trLongVals : TVals := { second := 59, secondDec := "1234567".toList }

example : ∃ x, parse trCfg (truncText none trSecDec none trLongVals) true = some x ∧
    x = tpointOf [] trSecDec.tmpl trLongVals ⟨0, 0⟩ true (some (truncExpr none trSecDec none)) ∧
    str trCfg.mode x = .ok (truncText none trSecDec none (tspelled [] trLongVals)) :=
  C07_truncated_as_parsed_any trCfg trCfg_mem rfl none (fun _ h => by cases h) trSecDec (by decide +kernel)
    (fun _ => rfl) none (fun _ h => by cases h) _ (by decide +kernel) ⟨0, 0⟩ (by decide +kernel)
    (by decide +kernel)

example : truncText none trSecDec none trLongVals = "T--59.1234567".toList ∧
    truncText none trSecDec none (tspelled [] trLongVals) = "T--59.123457".toList ∧
    reprint trCfg "T--59.1234567" = some "T--59.123457".toList := by decide +kernel

/-- `C07_truncated_decode_date` at `-W-D` (weekday alone) and `C07_truncated_accept`: weekday 7 is legal,
    8 is not; `C07_truncated_zone` at the two configurations. -/
def trDow : Entry := ⟨.basic, .truncated, "-W-D".toList, t28⟩

example : parse trCfg (trender trDow.tmpl (tenvOf trDow.tmpl { dow := 7 })) false =
    some (tpointOf trDow.tmpl [] { dow := 7 } ⟨0, 0⟩ true none) := by
  rw [C07_truncated_decode_date trCfg trCfg_mem rfl trDow (by decide +kernel) rfl _ (by decide +kernel) false,
    show mkTZ trCfg.mode _ _ = some (⟨0, 0⟩ : Spec.TZ) from by decide +kernel]
  simp only []
  rw [if_pos ((C07_truncated_accept trCfg.mode _ _ _ _ _ _ (by decide)).mpr (by decide +kernel))]
  rfl

example : trender trDow.tmpl (tenvOf trDow.tmpl { dow := 7 }) = "-W-7".toList ∧
    ¬ TruncValid .greg trDow.tmpl [] { dow := 8 } ∧ parse trCfg "-W-8".toList false = none := by decide +kernel

example : unknownOf (zoneOf trCfg.zone none {}) = true ∧ unknownOf (zoneOf trCfgB.zone none {}) = false ∧
    unknownOf (zoneOf trCfg.zone (some t74) {}) = false :=
  ⟨by rw [(C07_truncated_zone _ _ _).1]; rfl, by rw [(C07_truncated_zone _ _ _).1]; rfl,
   by rw [(C07_truncated_zone _ _ _).1]; rfl⟩

/-- A `-` on an all-zero zone comes back as `+` (`tspelled`); a truncated time needs a marked date:
    after `YYMMDD` (no leading hyphen) `-mm` is refused, `hhmm` accepted; a complete date never takes a
    truncated time. -/
example : reprint trCfg "T-30-00:00" = some "T-30+00:00".toList ∧
    reprint trCfg "--12T-30-00:30" = some "--12T-30-00:30".toList ∧
    parse trCfg "850412T-30".toList false = none ∧
    reprint trCfg "850412T1230" = some "850412T1230".toList ∧
    reprint trCfg "85-04-12T1230-05" = some "85-04-12T1230-05".toList ∧
    parse trCfg "1985-04-12T-30".toList false = none ∧
    -- truncated forms disabled: refused
    parse ⟨parser_2_all, false, .unknown, .greg⟩ "--0229".toList false = none ∧
    parse ⟨parser_2_all, false, .unknown, .greg⟩ "T-30".toList false = none := by decide +kernel

/-- The table checks are not vacuous: 25 truncated date forms, 36 time forms (18 truncated), 7 zone
    options in the full tables; a WRONG correspondence is rejected. -/
example : (parser_2_all.dateEntries.filter fun e => e.typ == .truncated).length = 25 ∧
    parser_2_all.timeEntries.length = 36 ∧
    (parser_2_all.timeEntries.filter fun e => e.typ == .truncated).length = 18 ∧
    (zoneOptsAll parser_2_all).length = 7 ∧
    ttzCheck trTime (some trZone) = true ∧ tdateCheck trWeek.expr trWeek.tmpl = true ∧
    ttzCheck ⟨.basic, .truncated, "-mm,nn".toList, t56⟩ (some trZone) = false ∧
    tdateCheck "-zWwwD".toList t26 = false := by decide +kernel

end TruncExamples

end IsoDT.Props.C07
