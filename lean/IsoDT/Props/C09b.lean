/-
  C09 (text part) — Whatever the parser accepts, through ANY text notation, is a real date-time.

  `Props/C09.lean` proves acceptance soundness and completeness for the constructor called with integral
  arguments.  Here the same is proved through the text layer (`IsoDT.Text.parse` = `get_info` →
  `_create_timepoint_from_info` → `TimePoint.__init__` with `_check_bounds`): for ANY parser tables, ANY
  configuration and ANY list of characters.  No assumption on the tables is needed, because every accepted
  text ends in `Text.ctor`, which runs `checkBounds` (`Lemmas/TextAccept.lean`).
  Completeness through text is C08 (`parse_stdText`: the specified text of every valid point is accepted
  and decodes to that point).
  The refusal side is a kernel-decided table over every regenerated parser table.
-/
import IsoDT.Props.C09
import IsoDT.Lemmas.TextAccept

namespace IsoDT.Props.C09
open IsoDT IsoDT.Model IsoDT.Text
open IsoDT.Spec (Date TZ TP)
open _root_.IsoDT.Gen.Templates (parserTables)

/-! ## Acceptance soundness through text -/

/-- **No impossible date-time comes in through text**: for every parser table, every configuration
    (`allow_truncated`, default zone, calendar mode, `dump_as_parsed`) and EVERY list of characters, if the
    parser accepts the text as a non-truncated whole-second point (`XTP.toTP?` reads it as `p`), then `p`
    is a real date-time of the active mode — month 1..12, day within the month's length for that year,
    day-of-year within the year's length, ISO week within the year's number of weeks, weekday 1..7, hour
    0..24 with 24 only as 24:00:00, minute and second below 60, offset within range and of one sign. -/
theorem C09_text_accept_sound (cfg : Cfg) (s : List Char) (asParsed : Bool) (x : XTP) (p : TP)
    (h : parse cfg s asParsed = some x) (hp : x.toTP? = some p) : p.Valid cfg.mode := by
  obtain ⟨a, ha⟩ := parse_ctor cfg s asParsed x h
  obtain ⟨hc, hz⟩ := ctor_sound cfg.mode a x ha
  exact checkBounds_valid cfg.mode x p hp hc hz

/-- The hypothesis `x.toTP? = some p` of `C09_text_accept_sound` is not a restriction among non-truncated
    results without a decimal part: every such result IS a whole-second point, and it is valid. -/
theorem C09_text_accept_whole (cfg : Cfg) (s : List Char) (asParsed : Bool) (x : XTP)
    (h : parse cfg s asParsed = some x) (ht : x.truncated = false)
    (h1 : x.hourDec = none) (h2 : x.minuteDec = none) (h3 : x.secondDec = none) :
    ∃ p, x.toTP? = some p ∧ p.Valid cfg.mode := by
  obtain ⟨a, ha⟩ := parse_ctor cfg s asParsed x h
  obtain ⟨p, hp⟩ := ctor_toTP cfg.mode a x ha ht h1 h2 h3
  exact ⟨p, hp, C09_text_accept_sound cfg s asParsed x p h hp⟩

/-- **The same with a decimal part** (`hh,f`, `hh:mm,f`, `hh:mm:ss,f`): every non-truncated point the
    parser accepts, from any text under any tables and configuration, satisfies `XTP.ValidX` — it shows a
    date that is real in the mode, a legal offset, `0 ≤ hour ≤ 24`, minute and second below 60 where
    present, hour 24 only with every lower field zero and every fraction zero, and fields are absent only
    as the decimal forms dictate (a decimal hour has no minute/second, a decimal minute no second). -/
theorem C09_text_accept_sound_decimal (cfg : Cfg) (s : List Char) (asParsed : Bool) (x : XTP)
    (h : parse cfg s asParsed = some x) (ht : x.truncated = false) : x.ValidX cfg.mode := by
  obtain ⟨a, ha⟩ := parse_ctor cfg s asParsed x h
  exact ctor_validX cfg.mode a x ha ht

/-- On whole-second points the two notions agree: `ValidX` of a point `toTP?` reads as `p` gives
    `p.Valid`. -/
theorem C09_validX_whole (m : Mode) (x : XTP) (p : TP) (hx : x.ValidX m) (hp : x.toTP? = some p) :
    p.Valid m := validX_toTP m x p hx hp

/-- **Truncated points too are bounds-checked**: every accepted point, truncated or not, has every field
    it shows within the bounds `_check_bounds` applies (`Text.BoundFacts`): with the year, the exact month /
    year / week-count of that year; without it, the leap-year month length, the longest month, the longest
    year and the largest week count of the mode. -/
theorem C09_text_accept_bounds (cfg : Cfg) (s : List Char) (asParsed : Bool) (x : XTP)
    (h : parse cfg s asParsed = some x) : BoundFacts cfg.mode x ∧ x.tz.Valid := by
  obtain ⟨a, ha⟩ := parse_ctor cfg s asParsed x h
  obtain ⟨hc, hz⟩ := ctor_sound cfg.mode a x ha
  exact ⟨checkBounds_facts cfg.mode x hc, hz⟩

/-! ### Non-vacuity -/

/-- `2000-02-29T24:00:00-00:30` under the plain tables, Gregorian. -/
def exCfg : Cfg := ⟨Gen.Templates.parser_0_all, false, .unknown, .greg⟩
def exPoint : TP := ⟨.cal 2000 2 29, 24, 0, 0, ⟨0, -30⟩⟩

example : parse exCfg "2000-02-29T24:00:00-00:30".toList false = some (XTP.ofTP 0 exPoint) := by
  decide +kernel
example : (XTP.ofTP 0 exPoint).toTP? = some exPoint := by decide +kernel
example : exPoint.Valid .greg :=
  C09_text_accept_sound exCfg "2000-02-29T24:00:00-00:30".toList false (XTP.ofTP 0 exPoint) exPoint
    (by decide +kernel) (by decide +kernel)

example : exPoint.Valid .greg :=
  C09_validX_whole .greg (XTP.ofTP 0 exPoint) exPoint
    (C09_text_accept_sound_decimal exCfg "2000-02-29T24:00:00-00:30".toList false (XTP.ofTP 0 exPoint)
      (by decide +kernel) (by decide +kernel))
    (by decide +kernel)

/-- A week date in basic notation with expanded year digits, 360-day calendar, `dump_as_parsed`. -/
def exCfg2 : Cfg := ⟨Gen.Templates.parser_2_basic, true, .assumed 5 30, .d360⟩

example : ((parse exCfg2 "-000400W517T0005".toList true).bind XTP.toTP?) =
    some ⟨.week (-400) 51 7, 0, 5, 0, ⟨5, 30⟩⟩ := by decide +kernel
example : ∃ x, parse exCfg2 "-000400W517T0005".toList true = some x ∧ x.truncated = false ∧
    x.hourDec = none ∧ x.minuteDec = none ∧ x.secondDec = none := by
  refine ⟨(parse exCfg2 "-000400W517T0005".toList true).getD default, ?_⟩
  decide +kernel

/-- The time-of-day part of a point. -/
structure TimeView where
  truncated : Bool
  hour : Option Int
  hourDec : Option (List Char)
  minute : Option Int
  minuteDec : Option (List Char)
  second : Option Int
  secondDec : Option (List Char)
  tz : TZ
  deriving DecidableEq, Repr

def timeView (x : XTP) : TimeView :=
  ⟨x.truncated, x.hour, x.hourDec, x.minute, x.minuteDec, x.second, x.secondDec, x.tz⟩

/-- Decimal forms: `12:30,5` (decimal minute, no second) and `24,000` (decimal hour 24 with a zero
    fraction). -/
example : ((parse exCfg "2000-02-29T12:30,5+01:00".toList false).map timeView) =
    some ⟨false, some 12, none, some 30, some ['5'], none, none, ⟨1, 0⟩⟩ := by decide +kernel
example : ∀ x, parse exCfg "2000-02-29T12:30,5+01:00".toList false = some x → x.ValidX .greg :=
  fun x h => C09_text_accept_sound_decimal exCfg _ false x h
    (by
      have : ((parse exCfg "2000-02-29T12:30,5+01:00".toList false).map (·.truncated)) = some false := by
        decide +kernel
      rw [h] at this
      exact Option.some.inj this)
example : ((parse exCfg "2000-02-29T24,000Z".toList false).map timeView) =
    some ⟨false, some 24, some ['0', '0', '0'], none, none, none, none, ⟨0, 0⟩⟩ := by decide +kernel

/-- A truncated point (`--02-29`, no year): accepted, bounds-checked against the leap-year February. -/
example : ((parse ⟨Gen.Templates.parser_0_all, true, .unknown, .greg⟩ "--02-29".toList false).map
      fun x => (x.truncated, x.year, x.month, x.day)) = some (true, none, some 2, some 29) := by
  decide +kernel
example : parse ⟨Gen.Templates.parser_0_all, true, .unknown, .greg⟩ "--02-30".toList false = none := by
  decide +kernel
example : ∀ x, parse ⟨Gen.Templates.parser_0_all, true, .unknown, .greg⟩ "--02-29".toList false = some x →
    BoundFacts .greg x ∧ x.tz.Valid :=
  fun x h => C09_text_accept_bounds ⟨Gen.Templates.parser_0_all, true, .unknown, .greg⟩ _ false x h

/-! ## Refusal -/

/-- **The parser is total**: on every text it either refuses (`none` — every `ValueError`-derived
    exception of the Python, cf. `C09_exceptions`) or returns a point; there is no third outcome in the
    model (by construction: `parse` is a total function into `Option`). -/
theorem C09_text_total (cfg : Cfg) (s : List Char) (b : Bool) :
    parse cfg s b = none ∨ ∃ x, parse cfg s b = some x := by
  cases h : parse cfg s b with
  | none => exact Or.inl rfl
  | some x => exact Or.inr ⟨x, rfl⟩

/-- Where a well-formed twin text is accepted. -/
inductive Scope where
  /-- extended notation: every table that allows it -/
  | ext
  /-- basic notation: every table -/
  | basic
  /-- signed year with `n` expanded digits, extended notation: exactly the tables built for `n` -/
  | exp (n : Nat)
  deriving DecidableEq, Repr

def Scope.covers : Scope → ParserTables → Bool
  | .ext, pt => !pt.basicOnly
  | .basic, _ => true
  | .exp n, pt => !pt.basicOnly && pt.ned == n

/-- The default-zone configurations the tables below range over. -/
def exZones : List ZoneDefault := [.unknown, .assumed (-3) (-30)]

/-- `s` is refused in mode `m` under every regenerated table, with and without `allow_truncated`, for
    each of `exZones`. -/
def refusedEverywhere (m : Mode) (s : String) : Bool :=
  parserTables.all fun pt => [true, false].all fun tr => exZones.all fun z =>
    (parse ⟨pt, tr, z, m⟩ s.toList false).isNone

/-- `s` is accepted in mode `m` exactly under the tables `sc` covers (same range of configurations). -/
def acceptedIn (m : Mode) (sc : Scope) (s : String) : Bool :=
  parserTables.all fun pt => [true, false].all fun tr => exZones.all fun z =>
    (parse ⟨pt, tr, z, m⟩ s.toList false).isSome == sc.covers pt

/-- Impossible or malformed text, and next to it the nearest well-formed text with where it is accepted. -/
def rejectTable : List (String × String × Scope) := [
  -- day beyond the month
  ("2000-02-30", "2000-02-29", .ext), ("2001-02-29", "2001-02-28", .ext), ("1900-02-29", "1900-02-28", .ext),
  ("2000-04-31", "2000-04-30", .ext), ("2000-01-00", "2000-01-01", .ext), ("20000230", "20000229", .basic),
  -- month
  ("2000-13-01", "2000-12-01", .ext), ("2000-00-01", "2000-01-01", .ext),
  -- week and weekday
  ("2000-W53-1", "2000-W52-1", .ext), ("2004-W54-1", "2004-W53-1", .ext), ("2000-W54-1", "2000-W52-1", .ext),
  ("2000-W00-1", "2000-W01-1", .ext), ("2000-W01-8", "2000-W01-7", .ext), ("2000-W01-0", "2000-W01-1", .ext),
  ("2000W531", "2000W521", .basic),
  -- day of year
  ("2001-366", "2000-366", .ext), ("2000-367", "2000-366", .ext), ("2000-000", "2000-001", .ext),
  ("2001366", "2000366", .basic),
  -- hour 24 only as 24:00:00
  ("2000-01-01T24:00:01Z", "2000-01-01T24:00:00Z", .ext), ("2000-01-01T24:30Z", "2000-01-01T24:00Z", .ext),
  ("2000-01-01T25Z", "2000-01-01T24Z", .ext), ("20000101T2430Z", "20000101T2400Z", .basic),
  ("20000101T240001Z", "20000101T240000Z", .basic),
  ("2000-01-01T24,5Z", "2000-01-01T24,0Z", .ext), ("2000-01-01T24:00,01Z", "2000-01-01T24:00,00Z", .ext),
  ("2000-01-01T24:00:00,1Z", "2000-01-01T24:00:00,0Z", .ext),
  -- minute, second
  ("2000-01-01T12:60Z", "2000-01-01T12:59Z", .ext), ("2000-01-01T12:00:60Z", "2000-01-01T12:00:59Z", .ext),
  -- offset
  ("2000-01-01T00:00+100:00", "2000-01-01T00:00+99:00", .ext),
  ("2000-01-01T00:00+01:60", "2000-01-01T00:00+01:59", .ext),
  ("2000-01-01T00:00-01:60", "2000-01-01T00:00-01:59", .ext),
  -- expanded years
  ("+002000-02-30", "+002000-02-29", .exp 2), ("-000001-02-29", "-000004-02-29", .exp 2),
  ("+0002001-366", "+0002000-366", .exp 3),
  -- malformed
  ("2000-02-29T", "2000-02-29", .ext), ("2000-02-29T12:00:00ZZ", "2000-02-29T12:00:00Z", .ext),
  ("2000-02-29T12:00:00+01:00+01:00", "2000-02-29T12:00:00+01:00", .ext),
  ("2000-02-29T12:00T12:00", "2000-02-29T12:00", .ext), ("2000-2-29", "2000-02-29", .ext),
  ("2000-02-29 12:00", "2000-02-29T12:00", .ext), ("", "2000", .basic), ("garbage", "2000", .basic),
  ("2000-02-29T12:00:00\n\n", "2000-02-29T12:00:00\n", .ext), ("2000-0229", "2000-02-29", .ext),
  ("20000229T12:00", "20000229T1200", .basic), ("２０００-02-29", "2000-02-29", .ext)]

set_option maxRecDepth 100000 in
/-- **Impossible dates and malformed text are refused** (Gregorian mode): each first text of `rejectTable`
    — 30 February, 29 February of a common year, month 13, week 53 of a 52-week year, day 366 of a common
    year, 24:00:01, 24:30, minute 60, second 60, offset +100:00, mixed signs, doubled zones, a lone `T`,
    wrong widths, mixed basic/extended, non-ASCII digits, … — is refused under EVERY regenerated parser
    table, with and without `allow_truncated`, for each default-zone setting of `exZones`; while the
    well-formed text next to it is accepted under exactly the tables its notation belongs to. -/
theorem C09_text_reject_examples :
    rejectTable.all (fun r => refusedEverywhere .greg r.1 && acceptedIn .greg r.2.2 r.2.1) = true := by
  decide +kernel

/-- Texts whose acceptance depends on the calendar mode, with the expected answer for
    Gregorian, 360-day, 365-day, 366-day. -/
def modeTable : List (String × Scope × List Bool) := [
  ("2001-02-29", .ext, [false, true, false, true]),
  ("1900-02-29", .ext, [false, true, false, true]),
  ("2000-02-29", .ext, [true, true, false, true]),
  ("2000-02-30", .ext, [false, true, false, false]),
  ("2000-02-31", .ext, [false, false, false, false]),
  ("2000-01-31", .ext, [true, false, true, true]),
  ("2001-366", .ext, [false, false, false, true]),
  ("2000-366", .ext, [true, false, false, true]),
  ("2001-365", .ext, [true, false, true, true]),
  ("2000-361", .ext, [true, false, true, true]),
  ("2000-360", .ext, [true, true, true, true]),
  ("2004-W53-1", .ext, [true, false, false, false]),
  ("2000-W52-1", .ext, [true, false, true, true]),
  ("2001-W52-7", .ext, [true, true, true, true]),
  ("20010229T2400", .basic, [false, true, false, true]),
  ("2000-01-01T24:00:00Z", .ext, [true, true, true, true])]

/-- `s` is accepted under every table `sc` covers, and refused under every table. -/
def acceptedOrRefused (m : Mode) (sc : Scope) (s : String) (want : Bool) : Bool :=
  if want then acceptedIn m sc s else refusedEverywhere m s

set_option maxRecDepth 100000 in
/-- **Refusal follows the active calendar**: 29 February 2001 is refused by the Gregorian and 365-day
    calendars and accepted by the 360-day and 366-day ones; 30 February is accepted only in the 360-day
    calendar and 31 January refused only there; day 366 of 2001 only exists in the 366-day calendar; week 53
    of 2004 only in the Gregorian one — under every regenerated table covering the notation. -/
theorem C09_text_mode_examples :
    modeTable.all (fun r =>
      ([Mode.greg, .d360, .d365, .d366].zip r.2.2).all fun (m, want) =>
        acceptedOrRefused m r.2.1 r.1 want) = true := by
  decide +kernel

/-! ### Non-vacuity of the tables -/

example : rejectTable.length = 47 ∧ modeTable.length = 16 ∧ parserTables.length = 6 := by decide
example : refusedEverywhere .greg "2000-02-30" = true ∧ acceptedIn .d360 .ext "2000-02-30" = true := by
  decide +kernel
example : parse exCfg "2000-02-30".toList false = none ∧
    (parse { exCfg with mode := .d360 } "2000-02-30".toList false).isSome = true := by decide +kernel

end IsoDT.Props.C09
