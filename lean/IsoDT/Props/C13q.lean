/-
  C13 (fractional points and intervals) — Recurrence queries agree with iteration, as an ALGORITHM
  over exact rationals (`Model.RecurrenceQ`; see `Props/C12q.lean` for the model and its scope).

  Proved for recurrences with an exact interval of any positive rational length, any notation, any
  precision form of the anchor and of the probe:

  * `C13_rat_next_prev`: `get_next` / `get_prev` propose the point exactly one interval away and
    return it iff it is within the bounds (exact comparison of rational instants);
  * `C13_rat_is_valid_iff_iterated`: `get_is_valid p` iff one of the iterated points is at `p`'s
    instant — bounded or not, forward or backward iteration, whatever spelling `p` uses;
  * `C13_rat_is_valid_bounded` / `_unbounded`: … iff `inst(p) = inst(start) + k·len(d)` for a `k`
    in range; a probe off the grid by any `ε` is rejected (`C13_rat_is_valid_off_grid`);
  * `C13_rat_getitem`: `r[i]` is the `i`-th iterated point, `IndexError` from `n` on.
-/
import IsoDT.Props.C12q
import IsoDT.Lemmas.RecurrenceQQuery

namespace IsoDT.Props.C13q
open IsoDT IsoDT.Model IsoDT.Lemmas IsoDT.Lemmas.DQ IsoDT.Props.C12q
open IsoDT.Spec (Date TZ TP)

/-- **get_next / get_prev** on a recurrence with exact interval `d` of length `L > 0`: from any
    legal point `p` (in particular a member, however it is written) the candidate is exactly one
    interval away, in `p`'s representation, offset and precision form, and it is returned iff it
    lies within the recurrence's bounds — otherwise `None` (the ends of a bounded series). -/
theorem C13_rat_next_prev (m : Mode) (r : RecQ) (d : DurationQ) (L : Rat) (hr : ExactRecQ m r d L) (p : TPQ)
    (hp : p.Valid m) :
    (∃ q, GoodQ m p q L ∧ getNextQ m r p = (if inBoundsQ m r q then some q else none) ∧
      (inBoundsQ m r q = true ↔ (∀ s, r.start = some s → s.inst m ≤ q.inst m) ∧
        (∀ e, r.end_ = some e → q.inst m ≤ e.inst m))) ∧
    (∃ q, GoodQ m p q (-L) ∧ getPrevQ m r p = (if inBoundsQ m r q then some q else none) ∧
      (inBoundsQ m r q = true ↔ (∀ s, r.start = some s → s.inst m ≤ q.inst m) ∧
        (∀ e, r.end_ = some e → q.inst m ≤ e.inst m))) := by
  obtain ⟨q, _, g, hn⟩ := getNextQ_exact m r d L hr p hp
  obtain ⟨q', _, g', hn'⟩ := getPrevQ_exact m r d L hr p hp
  exact ⟨⟨q, g, hn, inBoundsQ_iff m r q g.valid hr.startValid hr.endValid⟩,
    ⟨q', g', hn', inBoundsQ_iff m r q' g'.valid hr.startValid hr.endValid⟩⟩

/-- One repetition: no neighbours. -/
theorem C13_rat_single_no_neighbours (m : Mode) (r : RecQ) (h : r.reps = some 1) (p : TPQ) :
    getNextQ m r p = none ∧ getPrevQ m r p = none := by
  unfold getNextQ getPrevQ; simp [h]

/-- **get_is_valid ⇔ iterated**: on a recurrence with an exact interval of positive length (any
    notation, bounded or unbounded, forward or backward iteration), `get_is_valid p` holds exactly
    when `__iter__` yields a point at `p`'s instant — `p` in any representation, offset and
    precision form.  (`fuel` bounds how many iterated points are looked at, on both sides.) -/
theorem C13_rat_is_valid_iff_iterated (m : Mode) (r : RecQ) (d : DurationQ) (L : Rat) (hr : ExactRecQ m r d L)
    (hanchor : r.start.isSome = true ∨ r.end_.isSome = true) (p : TPQ) (hp : p.Valid m) (fuel : Nat) :
    getIsValidQ m r p fuel = true ↔ ∃ q ∈ iterQ m r fuel, q.inst m = p.inst m :=
  getIsValidQ_iff m r d L hr hanchor p hp fuel

/-- What the constructor stores for `Rn/start/d`, with the facts the query theorems use. -/
theorem fmt3_bounded_facts (m : Mode) (n : Nat) (s : TPQ) (d : DurationQ) (hn : 2 ≤ n) (hs : s.Valid m)
    (hex : d.isExact = true) (hpos : 0 < d.exactSeconds m) :
    ∃ e, mkRecQ m (some (n : Int)) (some s) (some d) none = some ⟨some (n : Int), some s, some d, some e, none, 3⟩ ∧
      ExactRecQ m ⟨some (n : Int), some s, some d, some e, none, 3⟩ d (d.exactSeconds m) ∧
      e.inst m = s.inst m + ((n - 1 : Nat) : Rat) * d.exactSeconds m := by
  have hpos' : 0 < len d := by rw [← exactSeconds_eq m d]; exact hpos
  obtain ⟨e, hr, g⟩ := mkRecQ_fmt3_bounded m n s d (by omega) hs hex hpos'
  refine ⟨e, hr, exactRecQ_of m _ d rfl hex hpos (by simp; omega) (fun s' h => by cases h; exact hs)
    (fun e' h => by cases h; exact g.valid), ?_⟩
  rw [g.inst, cast_pred n (by omega), exactSeconds_eq]; grind

/-- **get_is_valid**, start/duration with `n ≥ 2` repetitions: true exactly when iteration yields a
    point at the probe's instant, i.e. iff the probe is at `inst(start) + k·len(d)` for some
    `0 ≤ k < n` — whatever representation, offset or precision form the probe is written in. -/
theorem C13_rat_is_valid_bounded (m : Mode) (n : Nat) (s : TPQ) (d : DurationQ) (hn : 2 ≤ n) (hs : s.Valid m)
    (hex : d.isExact = true) (hpos : 0 < d.exactSeconds m) (fuel : Nat) (hf : n ≤ fuel)
    (p : TPQ) (hp : p.Valid m) :
    ∃ r, mkRecQ m (some (n : Int)) (some s) (some d) none = some r ∧
      (getIsValidQ m r p fuel = true ↔ ∃ q ∈ iterQ m r fuel, q.inst m = p.inst m) ∧
      ((∃ q ∈ iterQ m r fuel, q.inst m = p.inst m) ↔
        ∃ k : Nat, k < n ∧ p.inst m = s.inst m + (k : Rat) * d.exactSeconds m) := by
  obtain ⟨r, hr, hlen, _, hser⟩ := C12_rat_start_duration_bounded m n s d hn hs hex hpos fuel hf
  obtain ⟨e, hr', hx, _⟩ := fmt3_bounded_facts m n s d hn hs hex hpos
  rw [hr] at hr'
  have hre : r = ⟨some (n : Int), some s, some d, some e, none, 3⟩ := by simpa using hr'
  subst hre
  refine ⟨_, hr, getIsValidQ_iff m _ d _ hx (Or.inl rfl) p hp fuel, ?_⟩
  rw [seriesQ_mem_iff m s _ _ _ hser (p.inst m), hlen]

/-- A probe off the grid — `ε` away from a member, `0 < ε < len(d)`, any rational `ε` — is not valid. -/
theorem C13_rat_is_valid_off_grid (m : Mode) (n : Nat) (s : TPQ) (d : DurationQ) (hn : 2 ≤ n) (hs : s.Valid m)
    (hex : d.isExact = true) (hpos : 0 < d.exactSeconds m) (fuel : Nat) (hf : n ≤ fuel)
    (p : TPQ) (hp : p.Valid m) (j : Nat) (ε : Rat) (h0 : 0 < ε) (h1 : ε < d.exactSeconds m)
    (hpi : p.inst m = s.inst m + (j : Rat) * d.exactSeconds m + ε) :
    ∃ r, mkRecQ m (some (n : Int)) (some s) (some d) none = some r ∧ getIsValidQ m r p fuel = false := by
  obtain ⟨r, hr, h2, h3⟩ := C13_rat_is_valid_bounded m n s d hn hs hex hpos fuel hf p hp
  refine ⟨r, hr, ?_⟩
  cases hv : getIsValidQ m r p fuel
  · rfl
  · exfalso
    obtain ⟨k, _, hk⟩ := h3.mp (h2.mp hv)
    rw [hpi] at hk
    -- (k - j)·L = ε with 0 < ε < L is impossible for whole k, j
    rcases Nat.lt_trichotomy k j with c | c | c
    · have : ((k + 1 : Nat) : Rat) ≤ (j : Rat) := Rat.natCast_le_natCast.2 c
      have := Rat.mul_le_mul_of_nonneg_right this (Rat.le_of_lt hpos)
      rw [natCast_succ_mul] at this; grind
    · subst c; grind
    · have : ((j + 1 : Nat) : Rat) ≤ (k : Rat) := Rat.natCast_le_natCast.2 c
      have := Rat.mul_le_mul_of_nonneg_right this (Rat.le_of_lt hpos)
      rw [natCast_succ_mul] at this; grind

/-- **get_is_valid**, start/duration unbounded: once the scanned prefix reaches past the probe
    (`inst(p) < inst(start) + fuel·len(d)` — in the Python the scan simply runs until it passes the
    probe), `get_is_valid p` iff `inst(p) = inst(start) + k·len(d)` for some `k ≥ 0`. -/
theorem C13_rat_is_valid_unbounded (m : Mode) (s : TPQ) (d : DurationQ) (hs : s.Valid m)
    (hex : d.isExact = true) (hpos : 0 < d.exactSeconds m) (fuel : Nat) (p : TPQ) (hp : p.Valid m)
    (hfuel : p.inst m < s.inst m + (fuel : Rat) * d.exactSeconds m) :
    ∃ r, mkRecQ m none (some s) (some d) none = some r ∧
      (getIsValidQ m r p fuel = true ↔ ∃ k : Nat, p.inst m = s.inst m + (k : Rat) * d.exactSeconds m) := by
  obtain ⟨r, hr, hlen, hser⟩ := C12_rat_start_duration_unbounded m s d hs hex hpos fuel
  have hpos' : 0 < len d := by rw [← exactSeconds_eq m d]; exact hpos
  have hr' := mkRecQ_fmt3_unbounded m s d hex hpos'
  rw [hr] at hr'
  have hre : r = ⟨none, some s, some d, none, none, 3⟩ := by simpa using hr'
  subst hre
  have hx : ExactRecQ m ⟨none, some s, some d, none, none, 3⟩ d (d.exactSeconds m) :=
    exactRecQ_of m _ d rfl hex hpos (by simp) (fun s' h => by cases h; exact hs) (fun e' h => by cases h)
  refine ⟨_, hr, ?_⟩
  rw [getIsValidQ_iff m _ d _ hx (Or.inl rfl) p hp fuel, seriesQ_mem_iff m s _ _ _ hser (p.inst m), hlen]
  constructor
  · rintro ⟨k, _, hk⟩; exact ⟨k, hk⟩
  · rintro ⟨k, hk⟩
    refine ⟨k, ?_, hk⟩
    rcases Nat.lt_or_ge k fuel with c | c
    · exact c
    · exfalso
      have : (fuel : Rat) ≤ (k : Rat) := Rat.natCast_le_natCast.2 c
      have := Rat.mul_le_mul_of_nonneg_right this (Rat.le_of_lt hpos)
      grind

/-- **`r[i]`** is the `i`-th iterated point (start/duration, `n ≥ 2`, exact interval): at instant
    `inst(start) + i·len(d)` for `i < n`, and an `IndexError` (`none`) from `n` on. -/
theorem C13_rat_getitem (m : Mode) (n : Nat) (s : TPQ) (d : DurationQ) (hn : 2 ≤ n) (hs : s.Valid m)
    (hex : d.isExact = true) (hpos : 0 < d.exactSeconds m) (i : Nat) :
    ∃ r, mkRecQ m (some (n : Int)) (some s) (some d) none = some r ∧
      (i < n → ∃ p, getItemQ m r i = some p ∧ p.inst m = s.inst m + (i : Rat) * d.exactSeconds m ∧
        p.Valid m ∧ SameFormQ s p) ∧
      (n ≤ i → getItemQ m r i = none) := by
  obtain ⟨e, hr, hx, ei⟩ := fmt3_bounded_facts m n s d hn hs hex hpos
  refine ⟨_, hr, ?_, ?_⟩
  · intro hi
    unfold getItemQ
    rw [iterQ_fwd m _ d _ hx s rfl (i + 1), ← iterFromQ_prefix m _ false i (max n (i + 1)) s (by omega)]
    obtain ⟨a, b, _⟩ := iterFromQ_fwd m _ d _ hx (max n (i + 1)) s hs (fun s' h => by cases h; exact Rat.le_refl)
    have hlen := b e rfl (n - 1) (by rw [ei]; exact Rat.le_refl)
      (by rw [ei, pred_succ_cast n (by omega)]; grind)
    exact seriesQ_getElem? m s _ _ _ a i (by omega)
  · intro hi
    unfold getItemQ
    rw [iterQ_fwd m _ d _ hx s rfl (i + 1)]
    obtain ⟨_, b, _⟩ := iterFromQ_fwd m _ d _ hx (i + 1) s hs (fun s' h => by cases h; exact Rat.le_refl)
    have hlen := b e rfl (n - 1) (by rw [ei]; exact Rat.le_refl)
      (by rw [ei, pred_succ_cast n (by omega)]; grind)
    exact List.getElem?_eq_none (by omega)

/-! ## Non-vacuity (kernel-evaluated runs of the model) -/

-- R3/2020-01-01T00:00:00Z/PT0,25S: 00:00:00.25 is valid — also written in +01:00 —, 00:00:00.251 is not
example : getIsValidQ .greg ⟨some 3, some ⟨.cal 2020 1 1, 0, some 0, some 0, ⟨0, 0⟩⟩,
      some (.units 0 0 0 0 0 (1/4)), some ⟨.cal 2020 1 1, 0, some 0, some (1/2), ⟨0, 0⟩⟩, none, 3⟩
      ⟨.cal 2020 1 1, 0, some 0, some (1/4), ⟨0, 0⟩⟩ 10 = true ∧
    getIsValidQ .greg ⟨some 3, some ⟨.cal 2020 1 1, 0, some 0, some 0, ⟨0, 0⟩⟩,
      some (.units 0 0 0 0 0 (1/4)), some ⟨.cal 2020 1 1, 0, some 0, some (1/2), ⟨0, 0⟩⟩, none, 3⟩
      ⟨.ord 2020 1, 1, some 0, some (1/4), ⟨1, 0⟩⟩ 10 = true ∧
    getIsValidQ .greg ⟨some 3, some ⟨.cal 2020 1 1, 0, some 0, some 0, ⟨0, 0⟩⟩,
      some (.units 0 0 0 0 0 (1/4)), some ⟨.cal 2020 1 1, 0, some 0, some (1/2), ⟨0, 0⟩⟩, none, 3⟩
      ⟨.cal 2020 1 1, 0, some 0, some (251/1000), ⟨0, 0⟩⟩ 10 = false := by decide +kernel

example : getItemQ .greg ⟨some 3, some ⟨.cal 2020 1 1, 0, some 0, some 0, ⟨0, 0⟩⟩,
      some (.units 0 0 0 0 0 (1/4)), some ⟨.cal 2020 1 1, 0, some 0, some (1/2), ⟨0, 0⟩⟩, none, 3⟩ 2 =
      some ⟨.cal 2020 1 1, 0, some 0, some (1/2), ⟨0, 0⟩⟩ ∧
    getItemQ .greg ⟨some 3, some ⟨.cal 2020 1 1, 0, some 0, some 0, ⟨0, 0⟩⟩,
      some (.units 0 0 0 0 0 (1/4)), some ⟨.cal 2020 1 1, 0, some 0, some (1/2), ⟨0, 0⟩⟩, none, 3⟩ 3 = none := by
  decide +kernel

-- get_next at the last point is None, get_prev of the second point is the start
example : getNextQ .greg ⟨some 3, some ⟨.cal 2020 1 1, 0, some 0, some 0, ⟨0, 0⟩⟩,
      some (.units 0 0 0 0 0 (1/4)), some ⟨.cal 2020 1 1, 0, some 0, some (1/2), ⟨0, 0⟩⟩, none, 3⟩
      ⟨.cal 2020 1 1, 0, some 0, some (1/2), ⟨0, 0⟩⟩ = none ∧
    getPrevQ .greg ⟨some 3, some ⟨.cal 2020 1 1, 0, some 0, some 0, ⟨0, 0⟩⟩,
      some (.units 0 0 0 0 0 (1/4)), some ⟨.cal 2020 1 1, 0, some 0, some (1/2), ⟨0, 0⟩⟩, none, 3⟩
      ⟨.cal 2020 1 1, 0, some 0, some (1/4), ⟨0, 0⟩⟩ = some ⟨.cal 2020 1 1, 0, some 0, some 0, ⟨0, 0⟩⟩ := by
  decide +kernel

end IsoDT.Props.C13q
