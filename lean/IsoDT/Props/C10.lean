/-
  C10 — Durations survive a round trip through text.

  `toText` is `Duration.__str__`, `parse` is `DurationParser.parse` (Model/DurText.lean), the three
  regular expressions are the regenerated `Gen.durRegex0/1/2` (Gen/DurRegex.lean, read from the live
  compiled patterns) run by the leftmost-greedy backtracking matcher `Re.run`.  Components are
  integers; hours/minutes/seconds pass through `float(...)`, modelled as the nearest binary64 value
  (`f64Nat`).  Decimal components are outside these theorems (observed by the harness only).
-/
import IsoDT.Lemmas.DurText

namespace IsoDT.Props.C10
open IsoDT IsoDT.Model IsoDT.Model.DurText IsoDT.Gen IsoDT.Lemmas IsoDT.Lemmas.DurText

/-- All non-zero components share one sign (the week form has a single component). -/
def SingleSigned : Dur → Prop
  | .weeks _ => True
  | .units y mo d h mi s =>
    (0 ≤ y ∧ 0 ≤ mo ∧ 0 ≤ d ∧ 0 ≤ h ∧ 0 ≤ mi ∧ 0 ≤ s) ∨ (y ≤ 0 ∧ mo ≤ 0 ∧ d ≤ 0 ∧ h ≤ 0 ∧ mi ≤ 0 ∧ s ≤ 0)

/-- Hours, minutes and seconds are integers binary64 holds exactly (the parser reads them with
    `float`); true of everything below 2^53 (`timeExact_of_lt`). -/
def TimeExact : Dur → Prop
  | .weeks _ => True
  | .units _ _ _ h mi s => F64Exact h.natAbs ∧ F64Exact mi.natAbs ∧ F64Exact s.natAbs

theorem timeExact_of_lt (y mo d h mi s : Int) (hh : h.natAbs < 2 ^ 53) (hmi : mi.natAbs < 2 ^ 53)
    (hs : s.natAbs < 2 ^ 53) : TimeExact (.units y mo d h mi s) :=
  ⟨f64Exact_of_lt _ hh, f64Exact_of_lt _ hmi, f64Exact_of_lt _ hs⟩

/-- What `parse (str d)` returns: `d` itself, except that an empty duration (also the empty week
    form `0W`, which prints as `P0Y`) comes back as the empty unit form. -/
def normal (d : Dur) : Dur := if d.nonzero then d else .units 0 0 0 0 0 0

/-- **C10 round trip**: for every single-signed integer duration `d` (unit form with any mix of
    absent/zero/present units, or week form; either sign; components of any size, the time units
    exactly representable in binary64), in every calendar mode: `DurationParser.parse(str(d))`
    succeeds with `normal d` (field for field `d`, the empty duration as `P0Y`), which `==` `d`
    (both operand orders), and `str` is a fixpoint.  Python evaluates `==` in binary64 once a slot
    is a float; `Dur.eq` here is over exact integers (they agree up to 2^53 seconds, observed by
    the harness op `drteq`).  Mixed-sign durations are outside the property (`str` prints e.g.
    `P1Y-2M`, which is not parseable: `C10_mixed_sign_unparseable_example`). -/
theorem C10_roundtrip (m : Mode) (d : Dur) (hs : SingleSigned d) (hx : TimeExact d) :
    parse m (toText d) = .ok (normal d) ∧ Dur.eq m (normal d) d = true ∧ Dur.eq m d (normal d) = true ∧
      toText (normal d) = toText d := by
  by_cases hnz : d.nonzero = true
  · have hn : normal d = d := by unfold normal; rw [if_pos hnz]
    rw [hn]
    refine ⟨?_, dur_eq_refl m d, dur_eq_refl m d, rfl⟩
    cases d with
    | weeks w =>
      have hw : w ≠ 0 := by simpa [Dur.nonzero] using hnz
      by_cases hpos : 0 < w
      · rw [toText_weeks_pos w hpos]
        unfold desigW
        rw [parse_pos m _ (desigW_ascii _ (natDigits_digs _))]
        have := parseBody_desigW m 1 _ (natDigits_digs w.natAbs) (natDigits_ne_nil _)
        unfold desigW at this
        rw [this, digitsVal_natDigits, ← mkDur_weeks m w hw]
        congr 2; omega
      · rw [toText_weeks_neg w (by omega), parse_neg m _ (desigW_ascii _ (natDigits_digs _)),
          parseBody_desigW m (-1) _ (natDigits_digs w.natAbs) (natDigits_ne_nil _), digitsVal_natDigits,
          ← mkDur_weeks m w hw]
        congr 2; omega
    | units y mo dd h mi s =>
      obtain ⟨xh, xmi, xs⟩ := hx
      rcases hs with ⟨a1, a2, a3, a4, a5, a6⟩ | ⟨a1, a2, a3, a4, a5, a6⟩
      · rw [toText_units_pos y mo dd h mi s a1 a2 a3 a4 a5 a6 hnz]
        unfold desig
        rw [parse_pos m _ (desig_ascii _ _ _ _ (ofv_good y) (ofv_good mo) (ofv_good dd) (tOf_good h mi s))]
        have := parseBody_units m 1 y mo dd h mi s a1 a2 a3 a4 a5 a6 xh xmi xs
        unfold desig at this
        rw [this]
        simp only [Int.mul_one]
      · rw [toText_units_neg y mo dd h mi s a1 a2 a3 a4 a5 a6 hnz,
          parse_neg m _ (desig_ascii _ _ _ _ (ofv_good _) (ofv_good _) (ofv_good _) (tOf_good _ _ _)),
          parseBody_units m (-1) (-y) (-mo) (-dd) (-h) (-mi) (-s) (by omega) (by omega) (by omega) (by omega)
            (by omega) (by omega) (by rw [Int.natAbs_neg]; exact xh) (by rw [Int.natAbs_neg]; exact xmi)
            (by rw [Int.natAbs_neg]; exact xs)]
        simp only [Int.mul_neg, Int.mul_one, Int.neg_neg]
  · have hz : d.nonzero = false := by simpa using hnz
    have hn : normal d = .units 0 0 0 0 0 0 := by unfold normal; rw [hz]; rfl
    rw [hn, toText_zero d hz]
    have hp : parse m ['P', '0', 'Y'] = .ok (.units 0 0 0 0 0 0) := by
      have e : (['P', '0', 'Y'] : List Char) = desig (some ['0']) none none none := rfl
      have g : GoodF (some ['0']) := GoodF.some (Digs.cons (by decide) Digs.nil) (by simp)
      rw [e]
      unfold desig
      rw [parse_pos m _ (desig_ascii (some ['0']) none none none g GoodF.none GoodF.none trivial)]
      have := parseBody_desig m 1 (some ['0']) none none none g GoodF.none GoodF.none trivial trivial
      unfold desig at this
      rw [this, mkDur_units]
      rfl
    refine ⟨hp, ?_, ?_, ?_⟩
    · cases d with
      | weeks w =>
        have : w = 0 := by simpa [Dur.nonzero] using hz
        subst this
        simp [Dur.eq, Dur.isExact, Dur.exactSeconds]
      | units y mo dd h mi s =>
        simp only [Dur.nonzero, Bool.or_eq_false_iff, bne_eq_false_iff_eq] at hz
        obtain ⟨⟨⟨⟨⟨rfl, rfl⟩, rfl⟩, rfl⟩, rfl⟩, rfl⟩ := hz
        exact dur_eq_refl m _
    · cases d with
      | weeks w =>
        have : w = 0 := by simpa [Dur.nonzero] using hz
        subst this
        simp [Dur.eq, Dur.isExact, Dur.exactSeconds]
      | units y mo dd h mi s =>
        simp only [Dur.nonzero, Bool.or_eq_false_iff, bne_eq_false_iff_eq] at hz
        obtain ⟨⟨⟨⟨⟨rfl, rfl⟩, rfl⟩, rfl⟩, rfl⟩, rfl⟩ := hz
        exact dur_eq_refl m _
    · rfl

/-- The recursion in `__str__`: for a fully negative value the text is `-` followed by the text of
    `abs(self)` (the model's `toText` spells the recursive call out as `toTextPos`; this is the
    justification). -/
theorem C10_str_negative (d : Dur) (hnz : d.nonzero = true) (hneg : fullyNegLoop (comps d) false = true) :
    toText d = '-' :: toText d.abs := by
  have h1 : d.abs.nonzero = true := by
    cases d <;> simp only [Dur.abs, Dur.nonzero, Bool.or_eq_true, bne_iff_ne, ne_eq] at hnz ⊢ <;> omega
  have h2 : fullyNegLoop (comps d.abs) false = false := by
    apply fnl_nonneg
    intro v hv
    cases d <;> simp only [Dur.abs, comps, List.mem_cons, List.not_mem_nil, or_false] at hv <;> omega
  conv => lhs; unfold toText
  conv => rhs; unfold toText
  simp only [hnz, hneg, h1, h2, Bool.not_true, Bool.false_eq_true, ↓reduceIte]

/-- The sign prefix of a designator string. -/
def signed (neg : Bool) (s : List Char) : List Char := if neg then '-' :: s else s
def sgn (neg : Bool) : Int := if neg then -1 else 1

/-- **C10 designators**: every string `[-]P[nY][nM][nD][T[nH][nM][nS]]` — each field an arbitrary
    non-empty run of ASCII digits (leading zeros, any length) or absent, the `T` part absent or
    present (even with no field after it), a leading `-` or not — is accepted and decodes to exactly
    its fields: years, months, days are the integers written, hours, minutes, seconds the nearest
    binary64 value of the integer written (`fval`; the integer itself below 2^53), absent fields are
    0, and a leading `-` negates every field.  The greedy `\d.*` groups of the second pattern back
    off to exactly the digits of their own unit on these strings.  (Time fields are taken below the
    binary64 overflow threshold `2^1023`; the model answers `outside` beyond it.) -/
theorem C10_designators (m : Mode) (neg : Bool) (fy fmo fd : Option (List Char)) (ft : Option TimeF)
    (hy : GoodF fy) (hmo : GoodF fmo) (hd : GoodF fd) (ht : GoodT ft) (hb : FltOkT ft) :
    parse m (signed neg (desig fy fmo fd ft)) =
      .ok (.units (ival fy * sgn neg) (ival fmo * sgn neg) (ival fd * sgn neg)
        ((tvals ft).1 * sgn neg) ((tvals ft).2.1 * sgn neg) ((tvals ft).2.2 * sgn neg)) := by
  have hasc := desig_ascii fy fmo fd ft hy hmo hd ht
  cases neg with
  | true =>
    show parse m ('-' :: desig fy fmo fd ft) = _
    rw [parse_neg m _ hasc, parseBody_desig m (-1) fy fmo fd ft hy hmo hd ht hb, mkDur_units]
    rfl
  | false =>
    show parse m (desig fy fmo fd ft) = _
    have := parseBody_desig m 1 fy fmo fd ft hy hmo hd ht hb
    unfold desig at this hasc ⊢
    rw [parse_pos m _ hasc, this, mkDur_units]
    rfl

/-- **C10 designators, week form**: `[-]PnW` (n any non-empty run of ASCII digits) decodes to the
    week-form duration of n weeks, negated by a leading `-`; `P0W` is the empty duration. -/
theorem C10_designators_weeks (m : Mode) (neg : Bool) (ds : List Char) (h : Digs ds) (hne : ds ≠ []) :
    parse m (signed neg (desigW ds)) =
      .ok (if digitsVal ds = 0 then .units 0 0 0 0 0 0 else .weeks ((digitsVal ds : Int) * sgn neg)) := by
  have hasc := desigW_ascii ds h
  have key : ∀ sg : Int, sg ≠ 0 → mkDur m 0 0 ((digitsVal ds : Int) * sg) 0 0 0 0 =
      if digitsVal ds = 0 then .units 0 0 0 0 0 0 else .weeks ((digitsVal ds : Int) * sg) := by
    intro sg hsg
    by_cases hz : digitsVal ds = 0
    · rw [if_pos hz, hz]; simp [mkDur_units]
    · rw [if_neg hz]
      exact mkDur_weeks m _ (Int.mul_ne_zero (by omega) hsg)
  cases neg with
  | true =>
    show parse m ('-' :: desigW ds) = _
    rw [parse_neg m _ hasc, parseBody_desigW m (-1) ds h hne, key (-1) (by decide)]
    rfl
  | false =>
    show parse m (desigW ds) = _
    have := parseBody_desigW m 1 ds h hne
    unfold desigW at this hasc ⊢
    rw [parse_pos m _ hasc, this, key 1 (by decide)]
    rfl

/-- **C10 alternative spelling**: each complete date-time-like spelling — extended calendar
    `P[YYYY]-[MM]-[DD]T[hh]:[mm]:[ss]`, basic calendar `PYYYYMMDDThhmmss`, extended ordinal
    `P[YYYY]-[DDD]T[hh]:[mm]:[ss]`, basic ordinal `PYYYYDDDThhmmss`, any digits in the fields (no
    range check: `P9999-99-99T99:99:99` is 9999 years 99 months ...) — matches none of the three
    designator patterns, goes through the time-point parser, and denotes exactly the duration its
    designator spelling with the same digit runs (`P[YYYY]Y[MM]M[DD]DT[hh]H[mm]M[ss]S`) denotes. -/
theorem C10_alt (m : Mode) (yy mm dd ddd hh mi ss : List Char)
    (h1 : Digs yy) (l1 : yy.length = 4) (h2 : Digs mm) (l2 : mm.length = 2) (h3 : Digs dd) (l3 : dd.length = 2)
    (h3' : Digs ddd) (l3' : ddd.length = 3)
    (h4 : Digs hh) (l4 : hh.length = 2) (h5 : Digs mi) (l5 : mi.length = 2) (h6 : Digs ss) (l6 : ss.length = 2) :
    let cal := Dur.units (digitsVal yy) (digitsVal mm) (digitsVal dd) (digitsVal hh) (digitsVal mi) (digitsVal ss)
    let ord := Dur.units (digitsVal yy) 0 (digitsVal ddd) (digitsVal hh) (digitsVal mi) (digitsVal ss)
    parse m ('P' :: altXC yy mm dd hh mi ss) = .ok cal ∧
    parse m ('P' :: altBC yy mm dd hh mi ss) = .ok cal ∧
    parse m (desig (some yy) (some mm) (some dd) (some (some hh, some mi, some ss))) = .ok cal ∧
    parse m ('P' :: altXO yy ddd hh mi ss) = .ok ord ∧
    parse m ('P' :: altBO yy ddd hh mi ss) = .ok ord ∧
    parse m (desig (some yy) none (some ddd) (some (some hh, some mi, some ss))) = .ok ord := by
  have ne_of_len : ∀ (l : List Char) (n : Nat), l.length = n + 1 → l ≠ [] := by
    intro l n h e; rw [e] at h; simp at h
  have small : ∀ (l : List Char), l.length = 2 → Digs l → F64Exact (digitsVal l) := by
    intro l hl hd
    obtain ⟨a, b, rfl⟩ := len2 l hl
    apply f64Exact_of_lt
    have ha := (isDig_iff a).mp (hd a (by simp))
    have hb := (isDig_iff b).mp (hd b (by simp))
    simp only [digitsVal, List.foldl_cons, List.foldl_nil]
    omega
  have gt : GoodT (some (some hh, some mi, some ss)) :=
    ⟨GoodF.some h4 (ne_of_len _ 1 l4), GoodF.some h5 (ne_of_len _ 1 l5), GoodF.some h6 (ne_of_len _ 1 l6)⟩
  have bt : FltOkT (some (some hh, some mi, some ss)) := by
    refine ⟨?_, ?_, ?_⟩ <;> intro ds e <;> injection e with e <;> rw [← e]
    · exact (small hh l4 h4).1
    · exact (small mi l5 h5).1
    · exact (small ss l6 h6).1
  have tv : tvals (some (some hh, some mi, some ss)) = ((digitsVal hh : Int), (digitsVal mi : Int), (digitsVal ss : Int)) := by
    simp only [tvals, fval, (small hh l4 h4).2, (small mi l5 h5).2, (small ss l6 h6).2]
  refine ⟨parse_altXC m yy mm dd hh mi ss h1 l1 h2 l2 h3 l3 h4 l4 h5 l5 h6 l6,
    parse_altBC m yy mm dd hh mi ss h1 l1 h2 l2 h3 l3 h4 l4 h5 l5 h6 l6, ?_,
    parse_altXO m yy ddd hh mi ss h1 l1 h3' l3' h4 l4 h5 l5 h6 l6,
    parse_altBO m yy ddd hh mi ss h1 l1 h3' l3' h4 l4 h5 l5 h6 l6, ?_⟩
  · have := C10_designators m false (some yy) (some mm) (some dd) _ (GoodF.some h1 (ne_of_len _ 3 l1))
      (GoodF.some h2 (ne_of_len _ 1 l2)) (GoodF.some h3 (ne_of_len _ 1 l3)) gt bt
    simp only [signed, sgn, Bool.false_eq_true, ↓reduceIte, Int.mul_one, tv, ival] at this
    exact this
  · have := C10_designators m false (some yy) none (some ddd) _ (GoodF.some h1 (ne_of_len _ 3 l1))
      GoodF.none (GoodF.some h3' (ne_of_len _ 2 l3')) gt bt
    simp only [signed, sgn, Bool.false_eq_true, ↓reduceIte, Int.mul_one, tv, ival] at this
    exact this

/-- The alternative spelling of numeric fields (zero-padded to the fixed widths) denotes the same
    duration as the canonical designator text `str` prints for those fields. -/
theorem C10_alt_canonical (m : Mode) (Y M D h mi s : Nat) (hY : Y < 10000) (hM : M < 100) (hD : D < 100)
    (hh : h < 100) (hmi : mi < 100) (hs : s < 100) :
    parse m ('P' :: altXC (renderW 4 Y) (renderW 2 M) (renderW 2 D) (renderW 2 h) (renderW 2 mi) (renderW 2 s)) =
      .ok (.units Y M D h mi s) ∧
    parse m ('P' :: altBC (renderW 4 Y) (renderW 2 M) (renderW 2 D) (renderW 2 h) (renderW 2 mi) (renderW 2 s)) =
      .ok (.units Y M D h mi s) ∧
    parse m (toText (.units Y M D h mi s)) = .ok (normal (.units Y M D h mi s)) ∧
    Dur.eq m (normal (.units Y M D h mi s)) (.units Y M D h mi s) = true := by
  have e4 : digitsVal (renderW 4 Y) = Y := by rw [digitsVal_renderW]; exact Nat.mod_eq_of_lt hY
  have e2 : ∀ v, v < 100 → digitsVal (renderW 2 v) = v := by
    intro v hv; rw [digitsVal_renderW]; exact Nat.mod_eq_of_lt hv
  have a := C10_alt m (renderW 4 Y) (renderW 2 M) (renderW 2 D) (renderW 3 D) (renderW 2 h) (renderW 2 mi)
    (renderW 2 s) (renderW_digs _ _) (renderW_length _ _) (renderW_digs _ _) (renderW_length _ _)
    (renderW_digs _ _) (renderW_length _ _) (renderW_digs _ _) (renderW_length _ _) (renderW_digs _ _)
    (renderW_length _ _) (renderW_digs _ _) (renderW_length _ _) (renderW_digs _ _) (renderW_length _ _)
  simp only [e4, e2 M hM, e2 D hD, e2 h hh, e2 mi hmi, e2 s hs] at a
  have r := C10_roundtrip m (.units Y M D h mi s)
    (Or.inl ⟨by omega, by omega, by omega, by omega, by omega, by omega⟩)
    (timeExact_of_lt _ _ _ _ _ _ (by simp only [Int.natAbs_natCast]; omega)
      (by simp only [Int.natAbs_natCast]; omega) (by simp only [Int.natAbs_natCast]; omega))
  exact ⟨a.1, a.2.1, r.1, r.2.1⟩

/-- **Counter-witness (float domain)**: the round trip at full strength — *every* single-signed
    integer duration — is false of the code: an hours/minutes/seconds integer that binary64 cannot
    hold comes back rounded, because the parser reads those groups with `float`.  `PT9007199254740993S`
    (2^53 + 1 seconds) parses to 2^53 seconds, which is not equal to the original. -/
theorem C10_roundtrip_counter_beyond_binary64 :
    SingleSigned (.units 0 0 0 0 0 (2 ^ 53 + 1)) ∧
    parse .greg (toText (.units 0 0 0 0 0 (2 ^ 53 + 1))) = .ok (.units 0 0 0 0 0 (2 ^ 53)) ∧
    Dur.eq .greg (.units 0 0 0 0 0 (2 ^ 53)) (.units 0 0 0 0 0 (2 ^ 53 + 1)) = false := by
  refine ⟨Or.inl (by decide), by decide +kernel, by decide +kernel⟩

/-- A mixed-sign duration prints as text the parser refuses (outside the property, recorded). -/
theorem C10_mixed_sign_unparseable_example :
    toText (.units 1 (-2) 0 0 0 0) = "P1Y-2M".toList ∧
    parse .greg (toText (.units 1 (-2) 0 0 0 0)) = .syntaxErr := by
  refine ⟨by decide +kernel, by decide +kernel⟩

/-! ## Non-vacuity -/

theorem digs_of_all (ds : List Char) (h : ds.all isDig = true) : Digs ds := by
  intro c hc; exact List.all_eq_true.mp h c hc

example : SingleSigned (.units (-1) 0 (-3) 0 (-59) 0) ∧ TimeExact (.units (-1) 0 (-3) 0 (-59) 0) ∧
    toText (.units (-1) 0 (-3) 0 (-59) 0) = "-P1Y3DT59M".toList ∧
    parse .d360 "-P1Y3DT59M".toList = .ok (.units (-1) 0 (-3) 0 (-59) 0) := by
  refine ⟨Or.inr (by decide), timeExact_of_lt _ _ _ _ _ _ (by decide) (by decide) (by decide),
    by decide +kernel, by decide +kernel⟩
example : toText (.weeks (-52)) = "-P52W".toList ∧ parse .greg "-P52W".toList = .ok (.weeks (-52)) ∧
    toText (.weeks 0) = "P0Y".toList ∧ normal (.weeks 0) = .units 0 0 0 0 0 0 := by
  refine ⟨by decide +kernel, by decide +kernel, by decide +kernel, by decide⟩
-- leading zeros, a long digit run, the `T` part with greedy groups, and the sign
example : GoodF (some "007".toList) ∧ GoodT (some (none, some "90".toList, some "0061".toList)) ∧
    parse .greg "-P007YT90M0061S".toList = .ok (.units (-7) 0 0 0 (-90) (-61)) := by
  refine ⟨GoodF.some (digs_of_all _ (by decide)) (by decide), ⟨GoodF.none,
    GoodF.some (digs_of_all _ (by decide)) (by decide), GoodF.some (digs_of_all _ (by decide)) (by decide)⟩,
    by decide +kernel⟩
example : parse .greg "P0001-02-03T04:05:06".toList = .ok (.units 1 2 3 4 5 6) ∧
    parse .greg "P00010203T040506".toList = .ok (.units 1 2 3 4 5 6) ∧
    parse .greg "P0001-034T04:05:06".toList = .ok (.units 1 0 34 4 5 6) ∧
    parse .greg "P0001034T040506".toList = .ok (.units 1 0 34 4 5 6) ∧
    parse .greg "P0001Y02M03DT04H05M06S".toList = .ok (.units 1 2 3 4 5 6) := by
  refine ⟨by decide +kernel, by decide +kernel, by decide +kernel, by decide +kernel, by decide +kernel⟩
-- what the greedy groups do off the designator grammar (a ValueError of float(), not a syntax error)
example : parse .greg "PT1H2H".toList = .valueErr ∧ parse .greg "P1Y2M3D4H".toList = .syntaxErr ∧
    parse .greg "-P0001-02-03T04:05:06".toList = .syntaxErr := by
  refine ⟨by decide +kernel, by decide +kernel, by decide +kernel⟩

end IsoDT.Props.C10
