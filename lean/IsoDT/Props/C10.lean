import IsoDT.Model.DurText
namespace IsoDT.Props.C10
theorem stub : True := trivial
end IsoDT.Props.C10
