/-
  C08 (custom formats) — "dumping with any custom format that contains a complete date, the time down
  to p's precision and a zone likewise parses back to an equal instant".

  The class of formats (`Custom.CFmt`, `Lemmas/TextCustomDefs`): a complete date expression
  (`CCYY-MM-DD`, `CCYY-DDD`, `CCYY-Www-D`, or basic `CCYYMMDD`, `CCYYDDD`, `CCYYWwwD`; optionally with the
  expanded-year token `+X`), `T`, the time down to the second (`hh:mm:ss` / `hhmmss`; optionally a
  decimal part `,tt` / `.tt`), and a zone expression — `Z`, a placeholder (`+hh:mm` extended, `+hhmm`
  basic, `+hh`) or a LITERAL offset in the same three spellings — basic or extended consistently.
  That is 2·3·2·3 = 36 date/time shapes times the zone expressions (every legal literal offset), for
  each of the regenerated dumper tables (0, 2, 3 expanded year digits).

  `IsoDT.Text.dump` mirrors `TimePointDumper.dump` / `_get_expression_and_properties` /
  `get_time_zone` / `_dump_expression_with_properties`; `IsoDT.Text.parse` mirrors
  `TimePointParser.parse`.  Agreement with the Python: driver ops `tdump`, `dumpzone`.

  For a valid WHOLE-SECOND point `p` (three representations, any offset, 24:00:00, four modes):
    * `C08_custom_target`   the specified point `f.target m p` — `p` converted to the format's zone
                            (`to_time_zone`, C06) and then to the format's representation (C03) —
                            exists, is valid, is the same instant, carries the format's zone;
    * `C08_custom_dump`     `dump p f` is the specified text `customText` of that point, field by field,
                            whenever its year is within the digits the format prints;
    * `C08_custom_dump_bounds`  … and the dumper's bounds error otherwise;
    * `C08_custom_parse`    the specified text is read back as exactly that point;
    * `C08_custom_roundtrip` the two together.
  Definitions and proofs: `Lemmas/TextCustomDefs`, `TextCustomZone`, `TextCustomExpr`, `TextCustomDump`,
  `TextCustomParse`.
-/
import IsoDT.Lemmas.TextCustomDump
import IsoDT.Lemmas.TextCustomParse
import IsoDT.Props.C08b

namespace IsoDT.Props.C08
open IsoDT IsoDT.Model IsoDT.Text IsoDT.Text.Custom
open IsoDT.Spec (Date TZ TP)
open _root_.IsoDT.Gen.Templates (dumpTables parserTables dumper_0 dumper_2 dumper_3)

/-! ## The formats are what the dumper compiles them to -/

/-- `_get_expression_and_properties` on a complete custom format: the printf expression, the property
    list, and the literal zone as `custom_time_zone` — for every format of the class and every
    regenerated dumper table. -/
theorem C08_custom_compiles (dt : DumpTables) (hdt : dt ∈ dumpTables) (f : CFmt) (hf : f.WF dt.ned) :
    getExpr dt f.text = some (f.expr dt.ned) := getExpr_custom dt hdt f hf

/-! ## The specified point -/

/-- **C08 (custom formats, the point printed)**: for every valid point and well-formed format the
    specified point exists; it is valid, in the format's date representation, carries the format's
    zone (UTC for `Z`, `p`'s own offset for a placeholder, the literal offset otherwise) and is the
    same instant as `p`. -/
theorem C08_custom_target (m : Mode) (f : CFmt) (ned : Nat) (hf : f.WF ned) (p : TP) (hv : p.Valid m) :
    ∃ q, f.target m p = some q ∧ q.Valid m ∧ q.date.rep = f.kind.k ∧ q.tz = f.zone.target p ∧
      q.inst m = p.inst m := target_spec m f ned hf p hv

/-! ## Writing -/

/-- **C08 (custom formats, writing)**: for every valid whole-second point `p` — calendar, ordinal or
    week representation, any calendar mode, any legal offset, 24:00:00 included, carrying any number `n`
    of expanded digits of its own — every dumper table (`num_expanded_year_digits` 0, 2 or 3) and every
    complete custom format, `dump(p, format)` is exactly the specified text of the specified point `q`
    (`p` in the format's zone and representation): year digits (signed and expanded iff the format has
    `+X`), the date fields of the format's representation, `T`, `hh:mm:ss` / `hhmmss` (`,0` / `.0` for a
    decimal part), and `Z` or the sign and digits of `q`'s offset in the format's spelling — provided
    `q`'s year is within the digits the format prints. -/
theorem C08_custom_dump (m : Mode) (dt : DumpTables) (hdt : dt ∈ dumpTables) (n : Nat) (f : CFmt)
    (hf : f.WF dt.ned) (p q : TP) (hv : p.Valid m) (hq : f.target m p = some q)
    (hy : YearInRange (f.yd dt.ned) (dateYear q.date)) :
    dump m dt (XTP.ofTP n p) f.text = .ok (customText dt.ned f q) := by
  rw [dump_custom m dt hdt n f hf p q hv hq, if_pos hy]

/-- **C08 (custom formats, year bounds)**: the year check is made on the year of the CONVERTED point
    (after re-zoning, in the format's week-year or calendar-year): outside the format's digits the dump
    is the documented `TimePointDumperBoundsError`. -/
theorem C08_custom_dump_bounds (m : Mode) (dt : DumpTables) (hdt : dt ∈ dumpTables) (n : Nat) (f : CFmt)
    (hf : f.WF dt.ned) (p q : TP) (hv : p.Valid m) (hq : f.target m p = some q)
    (hy : ¬ YearInRange (f.yd dt.ned) (dateYear q.date)) :
    dump m dt (XTP.ofTP n p) f.text = .error .err := by
  rw [dump_custom m dt hdt n f hf p q hv hq, if_neg hy]

/-! ## Reading -/

/-- What is read back for a whole-second format is the text-layer value of `q` itself; with a decimal
    part it is `q` with the fraction `0` on its second — a decimal-second point that collapses to `q`. -/
theorem C08_readBack_cases (n : Nat) (fr : Frac) (q : TP) :
    (fr = .none ∧ readBack n fr q = XTP.ofTP n q ∧ (readBack n fr q).toTP? = some q) ∨
    (fr ≠ .none ∧ readBack n fr q = DTP.toXTP n ⟨q.date, .second q.hh q.mi q.ss ['0'], q.tz⟩ ∧
      (DTP.mk q.date (.second q.hh q.mi q.ss ['0']) q.tz).whole = some q ∧ fracValue ['0'] = 0) := by
  cases fr with
  | none => exact Or.inl ⟨rfl, rfl, ofTP_toTP n q⟩
  | comma =>
    refine Or.inr ⟨by decide, rfl, rfl, ?_⟩
    exact fracValue_of_fracZero _ (by decide)
  | point =>
    refine Or.inr ⟨by decide, rfl, rfl, ?_⟩
    exact fracValue_of_fracZero _ (by decide)

/-- **C08 (custom formats, reading)**: the specified text of a valid whole-second point `q` that is in
    the format's representation, whose zone the format spells faithfully (`Z` only for UTC, the
    hours-only style only for whole hours) and whose year is within the format's digits, is decoded by
    every parser configuration that knows the notation — extended notation allowed if the format is
    extended, expanded digits configured if the format has `+X`; any `allow_truncated`, any default
    zone, any calendar mode — to exactly `q`: same representation, same field values, same offset. -/
theorem C08_custom_parse (cfg : Cfg) (hpt : cfg.pt ∈ parserTables) (f : CFmt)
    (hb : f.ext = true → cfg.pt.basicOnly = false) (hx : f.expanded = true → cfg.pt.ned ≠ 0)
    (q : TP) (hv : q.Valid cfg.mode) (hr : q.date.rep = f.kind.k)
    (hy : YearInRange (f.yd cfg.pt.ned) (dateYear q.date)) (hzf : ZoneFaithful f q) :
    parse cfg (customText cfg.pt.ned f q) false = some (readBack (f.yd cfg.pt.ned) f.frac q) :=
  parse_customText cfg hpt f hb hx q hv hr hy hzf

/-! ## The round trip -/

/-- The text depends on the number of expanded digits only through the `+X` token. -/
theorem customText_yd (n n' : Nat) (f : CFmt) (q : TP) (h : f.yd n = f.yd n') :
    customText n f q = customText n' f q := by
  unfold customText; rw [h]

/-- **C08 (custom formats, round trip)**: for every valid whole-second point `p`, every regenerated
    dumper table `dt` and every complete custom format `f` (well-formed for `dt`; the placeholder `+hh`
    only for a point whose offset has no minutes — "when it loses nothing"), and every parser
    configuration that knows the notation (extended allowed if `f` is extended; the SAME number of
    expanded digits as the dumper if `f` has `+X`, otherwise any), in the same calendar mode:
    `dump(p, f)` succeeds with the specified text of the specified point `q` whenever `q`'s year is
    within the format's digits; parsing that text yields exactly `q` (with a `0` fraction if the format
    has a decimal part); and `q` is the same instant as `p`, carries exactly the format's zone, is in
    the format's representation and is valid. -/
theorem C08_custom_roundtrip (m : Mode) (dt : DumpTables) (hdt : dt ∈ dumpTables) (n : Nat) (f : CFmt)
    (hf : f.WF dt.ned) (cfg : Cfg) (hpt : cfg.pt ∈ parserTables) (hm : cfg.mode = m)
    (hb : f.ext = true → cfg.pt.basicOnly = false) (hx : f.expanded = true → cfg.pt.ned = dt.ned)
    (p : TP) (hv : p.Valid m) (hown : f.zone = .own .h → p.tz.mi = 0)
    (q : TP) (hq : f.target m p = some q) (hy : YearInRange (f.yd dt.ned) (dateYear q.date)) :
    ∃ text, dump m dt (XTP.ofTP n p) f.text = .ok text ∧ text = customText dt.ned f q ∧
      parse cfg text false = some (readBack (f.yd dt.ned) f.frac q) ∧
      q.inst m = p.inst m ∧ q.tz = f.zone.target p ∧ q.date.rep = f.kind.k ∧ q.Valid m := by
  subst hm
  obtain ⟨q', hq', hvq, hrq, htz, hinst⟩ := target_spec cfg.mode f dt.ned hf p hv
  rw [hq] at hq'
  obtain rfl := Option.some.inj hq'
  refine ⟨customText dt.ned f q, C08_custom_dump cfg.mode dt hdt n f hf p q hv hq hy, rfl, ?_, hinst, htz,
    hrq, hvq⟩
  have hyd : f.yd dt.ned = f.yd cfg.pt.ned := by
    unfold CFmt.yd
    cases hxe : f.expanded with
    | false => rfl
    | true => simp only [if_true]; exact (hx hxe).symm
  have hxn : f.expanded = true → cfg.pt.ned ≠ 0 := fun hxe => by rw [hx hxe]; exact hf.1 hxe
  have hzf : ZoneFaithful f q := by
    unfold ZoneFaithful
    obtain ⟨_, hw⟩ := hf
    cases hzs : f.zone with
    | utc => simp only [ZSpec.style]; rw [htz, hzs]; rfl
    | own s =>
      cases s with
      | hm => simp only [ZSpec.style]
      | h => simp only [ZSpec.style]; rw [htz, hzs]; exact hown hzs
    | lit s z =>
      rw [hzs] at hw
      cases s with
      | hm => simp only [ZSpec.style]
      | h => simp only [ZSpec.style]; rw [htz, hzs]; exact hw.2 rfl
  rw [customText_yd dt.ned cfg.pt.ned f q hyd, hyd]
  exact C08_custom_parse cfg hpt f hb hxn q hvq hrq (hyd ▸ hy) hzf

/-- The property's own words for a whole-second format: the dumped text parses back to a point that
    denotes an EQUAL INSTANT and carries the zone the format spells. -/
theorem C08_custom_equal_instant (m : Mode) (dt : DumpTables) (hdt : dt ∈ dumpTables) (n : Nat) (f : CFmt)
    (hf : f.WF dt.ned) (hfr : f.frac = .none) (cfg : Cfg) (hpt : cfg.pt ∈ parserTables) (hm : cfg.mode = m)
    (hb : f.ext = true → cfg.pt.basicOnly = false) (hx : f.expanded = true → cfg.pt.ned = dt.ned)
    (p : TP) (hv : p.Valid m) (hown : f.zone = .own .h → p.tz.mi = 0)
    (q : TP) (hq : f.target m p = some q) (hy : YearInRange (f.yd dt.ned) (dateYear q.date)) :
    ∃ text x r, dump m dt (XTP.ofTP n p) f.text = .ok text ∧ parse cfg text false = some x ∧
      x.toTP? = some r ∧ r.inst m = p.inst m ∧ r.tz = f.zone.target p ∧ r.date.rep = f.kind.k ∧
      r.Valid m := by
  obtain ⟨text, h1, _, h3, h4, h5, h6, h7⟩ :=
    C08_custom_roundtrip m dt hdt n f hf cfg hpt hm hb hx p hv hown q hq hy
  rw [hfr] at h3
  exact ⟨text, _, q, h1, h3, ofTP_toTP _ q, h4, h5, h6, h7⟩

/-! ## Non-vacuity -/

/-- A week date at 24:00:00 with offset −00:30, dumped as a BASIC ORDINAL date with the literal zone
    `+0545` by a dumper with two expanded digits (format without `+X`), read by a basic-only parser. -/
example : ∃ text,
    dump .greg dumper_2 (XTP.ofTP 2 ⟨.week 2020 53 7, 24, 0, 0, ⟨0, -30⟩⟩)
      "CCYYDDDThhmmss+0545".toList = .ok text ∧
    text = "2021004T061500+0545".toList ∧
    parse ⟨Gen.Templates.parser_2_basic, true, .assumed 1 0, .greg⟩ text false =
      some (XTP.ofTP 0 ⟨.ord 2021 4, 6, 15, 0, ⟨5, 45⟩⟩) ∧
    (⟨.ord 2021 4, 6, 15, 0, ⟨5, 45⟩⟩ : TP).inst .greg =
      (⟨.week 2020 53 7, 24, 0, 0, ⟨0, -30⟩⟩ : TP).inst .greg := by
  obtain ⟨text, h1, h2, h3, h4, _⟩ :=
    C08_custom_roundtrip .greg dumper_2 (by simp [dumpTables]) 2 ⟨false, .ord, false, .none, .lit .hm ⟨5, 45⟩⟩
      (by decide) ⟨Gen.Templates.parser_2_basic, true, .assumed 1 0, .greg⟩
      (.tail _ (.tail _ (.tail _ (.head _)))) rfl (by decide) (by decide)
      ⟨.week 2020 53 7, 24, 0, 0, ⟨0, -30⟩⟩ (by decide +kernel) (by decide)
      ⟨.ord 2021 4, 6, 15, 0, ⟨5, 45⟩⟩ (by decide +kernel) (by decide +kernel)
  exact ⟨text, h1.trans (by rfl), h2.trans (by decide +kernel), h3, h4⟩

/-- Year −396, the `+X` token with three expanded digits, extended week format, decimal part, the
    placeholder `+hh` on an offset of whole hours. -/
example : dump .greg dumper_3 (XTP.ofTP 3 ⟨.cal (-396) 12 31, 23, 59, 59, ⟨-5, 0⟩⟩)
      "+XCCYY-Www-DThh:mm:ss,tt+hh".toList = .ok "-0000396-W53-5T23:59:59,0-05".toList :=
  (C08_custom_dump .greg dumper_3 (by simp [dumpTables]) 3 ⟨true, .week, true, .comma, .own .h⟩ (by decide)
    ⟨.cal (-396) 12 31, 23, 59, 59, ⟨-5, 0⟩⟩ ⟨.week (-396) 53 5, 23, 59, 59, ⟨-5, 0⟩⟩ (by decide +kernel)
    (by decide +kernel) (by decide +kernel)).trans (by decide +kernel)

/-- The bounds theorem instantiated: 9999-12-31T23:00:00Z as a basic calendar date with the literal
    zone `+05` is year 10000 after re-zoning. -/
example : dump .greg dumper_0 (XTP.ofTP 0 ⟨.cal 9999 12 31, 23, 0, 0, ⟨0, 0⟩⟩)
      "CCYYMMDDThhmmss+05".toList = .error .err :=
  C08_custom_dump_bounds .greg dumper_0 (by simp [dumpTables]) 0 ⟨false, .cal, false, .none, .lit .h ⟨5, 0⟩⟩ (by decide)
    ⟨.cal 9999 12 31, 23, 0, 0, ⟨0, 0⟩⟩ ⟨.cal 10000 1 1, 4, 0, 0, ⟨5, 0⟩⟩ (by decide +kernel)
    (by decide +kernel) (by decide +kernel)

/-- A week-format dump moves the YEAR too (week-year 2020 for 2021-01-03), and the check is on that. -/
example : (CFmt.mk false .week true .none .utc).target .greg ⟨.cal 2021 1 3, 12, 0, 0, ⟨0, 0⟩⟩ =
    some ⟨.week 2020 53 7, 12, 0, 0, ⟨0, 0⟩⟩ := by decide +kernel

/-! ## Outside the class -/

/-- The placeholder `+hh` on an offset WITH minutes prints the hours alone, and the text then denotes
    a different instant: the hypothesis `f.zone = .own .h → p.tz.mi = 0` of the round trip is needed
    (the property's "a zone" is read as: a zone expression that spells `p`'s offset completely). -/
theorem C08_custom_hours_only_loses_minutes_example :
    dump .greg dumper_0 (XTP.ofTP 0 ⟨.cal 2000 1 1, 12, 0, 0, ⟨5, 30⟩⟩) "CCYY-MM-DDThh:mm:ss+hh".toList =
      .ok "2000-01-01T12:00:00+05".toList ∧
    parse ⟨Gen.Templates.parser_0_all, false, .unknown, .greg⟩ "2000-01-01T12:00:00+05".toList false =
      some (XTP.ofTP 0 ⟨.cal 2000 1 1, 12, 0, 0, ⟨5, 0⟩⟩) ∧
    (⟨.cal 2000 1 1, 12, 0, 0, ⟨5, 0⟩⟩ : TP).inst .greg ≠ (⟨.cal 2000 1 1, 12, 0, 0, ⟨5, 30⟩⟩ : TP).inst .greg := by
  decide +kernel

/-- A date format and a zone of different notations (extended date and time, basic zone `+hhmm`) is
    not in the class: the dumper prints it, no parser reads it back. -/
theorem C08_custom_mixed_notation_example :
    dump .greg dumper_0 (XTP.ofTP 0 ⟨.cal 2000 1 1, 12, 0, 0, ⟨5, 30⟩⟩) "CCYY-MM-DDThh:mm:ss+hhmm".toList =
      .ok "2000-01-01T12:00:00+0530".toList ∧
    parse ⟨Gen.Templates.parser_0_all, false, .unknown, .greg⟩ "2000-01-01T12:00:00+0530".toList false = none := by
  decide +kernel

end IsoDT.Props.C08
