/-
  C01 (rational slots) — `_tick_over` and the exact part of `TimePoint.__add__` are exact as
  ALGORITHMS, for every reduced-precision form.

  The Python keeps `_hour_of_day`, `_minute_of_hour`, `_second_of_minute` as floats, the last two
  possibly `None` (decimal seconds / decimal minutes / decimal hours).  `Model.TimePointQ` runs the
  same statements over exact rationals.  Proved here, for all four calendar modes, the three date
  representations, any offset, 24:00 included, every year in `Int`, durations of either sign:

  * `C01_tick_over_rat`: from ANY slot values (fractions in any slot, any size, either sign — the
    state after `slot += x`), `_tick_over` keeps the instant and ends with a legal point,
    `hh < 24`, same representation, offset and `None` pattern;
  * `C01_add_exact_rat`: adding days/hours/minutes/seconds (fractional h/m/s) to a legal point moves
    the instant by exactly the duration's length, result legal, `hh < 24`, same representation,
    offset and `None` pattern;
  * `C01_rat_extends_int`: on whole-second points and whole-number durations the rational model
    coincides with the integer model of `Props/C01.lean`.

  What this does NOT say: anything about binary rounding in the real float computation (e.g.
  `divmod(-1e-17, 60) == (-1.0, 60.0)` in floats, where the rational remainder is just below 60).
-/
import IsoDT.Lemmas.TickQ

namespace IsoDT.Props.C01
open IsoDT IsoDT.Model IsoDT.Lemmas
open IsoDT.Spec (Date TZ TP)

/-- `_tick_over` from any intermediate state of an addition: a calendar month in 1..12, the
    second slot present only if the minute slot is, every slot value anywhere in `Rat`. -/
theorem C01_tick_over_rat (m : Mode) (p : TPQ) (hp : PreValid p.date)
    (hs : p.ss.isSome = true → p.mi.isSome = true) (htz : p.tz.Valid) :
    ∃ q, tickOverQ m p = some q ∧ q.inst m = p.inst m ∧ q.Valid m ∧ q.hh < 24 ∧
      q.date.rep = p.date.rep ∧ q.tz = p.tz ∧ q.mi.isSome = p.mi.isSome ∧
      q.ss.isSome = p.ss.isSome := by
  obtain ⟨q, he, hi, hv, hok, hlt, qtz, qr, qmi, qss⟩ := tickOverQ_spec m p hp hs
  exact ⟨q, he, hi, ⟨hv, by rw [qtz]; exact htz, hok⟩, hlt, qr, qtz, qmi, qss⟩

/-- The one shape on which the Python raises (`None += number` in the seconds carry): a second
    slot without a minute slot.  No constructor path produces it. -/
theorem C01_tick_over_rat_bad_pattern (m : Mode) (p : TPQ) (h1 : p.mi = none) (h2 : p.ss.isSome = true) :
    tickOverQ m p = none := by
  obtain ⟨date, hh, mi, ss, tz⟩ := p
  cases ss with
  | none => simp at h2
  | some s => subst h1; simp [tickOverQ, tickTimeQ]

/-- **C01 over rationals**: `p + d` for exact units `d` denotes the instant of `p` shifted by
    exactly the length of `d`; it is a legal point with `hh < 24`, in `p`'s representation, UTC
    offset and precision form. -/
theorem C01_add_exact_rat (m : Mode) (p : TPQ) (d : DurQ) (hv : p.Valid m) :
    ∃ q, addExactQ m p d = some q ∧ q.inst m = p.inst m + d.seconds ∧ q.Valid m ∧ q.hh < 24 ∧
      q.date.rep = p.date.rep ∧ q.tz = p.tz ∧ (q.mi.isSome = p.mi.isSome) ∧
      (q.ss.isSome = p.ss.isSome) := by
  obtain ⟨q, he, g⟩ := addExactQ_spec m p d hv
  exact ⟨q, he, g.inst, g.valid, g.lt24, g.rep, g.tz, g.mi, g.ss⟩

/-! ## The rational model extends the whole-second model -/

/-- `_tick_over` on a whole-second point: the same answer as the integer model. -/
theorem C01_tick_over_rat_extends_int (m : Mode) (p : TP) :
    tickOverQ m (TPQ.ofTP p) = (tickOver m p).map TPQ.ofTP := tickOverQ_ofTP m p

/-- The exact part of `__add__` on a whole-second point and whole-number units: the same answer as
    the integer model (`addUnits`, hence `addDur` on a duration without years and months). -/
theorem C01_rat_extends_int (m : Mode) (p : TP) (d h mi s : Int) :
    addExactQ m (TPQ.ofTP p) ⟨d, (h : Rat), (mi : Rat), (s : Rat)⟩ =
      (addUnits m p d h mi s).map TPQ.ofTP := addExactQ_ofTP m p d h mi s

theorem C01_rat_extends_addDur (m : Mode) (p : TP) (d h mi s : Int) :
    addExactQ m (TPQ.ofTP p) ⟨d, (h : Rat), (mi : Rat), (s : Rat)⟩ =
      (addDur m p (.units 0 0 d h mi s)).map TPQ.ofTP := by
  rw [addExactQ_ofTP]
  cases e : addUnits m p d h mi s <;>
    simp [addDur, Dur.toDays, e, addMonths, addYears]

/-- The embedding keeps the meaning … -/
theorem C01_ofTP_inst (m : Mode) (p : TP) : (TPQ.ofTP p).inst m = ((p.inst m : Int) : Rat) := by
  simp only [TPQ.inst, TPQ.hms, TPQ.ofTP, HMS.secs, Option.getD_some, TP.inst, TP.secOfDay,
    Rat.intCast_sub, Rat.intCast_add, Rat.intCast_mul]
  rfl

/-- … and legality. -/
theorem C01_ofTP_valid (m : Mode) (p : TP) : (TPQ.ofTP p).Valid m ↔ p.Valid m := by
  obtain ⟨date, hh, mi, ss, tz⟩ := p
  have c0 : ((0 : Int) : Rat) = 0 := rfl
  have c24 : ((24 : Int) : Rat) = 24 := rfl
  have c60 : ((60 : Int) : Rat) = 60 := rfl
  simp only [TPQ.Valid, TPQ.hms, TPQ.ofTP, HMS.Ok, TP.Valid, isInt_intCast, true_and]
  rw [← c0, ← c24, ← c60]
  simp only [Rat.intCast_le_intCast, Rat.intCast_lt_intCast, Rat.intCast_inj]
  constructor
  · rintro ⟨a, b, c⟩; exact ⟨a, c.1, c.2.1, c.2.2.1, c.2.2.2.1, c.2.2.2.2.1, c.2.2.2.2.2.1, c.2.2.2.2.2.2, b⟩
  · rintro ⟨a, c1, c2, c3, c4, c5, c6, c7, b⟩; exact ⟨a, b, c1, c2, c3, c4, c5, c6, c7⟩

/-! ## Non-vacuity: concrete runs of the model (kernel-evaluated) -/

-- 2000-02-28T23:59:59.75 + PT0.5S crosses midnight into the leap day
example : (⟨.cal 2000 2 28, 23, some 59, some (239/4), ⟨0, 0⟩⟩ : TPQ).Valid .greg := by decide +kernel
example : addExactQ .greg ⟨.cal 2000 2 28, 23, some 59, some (239/4), ⟨0, 0⟩⟩ ⟨0, 0, 0, 1/2⟩ =
    some ⟨.cal 2000 2 29, 0, some 0, some (1/4), ⟨0, 0⟩⟩ := by decide +kernel
-- decimal-hour point 12.5h + PT45.25M
example : (⟨.ord 2001 59, 25/2, none, none, ⟨5, 30⟩⟩ : TPQ).Valid .greg := by decide +kernel
example : addExactQ .greg ⟨.ord 2001 59, 25/2, none, none, ⟨5, 30⟩⟩ ⟨0, 0, 181/4, 0⟩ =
    some ⟨.ord 2001 59, 3181/240, none, none, ⟨5, 30⟩⟩ := by decide +kernel
-- decimal-minute week-date point, negative fractional duration crossing the start of a (week-)year
example : (⟨.week 2021 1 1, 0, some (1/2), none, ⟨0, -30⟩⟩ : TPQ).Valid .greg := by decide +kernel
example : addExactQ .greg ⟨.week 2021 1 1, 0, some (1/2), none, ⟨0, -30⟩⟩ ⟨0, 0, 0, -91/2⟩ =
    some ⟨.week 2020 53 7, 23, some (7169/120), none, ⟨0, -30⟩⟩ := by decide +kernel
-- 24:00 in decimal-hour form, nothing added: normalised to next day 00
example : addExactQ .d360 ⟨.cal 2000 12 30, 24, none, none, ⟨0, 0⟩⟩ ⟨0, 0, 0, 0⟩ =
    some ⟨.cal 2001 1 1, 0, none, none, ⟨0, 0⟩⟩ := by decide +kernel
-- fractional hours on a full-precision point are pushed down into minutes and seconds
example : addExactQ .greg ⟨.cal 2001 1 1, 0, some 0, some 0, ⟨0, 0⟩⟩ ⟨-1, -1/7, 0, 0⟩ =
    some ⟨.cal 2000 12 30, 23, some 51, some (180/7), ⟨0, 0⟩⟩ := by decide +kernel
-- truncation toward zero (not floor) in the push-down: hh = -3/2 gives hour -1, minute -30
example : tickOverQ .greg ⟨.cal 2001 1 1, -3/2, some 0, some 0, ⟨0, 0⟩⟩ =
    some ⟨.cal 2000 12 31, 22, some 30, some 0, ⟨0, 0⟩⟩ := by decide +kernel
example : tickOverQ .greg ⟨.cal 2001 1 1, 0, none, some 1, ⟨0, 0⟩⟩ = none := by decide +kernel

end IsoDT.Props.C01
