/-
  C13 (month/year intervals) — recurrence queries agree with iteration, in the direction of
  iteration, for intervals with months and/or years.

  `NominalNonneg d`: unit form, every component `≥ 0`, years or months non-zero.
  `NomRec m r d` (`Lemmas/RecNominal.lean`) collects what the constructor guarantees of a
  recurrence with such an interval: `r.dur = some d`, more than one repetition, valid bounds.
  `C13_nominal_built_*` show that every recurrence the constructor builds from a valid anchor in
  start/duration or duration/end notation (unbounded, or `n ≥ 2` repetitions) is such a recurrence,
  and say which bounds it has; the theorems after that hold for every `NomRec` — every mode, every
  representation and offset, 24:00 anchors included.

  `nthAdd m d i p` / `nthSub m d i p` (`Lemmas/RecNominalQuery.lean`) are `p` plus / minus `d`,
  `i` times, each step ONE `TimePoint.__add__` / `__sub__` applied to the previous point.

  Because a bounded recurrence derives its far bound by one multiplied addition (finding F5), the
  statements are relative to the iteration as it is: "member" means yielded by `__iter__`
  (`r[i]`, `iter m r fuel`), not a member of an idealised `n`-point series.

  * `C13_next_nominal`, `C13_prev_nominal` — get_next (get_prev for `R/d/end`) from `r[k]` is
    `r[k+1]`, and `None` exactly when `r[k]` is the last yielded point, i.e. when the next nominal
    step leaves the bounds; against the direction of iteration the neighbour need not be a member
    (`C13_prev_against_direction_nominal`).
  * `C13_getitem_nominal`, `C13_getitem_nominal_rev` — `r[i]` is the anchor plus (minus) the
    interval `i` times, if within the bounds.
  * `C13_is_valid_nominal`, `C13_is_valid_nominal_rev` — get_is_valid(p) is membership of the
    visited points by instant, for any fuel; with more than `⌊(p − start)/1 day⌋` points visited
    it is membership of the whole iteration and more fuel changes nothing.
  * `C13_first_after_nominal` — the iteration branch of get_first_after: with at least
    `⌊(p − start)/1 day⌋ + 1` loop steps allowed, the earliest yielded point strictly later than
    the probe, `None` when there is none; more fuel changes nothing.
-/
import IsoDT.Props.C12b
import IsoDT.Props.C13b
import IsoDT.Lemmas.RecNominalQuery

namespace IsoDT.Props.C13
open IsoDT IsoDT.Model IsoDT.Lemmas IsoDT.Props.C12
open IsoDT.Spec (Date TZ TP)

/-! ### what the constructor builds -/

/-- `R/start/d`. -/
theorem C13_nominal_built_start_duration_unbounded (m : Mode) (s : TP) (d : Dur) (hs : s.Valid m)
    (hd : NominalNonneg d) :
    ∃ r, mkRec m none (some s) (some d) none = some r ∧ NomRec m r d ∧
      r.start = some s ∧ r.end_ = none :=
  ⟨_, mkRec_fmt3_unbounded_nominal m s d hd, nomRec_fmt3_unbounded m s d hs hd, rfl, rfl⟩

/-- `Rn/start/d`, `n ≥ 2`: the end bound is ONE multiplied addition. -/
theorem C13_nominal_built_start_duration (m : Mode) (n : Nat) (s : TP) (d : Dur) (hn : 2 ≤ n)
    (hs : s.Valid m) (hd : NominalNonneg d) :
    ∃ e r, addDur m s (d.mul ((n : Int) - 1)) = some e ∧ e.Strict m ∧ s.inst m < e.inst m ∧
      mkRec m (some (n : Int)) (some s) (some d) none = some r ∧ NomRec m r d ∧
      r.start = some s ∧ r.end_ = some e := by
  obtain ⟨e, he, hr, se, lt, _, _⟩ := mkRec_fmt3_bounded_nominal m n s d (by omega) hs hd
  exact ⟨e, _, he, se, lt, hr, nomRec_bounded m n s e d 3 (by omega) hs se.1 hd, rfl, rfl⟩

/-- `R/d/end`: no start point; iteration runs backwards from the end. -/
theorem C13_nominal_built_duration_end_unbounded (m : Mode) (e : TP) (d : Dur) (he : e.Valid m)
    (hd : NominalNonneg d) :
    ∃ r, mkRec m none none (some d) (some e) = some r ∧ NomRec m r d ∧
      r.start = none ∧ r.end_ = some e :=
  ⟨_, mkRec_fmt4_unbounded_nominal m e d hd, nomRec_fmt4_unbounded m e d he hd, rfl, rfl⟩

/-- `Rn/d/end`, `n ≥ 2`: the start is ONE multiplied subtraction; iteration runs FORWARDS from it. -/
theorem C13_nominal_built_duration_end (m : Mode) (n : Nat) (e : TP) (d : Dur) (hn : 2 ≤ n)
    (he : e.Valid m) (hd : NominalNonneg d) :
    ∃ s r, subDur m e (d.mul ((n : Int) - 1)) = some s ∧ s.Strict m ∧ s.inst m < e.inst m ∧
      mkRec m (some (n : Int)) none (some d) (some e) = some r ∧ NomRec m r d ∧
      r.start = some s ∧ r.end_ = some e := by
  obtain ⟨s, hs', hr, ss, lt, _, _⟩ := mkRec_fmt4_bounded_nominal m n e d (by omega) he hd
  exact ⟨s, _, hs', ss, lt, hr, nomRec_bounded m n s e d 4 (by omega) ss.1 he hd, rfl, rfl⟩

/-! ### get_next / get_prev in the direction of iteration -/

/-- **get_next from the `k`-th iterated point** of a recurrence that has a start point (so
    `__iter__` runs forwards: start/duration notation, and duration/end with `n ≥ 2`) and a
    month/year interval `d`.  If `r[k] = p` then `p + d` is defined and strictly later, and
    * `get_next(p) = r[k+1]` — the next iterated point, or `None` when there is none;
    * it is `p + d` when the recurrence is unbounded or `p + d` is not after the end bound;
    * it is `None` when `p + d` is after the end bound (the next nominal step leaves the bounds);
    * and when it is `None`, `p` is the last point of every run of `__iter__` that reaches it. -/
theorem C13_next_nominal (m : Mode) (r : Rec) (d : Dur) (hr : NomRec m r d) (s : TP)
    (hs : r.start = some s) (k : Nat) (p : TP) (h : getItem m r k = some p) :
    ∃ q, addDur m p d = some q ∧ q.Strict m ∧ q.date.rep = p.date.rep ∧ q.tz = p.tz ∧
      p.inst m < q.inst m ∧
      getNext m r p = getItem m r (k + 1) ∧
      (r.end_ = none → getNext m r p = some q) ∧
      (∀ e, r.end_ = some e → q.inst m ≤ e.inst m → getNext m r p = some q) ∧
      (∀ e, r.end_ = some e → e.inst m < q.inst m → getNext m r p = none) ∧
      (getNext m r p = none → ∀ fuel, k < fuel →
        (iter m r fuel).length = k + 1 ∧ (iter m r fuel).getLast? = some p) := by
  obtain ⟨_, _, hv, _, _, _, lb⟩ := getItem_nominal_fwd_some m r d hr s hs k p h
  obtain ⟨q, e, sq, rq, tq, lt, _, hn⟩ := getNext_nominal m r d hr p hv
    (fun s' h' => by rw [hs] at h'; cases h'; omega)
  have hloop : ∀ fuel, iter m r fuel = iterFrom m r r.start.isNone fuel s := by
    intro fuel; rw [iter_fwd_nominal m r d hr s hs fuel, hs]; rfl
  have hsucc := getItem_succ_of_loop m r s hloop k p h
  rw [hs] at hsucc
  simp only [Option.isNone_some, Bool.false_eq_true, ↓reduceIte] at hsucc
  refine ⟨q, e, sq, rq, tq, lt, hsucc.symm, ?_, ?_, ?_, ?_⟩
  · intro hen; rw [hn, hen]; rfl
  · intro e' he' hle
    have : withinEnd m r.end_ q = true := by rw [he']; simp only [withinEnd, decide_eq_true_eq]; exact hle
    rw [hn, if_pos this]
  · intro e' he' hgt
    have : ¬ withinEnd m r.end_ q = true := by
      rw [he']; simp only [withinEnd, decide_eq_true_eq]; omega
    rw [hn, if_neg this]
  · intro hnone fuel hk
    rw [← hsucc] at hnone
    have hle := iter_length_le_of_getItem_none m r (k + 1) hnone fuel
    have hk' : (iter m r fuel)[k]? = some p := by
      unfold getItem at h
      rw [iter_prefix m r k fuel hk]; exact h
    have hlt : k < (iter m r fuel).length := by
      cases hc : decide (k < (iter m r fuel).length) with
      | true => simpa using hc
      | false =>
        have : (iter m r fuel).length ≤ k := by simpa using hc
        rw [List.getElem?_eq_none_iff.mpr this] at hk'; cases hk'
    have hlen : (iter m r fuel).length = k + 1 := by omega
    refine ⟨hlen, ?_⟩
    rw [List.getLast?_eq_getElem?, hlen]
    exact hk'

/-- `R3/2001-01-31T00Z/P1M` (bound 28 Mar; points 31 Jan, 28 Feb, 28 Mar): from `r[1]` = 28 Feb the
    next is `r[2]` = 28 Mar; from `r[2]` the step to 28 Apr leaves the bounds: `None`, and `r[3]`
    does not exist. -/
example : ∃ r, mkRec .greg (some 3) (some ⟨.cal 2001 1 31, 0, 0, 0, ⟨0, 0⟩⟩) (some (.units 0 1 0 0 0 0)) none = some r ∧
    getItem .greg r 1 = some ⟨.cal 2001 2 28, 0, 0, 0, ⟨0, 0⟩⟩ ∧
    getNext .greg r ⟨.cal 2001 2 28, 0, 0, 0, ⟨0, 0⟩⟩ = some ⟨.cal 2001 3 28, 0, 0, 0, ⟨0, 0⟩⟩ ∧
    getItem .greg r 2 = some ⟨.cal 2001 3 28, 0, 0, 0, ⟨0, 0⟩⟩ ∧
    getNext .greg r ⟨.cal 2001 3 28, 0, 0, 0, ⟨0, 0⟩⟩ = none ∧ getItem .greg r 3 = none :=
  ⟨⟨some 3, some ⟨.cal 2001 1 31, 0, 0, 0, ⟨0, 0⟩⟩, some (.units 0 1 0 0 0 0),
      some ⟨.cal 2001 3 28, 0, 0, 0, ⟨0, 0⟩⟩, none, 3⟩,
    by decide +kernel, by decide +kernel, by decide +kernel, by decide +kernel, by decide +kernel,
    by decide +kernel⟩
example := C13_next_nominal .greg ⟨some 3, some ⟨.cal 2001 1 31, 0, 0, 0, ⟨0, 0⟩⟩, some (.units 0 1 0 0 0 0),
    some ⟨.cal 2001 3 28, 0, 0, 0, ⟨0, 0⟩⟩, none, 3⟩ (.units 0 1 0 0 0 0)
  (nomRec_bounded .greg 3 _ _ _ 3 (by decide) (by decide) (by decide) (by decide))
  ⟨.cal 2001 1 31, 0, 0, 0, ⟨0, 0⟩⟩ rfl 2 ⟨.cal 2001 3 28, 0, 0, 0, ⟨0, 0⟩⟩ (by decide +kernel)

/-- **get_prev from the `k`-th iterated point** of `R/d/end` with a month/year interval (no start
    point: `__iter__` runs backwards from the end, and never ends).  If `r[k] = p` then
    `get_prev(p) = p − d = r[k+1]`, strictly earlier. -/
theorem C13_prev_nominal (m : Mode) (r : Rec) (d : Dur) (hr : NomRec m r d) (e : TP)
    (hs : r.start = none) (he : r.end_ = some e) (k : Nat) (p : TP) (h : getItem m r k = some p) :
    ∃ q, subDur m p d = some q ∧ q.Strict m ∧ q.date.rep = p.date.rep ∧ q.tz = p.tz ∧
      q.inst m < p.inst m ∧ getPrev m r p = some q ∧ getItem m r (k + 1) = some q := by
  obtain ⟨p', hp', _, hv, _, _, _, ub⟩ := getItem_nominal_rev_some m r d hr e hs he k
  rw [h] at hp'; cases hp'
  obtain ⟨q, eq', sq, rq, tq, lt, _, hn⟩ := getPrev_nominal m r d hr p hv
    (fun e' h' => by rw [he] at h'; cases h'; omega)
  have hloop : ∀ fuel, iter m r fuel = iterFrom m r r.start.isNone fuel e := by
    intro fuel; rw [iter_rev_nominal m r d hr e hs he fuel, hs]; rfl
  have hsucc := getItem_succ_of_loop m r e hloop k p h
  rw [hs] at hsucc hn
  simp only [Option.isNone_none, ↓reduceIte] at hsucc
  have hq : getPrev m r p = some q := by rw [hn]; rfl
  exact ⟨q, eq', sq, rq, tq, lt, hq, by rw [hsucc, hq]⟩

/-- `R/P1M/2001-03-31T00Z`: 31 Mar, 28 Feb, 28 Jan, … backwards. -/
example : ∃ r, mkRec .greg none none (some (.units 0 1 0 0 0 0)) (some ⟨.cal 2001 3 31, 0, 0, 0, ⟨0, 0⟩⟩) = some r ∧
    getItem .greg r 1 = some ⟨.cal 2001 2 28, 0, 0, 0, ⟨0, 0⟩⟩ ∧
    getPrev .greg r ⟨.cal 2001 2 28, 0, 0, 0, ⟨0, 0⟩⟩ = some ⟨.cal 2001 1 28, 0, 0, 0, ⟨0, 0⟩⟩ ∧
    getItem .greg r 2 = some ⟨.cal 2001 1 28, 0, 0, 0, ⟨0, 0⟩⟩ :=
  ⟨⟨none, none, some (.units 0 1 0 0 0 0), some ⟨.cal 2001 3 31, 0, 0, 0, ⟨0, 0⟩⟩, none, 4⟩,
    by decide +kernel, by decide +kernel, by decide +kernel, by decide +kernel⟩
example := C13_prev_nominal .greg ⟨none, none, some (.units 0 1 0 0 0 0), some ⟨.cal 2001 3 31, 0, 0, 0, ⟨0, 0⟩⟩,
    none, 4⟩ (.units 0 1 0 0 0 0) (nomRec_fmt4_unbounded .greg _ _ (by decide) (by decide))
  ⟨.cal 2001 3 31, 0, 0, 0, ⟨0, 0⟩⟩ rfl rfl 1 ⟨.cal 2001 2 28, 0, 0, 0, ⟨0, 0⟩⟩ (by decide +kernel)

/-- AGAINST the direction of iteration the neighbour need not be a member (the property claims
    the direction of iteration only): `R/2000-12-31T00Z/P1M` yields 31 Dec, 31 Jan, 28 Feb, 28 Mar;
    get_prev(28 Feb) is 28 Jan — within the bounds, returned, and not an iterated point; and
    `R/2001-01-31T00Z/P1M` (31 Jan, 28 Feb, …) has get_prev(28 Feb) = `None` (28 Jan is before the
    start) although 28 Feb has a predecessor. -/
theorem C13_prev_against_direction_nominal :
    (∃ r, mkRec .greg none (some ⟨.cal 2000 12 31, 0, 0, 0, ⟨0, 0⟩⟩) (some (.units 0 1 0 0 0 0)) none = some r ∧
      iter .greg r 3 = [⟨.cal 2000 12 31, 0, 0, 0, ⟨0, 0⟩⟩, ⟨.cal 2001 1 31, 0, 0, 0, ⟨0, 0⟩⟩,
        ⟨.cal 2001 2 28, 0, 0, 0, ⟨0, 0⟩⟩] ∧
      getPrev .greg r ⟨.cal 2001 2 28, 0, 0, 0, ⟨0, 0⟩⟩ = some ⟨.cal 2001 1 28, 0, 0, 0, ⟨0, 0⟩⟩ ∧
      getIsValid .greg r ⟨.cal 2001 1 28, 0, 0, 0, ⟨0, 0⟩⟩ 10 = false) ∧
    (∃ r, mkRec .greg none (some ⟨.cal 2001 1 31, 0, 0, 0, ⟨0, 0⟩⟩) (some (.units 0 1 0 0 0 0)) none = some r ∧
      getItem .greg r 1 = some ⟨.cal 2001 2 28, 0, 0, 0, ⟨0, 0⟩⟩ ∧
      getPrev .greg r ⟨.cal 2001 2 28, 0, 0, 0, ⟨0, 0⟩⟩ = none) :=
  ⟨⟨⟨none, some ⟨.cal 2000 12 31, 0, 0, 0, ⟨0, 0⟩⟩, some (.units 0 1 0 0 0 0), none, none, 3⟩,
      by decide +kernel, by decide +kernel, by decide +kernel, by decide +kernel⟩,
    ⟨⟨none, some ⟨.cal 2001 1 31, 0, 0, 0, ⟨0, 0⟩⟩, some (.units 0 1 0 0 0 0), none, none, 3⟩,
      by decide +kernel, by decide +kernel, by decide +kernel⟩⟩

/-! ### `r[i]` -/

/-- **`r[i]`**, a recurrence with a start point and a month/year interval: `start + d`, `i` times
    (each step one `__add__` on the previous point — `nthAdd`), always defined, valid, in the
    start's representation and offset, at least `i` days after the start; `r[i]` is that point if
    the recurrence is unbounded or the point is not after the end bound, and an `IndexError`
    (`none`) otherwise. -/
theorem C13_getitem_nominal (m : Mode) (r : Rec) (d : Dur) (hr : NomRec m r d) (s : TP)
    (hs : r.start = some s) (i : Nat) :
    ∃ q, nthAdd m d i s = some q ∧ q.Valid m ∧ (1 ≤ i → q.Strict m) ∧ q.date.rep = s.date.rep ∧
      q.tz = s.tz ∧ s.inst m + 86400 * (i : Int) ≤ q.inst m ∧
      nthAdd m d 0 s = some s ∧ nthAdd m d (i + 1) s = addDur m q d ∧
      (r.end_ = none → getItem m r i = some q) ∧
      (∀ e, r.end_ = some e → getItem m r i = if q.inst m ≤ e.inst m then some q else none) ∧
      (∀ fuel, i < fuel → getItem m r i = (iter m r fuel)[i]?) := by
  obtain ⟨q, e0, v, st, rr, tt, lb⟩ := nthAdd_spec m d hr.nom i s (hr.startValid s hs)
  have hg := getItem_nominal_fwd m r d hr s hs i
  rw [e0] at hg
  refine ⟨q, e0, v, st, rr, tt, lb, rfl, by rw [nthAdd_succ, e0, Option.bind_some], ?_, ?_,
    fun fuel hf => C13_getitem_is_iter m r i fuel hf⟩
  · intro hen; rw [hg, hen]; rfl
  · intro e he
    rw [hg, he]
    simp only [Option.filter, withinEnd]
    by_cases c : q.inst m ≤ e.inst m
    · simp [c]
    · simp [c]

/-- `R4/2000-02-29T00Z/P1Y` (bound 2003-02-28): `r[3]` is the start + P1Y three times = 2003-02-28;
    `r[4]` would be 2004-02-28, after the bound. -/
example : ∃ r, mkRec .greg (some 4) (some ⟨.cal 2000 2 29, 0, 0, 0, ⟨0, 0⟩⟩) (some (.units 1 0 0 0 0 0)) none = some r ∧
    nthAdd .greg (.units 1 0 0 0 0 0) 3 ⟨.cal 2000 2 29, 0, 0, 0, ⟨0, 0⟩⟩ = some ⟨.cal 2003 2 28, 0, 0, 0, ⟨0, 0⟩⟩ ∧
    getItem .greg r 3 = some ⟨.cal 2003 2 28, 0, 0, 0, ⟨0, 0⟩⟩ ∧
    nthAdd .greg (.units 1 0 0 0 0 0) 4 ⟨.cal 2000 2 29, 0, 0, 0, ⟨0, 0⟩⟩ = some ⟨.cal 2004 2 28, 0, 0, 0, ⟨0, 0⟩⟩ ∧
    getItem .greg r 4 = none :=
  ⟨⟨some 4, some ⟨.cal 2000 2 29, 0, 0, 0, ⟨0, 0⟩⟩, some (.units 1 0 0 0 0 0),
      some ⟨.cal 2003 2 28, 0, 0, 0, ⟨0, 0⟩⟩, none, 3⟩,
    by decide +kernel, by decide +kernel, by decide +kernel, by decide +kernel, by decide +kernel⟩
example := C13_getitem_nominal .greg ⟨some 4, some ⟨.cal 2000 2 29, 0, 0, 0, ⟨0, 0⟩⟩, some (.units 1 0 0 0 0 0),
    some ⟨.cal 2003 2 28, 0, 0, 0, ⟨0, 0⟩⟩, none, 3⟩ (.units 1 0 0 0 0 0)
  (nomRec_bounded .greg 4 _ _ _ 3 (by decide) (by decide) (by decide) (by decide))
  ⟨.cal 2000 2 29, 0, 0, 0, ⟨0, 0⟩⟩ rfl 3

/-- **`r[i]`**, `R/d/end` with a month/year interval: `end − d`, `i` times, always defined —
    valid, in the end's representation and offset, at least `i` days before the end. -/
theorem C13_getitem_nominal_rev (m : Mode) (r : Rec) (d : Dur) (hr : NomRec m r d) (e : TP)
    (hs : r.start = none) (he : r.end_ = some e) (i : Nat) :
    ∃ q, getItem m r i = some q ∧ nthSub m d i e = some q ∧ q.Valid m ∧ (1 ≤ i → q.Strict m) ∧
      q.date.rep = e.date.rep ∧ q.tz = e.tz ∧ q.inst m + 86400 * (i : Int) ≤ e.inst m ∧
      nthSub m d 0 e = some e ∧ nthSub m d (i + 1) e = subDur m q d ∧
      (∀ fuel, i < fuel → getItem m r i = (iter m r fuel)[i]?) := by
  obtain ⟨q, h1, h2, v, st, rr, tt, ub⟩ := getItem_nominal_rev_some m r d hr e hs he i
  exact ⟨q, h1, h2, v, st, rr, tt, ub, rfl, by rw [nthSub_succ, h2, Option.bind_some],
    fun fuel hf => C13_getitem_is_iter m r i fuel hf⟩

example := C13_getitem_nominal_rev .greg ⟨none, none, some (.units 0 1 0 0 0 0), some ⟨.cal 2001 3 31, 0, 0, 0, ⟨0, 0⟩⟩,
    none, 4⟩ (.units 0 1 0 0 0 0) (nomRec_fmt4_unbounded .greg _ _ (by decide) (by decide))
  ⟨.cal 2001 3 31, 0, 0, 0, ⟨0, 0⟩⟩ rfl rfl 3
example : getItem .greg ⟨none, none, some (.units 0 1 0 0 0 0), some ⟨.cal 2001 3 31, 0, 0, 0, ⟨0, 0⟩⟩, none, 4⟩ 3 =
    some ⟨.cal 2000 12 28, 0, 0, 0, ⟨0, 0⟩⟩ := by decide +kernel

/-! ### get_next / get_prev, stated for what the constructor builds (all inputs) -/

/-- **get_next along `R/start/d`** (month/year interval, every valid start): every `r[k]` exists,
    and `get_next(r[k]) = r[k] + d = r[k+1]`, strictly later — the series never ends. -/
theorem C13_next_nominal_start_duration_unbounded (m : Mode) (s : TP) (d : Dur) (hs : s.Valid m)
    (hd : NominalNonneg d) (k : Nat) :
    ∃ r p q, mkRec m none (some s) (some d) none = some r ∧ getItem m r k = some p ∧
      addDur m p d = some q ∧ getNext m r p = some q ∧ getItem m r (k + 1) = some q ∧
      p.inst m < q.inst m := by
  obtain ⟨r, hr, hx, hst, hen⟩ := C13_nominal_built_start_duration_unbounded m s d hs hd
  obtain ⟨p, _, _, _, _, _, _, _, _, hg, _⟩ := C13_getitem_nominal m r d hx s hst k
  have hp := hg hen
  obtain ⟨q, e, _, _, _, lt, hsucc, h1, _⟩ := C13_next_nominal m r d hx s hst k p hp
  exact ⟨r, p, q, hr, hp, e, h1 hen, by rw [← hsucc]; exact h1 hen, lt⟩

example := C13_next_nominal_start_duration_unbounded .greg ⟨.cal 2000 2 29, 6, 0, 0, ⟨-5, 0⟩⟩ (.units 1 0 0 0 0 0)
  (by decide) (by decide) 4

/-- **get_next along `Rn/start/d`**, `n ≥ 2` (month/year interval): with `e = start + (n−1)·d` the
    derived bound, from `r[k] = p`: `get_next(p) = r[k+1]`; it is `p + d` when `p + d ≤ e`, and
    `None` when `p + d` is after `e` — then `r[k]` is the last point and `r[k+1]` does not exist. -/
theorem C13_next_nominal_start_duration (m : Mode) (n : Nat) (s : TP) (d : Dur) (hn : 2 ≤ n)
    (hs : s.Valid m) (hd : NominalNonneg d) (k : Nat) (p : TP) :
    ∃ e r, addDur m s (d.mul ((n : Int) - 1)) = some e ∧
      mkRec m (some (n : Int)) (some s) (some d) none = some r ∧
      (getItem m r k = some p → ∃ q, addDur m p d = some q ∧ p.inst m < q.inst m ∧
        getNext m r p = getItem m r (k + 1) ∧
        (q.inst m ≤ e.inst m → getNext m r p = some q) ∧
        (e.inst m < q.inst m → getNext m r p = none ∧ getItem m r (k + 1) = none)) := by
  obtain ⟨e, r, he, _, _, hr, hx, hst, hen⟩ := C13_nominal_built_start_duration m n s d hn hs hd
  refine ⟨e, r, he, hr, ?_⟩
  intro hp
  obtain ⟨q, eq', _, _, _, lt, hsucc, _, h2, h3, _⟩ := C13_next_nominal m r d hx s hst k p hp
  exact ⟨q, eq', lt, hsucc, h2 e hen, fun h => ⟨h3 e hen h, by rw [← hsucc]; exact h3 e hen h⟩⟩

example := C13_next_nominal_start_duration .greg 3 ⟨.cal 2001 1 31, 0, 0, 0, ⟨0, 0⟩⟩ (.units 0 1 0 0 0 0)
  (by decide) (by decide) (by decide) 2 ⟨.cal 2001 3 28, 0, 0, 0, ⟨0, 0⟩⟩

/-- **get_next along `Rn/d/end`**, `n ≥ 2` (month/year interval): the start `s' = end − (n−1)·d` is
    derived and `__iter__` runs forwards from it, so the direction of iteration is get_next here
    too: from `r[k] = p`, `get_next(p) = r[k+1]`, which is `p + d` when that is not after the end
    and `None` otherwise. -/
theorem C13_next_nominal_duration_end (m : Mode) (n : Nat) (e : TP) (d : Dur) (hn : 2 ≤ n)
    (he : e.Valid m) (hd : NominalNonneg d) (k : Nat) (p : TP) :
    ∃ s' r, subDur m e (d.mul ((n : Int) - 1)) = some s' ∧
      mkRec m (some (n : Int)) none (some d) (some e) = some r ∧
      (getItem m r k = some p → ∃ q, addDur m p d = some q ∧ p.inst m < q.inst m ∧
        getNext m r p = getItem m r (k + 1) ∧
        (q.inst m ≤ e.inst m → getNext m r p = some q) ∧
        (e.inst m < q.inst m → getNext m r p = none ∧ getItem m r (k + 1) = none)) := by
  obtain ⟨s', r, hs', _, _, hr, hx, hst, hen⟩ := C13_nominal_built_duration_end m n e d hn he hd
  refine ⟨s', r, hs', hr, ?_⟩
  intro hp
  obtain ⟨q, eq', _, _, _, lt, hsucc, _, h2, h3, _⟩ := C13_next_nominal m r d hx s' hst k p hp
  exact ⟨q, eq', lt, hsucc, h2 e hen, fun h => ⟨h3 e hen h, by rw [← hsucc]; exact h3 e hen h⟩⟩

example := C13_next_nominal_duration_end .greg 3 ⟨.cal 2001 5 31, 0, 0, 0, ⟨0, 0⟩⟩ (.units 0 1 0 0 0 0)
  (by decide) (by decide) (by decide) 2 ⟨.cal 2001 5 30, 0, 0, 0, ⟨0, 0⟩⟩
/-- `R3/P1M/2001-05-31T00Z` yields 30 Mar, 30 Apr, 30 May: from the last, 30 Jun is after the end. -/
example : ∃ r, mkRec .greg (some 3) none (some (.units 0 1 0 0 0 0)) (some ⟨.cal 2001 5 31, 0, 0, 0, ⟨0, 0⟩⟩) = some r ∧
    getItem .greg r 2 = some ⟨.cal 2001 5 30, 0, 0, 0, ⟨0, 0⟩⟩ ∧
    getNext .greg r ⟨.cal 2001 5 30, 0, 0, 0, ⟨0, 0⟩⟩ = none :=
  ⟨⟨some 3, some ⟨.cal 2001 3 30, 0, 0, 0, ⟨0, 0⟩⟩, some (.units 0 1 0 0 0 0),
      some ⟨.cal 2001 5 31, 0, 0, 0, ⟨0, 0⟩⟩, none, 4⟩, by decide +kernel, by decide +kernel, by decide +kernel⟩

/-- **get_prev along `R/d/end`** (month/year interval, every valid end): every `r[k]` exists and
    `get_prev(r[k]) = r[k] − d = r[k+1]`, strictly earlier. -/
theorem C13_prev_nominal_duration_end_unbounded (m : Mode) (e : TP) (d : Dur) (he : e.Valid m)
    (hd : NominalNonneg d) (k : Nat) :
    ∃ r p q, mkRec m none none (some d) (some e) = some r ∧ getItem m r k = some p ∧
      subDur m p d = some q ∧ getPrev m r p = some q ∧ getItem m r (k + 1) = some q ∧
      q.inst m < p.inst m := by
  obtain ⟨r, hr, hx, hst, hen⟩ := C13_nominal_built_duration_end_unbounded m e d he hd
  obtain ⟨p, hp, _⟩ := C13_getitem_nominal_rev m r d hx e hst hen k
  obtain ⟨q, eq', _, _, _, lt, h1, h2⟩ := C13_prev_nominal m r d hx e hst hen k p hp
  exact ⟨r, p, q, hr, hp, eq', h1, h2, lt⟩

example := C13_prev_nominal_duration_end_unbounded .greg ⟨.ord 2004 366, 12, 0, 0, ⟨0, 0⟩⟩ (.units 1 0 0 0 0 0)
  (by decide) (by decide) 5

/-! ### get_is_valid -/

/-- **get_is_valid**, a recurrence with a start point and a month/year interval (bounded or not).
    For ANY fuel (number of points the scan may visit) the answer is membership of the visited
    points by instant — whatever representation or offset the probe is written in; the early exit
    of the unbounded case loses nothing because the iteration is strictly increasing.
    With any fuel greater than `⌊(p − start)/86400⌋` (the `i`-th point is at least `i` days after
    the start) that is membership of the WHOLE iteration — some `r[i]` is at the probe's instant
    — and any larger fuel gives the same answer. -/
theorem C13_is_valid_nominal (m : Mode) (r : Rec) (d : Dur) (hr : NomRec m r d) (s : TP)
    (hs : r.start = some s) (p : TP) (hp : p.Valid m) (fuel : Nat) :
    (getIsValid m r p fuel = true ↔ ∃ q ∈ iter m r fuel, q.inst m = p.inst m) ∧
    ((p.inst m - s.inst m) / 86400 < (fuel : Int) →
      (getIsValid m r p fuel = true ↔ ∃ i q, getItem m r i = some q ∧ q.inst m = p.inst m) ∧
      (∀ fuel', fuel ≤ fuel' → getIsValid m r p fuel' = getIsValid m r p fuel)) := by
  refine ⟨getIsValid_nominal_fwd m r d hr s hs p hp fuel, ?_⟩
  intro hf
  have key : ∀ f : Nat, (p.inst m - s.inst m) / 86400 < (f : Int) →
      (getIsValid m r p f = true ↔ ∃ i q, getItem m r i = some q ∧ q.inst m = p.inst m) := by
    intro f hf'
    rw [getIsValid_nominal_fwd m r d hr s hs p hp f, mem_iter_nominal_fwd_fuel m r d hr s hs _ f hf']
  refine ⟨key fuel hf, ?_⟩
  intro fuel' hle
  rw [Bool.eq_iff_iff, key fuel hf, key fuel' (by omega)]

/-- `R/2001-01-31T00Z/P1M`; the probe 2001-03-28T00Z written as an ordinal date at offset +02:00 is a
    member (`r[2]`), 2001-03-31T00Z is not; `⌊(p − start)/1 day⌋` = 56 resp. 59. -/
example := C13_is_valid_nominal .greg ⟨none, some ⟨.cal 2001 1 31, 0, 0, 0, ⟨0, 0⟩⟩, some (.units 0 1 0 0 0 0),
    none, none, 3⟩ (.units 0 1 0 0 0 0) (nomRec_fmt3_unbounded .greg _ _ (by decide) (by decide))
  ⟨.cal 2001 1 31, 0, 0, 0, ⟨0, 0⟩⟩ rfl ⟨.ord 2001 87, 2, 0, 0, ⟨2, 0⟩⟩ (by decide) 57
example : getIsValid .greg ⟨none, some ⟨.cal 2001 1 31, 0, 0, 0, ⟨0, 0⟩⟩, some (.units 0 1 0 0 0 0), none, none, 3⟩
      ⟨.ord 2001 87, 2, 0, 0, ⟨2, 0⟩⟩ 57 = true ∧
    getIsValid .greg ⟨none, some ⟨.cal 2001 1 31, 0, 0, 0, ⟨0, 0⟩⟩, some (.units 0 1 0 0 0 0), none, none, 3⟩
      ⟨.cal 2001 3 31, 0, 0, 0, ⟨0, 0⟩⟩ 60 = false ∧
    ((⟨.ord 2001 87, 2, 0, 0, ⟨2, 0⟩⟩ : TP).inst .greg - (⟨.cal 2001 1 31, 0, 0, 0, ⟨0, 0⟩⟩ : TP).inst .greg) / 86400
      = 56 := by decide +kernel

/-- **get_is_valid**, `R/d/end` with a month/year interval (iteration runs backwards from the
    end): for any fuel, membership of the visited points by instant; with any fuel greater than
    `⌊(end − p)/86400⌋`, membership of the whole iteration, and more fuel changes nothing. -/
theorem C13_is_valid_nominal_rev (m : Mode) (r : Rec) (d : Dur) (hr : NomRec m r d) (e : TP)
    (hs : r.start = none) (he : r.end_ = some e) (p : TP) (hp : p.Valid m) (fuel : Nat) :
    (getIsValid m r p fuel = true ↔ ∃ q ∈ iter m r fuel, q.inst m = p.inst m) ∧
    ((e.inst m - p.inst m) / 86400 < (fuel : Int) →
      (getIsValid m r p fuel = true ↔ ∃ i q, getItem m r i = some q ∧ q.inst m = p.inst m) ∧
      (∀ fuel', fuel ≤ fuel' → getIsValid m r p fuel' = getIsValid m r p fuel)) := by
  refine ⟨getIsValid_nominal_rev m r d hr e hs he p hp fuel, ?_⟩
  intro hf
  have key : ∀ f : Nat, (e.inst m - p.inst m) / 86400 < (f : Int) →
      (getIsValid m r p f = true ↔ ∃ i q, getItem m r i = some q ∧ q.inst m = p.inst m) := by
    intro f hf'
    rw [getIsValid_nominal_rev m r d hr e hs he p hp f, mem_iter_nominal_rev_fuel m r d hr e hs he _ f hf']
  refine ⟨key fuel hf, ?_⟩
  intro fuel' hle
  rw [Bool.eq_iff_iff, key fuel hf, key fuel' (by omega)]

example := C13_is_valid_nominal_rev .greg ⟨none, none, some (.units 0 1 0 0 0 0), some ⟨.cal 2001 3 31, 0, 0, 0, ⟨0, 0⟩⟩,
    none, 4⟩ (.units 0 1 0 0 0 0) (nomRec_fmt4_unbounded .greg _ _ (by decide) (by decide))
  ⟨.cal 2001 3 31, 0, 0, 0, ⟨0, 0⟩⟩ rfl rfl ⟨.week 2001 4 7, 0, 0, 0, ⟨0, 0⟩⟩ (by decide) 63
example : getIsValid .greg ⟨none, none, some (.units 0 1 0 0 0 0), some ⟨.cal 2001 3 31, 0, 0, 0, ⟨0, 0⟩⟩, none, 4⟩
      ⟨.week 2001 4 7, 0, 0, 0, ⟨0, 0⟩⟩ 63 = true ∧
    getIsValid .greg ⟨none, none, some (.units 0 1 0 0 0 0), some ⟨.cal 2001 3 31, 0, 0, 0, ⟨0, 0⟩⟩, none, 4⟩
      ⟨.cal 2001 1 31, 0, 0, 0, ⟨0, 0⟩⟩ 63 = false := by decide +kernel

/-! ### get_first_after: the iteration branch -/

/-- **get_first_after**, a recurrence with a start point `s` and a month/year interval (the
    branch that walks the iteration with get_next), for a valid probe `p`:
    * `p` before the start: the start; `p` after the end bound: `None` (any fuel);
    * `p` within the bounds, with at least `⌊(p − s)/86400⌋ + 1` loop steps allowed
      (`p < s + fuel days`): a result `q` is an iterated point (`q = r[j]`), strictly later than
      `p`, every earlier iterated point is not later than `p`, and so every iterated point
      strictly later than `p` is at or after `q` — the earliest later member; the result is
      `None` exactly when no iterated point is strictly later than `p`;
    * and any larger fuel gives the same result. -/
theorem C13_first_after_nominal (m : Mode) (r : Rec) (d : Dur) (hr : NomRec m r d) (s : TP)
    (hs : r.start = some s) (p : TP) (hp : p.Valid m) (fuel : Nat) :
    (p.inst m < s.inst m → getFirstAfter m r p fuel = some s) ∧
    (∀ e, r.end_ = some e → s.inst m ≤ e.inst m → e.inst m < p.inst m →
      getFirstAfter m r p fuel = none) ∧
    (inBounds m r p = true → p.inst m < s.inst m + 86400 * (fuel : Int) →
      (∀ q, getFirstAfter m r p fuel = some q →
        ∃ j, getItem m r j = some q ∧ p.inst m < q.inst m ∧
          (∀ (i : Nat) (q' : TP), i < j → getItem m r i = some q' → q'.inst m ≤ p.inst m) ∧
          (∀ (i : Nat) (q' : TP), getItem m r i = some q' → p.inst m < q'.inst m →
            q.inst m ≤ q'.inst m)) ∧
      (getFirstAfter m r p fuel = none ↔
        ∀ (i : Nat) (q' : TP), getItem m r i = some q' → q'.inst m ≤ p.inst m) ∧
      (∀ fuel', fuel ≤ fuel' → getFirstAfter m r p fuel' = getFirstAfter m r p fuel)) := by
  have hsv := hr.startValid s hs
  obtain ⟨o1, o2⟩ := C13_first_after_outside m r s hs hsv p hp fuel
  refine ⟨o1, fun e he hse hgt => o2 e he (hr.endValid e he) hse hgt, ?_⟩
  intro hb hf
  -- the two readings of the result, for every sufficient fuel
  have key : ∀ f : Nat, p.inst m < s.inst m + 86400 * (f : Int) →
      (∀ q, getFirstAfter m r p f = some q →
        ∃ j, getItem m r j = some q ∧ p.inst m < q.inst m ∧
          (∀ (i : Nat) (q' : TP), i < j → getItem m r i = some q' → q'.inst m ≤ p.inst m) ∧
          (∀ (i : Nat) (q' : TP), getItem m r i = some q' → p.inst m < q'.inst m →
            q.inst m ≤ q'.inst m)) ∧
      (getFirstAfter m r p f = none ↔
        ∀ (i : Nat) (q' : TP), getItem m r i = some q' → q'.inst m ≤ p.inst m) := by
    intro f hf'
    have hfa := getFirstAfter_nominal m r d hr s hs p hp hb f hf'
    obtain ⟨_, hpw⟩ := iter_nominal_fwd_props m r d hr s hs (f + 1)
    obtain ⟨f1, f2⟩ := find?_later_incr m (p.inst m) (iter m r (f + 1)) hpw
    have hlen := iter_length_le_fuel m r (f + 1)
    have hidx : ∀ (i : Nat) (q' : TP), (iter m r (f + 1))[i]? = some q' → getItem m r i = some q' := by
      intro i q' h
      have hi : i < (iter m r (f + 1)).length := by
        cases hc : decide (i < (iter m r (f + 1)).length) with
        | true => simpa using hc
        | false =>
          have : (iter m r (f + 1)).length ≤ i := by simpa using hc
          rw [List.getElem?_eq_none_iff.mpr this] at h; cases h
      unfold getItem
      rw [← iter_prefix m r i (f + 1) (by omega)]; exact h
    have hidx' : ∀ (i : Nat) (q' : TP), i < f + 1 → getItem m r i = some q' →
        (iter m r (f + 1))[i]? = some q' := by
      intro i q' hi h
      unfold getItem at h
      rw [iter_prefix m r i (f + 1) hi]; exact h
    constructor
    · intro q hq
      rw [hfa] at hq
      obtain ⟨j, h1, h2, h3⟩ := f1 q hq
      have hj : j < f + 1 := by
        cases hc : decide (j < (iter m r (f + 1)).length) with
        | true => have : j < (iter m r (f + 1)).length := by simpa using hc
                  omega
        | false =>
          have : (iter m r (f + 1)).length ≤ j := by simpa using hc
          rw [List.getElem?_eq_none_iff.mpr this] at h1; cases h1
      have hgj := hidx j q h1
      refine ⟨j, hgj, h2, ?_, ?_⟩
      · intro i q' hij hq'
        exact h3 i q' hij (hidx' i q' (by omega) hq')
      · intro i q' hq' hlt
        by_cases c1 : i < j
        · have := h3 i q' c1 (hidx' i q' (by omega) hq'); omega
        · by_cases c2 : i = j
          · subst c2; rw [hgj] at hq'; cases hq'; exact Int.le_refl _
          · exact Int.le_of_lt (getItem_nominal_fwd_lt m r d hr s hs j i (by omega) q q' hgj hq')
    · rw [hfa]
      constructor
      · intro hnone i q' hq'
        have hall := f2 hnone
        by_cases c : i < f + 1
        · exact hall q' (List.mem_of_getElem? (hidx' i q' c hq'))
        · exfalso
          -- `r[f]` exists (since a later `r[i]` does), is ≥ f days after the start, yet ≤ p
          cases hgf : getItem m r f with
          | none =>
            have := iter_length_le_of_getItem_none m r f hgf (i + 1)
            unfold getItem at hq'
            rw [List.getElem?_eq_none_iff.mpr (by omega)] at hq'; cases hq'
          | some qf =>
            have lb := (getItem_nominal_fwd_some m r d hr s hs f qf hgf).2.2.2.2.2.2
            have := hall qf (List.mem_of_getElem? (hidx' f qf (by omega) hgf))
            omega
      · intro hall
        rw [List.find?_eq_none]
        intro x hx
        obtain ⟨i, _, hi⟩ := (mem_iter_iff_getItem m r (f + 1) x).mp hx
        have := hall i x hi
        simp only [decide_eq_true_eq]; omega
  obtain ⟨k1, k2⟩ := key fuel hf
  refine ⟨k1, k2, ?_⟩
  intro fuel' hle
  obtain ⟨k1', k2'⟩ := key fuel' (by omega)
  cases h1 : getFirstAfter m r p fuel with
  | none => exact k2'.mpr (k2.mp h1)
  | some q =>
    obtain ⟨j, g1, g2, g3, g4⟩ := k1 q h1
    cases h2 : getFirstAfter m r p fuel' with
    | none => have := (k2'.mp h2) j q g1; omega
    | some q2 =>
      obtain ⟨j2, g1', g2', g3', g4'⟩ := k1' q2 h2
      have a := g4 j2 q2 g1' g2'
      have b := g4' j q g1 g2
      by_cases c1 : j < j2
      · have := getItem_nominal_fwd_lt m r d hr s hs j j2 c1 q q2 g1 g1'; omega
      · by_cases c2 : j2 < j
        · have := getItem_nominal_fwd_lt m r d hr s hs j2 j c2 q2 q g1' g1; omega
        · have : j = j2 := by omega
          subst this
          rw [g1] at g1'; exact g1'.symm ▸ rfl

/-- `R3/2001-01-31T00Z/P1M` (31 Jan, 28 Feb, 28 Mar; bound 28 Mar).  A probe on a member
    (28 Feb, written as an ordinal date) gives the next member; a probe on the last member gives
    `None`; a probe between members gives the next one. -/
example : ∃ r, mkRec .greg (some 3) (some ⟨.cal 2001 1 31, 0, 0, 0, ⟨0, 0⟩⟩) (some (.units 0 1 0 0 0 0)) none = some r ∧
    getFirstAfter .greg r ⟨.ord 2001 59, 0, 0, 0, ⟨0, 0⟩⟩ 29 = some ⟨.cal 2001 3 28, 0, 0, 0, ⟨0, 0⟩⟩ ∧
    getFirstAfter .greg r ⟨.cal 2001 3 28, 0, 0, 0, ⟨0, 0⟩⟩ 57 = none ∧
    getFirstAfter .greg r ⟨.cal 2001 2 1, 12, 0, 0, ⟨0, 0⟩⟩ 2 = some ⟨.cal 2001 2 28, 0, 0, 0, ⟨0, 0⟩⟩ ∧
    inBounds .greg r ⟨.ord 2001 59, 0, 0, 0, ⟨0, 0⟩⟩ = true :=
  ⟨⟨some 3, some ⟨.cal 2001 1 31, 0, 0, 0, ⟨0, 0⟩⟩, some (.units 0 1 0 0 0 0),
      some ⟨.cal 2001 3 28, 0, 0, 0, ⟨0, 0⟩⟩, none, 3⟩,
    by decide +kernel, by decide +kernel, by decide +kernel, by decide +kernel, by decide +kernel⟩
example := (C13_first_after_nominal .greg ⟨some 3, some ⟨.cal 2001 1 31, 0, 0, 0, ⟨0, 0⟩⟩, some (.units 0 1 0 0 0 0),
    some ⟨.cal 2001 3 28, 0, 0, 0, ⟨0, 0⟩⟩, none, 3⟩ (.units 0 1 0 0 0 0)
  (nomRec_bounded .greg 3 _ _ _ 3 (by decide) (by decide) (by decide) (by decide))
  ⟨.cal 2001 1 31, 0, 0, 0, ⟨0, 0⟩⟩ rfl ⟨.ord 2001 59, 0, 0, 0, ⟨0, 0⟩⟩ (by decide) 29).2.2
  (by decide +kernel) (by decide +kernel)

/-- The fuel bound matters: with too few loop steps the loop returns its current point, which is
    not later than the probe (Python's loop is unbounded; the model's fuel must cover it). -/
example : getFirstAfter .greg ⟨none, some ⟨.cal 2001 1 31, 0, 0, 0, ⟨0, 0⟩⟩, some (.units 0 1 0 0 0 0), none, none, 3⟩
      ⟨.cal 2001 6 1, 0, 0, 0, ⟨0, 0⟩⟩ 2 = some ⟨.cal 2001 3 28, 0, 0, 0, ⟨0, 0⟩⟩ ∧
    getFirstAfter .greg ⟨none, some ⟨.cal 2001 1 31, 0, 0, 0, ⟨0, 0⟩⟩, some (.units 0 1 0 0 0 0), none, none, 3⟩
      ⟨.cal 2001 6 1, 0, 0, 0, ⟨0, 0⟩⟩ 122 = some ⟨.cal 2001 6 28, 0, 0, 0, ⟨0, 0⟩⟩ := by decide +kernel

end IsoDT.Props.C13
