/-
  C17 (literal text and percent signs) — what `strftime` / `strptime` do with `%%`, with a `%` that
  starts no directive, and with literal text in general.

  Model: `Model/Strftime2.lean` — `TimePoint.strftime` including its last statement
  `expression % property_map` (Python's printf-style formatting of the assembled template, which is
  where a literal `%` gets its meaning) — and the unchanged `strptime` of `Model/Strftime.lean`
  (literal text is `re.escape`d: every character, `%` and the regex-special ones included, matches
  exactly itself).  Specification: part 1 of `Lemmas/Strftime2.lean` (`parseFmt2`: POSIX tokenisation
  with `%%` as one item; `posix2`: `%%` prints one `%`).

  Findings stated and proved here (all confirmed on /repo):

  * strftime renders `%%` as POSIX does (one `%`) EXCEPT when the `%%` is directly followed by a
    letter, digit or underscore: the splitter `(%\w)` pairs the SECOND `%` with that character.
    `"%%Y"` prints `%(century)02d00` for the year 2000 (POSIX: `%Y`), `"%%a"` is refused as the
    unknown directive `%a` (POSIX: `%a`)                       — `C17_percent_posix_counterexample`;
  * strptime does NOT read `%%` as POSIX does: it demands the two characters `%%` in the data.  So no
    format that contains `%%` round-trips, for any point      — `C17_strptime_percent_never_round_trips`;
  * a `%` before anything else is handed to Python's `%` operator: a trailing `%` or `%` + punctuation
    is refused with a bare `ValueError` (not the library's error) if no directive precedes it and with
    a `TypeError` (no `ValueError` at all) if one does; `%(name)…` reads the internal property dict
    (`KeyError`, or the property's value)                     — `C17_strftime_trailing_percent`,
                                                                `C17_strftime_stray_percent`, examples;
  * `%s` of a point with a fraction is the distance from the epoch rounded TOWARD ZERO (`int()`), not
    the floor: before 1970 it disagrees with POSIX and with the civil second `%X` prints, and the
    `%s` round trip lands after the point                     — `C17_unix_rat`, `C17_unix_rat_round_trip`,
                                                                `C17_unix_rat_counterexample`.
-/
import IsoDT.Lemmas.Strftime2
import IsoDT.Props.C17
import IsoDT.Props.C18b

namespace IsoDT.Props.C17
open IsoDT IsoDT.Model IsoDT.Model.Strf IsoDT.Model.Strf2 IsoDT.Lemmas IsoDT.Lemmas.Strf IsoDT.Lemmas.Strf2
open IsoDT.Spec (Date TZ TP)
open IsoDT.Spec.Posix
open IsoDT.Gen.Strftime (Fld Fmt Pat Cls Piece)
open IsoDT.Props.C18 (epochQ C18_seconds_since_rat C18_seconds_since_rat_bounds)

/-! ## strftime -/

/-- General form: the year needs to lie in 0000–9999 only if the format prints it. -/
theorem C17_strftime_literals_general (m : Mode) (p : TP) (hv : p.Valid m) (c : Civil) (hc : IsCivil m p c)
    (fmt : List Char) (items : List FItem2) (hf : parseFmt2 fmt = some items) (hs : pctSafe items = true)
    (hy : SField.year ∈ fieldsOf2 items → 0 ≤ c.year ∧ c.year ≤ 9999) :
    strftime2 m p fmt = .ok (posix2 c items) := by
  obtain ⟨ht, hna⟩ := translate_scan2 fmt items hf hs
  rw [strftime2_run m p hv c hc fmt _ hna ht (fun h => hy (century_mem2 items h))]
  have h := run_items (envOf (ctxOf p c) (piecesOfItems2 items)) (ctxOf p c) c items
    (fun f hf' => lookup_envOf _ _ f hf')
    (fun dir hd => render_dir m p hv c hc dir (fun hyr => hy (fields_mem2 items dir hd _ hyr)))
    (lit_ne_pct fmt items hf) false []
  simp only [List.append_nil] at h
  rw [h]
  simp [run, prepend]

/-- **C17 (strftime, literal text and `%%`)**: for every valid point `p` (any representation, offset,
    mode) with a civil year in 0000–9999 and every format made of the eleven supported directives,
    `%%` and arbitrary other characters — in which no `%%` is directly followed by a letter, digit,
    underscore or non-ASCII character (`pctSafe`) — `p.strftime(fmt)`, INCLUDING the final
    `expression % property_map`, is the POSIX text: each directive as in `C17_strftime`, each literal
    character as itself, each `%%` as a single `%`. -/
theorem C17_strftime_literals (m : Mode) (p : TP) (hv : p.Valid m) (c : Civil) (hc : IsCivil m p c)
    (hy : 0 ≤ c.year ∧ c.year ≤ 9999) (fmt : List Char) (items : List FItem2)
    (hf : parseFmt2 fmt = some items) (hs : pctSafe items = true) :
    strftime2 m p fmt = .ok (posix2 c items) :=
  C17_strftime_literals_general m p hv c hc fmt items hf hs (fun _ => hy)

example : parseFmt2 "100%% %Y-%m%%|%%%d".toList =
    some [.lit '1', .lit '0', .lit '0', .pct, .lit ' ', .conv .Y, .lit '-', .conv .m, .pct, .lit '|', .pct,
      .conv .d] := by decide
example : pctSafe [.lit '1', .lit '0', .lit '0', .pct, .lit ' ', .conv .Y, .lit '-', .conv .m, .pct, .lit '|',
    .pct, .conv .d] = true ∧ pctSafe [.pct, .lit 'Y'] = false ∧ pctSafe [.pct, .pct, .conv .Y] = true := by decide
example : strftime2 .greg ⟨.cal 2000 3 4, 5, 6, 7, ⟨0, 0⟩⟩ "100%% %Y-%m%%|%%%d".toList =
    .ok "100% 2000-03%|%04".toList := by decide +kernel
/-- Regex-special and white-space characters are nothing special to strftime. -/
example : strftime2 .greg ⟨.week 1970 53 5, 0, 1, 0, ⟨-3, -30⟩⟩ ".(+\\ \t\n*%Y$^[%z]".toList =
    .ok ".(+\\ \t\n*1971$^[-0330]".toList := by decide +kernel

/-- The first model (`Model/Strftime.lean`, which stops at a literal `%`) and this one agree wherever the
    first one answers: same text, same errors — for every point, valid or not. -/
theorem C17_strftime2_extends (m : Mode) (p : TP) (fmt : List Char) (hna : nonAsciiAfterPct fmt = false)
    (hnp : ∀ ps, translate (scan fmt) = .ok ps → Piece.lit '%' ∉ ps) :
    strftime2 m p fmt = liftRes (strftime m p fmt) := strftime2_extends m p fmt hna hnp

/-- The year bounds check comes before the formatting, as in `C17_strftime_bounds`. -/
theorem C17_strftime_literals_bounds (m : Mode) (p : TP) (hv : p.Valid m) (c : Civil) (hc : IsCivil m p c)
    (hy : ¬ (0 ≤ c.year ∧ c.year ≤ 9999)) (fmt : List Char) (items : List FItem2)
    (hf : parseFmt2 fmt = some items) (hs : pctSafe items = true)
    (hyear : Piece.fld .century ∈ piecesOfItems2 items) :
    strftime2 m p fmt = .error .bounds := by
  obtain ⟨ht, hna⟩ := translate_scan2 fmt items hf hs
  obtain ⟨p', hfd, hv', hrep, hn, h1, h2, h3, h4⟩ := forDump_spec m p hv
  have hc' := isCivil_transfer m p p' c hc hn h1 h2 h3 h4
  have hctx := dumpCtx_spec m p' hv' hrep c hc'
  unfold strftime2
  rw [hna, ht]
  simp only [Bool.false_eq_true, ↓reduceIte, hfd, Option.bind_some, hctx]
  rw [if_pos]
  exact ⟨by simpa using hyear, hy⟩

example : strftime2 .greg ⟨.cal 10000 1 1, 0, 0, 0, ⟨0, 0⟩⟩ "%%%Y".toList = .error .bounds ∧
    strftime2 .greg ⟨.cal 10000 1 1, 0, 0, 0, ⟨0, 0⟩⟩ "%%%m".toList = .ok "%01".toList := by decide +kernel

/-- **`%%` is not always POSIX's `%%`.**  Outside `pctSafe` the POSIX reading FAILS: `%%Y` is, to the
    library, a literal `%` followed by the directive `%Y`, whose printf template `%(century)02d…` then
    has its own `%` eaten (`%%` → `%`), so the template's text is printed: `%(century)02d00` for the year
    2000, where POSIX prints `%Y`; `%%a`, POSIX `%a`, is refused as an unsupported directive. -/
theorem C17_percent_posix_counterexample :
    parseFmt2 "%%Y".toList = some [.pct, .lit 'Y'] ∧
    strftime2 .greg ⟨.cal 2000 3 4, 5, 6, 7, ⟨0, 0⟩⟩ "%%Y".toList = .ok "%(century)02d00".toList ∧
    posix2 ⟨2000, 3, 4, 64, 5, 6, 7, 0, 952146367⟩ [.pct, .lit 'Y'] = "%Y".toList ∧
    parseFmt2 "100%%a".toList = some [.lit '1', .lit '0', .lit '0', .pct, .lit 'a'] ∧
    strftime2 .greg ⟨.cal 2000 3 4, 5, 6, 7, ⟨0, 0⟩⟩ "100%%a".toList = .error .syntax := by
  decide +kernel

/-- **A trailing `%`**: a format of the class above followed by one more `%` is refused with the bare
    `ValueError` ("incomplete format") of Python's `%` operator — not with the library's
    `StrftimeSyntaxError` — for every valid point with a year in 0000–9999. -/
theorem C17_strftime_trailing_percent (m : Mode) (p : TP) (hv : p.Valid m) (c : Civil) (hc : IsCivil m p c)
    (hy : 0 ≤ c.year ∧ c.year ≤ 9999) (pre : List Char) (items : List FItem2)
    (hf : parseFmt2 pre = some items) (hs : pctSafe items = true) :
    strftime2 m p (pre ++ ['%']) = .error .value := by
  rw [strftime2_prefix m p hv c hc hy pre items hf hs ['%'] (by decide) (by decide) [.lit '%'] (by decide)]
  have : exprOf [Piece.lit '%'] = ['%'] := rfl
  rw [this, run_trailing, prepend_error]

example : strftime2 .greg ⟨.cal 2000 3 4, 5, 6, 7, ⟨0, 0⟩⟩ "%Y%".toList = .error .value ∧
    strftime2 .greg ⟨.cal 2000 3 4, 5, 6, 7, ⟨0, 0⟩⟩ "%".toList = .error .value ∧
    strftime2 .greg ⟨.cal 2000 3 4, 5, 6, 7, ⟨0, 0⟩⟩ "50%%%".toList = .error .value := by decide +kernel

/-- A directive occurs in the format iff the format names a field. -/
theorem hasFld_items (items : List FItem2) : hasFld (piecesOfItems2 items) = !(fieldsOf2 items).isEmpty := by
  induction items with
  | nil => rfl
  | cons it r ih =>
    rw [piecesOfItems2_cons, hasFld_append]
    cases it with
    | lit ch => simpa [pieces2, hasFld, fldsOf, fieldsOf2] using ih
    | pct => simpa [pieces2, hasFld, fldsOf, fieldsOf2] using ih
    | conv dir => cases dir <;> simp [pieces2, hasFld, fldsOf, piecesOf, fieldsOf2, Dir.fields]

/-- **A `%` before punctuation** (`inertPunct`: not a letter, digit, underscore or non-ASCII character,
    and none of `%` `(` `-` `+` space `#` `*` `.`, which printf reads as `%%`, a mapping key, flags, a
    width or a precision): after a format of the class above — whatever follows, as long as it is
    translatable — strftime fails in Python's `%` operator: with `ValueError` ("unsupported format
    character") if no directive precedes the `%`, with `TypeError` ("not enough arguments for format
    string": NOT a `ValueError`) if one does. -/
theorem C17_strftime_stray_percent (m : Mode) (p : TP) (hv : p.Valid m) (c : Civil) (hc : IsCivil m p c)
    (hy : 0 ≤ c.year ∧ c.year ≤ 9999) (pre : List Char) (items : List FItem2)
    (hf : parseFmt2 pre = some items) (hs : pctSafe items = true) (x : Char) (hx : inertPunct x = true)
    (post : List Char) (hpa : nonAsciiAfterPct post = false) (tp : List Piece)
    (htp : translate (scan post) = .ok tp) :
    strftime2 m p (pre ++ '%' :: x :: post) =
      .error (if fieldsOf2 items = [] then .value else .type) := by
  have hx' := hx
  simp only [inertPunct, Bool.and_eq_true, Bool.not_eq_true'] at hx'
  obtain ⟨hxw, hxl⟩ := hx'
  obtain ⟨hword, hascii⟩ := isWord_wordLike x hxw
  have hxp : x ≠ '%' := by
    intro e; subst e; exact absurd hxl (by decide)
  -- the suffix `%x…` is read as the literal `%`, the literal `x`, then `post`
  have hscan : scan ('%' :: x :: post) = .ch '%' :: .ch x :: scan post := by
    have e1 : scan ('%' :: x :: post) = .ch '%' :: scan (x :: post) := by simp [scan, hword]
    have e2 : scan (x :: post) = .ch x :: scan post := by
      cases post with
      | nil => rfl
      | cons d r => simp [scan, hxp]
    rw [e1, e2]
  have htl : translate (scan ('%' :: x :: post)) = .ok (.lit '%' :: .lit x :: tp) := by
    rw [hscan]; simp [translate, htp]
  have hsa : nonAsciiAfterPct ('%' :: x :: post) = false := by
    have e2 : ¬ (128 ≤ x.toNat) := by omega
    simp only [nonAsciiAfterPct, e2, decide_false, Bool.and_false, Bool.false_or]
    rw [nonAscii_skip x post hxp, hpa]
  rw [strftime2_prefix m p hv c hc hy pre items hf hs ('%' :: x :: post) wordLike_percent hsa _ htl]
  have he : exprOf (Piece.lit '%' :: Piece.lit x :: tp) = '%' :: x :: exprOf tp := by simp [exprOf, pieceExpr]
  rw [he, run_stray _ _ x _ hx, prepend_error]
  rw [hasFld_items]
  cases fieldsOf2 items <;> simp

example : inertPunct '!' = true ∧ inertPunct ':' = true ∧ inertPunct '\n' = true ∧ inertPunct ' ' = false ∧
    inertPunct 'd' = false := by decide
example : strftime2 .greg ⟨.cal 2000 3 4, 5, 6, 7, ⟨0, 0⟩⟩ "50%! %Y".toList = .error .value ∧
    strftime2 .greg ⟨.cal 2000 3 4, 5, 6, 7, ⟨0, 0⟩⟩ "%Y 50%!".toList = .error .type := by decide +kernel

/-- What else a `%` in the literal text can do (each line confirmed on /repo, Python 3.12): it is a
    conversion specification of Python's `%` operator on the internal dict of properties —
    a flag then a letter: `ValueError` (unsupported format character 'Y');  `%(name)`: `KeyError` when the
    format names no such property, else the property's value (here the century, printed a second
    time);  a numeric conversion without a key: `TypeError` (the dict is not a number);  a `%` whose
    conversion would print the dict itself (`% s`): outside the model, on /repo the `repr` of the
    internal dict, e.g. `{'century': 20, 'year_of_century': 0}`, appears in the output. -/
example : strftime2 .greg ⟨.cal 2000 3 4, 5, 6, 7, ⟨0, 0⟩⟩ "% Y".toList = .error .value ∧
    strftime2 .greg ⟨.cal 2000 3 4, 5, 6, 7, ⟨0, 0⟩⟩ "%(century)s".toList = .error .key ∧
    strftime2 .greg ⟨.cal 2000 3 4, 5, 6, 7, ⟨0, 0⟩⟩ "%Y %(century)03d|".toList = .ok "2000 020|".toList ∧
    strftime2 .greg ⟨.cal 2000 3 4, 5, 6, 7, ⟨0, 0⟩⟩ "%-5d".toList = .error .type ∧
    strftime2 .greg ⟨.cal 2000 3 4, 5, 6, 7, ⟨0, 0⟩⟩ "%(".toList = .error .value ∧
    strftime2 .greg ⟨.cal 2000 3 4, 5, 6, 7, ⟨0, 0⟩⟩ "% s%Y".toList = .error .unmodelled := by decide +kernel

/-! ## strptime -/

/-- The format determines date, time and zone (`Determined` of `Lemmas/Strftime.lean`, on the fields the
    format names). -/
def Determined2 (items : List FItem2) : Prop := Determined (items.map FItem2.toItem)

instance (items : List FItem2) : Decidable (Determined2 items) := by unfold Determined2; infer_instance

theorem pctSafe_of_no_pct (items : List FItem2) (h : FItem2.pct ∉ items) : pctSafe items = true := by
  induction items with
  | nil => rfl
  | cons it r ih =>
    have := ih (fun hm => h (by simp [hm]))
    cases it with
    | lit c => simpa [pctSafe] using this
    | pct => simp at h
    | conv dir => simpa [pctSafe] using this

/-- **C17 (strptime inverts strftime, literal text)**: let `fmt` be a format over the supported
    directives and ARBITRARY literal text — regex-special characters (`.`, `(`, `+`, `\`, `*`, `$`, …),
    white space, anything but `%%` — in any arrangement (literal text before, between and after the
    directives or none at all: adjacent numeric directives are fixed-width), that determines date, time
    and zone.  Then for every valid point with a civil year in 0000–9999, any representation, offset,
    mode, parser zone configuration and local zone: strftime (with its final `%`-formatting) succeeds
    and strptime of that output under the same format returns a valid point at the same instant, with
    `p`'s own offset and clock fields (for `%s`: in the local zone). -/
theorem C17_strptime_literals (m : Mode) (p : TP) (hv : p.Valid m) (c : Civil) (hc : IsCivil m p c)
    (hy : 0 ≤ c.year ∧ c.year ≤ 9999) (fmt : List Char) (items : List FItem2)
    (hf : parseFmt2 fmt = some items) (hnp : FItem2.pct ∉ items) (hd : Determined2 items)
    (cfg : PCfg) (loc : TZ) (hloc : loc.Valid) :
    ∃ text q, strftime2 m p fmt = .ok text ∧ text = posix2 c items ∧ strptime m cfg loc text fmt = .ok q ∧
      q.inst m = p.inst m ∧ q.Valid m ∧
      (fieldsOf2 items = [.unix] → q.tz = loc) ∧
      (fieldsOf2 items ≠ [.unix] → q.tz = p.tz ∧ q.hh = p.hh ∧ q.mi = p.mi ∧ q.ss = p.ss) := by
  have hf1 := parseFmt_of_parseFmt2 fmt items hf hnp
  obtain ⟨text, q, h1, h2, h3, h4, h5, h6⟩ :=
    C17_strptime m p hv c hc hy fmt (items.map FItem2.toItem) hf1 hd cfg loc hloc
  have htext : text = posix2 c items := by
    have := C17_strftime m p hv c hc hy fmt _ hf1
    rw [this, posix_toItem] at h1
    exact (Except.ok.inj h1).symm
  refine ⟨text, q, ?_, htext, h2, h3, h4, ?_, ?_⟩
  · rw [C17_strftime_literals m p hv c hc hy fmt items hf (pctSafe_of_no_pct items hnp), htext]
  · rw [← fieldsOf_toItem]; exact h5
  · rw [← fieldsOf_toItem]; exact h6

example : parseFmt2 "[%Y.%m(%d)+\\ T\t%H*%M?%S$%z]".toList =
    some [.lit '[', .conv .Y, .lit '.', .conv .m, .lit '(', .conv .d, .lit ')', .lit '+', .lit '\\', .lit ' ',
      .lit 'T', .lit '\t', .conv .H, .lit '*', .conv .M, .lit '?', .conv .S, .lit '$', .conv .z, .lit ']'] ∧
    Determined2 [.lit '[', .conv .Y, .lit '.', .conv .m, .lit '(', .conv .d, .lit ')', .lit '+', .lit '\\',
      .lit ' ', .lit 'T', .lit '\t', .conv .H, .lit '*', .conv .M, .lit '?', .conv .S, .lit '$', .conv .z,
      .lit ']'] := by decide
example : strftime2 .greg ⟨.week 2004 53 5, 24, 0, 0, ⟨0, -30⟩⟩ "[%Y.%m(%d)+\\ T\t%H*%M?%S$%z]".toList =
      .ok "[2004.12(31)+\\ T\t24*00?00$-0030]".toList ∧
    strptime .greg ⟨none, false⟩ ⟨5, 30⟩ "[2004.12(31)+\\ T\t24*00?00$-0030]".toList
      "[%Y.%m(%d)+\\ T\t%H*%M?%S$%z]".toList = .ok ⟨.cal 2004 12 31, 24, 0, 0, ⟨0, -30⟩⟩ := by decide +kernel

/-- Literal text is matched character by character, nothing in it is a regex operator: under a format
    without any directive, strptime accepts exactly the format string itself (and returns the default
    point: year 0, January 1st, midnight, the default zone). -/
theorem C17_strptime_literal_exact (m : Mode) (cfg : PCfg) (loc : TZ) (fmt data : List Char)
    (hl : scan fmt = fmt.map Item.ch) :
    strptime m cfg loc data fmt =
      if data = fmt then assemble m cfg loc [] else .error .conversion := by
  unfold strptime
  rw [hl, translate_chs]
  simp only [fldsOf_lits, hasDup, Bool.false_eq_true, ↓reduceIte, match_lits]
  by_cases h : data = fmt <;> simp [h]

example : scan ".(+\\ \t\n*?[0-9]$".toList = ".(+\\ \t\n*?[0-9]$".toList.map Item.ch := by decide
example : strptime .greg ⟨some ⟨1, 0⟩, false⟩ ⟨0, 0⟩ ".(+\\ \t\n*?[0-9]$".toList ".(+\\ \t\n*?[0-9]$".toList =
      .ok ⟨.cal 0 1 1, 0, 0, 0, ⟨1, 0⟩⟩ ∧
    strptime .greg ⟨some ⟨1, 0⟩, false⟩ ⟨0, 0⟩ "a(+\\ \t\n*?[0-9]$".toList ".(+\\ \t\n*?[0-9]$".toList =
      .error .conversion ∧
    strptime .greg ⟨some ⟨1, 0⟩, false⟩ ⟨0, 0⟩ ".(+\\ \t\n*?7$".toList ".(+\\ \t\n*?[0-9]$".toList =
      .error .conversion := by decide +kernel

/-- **No format with `%%` round-trips.**  strptime escapes the literal text as it stands, so a `%%` of
    the format demands the two characters `%%` in the data, while strftime prints one `%` for it.  For
    EVERY format of the class of `C17_strftime_literals` that contains `%%`, every civil date-time and
    every parser configuration, strptime refuses (`StrptimeConversionError`) the text that strftime
    printed with the same format. -/
theorem C17_strptime_percent_never_round_trips (m : Mode) (cfg : PCfg) (loc : TZ) (c : Civil)
    (fmt : List Char) (items : List FItem2) (hf : parseFmt2 fmt = some items) (hs : pctSafe items = true)
    (hp : FItem2.pct ∈ items) :
    strptime m cfg loc (posix2 c items) fmt = .error .conversion := by
  obtain ⟨ht, _⟩ := translate_scan2 fmt items hf hs
  have hl := lit_ne_pct fmt items hf
  unfold strptime
  rw [ht]
  simp only
  split
  · rfl
  · cases hm : matchPieces (piecesOfItems2 items) (posix2 c items) with
    | none => rfl
    | some b =>
      exfalso
      have h1 := match_count _ _ _ hm
      rw [count_pieces2 items hl, count_posix2 c items hl] at h1
      have h2 : 0 < items.count .pct := List.count_pos_iff.2 hp
      omega

/-- … concretely, and what strptime wants instead. -/
theorem C17_strptime_percent_counterexample :
    strftime2 .greg ⟨.cal 2000 1 1, 0, 0, 0, ⟨0, 0⟩⟩ "100%% %Y".toList = .ok "100% 2000".toList ∧
    strptime .greg ⟨none, true⟩ ⟨0, 0⟩ "100% 2000".toList "100%% %Y".toList = .error .conversion ∧
    strptime .greg ⟨none, true⟩ ⟨0, 0⟩ "100%% 2000".toList "100%% %Y".toList =
      .ok ⟨.cal 2000 1 1, 0, 0, 0, ⟨0, 0⟩⟩ := by decide +kernel

/-! ## `%s` on points with decimal seconds, minutes or hours -/

theorem forDumpQ_spec (m : Mode) (p : TPQ) (hv : p.Valid m) :
    ∃ p', forDumpQ m p = some p' ∧ p'.Valid m ∧ p'.inst m = p.inst m := by
  unfold forDumpQ
  by_cases h : p.date.rep = 2
  · rw [if_pos h]
    obtain ⟨r, he, hrv, _, hn⟩ := convert_spec m 0 (by omega) p.date hv.1
    rw [he]
    refine ⟨{ p with date := r }, rfl, ⟨hrv, hv.2.1, hv.2.2⟩, ?_⟩
    simp only [TPQ.inst, TPQ.hms, hn]
  · rw [if_neg h]
    exact ⟨p, rfl, hv, rfl⟩

/-- **C17 (`%s`, decimal points)**: `strftime("%s")` of a valid point in ANY precision form prints, in
    decimal, the exact distance in seconds from 1970-01-01T00:00:00Z to its instant ROUNDED TOWARD ZERO
    (`Props/C18b`: the floor from the epoch on, the ceiling before it). -/
theorem C17_unix_rat (m : Mode) (p : TPQ) (hv : p.Valid m) :
    unixTextQ m p = some (decimalInt (truncQ (p.inst m - epochQ m))) := by
  obtain ⟨p', e, hv', hi⟩ := forDumpQ_spec m p hv
  unfold unixTextQ
  rw [e, Option.bind_some, C18_seconds_since_rat m p' hv', hi, Option.map_some, showInt_eq_decimalInt]

/-- strptime on the decimal text of an integer under `%s`: the local-zone point of that Unix time. -/
theorem strptime_unix_text (m : Mode) (cfg : PCfg) (loc : TZ) (n : Int) :
    strptime m cfg loc (decimalInt n) ['%', 's'] =
      match fromUnix m n (some loc) with
      | some q => .ok q
      | none => .error .internal := by
  have ht : translate (scan ['%', 's']) = .ok [.fld .unix] := by decide
  obtain ⟨h1, h2⟩ := unix_text n
  unfold strptime
  rw [ht]
  have hd : hasDup (fldsOf [Piece.fld .unix]) = false := by decide
  simp only [hd, Bool.false_eq_true, ↓reduceIte]
  have hm : matchPieces [.fld .unix] (decimalInt n) = some [(.unix, decimalInt n)] := by
    simp [matchPieces, Gen.Strftime.patOf, h1]
  rw [hm]
  have e1 : (Fld.tzSign == Fld.unix) = false := by decide
  simp only [assemble, List.lookup, beq_self_eq_true, h2, e1]
  cases fromUnix m n (some loc) <;> simp


/-- **`%s` round trip for decimal points**: `strptime(p.strftime("%s"), "%s")` succeeds for every valid
    point in any precision form, whatever the zones; the result is a valid whole-second point in the
    local zone, less than one second away from `p`: not after `p` if `p` is at or after the epoch —
    but not BEFORE `p` if `p` is before the epoch (truncation toward zero, where POSIX's `time_t`
    would be the floor). -/
theorem C17_unix_rat_round_trip (m : Mode) (p : TPQ) (hv : p.Valid m) (cfg : PCfg) (loc : TZ)
    (hloc : loc.Valid) :
    ∃ n q, unixTextQ m p = some (decimalInt n) ∧ strptime m cfg loc (decimalInt n) ['%', 's'] = .ok q ∧
      q.Valid m ∧ q.tz = loc ∧ ((q.inst m : Int) : Rat) = epochQ m + (n : Rat) ∧
      (epochQ m ≤ p.inst m → ((q.inst m : Int) : Rat) ≤ p.inst m ∧ p.inst m < ((q.inst m : Int) : Rat) + 1) ∧
      (p.inst m < epochQ m → p.inst m ≤ ((q.inst m : Int) : Rat) ∧ ((q.inst m : Int) : Rat) < p.inst m + 1) := by
  obtain ⟨n, e, b1, b2⟩ := C18_seconds_since_rat_bounds m p hv
  have hn : n = truncQ (p.inst m - epochQ m) := by
    rw [C18_seconds_since_rat m p hv] at e
    exact (Option.some.inj e).symm
  obtain ⟨q, hq, hi, hs, ht⟩ := fromUnix_local m n loc hloc
  have hiq : ((q.inst m : Int) : Rat) = epochQ m + (n : Rat) := by
    rw [hi, epochQ, Lemmas.Strf.unixEpoch_inst, Rat.intCast_add]
  refine ⟨n, q, by rw [C17_unix_rat m p hv, hn], ?_, hs.1, ht, hiq, ?_, ?_⟩
  · rw [strptime_unix_text, hq]
  · intro h; obtain ⟨_, a, b⟩ := b1 h; rw [hiq]; exact ⟨a, b⟩
  · intro h; obtain ⟨_, a, b⟩ := b2 h; rw [hiq]; exact ⟨a, b⟩

/-- The `%s` text is not the POSIX one before 1970, and disagrees with `%X` of the same point:
    1969-12-31T23:59:59.5Z prints `%s` = `0` (POSIX: `-1`, the civil second 23:59:59 that `%X` shows), the
    same text as 1970-01-01T00:00:00.5Z; read back it is 1970-01-01T00:00:00Z, AFTER the point. -/
theorem C17_unix_rat_counterexample :
    unixTextQ .greg ⟨.cal 1969 12 31, 23, some 59, some (119/2), ⟨0, 0⟩⟩ = some "0".toList ∧
    unixTextQ .greg ⟨.cal 1970 1 1, 0, some 0, some (1/2), ⟨0, 0⟩⟩ = some "0".toList ∧
    unixTextQ .greg ⟨.cal 1969 12 31, 23, some 59, some 59, ⟨0, 0⟩⟩ = some "-1".toList ∧
    strptime .greg ⟨none, false⟩ ⟨0, 0⟩ "0".toList "%s".toList = .ok ⟨.cal 1970 1 1, 0, 0, 0, ⟨0, 0⟩⟩ := by
  decide +kernel

example : unixTextQ .greg ⟨.week 1970 1 4, 1/8, none, none, ⟨0, 0⟩⟩ = some "450".toList ∧
    unixTextQ .d360 ⟨.ord 1969 360, 23, some (119/2), none, ⟨0, 0⟩⟩ = some "-30".toList := by decide +kernel

end IsoDT.Props.C17
