/-
  Driver ops for the date-time-like alternative spelling of durations (`Model.DurTextAlt`).

  Strings travel as one token: `s` followed by the '.'-joined decimal code points (`s` alone = the
  empty string), as in `Driver.Text` / harness `tprops.enc`.

    daltq  <mode> <s-text>   `DurationParser().parse(text)` (`parseA`):
                             -> U <years> <months> <days> <hours> <minutes> <seconds>
                              | W <weeks>
                              | err                       (an exception of the ValueError family)
                              | inf                       (a designator float slot overflowed)
                              | outside                   (non-ASCII input)
                             hours / minutes / seconds are integers, or rationals `n/d` when the text
                             spells a decimal fraction.  Where `parseA` answers `outside` for an ASCII
                             text (a designator form with decimal float text) the answer of
                             `DurTextQ.parseQ 4300 pyFloat` is printed instead.
    daltfb <mode> <s-text>   the fallback alone (`parseAltDur`) on the text AFTER the `P`:
                             -> U … | err
    dalttp <mode> <s-text>   the time point of the fallback (`parseAltTP`), fields
                             `year month day doy week dow hour minute second` (`_` = None) | err
-/
import IsoDT.Model.DurTextAlt
import IsoDT.Driver.Text
import IsoDT.Driver.DurTextQ

namespace IsoDT.Driver.DurTextAlt
open IsoDT IsoDT.Model IsoDT.Model.DurTextAlt IsoDT.Text
open IsoDT.Driver.Text (decodeStr)

def showAltR : AltR → String
  | .ok d => IsoDT.Driver.DurText.showDur d
  | .okDec d => IsoDT.Driver.DurQ.showDur d
  | .err => "err"

def showPRQ : IsoDT.Model.DurTextQ.PRQ → String
  | .ok d => IsoDT.Driver.DurQ.showDur d
  | .okInf => "inf"
  | .syntaxErr => "err"
  | .valueErr => "err"
  | .outside => "outside"

def showAR (m : Mode) (s : List Char) : String :=
  match parseA m s with
  | .ok d => IsoDT.Driver.DurText.showDur d
  | .okDec d => IsoDT.Driver.DurQ.showDur d
  | .err => "err"
  | .outside =>
    if s.any (fun c => 128 ≤ c.toNat) then "outside"
    else showPRQ (IsoDT.Model.DurTextQ.parseQ 4300 IsoDT.Model.DurTextQ.pyFloat m s)

def showOI : Option Int → String
  | some v => toString v
  | none => "_"

def showTPFields (p : XTP) : String :=
  " ".intercalate ([p.year, p.month, p.day, p.doy, p.week, p.dow, p.hour, p.minute, p.second].map showOI)

def dispatch (toks : List String) : Option String :=
  match toks with
  | ["daltq", mode, x] => some (match Mode.ofName? mode, decodeStr x with
      | some m, some s => showAR m s
      | _, _ => "bad-op")
  | ["daltfb", mode, x] => some (match Mode.ofName? mode, decodeStr x with
      | some m, some s => showAltR (parseAltDur m s)
      | _, _ => "bad-op")
  | ["dalttp", mode, x] => some (match Mode.ofName? mode, decodeStr x with
      | some m, some s => (match parseAltTP m s with
        | some p => showTPFields p
        | none => "err")
      | _, _ => "bad-op")
  | _ => none

end IsoDT.Driver.DurTextAlt
