/-
  Driver ops that evaluate the SPECIFICATION (`IsoDT/Spec/Calendar.lean`) itself, so that the Python
  transcription the harness uses as its oracle (`harness/oracle.py`) is compared with the Lean Spec on
  every run of the C03 check (op `specq`):

    spec <mode> <fn> <ints...>   fn ∈ leap monthlen dbm yearlen dby dnord dncal weekday wys dnweek wiy
                                     vcal vord vweek inst
-/
import IsoDT.Spec.Calendar

namespace IsoDT.Driver.SpecOps
open IsoDT IsoDT.Spec

def b2s (b : Bool) : String := if b then "1" else "0"

def dispatch (toks : List String) : Option String :=
  match toks with
  | "spec" :: mode :: fn :: rest =>
    some <|
      match Mode.ofName? mode, rest.mapM String.toInt? with
      | some m, some a =>
        match fn, a with
        | "leap", [y] => b2s (leap m y)
        | "monthlen", [y, mo] => toString (monthLen m y mo)
        | "dbm", [y, mo] => toString (dbm m y mo)
        | "yearlen", [y] => toString (yearLen m y)
        | "dby", [y] => toString (dby m y)
        | "dnord", [y, d] => toString (dayNumOrd m y d)
        | "dncal", [y, mo, d] => toString (dayNumCal m y mo d)
        | "weekday", [n] => toString (weekday m n)
        | "wys", [y] => toString (weekYearStart m y)
        | "dnweek", [y, w, d] => toString (dayNumWeek m y w d)
        | "wiy", [y] => toString (weeksInYear m y)
        | "vcal", [y, mo, d] => b2s (decide (ValidCal m y mo d))
        | "vord", [y, d] => b2s (decide (ValidOrd m y d))
        | "vweek", [y, w, d] => b2s (decide (ValidWeek m y w d))
        | "inst", [rep, y, x, z, hh, mi, ss, tzh, tzm] =>
          let dt : Date := if rep = 0 then .cal y x z else if rep = 1 then .ord y x else .week y x z
          toString (TP.inst m ⟨dt, hh, mi, ss, ⟨tzh, tzm⟩⟩)
        | _, _ => "bad-op"
      | _, _ => "bad-op"
  | _ => none

end IsoDT.Driver.SpecOps
