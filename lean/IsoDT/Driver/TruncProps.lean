/-
  Driver operation for `TimePoint.get_truncated_properties` of a parsed text (work package C07d).

    tprops <mode> <ned> <basicOnly 0|1> <allowTruncated 0|1> <zone> <s>

  prints `err` (the parse failed), `None` (the parsed point is not truncated), `EXC` (the method
  raises) or `D k=v;k=v;...` in the dict's insertion order; a unit with a decimal fraction is
  `<int>+<digits>` (trailing zeros stripped), as in `tparse`.
-/
import IsoDT.Model.TruncProps
import IsoDT.Driver.Text

namespace IsoDT.Driver.TruncProps
open IsoDT IsoDT.Text IsoDT.Driver.Text

def keyName : TPropKey → String
  | .yearOfDecade => "year_of_decade" | .yearOfCentury => "year_of_century"
  | .monthOfYear => "month_of_year" | .weekOfYear => "week_of_year" | .dayOfYear => "day_of_year"
  | .dayOfMonth => "day_of_month" | .dayOfWeek => "day_of_week" | .hourOfDay => "hour_of_day"
  | .minuteOfHour => "minute_of_hour" | .secondOfMinute => "second_of_minute"

def showEntry (e : TPropEntry) : String :=
  s!"{keyName e.1}={showUnit (some e.2.1) e.2.2}"

def dispatch (toks : List String) : Option String :=
  match toks with
  | "tprops" :: mode :: rest =>
    some <| match parseCfg mode rest with
    | some (cfg, [s]) =>
      match decodeStr s with
      | none => "bad-op"
      | some text =>
        match parse cfg text false with
        | none => "err"
        | some p =>
          match truncatedProperties p with
          | .notTruncated => "None"
          | .error => "EXC"
          | .props l => "D " ++ ";".intercalate (l.map showEntry)
    | _ => "bad-op"
  | _ => none

end IsoDT.Driver.TruncProps
