/-
  Driver ops for the evaluating CLI model (`Model.Cli2.cliEval`).  Strings hex-encoded as in
  `Driver/Cli.lean` (`-` = empty, `_` = absent).

    clieval <tzh> <tzm> <envCal|_> <envRef|_> <version01> <utc01> <max> <asTotal|_> <calendar|_>
            <parseFmt|_> <printFmt|_> <ref|_> I <n> <items…> A <n> <offsets1…> B <n> <offsets2…>
        -> `OUT <hex of the lines joined by \n>` | `EXIT <class>` | `TRACEBACK <class>` | `OUTSIDE <why>`
    pyrepr <n> <k>      -> Python's `repr(n / k)` as computed by `pyFloatRepr` (plain text)
    recmatch <hex>      -> the groups of the recurrence regex that matches: `reps start intv end` (hex | `_`), or `nomatch`

  `pyFloatRepr` is the instance of the parameter `Env.floatRepr` the driver runs with: exact
  rational arithmetic, no floats: the binary64 nearest to n/k (ties to even), then the shortest
  decimal digit string inside that value's rounding interval (the closest one of that length), laid
  out as `float_repr_style = 'short'` does (`repr`: exponent form iff the decimal point position is
  > 16 or < -3).
-/
import IsoDT.Model.Cli2
import IsoDT.Driver.Cli

namespace IsoDT.Driver.Cli2
open IsoDT IsoDT.Model IsoDT.Model.Cli IsoDT.Model.Cli2 IsoDT.Driver.Cli
open IsoDT.Spec (TZ)

/-! ### `repr(n / k)` -/

/-- Mantissa `M` (2^52 ≤ M < 2^53) and exponent `e` of the binary64 nearest to `a / b`
    (`a, b > 0`, the quotient in the normal range). -/
def toBin64 (a b : Nat) : Nat × Int :=
  let t0 : Int := (Nat.log2 a : Int) - (Nat.log2 b : Int)
  let scaled (t : Int) : Nat × Nat :=          -- a/b / 2^(t-52) as num/den
    let e := t - 52
    if e ≥ 0 then (a, b * 2 ^ e.toNat) else (a * 2 ^ (-e).toNat, b)
  -- floor(log2(a/b)) is t0 or t0 - 1
  let t : Int := let (n, d) := scaled t0; if n / d < 2 ^ 52 then t0 - 1 else t0
  let (n, d) := scaled t
  let q := n / d
  let r := n % d
  let m := if 2 * r > d ∨ (2 * r = d ∧ q % 2 = 1) then q + 1 else q
  if m = 2 ^ 53 then (2 ^ 52, t - 52 + 1) else (m, t - 52)

/-- `x · 2^s` as a fraction. -/
def scale2 (x : Nat) (s : Int) : Nat × Nat := if s ≥ 0 then (x * 2 ^ s.toNat, 1) else (x, 2 ^ (-s).toNat)

/-- `p ≤ q` and `p < q` on fractions. -/
def fle (p q : Nat × Nat) : Bool := p.1 * q.2 ≤ q.1 * p.2
def flt (p q : Nat × Nat) : Bool := p.1 * q.2 < q.1 * p.2

/-- Smallest `k` with `v < 10^k` (searching upwards from `k0`, fuel-bounded). -/
def decptUp (v : Nat × Nat) : Nat → Int → Int
  | 0, k => k
  | f + 1, k =>
    let p : Nat × Nat := if k ≥ 0 then (10 ^ k.toNat, 1) else (1, 10 ^ (-k).toNat)
    if flt v p then k else decptUp v f (k + 1)

/-- Shortest digits: returns (digit value, number of digits, decimal point position). -/
def shortest (v lo hi : Nat × Nat) (incl : Bool) (decpt : Int) : Nat → Nat → Nat × Nat × Int
  | 0, d => (0, d, decpt)
  | f + 1, d =>
    -- unit = 10^(decpt - d)
    let u : Int := decpt - d
    let unit : Nat × Nat := if u ≥ 0 then (10 ^ u.toNat, 1) else (1, 10 ^ (-u).toNat)
    -- floor(v / unit)
    let c := (v.1 * unit.2) / (v.2 * unit.1)
    let inside (c : Nat) : Bool :=
      let x : Nat × Nat := (c * unit.1, unit.2)
      if incl then fle lo x && fle x hi else flt lo x && flt x hi
    -- distance comparison: |v - c·unit| vs |(c+1)·unit - v|  <=>  2v vs (2c+1)·unit
    let lowerCloser : Bool := fle (2 * v.1, v.2) ((2 * c + 1) * unit.1, unit.2)
    let pick : Option Nat :=
      match inside c, inside (c + 1) with
      | true, true => some (if lowerCloser then c else c + 1)
      | true, false => some c
      | false, true => some (c + 1)
      | false, false => none
    match pick with
    | some c => (c, d, decpt)
    | none => shortest v lo hi incl decpt f (d + 1)

def stripTrailingZeros (s : List Char) : List Char := (s.reverse.dropWhile (· = '0')).reverse

def pyFloatReprPos (a b : Nat) : List Char :=
  let (m, e) := toBin64 a b
  let v := scale2 (4 * m) (e - 2)
  let lo := scale2 (if m = 2 ^ 52 then 4 * m - 1 else 4 * m - 2) (e - 2)
  let hi := scale2 (4 * m + 2) (e - 2)
  let decpt := decptUp v 700 (-330)
  let (c, d, decpt) := shortest v lo hi (m % 2 = 0) decpt 18 1
  -- digits of c: it may have d or d+1 digits (c = 10^d)
  let ds0 := (toString c).toList
  let decpt : Int := decpt + ((ds0.length : Int) - (d : Int))
  let ds := let s := stripTrailingZeros ds0; if s.isEmpty then ['0'] else s
  let nd : Int := ds.length
  if decpt > 16 ∨ decpt < -3 then
    let ex := decpt - 1
    let exs := (toString ex.natAbs).toList
    let exs := if exs.length < 2 then '0' :: exs else exs
    ds.take 1 ++ (if ds.length > 1 then '.' :: ds.drop 1 else []) ++ ['e', if ex < 0 then '-' else '+'] ++ exs
  else if decpt ≤ 0 then
    ['0', '.'] ++ List.replicate (-decpt).toNat '0' ++ ds
  else if decpt ≥ nd then
    ds ++ List.replicate (decpt - nd).toNat '0' ++ ['.', '0']
  else ds.take decpt.toNat ++ '.' :: ds.drop decpt.toNat

/-- `repr(n / k)` for an integer `n` (or the float holding it exactly) and `k > 0`. -/
def pyFloatRepr (n : Int) (k : Nat) : List Char :=
  if n = 0 ∨ k = 0 then ['0', '.', '0']
  else if n < 0 then '-' :: pyFloatReprPos n.natAbs k
  else pyFloatReprPos n.natAbs k

/-! ### `clieval` -/

def exitName : ExitClass → String
  | .point => "point" | .offset => "offset" | .duration => "duration" | .recurrence => "recurrence"
  | .dump => "dump" | .unit => "unit" | .arith => "arith"

def whyName : Why → String
  | .version => "version" | .clock => "clock" | .stdin => "stdin" | .parseFormat => "parse-format"
  | .chars => "chars" | .notWholeSecond => "not-whole-second"
  | .duration => "duration" | .strftimeFallback => "strftime-fallback" | .dump => "dump"
  | .hugeTotal => "huge-total" | .emptyUnit => "empty-unit"

def showRes : Res (List Str) → String
  | .ok lines => "OUT " ++ hexL (List.intercalate ['\n'] lines)
  | .error (.exit c) => "EXIT " ++ exitName c
  | .error (.traceback .keyError) => "TRACEBACK KeyError"
  | .error (.traceback .overflowError) => "TRACEBACK OverflowError"
  | .error (.outside w) => "OUTSIDE " ++ whyName w

def showOptL : Option Str → String
  | some s => hexL s
  | none => "_"

def dispatch (toks : List String) : Option String :=
  match toks with
  | "clieval" :: tzh :: tzm :: ecal :: eref :: ver :: utc :: mx :: tot :: cal :: pf :: prf :: ref :: rest =>
    some <|
      match tzh.toInt?, tzm.toInt?, optStr? ecal, optStr? eref, mx.toInt?, optStr? tot, optStr? cal with
      | some tzh, some tzm, some ecal, some eref, some mx, some tot, some cal =>
        match optStr? pf, optStr? prf, optStr? ref, takeList "I" rest with
        | some pf, some prf, some ref, some (items, rest) =>
          match takeList "A" rest with
          | some (o1, rest) =>
            match takeList "B" rest with
            | some (o2, _) =>
              let L := fun (x : String) => x.toList
              let O := fun (x : Option String) => x.map L
              let env : Env := { envCalendar := O ecal, envRef := O eref, localTZ := ⟨tzh, tzm⟩,
                                 floatRepr := pyFloatRepr }
              showRes (cliEval env { items := items.map L, asTotal := O tot, calendar := O cal, maxResults := mx,
                                     offsets1 := o1.map L, offsets2 := o2.map L, parseFormat := O pf,
                                     printFormat := O prf, ref := O ref, utc := utc == "1", version := ver == "1" })
            | none => "bad-op"
          | none => "bad-op"
        | _, _, _, _ => "bad-op"
      | _, _, _, _, _, _, _ => "bad-op"
  | ["pyrepr", n, k] =>
    some <| match n.toInt?, k.toNat? with
      | some n, some k => String.ofList (pyFloatRepr n k)
      | _, _ => "bad-op"
  | ["recmatch", s] =>
    some <| match unhex s with
      | some s =>
        match matchRec s.toList with
        | some g => s!"{showOptL g.reps} {showOptL g.start} {showOptL g.intv} {showOptL g.end_}"
        | none => "nomatch"
      | none => "bad-op"
  | _ => none

end IsoDT.Driver.Cli2
