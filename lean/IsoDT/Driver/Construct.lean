/-
  Driver op for the constructor model:
  `mktp <mode> <year> <month> <week> <doy> <dom> <dow> <hh> <mi> <ss> <tzh> <tzm>` (each an int or `_`)
  answers the canonical point `rep y a b hh mi ss tzh tzm` or `err`.
-/
import IsoDT.Model.Construct

namespace IsoDT.Driver.Construct
open IsoDT IsoDT.Model

def optInt? (s : String) : Option (Option Int) := if s == "_" then some none else s.toInt?.map some

def showDate : Spec.Date → String
  | .cal y mo d => s!"c {y} {mo} {d}"
  | .ord y doy => s!"o {y} {doy} 0"
  | .week y w d => s!"w {y} {w} {d}"

def dispatch (toks : List String) : Option String :=
  match toks with
  | "mktp" :: mode :: rest =>
    some <|
      match Mode.ofName? mode, rest.mapM optInt? with
      | some m, some [y, mo, w, doy, dom, dow, hh, mi, ss, tzh, tzm] =>
        match mkTP m ⟨y, mo, w, doy, dom, dow, hh, mi, ss, tzh, tzm⟩ with
        | some p => s!"{showDate p.date} {p.hh} {p.mi} {p.ss} {p.tz.h} {p.tz.mi}"
        | none => "err"
      | _, _ => "bad-op"
  | _ => none

end IsoDT.Driver.Construct
