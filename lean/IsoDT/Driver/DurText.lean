/-
  Driver ops of C10 (duration text forms).  Strings travel as one token: `x` followed by the
  code points in hex separated by `.` (`x50.31.59` = "P1Y", `x` = the empty string).

    dstr  <Dur>                 -> str(d) as plain text
    drt   <mode> <Dur>          -> text | parse(text) | fix=b
    dparse <mode> <xstr>        -> U y mo d h mi s | W w | syntax | value | outside
    dalt  <mode> <xstr> <xstr>  -> parse of both, separated by ` | `
    dregex <i> <xstr>           -> none | match unit=<xstr> ...   (outside for non-ASCII input)
    f64   <n>                   -> the binary64 value nearest to the natural number n
-/
import IsoDT.Model.DurText

namespace IsoDT.Driver.DurText
open IsoDT IsoDT.Model IsoDT.Model.DurText IsoDT.Gen

def hexVal? (s : String) : Option Nat :=
  if s.isEmpty then none
  else s.toList.foldl (fun acc c => acc.bind fun a =>
    if '0' ≤ c ∧ c ≤ '9' then some (16 * a + (c.toNat - 48))
    else if 'a' ≤ c ∧ c ≤ 'f' then some (16 * a + (c.toNat - 87))
    else none) (some 0)

/-- Decode an `x…` token. -/
def unhex? (tok : String) : Option (List Char) :=
  match tok.toList with
  | 'x' :: [] => some []
  | 'x' :: rest => ((String.ofList rest).splitOn ".").mapM fun h => (hexVal? h).map Char.ofNat
  | _ => none

def hexDigit (n : Nat) : Char := if n < 10 then Char.ofNat (48 + n) else Char.ofNat (87 + n)

def toHex (n : Nat) : String :=
  String.ofList (if n < 16 then [hexDigit n] else (Nat.toDigits 16 n))

def enhex (s : List Char) : String :=
  "x" ++ ".".intercalate (s.map fun c => toHex c.toNat)

def showDur : Dur → String
  | .weeks w => s!"W {w}"
  | .units y mo d h mi s => s!"U {y} {mo} {d} {h} {mi} {s}"

def showPR : PR → String
  | .ok d => showDur d
  | .syntaxErr => "syntax"
  | .valueErr => "value"
  | .outside => "outside"

def parseDur (toks : List String) : Option Dur :=
  match toks with
  | ["W", w] => w.toInt?.map Dur.weeks
  | ["U", y, mo, d, h, mi, s] =>
    match [y, mo, d, h, mi, s].mapM String.toInt? with
    | some [y, mo, d, h, mi, s] => some (.units y mo d h mi s)
    | _ => none
  | _ => none

def b01 (b : Bool) : String := if b then "1" else "0"

def roundTrip (m : Mode) (d : Dur) : String :=
  let t := toText d
  let r := parse m t
  let tail := match r with
    | .ok d' => s!" | fix={b01 (toText d' == t)}"
    | _ => ""
  s!"{String.ofList t} | {showPR r}{tail}"

def regexOp (i : Nat) (s : List Char) : String :=
  if s.any (fun c => 128 ≤ c.toNat) then "outside"
  else match durRegexes[i]? with
    | none => "bad-op"
    | some (r, _) =>
      match r.search s with
      | none => "none"
      | some cp =>
        "match" ++ String.join (DUnit.all.filterMap fun u =>
          (cp u).map fun v => s!" {u.name}={enhex v}")

def dispatch (toks : List String) : Option String :=
  match toks with
  | "dstr" :: rest => some (match parseDur rest with
      | some d => String.ofList (toText d)
      | none => "bad-op")
  | "drt" :: mode :: rest => some (match Mode.ofName? mode, parseDur rest with
      | some m, some d => roundTrip m d
      | _, _ => "bad-op")
  | ["dparse", mode, x] => some (match Mode.ofName? mode, unhex? x with
      | some m, some s => showPR (parse m s)
      | _, _ => "bad-op")
  | ["dalt", mode, x, y] => some (match Mode.ofName? mode, unhex? x, unhex? y with
      | some m, some s, some t => s!"{showPR (parse m s)} | {showPR (parse m t)}"
      | _, _, _ => "bad-op")
  | ["dregex", i, x] => some (match i.toNat?, unhex? x with
      | some i, some s => regexOp i s
      | _, _ => "bad-op")
  | ["f64", n] => some (match n.toNat? with
      | some n => toString (f64Nat n)
      | none => "bad-op")
  | _ => none

end IsoDT.Driver.DurText
