/-
  Driver ops for the text forms of durations with decimal hours / minutes / seconds
  (`Model.DurTextQ`), run with the concrete `reprPy` / `pyFloat`.

  A duration is written `W <w>` or `U <y> <mo> <d> <h> <mi> <s>` (`h mi s` rationals `n/d` or
  integers).  Strings travel as `x` + hex code points separated by `.` (as in `Driver.DurText`).
  `<lim>` is the interpreter's int/str digit limit (4300 for a default CPython ≥ 3.11; 0 = none).

    dqstr   <lim> <dur>            -> str(d) as plain text | value      (ValueError of str(int))
    dqrt    <lim> <mode> <dur>     -> text | parse(text) | fix=b | eq=b  (or `value`)
    dqparse <lim> <mode> <xstr>    -> U y mo d h mi s | W w | inf | syntax | value | outside
    dqcp    <lim> <mode> <xstr>    -> parse(text) | parse(text with every `,` written `.`)
    pyfloat <xstr>                 -> rational | inf | err              (float(text))
    reprpy  <rat>                  -> repr(float) from the exact decimal expansion
-/
import IsoDT.Model.DurTextQ
import IsoDT.Driver.DurText
import IsoDT.Driver.DurQ

namespace IsoDT.Driver.DurTextQ
open IsoDT IsoDT.Model IsoDT.Model.DurText IsoDT.Model.DurTextQ IsoDT.Gen
open IsoDT.Driver.RatOps (rat? showRat)
open IsoDT.Driver.DurText (unhex? enhex)

def showPRQ : PRQ → String
  | .ok d => IsoDT.Driver.DurQ.showDur d
  | .okInf => "inf"
  | .syntaxErr => "syntax"
  | .valueErr => "value"
  | .outside => "outside"

def showFR : FR → String
  | .val q => showRat q
  | .inf => "inf"
  | .err => "err"

def b01 (b : Bool) : String := if b then "1" else "0"

def roundTrip (lim : Nat) (m : Mode) (d : DurationQ) : String :=
  match toTextQ? lim reprPy d with
  | none => "value"
  | some t =>
    let r := parseQ lim pyFloat m t
    let tail := match r with
      | .ok d' => s!" | fix={b01 (toTextQ? lim reprPy d' == some t)} | eq={b01 (DurationQ.eq m d' d && DurationQ.eq m d d')}"
      | _ => ""
    s!"{String.ofList t} | {showPRQ r}{tail}"

def dispatch (toks : List String) : Option String :=
  match toks with
  | "dqstr" :: lim :: rest => some (match lim.toNat?, IsoDT.Driver.DurQ.parseDur rest with
      | some lim, some (d, _) => (match toTextQ? lim reprPy d with
        | some t => String.ofList t
        | none => "value")
      | _, _ => "bad-op")
  | "dqrt" :: lim :: mode :: rest =>
    some (match lim.toNat?, Mode.ofName? mode, IsoDT.Driver.DurQ.parseDur rest with
      | some lim, some m, some (d, _) => roundTrip lim m d
      | _, _, _ => "bad-op")
  | ["dqparse", lim, mode, x] => some (match lim.toNat?, Mode.ofName? mode, unhex? x with
      | some lim, some m, some s => showPRQ (parseQ lim pyFloat m s)
      | _, _, _ => "bad-op")
  | ["dqcp", lim, mode, x] => some (match lim.toNat?, Mode.ofName? mode, unhex? x with
      | some lim, some m, some s =>
        s!"{showPRQ (parseQ lim pyFloat m s)} | {showPRQ (parseQ lim pyFloat m (replaceComma s))}"
      | _, _, _ => "bad-op")
  | ["pyfloat", x] => some (match unhex? x with
      | some s => showFR (pyFloat s)
      | none => "bad-op")
  | ["reprpy", q] => some (match rat? q with
      | some q => String.ofList (reprPy q)
      | none => "bad-op")
  | _ => none

end IsoDT.Driver.DurTextQ
