/-
  Driver ops for the rational model of `TimePoint._cmp`, `to_time_zone` and
  `TimePoint.__sub__(TimePoint)` (`Model.TimePointQ2`).  Token conventions as `addq`
  (`Driver.RatOps`): a point is `<rep c|o|w> <y> <a> <b> <hh> <mi|_> <ss|_> <tzh> <tzm>`,
  rationals are `n/d` or integers, `_` is a `None` slot.

    cmpq <mode> <point a> <point b>     → `-1` | `0` | `1` | `err`
    tzq  <mode> <point> <h> <mi>        → the re-zoned point (format of `addq`) or `err`
    subq <mode> <point a> <point b>     → `<days> <h> <mi> <s>` (rationals in lowest terms) or `err`
    hashq <mode> <point>                → the hashed tuple `y mo d h mi s` or `err`
-/
import IsoDT.Model.TimePointQ2
import IsoDT.Driver.RatOps

namespace IsoDT.Driver.RatOps2
open IsoDT IsoDT.Model IsoDT.Driver.RatOps
open IsoDT.Spec (Date TZ)

def showOInt : Option Int → String
  | some c => toString c
  | none => "err"

def showODurQ : Option DurQ → String
  | some d => s!"{d.days} {showRat d.h} {showRat d.mi} {showRat d.s}"
  | none => "err"

def showOKey : Option (List Rat) → String
  | some l => " ".intercalate (l.map showRat)
  | none => "err"

def dispatch (toks : List String) : Option String :=
  match toks with
  | "cmpq" :: mode :: rest =>
    some <|
      match Mode.ofName? mode, parseTPQ (rest.take 9), parseTPQ (rest.drop 9) with
      | some m, some a, some b => showOInt (cmpQ m a b)
      | _, _, _ => "bad-op"
  | "tzq" :: mode :: rest =>
    some <|
      match Mode.ofName? mode, parseTPQ (rest.take 9), (rest.drop 9).mapM String.toInt? with
      | some m, some p, some [h, mi] => showOTPQ (toTimeZoneQ m p ⟨h, mi⟩)
      | _, _, _ => "bad-op"
  | "subq" :: mode :: rest =>
    some <|
      match Mode.ofName? mode, parseTPQ (rest.take 9), parseTPQ (rest.drop 9) with
      | some m, some a, some b => showODurQ (subTPQ m a b)
      | _, _, _ => "bad-op"
  | "hashq" :: mode :: rest =>
    some <|
      match Mode.ofName? mode, parseTPQ rest with
      | some m, some p => showOKey (hashKeyQ m p)
      | _, _ => "bad-op"
  | _ => none

end IsoDT.Driver.RatOps2
