/-
  Driver operations for C17 (strftime / strptime).  Strings travel hex-encoded (two lower-case hex
  digits per ASCII character, `-` for the empty string), so that a token never contains a space.

    strftime <mode> <tp: rep y a b hh mi ss tzh tzm> <fmt>                 -> ok <text> | err:<kind>
    strptime <mode> <loc h> <loc m> <assumed h|_> <assumed m|_> <unk 0|1> <data> <fmt>
                                                                           -> ok <tp> | err:<kind>
    strfp    <mode> <loc h> <loc m> <assumed h|_> <assumed m|_> <unk 0|1> <tp> <fmt>
                                              -> <strftime answer> > <strptime of that text, same fmt>
    strf-scan <fmt>                                                        -> the split format
-/
import IsoDT.Model.Strftime

namespace IsoDT.Driver.Strftime
open IsoDT IsoDT.Model IsoDT.Model.Strf
open IsoDT.Spec (Date TZ TP)

def hexVal (c : Char) : Option Nat :=
  if '0' ≤ c ∧ c ≤ '9' then some (c.toNat - 48)
  else if 'a' ≤ c ∧ c ≤ 'f' then some (c.toNat - 87)
  else none

def unhexL : List Char → Option (List Char)
  | [] => some []
  | [_] => none
  | a :: b :: rest =>
    match hexVal a, hexVal b, unhexL rest with
    | some x, some y, some r => some (Char.ofNat (16 * x + y) :: r)
    | _, _, _ => none

def unhex (s : String) : Option (List Char) := if s == "-" then some [] else unhexL s.toList

def hexDigit (n : Nat) : Char := if n < 10 then Char.ofNat (48 + n) else Char.ofNat (87 + n)

def hex (l : List Char) : String :=
  if l.isEmpty then "-"
  else String.ofList (l.flatMap fun c => [hexDigit (c.toNat / 16 % 16), hexDigit (c.toNat % 16)])

def ints? (l : List String) : Option (List Int) := l.mapM String.toInt?

def parseTP (toks : List String) : Option (TP × List String) :=
  match toks with
  | rep :: rest =>
    match ints? (rest.take 8) with
    | some [y, a, b, hh, mi, ss, tzh, tzm] =>
      let date? : Option Date := match rep with
        | "c" => some (.cal y a b) | "o" => some (.ord y a) | "w" => some (.week y a b) | _ => none
      date?.map fun date => ({ date := date, hh := hh, mi := mi, ss := ss, tz := ⟨tzh, tzm⟩ }, rest.drop 8)
    | _ => none
  | _ => none

def showDate : Date → String
  | .cal y mo d => s!"c {y} {mo} {d}"
  | .ord y doy => s!"o {y} {doy} 0"
  | .week y w d => s!"w {y} {w} {d}"

def showTP (p : TP) : String :=
  s!"{showDate p.date} {p.hh} {p.mi} {p.ss} {p.tz.h} {p.tz.mi}"

def showText : Except Err (List Char) → String
  | .ok s => "ok " ++ hex s
  | .error e => "err:" ++ e.name

def showPoint : Except Err TP → String
  | .ok p => "ok " ++ showTP p
  | .error e => "err:" ++ e.name

/-- `<loc h> <loc m> <assumed h|_> <assumed m|_> <unk>` -/
def parseCfg (toks : List String) : Option ((TZ × PCfg) × List String) :=
  match toks with
  | lh :: lm :: ah :: am :: unk :: rest =>
    match lh.toInt?, lm.toInt? with
    | some lh, some lm =>
      let assumed : Option (Option TZ) :=
        if ah == "_" then some none
        else match ah.toInt?, am.toInt? with
          | some h, some mi => some (some ⟨h, mi⟩)
          | _, _ => none
      assumed.map fun a => ((⟨lh, lm⟩, ⟨a, unk == "1"⟩), rest)
    | _, _ => none
  | _ => none

def showItem : Item → String
  | .ch c => "c" ++ hex [c]
  | .dir c => "d" ++ hex [c]

def dispatch (toks : List String) : Option String :=
  match toks with
  | "strftime" :: mode :: rest =>
    some <| match Mode.ofName? mode, parseTP rest with
    | some m, some (p, [fmt]) =>
      match unhex fmt with
      | some f => showText (strftime m p f)
      | none => "bad-op"
    | _, _ => "bad-op"
  | "strptime" :: mode :: rest =>
    some <| match Mode.ofName? mode, parseCfg rest with
    | some m, some ((loc, cfg), [data, fmt]) =>
      match unhex data, unhex fmt with
      | some d, some f => showPoint (strptime m cfg loc d f)
      | _, _ => "bad-op"
    | _, _ => "bad-op"
  | "strfp" :: mode :: rest =>
    some <| match Mode.ofName? mode, parseCfg rest with
    | some m, some ((loc, cfg), rest) =>
      match parseTP rest with
      | some (p, [fmt]) =>
        match unhex fmt with
        | some f =>
          match strftime m p f with
          | .ok text => showText (.ok text) ++ " > " ++ showPoint (strptime m cfg loc text f)
          | .error e => showText (.error e)
        | none => "bad-op"
      | _ => "bad-op"
    | _, _ => "bad-op"
  | ["strf-scan", fmt] =>
    some <| match unhex fmt with
    | some f => " ".intercalate ((scan f).map showItem)
    | none => "bad-op"
  | _ => none

end IsoDT.Driver.Strftime
