/-
  Driver op for the truncated-constructor model:

    mktrunc <mode> <tprop:-|c|d> <year> <month> <dom> <doy> <week> <dow> <hh> <mi> <ss> <tzh> <tzm>

  (each of the eleven values an int or `_`; `c` = "year_of_century", `d` = "year_of_decade") answers
  `err` (the constructor raises) or

    <props> | Y=<_year or _> | tz=<unknown | h m>

  where `<props>` is `D key=value;key=value;...` in the insertion order of `get_truncated_properties()`
  (`D` alone for the empty dict) or `EXC` when that method raises (`truncated_property` named, no year).
-/
import IsoDT.Model.ConstructTrunc

namespace IsoDT.Driver.ConstructTrunc
open IsoDT IsoDT.Model

def optInt? (s : String) : Option (Option Int) := if s == "_" then some none else s.toInt?.map some

def tprop? : String → Option TruncProp
  | "-" => some .none | "c" => some .yearOfCentury | "d" => some .yearOfDecade | _ => none

def keyName : TruncKey → String
  | .yearOfDecade => "year_of_decade" | .yearOfCentury => "year_of_century"
  | .monthOfYear => "month_of_year" | .weekOfYear => "week_of_year" | .dayOfYear => "day_of_year"
  | .dayOfMonth => "day_of_month" | .dayOfWeek => "day_of_week" | .hourOfDay => "hour_of_day"
  | .minuteOfHour => "minute_of_hour" | .secondOfMinute => "second_of_minute"

def showProps : Option (List (TruncKey × Int)) → String
  | none => "EXC"
  | some [] => "D"
  | some l => "D " ++ ";".intercalate (l.map fun e => s!"{keyName e.1}={e.2}")

def showFields (f : TruncFields) : String :=
  let y := match f.year with | some y => toString y | none => "_"
  let tz := if f.tzUnknown then "unknown" else s!"{f.tz.h} {f.tz.mi}"
  s!"{showProps (truncProps f)} | Y={y} | tz={tz}"

def dispatch (toks : List String) : Option String :=
  match toks with
  | "mktrunc" :: mode :: tp :: rest =>
    some <|
      match Mode.ofName? mode, tprop? tp, rest.mapM optInt? with
      | some m, some tp, some [y, mo, dom, doy, w, dow, hh, mi, ss, tzh, tzm] =>
        match mkTruncTP m ⟨tp, y, mo, dom, doy, w, dow, hh, mi, ss, tzh, tzm⟩ with
        | some f => showFields f
        | none => "err"
      | _, _, _ => "bad-op"
  | _ => none

end IsoDT.Driver.ConstructTrunc
