/-
  Driver ops of the recurrence text layer (C14 text round trip, C09 for recurrences).  Strings
  travel as `x` + hex code points separated by `.` (as in Driver/DurText.lean).  Recurrence
  arguments are read as in Main.lean: `<reps|_> <S tp | _> <D dur | _> <E tp | _>` with
  `tp = rep y a b hh mi ss tzh tzm`, `dur = W w | U y mo d h mi s`.

    rstr <mode> <nedS> <nedE> <recargs>      -> str(TimeRecurrence(...)) as an x-string | ctor-err | EXC:... | err
    rparse <mode> <cfg> <xstr>               -> ok <rec> ; <second> ; <nedS> <nedE> | <str of the result>
                                                | fail | outside
                                                (<cfg> = <ned> <basicOnly> <allowTruncated> <zone> as in Driver/Text.lean;
                                                 <rec> = reps ; start ; dur ; end ; fmt as `rmk` prints it)
    rround <mode> <cfg> <nedS> <nedE> <recargs> -> <x text> | <rparse output of the text> | eq=<0|1>
    rgroups <xstr>                           -> nomatch | outside | match reps=<x|_> start=<x|_> end=<x|_> intv=<x|_>
-/
import IsoDT.Model.RecText
import IsoDT.Driver.Text
import IsoDT.Driver.DurText

namespace IsoDT.Driver.RecText
open IsoDT IsoDT.Model IsoDT.Text IsoDT.RecText
open IsoDT.Spec (Date TZ TP)
open IsoDT.Driver.DurText (unhex? enhex)
open IsoDT.Driver.Text (parseCfg)

def ints? (l : List String) : Option (List Int) := l.mapM String.toInt?

def parseTP (toks : List String) : Option (TP × List String) :=
  match toks with
  | rep :: rest =>
    match ints? (rest.take 8) with
    | some [y, a, b, hh, mi, ss, tzh, tzm] =>
      let date? : Option Date := match rep with
        | "c" => some (.cal y a b) | "o" => some (.ord y a) | "w" => some (.week y a b) | _ => none
      date?.map fun date => ({ date := date, hh := hh, mi := mi, ss := ss, tz := ⟨tzh, tzm⟩ }, rest.drop 8)
    | _ => none
  | _ => none

def parseDur (toks : List String) : Option (Dur × List String) :=
  match toks with
  | "W" :: w :: rest => w.toInt?.map fun w => (Dur.weeks w, rest)
  | "U" :: rest =>
    match ints? (rest.take 6) with
    | some [y, mo, d, h, mi, s] => some (Dur.units y mo d h mi s, rest.drop 6)
    | _ => none
  | _ => none

def parseRecArgs (toks : List String) :
    Option ((Option Int × Option TP × Option Dur × Option TP) × List String) :=
  match toks with
  | repsTok :: rest =>
    let reps? : Option (Option Int) := if repsTok == "_" then some none else repsTok.toInt?.map some
    match reps? with
    | none => none
    | some reps =>
      let st : Option (Option TP × List String) := match rest with
        | "_" :: r => some (none, r)
        | "S" :: r => (parseTP r).map fun x => (some x.1, x.2)
        | _ => none
      match st with
      | none => none
      | some (start, rest) =>
        let du : Option (Option Dur × List String) := match rest with
          | "_" :: r => some (none, r)
          | "D" :: r => (parseDur r).map fun x => (some x.1, x.2)
          | _ => none
        match du with
        | none => none
        | some (dur, rest) =>
          let en : Option (Option TP × List String) := match rest with
            | "_" :: r => some (none, r)
            | "E" :: r => (parseTP r).map fun x => (some x.1, x.2)
            | _ => none
          match en with
          | none => none
          | some (end_, rest) => some ((reps, start, dur, end_), rest)
  | [] => none

def showDate : Date → String
  | .cal y mo d => s!"c {y} {mo} {d}"
  | .ord y doy => s!"o {y} {doy} 0"
  | .week y w d => s!"w {y} {w} {d}"

def showTP (p : TP) : String :=
  s!"{showDate p.date} {p.hh} {p.mi} {p.ss} {p.tz.h} {p.tz.mi}"

def showOptTP : Option TP → String
  | some p => showTP p
  | none => "_"

def showDur : Dur → String
  | .weeks w => s!"W {w}"
  | .units y mo d h mi s => s!"U {y} {mo} {d} {h} {mi} {s}"

def showRec (r : Rec) : String :=
  let reps := match r.reps with | some n => toString n | none => "_"
  let dur := match r.dur with | some d => showDur d | none => "_"
  s!"{reps} ; {showOptTP r.start} ; {dur} ; {showOptTP r.end_} ; {r.fmt}"

def showStr : Except DumpErr (List Char) → String
  | .ok s => enhex s
  | .error .err => "err"
  | .error .overflow => "EXC:OverflowError"
  | .error .unsupported => "unsupported"

def showParsed (m : Mode) : Res Parsed → String
  | .fail => "fail"
  | .outside => "outside"
  | .ok p => s!"ok {showRec p.val} ; {showOptTP p.val.second} ; {p.nedS} {p.nedE} | {showStr (p.val.toString m p.nedS p.nedE)}"

def showOX : Option (List Char) → String
  | some s => enhex s
  | none => "_"

def b01 (b : Bool) : String := if b then "1" else "0"

def dispatch (toks : List String) : Option String :=
  match toks with
  | "rstr" :: mode :: nedS :: nedE :: rest =>
    some <| match Mode.ofName? mode, nedS.toNat?, nedE.toNat?, parseRecArgs rest with
    | some m, some nedS, some nedE, some ((reps, start, dur, end_), []) =>
      match mkRec m reps start dur end_ with
      | none => "ctor-err"
      | some r => showStr (r.toString m nedS nedE)
    | _, _, _, _ => "bad-op"
  | "rparse" :: mode :: rest =>
    some <| match parseCfg mode rest with
    | some (cfg, [x]) =>
      match unhex? x with
      | some s => showParsed cfg.mode (parseRecFull cfg s)
      | none => "bad-op"
    | _ => "bad-op"
  | "rround" :: mode :: rest =>
    some <| match parseCfg mode rest with
    | some (cfg, nedS :: nedE :: rest) =>
      match nedS.toNat?, nedE.toNat?, parseRecArgs rest with
      | some nedS, some nedE, some ((reps, start, dur, end_), []) =>
        match mkRec cfg.mode reps start dur end_ with
        | none => "ctor-err"
        | some r =>
          match r.toString cfg.mode nedS nedE with
          | .ok text =>
            let pr := parseRecFull cfg text
            let eq := match pr with
              | .ok p => b01 (Rec.eq cfg.mode p.val r)
              | _ => "_"
            s!"{enhex text} | {showParsed cfg.mode pr} | eq={eq}"
          | e => showStr e
      | _, _, _ => "bad-op"
    | _ => "bad-op"
  | ["rgroups", x] =>
    some <| match unhex? x with
    | none => "bad-op"
    | some s =>
      match header s with
      | .nomatch => "nomatch"
      | .outside => "outside"
      | .ok reps rest =>
        match firstRegex rest with
        | none => "nomatch"
        | some g => s!"match reps={showOX reps} start={showOX g.start} end={showOX g.end_} intv={showOX g.intv}"
  | _ => none

end IsoDT.Driver.RecText
