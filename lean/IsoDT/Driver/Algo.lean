/-
  Driver ops that evaluate the definitions REGENERATED from the Python source (`IsoDT/Gen/Algo.lean`,
  written by harness/gen_algo.py), so that the translator itself is compared with the running
  Python (independently of the proofs in Props/C03algo that tie them to the hand-written model):

    algo <mode> <fn> <args...>     args are ints; `_` = None; `L` = the string "leap" (year selector)
      fn ∈ leap diy range dim wiy wstart owstart since o2c c2o w2c c2w w2o o2w imd
      imd <lp:0|1> <month|_> <day|_> <rev:0|1>   -> `_iter_months_days`, printed `mo:d mo:d ...`
    algo <mode> imdm <lp> <month|_> <day|_> <rev>  -> the hand-written `Model.iterMonthsDays` (same format)
    algo <mode> sincem <year>                      -> the hand-written `Model.daysSince1AD`
    algo - localtz <timezone> <altzone> <daylight> <tm_isdst>

  `err` = the translated function gives `none` (the Python raises, or returns None).
-/
import IsoDT.Gen.Algo
import IsoDT.Model.CalendarAux

namespace IsoDT.Driver.Algo
open IsoDT IsoDT.Gen.Algo

def showO1 : Option Int → String
  | some a => toString a
  | none => "err"
def showO2 : Option (Int × Int) → String
  | some (a, b) => s!"{a} {b}"
  | none => "err"
def showO3 : Option (Int × Int × Int) → String
  | some (a, b, c) => s!"{a} {b} {c}"
  | none => "err"

def optInt? (s : String) : Option (Option Int) := if s == "_" then some none else s.toInt?.map some

def yearArg? (s : String) : Option YearArg :=
  if s == "_" then some .none else if s == "L" then some .leap else s.toInt?.map .int

def dispatch (toks : List String) : Option String :=
  match toks with
  | ["algo", _, "localtz", tz, alt, dl, dst] =>
    some <| match [tz, alt, dl, dst].mapM String.toInt? with
      | some [tz, alt, dl, dst] => showO2 (get_local_time_zone tz alt dl dst)
      | _ => "bad-op"
  | ["algo", mode, "dim", mo, y] =>
    some <| match Mode.ofName? mode, mo.toInt?, yearArg? y with
      | some m, some mo, some y => showO1 (get_days_in_month m mo y)
      | _, _, _ => "bad-op"
  | ["algo", mode, "imd", lp, mo, d, rev] =>
    some <| match Mode.ofName? mode, optInt? mo, optInt? d with
      | some m, some mo, some d =>
        match _iter_months_days m (lp != "0") mo d (rev != "0") with
        | some l => " ".intercalate (l.map fun p => s!"{p.1}:{p.2}")
        | none => "err"
      | _, _, _ => "bad-op"
  | ["algo", mode, "imdm", lp, mo, d, rev] =>
    some <| match Mode.ofName? mode, optInt? mo, optInt? d with
      | some m, some mo, some d =>
        match Model.iterMonthsDays m (lp != "0") mo d (rev != "0") with
        | some l => " ".intercalate (l.map fun p => s!"{p.1}:{p.2}")
        | none => "err"
      | _, _, _ => "bad-op"
  | ["algo", mode, "sincem", y] =>
    some <| match Mode.ofName? mode, y.toInt? with
      | some m, some y => toString (Model.daysSince1AD m y)
      | _, _ => "bad-op"
  | "algo" :: mode :: fn :: rest =>
    some <|
      match Mode.ofName? mode, rest.mapM String.toInt? with
      | some m, some a =>
        match fn, a with
        | "leap", [y] => if get_is_leap_year m y then "1" else "0"
        | "diy", [y] => toString (get_days_in_year m y)
        | "range", [s, e] => toString (get_days_in_year_range m s e)
        | "since", [y] => toString (get_days_since_1_ad m y)
        | "wiy", [y] => showO1 (get_weeks_in_year m y)
        | "wstart", [y] => showO3 (get_calendar_date_week_date_start m y)
        | "owstart", [y] => showO2 (get_ordinal_date_week_date_start m y)
        | "o2c", [y, doy] => showO3 (get_calendar_date_from_ordinal_date m y doy)
        | "c2o", [y, mo, d] => showO2 (get_ordinal_date_from_calendar_date m y mo d)
        | "w2c", [y, w, d] => showO3 (get_calendar_date_from_week_date m y w d)
        | "c2w", [y, mo, d] => showO3 (get_week_date_from_calendar_date m y mo d)
        | "w2o", [y, w, d] => showO2 (get_ordinal_date_from_week_date m y w d)
        | "o2w", [y, doy] => showO3 (get_week_date_from_ordinal_date m y doy)
        | _, _ => "bad-op"
      | _, _ => "bad-op"
  | _ => none

end IsoDT.Driver.Algo
