/-
  Driver op for `Model/StrptimeZone.lean` (the glue of `TimePointParser.strptime` between the regex
  match and the `TimePoint(...)` call):

    strpzone <mode> <assumed h:m|-> <unknown 0|1> <local h:m> s <n>
        -- text `<n>` under "%s"
    strpzone <mode> <assumed h:m|-> <unknown 0|1> <local h:m> f <year> <month> <dom> <hh> <mi> <ss> <zone>
        -- "%Y-%m-%dT%H:%M:%S" (+ "%z" when a zone is given)
    strpzone <mode> <assumed h:m|-> <unknown 0|1> <local h:m> g <n> <year> <month> <dom> <doy> <hh> <mi> <ss> <zone>
        -- the general form: any subset of the captured groups

  Every field is an integer or `_` (group not in the format); `<zone>` is `-` (no zone group),
  `Z` (the `time_zone_utc` group) or `+hh:mm` / `-hh:mm` (sign, hour and minute groups of `%z`).
  Answer: `<rep> <y> <a> <b> <hh> <mi> <ss> <tzh> <tzm>` (as the other ops print a point; `unknown`
  in place of `<tzh> <tzm>` for an unknown zone), `err` for any Python exception, `unmodelled`.
-/
import IsoDT.Model.StrptimeZone

namespace IsoDT.Driver.StrptimeZone
open IsoDT IsoDT.Model IsoDT.Model.StrpZone
open IsoDT.Spec (Date TZ TP)
open IsoDT.Model.Strf (PCfg)

def optInt? (s : String) : Option (Option Int) := if s == "_" then some none else s.toInt?.map some

/-- `h:m` with signed integers. -/
def pair? (s : String) : Option TZ :=
  match s.splitOn ":" with
  | [a, b] =>
    match a.toInt?, b.toInt? with
    | some h, some mi => some ⟨h, mi⟩
    | _, _ => none
  | _ => none

def assumed? (s : String) : Option (Option TZ) := if s == "-" then some none else (pair? s).map some

/-- `-` | `Z` | `±hh:mm`  ->  (zone groups, utc group). -/
def zone? (s : String) : Option (Option (Bool × Int × Int) × Bool) :=
  if s == "-" then some (none, false)
  else if s == "Z" then some (none, true)
  else
    match s.toList with
    | sg :: rest =>
      if sg = '+' ∨ sg = '-' then
        match (String.ofList rest).splitOn ":" with
        | [a, b] =>
          match a.toNat?, b.toNat? with
          | some h, some mi => some (some (sg = '-', (h : Int), (mi : Int)), false)
          | _, _ => none
        | _ => none
      else none
    | [] => none

def showDate : Date → String
  | .cal y mo d => s!"c {y} {mo} {d}"
  | .ord y doy => s!"o {y} {doy} 0"
  | .week y w d => s!"w {y} {w} {d}"

def showRes : Res → String
  | .err => "err"
  | .unmodelled => "unmodelled"
  | .ok p unk =>
    let z := if unk then "unknown" else s!"{p.tz.h} {p.tz.mi}"
    s!"{showDate p.date} {p.hh} {p.mi} {p.ss} {z}"

def run (mode assumed unknown loc : String) (mt : Option Matched) : String :=
  match Mode.ofName? mode, assumed? assumed, pair? loc, mt with
  | some m, some a, some l, some mt =>
    if unknown == "0" ∨ unknown == "1" then showRes (strpZone m ⟨a, unknown == "1"⟩ l mt) else "bad-op"
  | _, _, _, _ => "bad-op"

def dispatch (toks : List String) : Option String :=
  match toks with
  | ["strpzone", mode, assumed, unknown, loc, "s", n] =>
    some <| run mode assumed unknown loc (n.toInt?.map fun n => { unix := some n })
  | ["strpzone", mode, assumed, unknown, loc, "f", y, mo, d, hh, mi, ss, zone] =>
    some <| run mode assumed unknown loc <|
      match [y, mo, d, hh, mi, ss].mapM optInt?, zone? zone with
      | some [y, mo, d, hh, mi, ss], some (z, utc) =>
        some { year := y, month := mo, dom := d, hh := hh, mi := mi, ss := ss, zone := z, utc := utc }
      | _, _ => none
  | ["strpzone", mode, assumed, unknown, loc, "g", n, y, mo, d, doy, hh, mi, ss, zone] =>
    some <| run mode assumed unknown loc <|
      match [n, y, mo, d, doy, hh, mi, ss].mapM optInt?, zone? zone with
      | some [n, y, mo, d, doy, hh, mi, ss], some (z, utc) =>
        some { year := y, month := mo, dom := d, doy := doy, hh := hh, mi := mi, ss := ss, zone := z,
               utc := utc, unix := n }
      | _, _ => none
  | "strpzone" :: _ => some "bad-op"
  | _ => none

end IsoDT.Driver.StrptimeZone
