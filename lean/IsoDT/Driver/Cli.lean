/-
  Driver ops for the CLI plan model.  Strings are passed hex-encoded (UTF-8 bytes, two hex digits
  each; the empty string is `-`); an absent optional is `_`.
  `cliplan <version01> <utc01> <max> <asTotal|_> <calendar|_> <parseFmt|_> <printFmt|_> <ref|_>
           I <n> <items…> A <n> <offsets1…> B <n> <offsets2…>`
-/
import IsoDT.Model.Cli

namespace IsoDT.Driver.Cli
open IsoDT.Model.Cli

def hexVal (c : Char) : Option Nat :=
  if '0' ≤ c ∧ c ≤ '9' then some (c.toNat - '0'.toNat)
  else if 'a' ≤ c ∧ c ≤ 'f' then some (c.toNat - 'a'.toNat + 10)
  else none

def unhexBytes : List Char → Option (List UInt8)
  | [] => some []
  | a :: b :: rest => do
    let x ← hexVal a
    let y ← hexVal b
    let tl ← unhexBytes rest
    pure ((x * 16 + y).toUInt8 :: tl)
  | _ => none

def unhex (s : String) : Option String :=
  if s == "-" then some ""
  else (unhexBytes s.toList).bind fun bs => String.fromUTF8? (ByteArray.mk bs.toArray)

def hexDigit (n : Nat) : Char := if n < 10 then Char.ofNat (48 + n) else Char.ofNat (87 + n)

def hex (s : String) : String :=
  if s.isEmpty then "-"
  else String.ofList (s.toUTF8.toList.flatMap fun b => [hexDigit (b.toNat / 16), hexDigit (b.toNat % 16)])

def hexL (s : List Char) : String := hex (String.ofList s)

def optStr? (tok : String) : Option (Option String) :=
  if tok == "_" then some none else (unhex tok).map some

def takeList (tag : String) (toks : List String) : Option (List String × List String) :=
  match toks with
  | t :: n :: rest =>
    if t != tag then none
    else match n.toNat? with
      | some k =>
        if rest.length < k then none
        else ((rest.take k).mapM unhex).map fun l => (l, rest.drop k)
      | none => none
  | _ => none

def showOpt : Option (List Char) → String
  | some s => hexL s
  | none => "_"

def showOffsets (l : List Offset) : String :=
  " ".intercalate (l.map fun o => (if o.negative then "-" else "+") ++ hexL o.duration)

def showPlan : Plan → String
  | .version => "version"
  | .shiftPrint item offs fmt => s!"shift {showOpt item} fmt={showOpt fmt} n={offs.length} {showOffsets offs}"
  | .diff a b o1 o2 fmt tot =>
    s!"diff {hexL a} {hexL b} fmt={showOpt fmt} total={showOpt tot} n1={o1.length} {showOffsets o1} n2={o2.length} {showOffsets o2}"
  | .recurrence item fmt mx => s!"recurrence {hexL item} fmt={showOpt fmt} count={printedCount mx none}"
  | .asTotal item u => s!"total {hexL item} {hexL u}"

def dispatch (toks : List String) : Option String :=
  match toks with
  | "cliplan" :: ver :: utc :: mx :: tot :: cal :: pf :: prf :: ref :: rest =>
    some <|
      match mx.toInt?, optStr? tot, optStr? cal, optStr? pf, optStr? prf, optStr? ref, takeList "I" rest with
      | some mx, some tot, some cal, some pf, some prf, some ref, some (items, rest) =>
        match takeList "A" rest with
        | some (o1, rest) =>
          match takeList "B" rest with
          | some (o2, _) =>
            let L := fun (x : String) => x.toList
            let O := fun (x : Option String) => x.map L
            showPlan (plan { items := items.map L, asTotal := O tot, calendar := O cal, maxResults := mx,
                             offsets1 := o1.map L, offsets2 := o2.map L, parseFormat := O pf, printFormat := O prf,
                             ref := O ref, utc := utc == "1", version := ver == "1" })
          | none => "bad-op"
        | none => "bad-op"
      | _, _, _, _, _, _, _ => "bad-op"
  | "cliescape" :: args =>
    some <| match args.mapM unhex with
      | some l => " ".intercalate ((escapeArgs (l.map String.toList)).map hexL)
      | none => "bad-op"
  | _ => none

end IsoDT.Driver.Cli
