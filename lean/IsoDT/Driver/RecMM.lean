/-
  Driver ops for `TimeRecurrence` with `min_point` / `max_point` (`IsoDT.Model.RecurrenceMM`).
  The syntax is that of the `r…` ops of `Main.lean` with two further optional points; each op name
  is the old one prefixed by `mm`:

    <recMM> ::= <reps|_> <S tp | _> <D dur | _> <E tp | _> <N tp | _> <X tp | _>
                (N = min_point, X = max_point)
    <tp>    ::= <c|o|w> y a b hh mi ss tzh tzm          <dur> ::= W w | U y mo d h mi s

    mmrmk    <mode> <recMM>               -> reps ; start ; dur ; end ; fmt ; min ; max     | err
    mmriter  <mode> <k> <recMM>           -> first k points, ` | `-separated
    mmritem  <mode> <i> <recMM>           -> point | IndexError
    mmrvalid <mode> <k> <recMM> <tp>      -> 0|1   (scan over at most k points)
    mmrnext  <mode> <recMM> <tp>          -> point | _
    mmrprev  <mode> <recMM> <tp>          -> point | _
    mmrfirst <mode> <k> <recMM> <tp>      -> point | _
    mmrshift <mode> <recMM> <dur>         -> as mmrmk
    mmreq / mmrhasheq <mode> <recMM> <recMM> -> 0|1
-/
import IsoDT.Model.RecurrenceMM

namespace IsoDT.Driver.RecMM
open IsoDT IsoDT.Model
open IsoDT.Spec (Date TZ TP)

def ints? (l : List String) : Option (List Int) := l.mapM String.toInt?

def parseTP (toks : List String) : Option (TP × List String) :=
  match toks with
  | rep :: rest =>
    match ints? (rest.take 8) with
    | some [y, a, b, hh, mi, ss, tzh, tzm] =>
      let date? : Option Date := match rep with
        | "c" => some (.cal y a b) | "o" => some (.ord y a) | "w" => some (.week y a b) | _ => none
      date?.map fun date => ({ date := date, hh := hh, mi := mi, ss := ss, tz := ⟨tzh, tzm⟩ }, rest.drop 8)
    | _ => none
  | _ => none

def parseDur (toks : List String) : Option (Dur × List String) :=
  match toks with
  | "W" :: w :: rest => w.toInt?.map fun w => (Dur.weeks w, rest)
  | "U" :: rest =>
    match ints? (rest.take 6) with
    | some [y, mo, d, h, mi, s] => some (Dur.units y mo d h mi s, rest.drop 6)
    | _ => none
  | _ => none

def showDate : Date → String
  | .cal y mo d => s!"c {y} {mo} {d}"
  | .ord y doy => s!"o {y} {doy} 0"
  | .week y w d => s!"w {y} {w} {d}"

def showTP (p : TP) : String :=
  s!"{showDate p.date} {p.hh} {p.mi} {p.ss} {p.tz.h} {p.tz.mi}"

def showDur : Dur → String
  | .weeks w => s!"W {w}"
  | .units y mo d h mi s => s!"U {y} {mo} {d} {h} {mi} {s}"

def showOptTP : Option TP → String
  | some p => showTP p
  | none => "_"

def showTPs (l : List TP) : String := " | ".intercalate (l.map showTP)

def b01 (b : Bool) : String := if b then "1" else "0"

/-- `_` or `<tag> tp`. -/
def optTP (tag : String) (toks : List String) : Option (Option TP × List String) :=
  match toks with
  | "_" :: r => some (none, r)
  | t :: r => if t == tag then (parseTP r).map fun x => (some x.1, x.2) else none
  | [] => none

def optDur (toks : List String) : Option (Option Dur × List String) :=
  match toks with
  | "_" :: r => some (none, r)
  | "D" :: r => (parseDur r).map fun x => (some x.1, x.2)
  | _ => none

/-- Parse `<recMM>` and run the constructor; `some none` = the constructor raises. -/
def parseRecMM (m : Mode) (toks : List String) : Option (Option RecMM × List String) :=
  match toks with
  | repsTok :: rest =>
    let reps? : Option (Option Int) := if repsTok == "_" then some none else repsTok.toInt?.map some
    match reps? with
    | none => none
    | some reps =>
      match optTP "S" rest with
      | none => none
      | some (start, rest) =>
        match optDur rest with
        | none => none
        | some (dur, rest) =>
          match optTP "E" rest with
          | none => none
          | some (end_, rest) =>
            match optTP "N" rest with
            | none => none
            | some (mn, rest) =>
              match optTP "X" rest with
              | none => none
              | some (mx, rest) => some (mkRecMM m reps start dur end_ mn mx, rest)
  | [] => none

def showRecMM (r : RecMM) : String :=
  let reps := match r.base.reps with | some n => toString n | none => "_"
  let dur := match r.base.dur with | some d => showDur d | none => "_"
  s!"{reps} ; {showOptTP r.base.start} ; {dur} ; {showOptTP r.base.end_} ; {r.base.fmt} ; {showOptTP r.minP} ; {showOptTP r.maxP}"

def recOp (op : String) (m : Mode) (rest : List String) : String :=
  let (k, rest) : Nat × List String :=
    if ["mmriter", "mmrvalid", "mmrfirst", "mmritem"].contains op then
      match rest with
      | kt :: r => (kt.toNat?.getD 0, r)
      | [] => (0, [])
    else (0, rest)
  match parseRecMM m rest with
  | none => "bad-op"
  | some (none, _) => "err"
  | some (some r, rest) =>
    match op with
    | "mmrmk" => showRecMM r
    | "mmriter" => showTPs (iterMM m r k)
    | "mmritem" => match getItemMM m r k with
      | some p => showTP p
      | none => "IndexError"
    | "mmrvalid" => match parseTP rest with
      | some (p, _) => b01 (getIsValidMM m r p k)
      | none => "bad-op"
    | "mmrnext" => match parseTP rest with
      | some (p, _) => showOptTP (getNextMM m r p)
      | none => "bad-op"
    | "mmrprev" => match parseTP rest with
      | some (p, _) => showOptTP (getPrevMM m r p)
      | none => "bad-op"
    | "mmrfirst" => match parseTP rest with
      | some (p, _) => showOptTP (getFirstAfterMM m r p k)
      | none => "bad-op"
    | "mmrshift" => match parseDur rest with
      | some (d, _) => match shiftMM m r d with
        | some r' => showRecMM r'
        | none => "err"
      | none => "bad-op"
    | "mmreq" | "mmrhasheq" => match parseRecMM m rest with
      | some (some r2, _) =>
        if op == "mmreq" then b01 (eqMM m r r2) else b01 (hashKeyMM m r == hashKeyMM m r2)
      | some (none, _) => "err"
      | none => "bad-op"
    | _ => "bad-op"

def ops : List String := ["mmrmk", "mmriter", "mmritem", "mmrvalid", "mmrnext", "mmrprev", "mmrfirst",
  "mmrshift", "mmreq", "mmrhasheq"]

def dispatch (toks : List String) : Option String :=
  match toks with
  | op :: mode :: rest =>
    if ops.contains op then
      some <| match Mode.ofName? mode with
        | some m => recOp op m rest
        | none => "bad-op"
    else none
  | _ => none

end IsoDT.Driver.RecMM
