/-
  Driver op for the rational-slot model of `TimePoint.add_truncated` / truncated `__add__`:

    addtruncq <mode> <rep c|o|w> <y> <a> <b> <hh> <mi|_> <ss|_> <tzh> <tzm>
              <week|_> <dow|_> <dom|_> <doy|_> <hh|_> <mi|_> <ss|_> <tzh|_> <tzm|_>

  The full point as in `addq` (`hh mi ss` rationals `n/d` or integers, `_` = a `None` slot); the
  truncated point as in `addtrunc` (nine integers or `_`; zone unknown when both zone tokens are `_`).
  Answer: `<rep> <y> <a> <b> <hh> <mi|_> <ss|_> <tzh> <tzm>` (rationals in lowest terms), or `err`
  (a loop does not reach its target within the fuel - the Python is still spinning - or the
  Python raises).
-/
import IsoDT.Model.TruncatedQ
import IsoDT.Driver.RatOps

namespace IsoDT.Driver.TruncQ
open IsoDT IsoDT.Model IsoDT.Driver.RatOps
open IsoDT.Spec (Date TZ)

def optInt? (s : String) : Option (Option Int) := if s == "_" then some none else s.toInt?.map some

/-- `week dow dom doy hh mi ss tzh tzm`, each an integer or `_`. -/
def parseTrunc (toks : List String) : Option Trunc :=
  match toks.mapM optInt? with
  | some [week, dow, dom, doy, hh, mi, ss, tzh, tzm] =>
    let tz : Option TZ := match tzh, tzm with
      | some h, some x => some ⟨h, x⟩
      | some h, none => some ⟨h, 0⟩
      | none, some x => some ⟨0, x⟩
      | none, none => none
    some ⟨week, dow, dom, doy, hh, mi, ss, tz⟩
  | _ => none

def dispatch (toks : List String) : Option String :=
  match toks with
  | "addtruncq" :: mode :: rest =>
    some <|
      match Mode.ofName? mode, parseTPQ (rest.take 9), parseTrunc (rest.drop 9) with
      | some m, some p, some t => showOTPQ (addTruncTPQ24 m p t)
      | _, _, _ => "bad-op"
  | _ => none

end IsoDT.Driver.TruncQ
