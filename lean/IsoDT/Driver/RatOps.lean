/-
  Driver op for the rational model of `TimePoint.__add__` (exact units) / `_tick_over`:

    addq <mode> <rep c|o|w> <y> <a> <b> <hh> <mi|_> <ss|_> <tzh> <tzm> <days> <h> <mi> <s>

  `hh`, `mi`, `ss` and the duration's `h`, `mi`, `s` are rationals written `n/d` or as an integer;
  `_` is a `None` slot; `y a b tzh tzm days` are integers (`b` is ignored for rep `o`).
  Answer: `<rep> <y> <a> <b> <hh> <mi|_> <ss|_> <tzh> <tzm>` with rationals in lowest terms
  (`n/d`, or the integer when `d = 1`), or `err` (the Python raises).

    tickq <mode> <rep> <y> <a> <b> <hh> <mi|_> <ss|_> <tzh> <tzm>      (`_tick_over` alone)
-/
import IsoDT.Model.TimePointQ

namespace IsoDT.Driver.RatOps
open IsoDT IsoDT.Model
open IsoDT.Spec (Date TZ)

/-- `n/d` (d a non-zero natural number) or an integer. -/
def rat? (s : String) : Option Rat :=
  match s.splitOn "/" with
  | [n] => n.toInt?.map fun n => (n : Rat)
  | [n, d] =>
    match n.toInt?, d.toNat? with
    | some n, some d => if d = 0 then none else some (mkRat n d)
    | _, _ => none
  | _ => none

def optRat? (s : String) : Option (Option Rat) := if s == "_" then some none else (rat? s).map some

def showRat (q : Rat) : String := if q.den = 1 then toString q.num else s!"{q.num}/{q.den}"

def showOptRat : Option Rat → String
  | some q => showRat q
  | none => "_"

def showDate : Date → String
  | .cal y mo d => s!"c {y} {mo} {d}"
  | .ord y doy => s!"o {y} {doy} 0"
  | .week y w d => s!"w {y} {w} {d}"

def showTPQ (p : TPQ) : String :=
  s!"{showDate p.date} {showRat p.hh} {showOptRat p.mi} {showOptRat p.ss} {p.tz.h} {p.tz.mi}"

def showOTPQ : Option TPQ → String
  | some p => showTPQ p
  | none => "err"

/-- `rep y a b hh mi ss tzh tzm` (9 tokens). -/
def parseTPQ (toks : List String) : Option TPQ :=
  match toks with
  | [rep, y, a, b, hh, mi, ss, tzh, tzm] =>
    match [y, a, b, tzh, tzm].mapM String.toInt?, rat? hh, optRat? mi, optRat? ss with
    | some [y, a, b, tzh, tzm], some hh, some mi, some ss =>
      let date? : Option Date := match rep with
        | "c" => some (.cal y a b) | "o" => some (.ord y a) | "w" => some (.week y a b) | _ => none
      date?.map fun date => { date := date, hh := hh, mi := mi, ss := ss, tz := ⟨tzh, tzm⟩ }
    | _, _, _, _ => none
  | _ => none

def parseDurQ (toks : List String) : Option DurQ :=
  match toks with
  | [days, h, mi, s] =>
    match days.toInt?, rat? h, rat? mi, rat? s with
    | some days, some h, some mi, some s => some ⟨days, h, mi, s⟩
    | _, _, _, _ => none
  | _ => none

def dispatch (toks : List String) : Option String :=
  match toks with
  | "addq" :: mode :: rest =>
    some <|
      match Mode.ofName? mode, parseTPQ (rest.take 9), parseDurQ (rest.drop 9) with
      | some m, some p, some d => showOTPQ (addExactQ m p d)
      | _, _, _ => "bad-op"
  | "tickq" :: mode :: rest =>
    some <|
      match Mode.ofName? mode, parseTPQ rest with
      | some m, some p => showOTPQ (tickOverQ m p)
      | _, _ => "bad-op"
  | _ => none

end IsoDT.Driver.RatOps
