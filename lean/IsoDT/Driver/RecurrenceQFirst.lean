/-
  Driver op for `get_first_after` on the rational recurrence model (`Model.RecurrenceQFirst`).
  Token conventions of `Driver.RecurrenceQ` (`rvalidq`): a point is
  `<rep c|o|w> <y> <a> <b> <hh> <mi|_> <ss|_> <tzh> <tzm>` (9 tokens; rationals `n/d` or integers,
  `_` a `None` slot), a duration is `W <w>` or `U <y> <mo> <d> <h> <mi> <s>`.

    rfirstq <mode> <fmt 1|3|4> <reps|_> <anchor point> <duration | second point> <fuel> <probe point>
      answer: `err` (the constructor raises), else `_` (`get_first_after` returns `None` — or raises
      `TypeError` because the recurrence has no start point) or the returned point, printed as
      `rvalidq` prints points.

    rfirstfloorq …same arguments…
      the same for the method as it was before the repair 6ac11ec (`floor(seconds_since)`).
-/
import IsoDT.Model.RecurrenceQFirst
import IsoDT.Driver.RecurrenceQ

namespace IsoDT.Driver.RecurrenceQFirst
open IsoDT IsoDT.Model
open IsoDT.Driver.RatOps (parseTPQ)
open IsoDT.Driver.RecurrenceQ (parseRecQ showOptTPQ)

def run (f : Mode → RecQ → TPQ → Nat → Option TPQ) (mode : String) (rest : List String) : String :=
  match Mode.ofName? mode with
  | none => "bad-op"
  | some m =>
    match parseRecQ m rest with
    | some (none, _) => "err"
    | some (some r, k :: probe) =>
      match k.toNat?, parseTPQ probe with
      | some k, some p => showOptTPQ (f m r p k)
      | _, _ => "bad-op"
    | _ => "bad-op"

def dispatch (toks : List String) : Option String :=
  match toks with
  | "rfirstq" :: mode :: rest => some (run getFirstAfterQ mode rest)
  | "rfirstfloorq" :: mode :: rest => some (run getFirstAfterFloorQ mode rest)
  | _ => none

end IsoDT.Driver.RecurrenceQFirst
