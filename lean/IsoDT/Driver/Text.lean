/-
  Driver operations of the text layer (C07, C08).  See harness/props/c07.py for the protocol:

    strings        `s` followed by the '.'-joined decimal code points (`s` alone = empty string)
    configuration  <ned> <basicOnly 0|1> <allowTruncated 0|1> <zone: a:<h>:<m> | l:<h>:<m> | u>
    point          ned y mo d doy w dow h mi s tzh tzm unk trunc tprop fmt   (`_` = None; a unit with a
                   decimal fraction is `<int>+<digits>`; tprop `c`/`d`/`_`; fmt an `s`-string or `_`)

    tmatch <ned> <basic> d|t|z <index> <s>          the Lean template matcher on one table entry
    tparse <mode> <cfg> <asParsed 0|1> <s>          parse (and str of the result when asParsed)
    tstr <mode> <point>                             str(point)
    tround <mode> <cfg> <point>                     str(point), parsed back
    tdump <mode> <cfg> <point> <s>                  dump(point, format), parsed back
-/
import IsoDT.Model.TextDump

namespace IsoDT.Driver.Text
open IsoDT IsoDT.Text
open IsoDT.Spec (Date TZ TP)

def decodeStr (tok : String) : Option (List Char) :=
  match tok.toList with
  | 's' :: rest =>
    if rest.isEmpty then some []
    else ((String.ofList rest).splitOn ".").mapM fun t => t.toNat?.map Char.ofNat
  | _ => none

def encodeStr (s : List Char) : String :=
  "s" ++ ".".intercalate (s.map fun c => toString c.toNat)

def fldName : Fld → String
  | .yearSign => "year_sign" | .expandedYear => "expanded_year" | .century => "century"
  | .yearOfCentury => "year_of_century" | .yearOfDecade => "year_of_decade"
  | .monthOfYear => "month_of_year" | .dayOfMonth => "day_of_month" | .dayOfYear => "day_of_year"
  | .weekOfYear => "week_of_year" | .dayOfWeek => "day_of_week" | .truncated => "truncated"
  | .hourOfDay => "hour_of_day" | .minuteOfHour => "minute_of_hour"
  | .secondOfMinute => "second_of_minute" | .hourDec => "hour_of_day_decimal"
  | .minuteDec => "minute_of_hour_decimal" | .secondDec => "second_of_minute_decimal"
  | .tzUtc => "time_zone_utc" | .tzSign => "time_zone_sign" | .tzHour => "time_zone_hour"
  | .tzMinute => "time_zone_minute"

def findTables (ned : Nat) (basic : Bool) : Option ParserTables :=
  Gen.Templates.parserTables.find? fun pt => pt.ned = ned && pt.basicOnly = basic

def parseZone (tok : String) : Option ZoneDefault :=
  match tok.splitOn ":" with
  | ["u"] => some .unknown
  | ["a", h, mi] => match h.toInt?, mi.toInt? with
    | some h, some mi => some (.assumed h mi)
    | _, _ => none
  | ["l", h, mi] => match h.toInt?, mi.toInt? with
    | some h, some mi => some (.localOffset h mi)
    | _, _ => none
  | _ => none

def parseCfg (mode : String) (toks : List String) : Option (Cfg × List String) :=
  match toks with
  | ned :: basic :: trunc :: zone :: rest =>
    match Mode.ofName? mode, ned.toNat?, parseZone zone with
    | some m, some ned, some z =>
      (findTables ned (basic == "1")).map fun pt =>
        ({ pt := pt, allowTruncated := trunc == "1", zone := z, mode := m }, rest)
    | _, _, _ => none
  | _ => none

def showOI : Option Int → String
  | some v => toString v
  | none => "_"

def showUnit (v : Option Int) (dec : Option (List Char)) : String :=
  match v with
  | none => "_"
  | some x => match dec with
    | none => toString x
    | some d => s!"{x}+{String.ofList (stripZeros d)}"

def showXTP (p : XTP) : String :=
  let tp := match p.truncProp with
    | none => "_" | some .yearOfCentury => "c" | some .yearOfDecade => "d"
  let fmt := match p.dumpFmt with
    | none => "_" | some f => encodeStr f
  s!"P {p.ned} {showOI p.year} {showOI p.month} {showOI p.day} {showOI p.doy} {showOI p.week} {showOI p.dow} {showUnit p.hour p.hourDec} {showUnit p.minute p.minuteDec} {showUnit p.second p.secondDec} {p.tz.h} {p.tz.mi} {if p.tzUnknown then 1 else 0} {if p.truncated then 1 else 0} {tp} {fmt}"

def showDump : Except DumpErr (List Char) → String
  | .ok s => encodeStr s
  | .error .err => "err"
  | .error .overflow => "EXC:OverflowError"
  | .error .unsupported => "unsupported"

def optI (s : String) : Option (Option Int) := if s == "_" then some none else s.toInt?.map some

def unitOf (s : String) : Option (Option Int × Option (List Char)) :=
  if s == "_" then some (none, none)
  else match s.splitOn "+" with
    | [a] => a.toInt?.map fun v => (some v, none)
    | [a, d] => a.toInt?.map fun v => (some v, some d.toList)
    | _ => none

def parseXTP (toks : List String) : Option (XTP × List String) :=
  match toks with
  | ned :: y :: mo :: d :: doy :: w :: dow :: h :: mi :: s :: tzh :: tzm :: unk :: trunc :: tprop :: fmt :: rest =>
    match ned.toNat?, optI y, optI mo, optI d, optI doy, optI w, optI dow, unitOf h, unitOf mi, unitOf s,
          tzh.toInt?, tzm.toInt? with
    | some ned, some y, some mo, some d, some doy, some w, some dow, some (h, hd), some (mi, mid),
      some (s, sd), some tzh, some tzm =>
      let fmt? : Option (Option (List Char)) := if fmt == "_" then some none else (decodeStr fmt).map some
      fmt?.map fun f =>
        ({ ned := ned, year := y, month := mo, day := d, doy := doy, week := w, dow := dow, hour := h,
           minute := mi, second := s, hourDec := hd, minuteDec := mid, secondDec := sd, tz := ⟨tzh, tzm⟩,
           tzUnknown := unk == "1", truncated := trunc == "1",
           truncProp := if tprop == "c" then some .yearOfCentury
                        else if tprop == "d" then some .yearOfDecade else none,
           dumpFmt := f }, rest)
    | _, _, _, _, _, _, _, _, _, _, _, _ => none
  | _ => none

/-- A fraction of more than six digits whose discarded tail is exactly one half: the binary value of
    the implementation's float decides the rounding, so the harness does not compare the dump. -/
def isTie (d : Option (List Char)) : Bool :=
  match d with
  | none => false
  | some s => s.length > 6 && (s.drop 6).head? == some '5' && ((s.drop 7).all (· = '0'))

def showParsed (r : Option XTP) : String :=
  match r with
  | some p => showXTP p
  | none => "err"

def dispatch (toks : List String) : Option String :=
  match toks with
  | ["tmatch", ned, basic, kind, idx, s] =>
    some <| match ned.toNat?, idx.toNat?, decodeStr s with
    | some ned, some idx, some s =>
      match findTables ned (basic == "1") with
      | none => "bad-op"
      | some pt =>
        let tmpl? : Option Template := match kind with
          | "d" => pt.dateEntries[idx]?.map (·.tmpl)
          | "t" => pt.timeEntries[idx]?.map (·.tmpl)
          | "z" => pt.zoneEntries[idx]?.map (·.tmpl)
          | _ => none
        match tmpl? with
        | none => "bad-op"
        | some t => match tmatch t s with
          | none => "nomatch"
          | some env => "match " ++ ";".intercalate (env.map fun (f, v) => s!"{fldName f}={encodeStr v}")
    | _, _, _ => "bad-op"
  | "tparse" :: mode :: rest =>
    some <| match parseCfg mode rest with
    | some (cfg, [asParsed, s]) =>
      match decodeStr s with
      | none => "bad-op"
      | some s =>
        let r := parse cfg s (asParsed == "1")
        if asParsed == "1" then
          match r with
          | some p =>
            if isTie p.hourDec || isTie p.minuteDec || isTie p.secondDec then showXTP p ++ " | TIE"
            else showXTP p ++ " | " ++ showDump (str cfg.mode p)
          | none => "err"
        else showParsed r
    | _ => "bad-op"
  | "tstr" :: mode :: rest =>
    some <| match Mode.ofName? mode, parseXTP rest with
    | some m, some (p, []) => showDump (str m p)
    | _, _ => "bad-op"
  | "tround" :: mode :: rest =>
    some <| match parseCfg mode rest with
    | some (cfg, rest) =>
      match parseXTP rest with
      | some (p, []) =>
        match str cfg.mode p with
        | .ok text => encodeStr text ++ " | " ++ showParsed (parse cfg text false)
        | e => showDump e
      | _ => "bad-op"
    | none => "bad-op"
  | "tdump" :: mode :: rest =>
    some <| match parseCfg mode rest with
    | some (cfg, rest) =>
      match parseXTP rest with
      | some (p, [fmt]) =>
        match decodeStr fmt, dumpTablesFor p.ned with
        | some fmt, some dt =>
          match dump cfg.mode dt p fmt with
          | .ok text => encodeStr text ++ " | " ++ showParsed (parse cfg text false)
          | e => showDump e
        | _, _ => "bad-op"
      | _ => "bad-op"
    | none => "bad-op"
  | _ => none

end IsoDT.Driver.Text
