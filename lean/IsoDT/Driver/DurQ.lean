/-
  Driver ops for the rational model of `Duration` (`Model.DurationQ`).

  A duration is written `W <w>` (week form) or `U <y> <mo> <d> <h> <mi> <s>` (unit form) with
  `w y mo d` integers and `h mi s` rationals written `n/d` or as an integer; answers print
  rationals in lowest terms (`n/d`, or the integer when `d = 1`).

    dmkq     <mode> <y> <mo> <w> <d> <h> <mi> <s>   constructor (all seven rationals) -> duration | err
    dmkstdq  <mode> <y> <mo> <w> <d> <h> <mi> <s>   constructor with standardize=True  -> duration | err
    daddq    <mode> <dur> <dur>                     -> duration
    dsubq    <mode> <dur> <dur>                     -> duration
    dmulq    <mode> <dur> <n>                       -> duration
    dfdivq   <mode> <dur> <n>                       -> duration | err
    dabsq / dtodaysq / dtoweeksq / dstdq <mode> <dur>   -> duration
    ddasq    <mode> <dur>                           -> `<days> <seconds>`
    dsecsq   <mode> <dur>                           -> get_seconds()
    dnnsq    <mode> <dur>                           -> _get_non_nominal_seconds()
    dhashq   <mode> <dur>                           -> `<y> <mo> <seconds>` (the hashed tuple)
    dboolq   <mode> <dur>                           -> 0 | 1
    deqq     <mode> <dur> <dur>                     -> 0 | 1
    dhasheqq <mode> <dur> <dur>                     -> 0 | 1 (hashed tuples equal)
    dcmpq    <mode> <dur> <dur>                     -> `<lt> <le> <gt> <ge>`
-/
import IsoDT.Model.DurationQ
import IsoDT.Driver.RatOps

namespace IsoDT.Driver.DurQ
open IsoDT IsoDT.Model
open IsoDT.Driver.RatOps (rat? showRat)

def parseDur (toks : List String) : Option (DurationQ × List String) :=
  match toks with
  | "W" :: w :: rest => w.toInt?.map fun w => (DurationQ.weeks w, rest)
  | "U" :: y :: mo :: d :: h :: mi :: s :: rest =>
    match y.toInt?, mo.toInt?, d.toInt?, rat? h, rat? mi, rat? s with
    | some y, some mo, some d, some h, some mi, some s => some (DurationQ.units y mo d h mi s, rest)
    | _, _, _, _, _, _ => none
  | _ => none

def showDur : DurationQ → String
  | .weeks w => s!"W {w}"
  | .units y mo d h mi s => s!"U {y} {mo} {d} {showRat h} {showRat mi} {showRat s}"

def showODur : Option DurationQ → String
  | some d => showDur d
  | none => "err"

def b01 (b : Bool) : String := if b then "1" else "0"

def ops : List String := ["dmkq", "dmkstdq", "daddq", "dsubq", "dmulq", "dfdivq", "dabsq", "dtodaysq",
  "dtoweeksq", "dstdq", "ddasq", "dsecsq", "dnnsq", "dhashq", "dboolq", "deqq", "dhasheqq", "dcmpq"]

def durOp (op : String) (m : Mode) (rest : List String) : String :=
  if op == "dmkq" || op == "dmkstdq" then
    match rest.mapM rat? with
    | some [y, mo, w, d, h, mi, s] =>
      let r := DurationQ.mk? m y mo w d h mi s
      showODur (if op == "dmkq" then r else r.map (DurationQ.standardize m))
    | _ => "bad-op"
  else
  match parseDur rest with
  | none => "bad-op"
  | some (a, rest) =>
    match op with
    | "daddq" => match parseDur rest with
      | some (b, _) => showDur (DurationQ.add m a b)
      | none => "bad-op"
    | "dsubq" => match parseDur rest with
      | some (b, _) => showDur (DurationQ.sub m a b)
      | none => "bad-op"
    | "dmulq" => match rest with
      | [n] => match n.toInt? with
        | some n => showDur (a.mul n)
        | none => "bad-op"
      | _ => "bad-op"
    | "dfdivq" => match rest with
      | [n] => match n.toInt? with
        | some n => showODur (a.floordiv n)
        | none => "bad-op"
      | _ => "bad-op"
    | "dabsq" => showDur a.abs
    | "dtodaysq" => showDur (a.toDays m)
    | "dtoweeksq" => showDur (a.toWeeks m)
    | "dstdq" => showDur (a.standardize m)
    | "ddasq" => let r := a.daysAndSeconds m; s!"{r.1} {showRat r.2}"
    | "dsecsq" => showRat (a.seconds m)
    | "dnnsq" => showRat (a.exactSeconds m)
    | "dhashq" => let k := a.hashKey m; s!"{k.1} {k.2.1} {showRat k.2.2}"
    | "dboolq" => b01 a.nonzero
    | "deqq" => match parseDur rest with
      | some (b, _) => b01 (DurationQ.eq m a b)
      | none => "bad-op"
    | "dhasheqq" => match parseDur rest with
      | some (b, _) => b01 (DurationQ.hashKey m a == DurationQ.hashKey m b)
      | none => "bad-op"
    | "dcmpq" => match parseDur rest with
      | some (b, _) =>
        s!"{b01 (DurationQ.lt m a b)} {b01 (DurationQ.le m a b)} {b01 (DurationQ.gt m a b)} {b01 (DurationQ.ge m a b)}"
      | none => "bad-op"
    | _ => "bad-op"

def dispatch (toks : List String) : Option String :=
  match toks with
  | op :: mode :: rest =>
    if ops.contains op then
      some <| match Mode.ofName? mode with
        | some m => durOp op m rest
        | none => "bad-op"
    else none
  | _ => none

end IsoDT.Driver.DurQ
