/-
  Driver ops for the rational model of month / year arithmetic (`Model.TimePointQ3`).  Token
  conventions as `addq` (`Driver.RatOps`): a point is
  `<rep c|o|w> <y> <a> <b> <hh> <mi|_> <ss|_> <tzh> <tzm>`, rationals are `n/d` or integers, `_` is
  a `None` slot.

    addnomq <mode> <point> <years> <months> <days> <h> <mi> <s>    `point + Duration(...)`
    subnomq <mode> <point> <years> <months> <days> <h> <mi> <s>    `point - Duration(...)`
    addmonthsq <mode> <point> <n>                                   `point.add_months(n)`

  `years months days n` are integers; `h mi s` rationals.  Answer: the point in the format of
  `addq`, or `err` (the Python raises).
-/
import IsoDT.Model.TimePointQ3
import IsoDT.Driver.RatOps

namespace IsoDT.Driver.RatOps3
open IsoDT IsoDT.Model IsoDT.Driver.RatOps
open IsoDT.Spec (Date TZ)

/-- `years months days h mi s` (6 tokens). -/
def parseDurNQ (toks : List String) : Option DurNQ :=
  match toks with
  | y :: mo :: rest =>
    match y.toInt?, mo.toInt?, parseDurQ rest with
    | some y, some mo, some d => some ⟨y, mo, d⟩
    | _, _, _ => none
  | _ => none

def dispatch (toks : List String) : Option String :=
  match toks with
  | "addnomq" :: mode :: rest =>
    some <|
      match Mode.ofName? mode, parseTPQ (rest.take 9), parseDurNQ (rest.drop 9) with
      | some m, some p, some d => showOTPQ (addDurQ m p d)
      | _, _, _ => "bad-op"
  | "subnomq" :: mode :: rest =>
    some <|
      match Mode.ofName? mode, parseTPQ (rest.take 9), parseDurNQ (rest.drop 9) with
      | some m, some p, some d => showOTPQ (subDurQ m p d)
      | _, _, _ => "bad-op"
  | "addmonthsq" :: mode :: rest =>
    some <|
      match Mode.ofName? mode, parseTPQ (rest.take 9), (rest.drop 9).mapM String.toInt? with
      | some m, some p, some [n] => showOTPQ (addMonthsQ m p n)
      | _, _, _ => "bad-op"
  | _ => none

end IsoDT.Driver.RatOps3
