/-
  Driver ops for the rational model of `TimeRecurrence` (`Model.RecurrenceQ`).  Token conventions
  as `addq` (`Driver.RatOps`) and `daddq` (`Driver.DurQ`): a point is
  `<rep c|o|w> <y> <a> <b> <hh> <mi|_> <ss|_> <tzh> <tzm>` (9 tokens; rationals `n/d` or integers,
  `_` a `None` slot), a duration is `W <w>` or `U <y> <mo> <d> <h> <mi> <s>`.

    riterq <mode> <fmt> <reps|_> <point> <duration | point> <k>
        fmt 3: `TimeRecurrence(repetitions, start_point=<point>, duration=<duration>)`
        fmt 4: `TimeRecurrence(repetitions, end_point=<point>, duration=<duration>)`
        fmt 1: `TimeRecurrence(repetitions, start_point=<point>, end_point=<second point>)`
      answer: `err` (the constructor raises), else
        `<reps|_> ; <start|_> ; <duration|_> ; <end|_> ; <format number> # <n> # <p1> | <p2> | …`
      the stored fields, the number `n` of points among the first `k` of `__iter__`, and those
      points (each in the format of `addq`: rationals in lowest terms).

    rvalidq <mode> <fmt> <reps|_> <point> <duration | point> <k> <probe point>
      answer: `err`, else `<in bounds 0|1> <get_is_valid 0|1> <get_next|_> <get_prev|_>` of the probe
      (`get_is_valid` scanning at most `k` iterated points).

    ritemq <mode> <fmt> <reps|_> <point> <duration | point> <i>
      answer: `err`, `IndexError`, or the point `recurrence[i]`.
-/
import IsoDT.Model.RecurrenceQ
import IsoDT.Driver.RatOps
import IsoDT.Driver.DurQ

namespace IsoDT.Driver.RecurrenceQ
open IsoDT IsoDT.Model
open IsoDT.Driver.RatOps (parseTPQ showTPQ)

def showOptTPQ : Option TPQ → String
  | some p => showTPQ p
  | none => "_"

def showRecQ (r : RecQ) : String :=
  let reps := match r.reps with | some n => toString n | none => "_"
  let dur := match r.dur with | some d => IsoDT.Driver.DurQ.showDur d | none => "_"
  s!"{reps} ; {showOptTPQ r.start} ; {dur} ; {showOptTPQ r.end_} ; {r.fmt}"

def optInt? (s : String) : Option (Option Int) := if s == "_" then some none else s.toInt?.map some

/-- `<fmt> <reps|_> <point> <duration | point>`: the recurrence (`none` = bad tokens,
    `some none` = the constructor raises) and the remaining tokens. -/
def parseRecQ (m : Mode) (toks : List String) : Option (Option RecQ × List String) :=
  match toks with
  | fmt :: reps :: rest =>
    match optInt? reps, parseTPQ (rest.take 9) with
    | some reps, some p =>
      let rest := rest.drop 9
      match fmt with
      | "1" => (parseTPQ (rest.take 9)).map fun e => (mkRecQ m reps (some p) none (some e), rest.drop 9)
      | "3" => (IsoDT.Driver.DurQ.parseDur rest).map fun (d, rest) => (mkRecQ m reps (some p) (some d) none, rest)
      | "4" => (IsoDT.Driver.DurQ.parseDur rest).map fun (d, rest) => (mkRecQ m reps none (some d) (some p), rest)
      | _ => none
    | _, _ => none
  | _ => none

def b01 (b : Bool) : String := if b then "1" else "0"

def dispatch (toks : List String) : Option String :=
  match toks with
  | "riterq" :: mode :: rest =>
    some <|
      match Mode.ofName? mode with
      | none => "bad-op"
      | some m =>
        match parseRecQ m rest with
        | some (none, _) => "err"
        | some (some r, [k]) =>
          match k.toNat? with
          | some k =>
            let l := iterQ m r k
            s!"{showRecQ r} # {l.length} # {" | ".intercalate (l.map showTPQ)}"
          | none => "bad-op"
        | _ => "bad-op"
  | "rvalidq" :: mode :: rest =>
    some <|
      match Mode.ofName? mode with
      | none => "bad-op"
      | some m =>
        match parseRecQ m rest with
        | some (none, _) => "err"
        | some (some r, k :: probe) =>
          match k.toNat?, parseTPQ probe with
          | some k, some p =>
            s!"{b01 (inBoundsQ m r p)} {b01 (getIsValidQ m r p k)} {showOptTPQ (getNextQ m r p)} {showOptTPQ (getPrevQ m r p)}"
          | _, _ => "bad-op"
        | _ => "bad-op"
  | "ritemq" :: mode :: rest =>
    some <|
      match Mode.ofName? mode with
      | none => "bad-op"
      | some m =>
        match parseRecQ m rest with
        | some (none, _) => "err"
        | some (some r, [i]) =>
          match i.toNat? with
          | some i => match getItemQ m r i with
            | some p => showTPQ p
            | none => "IndexError"
          | none => "bad-op"
        | _ => "bad-op"
  | _ => none

end IsoDT.Driver.RecurrenceQ
