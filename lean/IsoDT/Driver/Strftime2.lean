/-
  Driver operations for the extended strftime model (`Model/Strftime2.lean`: the final
  `expression % property_map` included) and for the rational Unix-time functions
  (`Model/UnixQ.lean`).  Strings travel hex-encoded as in `Driver/Strftime.lean`.

    strftime2 <mode> <tp: rep y a b hh mi ss tzh tzm> <fmt>     -> ok <text> | err:<kind>
        kinds: syntax bounds internal value key type unmodelled
    strf2-expr <fmt>                                            -> ok <expression> | err:<kind>
        the printf `expression` the dumper builds for the format
    fromunixq <mode> <x> utc | fromunixq <mode> <x> <h> <mi>    -> point (format of `addq`) | err
    sinceq <mode> <rep> <y> <a> <b> <hh> <mi|_> <ss|_> <tzh> <tzm>   -> integer | err
    strfsq <mode> <rep> <y> <a> <b> <hh> <mi|_> <ss|_> <tzh> <tzm>   -> ok <text of strftime("%s")> | err
-/
import IsoDT.Model.Strftime2
import IsoDT.Model.UnixQ
import IsoDT.Driver.Strftime
import IsoDT.Driver.RatOps

namespace IsoDT.Driver.Strftime2
open IsoDT IsoDT.Model IsoDT.Model.Strf IsoDT.Model.Strf2
open IsoDT.Driver.Strftime (unhex hex parseTP)
open IsoDT.Driver.RatOps (rat? parseTPQ showOTPQ)
open IsoDT.Spec (Date TZ TP)

def showText2 : Except FErr (List Char) → String
  | .ok s => "ok " ++ hex s
  | .error e => "err:" ++ e.name

def dispatch (toks : List String) : Option String :=
  match toks with
  | "strftime2" :: mode :: rest =>
    some <| match Mode.ofName? mode, parseTP rest with
    | some m, some (p, [fmt]) =>
      match unhex fmt with
      | some f => showText2 (strftime2 m p f)
      | none => "bad-op"
    | _, _ => "bad-op"
  | ["strf2-expr", fmt] =>
    some <| match unhex fmt with
    | some f =>
      match translate (scan f) with
      | .ok ps => "ok " ++ hex (exprOf ps)
      | .error e => "err:" ++ e.name
    | none => "bad-op"
  | ["fromunixq", mode, x, "utc"] =>
    some <| match Mode.ofName? mode, rat? x with
    | some m, some x => showOTPQ (fromUnixQ m x none)
    | _, _ => "bad-op"
  | ["fromunixq", mode, x, h, mi] =>
    some <| match Mode.ofName? mode, rat? x, h.toInt?, mi.toInt? with
    | some m, some x, some h, some mi => showOTPQ (fromUnixQ m x (some ⟨h, mi⟩))
    | _, _, _, _ => "bad-op"
  | "sinceq" :: mode :: rest =>
    some <| match Mode.ofName? mode, parseTPQ rest with
    | some m, some p =>
      match secondsSinceQ m p with
      | some n => toString n
      | none => "err"
    | _, _ => "bad-op"
  | "strfsq" :: mode :: rest =>
    some <| match Mode.ofName? mode, parseTPQ rest with
    | some m, some p =>
      match unixTextQ m p with
      | some t => "ok " ++ hex t
      | none => "err"
    | _, _ => "bad-op"
  | _ => none

end IsoDT.Driver.Strftime2
