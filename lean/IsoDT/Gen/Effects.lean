-- stub (to be regenerated)
import IsoDT.Model.Effects
namespace IsoDT.Gen.Effects
open IsoDT.Model.Effects
def table : List Method := [⟨"<extern>", false, [], [.new 1, .ret 1], [1], [], ⟨false, .any⟩⟩]
end IsoDT.Gen.Effects
