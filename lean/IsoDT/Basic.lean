/-
  IsoDT.Basic — types shared by the regenerated tables (Gen), the specification (Spec)
  and the code-shaped model (Model).  No imports beyond core.
-/
namespace IsoDT

/-- The four calendar modes of `metomi.isodatetime.data.Calendar` (its seven spellings
    `gregorian`, `360day`/`360_day`, `365day`/`365_day`, `366day`/`366_day` collapse to these). -/
inductive Mode where
  | greg | d360 | d365 | d366
  deriving DecidableEq, Repr, Inhabited

def Mode.all : List Mode := [.greg, .d360, .d365, .d366]

def Mode.toIdx : Mode → Nat
  | .greg => 0 | .d360 => 1 | .d365 => 2 | .d366 => 3

def Mode.ofIdx : Nat → Mode
  | 0 => .greg | 1 => .d360 | 2 => .d365 | _ => .d366

def Mode.name : Mode → String
  | .greg => "greg" | .d360 => "d360" | .d365 => "d365" | .d366 => "d366"

def Mode.ofName? : String → Option Mode
  | "greg" => some .greg | "d360" => some .d360 | "d365" => some .d365 | "d366" => some .d366
  | _ => none

end IsoDT
