/-
  IsoDT.Spec.Calendar — the proleptic calendar definition the properties appeal to.

  This file is meant to be *read*: it is the trusted reading of "the mode's month lengths and
  leap rule, Monday = day 1, week 1 = the week containing 4 January, weekdays running
  continuously through year 0 and negative years", and of "the instant a TimePoint denotes".
  Nothing here is derived from the source; `Props/C03.lean` proves that the tables regenerated
  from the source (`Gen.Calendar`) coincide with these.
-/
import IsoDT.Basic

namespace IsoDT.Spec

/-- The Gregorian 4/100/400 rule. -/
def isLeapG (y : Int) : Bool := (y % 4 == 0 && !(y % 100 == 0)) || y % 400 == 0

/-- Does year `y` use the long (366-day) month table in mode `m`? -/
def leap : Mode → Int → Bool
  | .greg, y => isLeapG y
  | .d366, _ => true
  | _, _ => false

def t360 : List Int := [30, 30, 30, 30, 30, 30, 30, 30, 30, 30, 30, 30]
def t365 : List Int := [31, 28, 31, 30, 31, 30, 31, 31, 30, 31, 30, 31]
def t366 : List Int := [31, 29, 31, 30, 31, 30, 31, 31, 30, 31, 30, 31]

/-- Month lengths of mode `m` in a common (`false`) or leap (`true`) year.  The fixed-length
    calendars ignore the flag. -/
def monthTab : Mode → Bool → List Int
  | .d360, _ => t360
  | .d365, _ => t365
  | .d366, _ => t366
  | .greg, false => t365
  | .greg, true => t366

def sumL (l : List Int) : Int := l.foldl (· + ·) 0

/-- Length of month `mo` (1-based); 0 outside 1..12. -/
def monthLenB (m : Mode) (lp : Bool) (mo : Int) : Int :=
  if 1 ≤ mo then (monthTab m lp).getD (mo - 1).toNat 0 else 0

/-- Days of the year before the first of month `mo` (1-based; `mo = 13` gives the year length). -/
def dbmB (m : Mode) (lp : Bool) (mo : Int) : Int :=
  sumL ((monthTab m lp).take (mo - 1).toNat)

def yearLenB (m : Mode) (lp : Bool) : Int := sumL (monthTab m lp)

def monthLen (m : Mode) (y mo : Int) : Int := monthLenB m (leap m y) mo
def dbm (m : Mode) (y mo : Int) : Int := dbmB m (leap m y) mo
def yearLen (m : Mode) (y : Int) : Int := yearLenB m (leap m y)

/-- Days from 0001-01-01 to `y`-01-01 (negative before year 1; year 0 and negative years exist). -/
def dby : Mode → Int → Int
  | .greg, y => 365 * (y - 1) + (y - 1) / 4 - (y - 1) / 100 + (y - 1) / 400
  | .d360, y => 360 * (y - 1)
  | .d365, y => 365 * (y - 1)
  | .d366, y => 366 * (y - 1)

/-- Day number (0 = 0001-01-01) of an ordinal date. Linear in `doy`, also outside its range. -/
def dayNumOrd (m : Mode) (y doy : Int) : Int := dby m y + doy - 1

/-- Day number of a calendar date (`mo` in 1..12; linear in `d`, also outside the month). -/
def dayNumCal (m : Mode) (y mo d : Int) : Int := dby m y + dbm m y mo + d - 1

/-- Monday 2000-01-03: the one fixed weekday anchor, the same in every mode. -/
def weekRef (m : Mode) : Int := dayNumOrd m 2000 3

/-- ISO weekday of day number `n`: Monday = 1 … Sunday = 7, continuous over all of `Int`. -/
def weekday (m : Mode) (n : Int) : Int := (n - weekRef m) % 7 + 1

/-- Day number of the Monday that starts week-year `wy`: the Monday of the week containing
    4 January of `wy`. -/
def weekYearStart (m : Mode) (wy : Int) : Int :=
  dayNumOrd m wy 4 - (weekday m (dayNumOrd m wy 4) - 1)

/-- Day number of an ISO week date (linear in `w` and `d`, also outside their ranges). -/
def dayNumWeek (m : Mode) (wy w d : Int) : Int := weekYearStart m wy + 7 * (w - 1) + (d - 1)

def weeksInYear (m : Mode) (wy : Int) : Int :=
  (weekYearStart m (wy + 1) - weekYearStart m wy) / 7

def ValidCal (m : Mode) (y mo d : Int) : Prop :=
  1 ≤ mo ∧ mo ≤ 12 ∧ 1 ≤ d ∧ d ≤ monthLen m y mo
def ValidOrd (m : Mode) (y doy : Int) : Prop := 1 ≤ doy ∧ doy ≤ yearLen m y
def ValidWeek (m : Mode) (wy w d : Int) : Prop :=
  1 ≤ w ∧ w ≤ weeksInYear m wy ∧ 1 ≤ d ∧ d ≤ 7

instance : Decidable (ValidCal m y mo d) := by unfold ValidCal; infer_instance
instance : Decidable (ValidOrd m y doy) := by unfold ValidOrd; infer_instance
instance : Decidable (ValidWeek m wy w d) := by unfold ValidWeek; infer_instance

/-- A date in one of the three representations the library keeps. -/
inductive Date where
  | cal (y mo d : Int)
  | ord (y doy : Int)
  | week (y w d : Int)
  deriving DecidableEq, Repr, Inhabited

/-- Which of the three representations: 0 calendar, 1 ordinal, 2 week. -/
def Date.rep : Date → Nat
  | .cal .. => 0 | .ord .. => 1 | .week .. => 2

def Date.dayNum (m : Mode) : Date → Int
  | .cal y mo d => dayNumCal m y mo d
  | .ord y doy => dayNumOrd m y doy
  | .week y w d => dayNumWeek m y w d

def Date.Valid (m : Mode) : Date → Prop
  | .cal y mo d => ValidCal m y mo d
  | .ord y doy => ValidOrd m y doy
  | .week y w d => ValidWeek m y w d

instance : Decidable (Date.Valid m dt) := by cases dt <;> unfold Date.Valid <;> infer_instance

/-- UTC offset: hours and minutes, minutes carrying the hours' sign. -/
structure TZ where
  h : Int
  mi : Int
  deriving DecidableEq, Repr, Inhabited

def TZ.seconds (z : TZ) : Int := 3600 * z.h + 60 * z.mi

def TZ.Valid (z : TZ) : Prop :=
  -99 ≤ z.h ∧ z.h ≤ 99 ∧ -59 ≤ z.mi ∧ z.mi ≤ 59 ∧ (0 < z.h → 0 ≤ z.mi) ∧ (z.h < 0 → z.mi ≤ 0)

instance : Decidable (TZ.Valid z) := by unfold TZ.Valid; infer_instance

/-- A non-truncated, whole-second time point. -/
structure TP where
  date : Date
  hh : Int
  mi : Int
  ss : Int
  tz : TZ
  deriving DecidableEq, Repr, Inhabited

/-- Second of the (local) day; linear, also for out-of-range fields. -/
def TP.secOfDay (p : TP) : Int := 3600 * p.hh + 60 * p.mi + p.ss

/-- The instant `p` denotes: seconds since 0001-01-01T00:00:00Z.  Linear in every field, so it is
    also the meaning of a point whose fields are temporarily out of range (mid-carry), and of the
    24:00 form (= next day 00:00). -/
def TP.inst (m : Mode) (p : TP) : Int :=
  86400 * p.date.dayNum m + p.secOfDay - p.tz.seconds

/-- Legal input: a real date, 00:00:00..23:59:59 or exactly 24:00:00, a legal offset. -/
def TP.Valid (m : Mode) (p : TP) : Prop :=
  p.date.Valid m ∧ 0 ≤ p.hh ∧ p.hh ≤ 24 ∧ 0 ≤ p.mi ∧ p.mi < 60 ∧ 0 ≤ p.ss ∧ p.ss < 60 ∧
  (p.hh = 24 → p.mi = 0 ∧ p.ss = 0) ∧ p.tz.Valid

/-- What every operation result must be: valid with `0 ≤ hh < 24`. -/
def TP.Strict (m : Mode) (p : TP) : Prop := p.Valid m ∧ p.hh < 24

instance : Decidable (TP.Valid m p) := by unfold TP.Valid; infer_instance
instance : Decidable (TP.Strict m p) := by unfold TP.Strict; infer_instance

end IsoDT.Spec
