/-
  IsoDT.Model.TruncProps — `TimePoint.get_truncated_properties` on the text layer's point (`XTP`).

  The Python returns `None` for a point that is not truncated, else a dict, filled in this order: the
  year of decade (`_year % 10`) or year of century (`_year % 100`) that `truncated_property` names, then
  every one of month_of_year, week_of_year, day_of_year, day_of_month, day_of_week, hour_of_day,
  minute_of_hour, second_of_minute that is not `None`.  A unit with a decimal fraction is one float in
  the Python; here it is the integer and the digit string of the fraction.  A `truncated_property`
  without a year makes the Python raise `TypeError` (`None % 10`): `none` here.
  Executable, total, proof-free.
-/
import IsoDT.Model.Text

namespace IsoDT.Text

/-- The keys of the dict `get_truncated_properties` returns. -/
inductive TPropKey where
  | yearOfDecade | yearOfCentury | monthOfYear | weekOfYear | dayOfYear | dayOfMonth | dayOfWeek
  | hourOfDay | minuteOfHour | secondOfMinute
  deriving DecidableEq, Repr, Inhabited

/-- One entry: key, integer value, and the fraction digits of a decimal unit. -/
abbrev TPropEntry := TPropKey × Int × Option (List Char)

def tpropEntry (k : TPropKey) (v : Option Int) (dec : Option (List Char)) : List TPropEntry :=
  match v with
  | some x => [(k, x, dec)]
  | none => []

/-- The result of `get_truncated_properties`. -/
inductive TPropsResult where
  /-- the method returned `None` (the point is not truncated) -/
  | notTruncated
  /-- the method raised (`truncated_property` set, no year) -/
  | error
  | props (l : List TPropEntry)
  deriving DecidableEq, Repr, Inhabited

/-- `TimePoint.get_truncated_properties()`. -/
def truncatedProperties (p : XTP) : TPropsResult :=
  if !p.truncated then .notTruncated
  else
    let yearPart : Option (List TPropEntry) :=
      match p.truncProp, p.year with
      | none, _ => some []
      | some .yearOfDecade, some y => some [(.yearOfDecade, y % 10, none)]
      | some .yearOfCentury, some y => some [(.yearOfCentury, y % 100, none)]
      | some _, none => none
    match yearPart with
    | none => .error
    | some yp =>
      .props (yp ++ tpropEntry .monthOfYear p.month none ++ tpropEntry .weekOfYear p.week none ++
        tpropEntry .dayOfYear p.doy none ++ tpropEntry .dayOfMonth p.day none ++
        tpropEntry .dayOfWeek p.dow none ++ tpropEntry .hourOfDay p.hour p.hourDec ++
        tpropEntry .minuteOfHour p.minute p.minuteDec ++ tpropEntry .secondOfMinute p.second p.secondDec)

end IsoDT.Text
