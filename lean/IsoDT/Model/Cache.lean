/-
  IsoDT.Model.Cache — the process-wide state behind C15: the calendar singleton (`CALENDAR.mode`
  and the attributes `set_mode` installs) and the `functools.lru_cache` tables of the memoised
  helpers of data.py, as one state machine.

  * `State` = current mode spelling × cache; the cache is a finite map written as a list of
    entries keyed by (function, arguments, key).  The key is the mode spelling for helpers that
    take the mode as an extra argument at every call site, and absent otherwise.
  * `Op` = `setMode spelling | call fn args`; `step`/`run` execute a history.
  * Function bodies are *arbitrary* programs (`Prog`) that may read `CALENDAR.<attr>` and call
    other functions; the only thing assumed about them is what the regenerated table
    `Gen.Cache.table` says: which attributes each body reads and which functions it calls
    (`Conf`).  Nested calls go through the cache and update it, like the real code.
  * `KeyDiscipline : Table → Bool` is the executable check of the table: every memoised
    function whose result can depend (transitively) on a mode-dependent attribute has a key
    parameter, and every call site passes `CALENDAR.mode` there.

  Core Lean only.  `lru_cache` itself is modelled (a map that is never wrong about what was
  stored), not verified; eviction only removes entries and so preserves the invariant.
-/
import IsoDT.Gen.Cache

namespace IsoDT.Model.Cache
open IsoDT.Gen.Cache (FnRec Site Table)

abbrev Fn := Nat
abbrev Attr := Nat
/-- The raw string stored in `CALENDAR.mode` (one of the seven spellings, in any letter case). -/
abbrev Spelling := String

/-! ## Reading the table -/

def noFn : FnRec := { memo := false, keyIdx := none, reads := [], calls := [] }

def fnOf (T : Table) (f : Fn) : FnRec := T.fns.getD f noFn

def isMemo (T : Table) (f : Fn) : Bool := (fnOf T f).memo

/-- `f` has a key parameter and every call site of `f` in the package passes `CALENDAR.mode` in
    that position: only then does the cache of `f` distinguish modes. -/
def effKeyed (T : Table) (f : Fn) : Bool :=
  (fnOf T f).keyIdx.isSome && T.sites.all (fun s => s.callee != f || s.passesMode)

/-- The body reads an attribute that is not known to be the same in every mode. -/
def directDep (T : Table) (r : FnRec) : Bool := r.reads.any (fun a => !T.indepAttrs.contains a)

def depStep (T : Table) (S : List Fn) : List Fn :=
  (List.range T.fns.length).filter fun f =>
    directDep T (fnOf T f) ||
      (fnOf T f).calls.any (fun g => S.contains g || !decide (g < T.fns.length))

def depIter (T : Table) : Nat → List Fn
  | 0 => []
  | n + 1 => depStep T (depIter T n)

/-- Functions whose result may depend on the mode: least fixed point of "reads a mode-dependent
    attribute or calls such a function" (reached after at most `fns.length` rounds; that it *is*
    closed is re-checked by `KeyDiscipline`, not assumed). -/
def modeDepSet (T : Table) : List Fn := depIter T (T.fns.length + 1)

def modeDep (T : Table) (f : Fn) : Bool := (modeDepSet T).contains f

/-- Functions outside the dependent set read only mode-independent attributes and call only
    functions outside the set. -/
def closedOK (T : Table) : Bool :=
  (List.range T.fns.length).all fun f =>
    modeDep T f ||
      ((fnOf T f).reads.all (fun a => T.indepAttrs.contains a) &&
       (fnOf T f).calls.all (fun g => decide (g < T.fns.length) && !modeDep T g))

/-- Memoised and mode-dependent implies keyed at every call site. -/
def keyedOK (T : Table) : Bool :=
  (List.range T.fns.length).all fun f => !(isMemo T f && modeDep T f) || effKeyed T f

def attrsOK (T : Table) : Bool := T.depAttrs.all (fun a => !T.indepAttrs.contains a)

/-- The discipline the source must obey (decided on the regenerated table). -/
def KeyDiscipline (T : Table) : Bool := closedOK T && keyedOK T && attrsOK T

/-! ## Programs, state, operations -/

/-- What a function body may do, as far as this property is concerned: return, read an attribute
    of the calendar singleton, call another function (through its cache, if it has one).
    Everything else a Python body does (arithmetic, loops over local data, raising — an
    exception is just another value here) is inside the continuations. -/
inductive Prog (V : Type) where
  | ret (v : V)
  | read (a : Attr) (k : V → Prog V)
  | call (g : Fn) (args : List V) (k : V → Prog V)

structure Entry (V : Type) where
  fn : Fn
  args : List V
  key : Option Spelling
  val : V

abbrev Cache (V : Type) := List (Entry V)

structure State (V : Type) where
  mode : Spelling
  cache : Cache V

inductive Op (V : Type) where
  | setMode (s : Spelling)
  | call (f : Fn) (args : List V)

/-- The system under study: the table regenerated from the source, what `set_mode s` leaves in
    each attribute, the function bodies, and which spellings `set_mode` accepts. -/
structure Sys (V : Type) where
  T : Table
  env : Spelling → Attr → V
  body : Fn → List V → Prog V
  valid : Spelling → Bool

/-- A fresh process that has only ever been in mode `s`: nothing cached. -/
def fresh {V : Type} (s : Spelling) : State V := { mode := s, cache := [] }

variable {V : Type}

/-! ## Reference semantics: no cache at all -/

def runP (ev : Fn → List V → Option V) (e : Attr → V) : Prog V → Option V
  | .ret v => some v
  | .read a k => runP ev e (k (e a))
  | .call g b k =>
    match ev g b with
    | none => none
    | some w => runP ev e (k w)

/-- Cache-free evaluation of `f a` with the calendar in mode `s`; the `Nat` bounds the call depth
    (`none` = not finished within it). -/
def evalP (S : Sys V) (s : Spelling) : Nat → Fn → List V → Option V
  | 0, _, _ => none
  | n + 1, f, a => runP (evalP S s n) (S.env s) (S.body f a)

/-- `f a` evaluates to `v` under mode `s` without any cache. -/
def PureVal (S : Sys V) (s : Spelling) (f : Fn) (a : List V) (v : V) : Prop :=
  ∃ n, evalP S s n f a = some v

/-! ## Memoised semantics -/

section memo
variable [DecidableEq V]

def Entry.hit (e : Entry V) (f : Fn) (a : List V) (key : Option Spelling) : Bool :=
  e.fn == f && e.args == a && e.key == key

def lookup (c : Cache V) (f : Fn) (a : List V) (key : Option Spelling) : Option V :=
  (c.find? (fun e => e.hit f a key)).map (·.val)

/-- The key under which a call of `f` made while the calendar is in mode `s` is cached. -/
def keyOf (T : Table) (s : Spelling) (f : Fn) : Option Spelling :=
  if effKeyed T f then some s else none

def runM (ev : Cache V → Fn → List V → Option (V × Cache V)) (e : Attr → V) :
    Cache V → Prog V → Option (V × Cache V)
  | c, .ret v => some (v, c)
  | c, .read a k => runM ev e c (k (e a))
  | c, .call g b k =>
    match ev c g b with
    | none => none
    | some (w, c') => runM ev e c' (k w)

/-- Evaluation as the process does it: a memoised function is looked up under the key the code
    uses; on a miss the body runs (its own calls go through the cache too) and the result is
    inserted. -/
def evalM (S : Sys V) (s : Spelling) : Nat → Cache V → Fn → List V → Option (V × Cache V)
  | 0, _, _, _ => none
  | n + 1, c, f, a =>
    if isMemo S.T f then
      match lookup c f a (keyOf S.T s f) with
      | some v => some (v, c)
      | none =>
        match runM (evalM S s n) (S.env s) c (S.body f a) with
        | none => none
        | some (v, c') =>
          some (v, { fn := f, args := a, key := keyOf S.T s f, val := v } :: c')
    else runM (evalM S s n) (S.env s) c (S.body f a)

/-- One operation. `set_mode` with a spelling outside `Calendar.MODES` raises before touching
    the singleton; it never clears a cache. -/
def step (S : Sys V) (fuel : Nat) (st : State V) : Op V → State V × Option V
  | .setMode s => (if S.valid s then { st with mode := s } else st, none)
  | .call f a =>
    match evalM S st.mode fuel st.cache f a with
    | none => (st, none)
    | some (v, c) => ({ st with cache := c }, some v)

def run (S : Sys V) (fuel : Nat) : State V → List (Op V) → State V
  | st, [] => st
  | st, op :: ops => run S fuel (step S fuel st op).1 ops

end memo

/-! ## What is assumed of bodies and of `set_mode` (both tied to the source by `Gen.Cache`) -/

/-- A program reads only the attributes and calls only the functions the table lists for `f`. -/
def ConfP (T : Table) (f : Fn) : Prog V → Prop
  | .ret _ => True
  | .read a k => a ∈ (fnOf T f).reads ∧ ∀ v, ConfP T f (k v)
  | .call g _ k => g ∈ (fnOf T f).calls ∧ ∀ v, ConfP T f (k v)

def Conf (S : Sys V) : Prop := ∀ f a, ConfP S.T f (S.body f a)

/-- Attributes classified mode-independent hold the same value whatever mode was set. -/
def EnvOK (S : Sys V) : Prop := ∀ a, a ∈ S.T.indepAttrs → ∀ s s', S.env s a = S.env s' a

/-! ## The cache invariant -/

def GoodAt (S : Sys V) (f : Fn) (a : List V) (v : V) : Option Spelling → Prop
  | some s => PureVal S s f a v
  | none => ∀ s, PureVal S s f a v

/-- An entry holds the cache-free value for the mode named by its key (for an un-keyed entry: for
    every mode). -/
def Good (S : Sys V) (e : Entry V) : Prop := GoodAt S e.fn e.args e.val e.key

def CacheOK (S : Sys V) (c : Cache V) : Prop := ∀ e, e ∈ c → Good S e

end IsoDT.Model.Cache
