/-
  IsoDT.Model.Text — the parsing half of the text layer, shaped like
  `metomi/isodatetime/parsers.py` (`TimePointParser.get_info`, `get_date_info`, `get_time_info`,
  `get_time_zone_info`, `process_time_zone_info`, `_create_timepoint_from_info`) and
  `data.TimePoint.__init__`.

  Strings are `List Char`.  The regular expressions are the templates of `Gen.Templates` (read from
  the regexes the live parser compiled).  Every `ValueError`-derived exception of the Python is
  `none`.  Decimal fractions are kept as the digit string the text spelled, never as a float.
  Executable, total, proof-free.
-/
import IsoDT.Gen.Templates
import IsoDT.Spec.Calendar
import IsoDT.Model.Calendar
import IsoDT.Model.TimePoint

namespace IsoDT.Text
open IsoDT IsoDT.Model
open IsoDT.Spec (Date TZ TP)

/-! ## Template matching (`regex.match` for regexes of template shape) -/

/-- `[0-9]` (ASCII only, as in the compiled class). -/
def isDigit (c : Char) : Bool := 48 ≤ c.toNat && c.toNat ≤ 57

/-- Exactly `n` digits off the front. -/
def takeDigits : Nat → List Char → Option (List Char × List Char)
  | 0, cs => some ([], cs)
  | _ + 1, [] => none
  | n + 1, c :: cs =>
    if isDigit c then
      match takeDigits n cs with
      | some (d, r) => some (c :: d, r)
      | none => none
    else none

/-- The longest run of digits off the front (`[0-9]+` is greedy and only ever last). -/
def spanDigits : List Char → List Char × List Char
  | [] => ([], [])
  | c :: cs => if isDigit c then ((spanDigits cs).1.cons c, (spanDigits cs).2) else ([], c :: cs)

/-- Strip a literal prefix. -/
def stripPrefix : List Char → List Char → Option (List Char)
  | [], cs => some cs
  | _ :: _, [] => none
  | l :: ls, c :: cs => if l = c then stripPrefix ls cs else none

/-- `$` without MULTILINE: at the end, or just before a final newline. -/
def atEnd (cs : List Char) : Bool :=
  match cs with
  | [] => true
  | [c] => c = '\n'
  | _ => false

/-- `re.match('^' + template + '$', s).groupdict()`. -/
def tmatch : Template → List Char → Option Env
  | [], cs => if atEnd cs then some [] else none
  | .lit _ :: _, [] => none
  | .lit l :: t, c :: cs => if l = c then tmatch t cs else none
  | .digits f n :: t, cs =>
    match takeDigits n cs with
    | some (d, r) => (tmatch t r).map ((f, d) :: ·)
    | none => none
  | .digitsPlus f :: t, cs =>
    if (spanDigits cs).1 = [] then none
    else (tmatch t (spanDigits cs).2).map ((f, (spanDigits cs).1) :: ·)
  | .sign _ :: _, [] => none
  | .sign f :: t, c :: cs =>
    if c = '+' ∨ c = '-' then (tmatch t cs).map ((f, [c]) :: ·) else none
  | .group f ls :: t, cs =>
    match stripPrefix ls cs with
    | some r => (tmatch t r).map ((f, ls) :: ·)
    | none => none

/-- The text a template spells for the group values `env` (consumed in template order). -/
def trender : Template → Env → List Char
  | [], _ => []
  | .lit c :: t, env => c :: trender t env
  | _ :: t, (_, s) :: env => s ++ trender t env
  | _ :: t, [] => trender t []

/-- `env` assigns to every group of `t`, in order, a text that group accepts. -/
def fits : Template → Env → Bool
  | [], [] => true
  | .lit _ :: t, env => fits t env
  | .digits f n :: t, (g, s) :: env => f = g && s.length = n && s.all isDigit && fits t env
  | .digitsPlus f :: t, (g, s) :: env =>
    f = g && !s.isEmpty && s.all isDigit && t.isEmpty && env.isEmpty
  | .sign f :: t, (g, s) :: env => f = g && (s = ['+'] || s = ['-']) && fits t env
  | .group f ls :: t, (g, s) :: env => f = g && s = ls && fits t env
  | _, _ => false

def Env.get? (env : Env) (f : Fld) : Option (List Char) :=
  match env with
  | [] => none
  | (g, s) :: rest => if g = f then some s else Env.get? rest f

def Env.has (env : Env) (f : Fld) : Bool := (Env.get? env f).isSome

/-! ## Numbers -/

/-- `int(s)` for a string of ASCII digits (the empty string is an error). -/
def digitsVal : List Char → Nat
  | cs => cs.foldl (fun acc c => 10 * acc + (c.toNat - 48)) 0

def intOf? (s : List Char) : Option Int :=
  if s.isEmpty then none else some (digitsVal s : Int)

/-- Width-`w` zero-padded decimal rendering of `v` (the low `w` digits). -/
def renderNat : Nat → Nat → List Char
  | 0, _ => []
  | w + 1, v => Char.ofNat (48 + v / 10 ^ w % 10) :: renderNat w v

/-- Decimal digits of a natural number, most significant first (`"0"` for zero). -/
def natDigits (v : Nat) : List Char := (toString v).toList

/-- `"%0<w>d" % v` for `v ≥ 0`: at least `w` digits, and at least one (`"%00d" % 0` is `"0"`). -/
def padNat (w v : Nat) : List Char :=
  if w ≠ 0 ∧ v < 10 ^ w then renderNat w v else natDigits v

/-! ## The parser configuration -/

/-- What `process_time_zone_info` does when the text has no zone. -/
inductive ZoneDefault where
  /-- `assumed_time_zone=(h, m)` -/
  | assumed (h mi : Int)
  /-- `default_to_unknown_time_zone=True` -/
  | unknown
  /-- neither: `timezone.get_local_time_zone()` returned `(h, m)` -/
  | localOffset (h mi : Int)
  deriving DecidableEq, Repr, Inhabited

structure Cfg where
  pt : ParserTables
  allowTruncated : Bool
  zone : ZoneDefault
  mode : Mode
  deriving Repr, Inhabited

open _root_.IsoDT.Gen.Templates (timeDesignator dateTypeOrder)

/-! ## Try-order -/

/-- First entry (in list order) whose regex matches. -/
def firstMatch : List Entry → List Char → Option (Entry × Env)
  | [], _ => none
  | e :: es, s =>
    match tmatch e.tmpl s with
    | some env => some (e, env)
    | none => firstMatch es s

def firstMatchZ : List ZEntry → List Char → Option (ZEntry × Env)
  | [], _ => none
  | e :: es, s =>
    match tmatch e.tmpl s with
    | some env => some (e, env)
    | none => firstMatchZ es s

/-- The type keys `get_date_info` walks: the hard-coded order minus `bad_types`, minus
    `truncated` unless allowed. -/
def dateTypes (allowTruncated : Bool) (badTypes : List TypeKey) : List TypeKey :=
  dateTypeOrder.filter fun t => !badTypes.contains t && (allowTruncated || t != .truncated)

/-- The order in which `get_date_info` tries the date regexes: formats outermost (dictionary
    order), then the type keys, then the list of that (format, type). -/
def dateOrder (pt : ParserTables) (types : List TypeKey) : List Entry :=
  pt.formats.flatMap fun f => types.flatMap fun t =>
    pt.dateEntries.filter fun e => e.fmt = f && e.typ = t

def getDateInfo (cfg : Cfg) (s : List Char) (badTypes : List TypeKey) : Option (Entry × Env) :=
  firstMatch (dateOrder cfg.pt (dateTypes cfg.allowTruncated badTypes)) s

/-- `get_time_info`: dictionary order (format, then type, then list), skipping bad keys. -/
def timeOrder (pt : ParserTables) (badFormats : List FormatKey) (badTypes : List TypeKey) : List Entry :=
  pt.timeEntries.filter fun e => !badFormats.contains e.fmt && !badTypes.contains e.typ

def getTimeInfo (cfg : Cfg) (s : List Char) (badFormats : List FormatKey) (badTypes : List TypeKey) :
    Option (Entry × Env) :=
  firstMatch (timeOrder cfg.pt badFormats badTypes) s

def zoneOrder (pt : ParserTables) (badFormats : List FormatKey) : List ZEntry :=
  pt.zoneEntries.filter fun e => !badFormats.contains e.fmt

def getZoneInfo (pt : ParserTables) (s : List Char) (badFormats : List FormatKey) : Option (ZEntry × Env) :=
  firstMatchZ (zoneOrder pt badFormats) s

/-! ## Splitting -/

/-- `s.split(c)` (never empty). -/
def splitOnChar (c : Char) : List Char → List (List Char)
  | [] => [[]]
  | x :: xs =>
    if x = c then [] :: splitOnChar c xs
    else match splitOnChar c xs with
      | h :: t => (x :: h) :: t
      | [] => [[x]]

/-- `s.rsplit(c, 1)` when `c` occurs: (before the last `c`, after it). -/
def splitLast (c : Char) : List Char → Option (List Char × List Char)
  | [] => none
  | x :: xs =>
    match splitLast c xs with
    | some (a, b) => some (x :: a, b)
    | none => if x = c then some ([], xs) else none

/-- The processed zone: `time_zone_hour` / `time_zone_minute` as they reach `TimePoint(...)`. -/
structure ZoneInfo where
  hour : Option Int
  minute : Option Int
  deriving DecidableEq, Repr, Inhabited

/-- `process_time_zone_info` (+ the `time_zone_utc` rewrite of `_create_timepoint_from_info`). -/
def processZone (zd : ZoneDefault) (zenv : Env) : Option ZoneInfo :=
  if zenv.isEmpty then
    match zd with
    | .assumed h mi => some ⟨some h, some mi⟩
    | .localOffset h mi => some ⟨some h, some mi⟩
    | .unknown => some ⟨none, none⟩
  else if Env.has zenv .tzUtc then some ⟨some 0, some 0⟩
  else
    let neg := Env.get? zenv .tzSign == some ['-']
    match Env.get? zenv .tzHour with
    | none => none
    | some hs =>
      match intOf? hs with
      | none => none
      | some h =>
        match Env.get? zenv .tzMinute with
        | none => some ⟨some (if neg then -h else h), none⟩
        | some ms =>
          match intOf? ms with
          | none => none
          | some mi => some ⟨some (if neg then -h else h), some (if neg then -mi else mi)⟩

/-- What `get_info` hands to `_create_timepoint_from_info`. -/
structure Info where
  dateEnv : Env
  /-- `date_info.get("truncated")` is truthy -/
  dateTrunc : Bool
  timeEnv : Env
  zone : ZoneInfo
  expr : List Char
  deriving Repr, Inhabited

/-- The split of `time_time_zone` into (time, zone text). `none` = the Python raised (a `split("+")`
    that does not give two parts). -/
def splitZone (cfg : Cfg) (badFormats : List FormatKey) (badTypes : List TypeKey) (ttz : List Char) :
    Option (List Char × Option (List Char)) :=
  if ttz.getLast? = some 'Z' then some (ttz.dropLast, some ['Z'])
  else if ttz.contains '+' then
    match splitOnChar '+' ttz with
    | [a, b] => some (a, some ('+' :: b))
    | _ => none
  else
    match splitLast '-' ttz with
    | some (a, b) =>
      if (getTimeInfo cfg a badFormats badTypes).isSome &&
         (getZoneInfo cfg.pt ('-' :: b) badFormats).isSome then some (a, some ('-' :: b))
      else some (ttz, none)
    | none => some (ttz, none)

/-- The formats `get_info` excludes for the time and zone once the date is known: the other one,
    except after a truncated date. -/
def badFormatsOf (fmt : Option FormatKey) (typ : TypeKey) : List FormatKey :=
  if typ = .truncated then []
  else match fmt with
    | some .basic => [.extended]
    | some .extended => [.basic]
    | none => []

/-- `TimePointParser.get_info`. -/
def getInfo (cfg : Cfg) (s : List Char) : Option Info :=
  match splitOnChar timeDesignator s with
  | [date] =>
    match getDateInfo cfg date [] with
    | none => none
    | some (e, denv) =>
      match processZone cfg.zone [] with
      | none => none
      | some z => some { dateEnv := denv, dateTrunc := Env.has denv .truncated, timeEnv := [], zone := z,
                         expr := e.expr }
  | [date, ttz] =>
    let dres : Option (Option FormatKey × TypeKey × List Char × Env × Bool) :=
      if date.isEmpty && cfg.allowTruncated then some (none, .truncated, [], [], true)
      else
        match getDateInfo cfg date [.reduced] with
        | none => none
        | some (e, denv) => some (some e.fmt, e.typ, e.expr, denv, Env.has denv .truncated)
    match dres with
    | none => none
    | some (fmt, typ, dexpr, denv, dtrunc) =>
      let badFormats : List FormatKey := badFormatsOf fmt typ
      let badTypes : List TypeKey := if dtrunc then [] else [.truncated]
      match splitZone cfg badFormats badTypes ttz with
      | none => none
      | some (time, zone?) =>
        let zres : Option (List Char × ZoneInfo) :=
          match zone? with
          | none => (processZone cfg.zone []).map fun z => ([], z)
          | some ztext =>
            match getZoneInfo cfg.pt ztext badFormats with
            | none => none
            | some (ze, zenv) => (processZone cfg.zone zenv).map fun z => (ze.expr, z)
        match zres with
        | none => none
        | some (zexpr, z) =>
          match getTimeInfo cfg time badFormats badTypes with
          | none => none
          | some (te, tenv) =>
            some { dateEnv := denv, dateTrunc := dtrunc, timeEnv := tenv, zone := z,
                   expr := dexpr ++ timeDesignator :: (te.expr ++ zexpr) }
  | _ => none

/-! ## The time point the text layer produces -/

inductive TruncProp where
  | yearOfCentury | yearOfDecade
  deriving DecidableEq, Repr, Inhabited

/-- A `TimePoint` as the text layer sees it: any field may be absent (truncated forms), and a
    decimal fraction is the digit string after the comma/point, attached to its unit. -/
structure XTP where
  ned : Nat
  year : Option Int
  month : Option Int
  day : Option Int
  doy : Option Int
  week : Option Int
  dow : Option Int
  hour : Option Int
  minute : Option Int
  second : Option Int
  hourDec : Option (List Char)
  minuteDec : Option (List Char)
  secondDec : Option (List Char)
  tz : TZ
  tzUnknown : Bool
  truncated : Bool
  truncProp : Option TruncProp
  /-- `dump_format` and `truncated_dump_format` (the parser sets both to the same text) -/
  dumpFmt : Option (List Char)
  deriving DecidableEq, Repr, Inhabited

/-- The keyword arguments of `TimePoint(...)` as the parser fills them. -/
structure Args where
  ned : Nat := 0
  year : Option Int := none
  month : Option Int := none
  day : Option Int := none
  doy : Option Int := none
  week : Option Int := none
  dow : Option Int := none
  hour : Option Int := none
  minute : Option Int := none
  second : Option Int := none
  hourDec : Option (List Char) := none
  minuteDec : Option (List Char) := none
  secondDec : Option (List Char) := none
  tzHour : Option Int := none
  tzMinute : Option Int := none
  truncated : Bool := false
  truncProp : Option TruncProp := none
  dumpFmt : Option (List Char) := none
  deriving DecidableEq, Repr, Inhabited

/-- The fraction spelled by a digit string is zero. -/
def fracZero (s : List Char) : Bool := s.all (· = '0')

/-- Python truthiness of an optional integer. -/
def truthy : Option Int → Bool
  | some v => v != 0
  | none => false

/-- `_bounds_checker(value, min_val=lo, max_val=hi)` on an optional integer. -/
def inBounds (v : Option Int) (lo hi : Int) : Bool :=
  match v with
  | none => true
  | some x => lo ≤ x && x ≤ hi

/-- `TimePoint._check_bounds`. A unit with a decimal fraction is `value + fraction`. -/
def checkBounds (m : Mode) (p : XTP) : Bool :=
  let cal := calOf m
  inBounds p.month 1 cal.monthsInYear &&
  (let maxDim : Int := match p.month with
      | some mo => match p.year with
        | some y => daysInMonth m y mo
        | none => daysInMonthB m true mo
      | none => cal.maxDaysInMonth
   inBounds p.day 1 maxDim) &&
  (match p.year with
   | some y => inBounds p.week 1 (weeksInYear m y) && inBounds p.doy 1 (daysInYear m y)
   | none => inBounds p.week 1 cal.maxWeeksInYear && inBounds p.doy 1 cal.daysInYearLeap) &&
  inBounds p.dow 1 cal.daysInWeek &&
  (match p.hour with
   | none => true
   | some h => 0 ≤ h && (h < cal.hoursInDay ||
       (h = cal.hoursInDay && (p.hourDec.map fracZero).getD true))) &&
  (if p.hour = some cal.hoursInDay then
     (match p.minute with
      | none => true
      | some mi => mi = 0 && (p.minuteDec.map fracZero).getD true) &&
     (match p.second with
      | none => true
      | some s => s = 0 && (p.secondDec.map fracZero).getD true)
   else
     (match p.minute with
      | none => true
      | some mi => 0 ≤ mi && mi < cal.minutesInHour) &&
     (match p.second with
      | none => true
      | some s => 0 ≤ s && s < cal.secondsInMinute))

/-- `TimePoint.__init__` (with `is_duration=False`). -/
def ctor (m : Mode) (a : Args) : Option XTP :=
  -- decimal units need their unit and exclude the lower units
  if a.hourDec.isSome && (a.hour.isNone || a.minute.isSome || a.second.isSome) then none
  else if a.minuteDec.isSome && (a.minute.isNone || a.second.isSome) then none
  else if a.secondDec.isSome && a.second.isNone then none
  else if !a.truncated && a.year.isNone then none
  else
    let hour := if !a.truncated && a.hour.isNone then some 0 else a.hour
    let minute := if !a.truncated && a.hourDec.isNone && a.minute.isNone then some 0 else a.minute
    let second :=
      if !a.truncated && a.hourDec.isNone && a.minuteDec.isNone && a.second.isNone then some 0
      else a.second
    let unknown := a.truncated && a.tzHour.isNone && a.tzMinute.isNone
    match mkTZ m (a.tzHour.getD 0) (a.tzMinute.getD 0) with
    | none => none
    | some tz =>
      let monthSpec := truthy a.month || truthy a.day
      let weekSpec := truthy a.week || truthy a.dow
      if monthSpec && weekSpec then none
      else if monthSpec && a.doy.isSome then none
      else if weekSpec && a.doy.isSome then none
      else
        let fill := !a.truncated && a.doy.isNone
        let month := if fill && !weekSpec && a.month.isNone then some 1 else a.month
        let day := if fill && !weekSpec && a.day.isNone then some 1 else a.day
        let week := if fill && weekSpec && a.week.isNone then some 1 else a.week
        let dow := if fill && weekSpec && a.dow.isNone then some 1 else a.dow
        let p : XTP := {
          ned := a.ned, year := a.year, month := month, day := day, doy := a.doy, week := week,
          dow := dow, hour := hour, minute := minute, second := second, hourDec := a.hourDec,
          minuteDec := a.minuteDec, secondDec := a.secondDec, tz := tz, tzUnknown := unknown,
          truncated := a.truncated, truncProp := a.truncProp, dumpFmt := a.dumpFmt }
        if checkBounds m p then some p else none

/-- An optional group as an integer; `none` (outer) = `int('')` raised. -/
def optInt (env : Env) (f : Fld) : Option (Option Int) :=
  match Env.get? env f with
  | none => some none
  | some s => (intOf? s).map some

/-- `_create_timepoint_from_info`: the keyword arguments it assembles. -/
def assemble (cfg : Cfg) (info : Info) (dumpFmt : Option (List Char)) : Option Args :=
  let d := info.dateEnv
  -- truncated_property before the year is assembled
  let tp0 : Option TruncProp :=
    if info.dateTrunc then
      (if Env.has d .yearOfCentury then some .yearOfCentury
       else if Env.has d .yearOfDecade then some .yearOfDecade else none)
    else if !Env.has d .century && Env.has d .yearOfCentury then some .yearOfCentury
    else none
  let trunc := info.dateTrunc || (!Env.has d .century && Env.has d .yearOfCentury)
  let yearPresent :=
    !trunc || Env.has d .yearOfDecade || Env.has d .century || Env.has d .yearOfCentury ||
      Env.has d .expandedYear || Env.has d .yearSign
  match optInt d .yearOfDecade, optInt d .yearOfCentury, optInt d .century, optInt d .expandedYear,
        optInt d .monthOfYear, optInt d .dayOfMonth, optInt d .dayOfYear, optInt d .weekOfYear,
        optInt d .dayOfWeek with
  | some dec, some yy, some cc, some xx, some mo, some dd, some doy, some wk, some dow =>
    let absYear : Int := dec.getD 0 + yy.getD 0 + 100 * cc.getD 0 + 10000 * xx.getD 0
    let year : Int := if Env.get? d .yearSign == some ['-'] then -absYear else absYear
    let tp : Option TruncProp :=
      if yearPresent && Env.has d .yearOfDecade then some .yearOfDecade else tp0
    let ned : Nat := if yearPresent && Env.has d .expandedYear then cfg.pt.ned else 0
    let t := info.timeEnv
    match optInt t .hourOfDay, optInt t .minuteOfHour, optInt t .secondOfMinute with
    | some hh, some mi, some ss =>
      some {
        ned := ned, year := if yearPresent then some year else none,
        month := mo, day := dd, doy := doy, week := wk, dow := dow,
        hour := hh, minute := mi, second := ss,
        hourDec := Env.get? t .hourDec, minuteDec := Env.get? t .minuteDec,
        secondDec := Env.get? t .secondDec,
        tzHour := info.zone.hour, tzMinute := info.zone.minute,
        truncated := trunc || Env.has t .truncated, truncProp := tp, dumpFmt := dumpFmt }
    | _, _, _ => none
  | _, _, _, _, _, _, _, _, _ => none

/-- `TimePointParser.parse(s, dump_as_parsed=asParsed)`. -/
def parse (cfg : Cfg) (s : List Char) (asParsed : Bool) : Option XTP :=
  match getInfo cfg s with
  | none => none
  | some info =>
    match assemble cfg info (if asParsed then some info.expr else none) with
    | none => none
    | some a => ctor cfg.mode a

/-! ## Whole-second, non-truncated points -/

/-- The text-layer view of a `Spec.TP` carrying `ned` expanded year digits. -/
def XTP.ofTP (ned : Nat) (p : TP) : XTP :=
  let base : XTP := {
    ned := ned, year := none, month := none, day := none, doy := none, week := none, dow := none,
    hour := some p.hh, minute := some p.mi, second := some p.ss, hourDec := none, minuteDec := none,
    secondDec := none, tz := p.tz, tzUnknown := false, truncated := false, truncProp := none,
    dumpFmt := none }
  match p.date with
  | .cal y mo d => { base with year := some y, month := some mo, day := some d }
  | .ord y doy => { base with year := some y, doy := some doy }
  | .week y w d => { base with year := some y, week := some w, dow := some d }

/-- The date of a non-truncated point (`get_is_calendar_date` is tried first, then ordinal, then
    week, as in `get_calendar_date`). -/
def XTP.date? (p : XTP) : Option Date :=
  match p.year with
  | none => none
  | some y =>
    match p.month, p.day with
    | some mo, some d => some (.cal y mo d)
    | _, _ =>
      match p.doy with
      | some doy => some (.ord y doy)
      | none =>
        match p.week, p.dow with
        | some w, some d => some (.week y w d)
        | _, _ => none

/-- A non-truncated, whole-second point as a `Spec.TP`. -/
def XTP.toTP? (p : XTP) : Option TP :=
  if p.truncated || p.tzUnknown || p.hourDec.isSome || p.minuteDec.isSome || p.secondDec.isSome then none
  else
    match p.date?, p.hour, p.minute, p.second with
    | some dt, some h, some mi, some s => some { date := dt, hh := h, mi := mi, ss := s, tz := p.tz }
    | _, _, _, _ => none

end IsoDT.Text
