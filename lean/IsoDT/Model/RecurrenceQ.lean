/-
  IsoDT.Model.RecurrenceQ — executable model of `TimeRecurrence` (data.py) on points and intervals
  that may carry FRACTIONS: the constructor's three notations, bounds, neighbours, iteration,
  indexing and membership, over the rational point type `TPQ` (`Model.TimePointQ`: hour / minute /
  second slots in `Rat`, the minute and second slots possibly `None` = decimal-second /
  decimal-minute / decimal-hour forms) and the rational duration type `DurationQ`
  (`Model.DurationQ`: week form, or years / months / days in `Int` and hours / minutes / seconds in
  `Rat`).

  It is `Model.Recurrence` with every point operation replaced by its rational counterpart
  (`cmp` → `cmpQ`, `addDur` → `addDurQ`, `subDur` → `subDurQ`, `subTP` → `subTPQ`, `Dur.lt/eq/mul/
  nonzero` → `DurationQ.lt/eq/mul/nonzero`); names are the integer model's plus `Q`, so the two can
  be read side by side.  What is covered: EVERY interval the Python accepts (week form, exact
  units with fractional h/m/s, and month/year intervals — `addDurQ` does the nominal part); the
  theorems of `Props/C12q.lean` are about exact intervals.  `min_point`/`max_point` are not
  modelled (always `None` here), nor are `get_first_after`, `__add__`, `__eq__`, `__hash__`.

  Python computes on binary64 floats; the model runs the same statements in the same order over
  exact rationals.  So it says what the ALGORITHM does and nothing about float rounding; on inputs
  whose every intermediate value binary64 holds exactly (dyadic fractions of moderate size) the two
  coincide, which is what the harness compares.

  Iteration is unbounded for `R/…` recurrences, so the iterating functions take a fuel argument
  (the driver passes how many points it wants; the theorems say how much fuel suffices).
  Python failure (`BadInputError`, a failing point operation) = `none`.
-/
import IsoDT.Model.DurationQ
import IsoDT.Model.TimePointQ3
import IsoDT.Model.Recurrence

namespace IsoDT.Model
open IsoDT
open IsoDT.Spec (Date TZ TP)

/-- A `Duration` as `TimePoint.__add__` reads it: `if duration.get_is_in_weeks(): duration =
    duration.to_days()`, then years, months and the exact units. -/
def DurationQ.toNQ (m : Mode) (a : DurationQ) : DurNQ :=
  match a.toDays m with
  | .units y mo d h mi s => ⟨y, mo, ⟨d, h, mi, s⟩⟩
  | .weeks w => ⟨0, 0, ⟨w * (calOf m).daysInWeek, 0, 0, 0⟩⟩

/-- `Duration(days=…, hours=…, minutes=…, seconds=…)` as `TimePoint.__sub__(TimePoint)` builds its
    result (unit form: `weeks` is 0). -/
def DurationQ.ofDurQ (d : DurQ) : DurationQ := .units 0 0 d.days d.h d.mi d.s

/-- `timepoint + duration` (`TimePoint.__add__(Duration)`). -/
def addDurationQ (m : Mode) (p : TPQ) (d : DurationQ) : Option TPQ := addDurQ m p (d.toNQ m)

/-- `timepoint - duration` (`TimePoint.__sub__(Duration)`: `self.__add__(duration * -1)`). -/
def subDurationQ (m : Mode) (p : TPQ) (d : DurationQ) : Option TPQ := addDurQ m p ((d.mul (-1)).toNQ m)

structure RecQ where
  reps : Option Int
  start : Option TPQ
  dur : Option DurationQ
  end_ : Option TPQ
  second : Option TPQ
  fmt : Nat
  deriving DecidableEq, Repr, Inhabited

/-- `a < b`, `a == b`, `a > b` on points through `_cmp` (`false` if the comparison fails). -/
def tpLtQ (m : Mode) (a b : TPQ) : Bool := cmpQ m a b == some (-1)
def tpEqQ (m : Mode) (a b : TPQ) : Bool := cmpQ m a b == some 0
def tpGtQ (m : Mode) (a b : TPQ) : Bool := cmpQ m a b == some 1
def tpLeQ (m : Mode) (a b : TPQ) : Bool := tpLtQ m a b || tpEqQ m a b

/-- `self._duration == Duration(years=0)`. -/
def isZeroDurQ (m : Mode) (d : DurationQ) : Bool := DurationQ.eq m d DurationQ.zero

/-- `TimeRecurrence.__init__` (`none` = `BadInputError`, or a failing point operation). -/
def mkRecQ (m : Mode) (reps : Option Int) (start : Option TPQ) (dur : Option DurationQ)
    (end_ : Option TPQ) : Option RecQ :=
  -- if self._repetitions is not None and self._repetitions <= 0: raise BadInputError
  if (match reps with | some n => decide (n ≤ 0) | none => false) then none
  -- if self._duration is not None and self._duration < Duration(years=0): raise BadInputError
  else if (match dur with | some d => DurationQ.lt m d DurationQ.zero | none => false) then none
  else
    match dur with
    | none =>
      -- First form.  if self._repetitions == 1: second = end = start; return
      if reps = some 1 then some ⟨reps, start, none, start, start, 1⟩
      else
        match start, end_ with
        | some s, some e =>
          -- if self._start_point == self._end_point: repetitions = 1; second = end; return
          if tpEqQ m s e then some ⟨some 1, start, none, end_, end_, 1⟩
          -- if self._end_point < self._start_point: raise BadInputError
          else if tpLtQ m e s then none
          else
            -- self._duration = self._second_point - self._start_point
            match subTPQ m e s with
            | none => none
            | some dq =>
              let d := DurationQ.ofDurQ dq
              match reps with
              | none => some ⟨none, start, some d, none, end_, 1⟩
              | some n =>
                -- self._end_point = self._start_point + self._duration * (self._repetitions - 1)
                (addDurationQ m s (d.mul (n - 1))).map fun e' => ⟨reps, start, some d, some e', end_, 1⟩
        | _, _ => none
    | some d =>
      match start, end_ with
      | some s, none =>
        -- Third form.
        if reps = some 1 ∨ isZeroDurQ m d then some ⟨some 1, start, none, start, none, 3⟩
        else
          match reps with
          | none => some ⟨none, start, dur, none, none, 3⟩
          | some n =>
            (addDurationQ m s (d.mul (n - 1))).map fun e' => ⟨reps, start, dur, some e', none, 3⟩
      | none, some e =>
        -- Fourth form.
        if reps = some 1 ∨ isZeroDurQ m d then some ⟨some 1, end_, none, end_, none, 4⟩
        else
          match reps with
          | none => some ⟨none, none, dur, end_, none, 4⟩
          | some n =>
            -- self._start_point = self._end_point - self._duration * (self._repetitions - 1)
            (subDurationQ m e (d.mul (n - 1))).map fun s' => ⟨reps, some s', dur, end_, none, 4⟩
      | _, _ => none

/-- `_get_is_in_bounds`: `not (timepoint < start)` and `not (timepoint > end)`, a `None` bound
    skipped.  Nothing else: no tolerance, no rounding — `_cmp` of the two points. -/
def inBoundsQ (m : Mode) (r : RecQ) (p : TPQ) : Bool :=
  (match r.start with | some s => !tpLtQ m p s | none => true) &&
  (match r.end_ with | some e => !tpGtQ m p e | none => true)

/-- `get_next`. -/
def getNextQ (m : Mode) (r : RecQ) (p : TPQ) : Option TPQ :=
  if r.reps = some 1 then none
  else
    match r.dur with
    | none => none
    | some d =>
      match addDurationQ m p d with
      | some q => if inBoundsQ m r q then some q else none
      | none => none

/-- `get_prev`. -/
def getPrevQ (m : Mode) (r : RecQ) (p : TPQ) : Option TPQ :=
  if r.reps = some 1 then none
  else
    match r.dur with
    | none => none
    | some d =>
      match subDurationQ m p d with
      | some q => if inBoundsQ m r q then some q else none
      | none => none

/-- The `while point is not None` loop of `__iter__`, at most `fuel` points. -/
def iterFromQ (m : Mode) (r : RecQ) (rev : Bool) : Nat → TPQ → List TPQ
  | 0, _ => []
  | fuel + 1, p =>
    if inBoundsQ m r p then
      p :: (match (if rev then getPrevQ m r p else getNextQ m r p) with
            | some q => iterFromQ m r rev fuel q
            | none => [])
    else []

/-- `__iter__`: the first `fuel` points. -/
def iterQ (m : Mode) (r : RecQ) (fuel : Nat) : List TPQ :=
  let rev := r.start.isNone
  match (if rev then r.end_ else r.start) with
  | none => []
  | some p =>
    -- if self._repetitions == 1 or not self._duration:
    if r.reps == some 1 || (match r.dur with | none => true | some d => !d.nonzero) then
      (if fuel = 0 then [] else if inBoundsQ m r p then [p] else [])
    else iterFromQ m r rev fuel p

/-- `__getitem__`. -/
def getItemQ (m : Mode) (r : RecQ) (i : Nat) : Option TPQ := (iterQ m r (i + 1))[i]?

/-- The scan of `get_is_valid` over (at most `fuel`) iterated points, with its two early exits. -/
def scanValidQ (m : Mode) (r : RecQ) (p : TPQ) : List TPQ → Bool
  | [] => false
  | q :: rest =>
    if tpEqQ m q p then true
    else if r.start.isNone && tpLtQ m q p then false
    else if r.end_.isNone && tpGtQ m q p then false
    else scanValidQ m r p rest

/-- `get_is_valid`. -/
def getIsValidQ (m : Mode) (r : RecQ) (p : TPQ) (fuel : Nat) : Bool :=
  if !inBoundsQ m r p then false else scanValidQ m r p (iterQ m r fuel)

/-- The whole-second recurrence, embedded. -/
def RecQ.ofRec (r : Rec) : RecQ :=
  ⟨r.reps, r.start.map TPQ.ofTP, r.dur.map DurationQ.ofDur, r.end_.map TPQ.ofTP, r.second.map TPQ.ofTP, r.fmt⟩

end IsoDT.Model
