/-
  IsoDT.Model.TimePointQ3 — executable model of `TimePoint.add_months`, of the year branch of
  `TimePoint.__add__` and of the whole `TimePoint.__add__(Duration)` (data.py) on points whose
  hour / minute / second slots are as the Python keeps them (`Model.TimePointQ`: rationals, the
  minute and second slots possibly `None` = the decimal-second / decimal-minute / decimal-hour
  forms).

  The date part of a point is integral in every form, so the statements are those of the
  whole-second model (`Model.TimePoint.addMonths`, `addYears`, `addDur`), the only difference
  being the `_tick_over()` at the end of `add_months`, which here is the rational `tickOverQ`:

  * `addMonthsQ` — `add_months`: `num_months == 0` returns `self` (so a 24:00 spelling survives);
                   otherwise the point goes to calendar form (`to_calendar_date`), the
                   `for _ in range(abs(num_months))` loop moves month (and year) one at a time and
                   clamps the day to the new month's length, then `_tick_over()` (the identity on
                   the time slots of an in-range point; on a 24:00 spelling it carries to 00:00 of
                   the day after the CLAMPED day), then back to ordinal / week form
                   (`to_ordinal_date` / `to_week_date`) if that is what the point was;
  * `addYearsQ`  — the `if duration._years:` branch: `_year += n`, then the clamp of the
                   representation (day-of-month to the month's length, day-of-year to the year's
                   length, week-of-year to the year's number of weeks); no `_tick_over()`;
  * `addDurQ`    — `__add__`: the exact part first (`addExactQ`: 24:00 normalised, then seconds,
                   minutes, hours, days), then `add_months`, then the year branch.

  `none` where the Python raises.
-/
import IsoDT.Model.TimePointQ2

namespace IsoDT.Model
open IsoDT
open IsoDT.Spec (Date TZ TP)

/-- A `Duration` as `__add__` reads it (`weeks` already folded into `days`, as `to_days` does):
    `_years`, `_months` (and `_days`) are `int`s; hours, minutes, seconds may carry a fraction. -/
structure DurNQ where
  years : Int
  months : Int
  exact : DurQ
  deriving DecidableEq, Repr, Inhabited

/-- A whole-number `Duration` as a `DurNQ` (`Duration.to_days` on the week form). -/
def Dur.toNQ (m : Mode) : Dur → DurNQ
  | .weeks w => ⟨0, 0, ⟨w * (calOf m).daysInWeek, 0, 0, 0⟩⟩
  | .units y mo d h mi s => ⟨y, mo, ⟨d, (h : Rat), (mi : Rat), (s : Rat)⟩⟩

/-- `TimePoint.add_months`. -/
def addMonthsQ (m : Mode) (p : TPQ) (n : Int) : Option TPQ :=
  -- if num_months == 0: return self
  if n = 0 then some p
  else
    -- new = self._copy(); if not new.get_is_calendar_date(): ... new = new.to_calendar_date()
    match convert m 0 p.date with
    | some (.cal y mo d) =>
      -- for _ in range(abs(num_months)): month ± 1 with year carry, clamp day_of_month
      let r := monthSteps m (decide (n > 0)) n.natAbs (y, mo, d)
      -- new._tick_over()
      match tickOverQ m { p with date := .cal r.1 r.2.1 r.2.2 } with
      -- if was_ordinal_date: new = new.to_ordinal_date(); if was_week_date: new = new.to_week_date()
      | some q => (convert m p.date.rep q.date).map fun dt => { q with date := dt }
      | none => none
    | _ => none

/-- The `if duration._years:` branch of `TimePoint.__add__`, on the date. -/
def addYearsDate (m : Mode) (dt : Date) (n : Int) : Date :=
  -- new._year += duration._years
  match dt with
  | .cal y mo d =>
    -- month_index = (month - 1) % 12; max_day_in_new_month = DAYS_IN_MONTHS(_LEAP)[month_index]
    -- if new._day_of_month > max_day_in_new_month: new._day_of_month = max_day_in_new_month
    let mx := daysInMonthB m (isLeapYear (y + n)) ((mo - 1) % (calOf m).monthsInYear + 1)
    .cal (y + n) mo (if d > mx then mx else d)
  | .ord y doy =>
    -- if max_days_in_year < new._day_of_year: new._day_of_year = max_days_in_year
    let mx := daysInYear m (y + n)
    .ord (y + n) (if mx < doy then mx else doy)
  | .week y w d =>
    -- if max_weeks_in_year < new._week_of_year: new._week_of_year = max_weeks_in_year
    let mx := weeksInYear m (y + n)
    .week (y + n) (if mx < w then mx else w) d

/-- The `if duration._years:` branch of `TimePoint.__add__`: only date slots are touched. -/
def addYearsQ (m : Mode) (p : TPQ) (n : Int) : TPQ :=
  if n = 0 then p else { p with date := addYearsDate m p.date n }

/-- `TimePoint.__add__(Duration)`: exact part, then `if duration._months: new = new.add_months(..)`,
    then `if duration._years: ...`. -/
def addDurQ (m : Mode) (p : TPQ) (d : DurNQ) : Option TPQ := do
  let p1 ← addExactQ m p d.exact
  let p2 ← addMonthsQ m p1 d.months
  pure (addYearsQ m p2 d.years)

/-- `TimePoint.__sub__(Duration)`: `self.__add__(duration * -1)` (every slot times `-1`). -/
def subDurQ (m : Mode) (p : TPQ) (d : DurNQ) : Option TPQ :=
  addDurQ m p ⟨d.years * -1, d.months * -1, d.exact.neg⟩

end IsoDT.Model
