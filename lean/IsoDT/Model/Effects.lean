/-
  IsoDT.Model.Effects — the effect IR for C16 ("values are immutable") and its semantics.

  Objects are `Nat` addresses handed out by an allocation pointer.  A `World` is the allocation
  pointer, the log of write events (newest first) and an abstract heap giving every object one
  opaque state value (any attribute write replaces it by an arbitrary value; the IR does not track
  which attribute, nor what is stored).

  A method body is a *set* of statements over SSA-style variables; an execution is any finite
  sequence of statements of the body, in any order, with calls of any depth.  That over-approximates
  every branch, loop, early return and exception path of the Python method.

    new x              x := a freshly allocated object (constructor call, `self.__class__(…)`,
                       the dummy standing for a returned non-object such as None / int / str / tuple)
    mov x y            x := y                         (alias, φ)
    load x y           x := some attribute / element of y: an *arbitrary* address (heap contents
                       are not modelled, so nothing is ever known about a loaded value)
    write x            any attribute write through x  (assignment, augmented assignment, setattr)
    call x g recv as   x := recv.g(as…)   the callee's parameters are bound to arbitrary addresses
                       (covers positional / keyword / default / `**` binding of `as`)
    ret x              return / yield x

  Per method a certificate (`fresh`: variables holding only objects allocated during this call;
  `frs`: variables holding only such objects or the receiver) and a summary (`writesRecv`,
  `ret ∈ fresh | freshOrRecv | any`).  `okMethod` is the decidable local check of a body against
  the summaries of its callees; `allOk` checks a whole table and that public methods do not write
  their receiver.  Core Lean only.
-/
namespace IsoDT.Model.Effects

inductive RetKind | fresh | freshOrRecv | any
deriving DecidableEq, Repr

structure Summary where
  /-- may write its receiver (`__init__`, private mutators such as `_tick_over`) -/
  writesRecv : Bool
  ret : RetKind
deriving DecidableEq, Repr

inductive Stmt
  | new (x : Nat)
  | mov (x y : Nat)
  | load (x y : Nat)
  | write (x : Nat)
  | call (x g recv : Nat) (args : List Nat)
  | ret (x : Nat)
deriving DecidableEq, Repr

structure Method where
  name : String
  /-- public operation: no leading underscore, or a dunder other than `__init__` -/
  pub : Bool
  /-- variables bound at entry (besides variable 0 = the receiver) -/
  params : List Nat
  body : List Stmt
  /-- certificate: variables claimed to hold only objects allocated during this call -/
  fresh : List Nat
  /-- certificate: variables claimed to hold only such objects or the receiver -/
  frs : List Nat
  sum : Summary
deriving Repr

/-- What an index outside the table denotes: a method that does nothing and never returns. -/
def Method.empty : Method := ⟨"<none>", false, [], [], [], [], ⟨false, .any⟩⟩

abbrev Table := Nat → Method

def tableOf (ms : List Method) : Table := fun g => ms.getD g Method.empty

structure World where
  next : Nat
  /-- log of write events, newest first -/
  written : List Nat
  /-- abstract state of every object -/
  heap : Nat → Nat

structure St where
  env : Nat → Option Nat
  w : World

def St.set (s : St) (x : Nat) (a : Nat) : St :=
  { s with env := fun v => if v = x then some a else s.env v }

/-- variable 0 is the receiver (`self`); it is never a target. -/
def selfVar : Nat := 0

/-- One statement, given the meaning `callee g recvAddr world world' result` of calls. -/
inductive Step (callee : Nat → Nat → World → World → Nat → Prop) : Stmt → St → St → Prop
  | new (x s) :
      Step callee (.new x) s ({ s with w := { s.w with next := s.w.next + 1 } }.set x s.w.next)
  | mov (x y s a) : s.env y = some a → Step callee (.mov x y) s (s.set x a)
  | load (x y s a b) : s.env y = some a → Step callee (.load x y) s (s.set x b)
  | write (x s a v) : s.env x = some a →
      Step callee (.write x) s
        { s with w := { s.w with written := a :: s.w.written,
                                 heap := fun b => if b = a then v else s.w.heap b } }
  | call (x g recv args s a σ' r) : s.env recv = some a → callee g a s.w σ' r →
      Step callee (.call x g recv args) s ({ s with w := σ' }.set x r)
  | ret (x s) : Step callee (.ret x) s s

/-- Any finite sequence of statements of the body, in any order. -/
inductive Steps (callee) (body : List Stmt) : St → St → Prop
  | nil (s) : Steps callee body s s
  | cons (st s s' s'') :
      st ∈ body → Step callee st s s' → Steps callee body s' s'' → Steps callee body s s''

/-- Entry environment: the receiver in variable 0, parameters bound to anything, the rest unbound. -/
def InitEnv (m : Method) (recv : Nat) (env : Nat → Option Nat) : Prop :=
  env selfVar = some recv ∧ ∀ x, x ≠ selfVar → env x ≠ none → x ∈ m.params

/-- `Sem T d g recv σ σ' r`: a call of method `g` on receiver `recv` in world `σ`, with call depth
    at most `d`, can end in world `σ'` returning `r`. -/
def Sem (T : Table) : Nat → Nat → Nat → World → World → Nat → Prop
  | 0 => fun _ _ _ _ _ => False
  | d+1 => fun g recv σ σ' r =>
      ∃ env0 s' x, InitEnv (T g) recv env0 ∧ Steps (Sem T d) (T g).body ⟨env0, σ⟩ s' ∧
        Stmt.ret x ∈ (T g).body ∧ s'.env x = some r ∧ σ' = s'.w

def Method.isFresh (m : Method) (x : Nat) : Bool := m.fresh.contains x

/-- certified "allocated during this call, or the receiver" -/
def Method.isMine (m : Method) (x : Nat) : Bool := m.fresh.contains x || x == selfVar || m.frs.contains x

/-- certificate check for one statement of method m -/
def okStmt (T : Table) (m : Method) : Stmt → Bool
  | .new x => x != selfVar
  | .mov x y => x != selfVar && (!m.isFresh x || m.isFresh y) && (!m.frs.contains x || m.isMine y)
  | .load x _ => x != selfVar && !m.isFresh x && !m.frs.contains x
  | .write x => m.isFresh x || (m.isMine x && m.sum.writesRecv)
  | .call x g recv _ =>
      x != selfVar &&
      (!(T g).sum.writesRecv || m.isFresh recv || (m.isMine recv && m.sum.writesRecv)) &&
      (!m.isFresh x || (T g).sum.ret == .fresh || ((T g).sum.ret == .freshOrRecv && m.isFresh recv)) &&
      (!m.frs.contains x || (T g).sum.ret == .fresh || ((T g).sum.ret == .freshOrRecv && m.isMine recv))
  | .ret x =>
      match m.sum.ret with
      | .fresh => m.isFresh x
      | .freshOrRecv => m.isMine x
      | .any => true

def okMethod (T : Table) (m : Method) : Bool :=
  m.body.all (okStmt T m) && !m.isFresh selfVar &&
  m.params.all (fun p => p != selfVar && !m.isFresh p && !m.frs.contains p) &&
  (!m.pub || !m.sum.writesRecv)

/-- The whole table checks: every body against the summaries, and no public method writes its
    receiver. -/
def allOk (ms : List Method) : Bool := ms.all (okMethod (tableOf ms))

def retOk : RetKind → Nat → Nat → Nat → Prop
  | .fresh, n, _, r => n ≤ r
  | .freshOrRecv, n, recv, r => n ≤ r ∨ r = recv
  | .any, _, _, _ => True

/-- What a summary promises about one call entered in world σ: allocation only grows; every new
    write event hits an object allocated during the call (or the receiver, for a declared
    mutator); every object that existed before keeps its state (except the receiver of a declared
    mutator); the result is as fresh as declared. -/
def Promise (sm : Summary) (recv : Nat) (σ σ' : World) (r : Nat) : Prop :=
  σ.next ≤ σ'.next ∧
  (∃ wn, σ'.written = wn ++ σ.written ∧
     ∀ a, a ∈ wn → σ.next ≤ a ∨ (sm.writesRecv = true ∧ a = recv)) ∧
  (∀ a, a < σ.next → ¬ (sm.writesRecv = true ∧ a = recv) → σ'.heap a = σ.heap a) ∧
  retOk sm.ret σ.next recv r

/-- Histories of a client program: public calls on existing objects and constructions
    (allocate a new object, run an initialiser on it). -/
inductive Op
  | call (g recv : Nat)
  | construct (g : Nat)
deriving Repr

inductive Hist (T : Table) : List Op → World → World → Prop
  | nil (σ) : Hist T [] σ σ
  | call (g recv d σ σ1 σ2 r rest) :
      (T g).pub = true → Sem T d g recv σ σ1 r → Hist T rest σ1 σ2 →
      Hist T (.call g recv :: rest) σ σ2
  | construct (g d σ σ1 σ2 r rest) :
      Sem T d g σ.next { σ with next := σ.next + 1 } σ1 r → Hist T rest σ1 σ2 →
      Hist T (.construct g :: rest) σ σ2

end IsoDT.Model.Effects
