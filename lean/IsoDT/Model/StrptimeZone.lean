/-
  IsoDT.Model.StrptimeZone — the GLUE of `TimePointParser.strptime` (parsers.py) between the regex
  match and the `TimePoint(...)` call, dictionary by dictionary:

      _parse_from_custom_regex (after `result.groupdict()`):
        for property_, value in list(info.items()):
            if property_ in data.PARSE_PROPERTY_TRANSLATORS:          -- only "seconds_since_unix_epoch"
                info.pop(property_); info.update(translator(value))    -- `unixProps`
        date_info_keys = [item[3] for item in get_date_translate_info(...)]   -- `isDateKey`
        time_info_keys = [item[3] for item in get_time_translate_info()]      -- `isTimeKey`
        for key, value in info.items(): date_info / time_info / time_zone_info  -- `partition`
        time_zone_info = self.process_time_zone_info(time_zone_info)          -- `processTZ`
        time_info.update(time_zone_info)
        return self._create_timepoint_from_info(date_info, time_info, ...)    -- `createInfo`, `ctor`

  `Model/Strftime.lean` (`Strf.assemble`) summarises all of this in three lines ("every keyword is
  overwritten by the local-zone point of that Unix time"); here the dictionaries are association
  lists and every statement of the Python is a list operation, so that WHICH bucket a keyword lands in
  and WHICH emptiness / truthiness tests are made can be read off (and proved about):

  * the translator of `%s` returns `TimePoint.get_props()` of the LOCAL-zone point plus
    `time_zone_hour` / `time_zone_minute`; of its sixteen keys only `month_of_year`, `day_of_year`,
    `day_of_month`, `day_of_week`, `week_of_year` are date keys and `hour_of_day`, `minute_of_hour`,
    `second_of_minute` are time keys — `year`, `num_expanded_year_digits`, `truncated`,
    `truncated_property`, `truncated_dump_format`, `dump_format` and the two zone keys all fall into
    the ELSE bucket `time_zone_info` (`"year"` is not an `item[3]` of the date table: that table
    speaks of `century` / `year_of_century`);
  * so after `%s` `time_zone_info` is never empty, `if not time_zone_info` fails and neither
    `assumed_time_zone` nor `default_to_unknown_time_zone` nor a second call of
    `get_local_time_zone` is consulted; a captured `time_zone_sign` still negates the zone;
  * `_create_timepoint_from_info` computes `date_info["year"] = 0 + …` (no `year` among the date
    keys), and the real year, travelling in `time_info`, overwrites it in `info.update(time_info)`;
  * `float(False) = 0.0` for `truncated`, which `info.pop("truncated", False)` then drops;
  * all tests on the buckets are on dict emptiness / key presence, never on the truthiness of a
    numeric value; the value truthiness tests are inside `TimePoint.__init__`
    (`month_is_specified = bool(month or day)`, `Model/Construct.lean`);
  * with `default_to_unknown_time_zone` and no zone information the constructor gets no zone
    keyword at all, and for a NON-truncated point `has_unknown_tz = self._truncated and …` is
    `False`: the point gets the KNOWN zone (0, 0).

  Values: a Python value in these dicts is a text of digits, an `int`, an integral `float` (after
  `float(value)`), `None`, a `bool`, a sign text or `"Z"`.  Texts of digits, ints and integral floats
  behave identically under every operation applied here (`int()`, `float()`, unary minus, `_int_caster`)
  and are all `Val.num`.  Unix-time texts with a fraction are outside the model (`Strf.parseUnix`
  covers the text level); `float()` of a count beyond 2^53 rounds, the model is exact.

  Outcomes: `Res.ok p unknownZone`, `Res.err` (any Python exception), `Res.unmodelled` (a truncated
  point or a non-numeric constructor argument: not reachable from a strptime match, no claim).

  Equivalent-program liberties: `a.update(b)` is written as what it leaves behind (`dupdate`: old keys
  in place with `b`'s values, new keys appended) rather than as a loop of assignments — the same
  list when `b` has distinct keys, as a Python dict has; "`**info` holds an unexpected keyword" is
  tested against the list of the five keys `TimePoint.__init__` does not name (`nonCtorKeys`; it is
  the complement of `isCtorKey`: `Lemmas.StrpZone.nonCtorKeys_spec`); exception classes are not
  distinguished.  Checked against /repo by the driver op `strpzone` (`Driver/StrptimeZone.lean`).
-/
import IsoDT.Model.Strftime
import IsoDT.Model.Construct

namespace IsoDT.Model.StrpZone
open IsoDT IsoDT.Model
open IsoDT.Spec (Date TZ TP)
open IsoDT.Model.Strf (PCfg)

/-- Dictionary keys: regex group names and `TimePoint` constructor keywords. -/
inductive Key where
  -- groups a strptime directive can capture (`Gen.Strftime.groupName`)
  | century | yearOfCentury | monthOfYear | dayOfMonth | dayOfYear
  | hourOfDay | minuteOfHour | secondOfMinute
  | tzSign | tzHour | tzMinute | unix
  -- group of the zone expression `Z` (ISO `parse` path; no strptime directive captures it)
  | tzUtc
  -- further keys of the dict the `%s` translator returns (`TimePoint.get_props()`)
  | year | numExpandedYearDigits | weekOfYear | dayOfWeek
  | truncated | truncatedProperty | truncatedDumpFormat | dumpFormat
  deriving DecidableEq, Repr, Inhabited

def Key.name : Key → String
  | .century => "century" | .yearOfCentury => "year_of_century" | .monthOfYear => "month_of_year"
  | .dayOfMonth => "day_of_month" | .dayOfYear => "day_of_year" | .hourOfDay => "hour_of_day"
  | .minuteOfHour => "minute_of_hour" | .secondOfMinute => "second_of_minute"
  | .tzSign => "time_zone_sign" | .tzHour => "time_zone_hour" | .tzMinute => "time_zone_minute"
  | .unix => "seconds_since_unix_epoch" | .tzUtc => "time_zone_utc" | .year => "year"
  | .numExpandedYearDigits => "num_expanded_year_digits" | .weekOfYear => "week_of_year"
  | .dayOfWeek => "day_of_week" | .truncated => "truncated" | .truncatedProperty => "truncated_property"
  | .truncatedDumpFormat => "truncated_dump_format" | .dumpFormat => "dump_format"

/-- Python values met in these dicts. -/
inductive Val where
  | num (n : Int)       -- "05", 5, 5.0
  | none                -- None
  | flag (b : Bool)     -- True / False
  | sign (neg : Bool)   -- "-" / "+"
  | z                   -- "Z"
  deriving DecidableEq, Repr, Inhabited

abbrev Dict := List (Key × Val)

/-! ### dict operations (insertion-ordered, as Python's) -/

/-- `d.get(k)` / `k in d`. -/
def dget : Dict → Key → Option Val
  | [], _ => Option.none
  | (k', v) :: rest, k => if k' = k then some v else dget rest k

def dhas (d : Dict) (k : Key) : Bool := (dget d k).isSome

/-- `d[k] = v`: in place if present, else appended. -/
def dset : Dict → Key → Val → Dict
  | [], k, v => [(k, v)]
  | (k', v') :: rest, k, v => if k' = k then (k, v) :: rest else (k', v') :: dset rest k v

/-- `d.pop(k, default)` (the dict afterwards). -/
def dpop : Dict → Key → Dict
  | [], _ => []
  | (k', v') :: rest, k => if k' = k then dpop rest k else (k', v') :: dpop rest k

/-- `a.update(b)` for a dict `b` (keys distinct): the keys of `a` keep their places and take `b`'s
    values, the keys new to `a` follow in `b`'s order. -/
def dupdate (a b : Dict) : Dict :=
  a.map (fun e => (e.1, (dget b e.1).getD e.2)) ++ b.filter (fun e => !dhas a e.1)

/-- Rewrite every value in place (`for key, value in d.items(): d[key] = f(value)`). -/
def dmapVals (f : Val → Val) : Dict → Dict
  | [] => []
  | (k, v) :: rest => (k, f v) :: dmapVals f rest

/-- Keep the entries whose key satisfies `p` (one bucket of the partition loop). -/
def dfilter (p : Key → Bool) : Dict → Dict
  | [] => []
  | (k, v) :: rest => if p k then (k, v) :: dfilter p rest else dfilter p rest

/-! ### the `%s` translator: `data.get_timepoint_properties_from_seconds_since_unix_epoch` -/

def optVal : Option Int → Val
  | some n => .num n
  | Option.none => .none

/-- `dict(point.get_props())` in slot order, `time_zone` replaced by its two numbers. -/
def propsOfPoint (q : TP) : Dict :=
  let y : Int := match q.date with | .cal y _ _ => y | .ord y _ => y | .week y _ _ => y
  let mo : Option Int := match q.date with | .cal _ mo _ => some mo | _ => Option.none
  let doy : Option Int := match q.date with | .ord _ n => some n | _ => Option.none
  let dom : Option Int := match q.date with | .cal _ _ d => some d | _ => Option.none
  let dow : Option Int := match q.date with | .week _ _ d => some d | _ => Option.none
  let woy : Option Int := match q.date with | .week _ w _ => some w | _ => Option.none
  [(.numExpandedYearDigits, .num 0), (.year, .num y), (.monthOfYear, optVal mo), (.dayOfYear, optVal doy),
   (.dayOfMonth, optVal dom), (.dayOfWeek, optVal dow), (.weekOfYear, optVal woy),
   (.hourOfDay, .num q.hh), (.minuteOfHour, .num q.mi), (.secondOfMinute, .num q.ss),
   (.truncated, .flag false), (.truncatedProperty, .none), (.truncatedDumpFormat, .none),
   (.dumpFormat, .none), (.tzHour, .num q.tz.h), (.tzMinute, .num q.tz.mi)]

/-- The translator applied to the captured value; `loc` is `timezone.get_local_time_zone()`
    (`to_local_time_zone` builds `TimeZone(hours=…, minutes=…)` from it: bounds checked). -/
def unixProps (m : Mode) (loc : TZ) (v : Val) : Option Dict :=
  match v with
  | .num n =>
    match mkTZ m loc.h loc.mi with
    | Option.none => Option.none
    | some z => (fromUnix m n (some z)).map propsOfPoint
  | _ => Option.none

/-- The loop over `PARSE_PROPERTY_TRANSLATORS` (its only key is `seconds_since_unix_epoch`). -/
def applyTranslators (m : Mode) (loc : TZ) (info : Dict) : Option Dict :=
  match dget info .unix with
  | Option.none => some info
  | some v => (unixProps m loc v).map fun props => dupdate (dpop info .unix) props

/-! ### the partition -/

/-- `key in date_info_keys`: the `item[3]` names of `parser_spec.get_date_translate_info()`
    (`year_sign`, `century`, `year_of_century`, `month_of_year`, `day_of_year`, `day_of_month`,
    `week_of_year`, `day_of_week`, `year_of_decade`, `expanded_year_digits`) that are keys here. -/
def isDateKey : Key → Bool
  | .century | .yearOfCentury | .monthOfYear | .dayOfYear | .dayOfMonth | .weekOfYear | .dayOfWeek => true
  | _ => false

/-- `key in time_info_keys`: `minute_of_hour`, `hour_of_day`, `second_of_minute` (and the three
    `…_decimal_string` names, which are not keys here). -/
def isTimeKey : Key → Bool
  | .hourOfDay | .minuteOfHour | .secondOfMinute => true
  | _ => false

def dateBucket (info : Dict) : Dict := dfilter isDateKey info
def timeBucket (info : Dict) : Dict := dfilter (fun k => !isDateKey k && isTimeKey k) info
def zoneBucket (info : Dict) : Dict := dfilter (fun k => !isDateKey k && !isTimeKey k) info

/-! ### `process_time_zone_info` -/

/-- `loc` is the raw pair `timezone.get_local_time_zone()` returns (not yet a `TimeZone`). -/
def processTZ (cfg : PCfg) (loc : TZ) (tz : Dict) : Option Dict :=
  if tz.isEmpty then                                     -- `if not time_zone_info:`
    match cfg.assumed with
    | Option.none =>
      if cfg.defaultUnknown then some []
      else some [(.tzHour, .num loc.h), (.tzMinute, .num loc.mi)]
    | some a => some [(.tzHour, .num a.h), (.tzMinute, .num a.mi)]
  else
    let neg := dget tz .tzSign == some (.sign true)      -- `pop("time_zone_sign", "+") == "-"`
    let tz := dpop tz .tzSign
    if neg then
      match dget tz .tzHour with                         -- `-int(time_zone_info["time_zone_hour"])`
      | some (.num h) =>
        let tz := dset tz .tzHour (.num (-h))
        match dget tz .tzMinute with                     -- `if "time_zone_minute" in time_zone_info:`
        | Option.none => some tz
        | some (.num mi) => some (dset tz .tzMinute (.num (-mi)))
        | some _ => Option.none
      | _ => Option.none
    else some tz

/-! ### `_create_timepoint_from_info` -/

/-- Python truthiness. -/
def Val.truthy : Val → Bool
  | .num n => n != 0
  | .none => false
  | .flag b => b
  | .sign _ => true
  | .z => true

/-- `try: x = int(value) / float(value)  except (TypeError, ValueError): pass`. -/
def tryNum : Val → Val
  | .num n => .num n
  | .flag b => .num (if b then 1 else 0)
  | v => v

/-- `int(d.get(k, 0))`, failing on a non-number. -/
def intOr0V : Option Val → Option Int
  | Option.none => some 0
  | some (.num n) => some n
  | some (.flag b) => some (if b then 1 else 0)
  | some _ => Option.none

def intOr0 (d : Dict) (k : Key) : Option Int := intOr0V (dget d k)

/-- The loop over `time_info`: `float(value)` where possible; `time_zone_utc == "Z"` is replaced
    by a zero offset. -/
def timeLoop : Dict → Dict → Dict
  | [], acc => acc
  | (k, v) :: rest, acc =>
    if k = .tzUtc ∧ v = .z then
      timeLoop rest (dupdate (dpop acc .tzUtc) [(.tzHour, .num 0), (.tzMinute, .num 0)])
    else timeLoop rest (dset acc k (tryNum v))

inductive Res where
  | err
  | unmodelled
  | ok (p : TP) (unknownZone : Bool)
  deriving DecidableEq, Repr

/-- A numeric-or-absent constructor argument. -/
def numOfVal : Option Val → Option (Option Int)
  | Option.none => some Option.none
  | some .none => some Option.none
  | some (.num n) => some (some n)
  | some _ => Option.none

def numArg (d : Dict) (k : Key) : Option (Option Int) := numOfVal (dget d k)

/-- Keywords `TimePoint.__init__` knows … -/
def isCtorKey : Key → Bool
  | .year | .monthOfYear | .dayOfMonth | .dayOfYear | .weekOfYear | .dayOfWeek
  | .hourOfDay | .minuteOfHour | .secondOfMinute | .tzHour | .tzMinute
  | .numExpandedYearDigits | .truncated | .truncatedProperty | .truncatedDumpFormat | .dumpFormat => true
  | _ => false

/-- … and the keys it does not: any of them in `**info` is a `TypeError`
    (`Lemmas/StrptimeZone.lean`, `nonCtorKeys_spec`: exactly the complement of `isCtorKey`). -/
def nonCtorKeys : List Key := [.century, .yearOfCentury, .tzSign, .unix, .tzUtc]

def noneOrAbsentV : Option Val → Bool
  | Option.none => true
  | some .none => true
  | some _ => false

def noneOrAbsent (d : Dict) (k : Key) : Bool := noneOrAbsentV (dget d k)

/-- `data.TimePoint(**info, is_duration=False)` through `Model.mkTP`. -/
def ctor (m : Mode) (info : Dict) : Res :=
  if nonCtorKeys.any (dhas info) then .err
  else if (dget info .truncated).any Val.truthy then .unmodelled
  else if !(noneOrAbsent info .truncatedProperty && noneOrAbsent info .truncatedDumpFormat &&
      noneOrAbsent info .dumpFormat) then .unmodelled
  else if dget info .numExpandedYearDigits == some .none then .unmodelled
  else
    match numArg info .numExpandedYearDigits, numArg info .year, numArg info .monthOfYear,
      numArg info .weekOfYear, numArg info .dayOfYear, numArg info .dayOfMonth, numArg info .dayOfWeek,
      numArg info .hourOfDay, numArg info .minuteOfHour, numArg info .secondOfMinute,
      numArg info .tzHour, numArg info .tzMinute with
    | some _, some y, some mo, some w, some doy, some dom, some dow, some hh, some mi, some ss,
      some tzh, some tzm =>
      match mkTP m ⟨y, mo, w, doy, dom, dow, hh, mi, ss, tzh, tzm⟩ with
      | some p => .ok p false      -- `has_unknown_tz = self._truncated and …` = False
      | Option.none => .err
    | _, _, _, _, _, _, _, _, _, _, _, _ => .unmodelled

/-- `_create_timepoint_from_info(date_info, time_info)` with `dump_format=None`,
    `self.dump_format = None`. -/
def createInfo (m : Mode) (dateInfo timeInfo : Dict) : Res :=
  if (dget dateInfo .truncated).any Val.truthy then .unmodelled
  else if !dhas dateInfo .century && dhas dateInfo .yearOfCentury then .unmodelled   -- truncated year
  else
    match intOr0 dateInfo .year, intOr0 dateInfo .yearOfCentury, intOr0 dateInfo .century with
    | some y0, some yc, some c =>
      let dateInfo := dset (dpop (dpop dateInfo .yearOfCentury) .century) .year (.num (y0 + yc + 100 * c))
      let info := dupdate [] (dmapVals tryNum dateInfo)        -- `info = {}; info.update(date_info)`
      let info := dupdate info (timeLoop timeInfo timeInfo)
      -- `if info.pop("truncated", False): info["truncated"] = True`
      let info := if (dget info .truncated).any Val.truthy then dset (dpop info .truncated) .truncated (.flag true)
        else dpop info .truncated
      ctor m info
    | _, _, _ => .err

/-! ### `_parse_from_custom_regex` after the match -/

/-- From the regex's `groupdict()` to the point. -/
def glue (m : Mode) (cfg : PCfg) (loc : TZ) (groupdict : Dict) : Res :=
  match applyTranslators m loc groupdict with
  | Option.none => .err
  | some info =>
    match processTZ cfg loc (zoneBucket info) with
    | Option.none => .err
    | some tz => createInfo m (dateBucket info) (dupdate (timeBucket info) tz)

/-! ### what a match looks like -/

/-- The captured groups as optional numbers (`year` is the `%Y` text: it is captured as
    `century` = first two digits and `year_of_century` = last two). -/
structure Matched where
  year : Option Int := Option.none
  month : Option Int := Option.none
  dom : Option Int := Option.none
  doy : Option Int := Option.none
  hh : Option Int := Option.none
  mi : Option Int := Option.none
  ss : Option Int := Option.none
  /-- `%z`: sign (true = "-"), hours, minutes as captured (non-negative). -/
  zone : Option (Bool × Int × Int) := Option.none
  /-- the `Z` group of the ISO zone expressions -/
  utc : Bool := false
  unix : Option Int := Option.none
  deriving DecidableEq, Repr, Inhabited

def entry (k : Key) : Option Int → Dict
  | some n => [(k, .num n)]
  | Option.none => []

/-- `%Y` captures the four digits as two groups. -/
def yearEntries : Option Int → Dict
  | some y => [(.century, .num (y / 100)), (.yearOfCentury, .num (y % 100))]
  | Option.none => []

/-- `%z` captures three groups. -/
def zoneEntries : Option (Bool × Int × Int) → Dict
  | some (neg, h, mi) => [(.tzSign, .sign neg), (.tzHour, .num h), (.tzMinute, .num mi)]
  | Option.none => []

def utcEntries : Bool → Dict
  | true => [(.tzUtc, .z)]
  | false => []

/-- `result.groupdict()` (the order is that of a format naming the groups in this order; the order
    does not reach the result). -/
def Matched.groupdict (mt : Matched) : Dict :=
  yearEntries mt.year ++ entry .monthOfYear mt.month ++ entry .dayOfMonth mt.dom ++ entry .dayOfYear mt.doy ++
  entry .hourOfDay mt.hh ++ entry .minuteOfHour mt.mi ++ entry .secondOfMinute mt.ss ++
  zoneEntries mt.zone ++ utcEntries mt.utc ++ entry .unix mt.unix

/-- `TimePointParser(assumed_time_zone=…, default_to_unknown_time_zone=…).strptime(text, fmt)` for a
    text matching `fmt` with the captured values `mt`. -/
def strpZone (m : Mode) (cfg : PCfg) (loc : TZ) (mt : Matched) : Res :=
  glue m cfg loc mt.groupdict

end IsoDT.Model.StrpZone
