/-
  IsoDT.Model.TextBasic — the data types of the text layer (parser templates, dumper rules).

  `Gen/Templates.lean` (regenerated from the regexes the live `TimePointParser` compiled and from
  the live `TimePointDumper._rec_formats`) is written in terms of these types; `Model/Text.lean`
  interprets them.  No imports beyond `IsoDT.Basic`; no proofs.
-/
import IsoDT.Basic

namespace IsoDT.Text

/-- The named groups that occur in the parser's regular expressions. -/
inductive Fld where
  | yearSign | expandedYear | century | yearOfCentury | yearOfDecade
  | monthOfYear | dayOfMonth | dayOfYear | weekOfYear | dayOfWeek
  | truncated
  | hourOfDay | minuteOfHour | secondOfMinute | hourDec | minuteDec | secondDec
  | tzUtc | tzSign | tzHour | tzMinute
  deriving DecidableEq, Repr, Inhabited

/-- One element of a compiled regular expression of template shape. -/
inductive Item where
  /-- a literal character -/
  | lit (c : Char)
  /-- `(?P<f>[0-9]{n})` -/
  | digits (f : Fld) (n : Nat)
  /-- `(?P<f>[0-9]+)` (only ever the last item) -/
  | digitsPlus (f : Fld)
  /-- `(?P<f>[-+])` -/
  | sign (f : Fld)
  /-- `(?P<f>lits)`, a named group of literal characters (`-`, `--`, `---`, `Z`) -/
  | group (f : Fld) (lits : List Char)
  deriving DecidableEq, Repr, Inhabited

/-- A regular expression `^ item* $`. -/
abbrev Template := List Item

/-- What `re.match(...).groupdict()` returns: group name ↦ matched text, in template order. -/
abbrev Env := List (Fld × List Char)

inductive FormatKey where
  | basic | extended
  deriving DecidableEq, Repr, Inhabited

inductive TypeKey where
  | complete | reduced | truncated
  deriving DecidableEq, Repr, Inhabited

/-- One `[regex, expression]` pair of `_date_regex_map` / `_time_regex_map`. -/
structure Entry where
  fmt : FormatKey
  typ : TypeKey
  expr : List Char
  tmpl : Template
  deriving DecidableEq, Repr, Inhabited

/-- One `[regex, expression]` pair of `_time_zone_regex_map`. -/
structure ZEntry where
  fmt : FormatKey
  expr : List Char
  tmpl : Template
  deriving DecidableEq, Repr, Inhabited

/-- The tables one `TimePointParser(num_expanded_year_digits, allow_only_basic)` built.  Entries are
    in the iteration order of the live dictionaries/lists. -/
structure ParserTables where
  ned : Nat
  basicOnly : Bool
  /-- keys of `_date_regex_map` in iteration order -/
  formats : List FormatKey
  dateEntries : List Entry
  timeEntries : List Entry
  zoneEntries : List ZEntry
  deriving Repr, Inhabited

/-- The TimePoint properties the dumper's printf templates mention. -/
inductive DProp where
  | yearSign | expandedYearDigits | century | yearOfCentury | yearOfDecade
  | monthOfYear | dayOfMonth | dayOfYear | weekOfYear | dayOfWeek
  | hourOfDay | minuteOfHour | secondOfMinute | hourDecStr | minuteDecStr | secondDecStr
  | tzSign | tzHourAbs | tzMinuteAbs
  deriving DecidableEq, Repr, Inhabited

/-- One piece of a printf template. -/
inductive OutItem where
  | lit (c : Char)
  /-- `%(p)0<width>d` -/
  | int (p : DProp) (width : Nat)
  /-- `%(p)s` -/
  | str (p : DProp)
  deriving DecidableEq, Repr, Inhabited

/-- One `(regex, format, property)` triple of `TimePointDumper._rec_formats`: replace every
    occurrence of the literal `pat` (only at the start of the string when `anchored`; preceded, from
    the start of the string, by exactly `behind`; followed by `ahead`) by the printf piece `out`. -/
structure DumpRule where
  anchored : Bool
  behind : List Char
  pat : List Char
  ahead : List Char
  out : List OutItem
  prop : Option DProp
  deriving DecidableEq, Repr, Inhabited

structure DumpTables where
  ned : Nat
  date : List DumpRule
  time : List DumpRule
  zone : List DumpRule
  deriving Repr, Inhabited

end IsoDT.Text
