/-
  IsoDT.Model.TimePointQ2 — executable model of `TimePoint.to_time_zone`, `_cmp`, `__hash__` and
  `TimePoint.__sub__(TimePoint)` (data.py) with the hour / minute / second slots as the Python
  keeps them (`Model.TimePointQ`: numbers that may carry a fraction, the minute and second slots
  possibly `None`), over exact rationals.

  Each function runs the Python's statements in the Python's order:

  * `toTimeZoneQ`   — `to_time_zone`: identity when hours and minutes of the offset are unchanged,
                      else `self + (dest - self._time_zone)` through `addExactQ`, then the zone is
                      replaced;
  * `secOfDayQ`     — `get_second_of_day`: `0 (+ second) (+ minute * 60) + hour * 3600`, a `None`
                      slot skipped;
  * `hmsQ`          — `get_hour_minute_second`: the decimal-hour / decimal-minute forms expanded
                      with `int()` (truncation) into hour, minute, second;
  * `cmpQ`          — `_cmp`: early exit on identical properties, other re-zoned, 24:00 normalised
                      on both, calendar triple or ordinal pair by self's representation, then the
                      Python list comparison of `[*date, second_of_day]`;
  * `hashKeyQ`      — the tuple `__hash__` hashes: `(*calendar_date, *get_hour_minute_second())` of
                      the UTC, 24:00-normalised point;
  * `subCoreQ`, `subTPQ` — `__sub__`: the swap test `other > self`, ordinal dates, the year-range
                      count, `get_hour_minute_second()` of both operands (so the result `Duration`
                      ALWAYS gets all four of days, hours, minutes, seconds, whatever slots were
                      `None`), the borrow chain.

  `none` where the Python raises (only possible on the non-constructible "second slot without a
  minute slot" pattern, or if a date conversion fails).
-/
import IsoDT.Model.TimePointQ

namespace IsoDT.Model
open IsoDT
open IsoDT.Spec (Date TZ TP)

/-- `Duration.__mul__` by an integer, on the exact units. -/
def DurQ.mul (d : DurQ) (n : Int) : DurQ := ⟨d.days * n, d.h * (n : Rat), d.mi * (n : Rat), d.s * (n : Rat)⟩

/-- `-1 * duration`. -/
def DurQ.neg (d : DurQ) : DurQ := d.mul (-1)

/-- `TimePoint.to_time_zone` (destination known):
    `if dest._hours == self._time_zone._hours and dest._minutes == self._time_zone._minutes:
    return self`; else `new = self + (dest_time_zone - self._time_zone)` (a duration of
    `dest.h - tz.h` hours and `dest.mi - tz.mi` minutes), `new._time_zone = dest_time_zone`. -/
def toTimeZoneQ (m : Mode) (p : TPQ) (z : TZ) : Option TPQ :=
  if z.h = p.tz.h ∧ z.mi = p.tz.mi then some p
  else
    (addExactQ m p ⟨0, ((z.h - p.tz.h : Int) : Rat), ((z.mi - p.tz.mi : Int) : Rat), 0⟩).map
      fun q => { q with tz := z }

/-- `TimePoint.to_utc`. -/
def toUtcQ (m : Mode) (p : TPQ) : Option TPQ := toTimeZoneQ m p ⟨0, 0⟩

/-- `TimePoint.get_second_of_day`. -/
def TPQ.secOfDayQ (m : Mode) (p : TPQ) : Rat :=
  let c := calOf m
  -- second_of_day = 0
  let s0 : Rat := 0
  -- if self._second_of_minute is not None: second_of_day += self._second_of_minute
  let s1 : Rat := match p.ss with
    | some ss => s0 + ss
    | none => s0
  -- if self._minute_of_hour is not None: second_of_day += self._minute_of_hour * SECONDS_IN_MINUTE
  let s2 : Rat := match p.mi with
    | some mi => s1 + mi * (c.secondsInMinute : Rat)
    | none => s1
  -- second_of_day += self._hour_of_day * CALENDAR.SECONDS_IN_HOUR
  s2 + p.hh * (c.secondsInHour : Rat)

/-- `TimePoint.get_hour_minute_second`: (hour, minute, second) with the reduced-precision forms
    expanded.  `none` on the pattern "second slot present, minute slot `None`" (not constructible;
    there the Python returns a `None` minute, on which `__sub__` raises). -/
def hmsQ (m : Mode) (p : TPQ) : Option (Rat × Rat × Rat) :=
  let c := calOf m
  match p.ss with
  | some ss => p.mi.map fun mi => (p.hh, mi, ss)
  | none =>
    -- if minute_of_hour is None:
    --     hour_decimals = hour_of_day - int(hour_of_day)
    --     hour_of_day = float(int(hour_of_day))
    --     minute_of_hour = CALENDAR.MINUTES_IN_HOUR * hour_decimals
    let hm : Rat × Rat := match p.mi with
      | none =>
        let hd := p.hh - (truncQ p.hh : Rat)
        ((truncQ p.hh : Rat), (c.minutesInHour : Rat) * hd)
      | some mi => (p.hh, mi)
    -- minute_decimals = minute_of_hour - int(minute_of_hour)
    -- minute_of_hour = float(int(minute_of_hour))
    -- second_of_minute = CALENDAR.SECONDS_IN_MINUTE * minute_decimals
    let md := hm.2 - (truncQ hm.2 : Rat)
    some (hm.1, (truncQ hm.2 : Rat), (c.secondsInMinute : Rat) * md)

/-- Python list comparison (`-1`, `0`, `1`) of lists of numbers (`int`s and `float`s compare by
    value). -/
def cmpListQ : List Rat → List Rat → Int
  | [], [] => 0
  | [], _ :: _ => -1
  | _ :: _, [] => 1
  | a :: as, b :: bs => if a < b then -1 else if a > b then 1 else cmpListQ as bs

/-- `TimePoint._cmp`: the sign of (self − other) as the code decides it; `none` if the Python
    raises.  The early exit on identical properties is kept. -/
def cmpQ (m : Mode) (a b : TPQ) : Option Int :=
  -- if self.get_props() == other.get_props(): return op in ["eq", "le", "ge"]
  if a = b then some 0
  else do
    -- other = other.to_time_zone(self._time_zone)._get_end_of_day_normalised()
    let b1 ← toTimeZoneQ m b a.tz
    let b2 ← normalise24Q m b1
    -- self = self._get_end_of_day_normalised()
    let a2 ← normalise24Q m a
    -- if self.get_is_calendar_date(): calendar triples  else: ordinal pairs
    let k := if a2.date.rep = 0 then 0 else 1
    match convert m k a2.date, convert m k b2.date with
    | some (.cal y1 mo1 d1), some (.cal y2 mo2 d2) =>
      -- [*my_date, self.get_second_of_day()]  vs  [*other_date, other.get_second_of_day()]
      some (cmpListQ [(y1 : Rat), (mo1 : Rat), (d1 : Rat), a2.secOfDayQ m]
                     [(y2 : Rat), (mo2 : Rat), (d2 : Rat), b2.secOfDayQ m])
    | some (.ord y1 n1), some (.ord y2 n2) =>
      some (cmpListQ [(y1 : Rat), (n1 : Rat), a2.secOfDayQ m] [(y2 : Rat), (n2 : Rat), b2.secOfDayQ m])
    | _, _ => none

/-- The tuple `TimePoint.__hash__` hashes:
    `point = self.to_utc()._get_end_of_day_normalised()`,
    `(*point.get_calendar_date(), *point.get_hour_minute_second())`.
    (Python numbers hash by value, so the tuple is modelled as a list of rationals.) -/
def hashKeyQ (m : Mode) (p : TPQ) : Option (List Rat) := do
  let u ← toUtcQ m p
  let u2 ← normalise24Q m u
  let t ← hmsQ m u2
  match convert m 0 u2.date with
  | some (.cal y mo d) => some [(y : Rat), (mo : Rat), (d : Rat), t.1, t.2.1, t.2.2]
  | _ => none

/-- The borrow chain of `TimePoint.__sub__(TimePoint)` on the raw differences. -/
def borrowQ (m : Mode) (dd1 : Int) (dh0 dm0 ds0 : Rat) : DurQ :=
  let c := calOf m
  -- if diff_second < 0: diff_minute -= 1; diff_second += CALENDAR.SECONDS_IN_MINUTE
  let dm1 := if ds0 < 0 then dm0 - 1 else dm0
  let ds1 := if ds0 < 0 then ds0 + (c.secondsInMinute : Rat) else ds0
  -- if diff_minute < 0: diff_hour -= 1; diff_minute += CALENDAR.MINUTES_IN_HOUR
  let dh1 := if dm1 < 0 then dh0 - 1 else dh0
  let dm2 := if dm1 < 0 then dm1 + (c.minutesInHour : Rat) else dm1
  -- if diff_hour < 0: diff_day -= 1; diff_hour += CALENDAR.HOURS_IN_DAY
  let dd2 := if dh1 < 0 then dd1 - 1 else dd1
  let dh2 := if dh1 < 0 then dh1 + (c.hoursInDay : Rat) else dh1
  -- Duration(days=diff_day, hours=diff_hour, minutes=diff_minute, seconds=diff_second)
  ⟨dd2, dh2, dm2, ds1⟩

/-- The body of `TimePoint.__sub__(TimePoint)` after the swap test. -/
def subCoreQ (m : Mode) (a b : TPQ) : Option DurQ := do
  let b1 ← toTimeZoneQ m b a.tz
  let b2 ← normalise24Q m b1
  let a2 ← normalise24Q m a
  match convert m 1 a2.date, convert m 1 b2.date with
  | some (.ord y1 n1), some (.ord y2 n2) =>
    let dd0 := n1 - n2
    let dd1 := if y1 > y2 then dd0 + daysInYearRange m y2 (y1 - 1)
               else dd0 - daysInYearRange m y1 (y2 - 1)
    -- my_hour, my_minute, my_second = self.get_hour_minute_second()   (same for other)
    let ta ← hmsQ m a2
    let tb ← hmsQ m b2
    some (borrowQ m dd1 (ta.1 - tb.1) (ta.2.1 - tb.2.1) (ta.2.2 - tb.2.2))
  | _, _ => none

/-- `TimePoint.__sub__(TimePoint)`: `if other > self: return -1 * (other - self)`. -/
def subTPQ (m : Mode) (a b : TPQ) : Option DurQ := do
  let c ← cmpQ m b a
  if c > 0 then (subCoreQ m b a).map DurQ.neg else subCoreQ m a b

end IsoDT.Model
