/-
  IsoDT.Model.Strftime2 — `TimePoint.strftime` (= `TimePointDumper.strftime`, dumpers.py) once more,
  this time WITH the last statement of `_dump_expression_with_properties`:

      return expression % property_map

  `Model/Strftime.lean` renders the translated pieces directly and answers `Err.percent` as soon as
  the format holds a `%` that is not the start of a directive.  The Python has no such case: the
  literal text of the format is copied into `expression` unescaped, between the printf templates of
  the directives (`%(century)02d` …), and the whole string is then interpreted by Python's
  `str.__mod__` with the dict `property_map` as its right operand.  So a `%` in the literal text is a
  printf conversion specification of its own, which may swallow characters of the template that
  follows it.  This file models that:

  * `tmpl`, `exprOf` — the `expression` string, character by character (the printf template of a
    property is rebuilt from `Gen.Strftime.propName` / `fmtOf`; the generator refuses any table whose
    templates are not of the forms `%(name)0Nd`, `%(name)s`);
  * `envOf` — `property_map`: one entry per property named by a directive of the format;
  * `run` — `str.__mod__` with a mapping operand (CPython 3.12 `unicodeobject.c`,
    `unicode_format_arg_parse` / `unicode_format_arg_format`), as a character-at-a-time state machine:
    `%%` (only when the two are adjacent: `%-%`, `% %` are "unsupported format character '%'"),
    `%(key)` with balanced parentheses and `KeyError`, the flags `-+ #0`, width, `.precision`
    (either may be `*`), the ignored length modifiers `h l L`, the conversion character; the
    bookkeeping of "the next argument" (`argidx`): without a key the operand is the dict itself, and
    only if no argument has been fetched since the start / the last key — otherwise
    `TypeError: not enough arguments for format string`.

  What the interpreter answers exactly, and what it declines (`FErr.unmodelled` = no claim):
    exact:     every error class (`ValueError`: incomplete format, incomplete format key, unsupported
               format character, width / precision too big;  `KeyError`;  `TypeError`), `%%`,
               `%(key)[0…][width][hlL](d|i|u)` of an integer property (zero padding, sign counted),
               `%(key)(d|i|u)`, `%(key)[hlL]s` of a string property;
    declined:  anything that prints the dict itself (`%s` `%r` `%a` without a key — the `repr` of the
               internal property dict leaks into the output), other flags / precision / space-padded
               widths / widths ≥ 1000, the conversions `r a o x X e E f F g G c` and `s` on an integer
               property (the Python may hold an integral float there), `*` with an integer property,
               a non-ASCII character right after a `%` (Python's `\w` is Unicode-aware, `scan` is not).

  Errors are ordered as in the Python: `StrftimeSyntaxError` from the translation loop first, then the
  year bounds check, then the formatting, left to right.
-/
import IsoDT.Model.Strftime

namespace IsoDT.Model.Strf2
open IsoDT IsoDT.Model IsoDT.Model.Strf
open IsoDT.Spec (Date TZ TP)
open IsoDT.Gen.Strftime (Fld Fmt Pat Cls Piece fmtOf patOf clsOf propName)

/-- Outcome classes of `TimePoint.strftime` other than a text. -/
inductive FErr where
  | syntax      -- StrftimeSyntaxError (a ValueError): a `%`-word-character outside the table
  | bounds      -- TimePointDumperBoundsError (a ValueError)
  | internal    -- a getter failed (never on valid points)
  | value       -- a bare ValueError raised by `expression % property_map`
  | key         -- KeyError raised by `expression % property_map` (not a ValueError)
  | type        -- TypeError raised by `expression % property_map` (not a ValueError)
  | unmodelled  -- outside the modelled domain (see the header): the model makes no claim
  deriving DecidableEq, Repr

def FErr.name : FErr → String
  | .syntax => "syntax" | .bounds => "bounds" | .internal => "internal" | .value => "value"
  | .key => "key" | .type => "type" | .unmodelled => "unmodelled"

/-! ### the `expression` string and the `property_map` -/

/-- The printf template `_translate_strftime_token(…, dump_mode=True)` emits for a property:
    `%(name)0Nd` or `%(name)s`. -/
def fmtSuffix : Fmt → List Char
  | .zeroPad w => '0' :: (showNat w ++ ['d'])
  | .str => ['s']

def tmpl (f : Fld) : List Char := '%' :: '(' :: ((propName f).toList ++ ')' :: fmtSuffix (fmtOf f))

def pieceExpr : Piece → List Char
  | .lit c => [c]
  | .fld f => tmpl f

/-- `expression`: templates and literal text concatenated, nothing escaped. -/
def exprOf (ps : List Piece) : List Char := ps.flatMap pieceExpr

/-- `property_map`: `{name: getattr(timepoint, name)}` for the properties of the format. -/
def envOf (c : DumpCtx) (ps : List Piece) : List (List Char × Val) :=
  (fldsOf ps).map fun f => ((propName f).toList, fldVal c f)

/-! ### `str % dict` -/

/-- One conversion specification being read. `key = none`: no `(key)` part, the argument is the
    next positional one (the dict itself, at most once). -/
structure Spec where
  key : Option Val
  zero : Bool            -- flag `0`
  other : Bool           -- any of the flags `-`, `+`, ` `, `#`
  width : List Char      -- width digits (`[]`: none)
  prec : Option (List Char)   -- `some ds`: a `.` followed by the digits `ds`

def Spec.start (key : Option Val) : Spec := ⟨key, false, false, [], none⟩

inductive Stage where
  | flags | width | prec0 | prec | conv
  deriving DecidableEq, Repr

/-- Where the interpreter is. `spent`: an argument has been fetched since the start (`argidx` is
    past the only positional argument), so a specification without a key can get none. -/
inductive St where
  | text (spent : Bool)
  | pct (spent : Bool)                              -- just after a `%`
  | key (spent : Bool) (depth : Nat) (acc : List Char)   -- inside `%(`, `depth + 1` parentheses open
  | spec (spent : Bool) (stage : Stage) (s : Spec)

inductive Step where
  | next (stage : Stage) (s : Spec)   -- character consumed, specification goes on
  | emit (out : List Char)            -- specification complete, this is its text
  | fail (e : FErr)

/-- `PY_SSIZE_T_MAX` (64-bit build) and `INT_MAX`: "width too big" / "precision too big". -/
def widthMax : Nat := 9223372036854775807
def precMax : Nat := 2147483647

def isLenMod (c : Char) : Bool := c == 'h' || c == 'l' || c == 'L'

/-- A `*` for width or precision fetches an argument at once. -/
def starStep (s : Spec) : Step :=
  match s.key with
  | none => .fail .type                 -- "* wants int" (the dict) / "not enough arguments"
  | some (.int _) => .fail .unmodelled  -- a property as the width: not modelled
  | some (.text _) => .fail .type       -- "* wants int"

/-- The conversion character `c` ends the specification. -/
def finish (spent : Bool) (s : Spec) (c : Char) : Step :=
  match s.key with
  | none =>
    if spent then .fail .type                                  -- not enough arguments for format string
    else if c == 's' || c == 'r' || c == 'a' then .fail .unmodelled   -- prints the dict
    else if "diuoxXeEfFgGc".toList.contains c then .fail .type  -- the dict is not a number / character
    else .fail .value                                          -- unsupported format character
  | some v =>
    if c == 'd' || c == 'i' || c == 'u' then
      match v with
      | .text _ => .fail .type                                 -- %d format: a real number is required
      | .int n =>
        if s.other || s.prec.isSome || s.width.length > 3 then .fail .unmodelled
        else if s.zero then .emit (zpad (parseNat s.width) n)
        else if s.width.isEmpty then .emit (showInt n)
        else .fail .unmodelled
    else if c == 's' then
      match v with
      | .text t =>
        if s.zero || s.other || !s.width.isEmpty || s.prec.isSome then .fail .unmodelled else .emit t
      | .int _ => .fail .unmodelled
    else if "raoxXeEfFgGc".toList.contains c then .fail .unmodelled
    else .fail .value                                          -- unsupported format character

/-- One character of a conversion specification. -/
def specStep (spent : Bool) (stage : Stage) (s : Spec) (c : Char) : Step :=
  match stage with
  | .flags =>
    if c == '0' then .next .flags { s with zero := true }
    else if c == '-' || c == '+' || c == ' ' || c == '#' then .next .flags { s with other := true }
    else if c == '*' then starStep s
    else if isDigitC c then .next .width { s with width := [c] }
    else if c == '.' then .next .prec0 { s with prec := some [] }
    else if isLenMod c then .next .conv s
    else finish spent s c
  | .width =>
    if isDigitC c then .next .width { s with width := s.width ++ [c] }
    else if parseNat s.width > widthMax then .fail .value     -- width too big
    else if c == '.' then .next .prec0 { s with prec := some [] }
    else if isLenMod c then .next .conv s
    else finish spent s c
  | .prec0 =>
    if c == '*' then starStep s
    else if isDigitC c then .next .prec { s with prec := some [c] }
    else if isLenMod c then .next .conv s
    else finish spent s c
  | .prec =>
    if isDigitC c then .next .prec { s with prec := s.prec.map (· ++ [c]) }
    else if parseNat (s.prec.getD []) > precMax then .fail .value   -- precision too big
    else if isLenMod c then .next .conv s
    else finish spent s c
  | .conv => finish spent s c

def prepend (out : List Char) : Except FErr (List Char) → Except FErr (List Char)
  | .ok s => .ok (out ++ s)
  | .error e => .error e

/-- `expression % property_map`, `env` being the dict. -/
def run (env : List (List Char × Val)) : St → List Char → Except FErr (List Char)
  | .text _, [] => .ok []
  | .text sp, c :: rest =>
    if c = '%' then run env (.pct sp) rest else prepend [c] (run env (.text sp) rest)
  | .pct _, [] => .error .value                               -- incomplete format
  | .pct sp, c :: rest =>
    if c = '%' then prepend ['%'] (run env (.text sp) rest)
    else if c = '(' then run env (.key sp 0 []) rest
    else
      match specStep sp .flags (Spec.start none) c with
      | .next stage s => run env (.spec sp stage s) rest
      | .emit out => prepend out (run env (.text true) rest)
      | .fail e => .error e
  | .key _ _ _, [] => .error .value                           -- incomplete format key
  | .key sp depth acc, c :: rest =>
    if c = ')' then
      match depth with
      | 0 =>
        match env.lookup acc with
        | none => .error .key
        | some v => run env (.spec sp .flags (Spec.start (some v))) rest
      | d + 1 => run env (.key sp d (acc ++ [c])) rest
    else if c = '(' then run env (.key sp (depth + 1) (acc ++ [c])) rest
    else run env (.key sp depth (acc ++ [c])) rest
  | .spec _ _ _, [] => .error .value                          -- incomplete format
  | .spec sp stage s, c :: rest =>
    match specStep sp stage s c with
    | .next stage' s' => run env (.spec sp stage' s') rest
    | .emit out => prepend out (run env (.text true) rest)
    | .fail e => .error e

/-! ### strftime -/

/-- Is some `%` followed by a non-ASCII character?  (There `re`'s Unicode `\w` and `scan`'s ASCII
    one may disagree about what a directive is.) -/
def nonAsciiAfterPct : List Char → Bool
  | [] => false
  | [_] => false
  | c :: d :: rest => (c == '%' && decide (128 ≤ d.toNat)) || nonAsciiAfterPct (d :: rest)

def liftErr : Err → FErr
  | .syntax => .syntax
  | .bounds => .bounds
  | _ => .internal

/-- `TimePoint.strftime(fmt)`, the `%`-formatting included. -/
def strftime2 (m : Mode) (p : TP) (fmt : List Char) : Except FErr (List Char) :=
  if nonAsciiAfterPct fmt then .error .unmodelled
  else
    match translate (scan fmt) with
    | .error e => .error (liftErr e)
    | .ok pieces =>
      match (forDump m p).bind (dumpCtx m) with
      | none => .error .internal
      | some c =>
        if pieces.contains (.fld .century) ∧ ¬ (0 ≤ c.year ∧ c.year ≤ 9999) then .error .bounds
        else run (envOf c pieces) (.text false) (exprOf pieces)

end IsoDT.Model.Strf2
