/-
  IsoDT.Model.DurText — executable model of the text forms of `Duration` (C10):

    * `toText`      : `Duration.__str__` (data.py) over integer components;
    * `Re.run`      : a leftmost, greedy, backtracking matcher for the regex shapes of
                      `Gen.DurRegex` (what CPython's `re` does for these shapes), in
                      continuation-passing style so that backtracking is the order of evaluation;
    * `parse`       : `DurationParser.parse` (parsers.py): leading `-` sign factor, the three
                      `DURATION_REGEXES` in order, `int(...)`/`float(...)` of the captured groups,
                      `Duration(**result_map)`, and the date-time-like alternative spelling for
                      its complete calendar / ordinal forms with whole seconds.

  Strings are `List Char`.  The hour/minute/second groups go through Python's `float(...)`; for a
  string of ASCII digits that is the correctly rounded binary64 value (`f64Nat`).  Whatever this
  model makes no claim about is answered `PR.outside` (decimal or otherwise non-digit float text,
  non-ASCII input, alternative spellings other than the four complete forms, overflow to `inf`).
  Proof-free; failures of the Python are `PR.syntaxErr` (ISO8601SyntaxError) / `PR.valueErr`
  (the ValueError of `float(...)`).
-/
import IsoDT.Model.Duration
import IsoDT.Gen.DurRegex

namespace IsoDT.Model.DurText
open IsoDT IsoDT.Model IsoDT.Gen

/-! ### decimal digit strings -/

/-- ASCII `0`–`9`. -/
def isDig (c : Char) : Bool := 48 ≤ c.toNat && c.toNat ≤ 57

def dch (d : Nat) : Char := Char.ofNat (48 + d)

/-- `str(n)` for a natural number, with explicit fuel (`fuel > n` always suffices). -/
def natDigitsAux : Nat → Nat → List Char → List Char
  | 0, _, acc => acc
  | f + 1, n, acc => if n < 10 then dch n :: acc else natDigitsAux f (n / 10) (dch (n % 10) :: acc)

def natDigits (n : Nat) : List Char := natDigitsAux (n + 1) n []

/-- `str(z)` for an `int`. -/
def intText (z : Int) : List Char :=
  if z < 0 then '-' :: natDigits z.natAbs else natDigits z.natAbs

/-- `int(ds)` for a string of ASCII digits. -/
def digitsVal (ds : List Char) : Nat := ds.foldl (fun a c => 10 * a + (c.toNat - 48)) 0

/-- `w` digits, most significant first (the fixed-width fields of the alternative spelling). -/
def renderW : Nat → Nat → List Char
  | 0, _ => []
  | w + 1, v => dch (v / 10 ^ w % 10) :: renderW w v

/-! ### `Duration.__str__` -/

/-- The slots `__str__` walks, `None` slots skipped (`__slots__` order). -/
def comps : Dur → List Int
  | .weeks w => [w]
  | .units y mo d h mi s => [y, mo, d, h, mi, s]

/-- The loop computing `is_fully_negative`. -/
def fullyNegLoop : List Int → Bool → Bool
  | [], acc => acc
  | v :: vs, acc => if v > 0 then false else if v < 0 then fullyNegLoop vs true else fullyNegLoop vs acc

/-- `str(int(prop_val)) + unit` when `prop_val` is truthy. -/
def unitPart (v : Int) (u : Char) : List Char := if v ≠ 0 then intText v ++ [u] else []

/-- `.replace(".", ",")`. -/
def replaceDot (s : List Char) : List Char := s.map fun c => if c = '.' then ',' else c

/-- `if content_string.endswith("T"): content_string = content_string[:-1]`. -/
def stripT (s : List Char) : List Char := if s.getLast? = some 'T' then s.dropLast else s

/-- `__str__` from the week-form test on (the value is truthy and not fully negative). -/
def toTextPos : Dur → List Char
  | .weeks w => replaceDot ('P' :: (intText w ++ ['W']))
  | .units y mo d h mi s =>
    replaceDot ('P' :: stripT (unitPart y 'Y' ++ unitPart mo 'M' ++ (unitPart d 'D' ++ ['T']) ++
      unitPart h 'H' ++ unitPart mi 'M' ++ unitPart s 'S'))

/-- `Duration.__str__`.  The Python recurses into `str(abs(self))` for a fully negative value;
    `abs(self)` is truthy and has no negative slot, so the recursive call takes the last branch. -/
def toText (d : Dur) : List Char :=
  if !d.nonzero then ['P', '0', 'Y']
  else if fullyNegLoop (comps d) false then '-' :: toTextPos d.abs
  else toTextPos d

/-! ### the matcher -/

def _root_.IsoDT.Gen.Cls.test : Cls → Char → Bool
  | .digit, c => isDig c
  | .any, c => c != '\n'
  | .chr x, c => c == x

/-- What the named groups captured (`groupdict()`; `none` = did not participate). -/
abbrev Caps := DUnit → Option (List Char)

def capEmpty : Caps := fun _ => none
def capSet (cp : Caps) (n : DUnit) (v : List Char) : Caps := fun x => if x = n then some v else cp x

/-- Greedy `p*` followed by the continuation `k`: the longest run first, then shorter ones. -/
def starK {β : Type} (p : Char → Bool) : List Char → (List Char → Option β) → Option β
  | [], k => k []
  | c :: cs, k =>
    if p c then
      match starK p cs k with
      | some x => some x
      | none => k (c :: cs)
    else k (c :: cs)

/-- Match `r` at the start of `s`, then run the continuation `k` on the rest; `none` = no way of
    matching `r` here lets `k` succeed.  Alternatives are tried in `re`'s order (greedy first). -/
def _root_.IsoDT.Gen.Re.run {β : Type} : Re → List Char → Caps → (List Char → Caps → Option β) → Option β
  | .eps, s, cp, k => k s cp
  | .one c, s, cp, k =>
    match s with
    | x :: xs => if c.test x then k xs cp else none
    | [] => none
  | .star c, s, cp, k => starK c.test s (fun s' => k s' cp)
  | .plus c, s, cp, k =>
    match s with
    | x :: xs => if c.test x then starK c.test xs (fun s' => k s' cp) else none
    | [] => none
  | .opt r, s, cp, k =>
    match r.run s cp k with
    | some x => some x
    | none => k s cp
  | .seq a b, s, cp, k => a.run s cp (fun s' cp' => b.run s' cp' k)
  | .grp n r, s, cp, k => r.run s cp (fun s' cp' => k s' (capSet cp' n (s.take (s.length - s'.length))))

/-- `$` without MULTILINE: at the end, or just before a final newline. -/
def atEnd : List Char → Bool
  | [] => true
  | [c] => c == '\n'
  | _ => false

/-- `rx.search(s)` for a pattern `^ r $` (no MULTILINE, so the search is anchored at 0). -/
def _root_.IsoDT.Gen.Re.search (r : Re) (s : List Char) : Option Caps :=
  r.run s capEmpty (fun s' cp => if atEnd s' then some cp else none)

/-! ### `float(...)` of a digit string -/

/-- The binary64 value nearest to `n` (ties to even), for `n` below the overflow threshold. -/
def f64Nat (n : Nat) : Nat :=
  if n < 2 ^ 53 then n
  else
    let e := Nat.log2 n - 52
    let q := n >>> e
    let r := n % 2 ^ e
    let half := 2 ^ (e - 1)
    let q' := if r > half ∨ (r = half ∧ q % 2 = 1) then q + 1 else q
    q' <<< e

/-- Digit strings denoting `2^1023` or more are left alone (they may round to `inf`). -/
def f64Over : Nat := 2 ^ 1023

/-- Characters that can occur in no text `float()` accepts (printable ASCII other than digits,
    `.`, `,` (replaced by `.` before the call), exponent letters, signs, `_`). -/
def floatHopeless (c : Char) : Bool :=
  33 ≤ c.toNat && c.toNat ≤ 126 && !(isDig c || c == '.' || c == ',' || c == 'e' || c == 'E' ||
    c == '+' || c == '-' || c == '_')

/-- Outcome of converting one captured group. -/
inductive FV where
  | absent | val (n : Nat) | bad | out
  deriving DecidableEq, Repr

/-- `int(value)` (years, months, days, weeks). -/
def intField : Option (List Char) → FV
  | none => .absent
  | some ds => if ds ≠ [] ∧ ds.all isDig then .val (digitsVal ds) else .out

/-- `float(value.replace(",", "."))` (hours, minutes, seconds). -/
def fltField : Option (List Char) → FV
  | none => .absent
  | some ds =>
    if ds ≠ [] ∧ ds.all isDig then
      (if digitsVal ds < f64Over then .val (f64Nat (digitsVal ds)) else .out)
    else if ds.any floatHopeless then .bad
    else .out

/-! ### `DurationParser.parse` -/

/-- Result of `parse`. -/
inductive PR where
  | ok (d : Dur)
  | syntaxErr
  | valueErr
  | outside
  deriving DecidableEq, Repr

/-- The keyword arguments collected for `Duration(**result_map)` (absent = the default 0). -/
abbrev Fields := DUnit → Int

def Fields.zero : Fields := fun _ => 0
def Fields.set (f : Fields) (n : DUnit) (v : Int) : Fields := fun x => if x = n then v else f x

/-- `if key in ["years", "months", "days", "weeks"]: int(value) else: float(value)`. -/
def _root_.IsoDT.Gen.DUnit.isIntKey : DUnit → Bool
  | .years | .months | .days | .weeks => true
  | _ => false

def Fields.toDur (m : Mode) (f : Fields) : Dur :=
  mkDur m (f .years) (f .months) (f .weeks) (f .days) (f .hours) (f .minutes) (f .seconds)

/-- The loop over `result_map.items()` (group order); the first failing conversion decides. -/
def convert (sg : Int) (cp : Caps) : List DUnit → Fields → Except PR Fields
  | [], f => .ok f
  | n :: ns, f =>
    match (if DUnit.isIntKey n then intField (cp n) else fltField (cp n)) with
    | .absent => convert sg cp ns f
    | .val v => convert sg cp ns (f.set n ((v : Int) * sg))
    | .bad => .error .valueErr
    | .out => .error .outside

/-- `for rec_regex in self.DURATION_REGEXES: result = rec_regex.search(expression) ...`. -/
def firstMatch : List (Re × List DUnit) → List Char → Option (List DUnit × Caps)
  | [], _ => none
  | (r, gs) :: rest, s =>
    match r.search s with
    | some cp => some (gs, cp)
    | none => firstMatch rest s

/-- Exactly `w` ASCII digits at the start of `s`: (the digits, the rest). -/
def takeDigits : Nat → List Char → Option (List Char × List Char)
  | 0, s => some ([], s)
  | _ + 1, [] => none
  | w + 1, c :: cs =>
    if isDig c then (takeDigits w cs).map (fun (ds, r) => (c :: ds, r)) else none

/-- The literal `c` at the start of `s`. -/
def expect (c : Char) : List Char → Option (List Char)
  | x :: xs => if x = c then some xs else none
  | [] => none

/-- A separator that only the extended format writes. -/
def sep (on : Bool) (c : Char) (s : List Char) : Option (List Char) := if on then expect c s else some s

/-- One complete form of the date-time-like spelling (after the `P`), extended (`-`, `:`) or basic,
    calendar (`MM`, `DD`) or ordinal (`DDD`):  `YYYY-MM-DDThh:mm:ss`, `YYYYMMDDThhmmss`,
    `YYYY-DDDThh:mm:ss`, `YYYYDDDThhmmss`.  Result: (years, months, days, hours, minutes, seconds). -/
def altForm (ext cal : Bool) (s : List Char) : Option (Nat × Nat × Nat × Nat × Nat × Nat) := do
  let (y, s) ← takeDigits 4 s
  let s ← sep ext '-' s
  let (mo, s) ← (if cal then takeDigits 2 s else some ([], s))
  let s ← sep (ext && cal) '-' s
  let (d, s) ← takeDigits (if cal then 2 else 3) s
  let s ← expect 'T' s
  let (h, s) ← takeDigits 2 s
  let s ← sep ext ':' s
  let (mi, s) ← takeDigits 2 s
  let s ← sep ext ':' s
  let (sec, s) ← takeDigits 2 s
  if s.isEmpty then
    some (digitsVal y, digitsVal mo, digitsVal d, digitsVal h, digitsVal mi, digitsVal sec)
  else none

/-- The complete forms of the date-time-like spelling this model covers. -/
def altParse (s : List Char) : Option (Nat × Nat × Nat × Nat × Nat × Nat) :=
  match altForm true true s with
  | some r => some r
  | none =>
    match altForm true false s with
    | some r => some r
    | none =>
      match altForm false true s with
      | some r => some r
      | none => altForm false false s

/-- Characters a date expression of `TimePointParser` can contain (digits, `W`, the expanded-year
    sign, `-`) plus the newline `$` tolerates at the very end. -/
def dateChar (c : Char) : Bool := isDig c || c == 'W' || c == '+' || c == '-' || c == '\n'

/-- The date-time-like fallback `parse_timepoint_expression(expression[1:], is_duration=True, ...)`
    as far as this model follows it: the four complete forms of `altParse`; two or more `T`s make
    `date, time_time_zone = timepoint_string.split("T")` raise ValueError; a date part (the text
    before the `T`) that is empty or has a character no date expression contains is refused by
    `get_date_info` (ISO8601SyntaxError); everything else is outside the model. -/
def altPath (m : Mode) (rest : List Char) : PR :=
  match altParse rest with
  | some (y, mo, d, h, mi, s) => .ok (mkDur m y mo 0 d h mi s)
  | none =>
    if 2 ≤ rest.count 'T' then .valueErr
    else
      let date := rest.takeWhile (· != 'T')
      if date.isEmpty || date.any (fun c => !dateChar c) then .syntaxErr
      else .outside

/-- `parse` after the sign has been split off. -/
def parseBody (m : Mode) (sg : Int) (e : List Char) : PR :=
  match firstMatch durRegexes e with
  | some (gs, cp) =>
    match convert sg cp gs Fields.zero with
    | .ok f => .ok (f.toDur m)
    | .error r => r
  | none =>
    match e with
    | 'P' :: rest => if sg = 1 then altPath m rest else .syntaxErr
    | _ => .syntaxErr

/-- `DurationParser.parse(expression)`. -/
def parse (m : Mode) (s : List Char) : PR :=
  if s.any (fun c => 128 ≤ c.toNat) then .outside
  else
    match s with
    | '-' :: e => parseBody m (-1) e
    | _ => parseBody m 1 s

end IsoDT.Model.DurText
