/-
  IsoDT.Model.TimePoint — executable model of the whole-second, non-truncated part of
  `TimePoint` (data.py): `_tick_over`, `_tick_over_day_of_month`, `__add__`, `add_months`,
  `to_time_zone`, `_cmp`, `__hash__`, `__sub__`, and of the `Duration` values they take.

  The loops over years / week-years are mirrored as well-founded recursions.  Each loop guard
  also requires the year (week-year) length it is about to add or subtract to be positive; the
  Python has no such guard and would spin if a length were not positive, so the theorems of
  `Props/C01.lean` prove that this extra conjunct is always true (termination of the real loop).
  Failures that the Python signals by an exception are `none`.
-/
import IsoDT.Model.Calendar

namespace IsoDT.Model
open IsoDT
open IsoDT.Spec (Date TZ TP)

/-- A `Duration`: either the week form (`PnW`, every other slot `None`) or the unit form. -/
inductive Dur where
  | weeks (w : Int)
  | units (y mo d h mi s : Int)
  deriving DecidableEq, Repr, Inhabited

/-- `Duration.to_days`. -/
def Dur.toDays (m : Mode) : Dur → Dur
  | .weeks w => .units 0 0 (w * (calOf m).daysInWeek) 0 0 0
  | d => d

/-- `Duration.__mul__` by an integer. -/
def Dur.mul : Dur → Int → Dur
  | .weeks w, n => .weeks (w * n)
  | .units y mo d h mi s, n => .units (y * n) (mo * n) (d * n) (h * n) (mi * n) (s * n)

def Dur.neg (d : Dur) : Dur := d.mul (-1)

/-- `Duration.is_exact`. -/
def Dur.isExact : Dur → Bool
  | .weeks _ => true
  | .units y mo _ _ _ _ => y == 0 && mo == 0

/-- `Duration._get_non_nominal_seconds`. -/
def Dur.exactSeconds (m : Mode) : Dur → Int
  | .weeks w => w * (calOf m).daysInWeek * (calOf m).secondsInDay
  | .units _ _ d h mi s =>
    d * (calOf m).secondsInDay + h * (calOf m).secondsInHour + mi * (calOf m).secondsInMinute + s

/-! ### carries -/

/-- `while self._day_of_year < 1` of `_tick_over`. -/
def ordBack (m : Mode) (y doy : Int) : Int × Int :=
  if doy < 1 ∧ 0 < daysInYear m (y - 1) then ordBack m (y - 1) (doy + daysInYear m (y - 1))
  else (y, doy)
termination_by (1 - doy).toNat
decreasing_by omega

/-- `while self._day_of_year > get_days_in_year(self._year)` of `_tick_over`. -/
def ordFwd (m : Mode) (y doy : Int) : Int × Int :=
  if doy > daysInYear m y ∧ 0 < daysInYear m y then ordFwd m (y + 1) (doy - daysInYear m y)
  else (y, doy)
termination_by doy.toNat
decreasing_by omega

def normOrd (m : Mode) (y doy : Int) : Int × Int :=
  let r := ordBack m y doy
  ordFwd m r.1 r.2

/-- `while self._week_of_year < 1` of `_tick_over`. -/
def weekBack (m : Mode) (y w : Int) : Int × Int :=
  if w < 1 ∧ 0 < weeksInYear m (y - 1) then weekBack m (y - 1) (w + weeksInYear m (y - 1))
  else (y, w)
termination_by (1 - w).toNat
decreasing_by omega

/-- `while self._week_of_year > get_weeks_in_year(self._year)` of `_tick_over`. -/
def weekFwd (m : Mode) (y w : Int) : Int × Int :=
  if w > weeksInYear m y ∧ 0 < weeksInYear m y then weekFwd m (y + 1) (w - weeksInYear m y)
  else (y, w)
termination_by w.toNat
decreasing_by omega

def normWeek (m : Mode) (y w : Int) : Int × Int :=
  let r := weekBack m y w
  weekFwd m r.1 r.2

/-- The two month loops at the end of `_tick_over`. -/
def monthBack (m : Mode) (y mo : Int) : Int × Int :=
  if mo < 1 ∧ 0 < (calOf m).monthsInYear then monthBack m (y - 1) (mo + (calOf m).monthsInYear)
  else (y, mo)
termination_by (1 - mo).toNat
decreasing_by omega

def monthFwd (m : Mode) (y mo : Int) : Int × Int :=
  if mo > (calOf m).monthsInYear ∧ 0 < (calOf m).monthsInYear then
    monthFwd m (y + 1) (mo - (calOf m).monthsInYear)
  else (y, mo)
termination_by mo.toNat
decreasing_by omega

def normMonth (m : Mode) (y mo : Int) : Int × Int :=
  let r := monthBack m y mo
  monthFwd m r.1 r.2

/-- `_tick_over_day_of_month` for a month in 1..12: a day outside the month is found by walking
    `iter_months_days` from the first of the month, backwards or forwards, year after year.
    In the model: the day's (possibly out-of-range) position in the year, carried like an
    ordinal date, then read back as month and day. -/
def tickDayOfMonth (m : Mode) (y mo d : Int) : Option (Int × Int × Int) :=
  if d < 1 ∨ d > daysInMonthB m (isLeapYear y) ((mo - 1) % (calOf m).monthsInYear + 1) then
    match posOf (indexed m (isLeapYear y)) mo 1 with
    | some o1 =>
      let r := normOrd m y (o1 - 1 + d)
      calFromOrd m r.1 r.2
    | none => none
  else some (y, mo, d)

/-- `TimePoint._tick_over` on a whole-second point. -/
def tickOver (m : Mode) (p : TP) : Option TP :=
  let c := calOf m
  let ss := p.ss % c.secondsInMinute
  let mi0 := p.mi + p.ss / c.secondsInMinute
  let mi := mi0 % c.minutesInHour
  let hh0 := p.hh + mi0 / c.minutesInHour
  let hh := hh0 % c.hoursInDay
  let days := hh0 / c.hoursInDay
  let date : Option Date :=
    match p.date with
    | .week y w d =>
      let d0 := d + days
      let r := normWeek m y (w + (d0 - 1) / c.daysInWeek)
      some (.week r.1 r.2 ((d0 - 1) % c.daysInWeek + 1))
    | .cal y mo d =>
      match tickDayOfMonth m y mo (d + days) with
      | some (y1, mo1, d1) =>
        let r := normMonth m y1 mo1
        some (.cal r.1 r.2 d1)
      | none => none
    | .ord y doy =>
      let r := normOrd m y (doy + days)
      some (.ord r.1 r.2)
  date.map fun dt => { p with date := dt, hh := hh, mi := mi, ss := ss }

/-- `_get_end_of_day_normalised`: 24:00 re-expressed as 00:00 of the next day. -/
def normalise24 (m : Mode) (p : TP) : Option TP :=
  if p.hh = (calOf m).hoursInDay then tickOver m p else some p

def bumpDay (dt : Date) (n : Int) : Date :=
  match dt with
  | .cal y mo d => .cal y mo (d + n)
  | .ord y doy => .ord y (doy + n)
  | .week y w d => .week y w (d + n)

/-- `if duration._seconds: new._second_of_minute += duration._seconds; new._tick_over()`. -/
def stepS (m : Mode) (p : TP) (s : Int) : Option TP :=
  if s ≠ 0 then tickOver m { p with ss := p.ss + s } else some p
def stepM (m : Mode) (p : TP) (mi : Int) : Option TP :=
  if mi ≠ 0 then tickOver m { p with mi := p.mi + mi } else some p
def stepH (m : Mode) (p : TP) (h : Int) : Option TP :=
  if h ≠ 0 then tickOver m { p with hh := p.hh + h } else some p
def stepD (m : Mode) (p : TP) (d : Int) : Option TP :=
  if d ≠ 0 then tickOver m { p with date := bumpDay p.date d } else some p

/-- The exact part of `TimePoint.__add__`: seconds, minutes, hours, days, each followed by
    `_tick_over` when non-zero. -/
def addUnits (m : Mode) (p : TP) (d h mi s : Int) : Option TP :=
  (normalise24 m p).bind fun p0 =>
  (stepS m p0 s).bind fun p1 =>
  (stepM m p1 mi).bind fun p2 =>
  (stepH m p2 h).bind fun p3 =>
  stepD m p3 d

/-- One iteration of the `for _ in range(abs(num_months))` loop of `add_months`. -/
def monthStep (m : Mode) (fwd : Bool) (ymd : Int × Int × Int) : Int × Int × Int :=
  let n := (calOf m).monthsInYear
  let ym : Int × Int :=
    if fwd then (if ymd.2.1 + 1 > n then (ymd.1 + 1, ymd.2.1 + 1 - n) else (ymd.1, ymd.2.1 + 1))
    else (if ymd.2.1 - 1 < 1 then (ymd.1 - 1, ymd.2.1 - 1 + n) else (ymd.1, ymd.2.1 - 1))
  let mx := daysInMonthB m (isLeapYear ym.1) ((ym.2 - 1) % n + 1)
  (ym.1, ym.2, if ymd.2.2 > mx then mx else ymd.2.2)

def monthSteps (m : Mode) (fwd : Bool) : Nat → Int × Int × Int → Int × Int × Int
  | 0, x => x
  | k + 1, x => monthSteps m fwd k (monthStep m fwd x)

/-- `TimePoint.add_months`. -/
def addMonths (m : Mode) (p : TP) (n : Int) : Option TP :=
  if n = 0 then some p
  else
    match convert m 0 p.date with
    | some (.cal y mo d) =>
      let r := monthSteps m (decide (n > 0)) n.natAbs (y, mo, d)
      match tickOver m { p with date := .cal r.1 r.2.1 r.2.2 } with
      | some q => (convert m p.date.rep q.date).map fun dt => { q with date := dt }
      | none => none
    | _ => none

/-- The `if duration._years:` branch of `TimePoint.__add__`. -/
def addYears (m : Mode) (p : TP) (n : Int) : TP :=
  if n = 0 then p
  else
    match p.date with
    | .cal y mo d =>
      let mx := daysInMonthB m (isLeapYear (y + n)) ((mo - 1) % (calOf m).monthsInYear + 1)
      { p with date := .cal (y + n) mo (if d > mx then mx else d) }
    | .ord y doy =>
      let mx := daysInYear m (y + n)
      { p with date := .ord (y + n) (if mx < doy then mx else doy) }
    | .week y w d =>
      let mx := weeksInYear m (y + n)
      { p with date := .week (y + n) (if mx < w then mx else w) d }

/-- `TimePoint.__add__(Duration)`. -/
def addDur (m : Mode) (p : TP) (dur : Dur) : Option TP :=
  match dur.toDays m with
  | .units y mo d h mi s => do
    let p1 ← addUnits m p d h mi s
    let p2 ← addMonths m p1 mo
    pure (addYears m p2 y)
  | .weeks _ => none

/-- `TimePoint.__sub__(Duration)`. -/
def subDur (m : Mode) (p : TP) (dur : Dur) : Option TP := addDur m p (dur.mul (-1))

/-- `TimePoint.to_time_zone` (destination known). -/
def toTimeZone (m : Mode) (p : TP) (z : TZ) : Option TP :=
  if z.h = p.tz.h ∧ z.mi = p.tz.mi then some p
  else (addDur m p (.units 0 0 0 (z.h - p.tz.h) (z.mi - p.tz.mi) 0)).map fun q => { q with tz := z }

def toUtc (m : Mode) (p : TP) : Option TP := toTimeZone m p ⟨0, 0⟩

/-- `TimeZone.__init__` bounds and sign rules (`hours`/`minutes` already integral). -/
def mkTZ (m : Mode) (h mi : Int) : Option TZ :=
  if h < -99 ∨ h > 99 then none
  else
    let lo := if h > 0 then 0 else 1 - (calOf m).minutesInHour
    let hi := if h < 0 then 0 else (calOf m).minutesInHour - 1
    if mi < lo ∨ mi > hi then none else some ⟨h, mi⟩

/-- `TimePoint.time_zone_sign`, `time_zone_hour_abs`, `time_zone_minute_abs`. -/
def tzSign (z : TZ) : Int := if z.h < 0 ∨ z.mi < 0 then -1 else 1
def tzHourAbs (z : TZ) : Int := if z.h < 0 then -z.h else z.h
def tzMinuteAbs (z : TZ) : Int := if z.mi < 0 then -z.mi else z.mi

/-! ### comparison, hashing, difference -/

/-- Python list comparison `[*date, second_of_day]`: `-1`, `0`, `1`. -/
def cmpList : List Int → List Int → Int
  | [], [] => 0
  | [], _ :: _ => -1
  | _ :: _, [] => 1
  | a :: as, b :: bs => if a < b then -1 else if a > b then 1 else cmpList as bs

/-- `TimePoint._cmp`: the sign of (self − other) as the code decides it; `none` if a conversion
    fails.  The early exit on identical properties is kept. -/
def cmp (m : Mode) (a b : TP) : Option Int :=
  if a = b then some 0
  else do
    let b1 ← toTimeZone m b a.tz
    let b2 ← normalise24 m b1
    let a2 ← normalise24 m a
    let k := if a2.date.rep = 0 then 0 else 1
    match convert m k a2.date, convert m k b2.date with
    | some (.cal y1 mo1 d1), some (.cal y2 mo2 d2) =>
      some (cmpList [y1, mo1, d1, a2.secOfDay] [y2, mo2, d2, b2.secOfDay])
    | some (.ord y1 n1), some (.ord y2 n2) =>
      some (cmpList [y1, n1, a2.secOfDay] [y2, n2, b2.secOfDay])
    | _, _ => none

/-- The tuple `TimePoint.__hash__` hashes: UTC calendar date and h, m, s, with 24:00 normalised. -/
def hashKey (m : Mode) (p : TP) : Option (List Int) := do
  let u ← toUtc m p
  let u2 ← normalise24 m u
  match convert m 0 u2.date with
  | some (.cal y mo d) => some [y, mo, d, u2.hh, u2.mi, u2.ss]
  | _ => none

/-- The body of `TimePoint.__sub__(TimePoint)` after the swap test. -/
def subCore (m : Mode) (a b : TP) : Option Dur := do
  let b1 ← toTimeZone m b a.tz
  let b2 ← normalise24 m b1
  let a2 ← normalise24 m a
  match convert m 1 a2.date, convert m 1 b2.date with
  | some (.ord y1 n1), some (.ord y2 n2) =>
    let c := calOf m
    let dd0 := n1 - n2
    let dd1 := if y1 > y2 then dd0 + daysInYearRange m y2 (y1 - 1)
               else dd0 - daysInYearRange m y1 (y2 - 1)
    let ds0 := a2.ss - b2.ss
    let dm0 := a2.mi - b2.mi
    let dh0 := a2.hh - b2.hh
    let dm1 := if ds0 < 0 then dm0 - 1 else dm0
    let ds1 := if ds0 < 0 then ds0 + c.secondsInMinute else ds0
    let dh1 := if dm1 < 0 then dh0 - 1 else dh0
    let dm2 := if dm1 < 0 then dm1 + c.minutesInHour else dm1
    let dd2 := if dh1 < 0 then dd1 - 1 else dd1
    let dh2 := if dh1 < 0 then dh1 + c.hoursInDay else dh1
    some (.units 0 0 dd2 dh2 dm2 ds1)
  | _, _ => none

/-- `TimePoint.__sub__(TimePoint)`. -/
def subTP (m : Mode) (a b : TP) : Option Dur := do
  let c ← cmp m b a
  if c > 0 then (subCore m b a).map Dur.neg else subCore m a b

end IsoDT.Model
