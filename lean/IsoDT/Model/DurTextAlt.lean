/-
  IsoDT.Model.DurTextAlt — executable model of the date-time-like ALTERNATIVE spelling of durations,
  for EVERY text (C10): the fallback of `DurationParser.parse` (parsers.py)

      if expression.startswith("P") and sign_factor != -1:
          timepoint = parse_timepoint_expression(expression[1:], is_duration=True,
                                                 allow_truncated=False, assumed_time_zone=(0, 0))
          if timepoint.get_is_week_date(): raise ISO8601SyntaxError
          result_map = {years: _year, [months: _month_of_year, days: _day_of_month],
                        [days: _day_of_year], hours: _hour_of_day, [minutes], [seconds]}
          return data.Duration(**result_map)

  and its composition with the sign rule and the designator regexes of `parse`.

    * `altCfg`      : the `TimePointParser` that call builds (2 expanded year digits, basic and extended
                      formats, no truncated forms, assumed zone `(0, 0)`);
    * `ctorDur`     : `TimePoint.__init__(..., is_duration=True)`: the checks and the hour / minute /
                      second defaults of the ordinary constructor, but NO month / day defaults and NO
                      `_check_bounds` (so month 00 / 13, day 00 / 32, ordinal 000 / 999, hour 25,
                      minute 60 all pass); the zone is still built (`TimeZone(...)` checks its bounds);
    * `parseAltTP`  : `get_info` + `_create_timepoint_from_info` of `Model.Text` (the regenerated
                      templates) + `ctorDur`;
    * `durOf`       : the `result_map` and `Duration(**result_map)`: a week date is refused; a missing
                      day (`PYYYY-MM`: `days=None`) becomes 0 in `Duration.__init__`
                      (`self._days = DAYS_IN_WEEK * weeks` with `weeks = 0`); months / days stay at
                      their default 0 when the date has no month;
    * `parseAltDur` : the fallback, on the text after the `P`;
    * `parseA`      : `DurationParser.parse`: sign factor, designator regexes, fallback.

  A text that spells a decimal fraction (`P0004-03-02T05,5`) gives a `DurationQ`: Python computes
  `float("0." + digits)`, checks it is below 1.0, and adds it to the whole unit (one binary64
  rounding): `decVal`, `addDec` (with `DurTextQ.pyFloat` / `roundPos`).

  Failures of the Python (every exception here is of the ValueError family: ISO8601SyntaxError,
  BadInputError, the ValueError of an unpacking `split`) are `err`.  Proof-free.
-/
import IsoDT.Model.Text
import IsoDT.Model.DurTextQ

namespace IsoDT.Model.DurTextAlt
open IsoDT IsoDT.Model IsoDT.Text IsoDT.Gen
open IsoDT.Model.DurText (PR Fields)
open IsoDT.Model.DurTextQ (FR pyFloat roundPos)

/-- The parser `parse_timepoint_expression(..., allow_truncated=False, assumed_time_zone=(0, 0))`
    builds: `TimePointParser()` has `num_expanded_year_digits=2`, `allow_only_basic=False`. -/
def altCfg (m : Mode) : Cfg :=
  { pt := Gen.Templates.parser_2_all, allowTruncated := false, zone := .assumed 0 0, mode := m }

/-- `float("0." + digits)` (`_create_timepoint_from_info`: `value = "0." + value; float(value)`). -/
def decVal (ds : List Char) : Option Rat :=
  match pyFloat ('0' :: '.' :: ds) with
  | .val q => some q
  | _ => none

/-- `_bounds_checker(x_decimal, min_val=0, upper_val=1)`: a long run of nines rounds to 1.0 and is
    refused. -/
def decOk : Option (List Char) → Bool
  | none => true
  | some ds =>
    match decVal ds with
    | some q => decide (q < 1)
    | none => false

/-- `TimePoint.__init__(**info, is_duration=True)`. -/
def ctorDur (m : Mode) (a : Args) : Option XTP :=
  -- decimal units need their unit, exclude the lower units, and lie in [0, 1)
  if a.hourDec.isSome && (a.hour.isNone || a.minute.isSome || a.second.isSome) then none
  else if a.minuteDec.isSome && (a.minute.isNone || a.second.isSome) then none
  else if a.secondDec.isSome && a.second.isNone then none
  else if !(decOk a.hourDec && decOk a.minuteDec && decOk a.secondDec) then none
  else if !a.truncated && a.year.isNone then none
  else
    let hour := if !a.truncated && a.hour.isNone then some 0 else a.hour
    let minute := if !a.truncated && a.hourDec.isNone && a.minute.isNone then some 0 else a.minute
    let second :=
      if !a.truncated && a.hourDec.isNone && a.minuteDec.isNone && a.second.isNone then some 0
      else a.second
    let unknown := a.truncated && a.tzHour.isNone && a.tzMinute.isNone
    match mkTZ m (a.tzHour.getD 0) (a.tzMinute.getD 0) with
    | none => none
    | some tz =>
      let monthSpec := truthy a.month || truthy a.day
      let weekSpec := truthy a.week || truthy a.dow
      if monthSpec && weekSpec then none
      else if monthSpec && a.doy.isSome then none
      else if weekSpec && a.doy.isSome then none
      else
        -- `if not is_duration:` … the month / day / week defaults and `_check_bounds()` are skipped
        some {
          ned := a.ned, year := a.year, month := a.month, day := a.day, doy := a.doy, week := a.week,
          dow := a.dow, hour := hour, minute := minute, second := second, hourDec := a.hourDec,
          minuteDec := a.minuteDec, secondDec := a.secondDec, tz := tz, tzUnknown := unknown,
          truncated := a.truncated, truncProp := a.truncProp, dumpFmt := a.dumpFmt }

/-- `TimePointParser(...).parse(text, is_duration=True)`. -/
def parseAltTP (m : Mode) (s : List Char) : Option XTP :=
  match getInfo (altCfg m) s with
  | none => none
  | some info =>
    match assemble (altCfg m) info none with
    | none => none
    | some a => ctorDur m a

/-- Result of the fallback: a duration with whole components, a duration with a decimal hour /
    minute / second, or an exception (ValueError family). -/
inductive AltR where
  | ok (d : Dur)
  | okDec (d : DurationQ)
  | err
  deriving DecidableEq, Repr, Inhabited

/-- `self._unit += unit_decimal`: the whole unit plus `float("0." + digits)`, rounded once. -/
def addDec (v : Int) : Option (List Char) → Option Rat
  | none => some (v : Rat)
  | some ds =>
    match decVal ds with
    | none => none
    | some q =>
      match roundPos ((v : Rat) + q) with
      | .val r => some r
      | _ => none

/-- The `result_map` built from the time point, and `Duration(**result_map)`. -/
def durOf (m : Mode) (p : XTP) : AltR :=
  -- if timepoint.get_is_week_date(): raise ISO8601SyntaxError
  if p.week.isSome then .err
  else
    match p.year, p.hour with
    | some y, some h =>
      -- if get_is_calendar_date(): months = _month_of_year; days = _day_of_month   (None -> 0)
      let mo : Int := p.month.getD 0
      let d0 : Int := if p.month.isSome then p.day.getD 0 else 0
      -- if get_is_ordinal_date(): days = _day_of_year
      let d : Int := match p.doy with
        | some n => n
        | none => d0
      if p.hourDec.isNone && p.minuteDec.isNone && p.secondDec.isNone then
        .ok (mkDur m y mo 0 d h (p.minute.getD 0) (p.second.getD 0))
      else
        match addDec h p.hourDec, addDec (p.minute.getD 0) p.minuteDec, addDec (p.second.getD 0) p.secondDec with
        | some hq, some miq, some sq => .okDec (DurationQ.mk m y mo 0 d hq miq sq)
        | _, _, _ => .err
    -- a truncated point (no year / no hour) cannot arise: `allow_truncated=False`
    | _, _ => .err

/-- `except ISO8601SyntaxError: raise …` / the duration of the time point. -/
def altOfTP (m : Mode) : Option XTP → AltR
  | none => .err
  | some p => durOf m p

/-- The date-time-like fallback on `expression[1:]`. -/
def parseAltDur (m : Mode) (rest : List Char) : AltR := altOfTP m (parseAltTP m rest)

/-! ### `DurationParser.parse` -/

/-- Result of `parse`: a duration (whole components), a duration with a decimal component out of the
    alternative spelling, an exception of the ValueError family, or outside this model (non-ASCII
    input; a designator form with a decimal or otherwise non-digit float text — `DurTextQ.parseQ`
    follows those). -/
inductive AR where
  | ok (d : Dur)
  | okDec (d : DurationQ)
  | err
  | outside
  deriving DecidableEq, Repr, Inhabited

def AltR.toAR : AltR → AR
  | .ok d => .ok d
  | .okDec d => .okDec d
  | .err => .err

/-- The outcomes of `DurText.parse` in this result type, the two kinds of error lumped. -/
def AR.ofPR : PR → AR
  | .ok d => .ok d
  | .outside => .outside
  | _ => .err

/-- `parse` after the sign has been split off: the three designator regexes (as `DurText.parseBody`
    evaluates them), else the fallback — only for a text that starts with `P` and had no leading `-`. -/
def parseBodyA (m : Mode) (sg : Int) (e : List Char) : AR :=
  match DurText.firstMatch durRegexes e with
  | some (gs, cp) =>
    match DurText.convert sg cp gs Fields.zero with
    | .ok f => .ok (f.toDur m)
    | .error r => AR.ofPR r
  | none =>
    match e with
    | 'P' :: rest => if sg = 1 then (parseAltDur m rest).toAR else .err
    | _ => .err

/-- `DurationParser.parse(expression)`. -/
def parseA (m : Mode) (s : List Char) : AR :=
  if s.any (fun c => 128 ≤ c.toNat) then .outside
  else
    match s with
    | '-' :: e => parseBodyA m (-1) e
    | _ => parseBodyA m 1 s

end IsoDT.Model.DurTextAlt
