/-
  IsoDT.Model.ConstructTrunc — `TimePoint.__init__` for TRUNCATED points (`truncated=True`) with integral
  keyword arguments: `TimeZone(...)`, the conflict rules, NO defaults, `_check_bounds` with the upper
  limits it picks when a (short) year is or is not present, and what the object keeps
  (`get_truncated_properties()`).  `none` = `BadInputError` (a `ValueError`).

  What the Python does (data.py, `TimePoint.__init__`, `_check_bounds`, `get_truncated_properties`):
  * `truncated_property` only has to be one of the two names; `year` is stored as it is (`_year`), it is
    never checked against 0..99 / 0..9 and it is kept even without a `truncated_property`;
  * nothing is defaulted (hour, minute, second, month, day, week stay `None`); the zone is "unknown"
    exactly when neither zone argument is given, otherwise it is `TimeZone(hours, minutes)`;
  * the three conflict rules of the non-truncated constructor apply unchanged (Python truthiness:
    `None` and `0` do not "specify" a month or week group);
  * `_check_bounds` uses `self._year` AS THE YEAR when it is present (month length, year length, weeks of
    that very year - year_of_century=1 means the year 1), and the leap-year month table,
    `DAYS_IN_YEAR_LEAP`, `MAX_WEEKS_IN_YEAR` when it is absent; `MAX_DAYS_IN_MONTH` when no month is given;
  * `get_truncated_properties()` reports `_year % 10` / `_year % 100` under the `truncated_property`'s
    name (a `TypeError` when the property is named but no year was given), then every stored field.
-/
import IsoDT.Model.Construct

namespace IsoDT.Model
open IsoDT
open IsoDT.Spec (TZ)

/-- The `truncated_property` keyword: absent, `"year_of_century"` or `"year_of_decade"`. -/
inductive TruncProp where
  | none | yearOfCentury | yearOfDecade
  deriving DecidableEq, Repr, Inhabited

/-- Keyword arguments of `TimePoint(truncated=True, ...)` (each may be omitted). -/
structure TruncArgs where
  tprop : TruncProp
  year : Option Int
  month : Option Int
  dom : Option Int
  doy : Option Int
  week : Option Int
  dow : Option Int
  hh : Option Int
  mi : Option Int
  ss : Option Int
  tzh : Option Int
  tzm : Option Int
  deriving DecidableEq, Repr, Inhabited

/-- The slots the truncated object ends up with.  `tzUnknown` is `_time_zone.unknown`; `tz` the
    hours/minutes of `_time_zone` (0, 0 when unknown). -/
structure TruncFields where
  tprop : TruncProp
  year : Option Int
  month : Option Int
  dom : Option Int
  doy : Option Int
  week : Option Int
  dow : Option Int
  hh : Option Int
  mi : Option Int
  ss : Option Int
  tzUnknown : Bool
  tz : TZ
  deriving DecidableEq, Repr, Inhabited

/-- `_bounds_checker(value, name, min_val, upper_val=hi)` (exclusive upper limit): `None` passes. -/
def inRangeUpper (v : Option Int) (lo hi : Int) : Bool :=
  match v with
  | none => true
  | some x => decide (lo ≤ x ∧ x < hi)

/-- The upper limit `_check_bounds` uses for `day_of_month`. -/
def truncMaxDom (m : Mode) (year month : Option Int) : Int :=
  match month with
  | some mo =>
    match year with
    | some y => daysInMonth m y mo              -- get_days_in_month(month, self._year)
    | none => daysInMonthB m true mo            -- get_days_in_month(month, year="leap")
  | none => (calOf m).maxDaysInMonth

/-- The upper limit `_check_bounds` uses for `week_of_year`. -/
def truncMaxWeek (m : Mode) (year : Option Int) : Int :=
  match year with
  | some y => weeksInYear m y
  | none => (calOf m).maxWeeksInYear

/-- The upper limit `_check_bounds` uses for `day_of_year`. -/
def truncMaxDoy (m : Mode) (year : Option Int) : Int :=
  match year with
  | some y => daysInYear m y
  | none => (calOf m).daysInYearLeap

/-- `TimePoint._check_bounds` on a truncated point (every field may be `None`). -/
def truncBoundsOk (m : Mode) (year month dom doy week dow hh mi ss : Option Int) : Bool :=
  inRange month 1 (calOf m).monthsInYear &&
  inRange dom 1 (truncMaxDom m year month) &&
  inRange week 1 (truncMaxWeek m year) &&
  inRange doy 1 (truncMaxDoy m year) &&
  inRange dow 1 (calOf m).daysInWeek &&
  inRange hh 0 (calOf m).hoursInDay &&
  (if hh = some (calOf m).hoursInDay then inRange mi 0 0 && inRange ss 0 0
   else inRangeUpper mi 0 (calOf m).minutesInHour && inRangeUpper ss 0 (calOf m).secondsInMinute)

/-- `TimePoint(truncated=True, **args)` with integral arguments. -/
def mkTruncTP (m : Mode) (a : TruncArgs) : Option TruncFields :=
  match mkTZOpt m a.tzh a.tzm with
  | none => none
  | some tz =>
    let monthSpec := truthy a.month || truthy a.dom
    let weekSpec := truthy a.week || truthy a.dow
    if (monthSpec && weekSpec) || (monthSpec && a.doy.isSome) || (weekSpec && a.doy.isSome) then none
    else if truncBoundsOk m a.year a.month a.dom a.doy a.week a.dow a.hh a.mi a.ss then
      some { tprop := a.tprop, year := a.year, month := a.month, dom := a.dom, doy := a.doy,
             week := a.week, dow := a.dow, hh := a.hh, mi := a.mi, ss := a.ss,
             tzUnknown := a.tzh.isNone && a.tzm.isNone, tz := tz }
    else none

/-- The keys of the dict `get_truncated_properties` returns. -/
inductive TruncKey where
  | yearOfDecade | yearOfCentury | monthOfYear | weekOfYear | dayOfYear | dayOfMonth | dayOfWeek
  | hourOfDay | minuteOfHour | secondOfMinute
  deriving DecidableEq, Repr, Inhabited

def truncEntry (k : TruncKey) (v : Option Int) : List (TruncKey × Int) :=
  match v with
  | some x => [(k, x)]
  | none => []

/-- The short year `get_truncated_properties` reports (Python `%`: non-negative for these divisors).
    `some []` = nothing reported; `none` = the method raises `TypeError` (`None % 10`). -/
def truncYearEntry (f : TruncFields) : Option (List (TruncKey × Int)) :=
  match f.tprop, f.year with
  | .none, _ => some []
  | .yearOfDecade, some y => some [(.yearOfDecade, y % 10)]
  | .yearOfCentury, some y => some [(.yearOfCentury, y % 100)]
  | _, none => none

/-- `get_truncated_properties()` as the list of the dict's items in insertion order; `none` = the method
    raises (`truncated_property` named, no year). -/
def truncProps (f : TruncFields) : Option (List (TruncKey × Int)) :=
  (truncYearEntry f).map fun ye =>
    ye ++ truncEntry .monthOfYear f.month ++ truncEntry .weekOfYear f.week ++ truncEntry .dayOfYear f.doy ++
      truncEntry .dayOfMonth f.dom ++ truncEntry .dayOfWeek f.dow ++ truncEntry .hourOfDay f.hh ++
      truncEntry .minuteOfHour f.mi ++ truncEntry .secondOfMinute f.ss

end IsoDT.Model
