/-
  IsoDT.Model.Recurrence — executable model of `TimeRecurrence` (data.py): the constructor's
  three notations, bounds, neighbours, iteration, membership, `get_first_after`, shifting,
  equality and hashing.  `min_point`/`max_point` are not modelled (always `None` here).
  Iteration is unbounded for `R/…` recurrences, so the iterating functions take a fuel argument
  (the driver passes how many points it wants; the theorems say how much fuel suffices).
-/
import IsoDT.Model.Duration

namespace IsoDT.Model
open IsoDT
open IsoDT.Spec (Date TZ TP)

structure Rec where
  reps : Option Int
  start : Option TP
  dur : Option Dur
  end_ : Option TP
  second : Option TP
  fmt : Nat
  deriving DecidableEq, Repr, Inhabited

/-- `a < b`, `a == b`, `a > b` on points through `_cmp` (`false` if the comparison fails). -/
def tpLt (m : Mode) (a b : TP) : Bool := cmp m a b == some (-1)
def tpEq (m : Mode) (a b : TP) : Bool := cmp m a b == some 0
def tpGt (m : Mode) (a b : TP) : Bool := cmp m a b == some 1
def tpLe (m : Mode) (a b : TP) : Bool := tpLt m a b || tpEq m a b

/-- `self._duration == Duration(years=0)`. -/
def isZeroDur (m : Mode) (d : Dur) : Bool := Dur.eq m d Dur.zero

/-- `TimeRecurrence.__init__` (`none` = `BadInputError`, or a failing point operation). -/
def mkRec (m : Mode) (reps : Option Int) (start : Option TP) (dur : Option Dur) (end_ : Option TP) :
    Option Rec :=
  if (match reps with | some n => decide (n ≤ 0) | none => false) then none
  else if (match dur with | some d => Dur.lt m d Dur.zero | none => false) then none
  else
    match dur with
    | none =>
      if reps = some 1 then some ⟨reps, start, none, start, start, 1⟩
      else
        match start, end_ with
        | some s, some e =>
          if tpEq m s e then some ⟨some 1, start, none, end_, end_, 1⟩
          else if tpLt m e s then none
          else
            match subTP m e s with
            | none => none
            | some d =>
              match reps with
              | none => some ⟨none, start, some d, none, end_, 1⟩
              | some n =>
                (addDur m s (d.mul (n - 1))).map fun e' => ⟨reps, start, some d, some e', end_, 1⟩
        | _, _ => none
    | some d =>
      match start, end_ with
      | some s, none =>
        if reps = some 1 ∨ isZeroDur m d then some ⟨some 1, start, none, start, none, 3⟩
        else
          match reps with
          | none => some ⟨none, start, dur, none, none, 3⟩
          | some n => (addDur m s (d.mul (n - 1))).map fun e' => ⟨reps, start, dur, some e', none, 3⟩
      | none, some e =>
        if reps = some 1 ∨ isZeroDur m d then some ⟨some 1, end_, none, end_, none, 4⟩
        else
          match reps with
          | none => some ⟨none, none, dur, end_, none, 4⟩
          | some n =>
            (subDur m e (d.mul (n - 1))).map fun s' => ⟨reps, some s', dur, end_, none, 4⟩
      | _, _ => none

/-- `_get_is_in_bounds`. -/
def inBounds (m : Mode) (r : Rec) (p : TP) : Bool :=
  (match r.start with | some s => !tpLt m p s | none => true) &&
  (match r.end_ with | some e => !tpGt m p e | none => true)

/-- `get_next`. -/
def getNext (m : Mode) (r : Rec) (p : TP) : Option TP :=
  if r.reps = some 1 then none
  else
    match r.dur with
    | none => none
    | some d =>
      match addDur m p d with
      | some q => if inBounds m r q then some q else none
      | none => none

/-- `get_prev`. -/
def getPrev (m : Mode) (r : Rec) (p : TP) : Option TP :=
  if r.reps = some 1 then none
  else
    match r.dur with
    | none => none
    | some d =>
      match subDur m p d with
      | some q => if inBounds m r q then some q else none
      | none => none

/-- The `while point is not None` loop of `__iter__`, at most `fuel` points. -/
def iterFrom (m : Mode) (r : Rec) (rev : Bool) : Nat → TP → List TP
  | 0, _ => []
  | fuel + 1, p =>
    if inBounds m r p then
      p :: (match (if rev then getPrev m r p else getNext m r p) with
            | some q => iterFrom m r rev fuel q
            | none => [])
    else []

/-- `__iter__`: the first `fuel` points. -/
def iter (m : Mode) (r : Rec) (fuel : Nat) : List TP :=
  let rev := r.start.isNone
  match (if rev then r.end_ else r.start) with
  | none => []
  | some p =>
    if r.reps == some 1 || (match r.dur with | none => true | some d => !d.nonzero) then
      (if fuel = 0 then [] else if inBounds m r p then [p] else [])
    else iterFrom m r rev fuel p

/-- `__getitem__`. -/
def getItem (m : Mode) (r : Rec) (i : Nat) : Option TP := (iter m r (i + 1))[i]?

/-- The scan of `get_is_valid` over (at most `fuel`) iterated points, with its two early exits. -/
def scanValid (m : Mode) (r : Rec) (p : TP) : List TP → Bool
  | [] => false
  | q :: rest =>
    if tpEq m q p then true
    else if r.start.isNone && tpLt m q p then false
    else if r.end_.isNone && tpGt m q p then false
    else scanValid m r p rest

/-- `get_is_valid`. -/
def getIsValid (m : Mode) (r : Rec) (p : TP) (fuel : Nat) : Bool :=
  if !inBounds m r p then false else scanValid m r p (iter m r fuel)

/-- The iteration branch of `get_first_after`: `while current is not None and current <= p`. -/
def firstAfterLoop (m : Mode) (r : Rec) (p : TP) : Nat → Option TP → Option TP
  | 0, c => c
  | _ + 1, none => none
  | fuel + 1, some c => if tpLe m c p then firstAfterLoop m r p fuel (getNext m r c) else some c

/-- `get_first_after` (recurrences that have a start point; whole-second probes). -/
def getFirstAfter (m : Mode) (r : Rec) (p : TP) (fuel : Nat) : Option TP :=
  match r.start with
  | none => none
  | some s =>
    if inBounds m r p then
      match r.dur with
      | some d =>
        if d.isExact then
          match subTP m p s with
          | some diff =>
            if d.seconds m = 0 then none
            else
              let since := Int.fmod (diff.seconds m) (d.seconds m)
              match addDur m p (Dur.sub m d (.units 0 0 0 0 0 since)) with
              | some q => if inBounds m r q then some q else none
              | none => none
          | none => none
        else firstAfterLoop m r p fuel r.start
      | none => firstAfterLoop m r p fuel r.start
    else if tpLt m p s then some s
    else none

/-- `TimeRecurrence.__add__(Duration)`. -/
def Rec.shift (m : Mode) (r : Rec) (d : Dur) : Option Rec :=
  match r.fmt with
  | 1 =>
    match r.start, r.second with
    | some s, some e => (addDur m s d).bind fun s' => (addDur m e d).bind fun e' =>
        mkRec m r.reps (some s') none (some e')
    | _, _ => none
  | 3 =>
    match r.start with
    | some s => (addDur m s d).bind fun s' => mkRec m r.reps (some s') (some (r.dur.getD Dur.zero)) none
    | none => none
  | 4 =>
    match r.end_ with
    | some e => (addDur m e d).bind fun e' => mkRec m r.reps none (some (r.dur.getD Dur.zero)) (some e')
    | none => none
  | _ => none

/-- `!=` on optional points / durations as `TimeRecurrence.__eq__` uses it. -/
def optTpEq (m : Mode) : Option TP → Option TP → Bool
  | none, none => true
  | some a, some b => tpEq m a b
  | _, _ => false
def optDurEq (m : Mode) : Option Dur → Option Dur → Bool
  | none, none => true
  | some a, some b => Dur.eq m a b
  | _, _ => false

/-- `TimeRecurrence.__eq__`. -/
def Rec.eq (m : Mode) (a b : Rec) : Bool :=
  a.reps == b.reps && optTpEq m a.start b.start && optTpEq m a.end_ b.end_ && optDurEq m a.dur b.dur

/-- What `TimeRecurrence.__hash__` hashes (hash keys of the components). -/
def Rec.hashKey (m : Mode) (r : Rec) :
    Option Int × Option (Option (List Int)) × Option (Option (List Int)) × Option (Int × Int × Int) :=
  (r.reps, r.start.map (Model.hashKey m), r.end_.map (Model.hashKey m), r.dur.map (Dur.hashKey m))

end IsoDT.Model
