/-
  IsoDT.Model.Strftime — executable model of `TimePoint.strftime` (= `TimePointDumper.strftime`,
  dumpers.py) and `TimePointParser.strptime` (parsers.py) over the translation tables regenerated
  from parser_spec.py into `Gen.Strftime`.

  strftime:  `REC_SPLIT_STRFTIME_DIRECTIVE.split` (`scan`), `translate_strftime_token` per directive
  (`translate`), the week-date -> calendar-date conversion (`forDump`), the property getters
  (`dumpCtx`, `fldVal`), the year bounds check that goes with the `century` property, and the final
  `expression % property_map` (`renderPieces`: printf-style zero padded decimals).

  strptime:  the same scan and table, the regex assembled from the capture patterns (`matchPieces`:
  every pattern but the Unix-time one has a fixed width, so an anchored match has exactly one way to
  split the text), the refusal of a format that names a regex group twice (`hasDup`: `re.compile`
  fails), the `%s` translator through `fromUnix` in the *local* zone, the partition into date / time /
  zone information with `process_time_zone_info`, and the `TimePoint` constructor with its defaults
  and bounds (`mkPoint`).

  Equivalent-program liberties (all checked by the correspondence on valid points): the property
  getters are evaluated once, eagerly (`dumpCtx`), where the Python evaluates only those the format
  names; the Python exceptions are an error enum.  Outside the modelled domain: a literal `%` that is
  not followed by a word character in a *dump* format (Python's `%` operator then interprets it; the
  model answers `Err.percent`), non-ASCII word characters after `%`, data strings with a trailing
  newline (`$` matches before it), Unix-time texts with a fractional part other than zeros.
-/
import IsoDT.Model.LocalTZ
import IsoDT.Gen.Strftime

namespace IsoDT.Model.Strf
open IsoDT IsoDT.Model
open IsoDT.Spec (Date TZ TP)
open IsoDT.Gen.Strftime (Fld Fmt Pat Cls Piece fmtOf patOf clsOf)

/-- The library's exceptions (all derive from `ValueError`), plus two markers of the model. -/
inductive Err where
  | syntax      -- StrftimeSyntaxError: a `%`-letter outside the table
  | bounds      -- TimePointDumperBoundsError: year outside 0..9999 with a year directive
  | conversion  -- StrptimeConversionError: regex does not compile / text does not match
  | badInput    -- BadInputError from the TimePoint / TimeZone constructors
  | value       -- a bare ValueError (`float("12,5")`)
  | percent     -- outside the modelled domain: literal `%` in a dump format
  | internal    -- a getter or conversion failed (never happens on valid points: `Props/C17`)
  deriving DecidableEq, Repr

def Err.name : Err → String
  | .syntax => "syntax" | .bounds => "bounds" | .conversion => "conv" | .badInput => "bad"
  | .value => "value" | .percent => "percent" | .internal => "internal"

/-! ### splitting the format: `re.compile(r"(%\w)").split` -/

inductive Item where
  | ch (c : Char)
  | dir (c : Char)
  deriving DecidableEq, Repr

/-- `\w` on ASCII. -/
def isWord (c : Char) : Bool := c.isAlphanum || c == '_'

/-- Left-to-right, non-overlapping occurrences of `%` + word character are directives; every
    other character is literal text. -/
def scan : List Char → List Item
  | [] => []
  | [c] => [.ch c]
  | c :: d :: rest =>
    if c = '%' ∧ isWord d = true then .dir d :: scan rest else .ch c :: scan (d :: rest)

/-- `STRFTIME_TRANSLATE_INFO.get("%" + c)`. -/
def lookupDir (c : Char) : Option (List Piece) :=
  match Gen.Strftime.table.find? (fun e => e.1 == c) with
  | some e => some e.2
  | none => none

/-- `translate_strftime_token` / `translate_strptime_token` over the whole split format: the
    sequence of properties and literal characters, or `StrftimeSyntaxError`. -/
def translate : List Item → Except Err (List Piece)
  | [] => .ok []
  | .ch c :: rest =>
    match translate rest with
    | .ok ps => .ok (.lit c :: ps)
    | .error e => .error e
  | .dir c :: rest =>
    match lookupDir c with
    | none => .error .syntax
    | some ds =>
      match translate rest with
      | .ok ps => .ok (ds ++ ps)
      | .error e => .error e

/-! ### decimal text -/

def dch (d : Nat) : Char := Char.ofNat (48 + d)

/-- `str(n)` for a natural number. -/
def showNat (n : Nat) : List Char :=
  if n < 10 then [dch n] else showNat (n / 10) ++ [dch (n % 10)]
decreasing_by omega

/-- `str(z)`. -/
def showInt (z : Int) : List Char :=
  if z < 0 then '-' :: showNat z.natAbs else showNat z.toNat

/-- `"%0wd" % z`: the sign counts towards the width. -/
def zpad (w : Nat) (z : Int) : List Char :=
  if z < 0 then '-' :: (List.replicate (w - 1 - (showNat z.natAbs).length) '0' ++ showNat z.natAbs)
  else List.replicate (w - (showNat z.toNat).length) '0' ++ showNat z.toNat

/-! ### strftime -/

def dateYear : Date → Int
  | .cal y _ _ => y
  | .ord y _ => y
  | .week y _ _ => y

/-- `if not timepoint.truncated and timepoint.get_is_week_date(): timepoint.to_calendar_date()`. -/
def forDump (m : Mode) (p : TP) : Option TP :=
  if p.date.rep = 2 then (convert m 0 p.date).map fun dt => { p with date := dt } else some p

/-- What the property getters of the (converted) point return. -/
structure DumpCtx where
  year : Int
  month : Int
  day : Int
  yday : Int
  hh : Int
  mi : Int
  ss : Int
  tz : TZ
  unix : Int
  deriving Repr, DecidableEq

def dumpCtx (m : Mode) (p : TP) : Option DumpCtx :=
  match convert m 0 p.date, convert m 1 p.date, secondsSinceUnixEpoch m p with
  | some (.cal _ mo d), some (.ord _ n), some u =>
    some ⟨dateYear p.date, mo, d, n, p.hh, p.mi, p.ss, p.tz, u⟩
  | _, _, _ => none

inductive Val where
  | int (n : Int)
  | text (s : List Char)

def absI (y : Int) : Int := if y < 0 then -y else y

/-- `getattr(timepoint, property_)`. -/
def fldVal (c : DumpCtx) : Fld → Val
  | .century => .int (absI c.year % 10000 / 100)
  | .yearOfCentury => .int (absI c.year % 100)
  | .monthOfYear => .int c.month
  | .dayOfMonth => .int c.day
  | .dayOfYear => .int c.yday
  | .hourOfDay => .int c.hh
  | .minuteOfHour => .int c.mi
  | .secondOfMinute => .int c.ss
  | .tzSign => .text [if tzSign c.tz < 0 then '-' else '+']
  | .tzHourAbs => .int (tzHourAbs c.tz)
  | .tzMinuteAbs => .int (tzMinuteAbs c.tz)
  | .unix => .text (showInt c.unix)

/-- One `%(name)…` conversion of the final `expression % property_map`.  (`%0Nd` of a string is a
    `TypeError` in Python; it cannot arise from the table: `Props/C17`.) -/
def fmtVal : Fmt → Val → List Char
  | .zeroPad w, .int n => zpad w n
  | .zeroPad _, .text s => s
  | .str, .int n => showInt n
  | .str, .text s => s

def renderPiece (c : DumpCtx) : Piece → List Char
  | .lit ch => [ch]
  | .fld f => fmtVal (fmtOf f) (fldVal c f)

def renderPieces (c : DumpCtx) (ps : List Piece) : List Char := ps.flatMap (renderPiece c)

/-- `TimePoint.strftime(fmt)`. -/
def strftime (m : Mode) (p : TP) (fmt : List Char) : Except Err (List Char) :=
  match translate (scan fmt) with
  | .error e => .error e
  | .ok pieces =>
    match (forDump m p).bind (dumpCtx m) with
    | none => .error .internal
    | some c =>
      if pieces.contains (.fld .century) ∧ ¬ (0 ≤ c.year ∧ c.year ≤ 9999) then .error .bounds
      else if pieces.contains (.lit '%') then .error .percent
      else .ok (renderPieces c pieces)

/-! ### strptime -/

def isDigitC (c : Char) : Bool := 48 ≤ c.toNat && c.toNat ≤ 57

/-- `int(text)` for a text of digits. -/
def parseNat (s : List Char) : Nat := s.foldl (fun acc c => 10 * acc + (c.toNat - 48)) 0

/-- Full match of `-?[0-9]+[,.]?[0-9]*`. -/
def unixSyntax (s : List Char) : Bool :=
  let body := match s with
    | '-' :: r => r
    | r => r
  !(body.takeWhile isDigitC).isEmpty &&
    (match body.dropWhile isDigitC with
     | [] => true
     | c :: r => (c == ',' || c == '.') && r.all isDigitC)

/-- `float(value)` of a text matching `unixSyntax`, as a whole number of seconds: a comma is not a
    decimal point for `float` (`ValueError`); a fractional part other than zeros ends in
    `BadInputError` ("Non-integer like number for second_of_minute"). -/
def parseUnix (s : List Char) : Except Err Int :=
  let neg := match s with
    | '-' :: _ => true
    | _ => false
  let body := match s with
    | '-' :: r => r
    | r => r
  let n : Int := parseNat (body.takeWhile isDigitC)
  let v : Int := if neg then -n else n
  match body.dropWhile isDigitC with
  | [] => .ok v
  | c :: r => if c == ',' then .error .value else if r.all (· == '0') then .ok v else .error .badInput

/-- Width of the text a piece matches (every pattern but the Unix-time one is fixed-width). -/
def pieceWidth : Piece → Nat
  | .lit _ => 1
  | .fld f =>
    match patOf f with
    | .digits n => n
    | .signPM => 1
    | .unixNum => 0

/-- Anchored match of the assembled regex; the captured groups in order of appearance. -/
def matchPieces : List Piece → List Char → Option (List (Fld × List Char))
  | [], [] => some []
  | [], _ :: _ => none
  | .lit c :: ps, ds =>
    match ds with
    | d :: ds' => if c = d then matchPieces ps ds' else none
    | [] => none
  | .fld f :: ps, ds =>
    match patOf f with
    | .digits n =>
      if n ≤ ds.length ∧ (ds.take n).all isDigitC then
        (matchPieces ps (ds.drop n)).map fun b => (f, ds.take n) :: b
      else none
    | .signPM =>
      match ds with
      | d :: ds' => if d = '+' ∨ d = '-' then (matchPieces ps ds').map fun b => (f, [d]) :: b else none
      | [] => none
    | .unixNum =>
      let need := (ps.map pieceWidth).sum
      if need ≤ ds.length ∧ unixSyntax (ds.take (ds.length - need)) then
        (matchPieces ps (ds.drop (ds.length - need))).map fun b => (f, ds.take (ds.length - need)) :: b
      else none

def fldsOf : List Piece → List Fld
  | [] => []
  | .fld f :: ps => f :: fldsOf ps
  | .lit _ :: ps => fldsOf ps

/-- A regex naming a group twice does not compile. -/
def hasDup : List Fld → Bool
  | [] => false
  | f :: fs => fs.contains f || hasDup fs

/-- Parser configuration: `assumed_time_zone`, `default_to_unknown_time_zone`. -/
structure PCfg where
  assumed : Option TZ
  defaultUnknown : Bool
  deriving Repr, DecidableEq

/-- `process_time_zone_info` on an empty dict; `loc` is `timezone.get_local_time_zone()`. -/
def PCfg.defaultZone (cfg : PCfg) (loc : TZ) : TZ :=
  match cfg.assumed with
  | some z => z
  | none => if cfg.defaultUnknown then ⟨0, 0⟩ else loc

def dateOk (m : Mode) : Date → Bool
  | .cal y mo d => decide (1 ≤ mo ∧ mo ≤ (calOf m).monthsInYear ∧ 1 ≤ d ∧ d ≤ daysInMonth m y mo)
  | .ord y n => decide (1 ≤ n ∧ n ≤ daysInYear m y)
  | .week _ _ _ => false

def timeOk (m : Mode) (hh mi ss : Int) : Bool :=
  decide (0 ≤ hh ∧ hh ≤ (calOf m).hoursInDay ∧ 0 ≤ mi ∧ 0 ≤ ss) &&
    (if hh = (calOf m).hoursInDay then decide (mi = 0 ∧ ss = 0)
     else decide (mi < (calOf m).minutesInHour ∧ ss < (calOf m).secondsInMinute))

/-- An ordinal date if a day of the year is given, else a calendar date with month and day
    defaulting to 1. -/
def pickDate (year : Int) (mo d doy : Option Int) : Date :=
  match doy with
  | some n => .ord year n
  | none => .cal year (mo.getD 1) (d.getD 1)

/-- The `TimePoint(...)` call at the end of `_create_timepoint_from_info`: defaults for what is
    absent, the month/day-of-year conflict, `TimeZone(...)`, `_check_bounds`. -/
def mkPoint (m : Mode) (year : Int) (mo d doy hh mi ss : Option Int) (tzh tzm : Int) : Except Err TP :=
  match mkTZ m tzh tzm with
  | none => .error .badInput
  | some tz =>
    if (mo.getD 0 ≠ 0 ∨ d.getD 0 ≠ 0) ∧ doy.isSome then .error .badInput
    else if doy.isSome ∧ (mo.isSome ∨ d.isSome) then
      -- a month or day of 0 beside a day of the year is no conflict for the constructor, but
      -- `_check_bounds` still refuses it
      .error .badInput
    else
      if dateOk m (pickDate year mo d doy) && timeOk m (hh.getD 0) (mi.getD 0) (ss.getD 0) then
        .ok ⟨pickDate year mo d doy, hh.getD 0, mi.getD 0, ss.getD 0, tz⟩
      else .error .badInput

def numOf (b : List (Fld × List Char)) (f : Fld) : Option Int :=
  (b.lookup f).map fun s => (parseNat s : Int)

/-- `_parse_from_custom_regex` after the match: the `%s` translator, the date/time/zone partition,
    `process_time_zone_info`, `_create_timepoint_from_info`. -/
def assemble (m : Mode) (cfg : PCfg) (loc : TZ) (b : List (Fld × List Char)) : Except Err TP :=
  let neg := b.lookup .tzSign == some ['-']
  match b.lookup .unix with
  | some txt =>
    -- every date, time and zone keyword is overwritten by the local-zone point of that Unix time;
    -- only a captured sign survives and is applied to the overwritten offset
    match parseUnix txt with
    | .error e => .error e
    | .ok n =>
      match fromUnix m n (some loc) with
      | none => .error .internal
      | some q => .ok (if neg then { q with tz := ⟨-q.tz.h, -q.tz.mi⟩ } else q)
  | none =>
    let year := 100 * (numOf b .century).getD 0 + (numOf b .yearOfCentury).getD 0
    let hasZone := b.any fun e => clsOf e.1 == .zone
    let h := (numOf b .tzHourAbs).getD 0
    let mi := (numOf b .tzMinuteAbs).getD 0
    let z : TZ := if hasZone then (if neg then ⟨-h, -mi⟩ else ⟨h, mi⟩) else cfg.defaultZone loc
    mkPoint m year (numOf b .monthOfYear) (numOf b .dayOfMonth) (numOf b .dayOfYear)
      (numOf b .hourOfDay) (numOf b .minuteOfHour) (numOf b .secondOfMinute) z.h z.mi

/-- `TimePointParser(assumed_time_zone=…).strptime(data, fmt)`. -/
def strptime (m : Mode) (cfg : PCfg) (loc : TZ) (data fmt : List Char) : Except Err TP :=
  match translate (scan fmt) with
  | .error e => .error e
  | .ok pieces =>
    if hasDup (fldsOf pieces) then .error .conversion
    else
      match matchPieces pieces data with
      | none => .error .conversion
      | some b => assemble m cfg loc b

end IsoDT.Model.Strf
