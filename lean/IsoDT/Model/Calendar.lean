/-
  IsoDT.Model.Calendar — executable model of the calendar helpers of `metomi/isodatetime/data.py`
  (get_is_leap_year … iter_months_days), shaped like the code and reading its tables from the
  regenerated `Gen.Calendar`.

  Modelling rule (DESIGN §3.3): where behaviour depends on an unbounded quantity (a year
  distance) the model mirrors the code's loop (`firstMult`, `sumYears`); where the code walks the
  finite list produced by `iter_months_days` the model walks the indexed month table instead of
  the day list (same answer, exhaustively checked by the correspondence over every
  (mode, leap flag, month, day)).  Failures that the Python signals by `ValueError` (or by
  falling off a loop and returning `None`) are `none` here.
-/
import IsoDT.Spec.Calendar
import IsoDT.Gen.Calendar

namespace IsoDT.Model
open IsoDT

/-- What `CALENDAR` holds after `set_mode` with the mode's canonical spelling (`C15` shows the
    other spellings of a mode produce the same record). -/
def calOf (m : Mode) : Gen.CalRec := Gen.calOfMode m

/-- `get_is_leap_year`: the last matching factor decides. Independent of the mode. -/
def isLeapYear (y : Int) : Bool :=
  Gen.leapFactors.foldl (fun acc ft => if y % ft.1 == 0 then ft.2 else acc) false

/-- `get_days_in_year`. -/
def daysInYear (m : Mode) (y : Int) : Int :=
  if isLeapYear y then (calOf m).daysInYearLeap else (calOf m).daysInYear

/-- `CALENDAR.DAYS_IN_MONTHS_LEAP` / `CALENDAR.DAYS_IN_MONTHS`. -/
def table (m : Mode) (lp : Bool) : List Int :=
  if lp then (calOf m).daysInMonthsLeap else (calOf m).daysInMonths

/-- `CALENDAR.INDEXED_DAYS_IN_MONTHS_LEAP` / `CALENDAR.INDEXED_DAYS_IN_MONTHS`. -/
def indexed (m : Mode) (lp : Bool) : List (Int × Int) :=
  if lp then (calOf m).indexedLeap else (calOf m).indexed

/-- `get_days_in_month(month, year)` for `1 ≤ month ≤ 12`, with the leap flag already decided
    (`year == "leap"` gives `true`, `None` gives `false`). -/
def daysInMonthB (m : Mode) (lp : Bool) (mo : Int) : Int :=
  if 1 ≤ mo then (table m lp).getD (mo - 1).toNat 0 else 0

def daysInMonth (m : Mode) (y mo : Int) : Int := daysInMonthB m (isLeapYear y) mo

/-- The `rem`-th day (1-based) of a forward walk over an indexed month table. -/
def walkFwd : List (Int × Int) → Int → Option (Int × Int)
  | [], _ => none
  | (mn, len) :: rest, rem =>
    if rem ≤ len then (if 1 ≤ rem then some (mn, rem) else none) else walkFwd rest (rem - len)

/-- The `k`-th day (1-based) of a reverse walk; the argument list is already reversed. -/
def walkRev : List (Int × Int) → Int → Option (Int × Int)
  | [], _ => none
  | (mn, len) :: rest, k =>
    if k ≤ len then (if 1 ≤ k then some (mn, len - k + 1) else none) else walkRev rest (k - len)

/-- Position (1-based day of year) of `(mo, d)` in a forward walk, if it occurs there. -/
def posOf : List (Int × Int) → Int → Int → Option Int
  | [], _, _ => none
  | (mn, len) :: rest, mo, d =>
    if mn = mo then (if 1 ≤ d ∧ d ≤ len then some d else none)
    else (posOf rest mo d).map (· + len)

/-- `get_calendar_date_from_ordinal_date`. -/
def calFromOrd (m : Mode) (y doy : Int) : Option (Int × Int × Int) :=
  (walkFwd (indexed m (isLeapYear y)) doy).map (fun md => (y, md.1, md.2))

/-- `get_ordinal_date_from_calendar_date`. -/
def ordFromCal (m : Mode) (y mo d : Int) : Option (Int × Int) :=
  (posOf (indexed m (isLeapYear y)) mo d).map (fun n => (y, n))

/-- The `while factor_start_year % factor != 0 and factor_start_year < end_year` loop of
    `_get_days_in_year_range`. -/
def firstMult (k : Int) (r e : Int) : Int :=
  if r % k ≠ 0 ∧ r < e then firstMult k (r + 1) e else r
termination_by (e - r).toNat
decreasing_by omega

/-- `num_corrections` of `_get_days_in_year_range` for one factor. -/
def numCorr (k s e : Int) : Int :=
  let c0 := if s % k = 0 then 1 else 0
  let c1 := if e ≠ s ∧ e % k = 0 then 1 else 0
  let r := firstMult k (s + 1) e
  let c2 := if r < e then 1 + (e - (r + 1)) / k else 0
  c0 + c1 + c2

/-- `get_days_in_year_range` (inclusive range; 0 when `s > e`). -/
def daysInYearRange (m : Mode) (s e : Int) : Int :=
  if s = e then daysInYear m s
  else if s > e then 0
  else
    let c := calOf m
    let diff := c.daysInYearLeap - c.daysInYear
    Gen.leapFactors.foldl
      (fun days ft => if ft.2 then days + numCorr ft.1 s e * diff else days - numCorr ft.1 s e * diff)
      ((e + 1 - s) * c.daysInYear)

/-- `get_calendar_date_week_date_start`: calendar date of the Monday starting week-year `y`.
    `(y - 1, 0, 0)` stands for the Python falling off its last loop (never happens: `C03`). -/
def weekStartCal (m : Mode) (y : Int) : Int × Int × Int :=
  let refMo := Gen.weekRefCal.2.1
  let refD := Gen.weekRefCal.2.2
  let refY := Gen.weekRefOrd.1
  let refOrd := Gen.weekRefOrd.2
  let dw := (calOf m).daysInWeek
  if y = refY then (refY, refMo, refD)
  else
    let daysDiff :=
      if y > refY then 1 - refOrd + daysInYearRange m refY (y - 1)
      else refOrd - 2 + daysInYearRange m y (refY - 1)
    let wd := daysDiff % dw
    let dow := if y > refY then wd + 1 else dw - wd
    if dow = 1 then (y, 1, 1)
    else if dow > 4 then (y, 1, 1 + (8 - dow))
    else
      match walkRev (indexed m (isLeapYear (y - 1))).reverse (dow - 1) with
      | some (mo, d) => (y - 1, mo, d)
      | none => (y - 1, 0, 0)

/-- `get_ordinal_date_week_date_start`. `(cy, 0)` stands for the Python returning `None`. -/
def ordWeekStart (m : Mode) (y : Int) : Int × Int :=
  let s := weekStartCal m y
  match posOf (indexed m (isLeapYear s.1)) s.2.1 s.2.2 with
  | some n => (s.1, n)
  | none => (s.1, 0)

/-- `sum(get_days_in_year(i) for i in range(a, b))`. -/
def sumYears (m : Mode) (a b : Int) : Int :=
  if a < b then daysInYear m a + sumYears m (a + 1) b else 0
termination_by (b - a).toNat
decreasing_by omega

/-- `get_weeks_in_year`. -/
def weeksInYear (m : Mode) (y : Int) : Int :=
  let s := ordWeekStart m y
  let n := ordWeekStart m (y + 1)
  (n.2 - s.2 + sumYears m s.1 n.1) / (calOf m).daysInWeek

/-- `get_calendar_date_from_week_date`. -/
def calFromWeek (m : Mode) (y w d : Int) : Option (Int × Int × Int) :=
  let n := (w - 1) * (calOf m).daysInWeek + d - 1
  let s := weekStartCal m y
  if n = 0 then some s
  else if n < 0 then none
  else
    match posOf (indexed m (isLeapYear s.1)) s.2.1 s.2.2 with
    | none => none
    | some so =>
      let t := so + n
      if t ≤ daysInYear m s.1 then calFromOrd m s.1 t
      else
        let t1 := t - daysInYear m s.1
        if s.1 < y then
          if t1 ≤ daysInYear m y then calFromOrd m y t1
          else calFromOrd m (y + 1) (t1 - daysInYear m y)
        else calFromOrd m (y + 1) t1

/-- Python tuple comparison on `(year, month, day)`. -/
def lexLt (a b : Int × Int × Int) : Bool :=
  a.1 < b.1 || (a.1 == b.1 && (a.2.1 < b.2.1 || (a.2.1 == b.2.1 && a.2.2 < b.2.2)))
def lexLe (a b : Int × Int × Int) : Bool := !(lexLt b a)

/-- Days from the ordinal day `so` of year `sy` to the ordinal day `od` of year `y`, as counted by
    the three loops of `get_week_date_from_calendar_date` (start year, then the two following). -/
def daysFromStart (m : Mode) (y od sy so : Int) : Option Int :=
  if sy = y then some (od - so)
  else if sy + 1 = y then some (daysInYear m sy - so + od)
  else if sy + 2 = y then some (daysInYear m sy - so + daysInYear m (sy + 1) + od)
  else none

/-- The counting part of `get_week_date_from_calendar_date`, from week-year start `s` of
    week-year `wy`. -/
def weekFromCalAt (m : Mode) (y mo d : Int) (s : Int × Int × Int) (wy : Int) : Option (Int × Int × Int) :=
  match posOf (indexed m (isLeapYear y)) mo d, posOf (indexed m (isLeapYear s.1)) s.2.1 s.2.2 with
  | some od, some so =>
    match daysFromStart m y od s.1 so with
    | some t =>
      if t < 0 then none
      else some (wy, t / (calOf m).daysInWeek + 1, t % (calOf m).daysInWeek + 1)
    | none => none
  | _, _ => none

/-- `get_week_date_from_calendar_date`. -/
def weekFromCal (m : Mode) (y mo d : Int) : Option (Int × Int × Int) :=
  let prev := weekStartCal m (y - 1)
  let this := weekStartCal m y
  let next := weekStartCal m (y + 1)
  let date := (y, mo, d)
  if lexLe prev date && lexLt date this then weekFromCalAt m y mo d prev (y - 1)
  else if lexLe this date && lexLt date next then weekFromCalAt m y mo d this y
  else weekFromCalAt m y mo d next (y + 1)

/-- `get_ordinal_date_from_week_date`. -/
def ordFromWeek (m : Mode) (y w d : Int) : Option (Int × Int) :=
  match calFromWeek m y w d with
  | some (cy, cmo, cd) => ordFromCal m cy cmo cd
  | none => none

/-- `get_week_date_from_ordinal_date`. -/
def weekFromOrd (m : Mode) (y doy : Int) : Option (Int × Int × Int) :=
  match calFromOrd m y doy with
  | some (cy, cmo, cd) => weekFromCal m cy cmo cd
  | none => none

/-- `TimePoint.get_calendar_date` / `get_ordinal_date` / `get_week_date` on a date kept in any of
    the three representations: re-express `dt` in representation `k` (0 calendar, 1 ordinal,
    2 week). -/
def convert (m : Mode) (k : Nat) (dt : Spec.Date) : Option Spec.Date :=
  match k, dt with
  | 0, .cal y mo d => some (.cal y mo d)
  | 0, .ord y doy => (calFromOrd m y doy).map fun r => .cal r.1 r.2.1 r.2.2
  | 0, .week y w d => (calFromWeek m y w d).map fun r => .cal r.1 r.2.1 r.2.2
  | 1, .cal y mo d => (ordFromCal m y mo d).map fun r => .ord r.1 r.2
  | 1, .ord y doy => some (.ord y doy)
  | 1, .week y w d => (ordFromWeek m y w d).map fun r => .ord r.1 r.2
  | 2, .cal y mo d => (weekFromCal m y mo d).map fun r => .week r.1 r.2.1 r.2.2
  | 2, .ord y doy => (weekFromOrd m y doy).map fun r => .week r.1 r.2.1 r.2.2
  | 2, .week y w d => some (.week y w d)
  | _, _ => none

end IsoDT.Model
