/-
  IsoDT.Model.CalendarAux — two helpers of data.py that `Model.Calendar` does not model as such
  (shaped like the code; hand-written; tied to the source by `Props/C03algo`):

  * `get_days_since_1_ad`;
  * `iter_months_days` / `_iter_months_days`: the list of (month, day) pairs of a year, optionally
    from a start month (and day), optionally in reverse.  `Model.Calendar` walks the indexed month
    table instead of this day list; `Lemmas/DayList` relates the two.
-/
import IsoDT.Model.Calendar

namespace IsoDT.Model
open IsoDT

/-- `get_days_since_1_ad(year)`: days from 1 January of year 1 to the end of `year` (0 before year 1). -/
def daysSince1AD (m : Mode) (y : Int) : Int :=
  if y = 1 then daysInYear m y
  else if y < 1 then 0
  else daysInYearRange m 1 y

def rangeUp (a : Int) : Nat → List Int
  | 0 => []
  | n + 1 => a :: rangeUp (a + 1) n

def rangeDn (a : Int) : Nat → List Int
  | 0 => []
  | n + 1 => a :: rangeDn (a - 1) n

/-- `range(a, b)`. -/
def upTo (a b : Int) : List Int := rangeUp a (b - a).toNat

/-- `range(a, b, -1)`. -/
def downTo (a b : Int) : List Int := rangeDn a (a - b).toNat

/-- Python `L[i:]` (a negative start counts from the end, clipped at 0). -/
def sliceFrom {α : Type} (l : List α) (i : Int) : List α :=
  if 0 ≤ i then l.drop i.toNat else l.drop ((l.length : Int) + i).toNat

def monthDays (mn : Int) (days : List Int) : List (Int × Int) := days.map fun d => (mn, d)

/-- `_iter_months_days(is_leap_year, month_of_year, day_of_month, _, in_reverse)`; `none` is the
    `ValueError` for a start day without a start month. -/
def iterMonthsDays (m : Mode) (lp : Bool) (mo d : Option Int) (rev : Bool) : Option (List (Int × Int)) :=
  if d ≠ none ∧ mo = none then none
  else
    let src := indexed m lp
    some <|
      match rev, mo with
      | true, none => src.reverse.flatMap fun p => monthDays p.1 (downTo p.2 0)
      | true, some mo =>
        src.reverse.flatMap fun p =>
          if p.1 > mo then []
          else match d with
            | some d => if p.1 = mo then monthDays p.1 (downTo d 0) else monthDays p.1 (downTo p.2 0)
            | none => monthDays p.1 (downTo p.2 0)
      | false, none => src.flatMap fun p => monthDays p.1 (upTo 1 (p.2 + 1))
      | false, some mo =>
        (sliceFrom src (mo - 1)).flatMap fun p =>
          match d with
          | some d => if p.1 = mo then monthDays p.1 (upTo d (p.2 + 1)) else monthDays p.1 (upTo 1 (p.2 + 1))
          | none => monthDays p.1 (upTo 1 (p.2 + 1))

/-- `iter_months_days(year, ...)`. -/
def iterMonthsDaysY (m : Mode) (y : Int) (mo d : Option Int) (rev : Bool) : Option (List (Int × Int)) :=
  iterMonthsDays m (isLeapYear y) mo d rev

end IsoDT.Model
