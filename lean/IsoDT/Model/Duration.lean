/-
  IsoDT.Model.Duration — executable model of `Duration` (data.py) over integer components:
  constructor, week form, arithmetic, equality, hashing, ordering.
-/
import IsoDT.Model.TimePoint

namespace IsoDT.Model
open IsoDT

/-- `Duration(years, months, weeks, days, hours, minutes, seconds)`: weeks are folded into days
    unless weeks is the only non-zero argument. -/
def mkDur (m : Mode) (y mo w d h mi s : Int) : Dur :=
  if w ≠ 0 ∧ y = 0 ∧ mo = 0 ∧ d = 0 ∧ h = 0 ∧ mi = 0 ∧ s = 0 then
    .weeks ((0 + (calOf m).daysInWeek * w) / (calOf m).daysInWeek)
  else .units y mo (d + (calOf m).daysInWeek * w) h mi s

/-- The empty duration `Duration()`. -/
def Dur.zero : Dur := .units 0 0 0 0 0 0

/-- `Duration.__add__(Duration)`. -/
def Dur.add (m : Mode) (a b : Dur) : Dur :=
  match a, b with
  | .weeks x, .weeks y => .weeks (x + y)
  | a, b =>
    match a.toDays m, b.toDays m with
    | .units y1 mo1 d1 h1 mi1 s1, .units y2 mo2 d2 h2 mi2 s2 =>
      .units (y1 + y2) (mo1 + mo2) (d1 + d2) (h1 + h2) (mi1 + mi2) (s1 + s2)
    | x, _ => x

/-- `Duration.__sub__`: `self + -1 * other`. -/
def Dur.sub (m : Mode) (a b : Dur) : Dur := Dur.add m a (b.mul (-1))

/-- `Duration.__abs__`. -/
def Dur.abs : Dur → Dur
  | .weeks w => .weeks w.natAbs
  | .units y mo d h mi s => .units y.natAbs mo.natAbs d.natAbs h.natAbs mi.natAbs s.natAbs

/-- `Duration.__floordiv__` (Python floor division; `none` for division by zero). -/
def Dur.floordiv (a : Dur) (n : Int) : Option Dur :=
  if n = 0 then none
  else match a with
    | .weeks w => some (.weeks (Int.fdiv w n))
    | .units y mo d h mi s =>
      some (.units (Int.fdiv y n) (Int.fdiv mo n) (Int.fdiv d n) (Int.fdiv h n) (Int.fdiv mi n) (Int.fdiv s n))

/-- `Duration.to_weeks`. -/
def Dur.toWeeks (m : Mode) : Dur → Dur
  | .weeks w => .weeks w
  | .units _ _ d _ _ _ => mkDur m 0 0 (d / (calOf m).daysInWeek) 0 0 0 0

/-- `Duration.get_days_and_seconds`. -/
def Dur.daysAndSeconds (m : Mode) : Dur → Int × Int
  | .weeks w => (w * (calOf m).daysInWeek, 0)
  | .units y mo d h mi s =>
    let c := calOf m
    let secs := h * c.secondsInHour + mi * c.secondsInMinute + s
    (y * c.roughDaysInYear + mo * c.roughDaysInMonth + d + secs / c.secondsInDay, secs % c.secondsInDay)

/-- `Duration.get_seconds`. -/
def Dur.seconds (m : Mode) (a : Dur) : Int :=
  if a.isExact then a.exactSeconds m
  else (a.daysAndSeconds m).1 * (calOf m).secondsInDay + (a.daysAndSeconds m).2

/-- `Duration.__eq__`. -/
def Dur.eq (m : Mode) (a b : Dur) : Bool :=
  if a.isExact then (if b.isExact then a.exactSeconds m == b.exactSeconds m else false)
  else
    match a, b with
    | .units y1 mo1 _ _ _ _, .units y2 mo2 _ _ _ _ =>
      y1 == y2 && mo1 == mo2 && a.exactSeconds m == b.exactSeconds m
    | _, _ => false

/-- The tuple `Duration.__hash__` hashes. -/
def Dur.hashKey (m : Mode) : Dur → Int × Int × Int
  | .weeks w => (0, 0, (Dur.weeks w).exactSeconds m)
  | .units y mo d h mi s => (y, mo, (Dur.units y mo d h mi s).exactSeconds m)

/-- Python tuple comparison of `get_days_and_seconds()`. -/
def pairLt (a b : Int × Int) : Bool := a.1 < b.1 || (a.1 == b.1 && a.2 < b.2)
def Dur.lt (m : Mode) (a b : Dur) : Bool := pairLt (a.daysAndSeconds m) (b.daysAndSeconds m)
def Dur.le (m : Mode) (a b : Dur) : Bool := !pairLt (b.daysAndSeconds m) (a.daysAndSeconds m)
def Dur.gt (m : Mode) (a b : Dur) : Bool := pairLt (b.daysAndSeconds m) (a.daysAndSeconds m)
def Dur.ge (m : Mode) (a b : Dur) : Bool := !pairLt (a.daysAndSeconds m) (b.daysAndSeconds m)

/-- `Duration.__bool__`. -/
def Dur.nonzero : Dur → Bool
  | .weeks w => w != 0
  | .units y mo d h mi s => y != 0 || mo != 0 || d != 0 || h != 0 || mi != 0 || s != 0

/-- `n`-fold addition of `d` to the empty duration. -/
def Dur.nfold (m : Mode) (d : Dur) : Nat → Dur
  | 0 => Dur.zero
  | k + 1 => Dur.add m (Dur.nfold m d k) d

end IsoDT.Model
