/-
  IsoDT.Model.DurationQ — executable model of `Duration` (data.py) with DECIMAL components.

  What the Python allows.  `Duration.__init__` type-checks its arguments: `years`, `months`,
  `weeks`, `days` must be `int` or an "integer like" number (`_int_caster`: `Duration(days=1.5)`
  raises `BadInputError`, `Duration(days=2.0)` is accepted and kept), while `hours`, `minutes`,
  `seconds` may be any `int` or `float`.  No operation of the class can give the first four a
  fraction afterwards (`+`, `* int`, `// int`, `abs`, `divmod(...)[0]` of whole numbers are whole).
  So a `Duration` proper is

    * week form: `_weeks` a whole number, every other slot `None`;
    * unit form: `_years`, `_months`, `_days` whole numbers, `_hours`, `_minutes`, `_seconds`
      numbers that may carry a fraction.

  `DurationQ` is exactly that, with `Int` for the whole slots and `Rat` for the others.  (The name
  `DurQ` is already taken by the days/h/m/s record of `Model.TimePointQ`.)

  Python computes on binary64 floats; every function here runs the same statements, in the same
  order and with the same week-form tests, over exact rationals.  So the model says what the
  ALGORITHM does and nothing about float rounding; on inputs and results that binary64 represents
  exactly (e.g. dyadic fractions of moderate size) the two coincide, which is what the harness
  compares.  Integer-valued components behave as in `Model.Duration` (`DurationQ.ofDur`,
  `Props/C11q.lean: C11_rat_extends_int`).
-/
import IsoDT.Model.Duration
import IsoDT.Model.TimePointQ

namespace IsoDT.Model
open IsoDT

/-- A `Duration` proper: week form, or unit form with rational hours / minutes / seconds. -/
inductive DurationQ where
  | weeks (w : Int)
  | units (y mo d : Int) (h mi s : Rat)
  deriving DecidableEq, Repr, Inhabited

namespace DurationQ

/-- The integer model's durations, embedded. -/
def ofDur : Dur → DurationQ
  | .weeks w => .weeks w
  | .units y mo d h mi s => .units y mo d (h : Rat) (mi : Rat) (s : Rat)

/-- `Duration(years, months, weeks, days, hours, minutes, seconds)` (`standardize=False`) on
    arguments that pass the type check: weeks are folded into days unless weeks is the only
    non-zero argument. -/
def mk (m : Mode) (y mo w d : Int) (h mi s : Rat) : DurationQ :=
  -- self._days = days; self._days += CALENDAR.DAYS_IN_WEEK * weeks
  -- if (weeks and not years and not months and not days and not hours and not minutes and not seconds):
  --     self._weeks = self._days // CALENDAR.DAYS_IN_WEEK; every other slot None
  if w ≠ 0 ∧ y = 0 ∧ mo = 0 ∧ d = 0 ∧ h = 0 ∧ mi = 0 ∧ s = 0 then
    .weeks ((0 + (calOf m).daysInWeek * w) / (calOf m).daysInWeek)
  else .units y mo (d + (calOf m).daysInWeek * w) h mi s

/-- `_int_caster`: a number is accepted for `years` / `months` / `weeks` / `days` only if it is
    whole ("Non-integer like number" → `BadInputError` → `none`). -/
def intLike? (x : Rat) : Option Int := if x.den = 1 then some x.num else none

/-- The constructor on arbitrary numbers: `none` where `_type_checker` raises `BadInputError`. -/
def mk? (m : Mode) (y mo w d h mi s : Rat) : Option DurationQ :=
  match intLike? y, intLike? mo, intLike? w, intLike? d with
  | some y, some mo, some w, some d => some (mk m y mo w d h mi s)
  | _, _, _, _ => none

/-- The empty duration `Duration()`. -/
def zero : DurationQ := .units 0 0 0 0 0 0

/-- `Duration.get_is_in_weeks`. -/
def isInWeeks : DurationQ → Bool
  | .weeks _ => true
  | .units .. => false

/-- `Duration.to_days`. -/
def toDays (m : Mode) : DurationQ → DurationQ
  | .weeks w => .units 0 0 (w * (calOf m).daysInWeek) 0 0 0
  | d => d

/-- `Duration.is_exact`: `if self._years or self._months: return False` (`None` is falsy). -/
def isExact : DurationQ → Bool
  | .weeks _ => true
  | .units y mo _ _ _ _ => y == 0 && mo == 0

/-- `Duration._get_non_nominal_seconds`. -/
def exactSeconds (m : Mode) : DurationQ → Rat
  | .weeks w => ((w * (calOf m).daysInWeek * (calOf m).secondsInDay : Int) : Rat)
  | .units _ _ d h mi s =>
    ((d * (calOf m).secondsInDay : Int) : Rat) + h * ((calOf m).secondsInHour : Rat) +
      mi * ((calOf m).secondsInMinute : Rat) + s

/-- `Duration.__mul__` by an `int` (every slot that is not `None` is multiplied). -/
def mul : DurationQ → Int → DurationQ
  | .weeks w, n => .weeks (w * n)
  | .units y mo d h mi s, n => .units (y * n) (mo * n) (d * n) (h * (n : Rat)) (mi * (n : Rat)) (s * (n : Rat))

/-- `-1 * d` (the class has no `__neg__`). -/
def neg (d : DurationQ) : DurationQ := d.mul (-1)

/-- `Duration.__add__(Duration)`. -/
def add (m : Mode) (a b : DurationQ) : DurationQ :=
  match a, b with
  -- if new.get_is_in_weeks(): if other.get_is_in_weeks(): new._weeks += other._weeks; return new
  | .weeks x, .weeks y => .weeks (x + y)
  -- new = new.to_days()  /  other = other.to_days();  slot by slot `+=`
  | a, b =>
    match a.toDays m, b.toDays m with
    | .units y1 mo1 d1 h1 mi1 s1, .units y2 mo2 d2 h2 mi2 s2 =>
      .units (y1 + y2) (mo1 + mo2) (d1 + d2) (h1 + h2) (mi1 + mi2) (s1 + s2)
    | x, _ => x

/-- `Duration.__sub__`: `self + -1 * other`. -/
def sub (m : Mode) (a b : DurationQ) : DurationQ := add m a (b.mul (-1))

/-- `Duration.__abs__`. -/
def abs : DurationQ → DurationQ
  | .weeks w => .weeks w.natAbs
  | .units y mo d h mi s => .units y.natAbs mo.natAbs d.natAbs h.abs mi.abs s.abs

/-- Python `x // n` on a number that may carry a fraction: the floor of the quotient. -/
def floorDivQ (x : Rat) (n : Int) : Rat := ((x / (n : Rat)).floor : Rat)

/-- `Duration.__floordiv__` by an `int` (`ZeroDivisionError` → `none`). -/
def floordiv (a : DurationQ) (n : Int) : Option DurationQ :=
  if n = 0 then none
  else match a with
    | .weeks w => some (.weeks (Int.fdiv w n))
    | .units y mo d h mi s =>
      some (.units (Int.fdiv y n) (Int.fdiv mo n) (Int.fdiv d n) (floorDivQ h n) (floorDivQ mi n) (floorDivQ s n))

/-- `Duration.to_weeks`: `Duration(weeks=self._days // 7)` — hours, minutes, seconds (and years,
    months, and the days beyond whole weeks) are dropped. -/
def toWeeks (m : Mode) : DurationQ → DurationQ
  | .weeks w => .weeks w
  | .units _ _ d _ _ _ => mk m 0 0 (d / (calOf m).daysInWeek) 0 0 0 0

/-- `Duration.get_days_and_seconds`: `divmod(new_seconds, SECONDS_IN_DAY)`, seconds in
    `[0, 86400)` possibly with a fraction. -/
def daysAndSeconds (m : Mode) : DurationQ → Int × Rat
  | .weeks w => (w * (calOf m).daysInWeek, 0)
  | .units y mo d h mi s =>
    let c := calOf m
    let newDays := y * c.roughDaysInYear + mo * c.roughDaysInMonth + d
    let newSeconds := h * (c.secondsInHour : Rat) + mi * (c.secondsInMinute : Rat) + s
    let r := divmodQ newSeconds c.secondsInDay
    (newDays + r.1, r.2)

/-- `Duration.get_seconds`. -/
def seconds (m : Mode) (a : DurationQ) : Rat :=
  if a.isExact then a.exactSeconds m
  else ((a.daysAndSeconds m).1 : Rat) * ((calOf m).secondsInDay : Rat) + (a.daysAndSeconds m).2

/-- `Duration.__eq__`. -/
def eq (m : Mode) (a b : DurationQ) : Bool :=
  if a.isExact then (if b.isExact then a.exactSeconds m == b.exactSeconds m else false)
  else
    match a, b with
    | .units y1 mo1 _ _ _ _, .units y2 mo2 _ _ _ _ =>
      y1 == y2 && mo1 == mo2 && a.exactSeconds m == b.exactSeconds m
    | _, _ => false   -- `self._years == None`

/-- The tuple `Duration.__hash__` hashes (Python hashes numbers by value: `hash(1.0) == hash(1)`). -/
def hashKey (m : Mode) : DurationQ → Int × Int × Rat
  | .weeks w => (0, 0, (weeks w).exactSeconds m)
  | .units y mo d h mi s => (y, mo, (units y mo d h mi s).exactSeconds m)

/-- Python tuple comparison of two `get_days_and_seconds()` results. -/
def pairLt (a b : Int × Rat) : Bool := a.1 < b.1 || (a.1 == b.1 && a.2 < b.2)
def lt (m : Mode) (a b : DurationQ) : Bool := pairLt (a.daysAndSeconds m) (b.daysAndSeconds m)
def le (m : Mode) (a b : DurationQ) : Bool := !pairLt (b.daysAndSeconds m) (a.daysAndSeconds m)
def gt (m : Mode) (a b : DurationQ) : Bool := pairLt (b.daysAndSeconds m) (a.daysAndSeconds m)
def ge (m : Mode) (a b : DurationQ) : Bool := !pairLt (a.daysAndSeconds m) (b.daysAndSeconds m)

/-- `Duration.__bool__`. -/
def nonzero : DurationQ → Bool
  | .weeks w => w != 0
  | .units y mo d h mi s => y != 0 || mo != 0 || d != 0 || h != 0 || mi != 0 || s != 0

/-- `n`-fold addition of `d` to the empty duration. -/
def nfold (m : Mode) (d : DurationQ) : Nat → DurationQ
  | 0 => zero
  | k + 1 => add m (nfold m d k) d

/-- The `standardize=True` block of `Duration.__init__`, run on an already constructed duration
    (week form: every guarded slot is `None`, nothing happens): seconds carry into minutes,
    minutes into hours, hours into days, each by `divmod`. -/
def standardize (m : Mode) : DurationQ → DurationQ
  | .weeks w => .weeks w
  | .units y mo d h mi s =>
    let c := calOf m
    -- if self._seconds: num_minutes, self._seconds = divmod(self._seconds, 60); self._minutes += num_minutes
    let r1 := divmodQ s c.secondsInMinute
    let mi1 := mi + (r1.1 : Rat)
    -- if self._minutes: num_hours, self._minutes = divmod(self._minutes, 60); self._hours += num_hours
    let r2 := divmodQ mi1 c.minutesInHour
    let h1 := h + (r2.1 : Rat)
    -- if self._hours: num_days, self._hours = divmod(self._hours, 24); self._days += num_days
    let r3 := divmodQ h1 c.hoursInDay
    .units y mo (d + r3.1) r3.2 r2.2 r1.2

/-- `Duration(..., standardize=True)`. -/
def mkStd (m : Mode) (y mo w d : Int) (h mi s : Rat) : DurationQ := (mk m y mo w d h mi s).standardize m

/-- The exact units as `TimePoint.__add__` consumes them (`to_days`, then days/h/m/s). -/
def toDurQ (m : Mode) (a : DurationQ) : DurQ :=
  match a.toDays m with
  | .units _ _ d h mi s => ⟨d, h, mi, s⟩
  | .weeks w => ⟨w * (calOf m).daysInWeek, 0, 0, 0⟩

end DurationQ
end IsoDT.Model
