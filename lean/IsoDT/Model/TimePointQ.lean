/-
  IsoDT.Model.TimePointQ — executable model of `TimePoint._tick_over` and of the exact part of
  `TimePoint.__add__` (data.py) with the hour / minute / second slots as the Python keeps them:
  numbers that may carry a fraction, the minute and second slots possibly `None`
  (the three reduced-precision forms of `TimePoint.__init__`'s `*_decimal` arguments:
  decimal seconds = all three slots present; decimal minutes = `_second_of_minute is None`;
  decimal hours = `_minute_of_hour is None and _second_of_minute is None`).

  Python computes on binary floats; the model runs the same statements, in the same order and
  with the same `is not None` guards, over exact rationals (`Rat`).  So the model says what the
  ALGORITHM does; it says nothing about float rounding.

  The date carry at the end of `_tick_over` (days, weeks, months, years) is the integer one of
  `Model.TimePoint.tickOver`, reused unchanged.  An operation on which the Python raises
  (`None += number`, only possible if the second slot is present and the minute slot is not) is
  `none`.
-/
import IsoDT.Model.TimePoint

namespace IsoDT.Model
open IsoDT
open IsoDT.Spec (Date TZ TP)

/-- A non-truncated time point with `_hour_of_day`, `_minute_of_hour`, `_second_of_minute` as
    rationals, the last two possibly `None` (`ss` is present only if `mi` is). -/
structure TPQ where
  date : Date
  hh : Rat
  mi : Option Rat
  ss : Option Rat
  tz : TZ
  deriving DecidableEq, Repr, Inhabited

/-- The exact units of a `Duration` (`weeks` already folded into `days`, as `to_days` does):
    `_days` is an `int`; `_hours`, `_minutes`, `_seconds` may carry a fraction. -/
structure DurQ where
  days : Int
  h : Rat
  mi : Rat
  s : Rat
  deriving DecidableEq, Repr, Inhabited

/-- Python `int(x)`: truncation toward zero. -/
def truncQ (x : Rat) : Int := if x < 0 then x.ceil else x.floor

/-- Python `divmod(x, n)` for `n > 0`: floor quotient, remainder in `[0, n)`. -/
def divmodQ (x : Rat) (n : Int) : Int × Rat :=
  let q := (x / (n : Rat)).floor
  (q, x - (q : Rat) * (n : Rat))

/-- The hour / minute / second slots. -/
structure HMS where
  hh : Rat
  mi : Option Rat
  ss : Option Rat
  deriving DecidableEq, Repr, Inhabited

/-- The time-of-day statements of `_tick_over`, one `let` per `if` block; returns `num_days`
    and the new slots. -/
def tickTimeQ (m : Mode) (t0 : HMS) : Option (Int × HMS) :=
  let c := calOf m
  -- if self._hour_of_day is not None and self._minute_of_hour is not None:
  --     hours_remainder = self._hour_of_day - int(self._hour_of_day)
  --     self._hour_of_day -= hours_remainder
  --     self._minute_of_hour += hours_remainder * CALENDAR.MINUTES_IN_HOUR
  let t1 : HMS :=
    match t0.mi with
    | some mi =>
      let hr := t0.hh - (truncQ t0.hh : Rat)
      { t0 with hh := t0.hh - hr, mi := some (mi + hr * (c.minutesInHour : Rat)) }
    | none => t0
  -- if self._minute_of_hour is not None and self._second_of_minute is not None:
  --     minutes_remainder = self._minute_of_hour - int(self._minute_of_hour)
  --     self._minute_of_hour -= minutes_remainder
  --     self._second_of_minute += minutes_remainder * CALENDAR.SECONDS_IN_MINUTE
  let t2 : HMS :=
    match t1.mi, t1.ss with
    | some mi, some ss =>
      let mr := mi - (truncQ mi : Rat)
      { t1 with mi := some (mi - mr), ss := some (ss + mr * (c.secondsInMinute : Rat)) }
    | _, _ => t1
  -- if self._second_of_minute is not None:
  --     num_minutes, seconds = divmod(self._second_of_minute, CALENDAR.SECONDS_IN_MINUTE)
  --     self._minute_of_hour += num_minutes          (TypeError if the minute slot is None)
  --     self._second_of_minute = seconds
  let t3? : Option HMS :=
    match t2.ss with
    | some ss =>
      match t2.mi with
      | some mi =>
        let r := divmodQ ss c.secondsInMinute
        some { t2 with mi := some (mi + (r.1 : Rat)), ss := some r.2 }
      | none => none
    | none => some t2
  t3?.map fun t3 =>
  -- if self._minute_of_hour is not None:
  --     num_hours, minutes = divmod(self._minute_of_hour, CALENDAR.MINUTES_IN_HOUR)
  --     self._hour_of_day += num_hours
  --     self._minute_of_hour = minutes
  let t4 : HMS :=
    match t3.mi with
    | some mi =>
      let r := divmodQ mi c.minutesInHour
      { t3 with hh := t3.hh + (r.1 : Rat), mi := some r.2 }
    | none => t3
  -- num_days, hours = divmod(self._hour_of_day, CALENDAR.HOURS_IN_DAY); num_days = int(num_days)
  -- ... self._hour_of_day = hours
  let r := divmodQ t4.hh c.hoursInDay
  (r.1, { t4 with hh := r.2 })

/-- The date statements of `_tick_over` for a carry of `n` days: the integer model's, run on a
    point whose time of day is exactly `n` days (`24·n` hours, 0 minutes, 0 seconds). -/
def carryDays (m : Mode) (date : Date) (tz : TZ) (n : Int) : Option Date :=
  (tickOver m ⟨date, (calOf m).hoursInDay * n, 0, 0, tz⟩).map (·.date)

/-- `TimePoint._tick_over`. -/
def tickOverQ (m : Mode) (p : TPQ) : Option TPQ :=
  match tickTimeQ m ⟨p.hh, p.mi, p.ss⟩ with
  | some (numDays, t) =>
    (carryDays m p.date p.tz numDays).map fun dt =>
      { p with date := dt, hh := t.hh, mi := t.mi, ss := t.ss }
  | none => none

/-- `_get_end_of_day_normalised`: `if self._hour_of_day != 24: return self`, else tick over. -/
def normalise24Q (m : Mode) (p : TPQ) : Option TPQ :=
  if p.hh = ((calOf m).hoursInDay : Rat) then tickOverQ m p else some p

/-- `if duration._seconds:` — the seconds go to the finest slot that is not `None`. -/
def stepSQ (m : Mode) (p : TPQ) (s : Rat) : Option TPQ :=
  if s ≠ 0 then
    match p.ss with
    | none =>
      match p.mi with
      | none => tickOverQ m { p with hh := p.hh + s / ((calOf m).secondsInHour : Rat) }
      | some mi => tickOverQ m { p with mi := some (mi + s / ((calOf m).secondsInMinute : Rat)) }
    | some ss => tickOverQ m { p with ss := some (ss + s) }
  else some p

/-- `if duration._minutes:`. -/
def stepMQ (m : Mode) (p : TPQ) (x : Rat) : Option TPQ :=
  if x ≠ 0 then
    match p.mi with
    | none => tickOverQ m { p with hh := p.hh + x / ((calOf m).minutesInHour : Rat) }
    | some mi => tickOverQ m { p with mi := some (mi + x) }
  else some p

/-- `if duration._hours:`. -/
def stepHQ (m : Mode) (p : TPQ) (x : Rat) : Option TPQ :=
  if x ≠ 0 then tickOverQ m { p with hh := p.hh + x } else some p

/-- `if duration._days:`. -/
def stepDQ (m : Mode) (p : TPQ) (d : Int) : Option TPQ :=
  if d ≠ 0 then tickOverQ m { p with date := bumpDay p.date d } else some p

/-- The exact part of `TimePoint.__add__`: 24:00 normalised, then seconds, minutes, hours, days,
    each followed by `_tick_over` when non-zero. -/
def addExactQ (m : Mode) (p : TPQ) (d : DurQ) : Option TPQ :=
  (normalise24Q m p).bind fun p0 =>
  (stepSQ m p0 d.s).bind fun p1 =>
  (stepMQ m p1 d.mi).bind fun p2 =>
  (stepHQ m p2 d.h).bind fun p3 =>
  stepDQ m p3 d.days

/-- A whole-second point as a `TPQ` with all three slots present. -/
def TPQ.ofTP (p : TP) : TPQ := ⟨p.date, (p.hh : Rat), some (p.mi : Rat), some (p.ss : Rat), p.tz⟩

end IsoDT.Model
